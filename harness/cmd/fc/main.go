// Command fc drives the real fork choice (forkchoice.ProtoForkChoice over proto.ProtoArray and
// proto.ProtoVoteStore) with histories of public-API calls and records one ndjson event per call.
//
//	fc gen    -seed S -hist N -ops K        > ops.ndjson     (seeded random histories of calls)
//	fc exec   -in ops.ndjson -out trace.ndjson               (run calls on the real code, log replies)
//
// Histories are sequences of op records; an "Init" op starts a new history on a fresh object.
// Roots are small integers r encoded big-endian in the first two bytes of the 32-byte root, so the
// byte order used for tie-breaks equals the integer order used by the specification.
package main

import (
	"bufio"
	"context"
	"encoding/json"
	"errors"
	"flag"
	"fmt"
	"math/rand"
	"os"
	"sort"
	"time"

	"github.com/protolambda/zrnt/eth2/beacon/common"
	"github.com/protolambda/zrnt/eth2/forkchoice"
	"github.com/protolambda/zrnt/eth2/forkchoice/proto"
)

type CP struct {
	Epoch int `json:"epoch"`
	Root  int `json:"root"`
}

// Op is both the input (call + arguments) and, after execution, the logged event.
type Op struct {
	Ev string `json:"ev"`
	H  int    `json:"h"`
	// Init
	SPE     int `json:"spe,omitempty"`
	NilSink int `json:"nilsink"`
	// common argument names
	Parent  int   `json:"parent"`
	Root    int   `json:"root"`
	Slot    int   `json:"slot"`
	JE      int   `json:"je"`
	FE      int   `json:"fe"`
	V       int   `json:"v"`
	Trigger int   `json:"trigger"`
	J       CP    `json:"j"`
	F       CP    `json:"f"`
	Bal     []int `json:"bal"`
	BalErr  int   `json:"balerr"`
	// sink fails on its k-th invocation (0 = never)
	SinkFail int `json:"sinkfail"`
	// query
	Q         string `json:"q"`
	Anchor    int    `json:"anchor"`
	WithBlock int    `json:"withblock"`
	UsePar    int    `json:"usepar"`
	UseSlot   int    `json:"useslot"`
	ObsHead   int    `json:"obshead"`

	// results
	Out    string  `json:"out"` // ok | panic | timeout
	Ret    *Ret    `json:"ret"`
	Pruned [][]int `json:"pruned"`
	Obs    *Obs    `json:"obs"`
	Detail string  `json:"detail,omitempty"`
}

type Ret struct {
	Ok      int     `json:"ok"`
	Root    int     `json:"root"`
	Slot    int     `json:"slot"`
	Unknown int     `json:"unknown"`
	In      int     `json:"in"`
	Chain   [][]int `json:"chain"`
	Canon   [][]int `json:"canon"`
	Non     [][]int `json:"non"`
}

type Obs struct {
	// node table after a successful Head() call (weights and best-child links are fresh then):
	// [root, slot, weight, bestChildRoot, bestChildSlot, bestDescRoot, bestDescSlot, hasForkchoiceParent]
	Table   [][]int `json:"table"`
	HasHead int     `json:"hashead"`
	Head    []int   `json:"head"` // [ok, root, slot]
	Nodes   [][]int `json:"nodes"`
	Just    []int   `json:"just"`
	Fin     []int   `json:"fin"`
	Pin     []int   `json:"pin"`
}

func mkRoot(r int) (out common.Root) {
	out[0] = byte(r >> 8)
	out[1] = byte(r)
	return
}

func rootID(r common.Root) int {
	for i := 2; i < 32; i++ {
		if r[i] != 0 {
			return -1
		}
	}
	return int(r[0])<<8 | int(r[1])
}

func b2i(b bool) int {
	if b {
		return 1
	}
	return 0
}

type target struct {
	// results handed out earlier must not change under the caller's feet: the slices returned by CanonicalChain and
	// Search are kept together with a copy of their content and compared again after every later call
	heldChain     []forkchoice.ExtendedNodeRef
	heldChainCopy []forkchoice.ExtendedNodeRef
	heldRefs      [][]forkchoice.NodeRef
	heldRefsCopy  [][]forkchoice.NodeRef
	unstable      string
	fc            forkchoice.Forkchoice
	arr           *proto.ProtoArray
	spec          *common.Spec
	sinkN         int
	sinkFail      int
	pruned        [][]int
	dead          bool
}

func (t *target) sink(ctx context.Context, ref forkchoice.NodeRef, canonical bool) error {
	t.sinkN++
	t.pruned = append(t.pruned, []int{rootID(ref.Root), int(ref.Slot), b2i(canonical)})
	if t.sinkFail != 0 && t.sinkN == t.sinkFail {
		return errors.New("scripted sink failure")
	}
	return nil
}

// guarded runs fn with panic recovery and a watchdog; returns "ok", "panic" or "timeout".
func guarded(fn func()) (out string, detail string) {
	done := make(chan string, 1)
	det := make(chan string, 1)
	go func() {
		defer func() {
			if r := recover(); r != nil {
				det <- fmt.Sprint(r)
				done <- "panic"
			}
		}()
		fn()
		done <- "ok"
	}()
	finish := func(o string) (string, string) {
		if o == "panic" {
			return o, <-det
		}
		return o, ""
	}
	select {
	case o := <-done:
		return finish(o)
	case <-time.After(3 * time.Second):
	}
	// Not back after 3 s: on a heavily loaded machine that can be scheduling delay. Give the call more time
	// before calling it blocked - unless calls have already been confirmed blocked several times in this run
	// (a systematic deadlock), in which case the short deadline stands.
	if confirmedTimeouts < 3 {
		select {
		case o := <-done:
			return finish(o)
		case <-time.After(27 * time.Second):
		}
	}
	confirmedTimeouts++
	return "timeout", ""
}

var confirmedTimeouts int

func gweis(b []int) []forkchoice.Gwei {
	out := make([]forkchoice.Gwei, len(b))
	for i, x := range b {
		out[i] = forkchoice.Gwei(x)
	}
	return out
}

func refRet(ref forkchoice.NodeRef, err error) *Ret {
	if err != nil {
		return &Ret{Ok: 0}
	}
	return &Ret{Ok: 1, Root: rootID(ref.Root), Slot: int(ref.Slot)}
}

func refs(rs []forkchoice.NodeRef) [][]int {
	out := [][]int{}
	for _, r := range rs {
		out = append(out, []int{rootID(r.Root), int(r.Slot)})
	}
	sort.Slice(out, func(i, j int) bool {
		if out[i][0] != out[j][0] {
			return out[i][0] < out[j][0]
		}
		return out[i][1] < out[j][1]
	})
	return out
}

func (t *target) table() [][]int {
	nodes, off := t.arr.VerifNodes()
	ref := func(i forkchoice.NodeIndex) (int, int) {
		if i == proto.NONE || i < off || int(i-off) >= len(nodes) {
			if i != proto.NONE {
				return -1, -1 // a link that points outside the table
			}
			return 0, 0
		}
		n := nodes[i-off]
		return rootID(n.Ref.Root), int(n.Ref.Slot)
	}
	out := make([][]int, 0, len(nodes))
	for _, n := range nodes {
		bcr, bcs := ref(n.BestChild)
		bdr, bds := ref(n.BestDescendant)
		out = append(out, []int{rootID(n.Ref.Root), int(n.Ref.Slot), int(n.Weight), bcr, bcs, bdr, bds,
			b2i(n.ForkchoiceParent != proto.NONE)})
	}
	return out
}

func (t *target) observe(op *Op) {
	obs := &Obs{Head: []int{0, 0, 0}, Nodes: [][]int{}, Pin: []int{}}
	var keys []forkchoice.NodeRef
	for k := range t.arr.Indices() {
		keys = append(keys, k)
	}
	obs.Nodes = refs(keys)
	out, _ := guarded(func() {
		j := t.fc.Justified()
		f := t.fc.Finalized()
		obs.Just = []int{int(j.Epoch), rootID(j.Root)}
		obs.Fin = []int{int(f.Epoch), rootID(f.Root)}
		if p := t.fc.Pin(); p != nil {
			obs.Pin = []int{rootID(p.Root), int(p.Slot)}
		}
	})
	if out != "ok" {
		op.Out = out
		op.Detail = "observing checkpoints: " + out
		t.dead = true
		op.Obs = obs
		return
	}
	if op.ObsHead != 0 {
		out, det := guarded(func() {
			h, err := t.fc.Head()
			obs.HasHead = 1
			if err == nil {
				obs.Head = []int{1, rootID(h.Root), int(h.Slot)}
				obs.Table = t.table()
			} else {
				op.Detail += " head: " + err.Error()
			}
		})
		if out != "ok" {
			// a Head() call that panics or blocks is recorded as such
			obs.HasHead = 1
			obs.Head = []int{-1, 0, 0}
			op.Detail = "Head(): " + out + " " + det
			t.dead = true
		}
	}
	op.Obs = obs
}

// stable reports whether the results handed out earlier still hold what they held when they were returned.
func (t *target) stable() (bool, string) {
	if len(t.heldChain) != len(t.heldChainCopy) {
		return false, "CanonicalChain result changed length"
	}
	for i := range t.heldChain {
		if t.heldChain[i] != t.heldChainCopy[i] {
			return false, fmt.Sprintf("CanonicalChain result entry %d changed after a later call", i)
		}
	}
	for k := range t.heldRefs {
		if len(t.heldRefs[k]) != len(t.heldRefsCopy[k]) {
			return false, "Search result changed length"
		}
		for i := range t.heldRefs[k] {
			if t.heldRefs[k][i] != t.heldRefsCopy[k][i] {
				return false, fmt.Sprintf("Search result entry %d changed after a later call", i)
			}
		}
	}
	return true, ""
}

func (t *target) exec(op *Op) {
	op.Pruned = [][]int{}
	var fn func()
	switch op.Ev {
	case "ProcessSlot":
		fn = func() {
			t.fc.ProcessSlot(mkRoot(op.Parent), common.Slot(op.Slot), common.Epoch(op.JE), common.Epoch(op.FE))
			op.Ret = &Ret{Ok: 1}
		}
	case "ProcessBlock":
		fn = func() {
			ok := t.fc.ProcessBlock(mkRoot(op.Parent), mkRoot(op.Root), common.Slot(op.Slot), common.Epoch(op.JE), common.Epoch(op.FE))
			op.Ret = &Ret{Ok: b2i(ok)}
		}
	case "ProcessAttestation":
		fn = func() {
			ok := t.fc.ProcessAttestation(common.ValidatorIndex(op.V), mkRoot(op.Root), common.Slot(op.Slot))
			op.Ret = &Ret{Ok: b2i(ok)}
		}
	case "SetPin":
		fn = func() {
			err := t.fc.SetPin(mkRoot(op.Root), common.Slot(op.Slot))
			op.Ret = &Ret{Ok: b2i(err == nil)}
		}
	case "UpdateJustified":
		fn = func() {
			t.sinkN = 0
			t.sinkFail = op.SinkFail
			t.pruned = [][]int{}
			err := t.fc.UpdateJustified(context.Background(), mkRoot(op.Trigger),
				common.Checkpoint{Epoch: common.Epoch(op.J.Epoch), Root: mkRoot(op.J.Root)},
				common.Checkpoint{Epoch: common.Epoch(op.F.Epoch), Root: mkRoot(op.F.Root)},
				func() ([]forkchoice.Gwei, error) {
					if op.BalErr != 0 {
						return nil, errors.New("scripted balances failure")
					}
					return gweis(op.Bal), nil
				})
			op.Ret = &Ret{Ok: b2i(err == nil)}
			if err != nil {
				op.Detail = err.Error()
			}
		}
	case "Query":
		switch op.Q {
		case "Head":
			fn = func() { h, err := t.fc.Head(); op.Ret = refRet(h, err) }
		case "FindHead":
			fn = func() { h, err := t.fc.FindHead(mkRoot(op.Anchor), common.Slot(op.Slot)); op.Ret = refRet(h, err) }
		case "CanonicalChain":
			fn = func() {
				ch, err := t.fc.CanonicalChain(mkRoot(op.Anchor), common.Slot(op.Slot))
				if ok, why := t.stable(); !ok && t.unstable == "" {
					t.unstable = why // the earlier result changed while this call ran
				}
				if err == nil {
					t.heldChain = ch
					t.heldChainCopy = append([]forkchoice.ExtendedNodeRef(nil), ch...)
				}
				r := &Ret{Ok: b2i(err == nil), Chain: [][]int{}}
				if err == nil {
					for _, e := range ch {
						r.Chain = append(r.Chain, []int{rootID(e.Root), int(e.Slot), rootID(e.ParentRoot)})
					}
				}
				op.Ret = r
			}
		case "InSubtree":
			fn = func() {
				u, in := t.fc.InSubtree(mkRoot(op.Anchor), mkRoot(op.Root))
				op.Ret = &Ret{Ok: 1, Unknown: b2i(u), In: b2i(in)}
			}
		case "ClosestToSlot":
			fn = func() { r, err := t.fc.ClosestToSlot(mkRoot(op.Anchor), common.Slot(op.Slot)); op.Ret = refRet(r, err) }
		case "CanonAtSlot":
			fn = func() {
				r, err := t.fc.CanonAtSlot(mkRoot(op.Anchor), common.Slot(op.Slot), op.WithBlock != 0)
				op.Ret = refRet(r, err)
			}
		case "GetSlot":
			fn = func() {
				s, ok := t.fc.GetSlot(mkRoot(op.Root))
				op.Ret = &Ret{Ok: b2i(ok), Slot: int(s)}
				if !ok {
					op.Ret.Slot = 0
				}
			}
		case "Search":
			fn = func() {
				var pr *forkchoice.Root
				var sl *forkchoice.Slot
				if op.UsePar != 0 {
					r := mkRoot(op.Parent)
					pr = &r
				}
				if op.UseSlot != 0 {
					s := common.Slot(op.FE) // the slot filter travels in "fe" to keep "slot" for the anchor
					sl = &s
				}
				non, canon, err := t.fc.Search(forkchoice.NodeRef{Root: mkRoot(op.Anchor), Slot: common.Slot(op.Slot)}, pr, sl)
				r := &Ret{Ok: b2i(err == nil), Canon: [][]int{}, Non: [][]int{}}
				if ok, why := t.stable(); !ok && t.unstable == "" {
					t.unstable = why
				}
				if err == nil {
					t.heldRefs = [][]forkchoice.NodeRef{canon, non}
					t.heldRefsCopy = [][]forkchoice.NodeRef{append([]forkchoice.NodeRef(nil), canon...), append([]forkchoice.NodeRef(nil), non...)}
					r.Canon = refs(canon)
					r.Non = refs(non)
				}
				op.Ret = r
			}
		}
	}
	if fn == nil {
		op.Out = "ok"
		op.Detail = "unknown op"
		return
	}
	out, det := guarded(fn)
	op.Out = out
	if out != "ok" {
		op.Ret = &Ret{}
		op.Detail = det
		t.dead = true
	}
	if op.Ev == "UpdateJustified" {
		op.Pruned = t.pruned
		if op.Pruned == nil {
			op.Pruned = [][]int{}
		}
	}
	if op.Ret != nil {
		if op.Ret.Chain == nil {
			op.Ret.Chain = [][]int{}
		}
		if op.Ret.Canon == nil {
			op.Ret.Canon = [][]int{}
		}
		if op.Ret.Non == nil {
			op.Ret.Non = [][]int{}
		}
	}
	if op.Ev != "Query" && !t.dead {
		t.observe(op)
	}
}

func initTarget(op *Op) *target {
	spec := &common.Spec{}
	spec.SLOTS_PER_EPOCH = common.Slot(op.SPE)
	t := &target{spec: spec}
	var sink proto.NodeSink
	if op.NilSink == 0 {
		sink = proto.NodeSinkFn(t.sink)
	}
	op.Pruned = [][]int{}
	out, det := guarded(func() {
		just := common.Checkpoint{Epoch: common.Epoch(op.J.Epoch), Root: mkRoot(op.J.Root)}
		fin := common.Checkpoint{Epoch: common.Epoch(op.F.Epoch), Root: mkRoot(op.F.Root)}
		// the public constructor, as a client uses it; the graph it wired in is read back through the verif hook
		fc, err := proto.NewProtoForkChoice(spec, fin, just, mkRoot(op.Root), common.Slot(op.Slot), mkRoot(op.Parent),
			gweis(op.Bal), sink)
		op.Ret = &Ret{Ok: b2i(err == nil)}
		if err == nil {
			t.fc = fc
			t.arr = fc.(*forkchoice.ProtoForkChoice).VerifGraph().(*proto.ProtoArray)
		} else {
			op.Detail = err.Error()
		}
	})
	op.Out = out
	if out != "ok" || t.fc == nil {
		if op.Ret == nil {
			op.Ret = &Ret{}
		}
		op.Detail += det
		t.dead = true
		return t
	}
	t.observe(op)
	return t
}

// normalize removes nulls (TLC's Json module cannot read them).
func normalize(op *Op) {
	if op.Ret == nil {
		op.Ret = &Ret{}
	}
	if op.Ret.Chain == nil {
		op.Ret.Chain = [][]int{}
	}
	if op.Ret.Canon == nil {
		op.Ret.Canon = [][]int{}
	}
	if op.Ret.Non == nil {
		op.Ret.Non = [][]int{}
	}
	if op.Pruned == nil {
		op.Pruned = [][]int{}
	}
	if op.Bal == nil {
		op.Bal = []int{}
	}
	if op.Obs == nil {
		op.Obs = &Obs{}
	}
	o := op.Obs
	if o.Head == nil {
		o.Head = []int{0, 0, 0}
	}
	if o.Nodes == nil {
		o.Nodes = [][]int{}
	}
	if o.Table == nil {
		o.Table = [][]int{}
	}
	if o.Just == nil {
		o.Just = []int{0, 0}
	}
	if o.Fin == nil {
		o.Fin = []int{0, 0}
	}
	if o.Pin == nil {
		o.Pin = []int{}
	}
}

func execAll(in, out string) error {
	f, err := os.Open(in)
	if err != nil {
		return err
	}
	defer f.Close()
	o, err := os.Create(out)
	if err != nil {
		return err
	}
	defer o.Close()
	w := bufio.NewWriter(o)
	defer w.Flush()
	sc := bufio.NewScanner(f)
	sc.Buffer(make([]byte, 1<<20), 1<<26)
	var t *target
	for sc.Scan() {
		line := sc.Bytes()
		if len(line) == 0 {
			continue
		}
		var op Op
		if err := json.Unmarshal(line, &op); err != nil {
			return err
		}
		if op.Bal == nil {
			op.Bal = []int{}
		}
		if op.Ev == "Init" {
			t = initTarget(&op)
		} else {
			if t == nil || t.dead {
				// the object of this history is unusable (a call blocked or panicked): skip the rest
				continue
			}
			t.exec(&op)
		}
		normalize(&op)
		b, _ := json.Marshal(&op)
		w.Write(b)
		w.WriteByte('\n')
		if t != nil && !t.dead && op.Ev != "Init" {
			ok, why := t.stable()
			if t.unstable != "" {
				ok, why = false, t.unstable
				t.unstable = ""
			}
			if !ok {
				st := Op{Ev: "Query", H: op.H, Q: "ResultStable", Out: "ok", Ret: &Ret{Ok: 0}, Detail: why}
				normalize(&st)
				sb, _ := json.Marshal(&st)
				w.Write(sb)
				w.WriteByte('\n')
				t.heldChain, t.heldChainCopy, t.heldRefs, t.heldRefsCopy = nil, nil, nil, nil
			}
		}
	}
	return sc.Err()
}

func main() {
	if len(os.Args) < 2 {
		fmt.Fprintln(os.Stderr, "usage: fc gen|exec ...")
		os.Exit(2)
	}
	switch os.Args[1] {
	case "gen":
		fs := flag.NewFlagSet("gen", flag.ExitOnError)
		seed := fs.Int64("seed", 1, "")
		hist := fs.Int("hist", 10, "")
		ops := fs.Int("ops", 30, "")
		profile := fs.String("profile", "mixed", "")
		spe := fs.Int("spe", 2, "")
		fs.Parse(os.Args[2:])
		w := bufio.NewWriter(os.Stdout)
		defer w.Flush()
		rng := rand.New(rand.NewSource(*seed))
		for h := 0; h < *hist; h++ {
			for _, op := range genHistory(rng, h, *ops, *profile, *spe) {
				b, _ := json.Marshal(op)
				w.Write(b)
				w.WriteByte('\n')
			}
		}
	case "exec":
		fs := flag.NewFlagSet("exec", flag.ExitOnError)
		in := fs.String("in", "", "")
		out := fs.String("out", "", "")
		fs.Parse(os.Args[2:])
		if err := execAll(*in, *out); err != nil {
			fmt.Fprintln(os.Stderr, err)
			os.Exit(2)
		}
	default:
		os.Exit(2)
	}
}
