// Command shuffle binds spec/Shuffle.tla to zrnt's shuffling code (property C06).
//
//	shuffle replay <cases.ndjson> <results.json>
//	    spec -> code: every case was produced by TLC (MC_Shuffle.tla): a hash-oracle table chosen by TLC
//	    (pre-image bytes -> digest bytes, built by the TLA+ encoders) and the outputs the specification
//	    prescribes.  The table is installed as THE hash function of the process (package variables of
//	    eth2/util/hashing), then the real ShuffleList / UnshuffleList / PermuteIndex / UnpermuteIndex run and
//	    are compared with TLC's expectation.  A pre-image the specification does not ask for misses the table
//	    and is answered with real SHA-256, which makes a wrong pre-image layout visible.
//
//	shuffle record <plan.ndjson> <events.ndjson>
//	    code -> spec on the real SHA-256 path: runs the four functions for every planned (n, rounds, seed)
//	    and logs their outputs together with the digests of the specification's pre-images computed with
//	    crypto/sha256 (independent of zrnt's hashing package).  spec/ShuffleTrace.tla recomputes.
package main

import (
	"bufio"
	"crypto/sha256"
	"encoding/binary"
	"encoding/json"
	"fmt"
	"os"

	"github.com/protolambda/zrnt/eth2/beacon/common"
	"github.com/protolambda/zrnt/eth2/util/hashing"
)

type entry [2][]int

type genCase struct {
	N          int     `json:"n"`
	Rounds     int     `json:"rounds"`
	Tag        int     `json:"tag"`
	Seed       []int   `json:"seed"`
	Piv        []int   `json:"piv"`
	Table      []entry `json:"table"`
	Input      []int   `json:"input"`
	Shuffled   []int   `json:"shuffled"`
	Unshuffled []int   `json:"unshuffled"`
	Perm       []int   `json:"perm"`
	Unperm     []int   `json:"unperm"`
	// per-index cases for huge list sizes (MC_ShuffleIdx.tla): perm[k] / unperm[k] are the images of indices[k];
	// the whole-list functions are not run
	Indices []int `json:"indices"`
}

type mismatch struct {
	Line   int    `json:"line"`
	Fn     string `json:"fn"`
	Detail string `json:"detail"`
	Got    []int  `json:"got,omitempty"`
	Want   []int  `json:"want,omitempty"`
}

func toBytes(xs []int) []byte {
	out := make([]byte, len(xs))
	for i, x := range xs {
		out[i] = byte(x)
	}
	return out
}

func toInts(bs []byte) []int {
	out := make([]int, len(bs))
	for i, x := range bs {
		out[i] = int(x)
	}
	return out
}

func toIdx(xs []int) []common.ValidatorIndex {
	out := make([]common.ValidatorIndex, len(xs))
	for i, x := range xs {
		out[i] = common.ValidatorIndex(x)
	}
	return out
}

func fromIdx(xs []common.ValidatorIndex) []int {
	out := make([]int, len(xs))
	for i, x := range xs {
		if uint64(x) > 1<<30 {
			out[i] = -1
		} else {
			out[i] = int(x)
		}
	}
	return out
}

func eqInts(a, b []int) bool {
	if len(a) != len(b) {
		return false
	}
	for i := range a {
		if a[i] != b[i] {
			return false
		}
	}
	return true
}

// oracle is the TLC-chosen hash function.
type oracle struct {
	table  map[string][32]byte
	used   map[string]bool
	misses int
}

func newOracle(entries []entry) *oracle {
	o := &oracle{table: map[string][32]byte{}, used: map[string]bool{}}
	for _, e := range entries {
		var d [32]byte
		copy(d[:], toBytes(e[1]))
		o.table[string(toBytes(e[0]))] = d
	}
	return o
}

func (o *oracle) hash(in []byte) [32]byte {
	if d, ok := o.table[string(in)]; ok {
		o.used[string(in)] = true
		return d
	}
	o.misses++
	return sha256.Sum256(in)
}

func (o *oracle) install() {
	hashing.Hash = o.hash
	hashing.GetHashFn = func() hashing.HashFn { return o.hash }
}

// guarded runs f, turning a panic into an error string.
func guarded(f func()) (perr string) {
	defer func() {
		if r := recover(); r != nil {
			perr = fmt.Sprint(r)
		}
	}()
	f()
	return ""
}

func replay(casesPath, resultPath string) error {
	f, err := os.Open(casesPath)
	if err != nil {
		return err
	}
	defer f.Close()
	sc := bufio.NewScanner(f)
	sc.Buffer(make([]byte, 1<<20), 1<<28)
	mism := []mismatch{}
	cases, calls, misses, unusedEntries := 0, 0, 0, 0
	line := 0
	for sc.Scan() {
		line++
		var c genCase
		if err := json.Unmarshal(sc.Bytes(), &c); err != nil {
			return fmt.Errorf("line %d: %v", line, err)
		}
		cases++
		o := newOracle(c.Table)
		o.install()
		var seed common.Root
		copy(seed[:], toBytes(c.Seed))
		rounds := uint8(c.Rounds)
		add := func(fn, detail string, got, want []int) {
			mism = append(mism, mismatch{Line: line, Fn: fn, Detail: detail, Got: got, Want: want})
		}

		if c.Indices != nil {
			perm := make([]int, len(c.Indices))
			unperm := make([]int, len(c.Indices))
			back := make([]int, len(c.Indices))
			if p := guarded(func() {
				for k, i := range c.Indices {
					pi := common.PermuteIndex(rounds, common.ValidatorIndex(i), uint64(c.N), seed)
					perm[k] = int(pi)
					unperm[k] = int(common.UnpermuteIndex(rounds, common.ValidatorIndex(i), uint64(c.N), seed))
					back[k] = int(common.UnpermuteIndex(rounds, pi, uint64(c.N), seed))
				}
			}); p != "" {
				add("PermuteIndex/UnpermuteIndex", "panic: "+p, nil, c.Perm)
			} else {
				if !eqInts(perm, c.Perm) {
					add("PermuteIndex", fmt.Sprintf("output differs from the specification (list size %d, indices %v)", c.N, c.Indices), perm, c.Perm)
				}
				if !eqInts(unperm, c.Unperm) {
					add("UnpermuteIndex", fmt.Sprintf("output differs from the specification (list size %d, indices %v)", c.N, c.Indices), unperm, c.Unperm)
				}
				if !eqInts(back, c.Indices) {
					add("UnpermuteIndex(PermuteIndex)", fmt.Sprintf("round trip is not the identity (list size %d)", c.N), back, c.Indices)
				}
			}
			calls += 3 * len(c.Indices)
			misses += o.misses
			continue
		}
		lst := toIdx(c.Input)
		if p := guarded(func() { common.ShuffleList(rounds, lst, seed) }); p != "" {
			add("ShuffleList", "panic: "+p, nil, c.Shuffled)
		} else if got := fromIdx(lst); !eqInts(got, c.Shuffled) {
			add("ShuffleList", "output differs from the specification", got, c.Shuffled)
		}
		lst = toIdx(c.Input)
		if p := guarded(func() { common.UnshuffleList(rounds, lst, seed) }); p != "" {
			add("UnshuffleList", "panic: "+p, nil, c.Unshuffled)
		} else if got := fromIdx(lst); !eqInts(got, c.Unshuffled) {
			add("UnshuffleList", "output differs from the specification", got, c.Unshuffled)
		}
		// un-shuffling the shuffled list must give the input back (uses the real code both ways)
		lst = toIdx(c.Input)
		if p := guarded(func() {
			common.ShuffleList(rounds, lst, seed)
			common.UnshuffleList(rounds, lst, seed)
		}); p != "" {
			add("Unshuffle(Shuffle)", "panic: "+p, nil, c.Input)
		} else if got := fromIdx(lst); !eqInts(got, c.Input) {
			add("Unshuffle(Shuffle)", "round trip is not the identity", got, c.Input)
		}
		calls += 4
		if c.N > 0 {
			perm := make([]int, c.N)
			unperm := make([]int, c.N)
			if p := guarded(func() {
				for i := 0; i < c.N; i++ {
					perm[i] = int(common.PermuteIndex(rounds, common.ValidatorIndex(i), uint64(c.N), seed))
				}
			}); p != "" {
				add("PermuteIndex", "panic: "+p, nil, c.Perm)
			} else if !eqInts(perm, c.Perm) {
				add("PermuteIndex", "output differs from the specification", perm, c.Perm)
			}
			if p := guarded(func() {
				for i := 0; i < c.N; i++ {
					unperm[i] = int(common.UnpermuteIndex(rounds, common.ValidatorIndex(i), uint64(c.N), seed))
				}
			}); p != "" {
				add("UnpermuteIndex", "panic: "+p, nil, c.Unperm)
			} else if !eqInts(unperm, c.Unperm) {
				add("UnpermuteIndex", "output differs from the specification", unperm, c.Unperm)
			}
			calls += 2 * c.N
		}
		misses += o.misses
		for k := range o.table {
			if !o.used[k] {
				unusedEntries++
			}
		}
	}
	if err := sc.Err(); err != nil {
		return err
	}
	res := map[string]interface{}{
		"cases": cases, "calls": calls, "oracle_misses": misses, "oracle_unused_entries": unusedEntries,
		"mismatches": mism,
	}
	if len(mism) > 50 {
		res["mismatches"] = mism[:50]
		res["mismatches_total"] = len(mism)
	}
	out, _ := json.Marshal(res)
	return os.WriteFile(resultPath, out, 0o644)
}

type planItem struct {
	N      int   `json:"n"`
	Rounds int   `json:"rounds"`
	Seed   []int `json:"seed"`
	Offset int   `json:"offset"` // input[i] = offset + 2*i  (distinct from the indices)
	// per-index event for a huge list size: only PermuteIndex / UnpermuteIndex of these indices
	Indices []int `json:"indices"`
}

// idxEvent: outputs of the per-index functions at a huge list size with the digests of exactly the pre-images
// the specification hashes for these indices (forward and inverse direction).
type idxEvent struct {
	Ev      string            `json:"ev"`
	N       int               `json:"n"`
	Rounds  int               `json:"rounds"`
	Seed    []int             `json:"seed"`
	Hp      [][2][]int        `json:"hp"` // per round <<pre-image, digest>> of the pivot hash
	Hw      [][][]interface{} `json:"hw"` // per round: [window, pre-image, digest] triples of the source hashes needed
	Indices []int             `json:"indices"`
	Perm    []int             `json:"perm"`
	Unperm  []int             `json:"unperm"`
	Back    []int             `json:"back"` // UnpermuteIndex(PermuteIndex(i))
	Panic   string            `json:"panic,omitempty"`
}

// neededWindows re-states the walk of compute_shuffled_index with crypto/sha256 for ONE purpose: deciding which
// source digests (round, position // 256) to put into the logged oracle table.  If it were wrong, the table would
// lack a pre-image ShuffleTrace.tla asks for and TLC would stop with an infrastructure error (or hold unused
// entries); it never takes part in a verdict.
func neededWindows(n uint64, rounds int, seed [32]byte, index uint64, forward bool, out map[[2]uint64]bool) {
	for k := 0; k < rounds; k++ {
		r := k
		if !forward {
			r = rounds - 1 - k
		}
		pre := append(append([]byte{}, seed[:]...), byte(r))
		h := sha256.Sum256(pre)
		pivot := binary.LittleEndian.Uint64(h[:8]) % n
		flip := (pivot + n - index) % n
		pos := index
		if flip > pos {
			pos = flip
		}
		out[[2]uint64{uint64(r), pos / 256}] = true
		pre2 := append(append([]byte{}, pre...), 0, 0, 0, 0)
		binary.LittleEndian.PutUint32(pre2[33:], uint32(pos/256))
		src := sha256.Sum256(pre2)
		if (src[(pos%256)/8]>>(pos%8))&1 == 1 {
			index = flip
		}
	}
}

func recordIdx(p planItem, enc *json.Encoder) error {
	var seed common.Root
	copy(seed[:], toBytes(p.Seed))
	rounds := uint8(p.Rounds)
	ev := idxEvent{Ev: "ShuffleIdx", N: p.N, Rounds: p.Rounds, Seed: p.Seed, Hp: [][2][]int{}, Hw: make([][][]interface{}, p.Rounds), Indices: p.Indices}
	for r := 0; r < p.Rounds; r++ {
		pre := append(append([]byte{}, seed[:]...), byte(r))
		d := sha256.Sum256(pre)
		ev.Hp = append(ev.Hp, [2][]int{toInts(pre), toInts(d[:])})
		ev.Hw[r] = [][]interface{}{}
	}
	wins := map[[2]uint64]bool{}
	for _, i := range p.Indices {
		neededWindows(uint64(p.N), p.Rounds, seed, uint64(i), true, wins)
		neededWindows(uint64(p.N), p.Rounds, seed, uint64(i), false, wins)
	}
	for w := range wins {
		pre := append(append([]byte{}, seed[:]...), byte(w[0]), 0, 0, 0, 0)
		binary.LittleEndian.PutUint32(pre[33:], uint32(w[1]))
		d := sha256.Sum256(pre)
		ev.Hw[w[0]] = append(ev.Hw[w[0]], []interface{}{int(w[1]), toInts(pre), toInts(d[:])})
	}
	ev.Perm = make([]int, len(p.Indices))
	ev.Unperm = make([]int, len(p.Indices))
	ev.Back = make([]int, len(p.Indices))
	ev.Panic = guarded(func() {
		for k, i := range p.Indices {
			pi := common.PermuteIndex(rounds, common.ValidatorIndex(i), uint64(p.N), seed)
			ev.Perm[k] = int(pi)
			ev.Unperm[k] = int(common.UnpermuteIndex(rounds, common.ValidatorIndex(i), uint64(p.N), seed))
			ev.Back[k] = int(common.UnpermuteIndex(rounds, pi, uint64(p.N), seed))
		}
	})
	return enc.Encode(&ev)
}

type event struct {
	Ev         string       `json:"ev"`
	N          int          `json:"n"`
	Rounds     int          `json:"rounds"`
	Seed       []int        `json:"seed"`
	Hp         [][2][]int   `json:"hp"` // per round: <<pre-image, digest>> of the pivot hash
	Hs         [][][2][]int `json:"hs"` // per round, per 256-position window: <<pre-image, digest>>
	Input      []int        `json:"input"`
	Shuffled   []int        `json:"shuffled"`
	Unshuffled []int        `json:"unshuffled"`
	Perm       []int        `json:"perm"`
	Unperm     []int        `json:"unperm"`
	Panic      string       `json:"panic,omitempty"`
}

func record(planPath, outPath string) error {
	f, err := os.Open(planPath)
	if err != nil {
		return err
	}
	defer f.Close()
	w, err := os.Create(outPath)
	if err != nil {
		return err
	}
	defer w.Close()
	bw := bufio.NewWriterSize(w, 1<<20)
	defer bw.Flush()
	enc := json.NewEncoder(bw)
	sc := bufio.NewScanner(f)
	sc.Buffer(make([]byte, 1<<20), 1<<26)
	for sc.Scan() {
		var p planItem
		if err := json.Unmarshal(sc.Bytes(), &p); err != nil {
			return err
		}
		if p.Indices != nil {
			if err := recordIdx(p, enc); err != nil {
				return err
			}
			continue
		}
		var seed common.Root
		copy(seed[:], toBytes(p.Seed))
		rounds := uint8(p.Rounds)
		ev := event{Ev: "Shuffle", N: p.N, Rounds: p.Rounds, Seed: p.Seed,
			Hp: [][2][]int{}, Hs: [][][2][]int{}}
		// oracle table, crypto/sha256 of the specification's pre-images
		for r := 0; r < p.Rounds; r++ {
			pre := append(append([]byte{}, seed[:]...), byte(r))
			d := sha256.Sum256(pre)
			ev.Hp = append(ev.Hp, [2][]int{toInts(pre), toInts(d[:])})
			ws := [][2][]int{}
			for win := 0; win < (p.N+255)/256; win++ {
				pre2 := append(append([]byte{}, pre...), 0, 0, 0, 0)
				binary.LittleEndian.PutUint32(pre2[33:], uint32(win))
				d2 := sha256.Sum256(pre2)
				ws = append(ws, [2][]int{toInts(pre2), toInts(d2[:])})
			}
			ev.Hs = append(ev.Hs, ws)
		}
		input := make([]common.ValidatorIndex, p.N)
		for i := range input {
			input[i] = common.ValidatorIndex(p.Offset + 2*i)
		}
		ev.Input = fromIdx(input)
		ev.Perm = make([]int, p.N)
		ev.Unperm = make([]int, p.N)
		ev.Panic = guarded(func() {
			a := append([]common.ValidatorIndex{}, input...)
			common.ShuffleList(rounds, a, seed)
			ev.Shuffled = fromIdx(a)
			b := append([]common.ValidatorIndex{}, input...)
			common.UnshuffleList(rounds, b, seed)
			ev.Unshuffled = fromIdx(b)
			for i := 0; i < p.N; i++ {
				ev.Perm[i] = int(common.PermuteIndex(rounds, common.ValidatorIndex(i), uint64(p.N), seed))
				ev.Unperm[i] = int(common.UnpermuteIndex(rounds, common.ValidatorIndex(i), uint64(p.N), seed))
			}
		})
		if ev.Shuffled == nil {
			ev.Shuffled = []int{}
		}
		if ev.Unshuffled == nil {
			ev.Unshuffled = []int{}
		}
		if err := enc.Encode(&ev); err != nil {
			return err
		}
	}
	return sc.Err()
}

func main() {
	if len(os.Args) < 4 {
		fmt.Fprintln(os.Stderr, "usage: shuffle replay <cases.ndjson> <results.json> | shuffle record <plan.ndjson> <events.ndjson>")
		os.Exit(2)
	}
	var err error
	switch os.Args[1] {
	case "replay":
		err = replay(os.Args[2], os.Args[3])
	case "record":
		err = record(os.Args[2], os.Args[3])
	default:
		err = fmt.Errorf("unknown sub-command %q", os.Args[1])
	}
	if err != nil {
		fmt.Fprintln(os.Stderr, "shuffle:", err)
		os.Exit(2)
	}
}
