// Command epc records, for C08 (spec/EpochsContext.tla, spec/EpochsContextTrace.tla), how zrnt's
// incrementally maintained EpochsContext compares with a context built from scratch, at every point
// of real chains.
//
//	epc list -tier quick|thorough -seed N           JSON list of the chains of this run
//	epc rec  -tier T -seed N -chain I -out FILE     record chain I (ndjson trace), summary on stdout
//
// The chains come from harness/chain (blocks are produced there). The recorder keeps its OWN long-lived
// lines of (state, epochs context), used the way a client uses zrnt: for every step the head state is
// copied (CopyState), the context cloned (EpochsContext.Clone - which shares the pubkey cache), the step is
// executed with common.ProcessSlots / common.StateTransition, and the result is adopted. zrnt runs
// unmodified (no sync-committee compensation, no fresh pubkey caches). After EVERY step of every line
// it logs the projection of the LIVE context, of a FRESH common.NewEpochsContext(spec, state), and the abstract
// registry of the state. Lines:
//
//	main      follows the chain from genesis
//	reloadN   at random points the main state is serialized, deserialized, given a fresh context, and then
//	          advanced with the same steps as main; every later step logs both (peer = main's results)
//	branchN   a fork of the chain (Chain.Copy) that shares the pubkey cache with main through Clone and then
//	          sees other blocks / other deposits
//
// In addition every step is also executed from the serialized+reloaded PRE-state with a fresh context
// ("fs"): outcome and post root must be those of the long-lived line.
package main

import (
	"bytes"
	"context"
	"encoding/hex"
	"encoding/json"
	"flag"
	"fmt"
	"math/rand"
	"os"
	"strconv"

	"github.com/protolambda/zrnt/eth2/beacon"
	"github.com/protolambda/zrnt/eth2/beacon/altair"
	"github.com/protolambda/zrnt/eth2/beacon/bellatrix"
	"github.com/protolambda/zrnt/eth2/beacon/capella"
	"github.com/protolambda/zrnt/eth2/beacon/common"
	"github.com/protolambda/zrnt/eth2/beacon/deneb"
	"github.com/protolambda/zrnt/eth2/beacon/phase0"
	"github.com/protolambda/ztyp/codec"

	"verif/harness/chain"
)

const farSentinel = 1000000
const probeUniverse = 100

func short(r common.Root) string { return hex.EncodeToString(r[:8]) }

func epochInt(e common.Epoch) int {
	if e >= farSentinel {
		return farSentinel
	}
	return int(e)
}

// ---------------------------------------------------------------- projections

type projector struct {
	spec *common.Spec
	keys *chain.Keys
	unit common.Gwei // amounts are logged in this unit (1 for the scaled presets, 10^9 for minimal)
}

func (p *projector) amount(g common.Gwei) int {
	if g%p.unit != 0 {
		// not representable in the trace unit (an effective balance / stake that is not a multiple of the
		// increment under the minimal preset): logged as a negative number, which matches nothing
		return -1 - int(uint64(g/p.unit)%1000000)
	}
	v := uint64(g / p.unit)
	if v >= 1<<31 {
		panic(fmt.Sprintf("amount %d does not fit the trace", g))
	}
	return int(v)
}

func (p *projector) keyID(pub common.BLSPubkey) int {
	if k, ok := p.keys.KeyOf(pub); ok {
		return int(k)
	}
	return -2
}

func idxList(xs []common.ValidatorIndex) []int {
	out := make([]int, len(xs))
	for i, x := range xs {
		out[i] = int(x)
	}
	return out
}

func committees(se *common.ShufflingEpoch) [][][]int {
	out := make([][][]int, len(se.Committees))
	for s, slotComms := range se.Committees {
		out[s] = make([][]int, len(slotComms))
		for c, comm := range slotComms {
			out[s][c] = idxList(comm)
		}
	}
	return out
}

// registry is the abstract registry of a state (the specification's side of the comparison).
func (p *projector) registry(state common.BeaconState) ([]map[string]int, []common.BLSPubkey) {
	vals, err := state.Validators()
	check(err)
	n, err := vals.ValidatorCount()
	check(err)
	reg := make([]map[string]int, n)
	pubs := make([]common.BLSPubkey, n)
	for i := uint64(0); i < n; i++ {
		v, err := vals.Validator(common.ValidatorIndex(i))
		check(err)
		var f common.FlatValidator
		check(v.Flatten(&f))
		pub, err := v.Pubkey()
		check(err)
		pubs[i] = pub
		s := 0
		if f.Slashed {
			s = 1
		}
		reg[i] = map[string]int{"a": epochInt(f.ActivationEpoch), "x": epochInt(f.ExitEpoch), "e": p.amount(f.EffectiveBalance), "s": s, "k": p.keyID(pub)}
	}
	return reg, pubs
}

func (p *projector) syncKeys(state common.BeaconState) (has int, cur, next []int) {
	cur, next = []int{}, []int{}
	ss, ok := state.(common.SyncCommitteeBeaconState)
	if !ok {
		return 0, cur, next
	}
	flat := func(v *common.SyncCommitteeView, err error) []int {
		check(err)
		pv, err := v.Pubkeys()
		check(err)
		pubs, err := pv.Flatten()
		check(err)
		out := make([]int, len(pubs))
		for i, pk := range pubs {
			out[i] = p.keyID(pk)
		}
		return out
	}
	return 1, flat(ss.CurrentSyncCommittee()), flat(ss.NextSyncCommittee())
}

// project maps an epochs context to the trace record; pubs = the registry's pubkeys (lookups are probed for
// exactly the validators of the state).
func (p *projector) project(epc *common.EpochsContext, pubs []common.BLSPubkey) map[string]interface{} {
	m := map[string]interface{}{}
	m["pe"], m["ce"], m["ne"] = int(epc.PreviousEpoch.Epoch), int(epc.CurrentEpoch.Epoch), int(epc.NextEpoch.Epoch)
	m["pa"], m["ca"], m["na"] = idxList(epc.PreviousEpoch.ActiveIndices), idxList(epc.CurrentEpoch.ActiveIndices), idxList(epc.NextEpoch.ActiveIndices)
	m["pcm"], m["ccm"], m["ncm"] = committees(epc.PreviousEpoch), committees(epc.CurrentEpoch), committees(epc.NextEpoch)
	cnt := func(e common.Epoch) int {
		n, err := epc.GetCommitteeCountPerSlot(e)
		check(err)
		return int(n)
	}
	m["pcnt"], m["ccnt"], m["ncnt"] = cnt(epc.PreviousEpoch.Epoch), cnt(epc.CurrentEpoch.Epoch), cnt(epc.NextEpoch.Epoch)
	props := make([]int, p.spec.SLOTS_PER_EPOCH)
	start := common.Slot(epc.CurrentEpoch.Epoch) * p.spec.SLOTS_PER_EPOCH
	for i := range props {
		pr, err := epc.GetBeaconProposer(start + common.Slot(i))
		if err != nil {
			props[i] = -1 // the context cannot name a proposer for a slot of its own current epoch
		} else {
			props[i] = int(pr)
		}
	}
	m["props"] = props
	eff := make([]int, len(epc.EffectiveBalances))
	for i, e := range epc.EffectiveBalances {
		eff[i] = p.amount(e)
	}
	m["eff"] = eff
	m["total"] = p.amount(epc.TotalActiveStake)
	m["sqrt"] = strconv.FormatUint(uint64(epc.TotalActiveStakeSqRoot), 10)
	if p.unit == 1 {
		m["sqrtn"] = int(epc.TotalActiveStakeSqRoot)
	} else {
		m["sqrtn"] = -1
	}
	sc := func(c *common.IndexedSyncCommittee) (int, []int, []int) {
		if c == nil {
			return 0, []int{}, []int{}
		}
		ks := make([]int, len(c.CachedPubkeys))
		for i, cp := range c.CachedPubkeys {
			ks[i] = p.keyID(cp.Compressed)
		}
		return 1, idxList(c.Indices), ks
	}
	var h1, h2 int
	h1, m["sc"], m["sck"] = sc(epc.CurrentSyncCommittee)
	h2, m["sn"], m["snk"] = sc(epc.NextSyncCommittee)
	m["hassync"] = h1 + h2
	pk := make([]int, len(pubs))
	ix := make([]int, len(pubs))
	for i, pub := range pubs {
		if cp, ok := epc.ValidatorPubkeyCache.Pubkey(common.ValidatorIndex(i)); ok {
			pk[i] = p.keyID(cp.Compressed)
		} else {
			pk[i] = -1
		}
		if idx, ok := epc.ValidatorPubkeyCache.ValidatorIndex(pub); ok {
			ix[i] = int(idx)
		} else {
			ix[i] = -1
		}
	}
	m["pk"], m["ix"] = pk, ix
	// lookups of pubkeys that are NOT in the registry (the harness' key universe minus the registry)
	inReg := map[common.BLSPubkey]bool{}
	for _, pub := range pubs {
		inReg[pub] = true
	}
	xk, xi := []int{}, []int{}
	for k := 0; k < probeUniverse; k++ {
		pub := p.keys.Pubkey(chain.KeyID(k))
		if inReg[pub] {
			continue
		}
		xk = append(xk, k)
		if idx, ok := epc.ValidatorPubkeyCache.ValidatorIndex(pub); ok {
			xi = append(xi, int(idx))
		} else {
			xi = append(xi, -1)
		}
	}
	m["xk"], m["xi"] = xk, xi
	return m
}

// depositLookups describes, for a block, how the given context answers for the pubkeys of the block's deposits.
func (p *projector) depositLookups(sc *chain.StateCtx, env *common.BeaconBlockEnvelope) []map[string]int {
	out := []map[string]int{}
	if env == nil {
		return out
	}
	_, pubs := p.registry(sc.State.BeaconState)
	for _, d := range *chain.OpsOf(env.Body).Deposits {
		e := map[string]int{"k": p.keyID(d.Data.Pubkey), "cache": -1, "reg": -1}
		if idx, ok := sc.Epc.ValidatorPubkeyCache.ValidatorIndex(d.Data.Pubkey); ok {
			e["cache"] = int(idx)
		}
		for i, pub := range pubs {
			if pub == d.Data.Pubkey {
				e["reg"] = i
				break
			}
		}
		out = append(out, e)
	}
	return out
}

func check(err error) {
	if err != nil {
		panic(err)
	}
}

// ---------------------------------------------------------------- serialization

func reload(spec *common.Spec, st *beacon.StandardUpgradeableBeaconState) *chain.StateCtx {
	var buf bytes.Buffer
	inner := st.BeaconState
	check(inner.Serialize(codec.NewEncodingWriter(&buf)))
	data := buf.Bytes()
	dr := codec.NewDecodingReader(bytes.NewReader(data), uint64(len(data)))
	var out common.BeaconState
	var err error
	switch inner.(type) {
	case *phase0.BeaconStateView:
		out, err = phase0.AsBeaconStateView(phase0.BeaconStateType(spec).Deserialize(dr))
	case *altair.BeaconStateView:
		out, err = altair.AsBeaconStateView(altair.BeaconStateType(spec).Deserialize(dr))
	case *bellatrix.BeaconStateView:
		out, err = bellatrix.AsBeaconStateView(bellatrix.BeaconStateType(spec).Deserialize(dr))
	case *capella.BeaconStateView:
		out, err = capella.AsBeaconStateView(capella.BeaconStateType(spec).Deserialize(dr))
	case *deneb.BeaconStateView:
		out, err = deneb.AsBeaconStateView(deneb.BeaconStateType(spec).Deserialize(dr))
	default:
		panic(fmt.Sprintf("reload: unsupported state %T", inner))
	}
	check(err)
	epc, err := common.NewEpochsContext(spec, out)
	check(err)
	return &chain.StateCtx{Spec: spec, State: &beacon.StandardUpgradeableBeaconState{BeaconState: out}, Epc: epc}
}

// ---------------------------------------------------------------- lines

type step struct {
	kind string // "slots" | "block"
	to   common.Slot
	env  *common.BeaconBlockEnvelope
}

type outcome struct {
	Out  string `json:"out"`
	Root string `json:"root"`
	err  string
}

// run executes a step on sc IN PLACE (sc must be a private copy).
func run(sc *chain.StateCtx, st step) (o outcome) {
	defer func() {
		if r := recover(); r != nil {
			o = outcome{Out: "panic", err: fmt.Sprint(r)}
		}
	}()
	var err error
	if st.kind == "slots" {
		err = common.ProcessSlots(context.Background(), sc.Spec, sc.Epc, sc.State, st.to)
	} else {
		err = common.StateTransition(context.Background(), sc.Spec, sc.Epc, sc.State, st.env, true)
	}
	if err != nil {
		return outcome{Out: "err", err: err.Error()}
	}
	return outcome{Out: "ok", Root: short(sc.StateRoot())}
}

type line struct {
	name string
	sc   *chain.StateCtx
	peer *line // reload lines: the long-lived line they shadow
	dead bool
	n0   int // registry size when the line's context was last (re)built for an epoch start
	last struct {
		out  outcome
		live map[string]interface{}
		n0   int
	}
}

// clientCopy is what a client does before processing on top of its head: copy the state, clone the context
// (the clone shares the pubkey cache).
func clientCopy(sc *chain.StateCtx) *chain.StateCtx {
	inner, err := sc.State.BeaconState.CopyState()
	check(err)
	return &chain.StateCtx{Spec: sc.Spec, Keys: sc.Keys, State: &beacon.StandardUpgradeableBeaconState{BeaconState: inner}, Epc: sc.Epc.Clone()}
}

type recorder struct {
	out     *json.Encoder
	proj    *projector
	rng     *rand.Rand
	lines   map[*chain.Chain][]*line
	order   []*chain.Chain // chains in creation order (deterministic iteration)
	nextID  int
	nReload int
	nBranch int
	sum     summary
	cfg     chainCfg
	maxRel  int
	// extraFlags are added to the flags of the next logged point
	extraFlags []string
}

type summary struct {
	Chain    string         `json:"chain"`
	Events   int            `json:"events"`
	Steps    map[string]int `json:"steps"`
	Lines    map[string]int `json:"lines"`
	Flags    map[string]int `json:"flags"`
	ByFork   map[string]int `json:"by_fork"`
	Reloads  int            `json:"reload_points"`
	Branches int            `json:"branches"`
	PeerCmp  int            `json:"peer_comparisons"`
	Dead     []string       `json:"dead_lines"`
	MaxReg   int            `json:"max_registry"`
	Sample   []interface{}  `json:"sample"`
	Stopped  string         `json:"stopped"`
	// Unbuildable: zrnt failed to build the chain's genesis (no observation at all)
	Unbuildable bool `json:"unbuildable"`
}

func (r *recorder) emit(ev map[string]interface{}) {
	check(r.out.Encode(ev))
	r.sum.Events++
}

// logCtx logs one observation point: sc is the (post-)state with its long-lived context; side points (kind
// "slot") are not adopted by the line and have no peer.
func (r *recorder) logCtx(l *line, sc *chain.StateCtx, n0 int, kind string, o outcome, fs outcome, chainRoot string, preSlot common.Slot, preFork chain.Fork, preN int, deplook []map[string]int) {
	id := r.nextID
	r.nextID++
	side := kind == "slot" || kind == "recheck"
	ev := map[string]interface{}{"ev": "Ctx", "id": id, "line": l.name, "kind": kind, "out": o.Out, "root": o.Root,
		"chainroot": chainRoot, "fs": fs, "slot": int(sc.Slot()), "fork": sc.Fork().String(), "n0": n0}
	ev["deplook"], ev["pren"] = deplook, preN
	if o.Out != "ok" {
		ev["err"] = o.err
		ev["live"], ev["fresh"], ev["reg"] = map[string]interface{}{}, map[string]interface{}{}, []int{}
		ev["sync"], ev["sck"], ev["snk"] = 0, []int{}, []int{}
		ev["peer"] = map[string]interface{}{"has": 0}
		r.emit(ev)
		return
	}
	inner := sc.State.BeaconState
	reg, pubs := r.proj.registry(inner)
	ev["reg"] = reg
	ev["sync"], ev["sck"], ev["snk"] = r.proj.syncKeys(inner)
	var live map[string]interface{}
	if perr := func() (perr string) {
		defer func() {
			if p := recover(); p != nil {
				perr = fmt.Sprint(p)
			}
		}()
		live = r.proj.project(sc.Epc, pubs)
		return ""
	}(); perr != "" {
		// the long-lived context cannot even be read: report the point as a failed one
		ev["out"], ev["err"] = "panic", "reading the long-lived context: "+perr
		ev["live"], ev["fresh"], ev["reg"] = map[string]interface{}{}, map[string]interface{}{}, []int{}
		ev["peer"] = map[string]interface{}{"has": 0}
		r.emit(ev)
		return
	}
	ev["live"] = live
	fresh, err := common.NewEpochsContext(sc.Spec, inner)
	check(err)
	ev["fresh"] = r.proj.project(fresh, pubs)
	if !side {
		l.last.out, l.last.live, l.last.n0 = o, live, n0
	}
	if l.peer != nil && !side {
		ev["peer"] = map[string]interface{}{"has": 1, "line": l.peer.name, "out": l.peer.last.out.Out, "root": l.peer.last.out.Root,
			"live": l.peer.last.live, "n0": l.peer.last.n0}
		r.sum.PeerCmp++
	} else {
		ev["peer"] = map[string]interface{}{"has": 0}
	}
	// coverage flags
	spec := sc.Spec
	slot := sc.Slot()
	flags := []string{}
	if spec.SlotToEpoch(slot) != spec.SlotToEpoch(preSlot) {
		flags = append(flags, "epoch-boundary")
		if sc.Fork() >= chain.Altair && uint64(spec.SlotToEpoch(slot))/uint64(spec.EPOCHS_PER_SYNC_COMMITTEE_PERIOD) != uint64(spec.SlotToEpoch(preSlot))/uint64(spec.EPOCHS_PER_SYNC_COMMITTEE_PERIOD) {
			flags = append(flags, "sync-period-boundary")
		}
	}
	if !side {
		for j, d := range deplook {
			sameBlock := false
			for _, e := range deplook[:j] {
				sameBlock = sameBlock || (e["k"] == d["k"] && e["reg"] < 0)
			}
			if (d["reg"] >= n0 && d["reg"] >= 0) || sameBlock {
				flags = append(flags, "topup-of-validator-deposited-in-same-epoch")
			}
		}
	}
	if len(reg) > preN && kind == "block" {
		// amount classes of the new validators, observed before the next rotation
		inc, max := spec.EFFECTIVE_BALANCE_INCREMENT, spec.MAX_EFFECTIVE_BALANCE
		for i := preN; i < len(reg); i++ {
			bal := sc.Balance(common.ValidatorIndex(i))
			switch {
			case bal > max:
				flags = append(flags, "new-validator-amount-above-max")
			case bal == max:
				flags = append(flags, "new-validator-amount-at-max")
			case bal < inc:
				flags = append(flags, "new-validator-amount-below-one-increment")
			}
			if bal%inc != 0 && bal < max {
				flags = append(flags, "new-validator-amount-not-multiple-of-increment")
			}
		}
	}
	if len(reg) > preN {
		flags = append(flags, "deposit-new-validator")
		if spec.SlotToEpoch(slot) == spec.SlotToEpoch(preSlot) || kind == "block" {
			flags = append(flags, "deposit-mid-epoch")
		}
	}
	if sc.Fork() != preFork {
		flags = append(flags, "upgrade:"+sc.Fork().String())
	}
	flags = append(flags, r.extraFlags...)
	r.extraFlags = nil
	ev["flags"] = flags
	for _, f := range flags {
		r.sum.Flags[f]++
	}
	r.sum.Steps[kind]++
	r.sum.ByFork[sc.Fork().String()]++
	lk := "main"
	if l.peer != nil {
		lk = "reload"
	} else if l.name != "main" {
		lk = "branch"
	}
	r.sum.Lines[lk]++
	if len(reg) > r.sum.MaxReg {
		r.sum.MaxReg = len(reg)
	}
	if len(r.sum.Sample) < 2 && len(flags) > 0 {
		r.sum.Sample = append(r.sum.Sample, map[string]interface{}{"id": id, "line": l.name, "kind": kind, "slot": int(slot), "flags": flags,
			"live": map[string]interface{}{"ce": live["ce"], "ca": live["ca"], "props": live["props"], "total": live["total"], "sqrt": live["sqrt"], "sc": live["sc"]}})
	}
	r.emit(ev)
}

// advance applies a step the chain has accepted to one line and logs the comparison.
func (r *recorder) advance(l *line, st step, chainRoot string) {
	if l.dead {
		return
	}
	preSlot, preFork, preN := l.sc.Slot(), l.sc.Fork(), int(l.sc.ValidatorCount())
	// every single slot on the way (epoch boundaries, upgrades) is a point of the chain: observe it on a side copy
	if l.peer == nil {
		r.sideSlots(l, st, preSlot, preN, false)
	}
	// the same step from the serialized + reloaded pre-state with a fresh context
	fsc := reload(l.sc.Spec, l.sc.State)
	fsc.Keys = l.sc.Keys
	fs := run(fsc, st)
	// how the long-lived context answers for the depositors of the block, before the block
	deplook := r.proj.depositLookups(l.sc, st.env)
	// the long-lived line
	parent, parentN0 := l.sc, l.n0
	preFacts := factsOf(l.sc)
	next := clientCopy(l.sc)
	o := run(next, st)
	if o.Out == "ok" {
		if next.Spec.SlotToEpoch(next.Slot()) != next.Spec.SlotToEpoch(preSlot) {
			// slot processing adds no validators: at the rotation the registry had the pre-state's size
			l.n0 = preN
		}
		l.sc = next
	}
	sc := l.sc
	if o.Out != "ok" {
		sc = next
	} else {
		r.extraFlags = boundaryClass(preFacts, factsOf(sc))
	}
	r.logCtx(l, sc, l.n0, st.kind, o, fs, chainRoot, preSlot, preFork, preN, deplook)
	if o.Out != "ok" {
		l.dead = true
		r.sum.Dead = append(r.sum.Dead, fmt.Sprintf("%s@%d: %s", l.name, preSlot, o.err))
		return
	}
	if l.peer != nil {
		return
	}
	// "mutate one copy, observe the others": the step ran on a Clone of the parent's context, which shares every
	// slice and map with it. The parent head (a client keeps it: other blocks may build on it) and the heads of the
	// sibling lines must still carry the context of THEIR state.
	changed := sc.Spec.SlotToEpoch(sc.Slot()) != sc.Spec.SlotToEpoch(preSlot) || int(sc.ValidatorCount()) != preN || sc.Fork() != preFork
	if changed && parent != nil {
		r.recheck(l, parent, parentN0, "recheck-parent")
	}
	for _, ch := range r.order {
		for _, o := range r.lines[ch] {
			if o != l && o.peer == nil && !o.dead {
				r.recheck(o, o.sc, o.n0, "recheck-sibling")
			}
		}
	}
}

// recheck re-observes a (state, context) pair that was NOT stepped: its context must be unaffected by what happened
// to copies of it.
func (r *recorder) recheck(l *line, sc *chain.StateCtx, n0 int, flag string) {
	o := outcome{Out: "ok", Root: short(sc.StateRoot())}
	r.extraFlags = []string{flag}
	r.logCtx(l, sc, n0, "recheck", o, o, o.Root, sc.Slot(), sc.Fork(), int(sc.ValidatorCount()), []map[string]int{})
}

// sideSlots advances a client copy of the line slot by slot up to the step's target (for a block: up to its
// slot, i.e. the pre-block state; for a slots step: the intermediate slots) and logs every point.
func (r *recorder) sideSlots(l *line, st step, preSlot common.Slot, preN int, all bool) {
	side := clientCopy(l.sc)
	n0 := l.n0
	for s := preSlot + 1; s <= st.to && (all || st.kind == "block" || s < st.to); s++ {
		ps, pf := side.Slot(), side.Fork()
		pre := factsOf(side)
		o := run(side, step{kind: "slots", to: s})
		if o.Out == "ok" {
			r.extraFlags = boundaryClass(pre, factsOf(side))
		}
		if side.Spec.SlotToEpoch(s) != side.Spec.SlotToEpoch(ps) {
			n0 = preN
		}
		r.logCtx(l, side, n0, "slot", o, o, o.Root, ps, pf, preN, []map[string]int{})
		if o.Out != "ok" {
			break
		}
	}
}

func (r *recorder) after(c *chain.Chain, st step, err error) {
	if err != nil {
		// The chain itself refused the step (never for honest scenarios on a correct zrnt). The slots on the way
		// to the step's target are still points of the chain: observe them on the long-lived lines.
		for _, l := range r.lines[c] {
			if l.peer == nil && !l.dead {
				r.sideSlots(l, st, l.sc.Slot(), int(l.sc.ValidatorCount()), true)
			}
		}
		return
	}
	root := short(c.StateRoot())
	ls := r.lines[c]
	// long-lived lines first (reload lines compare with their peer's result of the same step)
	for _, l := range ls {
		if l.peer == nil {
			r.advance(l, st, root)
		}
	}
	for _, l := range ls {
		if l.peer != nil {
			if l.peer.dead {
				l.dead = true
			}
			r.advance(l, st, root)
		}
	}
	// maybe start a new reload line from the first long-lived line of this chain
	if len(ls) > 0 && !ls[0].dead && r.rng.Intn(r.cfg.ReloadEvery) == 0 {
		alive := 0
		for _, l := range ls {
			if l.peer != nil && !l.dead {
				alive++
			}
		}
		if alive >= r.maxRel {
			// retire the oldest reload line
			for i, l := range ls {
				if l.peer != nil && !l.dead {
					ls = append(ls[:i:i], ls[i+1:]...)
					break
				}
			}
		}
		r.nReload++
		rl := &line{name: fmt.Sprintf("reload%d", r.nReload), sc: reload(c.Spec, ls[0].sc.State), peer: ls[0]}
		rl.sc.Keys = c.Keys
		rl.n0 = int(rl.sc.ValidatorCount())
		ls = append(ls, rl)
		r.lines[c] = ls
		r.sum.Reloads++
	}
}

func (r *recorder) BeforeSlots(c *chain.Chain, to common.Slot)                  {}
func (r *recorder) BeforeBlock(c *chain.Chain, env *common.BeaconBlockEnvelope) {}
func (r *recorder) AfterSlots(c *chain.Chain, to common.Slot, err error) {
	r.after(c, step{kind: "slots", to: to}, err)
}
func (r *recorder) AfterBlock(c *chain.Chain, env *common.BeaconBlockEnvelope, err error) {
	r.after(c, step{kind: "block", to: env.Slot, env: env}, err)
}

// branch forks the chain: the branch chain produces its own blocks; its shadow line starts as a client copy
// of main's head, i.e. it SHARES the pubkey cache with main.
func (r *recorder) branch(c *chain.Chain) *chain.Chain {
	cb := c.Copy()
	r.nBranch++
	main := r.lines[c][0]
	bl := &line{name: fmt.Sprintf("branch%d", r.nBranch), sc: clientCopy(main.sc), n0: main.n0}
	r.lines[cb] = []*line{bl}
	r.order = append(r.order, cb)
	r.sum.Branches++
	if n, c := len(main.sc.Epc.EffectiveBalances), cap(main.sc.Epc.EffectiveBalances); n < c {
		r.sum.Flags["clone-eff-len-lt-cap"]++
	} else {
		r.sum.Flags["clone-eff-len-eq-cap"]++
	}
	return cb
}

// ---------------------------------------------------------------- chains

type chainCfg struct {
	Name        string `json:"name"`
	Preset      string `json:"preset"`
	Forks       [4]int `json:"forks"`
	Validators  int    `json:"validators"`
	Epochs      int    `json:"epochs"`
	Seed        int64  `json:"seed"`
	Corner      string `json:"corner"`
	Script      string `json:"script"` // "", "branch-same-deposits", "branch-other-deposits"
	ReloadEvery int    `json:"reload_every"`
	Pending     int    `json:"pending"` // deposits pending at genesis (included by the first blocks, mid-epoch)
}

func sched(f [4]int) chain.ForkSchedule {
	e := func(x int) common.Epoch {
		if x < 0 {
			return chain.FarFuture
		}
		return common.Epoch(x)
	}
	return chain.Forks(e(f[0]), e(f[1]), e(f[2]), e(f[3]))
}

func chainList(tier string, seed int64) []chainCfg {
	var out []chainCfg
	add := func(preset string, forks [4]int, epochs int, script string, pending int) {
		i := len(out)
		out = append(out, chainCfg{Name: fmt.Sprintf("r%d-%s-%d.%d.%d.%d%s", i, preset, forks[0], forks[1], forks[2], forks[3], script),
			Preset: preset, Forks: forks, Validators: chain.DefaultValidatorCount(preset), Epochs: epochs,
			Seed: seed*7919 + int64(i), Script: script, ReloadEvery: 9, Pending: pending})
	}
	corner := func(name string) {
		out = append(out, chainCfg{Name: "corner-" + name, Corner: name, ReloadEvery: 9})
	}
	if tier == "quick" {
		add("S1", [4]int{1, 2, 3, 4}, 14, "", 7)
		add("S4", [4]int{1, 2, 3, 4}, 20, "", 1)
		add("S1", [4]int{2, 3, 5, 6}, 14, "", 0)
		add("S2", [4]int{1, 1, 2, 3}, 12, "", 1)
		add("S3", [4]int{0, 0, 1, 2}, 8, "", 7)
		add("S4", [4]int{3, 5, 7, 9}, 22, "", 2)
		add("S1", [4]int{0, 0, 0, 0}, 12, "", 1)
		add("S4", [4]int{-1, -1, -1, -1}, 16, "", 5)
		add("S1", [4]int{1, 2, 3, 4}, 10, "branch-same-deposits", 2)
		add("S4", [4]int{2, 2, 4, 4}, 14, "branch-same-deposits", 1)
		add("S1", [4]int{1, 2, 3, 4}, 8, "branch-other-deposits", 0)
		add("S1", [4]int{0, 1, 1, 2}, 4, "fork-deposits-lt-cap", 3)
		add("S1", [4]int{-1, -1, -1, -1}, 4, "fork-deposits-lt-cap", 3)
		add("S1", [4]int{0, 0, 0, 0}, 4, "fork-deposits-eq-cap", 2)
		add("S1", [4]int{0, 0, 1, 1}, 4, "fork-deposit-vs-rotate", 3)
		add("S1", [4]int{-1, -1, -1, -1}, 7, "idle-active-set", 0)
		add("S1", [4]int{0, 0, -1, -1}, 7, "idle-active-set", 0)
		add("S1", [4]int{0, 0, 0, 0}, 7, "idle-active-set", 0)
		add("minimal", [4]int{1, 2, 2, 3}, 4, "", 2)
		for _, n := range []string{"deposit-mix", "fork-boundary-gaps", "sync-patterns", "exit-queue", "mass-slashing", "leak-with-ejections"} {
			corner(n)
		}
		return out
	}
	presets := []string{"S1", "S4", "S2", "S3", "S1", "S4"}
	scheds := [][4]int{{1, 2, 3, 4}, {0, 0, 0, 0}, {0, 0, 1, 2}, {0, 1, 1, 3}, {1, 1, 2, 3}, {2, 4, 6, 8}, {0, 0, 0, 1}, {0, 1, -1, -1},
		{-1, -1, -1, -1}, {3, 5, 7, 9}, {2, 2, 2, 2}, {0, 2, 3, 3}, {1, 3, 3, 5}, {3, 6, 9, 12}, {5, 5, 10, 10}, {4, 8, -1, -1}, {2, 6, 10, -1}}
	rng := rand.New(rand.NewSource(seed))
	for i := 0; i < 100; i++ {
		p := presets[i%len(presets)]
		s := scheds[(i/2+rng.Intn(3))%len(scheds)]
		ep := 18
		if p == "S4" {
			ep = 28
		}
		if p == "S3" {
			ep = 12
		}
		script := ""
		if i%5 == 3 {
			script = "branch-same-deposits"
		}
		add(p, s, ep, script, rng.Intn(8))
	}
	add("S1", [4]int{1, 2, 3, 4}, 8, "branch-other-deposits", 0)
	add("S4", [4]int{0, 0, 0, 0}, 10, "branch-other-deposits", 0)
	for _, f := range [][4]int{{-1, -1, -1, -1}, {0, -1, -1, -1}, {0, 0, -1, -1}, {0, 0, 0, -1}, {0, 0, 0, 0}, {1, 2, 3, 4}, {3, 3, 6, 6}} {
		add("S1", f, 7, "idle-active-set", 0)
		add("S3", f, 7, "idle-active-set", 0)
	}
	for _, f := range [][4]int{{-1, -1, -1, -1}, {0, -1, -1, -1}, {0, 0, -1, -1}, {0, 0, 0, -1}, {0, 0, 0, 0}, {0, 1, 1, 2}, {1, 1, 2, 2}} {
		add("S1", f, 4, "fork-deposits-lt-cap", 3)
		add("S1", f, 4, "fork-deposits-eq-cap", 2)
		add("S1", f, 4, "fork-deposit-vs-rotate", 3)
	}
	add("minimal", [4]int{0, 0, 1, 2}, 5, "", 2)
	add("minimal", [4]int{1, 2, 2, 3}, 6, "", 3)
	for _, ns := range chain.CornerScenarios() {
		corner(ns.Name)
	}
	return out
}

func main() {
	if len(os.Args) < 2 {
		fmt.Fprintln(os.Stderr, "usage: epc list|rec ...")
		os.Exit(2)
	}
	fs := flag.NewFlagSet(os.Args[1], flag.ExitOnError)
	tier := fs.String("tier", "quick", "")
	seed := fs.Int64("seed", 1, "")
	idx := fs.Int("chain", 0, "")
	outp := fs.String("out", "", "")
	_ = fs.Parse(os.Args[2:])
	cfgs := chainList(*tier, *seed)
	switch os.Args[1] {
	case "list":
		_ = json.NewEncoder(os.Stdout).Encode(cfgs)
	case "rec":
		if *idx < 0 || *idx >= len(cfgs) {
			fmt.Fprintln(os.Stderr, "no such chain")
			os.Exit(2)
		}
		f, err := os.Create(*outp)
		check(err)
		defer f.Close()
		record(cfgs[*idx], f)
	default:
		fmt.Fprintln(os.Stderr, "unknown command")
		os.Exit(2)
	}
}

func record(cfg chainCfg, f *os.File) {
	var c *chain.Chain
	var steps []chain.StepPlan
	var err error
	preset := cfg.Preset
	if cfg.Corner != "" {
		found := false
		for _, ns := range chain.CornerScenarios() {
			if ns.Name == cfg.Corner {
				c, err = ns.Build()
				steps = ns.Steps
				preset = ns.Preset
				found = true
			}
		}
		if !found {
			fmt.Fprintln(os.Stderr, "unknown corner scenario", cfg.Corner)
			os.Exit(2)
		}
	} else {
		spec := chain.NewSpec(cfg.Preset, sched(cfg.Forks))
		if isAliasScript(cfg.Script) {
			// one eth1 voting period = one epoch of 8 slots: two forks of one epoch can then each adopt their own
			// eth1 data (3 votes each on the common prefix, 2 more on each fork) and include DIFFERENT deposits
			// while their contexts still share what Clone shares
			spec.SLOTS_PER_EPOCH = 8
			spec.EPOCHS_PER_ETH1_VOTING_PERIOD = 1
			spec.SLOTS_PER_HISTORICAL_ROOT = 16
		}
		if cfg.Script == "idle-active-set" {
			// a wide hysteresis band (+-20 increments) so that the penalties of an idle chain cannot move any
			// effective balance - nor even satisfy the hysteresis condition - during the run
			spec.HYSTERESIS_QUOTIENT = 1
			spec.HYSTERESIS_DOWNWARD_MULTIPLIER = 20
			spec.HYSTERESIS_UPWARD_MULTIPLIER = 20
		}
		g := chain.GenesisOpts{Validators: cfg.Validators}
		g.PendingDeposits = pendingDeposits(spec, cfg.Validators, cfg.Pending)
		c, err = chain.NewGenesis(spec, g)
		if err == nil && cfg.Script == "idle-active-set" {
			err = pinnedRegistry(c)
		}
		// the cache-fork script needs eth1 votes to succeed on both sides: participation patterns only
		steps = chain.RandomScenario(rand.New(rand.NewSource(cfg.Seed)), spec, chain.ScenarioOpts{Epochs: cfg.Epochs, Validators: cfg.Validators,
			Calm: cfg.Script == "branch-other-deposits"})
	}
	if err != nil {
		// zrnt could not even build the genesis of this chain: reported, the runner decides what it means
		_ = json.NewEncoder(os.Stdout).Encode(summary{Chain: cfg.Name, Stopped: "build chain: " + err.Error(), Unbuildable: true,
			Steps: map[string]int{}, Lines: map[string]int{}, Flags: map[string]int{}, ByFork: map[string]int{}})
		return
	}
	spec := c.Spec
	unit := common.Gwei(1)
	if !chain.IsScaled(preset) {
		unit = 1000000000
	}
	r := &recorder{out: json.NewEncoder(f), proj: &projector{spec: spec, keys: c.Keys, unit: unit}, rng: rand.New(rand.NewSource(cfg.Seed ^ 0xe9c)),
		lines: map[*chain.Chain][]*line{}, cfg: cfg, maxRel: 2,
		sum: summary{Chain: cfg.Name, Steps: map[string]int{}, Lines: map[string]int{}, Flags: map[string]int{}, ByFork: map[string]int{}}}
	r.emit(map[string]interface{}{"ev": "Init", "chain": cfg.Name, "preset": preset, "spe": int(spec.SLOTS_PER_EPOCH),
		"inc": r.proj.amount(spec.EFFECTIVE_BALANCE_INCREMENT), "unit1": b2i(unit == 1), "target": int(spec.TARGET_COMMITTEE_SIZE),
		"maxc": int(spec.MAX_COMMITTEES_PER_SLOT), "period": int(spec.EPOCHS_PER_SYNC_COMMITTEE_PERIOD), "syncsize": int(spec.SYNC_COMMITTEE_SIZE)})
	// the main line: the genesis state with the context zrnt's genesis built (long-lived from here on)
	main := &line{name: "main", sc: clientCopy(c.StateCtx), n0: int(c.ValidatorCount())}
	r.lines[c] = []*line{main}
	r.order = append(r.order, c)
	c.Observer = r
	// genesis itself is a point of the chain
	{
		l := main
		o := outcome{Out: "ok", Root: short(l.sc.StateRoot())}
		r.logCtx(l, l.sc, l.n0, "genesis", o, o, o.Root, l.sc.Slot(), l.sc.Fork(), int(l.sc.ValidatorCount()), []map[string]int{})
	}

	// a panic inside zrnt while the chain harness produces or applies a block ends the scenario, not the recording
	defer func() {
		if p := recover(); p != nil {
			r.sum.Stopped = fmt.Sprintf("panic while running the scenario: %v", p)
			_ = json.NewEncoder(os.Stdout).Encode(r.sum)
		}
	}()
	runSteps := func(ch *chain.Chain, sts []chain.StepPlan) bool {
		_, err := ch.RunScenario(sts)
		if err != nil {
			r.sum.Stopped = err.Error()
			// the harness could not continue the chain (zrnt refused or could not serve block production): the
			// following slots are still points of the chain, observe slot processing alone for a bit more than an epoch
			for _, l := range r.lines[ch] {
				if l.peer == nil && !l.dead {
					r.sideSlots(l, step{kind: "slots", to: l.sc.Slot() + ch.Spec.SLOTS_PER_EPOCH + 1}, l.sc.Slot(), int(l.sc.ValidatorCount()), true)
				}
			}
			return false
		}
		return true
	}
	switch cfg.Script {
	case "":
		runSteps(c, steps)
	case "branch-same-deposits":
		// main and a branch see the SAME deposit contract but include the deposits at different times
		cut := len(steps) * 2 / 5
		if runSteps(c, steps[:cut]) {
			head := c.Slot()
			cb := r.branch(c)
			alt := chain.RandomScenario(rand.New(rand.NewSource(cfg.Seed+77)), spec, chain.ScenarioOpts{Epochs: cfg.Epochs, Validators: cfg.Validators})
			var bsteps []chain.StepPlan
			for _, s := range alt {
				if s.Slot > head && s.Slot <= head+3*spec.SLOTS_PER_EPOCH {
					bsteps = append(bsteps, s)
				}
			}
			// new depositors on both sides of the fork (same keys in the same order: same deposit contract)
			k := c.NextFreeKey()
			c.AddDeposit(chain.DepositSpec{Key: k})
			cb.AddDeposit(chain.DepositSpec{Key: k})
			for i := range bsteps {
				// no deposits of its own: the branch includes what the shared contract holds, at its own pace
				bsteps[i].VoteNewEth1 = true
				bsteps[i].NewDeposits, bsteps[i].TopUps, bsteps[i].BadDeposits, bsteps[i].PartialDeposits, bsteps[i].Deposits = 0, 0, 0, 0, nil
			}
			_, berr := cb.RunScenario(bsteps)
			if berr != nil {
				r.sum.Stopped = "branch: " + berr.Error()
			}
			rest := steps[cut:]
			for i := range rest {
				if i < int(3*spec.SLOTS_PER_EPOCH) {
					rest[i].VoteNewEth1 = true
				}
			}
			runSteps(c, rest)
		}
	case "idle-active-set":
		// no blocks: one ProcessSlots per epoch (every slot on the way is observed on the side copy)
		for e := common.Epoch(1); e <= common.Epoch(cfg.Epochs); e++ {
			if err := c.Slots(common.Slot(e) * spec.SLOTS_PER_EPOCH); err != nil {
				r.sum.Stopped = fmt.Sprintf("ProcessSlots to epoch %d failed on an idle chain: %v", e, err)
				break
			}
		}
	case "fork-deposits-lt-cap", "fork-deposits-eq-cap", "fork-deposit-vs-rotate":
		r.aliasScript(c, cfg)
	case "branch-other-deposits":
		// the branch sees another deposit (other pubkey at the next validator index) than main:
		// the shared pubkey cache has to fork out
		cut := len(steps) / 4 // inside the warm-up phase (full participation)
		if runSteps(c, steps[:cut]) {
			cb := r.branch(c)
			ka, km := chain.KeyID(90), chain.KeyID(91)
			cb.AddDeposit(chain.DepositSpec{Key: ka})
			if _, err := cb.DriveEth1Vote(); err != nil {
				r.sum.Stopped = "branch vote: " + err.Error()
			} else if err := cb.RunHonest(cb.Slot() + spec.SLOTS_PER_EPOCH); err != nil {
				r.sum.Stopped = "branch: " + err.Error()
			}
			// main: first another depositor at the same validator index, then the branch's depositor
			c.AddDeposit(chain.DepositSpec{Key: km})
			c.AddDeposit(chain.DepositSpec{Key: ka})
			if _, err := c.DriveEth1Vote(); err != nil {
				r.sum.Stopped = "main vote: " + err.Error()
			} else if err := c.RunHonest(c.Slot() + 2*spec.SLOTS_PER_EPOCH); err != nil {
				r.sum.Stopped = "main: " + err.Error()
			}
		}
	}
	_ = json.NewEncoder(os.Stdout).Encode(r.sum)
}

// pendingDeposits are includable from slot 1 on (mid-epoch, two per block). Amounts (in 1/32000 of the maximum
// effective balance): a new validator with an amount that is NOT a multiple of the increment, topped up in the same
// block (partial first deposit + top-up in one epoch), just above the maximum, exactly the maximum, a small
// fractional one, less than one increment, just below the maximum.
func pendingDeposits(spec *common.Spec, validators, k int) []chain.DepositSpec {
	scale := spec.MAX_EFFECTIVE_BALANCE / 32000
	n := chain.KeyID(validators)
	pattern := []chain.DepositSpec{{Key: n, Amount: 17500}, {Key: n, Amount: 700}, {Key: n + 1, Amount: 32500}, {Key: n + 2, Amount: 32000},
		{Key: n + 3, Amount: 1500}, {Key: n + 4, Amount: 999}, {Key: n + 5, Amount: 31999}}
	var out []chain.DepositSpec
	for i := 0; i < k && i < len(pattern); i++ {
		d := pattern[i]
		d.Amount *= scale
		out = append(out, d)
	}
	return out
}

// pinnedRegistry edits the genesis registry (the result is an arbitrary well-formed state) so that the ACTIVE SET
// changes at given epochs while NO effective balance changes: every balance is set to the maximum effective balance
// plus 10 increments, well inside the (widened, see record) hysteresis band for the whole idle, penalised run, and
//
//	validator 1   activation_epoch 2                       (i)   an activation alone
//	validator 2   exit_epoch 3                             (ii)  an exit alone
//	validators 3, 4   activation_epoch 4 / exit_epoch 4    (iii) both in the same epoch
//	validator 5   slashed, exit_epoch 5                    (iv)  a slashed validator leaves the active set
//
// The epochs context is rebuilt from the edited state (it is the long-lived context from here on).
func pinnedRegistry(c *chain.Chain) error {
	spec := c.Spec
	vals, err := c.State.Validators()
	if err != nil {
		return err
	}
	bals, err := c.State.Balances()
	if err != nil {
		return err
	}
	n := int(c.ValidatorCount())
	for i := 0; i < n; i++ {
		if err := bals.SetBalance(common.ValidatorIndex(i), spec.MAX_EFFECTIVE_BALANCE+10*spec.EFFECTIVE_BALANCE_INCREMENT); err != nil {
			return err
		}
	}
	delay := spec.MIN_VALIDATOR_WITHDRAWABILITY_DELAY
	val := func(i int) common.Validator {
		v, err := vals.Validator(common.ValidatorIndex(i))
		check(err)
		return v
	}
	activate := func(i int, e common.Epoch) {
		check(val(i).SetActivationEligibilityEpoch(0))
		check(val(i).SetActivationEpoch(e))
	}
	exit := func(i int, e common.Epoch) {
		check(val(i).SetExitEpoch(e))
		check(val(i).SetWithdrawableEpoch(e + delay + 8))
	}
	activate(1, 2)
	exit(2, 3)
	activate(3, 4)
	exit(4, 4)
	check(val(5).MakeSlashed())
	check(val(5).SetExitEpoch(5))
	check(val(5).SetWithdrawableEpoch(5 + common.Epoch(spec.EPOCHS_PER_SLASHINGS_VECTOR) + 8))
	epc, err := common.NewEpochsContext(spec, c.State.BeaconState)
	if err != nil {
		return err
	}
	c.Epc = epc
	return nil
}

// regFacts are the state facts the cached quantities depend on, for the "which fact changed alone" classes.
type regFacts struct {
	epoch   common.Epoch
	active  map[common.ValidatorIndex]bool
	slashed map[common.ValidatorIndex]bool
	effs    []common.Gwei
	// inBand: no balance satisfies the hysteresis condition of process_effective_balance_updates (the balances
	// of a post-state are the ones the epoch transition examined)
	inBand bool
}

func factsOf(sc *chain.StateCtx) regFacts {
	f := regFacts{epoch: sc.Epoch(), active: map[common.ValidatorIndex]bool{}, slashed: map[common.ValidatorIndex]bool{}, inBand: true}
	spec := sc.Spec
	hinc := spec.EFFECTIVE_BALANCE_INCREMENT / common.Gwei(spec.HYSTERESIS_QUOTIENT)
	down, up := hinc*common.Gwei(spec.HYSTERESIS_DOWNWARD_MULTIPLIER), hinc*common.Gwei(spec.HYSTERESIS_UPWARD_MULTIPLIER)
	bals := sc.Balances()
	for i, v := range sc.Validators() {
		if bals[i]+down < v.EffectiveBalance || v.EffectiveBalance+up < bals[i] {
			f.inBand = false
		}
		f.effs = append(f.effs, v.EffectiveBalance)
		if v.Slashed {
			f.slashed[common.ValidatorIndex(i)] = true
		}
		if v.ActivationEpoch <= f.epoch && f.epoch < v.ExitEpoch {
			f.active[common.ValidatorIndex(i)] = true
		}
	}
	return f
}

// boundaryClass classifies an epoch boundary by what changed in the registry across it.
func boundaryClass(pre, post regFacts) []string {
	if pre.epoch == post.epoch {
		return nil
	}
	effChanged := len(pre.effs) != len(post.effs)
	for i := 0; !effChanged && i < len(pre.effs); i++ {
		effChanged = pre.effs[i] != post.effs[i]
	}
	joined, left, slashedLeft := false, false, false
	for i := range post.active {
		joined = joined || !pre.active[i]
	}
	for i := range pre.active {
		left = left || !post.active[i]
		slashedLeft = slashedLeft || (!post.active[i] && post.slashed[i])
	}
	var out []string
	switch {
	case !effChanged && (joined || left) && !post.inBand:
		out = append(out, "active-set-changed-eff-values-unchanged-but-hysteresis-condition-met")
	case !effChanged && (joined || left):
		if joined {
			out = append(out, "active-set-changed-no-eff-change:activation")
		}
		if left {
			out = append(out, "active-set-changed-no-eff-change:exit")
		}
		if joined && left {
			out = append(out, "active-set-changed-no-eff-change:both")
		}
		if slashedLeft {
			out = append(out, "active-set-changed-no-eff-change:slashed-exit")
		}
	case effChanged && !joined && !left:
		out = append(out, "eff-changed-active-set-unchanged")
	case !effChanged:
		out = append(out, "boundary-registry-unchanged")
	default:
		out = append(out, "boundary-eff-and-active-set-changed")
	}
	return out
}

func isAliasScript(s string) bool {
	return s == "fork-deposits-lt-cap" || s == "fork-deposits-eq-cap" || s == "fork-deposit-vs-rotate"
}

// aliasScript: two forks of one state that each include a deposit of a new validator with a DIFFERENT amount while
// their contexts are Clones of one context (8 slots per epoch, eth1 voting period of one epoch):
//
//	epoch 0   slot 1 includes the first two pending deposits; slots 2..7 stay empty
//	epoch 1   slot 8 includes the third pending deposit if there is one ("lt-cap": the cached balances were
//	          appended to after the rotation, an append into spare capacity is possible; "eq-cap": no append yet);
//	          slots 8..13 vote E1,E2,E1,E2,E1,E2 (eth1 data of two deposit logs that differ in their next deposit)
//	fork      branch: slots 14, 15 vote E1 -> adopted at 15, the block carries the deposit (17000)
//	          main:   slots 14, 15 vote E2 -> adopted at 15, the block carries the deposit (32000)
//	          ("vs-rotate": main stays empty until epoch 2 and adopts E2 there)
//	after every step the other fork's head and the parent are re-observed.
func (r *recorder) aliasScript(c *chain.Chain, cfg chainCfg) {
	spec := c.Spec
	stop := func(what string, err error) bool {
		if err != nil {
			r.sum.Stopped = what + ": " + err.Error()
			return true
		}
		return false
	}
	stepOn := func(ch *chain.Chain, sc *chain.Scenario, slot common.Slot, vote *common.Eth1Data) error {
		res := sc.Step(chain.StepPlan{Slot: slot, Block: &chain.BlockPlan{Eth1Vote: vote}, Seed: int64(slot)})
		return res.Err
	}
	sc := chain.NewScenario(c)
	sc.KeepStates = false
	if stop("slot 1", stepOn(c, sc, 1, nil)) {
		return
	}
	depKey := chain.KeyID(60)
	t1, t2 := c.Deposits.Clone(), c.Deposits.Clone()
	t1.Append(chain.MakeDepositData(spec, c.Keys, chain.DepositSpec{Key: depKey, Amount: 17000}))
	t2.Append(chain.MakeDepositData(spec, c.Keys, chain.DepositSpec{Key: depKey, Amount: 32000}))
	e1, e2 := t1.Eth1Data(t1.Count()), t2.Eth1Data(t2.Count())
	for s := common.Slot(8); s <= 13; s++ {
		v := &e1
		if s%2 == 1 {
			v = &e2
		}
		if stop(fmt.Sprintf("slot %d", s), stepOn(c, sc, s, v)) {
			return
		}
	}
	cb := r.branch(c)
	cb.Deposits, c.Deposits = t1, t2
	scb := chain.NewScenario(cb)
	scb.KeepStates = false
	for s := common.Slot(14); s <= 15; s++ {
		if stop(fmt.Sprintf("branch slot %d", s), stepOn(cb, scb, s, &e1)) {
			return
		}
	}
	if cfg.Script == "fork-deposit-vs-rotate" {
		// main crosses the epoch boundary first (its context rotates), then adopts E2 in the new voting period
		for s := common.Slot(16); s <= 20; s++ {
			if stop(fmt.Sprintf("main slot %d", s), stepOn(c, sc, s, &e2)) {
				return
			}
		}
	} else {
		for s := common.Slot(14); s <= 15; s++ {
			if stop(fmt.Sprintf("main slot %d", s), stepOn(c, sc, s, &e2)) {
				return
			}
		}
	}
	// did both forks really append a validator with another effective balance at the same index?
	bl, ml := r.lines[cb][0], r.lines[c][0]
	if !bl.dead && !ml.dead {
		nb, nm := bl.sc.ValidatorCount(), ml.sc.ValidatorCount()
		if nb == nm && bl.sc.Validator(common.ValidatorIndex(nb-1)).EffectiveBalance != ml.sc.Validator(common.ValidatorIndex(nm-1)).EffectiveBalance {
			if cfg.Script == "fork-deposit-vs-rotate" {
				r.sum.Flags["fork-one-deposits-other-rotates-first"]++
			} else {
				r.sum.Flags["fork-both-deposit-different-amounts-same-epoch"]++
			}
		}
	}
	// both forks go on into the next epochs (rotation on both)
	if stop("branch tail", cb.RunHonest(cb.Slot()+spec.SLOTS_PER_EPOCH+1)) {
		return
	}
	stop("main tail", c.RunHonest(c.Slot()+spec.SLOTS_PER_EPOCH+1))
}

func b2i(b bool) int {
	if b {
		return 1
	}
	return 0
}
