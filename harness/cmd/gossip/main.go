// Command gossip records what zrnt's gossip validators (eth2/gossipval) answer to honest messages
// and to single-condition corruptions of them, over node views made of REAL states (built with
// harness/chain) and the REAL fork choice.
//
//	gossip run -tier quick|thorough -seed S -out trace.ndjson [-scen p0,alt,...] [-topic att,...]
//
// One ndjson event per validated message: the harness's claim about every condition of the p2p
// specification ("cond", evaluated from how the message was built and from the harness's own
// knowledge of the chain - never by calling gossipval), the cache keys, the verdict zrnt
// returned, the Mark*/Seen* calls it made. spec/GossipValTrace.tla decides.
package main

import (
	"bufio"
	"encoding/json"
	"flag"
	"fmt"
	"math/rand"
	"os"
	"runtime"
	"strings"
	"sync"
	"time"
)

type scenBuilder struct {
	name  string
	build func(tier string, rng *rand.Rand) ([]*Scen, error)
}

func main() {
	if len(os.Args) >= 2 && os.Args[1] == "fcchain" {
		fcchainMain(os.Args[2:])
		return
	}
	if len(os.Args) < 2 || os.Args[1] != "run" {
		fmt.Fprintln(os.Stderr, "usage: gossip run -tier quick|thorough -seed S -out file [-scen a,b] [-topic x,y]")
		os.Exit(2)
	}
	fs := flag.NewFlagSet("run", flag.ExitOnError)
	tier := fs.String("tier", "quick", "quick|thorough")
	seed := fs.Int64("seed", 1, "seed")
	out := fs.String("out", "", "output ndjson")
	scens := fs.String("scen", "", "comma separated scenario names (default all)")
	topics := fs.String("topic", "", "comma separated topics (default all)")
	workers := fs.Int("workers", runtime.NumCPU(), "parallel validations")
	only := fs.String("hist", "", "run only the history \"<view>|<name>\" (replay)")
	fs.Parse(os.Args[2:])

	wantScen := set(*scens)
	wantTopic := set(*topics)
	t0 := time.Now()

	// build all scenarios in parallel (chain building is BLS-bound)
	builders := allScenarios()
	type built struct {
		scens []*Scen
		err   error
	}
	res := make([]built, len(builders))
	var wg sync.WaitGroup
	for i, sb := range builders {
		if len(wantScen) > 0 && !wantScen[sb.name] {
			continue
		}
		wg.Add(1)
		go func(i int, sb scenBuilder) {
			defer wg.Done()
			defer func() {
				if r := recover(); r != nil {
					res[i].err = fmt.Errorf("scenario %s: panic: %v", sb.name, r)
				}
			}()
			s, err := sb.build(*tier, rand.New(rand.NewSource(*seed*7919+int64(i))))
			res[i] = built{s, err}
		}(i, sb)
	}
	wg.Wait()
	var all []*Scen
	var failures []string
	for i, r := range res {
		if r.err != nil {
			// build what can be built: the other views are still judged; the runner refuses to
			// report "held" when something is missing
			fmt.Fprintf(os.Stderr, "gossip: scenario %s NOT BUILT: %v\n", builders[i].name, r.err)
			failures = append(failures, fmt.Sprintf("%s: %v", builders[i].name, r.err))
			continue
		}
		all = append(all, r.scens...)
	}
	fmt.Fprintf(os.Stderr, "gossip: %d views built in %.1fs\n", len(all), time.Since(t0).Seconds())
	if len(all) == 0 {
		fmt.Fprintln(os.Stderr, "gossip: no view could be built")
		os.Exit(3)
	}

	// generate histories (message construction signs with BLS: parallel per scenario)
	type job struct {
		v *View
		h *History
	}
	perScen := make([][]*History, len(all))
	perFail := make([][]string, len(all))
	for i, s := range all {
		wg.Add(1)
		go func(i int, s *Scen) {
			defer wg.Done()
			defer func() {
				if r := recover(); r != nil {
					perFail[i] = append(perFail[i], fmt.Sprintf("%s: %v", s.Name, r))
				}
			}()
			rng := rand.New(rand.NewSource(*seed*104729 + int64(i)))
			perScen[i], perFail[i] = s.histories(*tier, rng, wantTopic)
		}(i, s)
	}
	wg.Wait()
	var jobs []job
	var views []string
	for i, hs := range perScen {
		views = append(views, all[i].Name)
		for _, f := range perFail[i] {
			fmt.Fprintf(os.Stderr, "gossip: catalogue NOT BUILT: %s\n", f)
			failures = append(failures, f)
		}
		for _, h := range hs {
			h.Scen = all[i].Name
			if *only != "" && *only != h.Scen+"|"+h.Name {
				continue
			}
			jobs = append(jobs, job{all[i].V, h})
		}
	}
	fmt.Fprintf(os.Stderr, "gossip: %d histories generated in %.1fs\n", len(jobs), time.Since(t0).Seconds())
	if *out != "" {
		meta, _ := json.Marshal(map[string]interface{}{"views": views, "failed": failures})
		if err := os.WriteFile(*out+".meta.json", meta, 0o644); err != nil {
			fmt.Fprintln(os.Stderr, err)
			os.Exit(3)
		}
	}

	// execute on zrnt
	results := make([][]Event, len(jobs))
	ch := make(chan int)
	for w := 0; w < *workers; w++ {
		wg.Add(1)
		go func() {
			defer wg.Done()
			for i := range ch {
				results[i] = runHistory(jobs[i].v, jobs[i].h, i)
			}
		}()
	}
	for i := range jobs {
		ch <- i
	}
	close(ch)
	wg.Wait()
	// A watchdog timeout under the parallel run may be the machine's (memory pressure, CPU
	// starvation) rather than zrnt's: such histories are repeated alone with a generous
	// watchdog; a call that still does not return is logged as "timeout".
	watchdog = 10 * time.Minute
	for i := range jobs {
		for _, ev := range results[i] {
			if ev.Out == "timeout" {
				fmt.Fprintf(os.Stderr, "gossip: history %d (%s) hit the watchdog, repeating it alone\n", i, jobs[i].h.Name)
				results[i] = runHistory(jobs[i].v, jobs[i].h, i)
				break
			}
		}
	}

	f := os.Stdout
	if *out != "" {
		var err error
		f, err = os.Create(*out)
		if err != nil {
			fmt.Fprintln(os.Stderr, err)
			os.Exit(3)
		}
		defer f.Close()
	}
	w := bufio.NewWriterSize(f, 1<<20)
	enc := json.NewEncoder(w)
	n := 0
	for _, evs := range results {
		for i := range evs {
			if err := enc.Encode(&evs[i]); err != nil {
				fmt.Fprintln(os.Stderr, err)
				os.Exit(3)
			}
			n++
		}
	}
	w.Flush()
	fmt.Fprintf(os.Stderr, "gossip: %d events in %.1fs\n", n, time.Since(t0).Seconds())
}

func set(s string) map[string]bool {
	m := map[string]bool{}
	for _, x := range strings.Split(s, ",") {
		if x = strings.TrimSpace(x); x != "" {
			m[x] = true
		}
	}
	return m
}
