package main

import (
	"context"
	"errors"
	"fmt"
	"sync"

	"verif/harness/chain"

	"github.com/protolambda/zrnt/eth2/beacon"
	"github.com/protolambda/zrnt/eth2/beacon/common"
	"github.com/protolambda/zrnt/eth2/forkchoice"
	"github.com/protolambda/zrnt/eth2/forkchoice/proto"
)

// Block is one block the node has imported: its post-state is a real zrnt state produced by
// the chain builder with full validation.
type Block struct {
	Root, Parent common.Root
	Slot         common.Slot
	Env          *common.BeaconBlockEnvelope // nil for the genesis block
	Post         *chain.StateCtx             // state after the block (at Slot)
	Branch       string
}

type nodeKey struct {
	root common.Root
	slot common.Slot
}

// View is the node's chain view: a block tree with real states, the REAL fork choice fed with
// those blocks, the checkpoints the node has adopted and its set of bad blocks.
// It implements beacon.Chain (the part gossipval uses).
type View struct {
	Name    string
	Spec    *common.Spec
	Keys    *chain.Keys
	GVR     common.Root
	GenTime common.Timestamp
	Genesis *Block
	Blocks  map[common.Root]*Block
	Order   []*Block
	Tip     *Block // the block the node regards as its head (all validators vote for it)
	TipSlot common.Slot
	// maxSlot[root]: the latest slot up to which the node has processed empty slots on top of root
	maxSlot map[common.Root]common.Slot

	fc     forkchoice.Forkchoice
	FcHead string
	Fin    common.Checkpoint
	Jus    common.Checkpoint

	mu      sync.Mutex
	entries map[nodeKey]*Entry
	pkCache *common.PubkeyCache
}

// Entry implements beacon.ChainEntry for the state at (block root, slot).
type Entry struct {
	blk  *Block
	slot common.Slot
	sc   *chain.StateCtx
}

func (e *Entry) Step() common.Step { return common.AsStep(e.slot, e.slot == e.blk.Slot) }
func (e *Entry) BlockRoot() (common.Root, error) {
	return e.blk.Root, nil
}
func (e *Entry) ParentRoot() (common.Root, error) {
	if e.slot == e.blk.Slot {
		return e.blk.Parent, nil
	}
	return e.blk.Root, nil
}
func (e *Entry) StateRoot() (common.Root, error) { return e.sc.StateRoot(), nil }
func (e *Entry) EpochsContext(ctx context.Context) (*common.EpochsContext, error) {
	return e.sc.Epc, nil
}
func (e *Entry) State(ctx context.Context) (common.BeaconState, error) {
	return e.sc.State.BeaconState, nil
}

// NewView starts a view from the genesis state of a chain.
func NewView(name string, c *chain.Chain) (*View, error) {
	g := c.Genesis.Copy(false)
	gb := &Block{Root: g.HeadRoot(), Slot: 0, Post: g, Branch: "genesis"}
	v := &View{Name: name, Spec: c.Spec, Keys: c.Keys, GVR: g.GVR(), GenTime: g.GenesisTime(), Genesis: gb,
		Blocks: map[common.Root]*Block{gb.Root: gb}, Order: []*Block{gb}, Tip: gb,
		maxSlot: map[common.Root]common.Slot{gb.Root: 0},
		entries: map[nodeKey]*Entry{}}
	cp := common.Checkpoint{Epoch: 0, Root: gb.Root}
	v.Fin, v.Jus = cp, cp
	arr := proto.NewProtoArray(common.Root{}, gb.Root, 0, 0, 0, proto.NodeSinkFn(
		func(ctx context.Context, ref forkchoice.NodeRef, canonical bool) error { return nil }))
	bal := gweis(g.Balances())
	fc, err := forkchoice.NewForkChoice(c.Spec, cp, cp, gb.Root, 0, arr, proto.NewProtoVoteStore(c.Spec), bal)
	if err != nil {
		return nil, fmt.Errorf("fork choice: %w", err)
	}
	v.fc = fc
	// one pubkey cache for every state of the view (the registry keys never change in these
	// chains); warmed up front so that concurrent validations only read it.
	pc, err := common.NewPubkeyCache(mustV(g.State.Validators()))
	if err != nil {
		return nil, err
	}
	n := g.ValidatorCount()
	for i := uint64(0); i < n; i++ {
		p, ok := pc.Pubkey(common.ValidatorIndex(i))
		if !ok {
			return nil, fmt.Errorf("pubkey %d missing", i)
		}
		if _, err := p.Pubkey(); err != nil {
			return nil, err
		}
	}
	v.pkCache = pc
	g.Epc.ValidatorPubkeyCache = pc
	return v, nil
}

func mustV[T any](v T, err error) T {
	if err != nil {
		panic(err)
	}
	return v
}

func gweis(b []common.Gwei) []forkchoice.Gwei {
	out := make([]forkchoice.Gwei, len(b))
	for i, x := range b {
		out[i] = forkchoice.Gwei(x)
	}
	return out
}

// cpOf maps a state checkpoint to the store's notion (epoch 0: the genesis block root).
func (v *View) cpOf(c common.Checkpoint) common.Checkpoint {
	if c.Root == (common.Root{}) {
		c.Root = v.Genesis.Root
	}
	return c
}

// Import adds a block (already applied on the builder chain; post = state after it) to the view
// and to the real fork choice.
func (v *View) Import(env *common.BeaconBlockEnvelope, post *chain.StateCtx, branch string) (*Block, error) {
	if _, ok := v.Blocks[env.BlockRoot]; ok {
		return v.Blocks[env.BlockRoot], nil
	}
	par, ok := v.Blocks[env.ParentRoot]
	if !ok {
		return nil, fmt.Errorf("import %s: unknown parent", env.BlockRoot)
	}
	sc := post.Copy(false)
	sc.Epc.ValidatorPubkeyCache = v.pkCache
	b := &Block{Root: env.BlockRoot, Parent: env.ParentRoot, Slot: env.Slot, Env: env, Post: sc, Branch: branch}
	_, cj, fin := sc.Justified()
	if !v.fc.ProcessBlock(par.Root, b.Root, b.Slot, cj.Epoch, fin.Epoch) {
		return nil, fmt.Errorf("fork choice refused block %s at slot %d", b.Root, b.Slot)
	}
	v.Blocks[b.Root] = b
	v.Order = append(v.Order, b)
	v.maxSlot[b.Root] = b.Slot
	if v.maxSlot[par.Root] < b.Slot {
		v.maxSlot[par.Root] = b.Slot
	}
	if b.Slot > v.TipSlot {
		v.TipSlot = b.Slot
	}
	return b, nil
}

// ExtendSlots lets the node process empty slots on top of a block up to `to`.
func (v *View) ExtendSlots(root common.Root, to common.Slot) {
	b := v.Blocks[root]
	_, cj, fin := b.Post.Justified()
	v.fc.ProcessSlot(root, to, cj.Epoch, fin.Epoch)
	if v.maxSlot[root] < to {
		v.maxSlot[root] = to
	}
	if to > v.TipSlot {
		v.TipSlot = to
	}
}

// SetHead makes `tip` the node's head: every validator's latest message points at it and the
// node adopts the tip state's justified/finalized checkpoints (which prunes the fork choice).
func (v *View) SetHead(tip *Block, prune bool) error {
	v.Tip = tip
	_, cj, fin := tip.Post.Justified()
	j, f := v.cpOf(cj), v.cpOf(fin)
	jb, ok := v.Blocks[j.Root]
	if !ok {
		return fmt.Errorf("justified root unknown")
	}
	js, err := v.entryAt(jb, mustV(v.Spec.EpochStartSlot(j.Epoch)))
	if err != nil {
		return err
	}
	// prune=false models a chain that has adopted the new finalized checkpoint but whose fork
	// choice has not pruned yet: branches outside the finalized subtree are still known to it.
	if prune {
		if err := v.fc.UpdateJustified(context.Background(), tip.Root, j, f, func() ([]forkchoice.Gwei, error) {
			return gweis(js.sc.Balances()), nil
		}); err != nil {
			return fmt.Errorf("UpdateJustified: %w", err)
		}
	}
	v.Jus, v.Fin = j, f
	n := tip.Post.ValidatorCount()
	for i := uint64(0); i < n; i++ {
		v.fc.ProcessAttestation(common.ValidatorIndex(i), tip.Root, v.maxSlot[tip.Root])
	}
	// The node's head is what the harness declares (Tip). The fork choice's own Head() is only
	// recorded: it fails when the justified epoch starts with an empty slot (it starts the search
	// at the slot node <<root, epoch start>>, which has no block children) - a fork-choice matter
	// (C09), irrelevant to gossip validation.
	if h, err := v.fc.Head(); err != nil {
		v.FcHead = "error: " + err.Error()
	} else if h.Root != tip.Root {
		v.FcHead = fmt.Sprintf("differs: %s@%d", h.Root, h.Slot)
	} else {
		v.FcHead = "agrees"
	}
	return nil
}

// entryAt returns (and caches) the state of block b advanced through empty slots to `slot`.
func (v *View) entryAt(b *Block, slot common.Slot) (*Entry, error) {
	if slot < b.Slot {
		return nil, fmt.Errorf("slot %d before block slot %d", slot, b.Slot)
	}
	k := nodeKey{b.Root, slot}
	v.mu.Lock()
	defer v.mu.Unlock()
	if e := v.entries[k]; e != nil {
		return e, nil
	}
	sc := b.Post
	if slot > b.Slot {
		sc = b.Post.Copy(false)
		if err := sc.Advance(slot); err != nil {
			return nil, err
		}
		sc.Epc.ValidatorPubkeyCache = v.pkCache
	}
	// sync committee caches point into another pubkey cache whose entries are deserialised
	// lazily without synchronisation: warm them here, under the lock
	for _, sy := range []*common.IndexedSyncCommittee{sc.Epc.CurrentSyncCommittee, sc.Epc.NextSyncCommittee} {
		if sy != nil {
			for _, p := range sy.CachedPubkeys {
				if _, err := p.Pubkey(); err != nil {
					return nil, err
				}
			}
		}
	}
	e := &Entry{blk: b, slot: slot, sc: sc}
	v.entries[k] = e
	return e, nil
}

// ---------------------------------------------------------------- harness-side chain knowledge
// (independent of the fork choice: parent pointers of the block tree)

// AncestorAt is get_ancestor(store, root, slot): the latest block of root's chain with slot <= slot.
func (v *View) AncestorAt(root common.Root, slot common.Slot) (common.Root, bool) {
	b, ok := v.Blocks[root]
	for ok && b.Slot > slot {
		b, ok = v.Blocks[b.Parent]
	}
	if !ok {
		return common.Root{}, false
	}
	return b.Root, true
}

// CheckpointBlock is get_checkpoint_block(store, root, epoch).
func (v *View) CheckpointBlock(root common.Root, epoch common.Epoch) (common.Root, bool) {
	return v.AncestorAt(root, mustV(v.Spec.EpochStartSlot(epoch)))
}

// DescendsFromFinalized: the finalized checkpoint is an ancestor of root.
func (v *View) DescendsFromFinalized(root common.Root) bool {
	a, ok := v.CheckpointBlock(root, v.Fin.Epoch)
	return ok && a == v.Fin.Root
}

func (v *View) FinalizedSlot() common.Slot { return mustV(v.Spec.EpochStartSlot(v.Fin.Epoch)) }

// StateAt returns the state of (root, slot) for building messages.
func (v *View) StateAt(root common.Root, slot common.Slot) *chain.StateCtx {
	e, err := v.entryAt(v.Blocks[root], slot)
	if err != nil {
		panic(err)
	}
	return e.sc
}

// CanonicalAt returns the block of the tip's chain at or before slot.
func (v *View) CanonicalAt(slot common.Slot) *Block {
	r, ok := v.AncestorAt(v.Tip.Root, slot)
	if !ok {
		return nil
	}
	return v.Blocks[r]
}

// ---------------------------------------------------------------- beacon.Chain

var errNotImpl = errors.New("not implemented by the gossip mock")

func (v *View) ByStateRoot(root common.Root) (beacon.ChainEntry, bool) { return nil, false }

func (v *View) ByBlock(root common.Root) (beacon.ChainEntry, bool) {
	b, ok := v.Blocks[root]
	if !ok {
		return nil, false
	}
	e, err := v.entryAt(b, b.Slot)
	if err != nil {
		return nil, false
	}
	return e, true
}

func (v *View) ByBlockSlot(root common.Root, slot common.Slot) (beacon.ChainEntry, bool) {
	b, ok := v.Blocks[root]
	if !ok || slot < b.Slot || slot > v.maxSlot[root] {
		return nil, false
	}
	e, err := v.entryAt(b, slot)
	if err != nil {
		return nil, false
	}
	return e, true
}

func (v *View) Search(parentRoot *common.Root, slot *common.Slot) ([]beacon.SearchEntry, error) {
	return nil, errNotImpl
}

func (v *View) Closest(fromBlockRoot common.Root, toSlot common.Slot) (beacon.ChainEntry, bool) {
	b, ok := v.Blocks[fromBlockRoot]
	if !ok || toSlot < b.Slot {
		return nil, false
	}
	s := toSlot
	if s > v.maxSlot[b.Root] {
		s = v.maxSlot[b.Root]
	}
	e, err := v.entryAt(b, s)
	return e, err == nil
}

func (v *View) InSubtree(anchor common.Root, root common.Root) (unknown bool, inSubtree bool) {
	return v.fc.InSubtree(anchor, root)
}

func (v *View) ByCanonStep(step common.Step) (beacon.ChainEntry, bool) { return nil, false }
func (v *View) Iter() (beacon.ChainIter, error)                        { return nil, errNotImpl }
func (v *View) JustifiedCheckpoint() common.Checkpoint                 { return v.Jus }
func (v *View) FinalizedCheckpoint() common.Checkpoint                 { return v.Fin }
func (v *View) Justified() (beacon.ChainEntry, error) {
	e, ok := v.ByBlock(v.Jus.Root)
	if !ok {
		return nil, errors.New("no justified entry")
	}
	return e, nil
}
func (v *View) Finalized() (beacon.ChainEntry, error) {
	e, ok := v.ByBlock(v.Fin.Root)
	if !ok {
		return nil, errors.New("no finalized entry")
	}
	return e, nil
}

func (v *View) Head() (beacon.ChainEntry, error) {
	return v.entryAt(v.Tip, v.maxSlot[v.Tip.Root])
}

// HeadState is the state the node validates exits and slashings against.
func (v *View) HeadState() *chain.StateCtx {
	e, err := v.entryAt(v.Tip, v.maxSlot[v.Tip.Root])
	if err != nil {
		panic(err)
	}
	return e.sc
}

func (v *View) Towards(ctx context.Context, fromBlockRoot common.Root, toSlot common.Slot) (beacon.ChainEntry, error) {
	b, ok := v.Blocks[fromBlockRoot]
	if !ok {
		return nil, fmt.Errorf("unknown block %s", fromBlockRoot)
	}
	if b.Slot > toSlot {
		return nil, fmt.Errorf("block %s at slot %d is past the requested slot %d", fromBlockRoot, b.Slot, toSlot)
	}
	// the mock answers at once: the caller's catch-up deadline is not consulted (a loaded test
	// machine must not turn into IGNORE verdicts)
	return v.entryAt(b, toSlot)
}

func (v *View) Genesis_() beacon.GenesisInfo {
	return beacon.GenesisInfo{Time: v.GenTime, ValidatorsRoot: v.GVR}
}

// chainAdapter gives View the method name Genesis() without clashing with the field.
type chainAdapter struct{ *View }

func (c chainAdapter) Genesis() beacon.GenesisInfo { return c.View.Genesis_() }

var _ beacon.Chain = chainAdapter{}
