package main

import (
	"context"
	"fmt"
	"math/rand"
	"sort"
	"time"

	"verif/harness/chain"

	"github.com/protolambda/zrnt/eth2/beacon/common"
)

// item is one block produced by the chain builder together with the state after it.
type item struct {
	env    *common.BeaconBlockEnvelope
	post   *chain.StateCtx
	branch string
}

// Build is a set of chains (a main chain and side branches) grown from one genesis.
type Build struct {
	spec    *common.Spec
	genesis *chain.Chain
	items   []item
	tips    map[string]*chain.Chain // branch -> chain positioned at the branch tip
}

func newBuild(spec *common.Spec, opts chain.GenesisOpts) (*Build, *chain.Chain, error) {
	c, err := chain.NewGenesis(spec, opts)
	if err != nil {
		return nil, nil, err
	}
	return &Build{spec: spec, genesis: c.Copy(), tips: map[string]*chain.Chain{}}, c, nil
}

// grow runs scenario steps on c and records every block produced.
func (b *Build) grow(c *chain.Chain, branch string, steps []chain.StepPlan) error {
	return b.growUntil(c, branch, steps, nil)
}

// growUntil is grow with one scenario runner (one attestation pool) that stops after the first
// step for which stop() holds.
func (b *Build) growUntil(c *chain.Chain, branch string, steps []chain.StepPlan, stop func() bool) error {
	sc := chain.NewScenario(c)
	sc.KeepStates = false
	for _, st := range steps {
		n := len(c.Blocks)
		r := sc.Step(st)
		if r.Err != nil {
			return fmt.Errorf("branch %s slot %d: %w", branch, st.Slot, r.Err)
		}
		if len(c.Blocks) > n {
			b.items = append(b.items, item{env: c.Blocks[len(c.Blocks)-1], post: c.StateCtx.Copy(false), branch: branch})
		}
		if stop != nil && stop() {
			break
		}
	}
	b.tips[branch] = c
	return nil
}

func honestSteps(from, to common.Slot, skip map[common.Slot]bool, mod func(st *chain.StepPlan)) []chain.StepPlan {
	var out []chain.StepPlan
	for s := from; s <= to; s++ {
		st := chain.StepPlan{Slot: s, Seed: int64(s), Skip: skip[s]}
		if mod != nil {
			mod(&st)
		}
		out = append(out, st)
	}
	return out
}

// view makes a node view from the blocks selected by keep, with head = the last kept block of headBranch.
func (b *Build) view(name string, keep func(it item) bool, headBranch string, extend common.Slot, prune bool) (*View, error) {
	v, err := NewView(name, b.genesis)
	if err != nil {
		return nil, err
	}
	var head *Block
	// a node imports blocks roughly in slot order
	items := append([]item(nil), b.items...)
	sort.SliceStable(items, func(i, j int) bool { return items[i].env.Slot < items[j].env.Slot })
	for _, it := range items {
		if !keep(it) {
			continue
		}
		blk, err := v.Import(it.env, it.post, it.branch)
		if err != nil {
			return nil, err
		}
		if it.branch == headBranch {
			head = blk
		}
	}
	if head == nil {
		head = v.Genesis
	}
	if extend > 0 {
		v.ExtendSlots(head.Root, head.Slot+extend)
	}
	if err := v.SetHead(head, prune); err != nil {
		return nil, fmt.Errorf("view %s: %w", name, err)
	}
	return v, nil
}

// chainAt returns a builder chain positioned at block b of view v (for producing blocks on it).
func chainAt(bl *Build, b *Block) *chain.Chain {
	g := bl.genesis
	return &chain.Chain{StateCtx: b.Post.Copy(true), Deposits: g.Deposits.Clone(), Engine: g.Engine,
		Genesis: g.Genesis, Runner: chain.ZrntRunner{}, Ctx: context.Background()}
}

// Scen is a view plus what the catalogues need to know about how it was built.
type Scen struct {
	Name  string
	B     *Build
	V     *View
	Now   time.Duration   // default clock: 2 s into the view's tip slot
	Stale *Block          // tip of a branch that forked before the finalized checkpoint (nil if none)
	Side  *Block          // tip of a non-canonical branch inside the finalized subtree (nil if none)
	Big   bool            // aggregator selection is selective here
	Only  map[string]bool // if set: the topics whose catalogue runs on this view
}

func newScen(name string, b *Build, v *View) *Scen {
	s := &Scen{Name: name, B: b, V: v}
	s.Now = slotStart(v.Spec, v.TipSlot) + 2*time.Second
	for _, blk := range v.Order {
		switch blk.Branch {
		case "stale":
			s.Stale = blk
		case "side":
			s.Side = blk
		}
	}
	return s
}

func graffiti(tag byte) common.Root {
	var r common.Root
	r[0] = tag
	r[31] = 0x77
	return r
}

// ---------------------------------------------------------------- the scenarios

// p0: S1, phase0 only, 20 validators (validator 19 never activates), 26 slots with finality,
// skipped slots (incl. an epoch start), an exit, a proposer slashing and an attester slashing on
// chain, a stale branch (forks before the finalized checkpoint) and a side branch.
func buildP0(forks chain.ForkSchedule, rng *rand.Rand) (*Build, error) {
	spec := chain.NewSpec(chain.PresetS1, forks)
	bal := make([]common.Gwei, 20)
	bal[19] = 16000
	b, c, err := newBuild(spec, chain.GenesisOpts{Validators: 20, Balances: bal})
	if err != nil {
		return nil, err
	}
	// three empty slots between 9 and 23, seed dependent (the first seed keeps an empty epoch start)
	skip := map[common.Slot]bool{10: true, 16: true, 22: true}
	if rng != nil && rng.Intn(3) != 0 {
		skip = map[common.Slot]bool{}
		for len(skip) < 3 {
			skip[common.Slot(10+rng.Intn(13))] = true
		}
		delete(skip, 11) // slots that carry the on-chain operations
		delete(skip, 13)
	}
	mod := func(st *chain.StepPlan) {
		switch st.Slot {
		case 9:
			st.Exits = 1
		case 11:
			st.ProposerSlashings = 1
		case 13:
			st.AttesterSlashings = 1
			st.AttesterSlashingSize = 2
		case 25:
			st.Exits = 1 // initiated, still active at the tip
		}
	}
	if err := b.grow(c, "main", honestSteps(1, 5, skip, mod)); err != nil {
		return nil, err
	}
	stale := c.Copy()
	if err := b.grow(c, "main", honestSteps(6, 23, skip, mod)); err != nil {
		return nil, err
	}
	side := c.Copy()
	if err := b.grow(c, "main", honestSteps(24, 26, skip, mod)); err != nil {
		return nil, err
	}
	g1 := graffiti(1)
	if err := b.grow(stale, "stale", []chain.StepPlan{
		{Slot: 6, Seed: 106, NoAttest: true, Block: &chain.BlockPlan{Graffiti: g1}},
		{Slot: 7, Seed: 107, NoAttest: true, Block: &chain.BlockPlan{Graffiti: g1}}}); err != nil {
		return nil, err
	}
	g2 := graffiti(2)
	if err := b.grow(side, "side", []chain.StepPlan{
		{Slot: 24, Skip: true, Seed: 124},
		{Slot: 25, Seed: 125, NoAttest: true, Block: &chain.BlockPlan{Graffiti: g2}}}); err != nil {
		return nil, err
	}
	return b, nil
}

// nofin: S4 (2 slots per epoch, 8 validators), no attestations on chain, so nothing is ever
// justified: blocks stay in the fork choice for more than ATTESTATION_PROPAGATION_SLOT_RANGE slots.
// A second branch skips slot 2, so the two branches have different randao mixes and, two epochs
// later, different proposers for the same slot.
func buildNofin(length common.Slot) (*Build, error) {
	spec := chain.NewSpec(chain.PresetS4, chain.Phase0Only)
	b, c, err := newBuild(spec, chain.GenesisOpts{Validators: 8})
	if err != nil {
		return nil, err
	}
	noAtt := func(st *chain.StepPlan) { st.NoAttest = true; st.HoldAttestations = true }
	if err := b.grow(c, "main", honestSteps(1, 1, nil, noAtt)); err != nil {
		return nil, err
	}
	alt := c.Copy()
	if err := b.grow(c, "main", honestSteps(2, length, nil, noAtt)); err != nil {
		return nil, err
	}
	steps := honestSteps(3, length, map[common.Slot]bool{4: true}, noAtt)
	for i := range steps {
		steps[i].Seed += 1000
	}
	if err := b.grow(alt, "side", steps); err != nil {
		return nil, err
	}
	return b, nil
}

// alt: S1 with altair from genesis, 16 validators, sync committee of 8 (period: 8 slots).
func buildAlt(length common.Slot, rng *rand.Rand) (*Build, error) {
	spec := chain.NewSpec(chain.PresetS1, chain.Forks(0, chain.FarFuture, chain.FarFuture, chain.FarFuture))
	b, c, err := newBuild(spec, chain.GenesisOpts{Validators: 16})
	if err != nil {
		return nil, err
	}
	skip := map[common.Slot]bool{6: true, 12: true}
	if rng != nil && rng.Intn(3) != 0 {
		skip = map[common.Slot]bool{common.Slot(2 + rng.Intn(5)): true, common.Slot(8 + rng.Intn(5)): true}
	}
	if err := b.grow(c, "main", honestSteps(1, length-2, skip, nil)); err != nil {
		return nil, err
	}
	side := c.Copy()
	if err := b.grow(c, "main", honestSteps(length-1, length, skip, nil)); err != nil {
		return nil, err
	}
	g := graffiti(3)
	if err := b.grow(side, "side", []chain.StepPlan{
		{Slot: length - 1, Seed: 900, NoAttest: true, Block: &chain.BlockPlan{Graffiti: g}}}); err != nil {
		return nil, err
	}
	return b, nil
}

// bigSpec: committees of 32 and a sync committee of 128, so that "is_aggregator" is selective
// (TARGET_AGGREGATORS_PER_COMMITTEE = TARGET_AGGREGATORS_PER_SYNC_SUBCOMMITTEE = 16).
func bigSpec() *common.Spec {
	spec := chain.NewSpec(chain.PresetS1, chain.Forks(0, chain.FarFuture, chain.FarFuture, chain.FarFuture))
	spec.CONFIG_NAME = "verif-gossip-big"
	spec.TARGET_COMMITTEE_SIZE = 32
	spec.MAX_COMMITTEES_PER_SLOT = 2
	spec.MAX_VALIDATORS_PER_COMMITTEE = 64
	spec.VALIDATOR_REGISTRY_LIMIT = 256
	spec.SYNC_COMMITTEE_SIZE = 128
	spec.MIN_GENESIS_ACTIVE_VALIDATOR_COUNT = 64
	return spec
}

func buildBig(length common.Slot) (*Build, error) {
	b, c, err := newBuild(bigSpec(), chain.GenesisOpts{Validators: 128})
	if err != nil {
		return nil, err
	}
	if err := b.grow(c, "main", honestSteps(1, length, map[common.Slot]bool{3: true}, nil)); err != nil {
		return nil, err
	}
	return b, nil
}

// late: S1 with altair at 1, bellatrix at 2, capella and deneb at 3. zrnt's Spec.ForkVersion has
// no capella branch (finding of C14); with capella = deneb at the same epoch and the (never
// activated) electra version equal to deneb's, the block signature domain zrnt derives is right
// in every epoch of this chain, so the C14 finding does not leak into C12.
func buildLate(length common.Slot) (*Build, error) {
	spec := chain.NewSpec(chain.PresetS1, chain.Forks(1, 2, 3, 3))
	spec.ELECTRA_FORK_VERSION = spec.DENEB_FORK_VERSION
	b, c, err := newBuild(spec, chain.GenesisOpts{Validators: 16})
	if err != nil {
		return nil, err
	}
	if err := b.grow(c, "main", honestSteps(1, length, map[common.Slot]bool{7: true}, func(st *chain.StepPlan) {
		if st.Slot >= 13 {
			st.Blobs = 1
		}
	})); err != nil {
		return nil, err
	}
	return b, nil
}

func keepAll(item) bool { return true }
func keepUpTo(s common.Slot) func(item) bool {
	return func(it item) bool { return it.env.Slot <= s }
}

// gapfin: S4 (2 slots per epoch), honest chain with attestations in which slot 6 - the start of
// epoch 3 - stays empty, grown until epoch 3 is finalized: the finalized checkpoint is
// (3, block of slot 5) and its start slot 6 holds no block, so a block built on the finalized
// root AT the finalized start slot descends from the finalized checkpoint and fails only
// "slot > finalized slot". A stale branch forks at slot 2.
func buildGapfin() (*Build, common.Slot, error) {
	spec := chain.NewSpec(chain.PresetS4, chain.Phase0Only)
	b, c, err := newBuild(spec, chain.GenesisOpts{Validators: 8})
	if err != nil {
		return nil, 0, err
	}
	skip := map[common.Slot]bool{6: true}
	if err := b.grow(c, "main", honestSteps(1, 2, skip, nil)); err != nil {
		return nil, 0, err
	}
	stale := c.Copy()
	g := graffiti(4)
	if err := b.grow(stale, "stale", []chain.StepPlan{{Slot: 3, Seed: 303, NoAttest: true, Block: &chain.BlockPlan{Graffiti: g}}}); err != nil {
		return nil, 0, err
	}
	if err := b.growUntil(c, "main", honestSteps(3, 30, skip, nil), func() bool {
		_, _, fin := c.Justified()
		return fin.Epoch >= 3
	}); err != nil {
		return nil, 0, err
	}
	if _, _, fin := c.Justified(); fin.Epoch == 3 {
		return b, c.Slot(), nil
	}
	return nil, 0, fmt.Errorf("gapfin: epoch 3 was never the finalized epoch")
}

// forkedge: S4 with the altair upgrade at epoch 2 and NO attestations or slashings on chain, so
// the chain can be built even by a tree whose indexed-attestation validation is wrong across a
// fork boundary; the head (epoch 3) is past the boundary, operations dated epoch 1 are before it.
func buildForkedge() (*Build, error) {
	spec := chain.NewSpec(chain.PresetS4, chain.Forks(2, chain.FarFuture, chain.FarFuture, chain.FarFuture))
	b, c, err := newBuild(spec, chain.GenesisOpts{Validators: 8})
	if err != nil {
		return nil, err
	}
	noAtt := func(st *chain.StepPlan) { st.NoAttest = true; st.HoldAttestations = true }
	if err := b.grow(c, "main", honestSteps(1, 7, nil, noAtt)); err != nil {
		return nil, err
	}
	return b, nil
}

// multiseat: S1 with altair from genesis, 16 validators and a sync committee of 32: every validator is
// sampled into the committee twice (positions p and p+16), i.e. it holds seats in two different
// subcommittees (of 8) and is a member of exactly two of the four sync subnets.
func buildMultiseat() (*Build, error) {
	spec := chain.NewSpec(chain.PresetS1, chain.Forks(0, chain.FarFuture, chain.FarFuture, chain.FarFuture))
	spec.CONFIG_NAME = "verif-gossip-multiseat"
	spec.SYNC_COMMITTEE_SIZE = 32
	b, c, err := newBuild(spec, chain.GenesisOpts{Validators: 16})
	if err != nil {
		return nil, err
	}
	if err := b.grow(c, "main", honestSteps(1, 5, map[common.Slot]bool{3: true}, nil)); err != nil {
		return nil, err
	}
	return b, nil
}
