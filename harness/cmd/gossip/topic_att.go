package main

import (
	"context"
	"fmt"
	"math/rand"
	"strings"
	"time"

	"verif/harness/chain"

	"github.com/protolambda/zrnt/eth2/beacon/common"
	"github.com/protolambda/zrnt/eth2/beacon/phase0"
	"github.com/protolambda/zrnt/eth2/gossipval"
	"github.com/protolambda/ztyp/tree"
)

func htr(v interface{ HashTreeRoot(tree.HashFn) common.Root }) common.Root {
	return v.HashTreeRoot(tree.GetHashFn())
}

// attSite: where an honest attestation comes from.
type attSite struct {
	head  *Block
	slot  common.Slot
	index common.CommitteeIndex
	pos   int
}

// attMsg is a fully explicit unaggregated attestation plus the facts the harness knows about it.
type attMsg struct {
	data      phase0.AttestationData
	bitsLen   int
	positions []int
	signers   []chain.KeyID
	dom       chain.Domain
	subnet    uint64
	now       time.Duration
	bad       []common.Root
	committee []common.ValidatorIndex // real committee of (slot, index); nil when the index is out of range
	cps       uint64
	sigOK     bool
	desc      string
	variant   string
}

func computeSubnet(spec *common.Spec, cps uint64, slot common.Slot, index common.CommitteeIndex) uint64 {
	since := cps * uint64(slot%spec.SLOTS_PER_EPOCH)
	return (since + uint64(index)) % attestationSubnetCount
}

// attChainConds evaluates the chain-view conditions shared by attestations and aggregates from the
// harness's own block tree.
func (s *Scen) attChainConds(cond map[string]bool, d *phase0.AttestationData, now time.Duration, bad []common.Root) {
	v := s.V
	cond["slot_window"] = s.attWindow(d.Slot, now)
	cond["epoch_target"] = d.Target.Epoch == v.Spec.SlotToEpoch(d.Slot)
	_, seen := v.Blocks[d.BeaconBlockRoot]
	cond["block_seen"] = seen
	cond["block_valid"] = true
	for _, r := range bad {
		if r == d.BeaconBlockRoot {
			cond["block_valid"] = false
		}
	}
	// conditions that need the block are not evaluable for an unknown block: only block_seen
	// is reported as failing then (C12: unknown target/parent is a timing matter).
	cond["target_ancestor"] = true
	cond["finalized_ancestor"] = true
	if seen {
		cb, ok := v.CheckpointBlock(d.BeaconBlockRoot, d.Target.Epoch)
		cond["target_ancestor"] = ok && cb == d.Target.Root
		cond["finalized_ancestor"] = v.DescendsFromFinalized(d.BeaconBlockRoot)
	}
}

func (s *Scen) honestAtt(site attSite) *attMsg {
	sc := s.V.StateAt(site.head.Root, site.slot)
	epoch := s.spec().SlotToEpoch(site.slot)
	cps, err := sc.CommitteeCount(epoch)
	if err != nil {
		panic(err)
	}
	comm, err := sc.Committee(site.slot, site.index)
	if err != nil {
		panic(err)
	}
	return &attMsg{
		data:      sc.AttestationData(site.slot, site.index),
		bitsLen:   len(comm),
		positions: []int{site.pos},
		signers:   []chain.KeyID{sc.KeyOf(comm[site.pos])},
		dom:       s.domainAt(common.DOMAIN_BEACON_ATTESTER, epoch),
		subnet:    computeSubnet(s.spec(), cps, site.slot, site.index),
		now:       s.Now,
		committee: comm,
		cps:       cps,
		sigOK:     true,
		desc:      "honest",
	}
}

func (m *attMsg) copy() *attMsg {
	c := *m
	c.positions = append([]int(nil), m.positions...)
	c.signers = append([]chain.KeyID(nil), m.signers...)
	c.bad = append([]common.Root(nil), m.bad...)
	return &c
}

func (s *Scen) attStep(m *attMsg) *Step {
	att := &phase0.Attestation{
		AggregationBits: chain.NewAttestationBits(m.bitsLen, m.positions),
		Data:            m.data,
		Signature:       chain.SignAttestationData(s.V.Keys, &m.data, m.signers, m.dom),
	}
	cond := allTrue("att")
	cond["committee_index"] = uint64(m.data.Index) < m.cps
	cond["subnet"] = computeSubnet(s.spec(), m.cps, m.data.Slot, m.data.Index) == m.subnet
	cond["one_bit"] = len(m.positions) == 1
	cond["bits_len"] = m.committee == nil || m.bitsLen == len(m.committee)
	cond["signature"] = m.sigOK
	s.attChainConds(cond, &m.data, m.now, m.bad)
	key := "none"
	if len(m.positions) > 0 && m.committee != nil && m.positions[0] < len(m.committee) {
		key = keyAtt(m.data.Target.Epoch, m.committee[m.positions[0]])
	}
	subnet := m.subnet
	bnd := ""
	if strings.HasPrefix(m.desc, "honest") {
		sp := s.spec()
		if chain.ForkAtEpoch(sp, m.data.Target.Epoch) < chain.ForkAtEpoch(sp, sp.SlotToEpoch(s.slotAt(m.now))) {
			bnd = bndPreFork
		} else if uint64(m.data.Index)+1 == m.cps {
			bnd = "committee_index=count-1"
		}
		bnd = joinTags(bnd, s.forkEpochTag("slot", s.spec().SlotToEpoch(m.data.Slot)))
	}
	if strings.HasPrefix(m.desc, "clock:old-") && chain.ForkAtEpoch(s.spec(), s.spec().SlotToEpoch(m.data.Slot)) >= chain.Deneb {
		bnd = joinTags(bnd, "window-end-deneb-rule:"+strings.TrimPrefix(m.desc, "clock:old-"))
	}
	return &Step{Topic: "att", Desc: m.desc, Variant: m.variant, Bnd: bnd, Cond: cond, Key: map[string][]string{"att": {key}}, Now: m.now, Bad: m.bad,
		Run: func(b *Backend) gossipval.GossipValidatorResult {
			_, res := gossipval.ValidateAttestation(context.Background(), subnet, att, b)
			return res
		}}
}

// attVariants derives the corruption catalogue from one honest attestation.
func (s *Scen) attVariants(site attSite, h *attMsg) []*attMsg {
	var out []*attMsg
	add := func(desc string, f func(m *attMsg) bool) {
		m := h.copy()
		m.desc = desc
		if f(m) {
			out = append(out, m)
		}
	}
	v := s.V
	sp := s.spec()
	epoch := h.data.Target.Epoch
	sc := v.StateAt(site.head.Root, site.slot)
	n := sc.ValidatorCount()
	voter := h.committee[site.pos]
	other := common.ValidatorIndex((uint64(voter) + 1) % n)

	// signature
	add("sig:wrong-key", func(m *attMsg) bool { m.signers = []chain.KeyID{sc.KeyOf(other)}; m.sigOK = false; return true })
	add("sig:wrong-domain-type", func(m *attMsg) bool { m.dom.Type = common.DOMAIN_BEACON_PROPOSER; m.sigOK = false; return true })
	add("sig:wrong-fork-version", func(m *attMsg) bool { m.dom.Version = s.otherVersion(epoch); m.sigOK = false; return true })
	// subnet
	add("subnet:+1", func(m *attMsg) bool { m.subnet = (m.subnet + 1) % attestationSubnetCount; return true })
	// committee index out of range (data re-signed by the same validator)
	add("committee-index:=count", func(m *attMsg) bool {
		m.data.Index = common.CommitteeIndex(m.cps)
		m.committee = nil
		m.subnet = computeSubnet(sp, m.cps, m.data.Slot, m.data.Index)
		return true
	})
	// participants
	if len(h.committee) >= 2 {
		add("bits:two", func(m *attMsg) bool {
			q := (site.pos + 1) % len(h.committee)
			m.positions = []int{site.pos, q}
			if q < site.pos {
				m.positions = []int{q, site.pos}
			}
			m.signers = nil
			for _, p := range m.positions {
				m.signers = append(m.signers, sc.KeyOf(h.committee[p]))
			}
			return true
		})
	}
	add("bits:none", func(m *attMsg) bool { m.positions = nil; m.signers = []chain.KeyID{}; return true })
	add("bits:len+1", func(m *attMsg) bool { m.bitsLen++; return true })
	if len(h.committee) >= 2 && site.pos < len(h.committee)-1 {
		add("bits:len-1", func(m *attMsg) bool { m.bitsLen--; return true })
	}
	// target epoch != slot epoch (signed under the domain of the claimed target epoch)
	add("target-epoch:+1", func(m *attMsg) bool {
		m.data.Target.Epoch++
		m.dom = s.domainAt(common.DOMAIN_BEACON_ATTESTER, m.data.Target.Epoch)
		return true
	})
	if epoch > 0 {
		add("target-epoch:-1", func(m *attMsg) bool {
			m.data.Target.Epoch--
			m.dom = s.domainAt(common.DOMAIN_BEACON_ATTESTER, m.data.Target.Epoch)
			return true
		})
	}
	// voted block
	add("head:unknown", func(m *attMsg) bool { m.data.BeaconBlockRoot = unknownRoot("head", uint64(site.slot)); return true })
	add("head:bad", func(m *attMsg) bool { m.bad = []common.Root{m.data.BeaconBlockRoot}; return true })
	add("head:bad+unknown", func(m *attMsg) bool {
		m.data.BeaconBlockRoot = unknownRoot("badhead", uint64(site.slot))
		m.bad = []common.Root{m.data.BeaconBlockRoot}
		return true
	})
	// target
	add("target:unknown-root", func(m *attMsg) bool { m.data.Target.Root = unknownRoot("target", uint64(epoch)); return true })
	if s.Side != nil && s.Side.Root != h.data.Target.Root {
		if !s.isAncestor(s.Side.Root, site.head.Root) {
			add("target:other-branch", func(m *attMsg) bool { m.data.Target.Root = s.Side.Root; return true })
		}
	}
	if cb, ok := v.Blocks[h.data.Target.Root]; ok && cb.Env != nil {
		if _, ok := v.Blocks[cb.Parent]; ok {
			add("target:older-ancestor", func(m *attMsg) bool {
				m.data.Target.Root = cb.Parent
				m.variant = "target-older-ancestor"
				return true
			})
		}
	}
	// clock
	st := slotStart(sp, site.slot)
	add("clock:future-501ms", func(m *attMsg) bool { m.now = st - clockDisparity - time.Millisecond; return m.now >= 0 })
	add("clock:future-edge-499ms", func(m *attMsg) bool { m.now = st - clockDisparity + time.Millisecond; return m.now >= 0 })
	if chain.ForkAtEpoch(sp, epoch) < chain.Deneb {
		last := slotStart(sp, site.slot+attestationPropagationSlotRange+1)
		add("clock:old-edge-in", func(m *attMsg) bool { m.now = last + clockDisparity - time.Millisecond; return true })
		add("clock:old-501ms", func(m *attMsg) bool { m.now = last + clockDisparity + time.Millisecond; return true })
	} else {
		// EIP-7045: valid through the end of the next epoch
		last := slotStart(sp, mustV(sp.EpochStartSlot(epoch+2)))
		add("clock:old-edge-in", func(m *attMsg) bool { m.now = last + clockDisparity - time.Millisecond; return true })
		add("clock:old-501ms", func(m *attMsg) bool {
			m.now = last + clockDisparity + time.Millisecond
			m.variant = "deneb-window"
			return true
		})
	}
	return out
}

// isAncestor: a is an ancestor of (or equal to) b in the harness's block tree.
func (s *Scen) isAncestor(a, b common.Root) bool {
	blk, ok := s.V.Blocks[b]
	for ok {
		if blk.Root == a {
			return true
		}
		blk, ok = s.V.Blocks[blk.Parent]
	}
	return false
}

// attSites lists (head, slot, committee, position) combinations on the canonical chain for the
// last `back` slots of the view, every committee, every position.
func (s *Scen) attSites(back common.Slot) []attSite {
	var out []attSite
	v := s.V
	lo := common.Slot(0)
	if v.TipSlot > back {
		lo = v.TipSlot - back
	}
	for slot := lo; slot <= v.TipSlot; slot++ {
		head := v.CanonicalAt(slot)
		if head == nil || !v.DescendsFromFinalized(head.Root) {
			continue
		}
		sc := v.StateAt(head.Root, slot)
		cps, err := sc.CommitteeCount(s.spec().SlotToEpoch(slot))
		if err != nil {
			continue
		}
		for i := uint64(0); i < cps; i++ {
			comm, err := sc.Committee(slot, common.CommitteeIndex(i))
			if err != nil {
				continue
			}
			for p := range comm {
				out = append(out, attSite{head, slot, common.CommitteeIndex(i), p})
			}
		}
	}
	return out
}

func (s *Scen) attHistories(tier string, rng *rand.Rand) []*History {
	var out []*History
	if s.Name == "p0early" || s.Name == "altmid" || s.Name == "latebel" || s.Name == "late1" {
		return nil
	}
	back := common.Slot(2 * uint64(s.spec().SLOTS_PER_EPOCH))
	if s.Name == "nofin" {
		back = 12
	}
	sites := s.attSites(back)
	if len(sites) == 0 {
		panic("no attestation sites in " + s.Name)
	}
	nHonest, nCorrupt := 40, 5
	if tier == "thorough" {
		nHonest, nCorrupt = 400, 30
	}
	if s.Name == "p0lag" {
		nHonest, nCorrupt = 6, 1
	}
	if s.Big {
		nHonest, nCorrupt = nHonest/2, 2
	}
	// honest messages for every slot/committee (sampled positions): [H, H]
	for _, site := range pick(rng, sites, nHonest) {
		h := s.attStep(s.honestAtt(site))
		out = append(out, &History{Name: "honest+dup " + fmtSite(site.head.Root, site.slot, "/", site.index, "/", site.pos),
			Steps: []*Step{h, clone(h)}})
	}
	// attestations dated before the last fork boundary, received after it
	for _, site := range s.preForkSites(sites, 4) {
		h := s.attStep(s.honestAtt(site))
		out = append(out, &History{Name: "pre-fork+dup " + fmtSite(site.head.Root, site.slot, "/", site.index, "/", site.pos),
			Steps: []*Step{h, clone(h)}})
	}
	// single-condition corruptions: [V, H, H]
	for _, site := range pick(rng, sites, nCorrupt) {
		hm := s.honestAtt(site)
		h := s.attStep(hm)
		for _, vm := range s.attVariants(site, hm) {
			out = append(out, seqRefusedThenValid(vm.desc+" "+fmtSite(site.head.Root, site.slot), s.attStep(vm), h))
		}
		// same validator, same target epoch, other vote: valid on its own, IGNOREd after H
		if par, ok := s.V.Blocks[site.head.Parent]; ok && site.head.Env != nil {
			if cb, ok := s.V.CheckpointBlock(par.Root, hm.data.Target.Epoch); ok && cb == hm.data.Target.Root {
				m2 := hm.copy()
				m2.data.BeaconBlockRoot = par.Root
				m2.desc = "honest:older-head-vote"
				h2 := s.attStep(m2)
				out = append(out, &History{Name: "double-vote " + fmtSite(site.head.Root, site.slot), Steps: []*Step{h, h2}})
				out = append(out, &History{Name: "double-vote-rev " + fmtSite(site.head.Root, site.slot), Steps: []*Step{clone(h2), clone(h)}})
			}
		}
	}
	// attestations for a branch that does not descend from the finalized checkpoint
	if s.Stale != nil {
		sc := s.V.StateAt(s.Stale.Root, s.Stale.Slot)
		cps, _ := sc.CommitteeCount(s.spec().SlotToEpoch(s.Stale.Slot))
		for i := uint64(0); i < cps; i++ {
			site := attSite{s.Stale, s.Stale.Slot, common.CommitteeIndex(i), 0}
			m := s.honestAtt(site)
			m.desc = "head:not-in-finalized-subtree"
			out = append(out, single(m.desc+fmt.Sprint(" c", i), s.attStep(m)))
		}
	}
	// non-canonical but viable head (side branch): valid
	if s.Side != nil && s.V.DescendsFromFinalized(s.Side.Root) {
		site := attSite{s.Side, s.Side.Slot, 0, 0}
		m := s.honestAtt(site)
		m.desc = "honest:side-branch"
		h := s.attStep(m)
		out = append(out, &History{Name: "side-branch", Steps: []*Step{h, clone(h)}})
	}
	return out
}

// preForkSites selects up to n sites (distinct committees) whose epoch lies before the fork the
// view's clock is in.
func (s *Scen) preForkSites(sites []attSite, n int) []attSite {
	sp := s.spec()
	now := chain.ForkAtEpoch(sp, sp.SlotToEpoch(s.slotAt(s.Now)))
	var out []attSite
	type ck struct {
		slot  common.Slot
		index common.CommitteeIndex
	}
	seen := map[ck]bool{}
	for _, st := range sites {
		k := ck{st.slot, st.index}
		if chain.ForkAtEpoch(sp, sp.SlotToEpoch(st.slot)) < now && !seen[k] && len(out) < n {
			seen[k] = true
			out = append(out, st)
		}
	}
	return out
}
