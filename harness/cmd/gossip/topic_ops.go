package main

import (
	"context"
	"fmt"
	"math/rand"
	"sort"
	"strings"

	"verif/harness/chain"

	"github.com/protolambda/zrnt/eth2/beacon/common"
	"github.com/protolambda/zrnt/eth2/beacon/phase0"
	"github.com/protolambda/zrnt/eth2/gossipval"
)

// ---------------------------------------------------------------- voluntary exits

type exitMsg struct {
	validator common.ValidatorIndex
	epoch     common.Epoch
	signer    chain.KeyID
	dom       chain.Domain
	sigOK     bool
	desc      string
	variant   string
}

// exitDomain: get_domain(state, DOMAIN_VOLUNTARY_EXIT, exit.epoch); from deneb on (EIP-7044) the
// capella fork version regardless of the epoch.
func (s *Scen) exitDomain(head *chain.StateCtx, epoch common.Epoch) chain.Domain {
	if head.Fork() >= chain.Deneb {
		return chain.Domain{Type: common.DOMAIN_VOLUNTARY_EXIT, Version: s.spec().CAPELLA_FORK_VERSION, GVR: s.V.GVR}
	}
	return head.Domain(common.DOMAIN_VOLUNTARY_EXIT, epoch)
}

func (s *Scen) exitStep(m *exitMsg) *Step {
	head := s.V.HeadState()
	cur := head.Epoch()
	msg := phase0.VoluntaryExit{Epoch: m.epoch, ValidatorIndex: m.validator}
	signed := &phase0.SignedVoluntaryExit{Message: msg, Signature: s.V.Keys.Sign1(m.signer, htr(&msg), m.dom)}
	cond := allTrue("exit")
	cond["signature"] = m.sigOK
	bnd := ""
	if uint64(m.validator) >= head.ValidatorCount() {
		cond["index_known"] = false
	} else {
		fv := head.Validator(m.validator)
		cond["active"] = fv.IsActive(cur)
		cond["not_exiting"] = fv.ExitEpoch == chain.FarFuture
		cond["epoch_reached"] = cur >= m.epoch
		cond["old_enough"] = cur >= fv.ActivationEpoch+s.spec().SHARD_COMMITTEE_PERIOD
		if strings.HasPrefix(m.desc, "status:") {
			switch {
			case cur == fv.ActivationEpoch+s.spec().SHARD_COMMITTEE_PERIOD:
				bnd = "age=SHARD_COMMITTEE_PERIOD"
			case cur+1 == fv.ActivationEpoch+s.spec().SHARD_COMMITTEE_PERIOD:
				bnd = "age=SHARD_COMMITTEE_PERIOD-1"
			case uint64(m.validator)+1 == head.ValidatorCount():
				bnd = "index=count-1"
			}
		}
	}
	// position of the head relative to the deneb upgrade, for honest exits and for exits signed under another
	// fork's version
	sp := s.spec()
	class := ""
	switch {
	case strings.HasPrefix(m.desc, "honest"):
		class = "honest-exit"
	case strings.HasPrefix(m.desc, "sig:") && strings.Contains(m.desc, "version"):
		class = "other-fork-version-exit"
	case m.desc == "sig:deneb-state-fork-domain":
		class = "other-fork-version-exit"
	}
	if class != "" && sp.DENEB_FORK_EPOCH != chain.FarFuture {
		where := ""
		switch {
		case cur+1 == sp.DENEB_FORK_EPOCH:
			where = "last-pre-deneb-epoch"
		case cur == sp.DENEB_FORK_EPOCH:
			where = "first-deneb-epoch"
		case cur == sp.DENEB_FORK_EPOCH+1:
			where = "second-deneb-epoch"
		}
		if where != "" {
			rel := "exit_epoch>=fork_epoch"
			if m.epoch < sp.DENEB_FORK_EPOCH {
				rel = "exit_epoch<fork_epoch"
			}
			tag := class + "@" + where + ":" + rel
			if bnd != "" {
				bnd += "|"
			}
			bnd += tag
		}
	}
	small := func(e common.Epoch) int {
		if e > 1000000 {
			return 1000000
		}
		return int(e)
	}
	f := head.ForkData()
	keyOK := uint64(m.validator) < head.ValidatorCount() && m.signer == head.KeyOf(m.validator) &&
		m.dom.Type == common.DOMAIN_VOLUNTARY_EXIT && m.dom.GVR == s.V.GVR
	xdom := map[string]int{"head_epoch": small(cur), "exit_epoch": small(m.epoch), "deneb_epoch": small(sp.DENEB_FORK_EPOCH),
		"fork_epoch": small(f.Epoch), "prev": int(f.PreviousVersion[0]), "cur": int(f.CurrentVersion[0]),
		"capella": int(sp.CAPELLA_FORK_VERSION[0]), "signed": int(m.dom.Version[0]), "key_ok": b2i(keyOK)}
	if m.dom.Version[1] != 0 || m.dom.Version[2] != 0 || m.dom.Version[3] != sp.GENESIS_FORK_VERSION[3] {
		xdom["signed"] = 255 // not a version of this network
	}
	return &Step{Topic: "exit", Desc: m.desc, Variant: m.variant, Bnd: bnd, Xdom: xdom, Cond: cond, Key: map[string][]string{"exit": {keyIdx(m.validator)}}, Now: s.Now,
		Run: func(b *Backend) gossipval.GossipValidatorResult {
			return gossipval.ValidateVoluntaryExit(context.Background(), signed, b)
		}}
}

func (s *Scen) honestExit(v common.ValidatorIndex) *exitMsg {
	head := s.V.HeadState()
	cur := head.Epoch()
	var k chain.KeyID
	if uint64(v) < head.ValidatorCount() {
		k = head.KeyOf(v)
	}
	m := &exitMsg{validator: v, epoch: cur, signer: k, dom: s.exitDomain(head, cur), sigOK: true, desc: "honest"}
	if head.Fork() >= chain.Deneb {
		m.variant = "deneb-exit-capella-domain"
	}
	return m
}

func (s *Scen) exitHistories(tier string, rng *rand.Rand) []*History {
	var out []*History
	if s.Big || s.Name == "altmid" || s.Name == "nofin" || s.Name == "p0lag" {
		return nil
	}
	head := s.V.HeadState()
	cur := head.Epoch()
	n := head.ValidatorCount()
	var healthy []common.ValidatorIndex
	for i := uint64(0); i < n; i++ {
		fv := head.Validator(common.ValidatorIndex(i))
		// every validator, whatever its status: the conditions are evaluated from the head state
		m := s.honestExit(common.ValidatorIndex(i))
		m.desc = fmt.Sprintf("status:active=%v,exiting=%v,slashed=%v", fv.IsActive(cur), fv.ExitEpoch != chain.FarFuture, fv.Slashed)
		st := s.exitStep(m)
		out = append(out, &History{Name: fmt.Sprintf("validator %d", i), Steps: []*Step{st, clone(st)}})
		if fv.IsActive(cur) && fv.ExitEpoch == chain.FarFuture && cur >= fv.ActivationEpoch+s.spec().SHARD_COMMITTEE_PERIOD {
			healthy = append(healthy, common.ValidatorIndex(i))
		}
	}
	targets := healthy
	if len(targets) == 0 {
		// early view: nobody is old enough; the variants then carry a second failing condition
		targets = []common.ValidatorIndex{1}
	}
	k := 2
	if tier == "thorough" {
		k = 8
	}
	for _, v := range pick(rng, targets, k) {
		hm := s.honestExit(v)
		h := s.exitStep(hm)
		other := head.KeyOf(common.ValidatorIndex((uint64(v) + 1) % n))
		vars := []*exitMsg{}
		add := func(desc string, f func(m *exitMsg)) {
			m := *hm
			m.desc = desc
			f(&m)
			vars = append(vars, &m)
		}
		add("sig:wrong-key", func(m *exitMsg) { m.signer = other; m.sigOK = false })
		add("sig:wrong-domain-type", func(m *exitMsg) { m.dom.Type = common.DOMAIN_BEACON_PROPOSER; m.sigOK = false })
		add("sig:wrong-fork-version", func(m *exitMsg) {
			if m.dom.Version == s.spec().BELLATRIX_FORK_VERSION {
				m.dom.Version = s.spec().GENESIS_FORK_VERSION
			} else {
				m.dom.Version = s.spec().BELLATRIX_FORK_VERSION
			}
			m.sigOK = false
		})
		add("epoch:future", func(m *exitMsg) { m.epoch = cur + 1; m.dom = s.exitDomain(head, m.epoch) })
		// signed under the version of every other fork of the schedule (incl. capella before deneb, deneb in deneb)
		for _, fk := range []chain.Fork{chain.Phase0, chain.Altair, chain.Bellatrix, chain.Capella, chain.Deneb} {
			ver := chain.ForkVersionOf(s.spec(), fk)
			if chain.ForkEpochOf(s.spec(), fk) == chain.FarFuture && fk != chain.Phase0 {
				continue
			}
			if ver != hm.dom.Version {
				v := ver
				add("sig:"+fk.String()+"-version", func(m *exitMsg) { m.dom.Version = v; m.sigOK = false })
			}
		}
		if head.Fork() >= chain.Deneb {
			// EIP-7044: get_domain(state, ...) (the deneb version) is no longer the right domain
			add("sig:deneb-state-fork-domain", func(m *exitMsg) {
				m.dom = head.Domain(common.DOMAIN_VOLUNTARY_EXIT, m.epoch)
				m.sigOK = false
				m.variant = "deneb-exit-state-domain"
			})
		}
		if cur > 0 {
			// an exit dated in the past is valid
			m := *hm
			m.desc = "honest:past-epoch"
			m.epoch = cur - 1
			m.dom = s.exitDomain(head, m.epoch)
			st := s.exitStep(&m)
			out = append(out, &History{Name: fmt.Sprintf("past-epoch %d", v), Steps: []*Step{st, clone(h)}})
		}
		for _, vm := range vars {
			out = append(out, seqRefusedThenValid(fmt.Sprintf("%s %d", vm.desc, v), s.exitStep(vm), h))
		}
		// an exit dated before the last fork boundary, validated with the head after it
		if pe, ok := s.preForkEpoch(); ok {
			m := *hm
			m.desc = "honest:pre-fork-epoch"
			m.epoch = pe
			m.dom = s.exitDomain(head, pe)
			st := s.exitStep(&m)
			out = append(out, &History{Name: fmt.Sprintf("pre-fork-epoch %d", v), Steps: []*Step{st, clone(h)}})
			w := m
			w.desc = "sig:pre-fork-exit-under-new-version"
			w.dom = s.exitDomain(head, cur)
			w.sigOK = w.dom == m.dom
			if !w.sigOK {
				out = append(out, seqRefusedThenValid(fmt.Sprintf("%s %d", w.desc, v), s.exitStep(&w), st))
			}
		}
	}
	oor := s.honestExit(common.ValidatorIndex(n))
	oor.desc = "index:out-of-range"
	oor.signer = head.KeyOf(0) // no validator, no key: the signature condition is not evaluable
	out = append(out, single(oor.desc, s.exitStep(oor)))
	return out
}

// ---------------------------------------------------------------- proposer slashings

type pslashMsg struct {
	h1, h2        common.BeaconBlockHeader
	k1, k2        chain.KeyID
	d1, d2        chain.Domain
	sig1OK        bool
	sig2OK        bool
	desc          string
	proposerRange bool
}

func (s *Scen) pslashStep(m *pslashMsg) *Step {
	head := s.V.HeadState()
	cur := head.Epoch()
	ps := &phase0.ProposerSlashing{
		SignedHeader1: common.SignedBeaconBlockHeader{Message: m.h1, Signature: s.V.Keys.Sign1(m.k1, htr(&m.h1), m.d1)},
		SignedHeader2: common.SignedBeaconBlockHeader{Message: m.h2, Signature: s.V.Keys.Sign1(m.k2, htr(&m.h2), m.d2)},
	}
	cond := allTrue("pslash")
	cond["same_slot"] = m.h1.Slot == m.h2.Slot
	cond["same_proposer"] = m.h1.ProposerIndex == m.h2.ProposerIndex
	cond["headers_differ"] = m.h1 != m.h2
	p := m.h1.ProposerIndex
	if uint64(p) >= head.ValidatorCount() {
		cond["slashable"] = false
	} else {
		fv := head.Validator(p)
		cond["slashable"] = chain.IsSlashable(&fv, cur)
	}
	cond["signature_1"] = m.sig1OK
	cond["signature_2"] = m.sig2OK
	return &Step{Topic: "pslash", Desc: m.desc, Cond: cond, Key: map[string][]string{"pslash": {keyIdx(p)}}, Now: s.Now,
		Run: func(b *Backend) gossipval.GossipValidatorResult {
			return gossipval.ValidateProposerSlashing(context.Background(), ps, b)
		}}
}

func (s *Scen) honestPslash(p common.ValidatorIndex, slot common.Slot) *pslashMsg {
	head := s.V.HeadState()
	h1 := common.BeaconBlockHeader{Slot: slot, ProposerIndex: p, ParentRoot: unknownRoot("ps-parent", uint64(slot)),
		StateRoot: unknownRoot("ps-state", 1), BodyRoot: unknownRoot("ps-body", 1)}
	h2 := h1
	h2.BodyRoot = unknownRoot("ps-body", 2)
	var k chain.KeyID
	if uint64(p) < head.ValidatorCount() {
		k = head.KeyOf(p)
	}
	d := head.Domain(common.DOMAIN_BEACON_PROPOSER, s.spec().SlotToEpoch(slot))
	return &pslashMsg{h1: h1, h2: h2, k1: k, k2: k, d1: d, d2: d, sig1OK: true, sig2OK: true, desc: "honest"}
}

func (s *Scen) pslashHistories(tier string, rng *rand.Rand) []*History {
	var out []*History
	if s.Big || s.Name == "altmid" || s.Name == "nofin" || s.Name == "p0lag" {
		return nil
	}
	head := s.V.HeadState()
	cur := head.Epoch()
	n := head.ValidatorCount()
	slot := head.Slot()
	var ok []common.ValidatorIndex
	for i := uint64(0); i < n; i++ {
		fv := head.Validator(common.ValidatorIndex(i))
		m := s.honestPslash(common.ValidatorIndex(i), slot)
		m.desc = fmt.Sprintf("status:slashable=%v", chain.IsSlashable(&fv, cur))
		st := s.pslashStep(m)
		if i+1 == n {
			st.Bnd = "index=count-1"
		}
		out = append(out, &History{Name: fmt.Sprintf("validator %d", i), Steps: []*Step{st, clone(st)}})
		if chain.IsSlashable(&fv, cur) {
			ok = append(ok, common.ValidatorIndex(i))
		}
	}
	k := 2
	if tier == "thorough" {
		k = 8
	}
	for _, p := range pick(rng, ok, k) {
		hm := s.honestPslash(p, slot)
		h := s.pslashStep(hm)
		otherIdx := common.ValidatorIndex((uint64(p) + 1) % n)
		other := head.KeyOf(otherIdx)
		var vars []*pslashMsg
		add := func(desc string, f func(m *pslashMsg)) {
			m := *hm
			m.desc = desc
			f(&m)
			vars = append(vars, &m)
		}
		add("headers:different-slots", func(m *pslashMsg) {
			m.h2.Slot++
			m.d2 = head.Domain(common.DOMAIN_BEACON_PROPOSER, s.spec().SlotToEpoch(m.h2.Slot))
		})
		add("headers:different-proposers", func(m *pslashMsg) { m.h2.ProposerIndex = otherIdx; m.k2 = other })
		add("headers:identical", func(m *pslashMsg) { m.h2 = m.h1 })
		add("sig1:wrong-key", func(m *pslashMsg) { m.k1 = other; m.sig1OK = false })
		add("sig2:wrong-key", func(m *pslashMsg) { m.k2 = other; m.sig2OK = false })
		add("sig1:wrong-domain-type", func(m *pslashMsg) { m.d1.Type = common.DOMAIN_BEACON_ATTESTER; m.sig1OK = false })
		add("sig2:wrong-fork-version", func(m *pslashMsg) { m.d2.Version = s.otherVersion(cur); m.sig2OK = false })
		for _, vm := range vars {
			out = append(out, seqRefusedThenValid(fmt.Sprintf("%s %d", vm.desc, p), s.pslashStep(vm), h))
		}
		// headers dated before the last fork boundary, validated with the head after it
		if pe, ok := s.preForkEpoch(); ok {
			ps := mustV(s.spec().EpochStartSlot(pe+1)) - 1
			m := s.honestPslash(p, ps)
			m.desc = "honest:pre-fork-slot"
			st := s.pslashStep(m)
			out = append(out, &History{Name: fmt.Sprintf("pre-fork-slot %d", p), Steps: []*Step{st, clone(h)}})
			w := *m
			w.desc = "sig:pre-fork-headers-under-new-version"
			w.d1 = head.Domain(common.DOMAIN_BEACON_PROPOSER, cur)
			w.d2 = w.d1
			w.sig1OK, w.sig2OK = false, false
			out = append(out, seqRefusedThenValid(fmt.Sprintf("%s %d", w.desc, p), s.pslashStep(&w), st))
		}
		// headers of an older slot are as slashable
		if slot > 2 {
			m := s.honestPslash(p, slot-2)
			m.desc = "honest:older-slot"
			out = append(out, &History{Name: fmt.Sprintf("older-slot %d", p), Steps: []*Step{s.pslashStep(m), clone(h)}})
		}
	}
	oor := s.honestPslash(common.ValidatorIndex(n), slot)
	oor.desc = "proposer:index-out-of-range"
	oor.sig1OK, oor.sig2OK = false, false
	out = append(out, single(oor.desc, s.pslashStep(oor)))
	return out
}

// ---------------------------------------------------------------- attester slashings

type aslashMsg struct {
	ind1, ind2 []common.ValidatorIndex
	d1, d2     phase0.AttestationData
	s1, s2     []chain.KeyID // nil = the keys of ind1 / ind2
	dom1, dom2 *chain.Domain
	sig1OK     bool
	sig2OK     bool
	desc       string
}

func sortedUniqueNonEmpty(in []common.ValidatorIndex) bool {
	if len(in) == 0 {
		return false
	}
	for i := 1; i < len(in); i++ {
		if in[i-1] >= in[i] {
			return false
		}
	}
	return true
}

// isSlashableData is is_slashable_attestation_data.
func isSlashableData(a, b *phase0.AttestationData) bool {
	double := *a != *b && a.Target.Epoch == b.Target.Epoch
	surround := a.Source.Epoch < b.Source.Epoch && b.Target.Epoch < a.Target.Epoch
	return double || surround
}

func (s *Scen) aslashStep(m *aslashMsg) *Step {
	head := s.V.HeadState()
	cur := head.Epoch()
	n := head.ValidatorCount()
	keysOf := func(ind []common.ValidatorIndex) []chain.KeyID {
		var ks []chain.KeyID
		for _, i := range ind {
			if uint64(i) < n {
				ks = append(ks, head.KeyOf(i))
			}
		}
		return ks
	}
	s1, s2 := m.s1, m.s2
	if s1 == nil {
		s1 = keysOf(m.ind1)
	}
	if s2 == nil {
		s2 = keysOf(m.ind2)
	}
	dom1 := head.Domain(common.DOMAIN_BEACON_ATTESTER, m.d1.Target.Epoch)
	dom2 := head.Domain(common.DOMAIN_BEACON_ATTESTER, m.d2.Target.Epoch)
	if m.dom1 != nil {
		dom1 = *m.dom1
	}
	if m.dom2 != nil {
		dom2 = *m.dom2
	}
	as := &phase0.AttesterSlashing{
		Attestation1: phase0.IndexedAttestation{AttestingIndices: m.ind1, Data: m.d1, Signature: chain.SignAttestationData(s.V.Keys, &m.d1, s1, dom1)},
		Attestation2: phase0.IndexedAttestation{AttestingIndices: m.ind2, Data: m.d2, Signature: chain.SignAttestationData(s.V.Keys, &m.d2, s2, dom2)},
	}
	cond := allTrue("aslash")
	cond["slashable_data"] = isSlashableData(&m.d1, &m.d2)
	cond["indices_1"] = sortedUniqueNonEmpty(m.ind1)
	cond["indices_2"] = sortedUniqueNonEmpty(m.ind2)
	cond["signature_1"] = m.sig1OK
	cond["signature_2"] = m.sig2OK
	in2 := map[common.ValidatorIndex]bool{}
	for _, i := range m.ind2 {
		in2[i] = true
	}
	var inter []common.ValidatorIndex
	seenI := map[common.ValidatorIndex]bool{}
	for _, i := range m.ind1 {
		if in2[i] && !seenI[i] {
			seenI[i] = true
			inter = append(inter, i)
		}
	}
	sort.Slice(inter, func(a, b int) bool { return inter[a] < inter[b] })
	some := false
	var keys []string
	for _, i := range inter {
		keys = append(keys, keyIdx(i))
		if uint64(i) < n {
			fv := head.Validator(i)
			if chain.IsSlashable(&fv, cur) {
				some = true
			}
		}
	}
	cond["some_slashed"] = some
	if keys == nil {
		keys = []string{}
	}
	return &Step{Topic: "aslash", Desc: m.desc, Cond: cond, Key: map[string][]string{"aslash": keys}, Now: s.Now,
		Run: func(b *Backend) gossipval.GossipValidatorResult {
			return gossipval.ValidateAttesterSlashing(context.Background(), as, b)
		}}
}

func (s *Scen) honestAslash(ind []common.ValidatorIndex, surround bool) *aslashMsg {
	return s.honestAslashAt(ind, surround, s.V.HeadState().Epoch())
}

func (s *Scen) honestAslashAt(ind []common.ValidatorIndex, surround bool, te common.Epoch) *aslashMsg {
	sp := s.spec()
	var d1, d2 phase0.AttestationData
	if surround {
		if te < 3 {
			te = 3
		}
		d1 = phase0.AttestationData{Slot: mustV(sp.EpochStartSlot(te)), BeaconBlockRoot: unknownRoot("as-head", 1),
			Source: common.Checkpoint{Epoch: te - 3, Root: unknownRoot("as-src", 1)}, Target: common.Checkpoint{Epoch: te, Root: unknownRoot("as-tgt", 1)}}
		d2 = phase0.AttestationData{Slot: mustV(sp.EpochStartSlot(te - 1)), BeaconBlockRoot: unknownRoot("as-head", 2),
			Source: common.Checkpoint{Epoch: te - 2, Root: unknownRoot("as-src", 2)}, Target: common.Checkpoint{Epoch: te - 1, Root: unknownRoot("as-tgt", 2)}}
	} else {
		src := common.Epoch(0)
		if te > 0 {
			src = te - 1
		}
		d1 = phase0.AttestationData{Slot: mustV(sp.EpochStartSlot(te)), BeaconBlockRoot: unknownRoot("as-head", 1),
			Source: common.Checkpoint{Epoch: src, Root: unknownRoot("as-src", 0)}, Target: common.Checkpoint{Epoch: te, Root: unknownRoot("as-tgt", 1)}}
		d2 = d1
		d2.BeaconBlockRoot = unknownRoot("as-head", 2)
		d2.Target.Root = unknownRoot("as-tgt", 2)
	}
	ind = append([]common.ValidatorIndex(nil), ind...)
	sort.Slice(ind, func(a, b int) bool { return ind[a] < ind[b] })
	return &aslashMsg{ind1: ind, ind2: append([]common.ValidatorIndex(nil), ind...), d1: d1, d2: d2, sig1OK: true, sig2OK: true, desc: "honest"}
}

func (s *Scen) aslashHistories(tier string, rng *rand.Rand) []*History {
	var out []*History
	if s.Big || s.Name == "altmid" || s.Name == "nofin" || s.Name == "p0lag" || s.Name == "p0early" {
		return nil
	}
	head := s.V.HeadState()
	cur := head.Epoch()
	n := head.ValidatorCount()
	var ok, notOK []common.ValidatorIndex
	for i := uint64(0); i < n; i++ {
		fv := head.Validator(common.ValidatorIndex(i))
		if chain.IsSlashable(&fv, cur) {
			ok = append(ok, common.ValidatorIndex(i))
		} else {
			notOK = append(notOK, common.ValidatorIndex(i))
		}
	}
	rounds := 2
	if tier == "thorough" {
		rounds = 8
	}
	for r := 0; r < rounds; r++ {
		pair := pick(rng, ok, 2)
		if len(pair) < 2 {
			break
		}
		a, b := pair[0], pair[1]
		hm := s.honestAslash([]common.ValidatorIndex{a, b}, r%2 == 1)
		h := s.aslashStep(hm)
		tag := fmt.Sprintf("{%d,%d}", a, b)
		var vars []*aslashMsg
		add := func(desc string, f func(m *aslashMsg)) {
			m := *hm
			m.ind1 = append([]common.ValidatorIndex(nil), hm.ind1...)
			m.ind2 = append([]common.ValidatorIndex(nil), hm.ind2...)
			m.desc = desc
			f(&m)
			vars = append(vars, &m)
		}
		other := head.KeyOf(common.ValidatorIndex((uint64(a) + 1) % n))
		add("data:identical", func(m *aslashMsg) { m.d2 = m.d1 })
		add("data:different-targets-no-surround", func(m *aslashMsg) {
			m.d2 = m.d1
			m.d2.Target.Epoch = m.d1.Target.Epoch + 1
			m.d2.Source.Epoch = m.d1.Source.Epoch
		})
		add("indices1:unsorted", func(m *aslashMsg) { m.ind1[0], m.ind1[1] = m.ind1[1], m.ind1[0] })
		add("indices2:duplicate", func(m *aslashMsg) { m.ind2 = []common.ValidatorIndex{m.ind2[0], m.ind2[0], m.ind2[1]} })
		add("indices1:empty", func(m *aslashMsg) { m.ind1 = []common.ValidatorIndex{}; m.s1 = []chain.KeyID{} })
		add("sig1:wrong-key", func(m *aslashMsg) { m.s1 = []chain.KeyID{other, head.KeyOf(b)}; m.sig1OK = false })
		add("sig2:missing-signer", func(m *aslashMsg) { m.s2 = []chain.KeyID{head.KeyOf(a)}; m.sig2OK = false })
		add("sig1:wrong-domain-type", func(m *aslashMsg) {
			d := head.Domain(common.DOMAIN_BEACON_PROPOSER, m.d1.Target.Epoch)
			m.dom1 = &d
			m.sig1OK = false
		})
		add("sig2:wrong-fork-version", func(m *aslashMsg) {
			d := head.Domain(common.DOMAIN_BEACON_ATTESTER, m.d2.Target.Epoch)
			d.Version = s.otherVersion(cur)
			m.dom2 = &d
			m.sig2OK = false
		})
		add("indices2:out-of-range-member", func(m *aslashMsg) {
			m.ind2 = append(m.ind2, common.ValidatorIndex(n))
			m.sig2OK = false
		})
		add("intersection:empty", func(m *aslashMsg) { m.ind2 = []common.ValidatorIndex{otherThan(ok, a, b)} })
		for _, vm := range vars {
			out = append(out, seqRefusedThenValid(vm.desc+" "+tag, s.aslashStep(vm), h))
		}
		// partial intersections and overlapping slashings
		c := otherThan(ok, a, b)
		onlyA := s.honestAslash([]common.ValidatorIndex{a}, false)
		onlyA.desc = "honest:subset"
		abc := s.honestAslash([]common.ValidatorIndex{a, b, c}, false)
		abc.desc = "honest:superset"
		m12 := s.honestAslash([]common.ValidatorIndex{a, b}, false)
		m12.ind2 = []common.ValidatorIndex{a, b, c}
		sort.Slice(m12.ind2, func(i, j int) bool { return m12.ind2[i] < m12.ind2[j] })
		m12.desc = "honest:att2-has-extra-signer"
		out = append(out,
			&History{Name: "subset-after " + tag, Steps: []*Step{clone(h), s.aslashStep(onlyA), s.aslashStep(abc), clone(h)}},
			&History{Name: "subset-before " + tag, Steps: []*Step{s.aslashStep(onlyA), clone(h), clone(h)}},
			&History{Name: "extra-signer " + tag, Steps: []*Step{s.aslashStep(m12), clone(h)}})
		// attestations dated before the last fork boundary, validated with the head after it
		if pe, ok := s.preForkEpoch(); ok {
			m := s.honestAslashAt([]common.ValidatorIndex{a, b}, false, pe)
			m.desc = "honest:pre-fork-target"
			st := s.aslashStep(m)
			out = append(out, &History{Name: "pre-fork-target " + tag, Steps: []*Step{st, clone(st)}})
			w := *m
			w.desc = "sig:pre-fork-attestations-under-new-version"
			d := head.Domain(common.DOMAIN_BEACON_ATTESTER, cur)
			w.dom1, w.dom2 = &d, &d
			w.sig1OK, w.sig2OK = false, false
			out = append(out, seqRefusedThenValid(w.desc+" "+tag, s.aslashStep(&w), st))
		}
		if len(notOK) > 0 {
			// one slashable and one not (any more) slashable validator in the intersection
			x := notOK[r%len(notOK)]
			mixed := s.honestAslash([]common.ValidatorIndex{a, x}, false)
			mixed.desc = "honest:one-member-not-slashable"
			st := s.aslashStep(mixed)
			out = append(out, &History{Name: fmt.Sprintf("mixed {%d,%d}", a, x), Steps: []*Step{st, clone(st), clone(h)}})
			none := s.honestAslash([]common.ValidatorIndex{x}, false)
			none.desc = "members:none-slashable"
			out = append(out, single(fmt.Sprintf("none-slashable {%d}", x), s.aslashStep(none)))
		}
	}
	return out
}

func otherThan(xs []common.ValidatorIndex, not ...common.ValidatorIndex) common.ValidatorIndex {
	for _, x := range xs {
		bad := false
		for _, n := range not {
			if n == x {
				bad = true
			}
		}
		if !bad {
			return x
		}
	}
	panic("no other validator")
}
