package main

import (
	"context"
	"errors"
	"fmt"
	"math/rand"
	"time"

	"verif/harness/chain"

	"github.com/protolambda/zrnt/eth2/beacon/common"
	"github.com/protolambda/zrnt/eth2/gossipval"
)

// blkMsg is a signed block plus what the harness knows about it by construction.
type blkMsg struct {
	env     *common.BeaconBlockEnvelope
	now     time.Duration
	sigOK   bool
	tsOK    bool // bellatrix+: payload timestamp is compute_timestamp_at_slot
	blobsOK bool // deneb+: commitments <= MAX_BLOBS_PER_BLOCK
	// expectedProposer: nil = evaluate from the parent's state; otherwise the claim by construction
	proposerOK *bool
	desc       string
	variant    string
	bnd        string
}

func (s *Scen) blockStep(m *blkMsg) *Step {
	v := s.V
	env := m.env
	cond := allTrue("block")
	cond["not_future"] = s.notFuture(env.Slot, m.now)
	cond["after_finalized"] = env.Slot > v.FinalizedSlot()
	cond["signature"] = m.sigOK
	cond["payload_timestamp"] = m.tsOK
	cond["blob_count"] = m.blobsOK
	par, seen := v.Blocks[env.ParentRoot]
	cond["parent_seen"] = seen
	if seen {
		cond["slot_gt_parent"] = env.Slot > par.Slot
		cond["finalized_ancestor"] = v.DescendsFromFinalized(par.Root)
		if m.proposerOK != nil {
			cond["expected_proposer"] = *m.proposerOK
		} else if env.Slot > par.Slot {
			exp, err := v.StateAt(par.Root, env.Slot).Proposer(env.Slot)
			cond["expected_proposer"] = err == nil && exp == env.ProposerIndex
		}
	}
	key := keyBlock(env.Slot, env.ProposerIndex)
	bnd := m.bnd
	if bnd == "" && m.desc == "honest" && seen && env.Slot == par.Slot+1 {
		bnd = "slot=parent_slot+1"
	}
	switch {
	case m.desc == "honest":
		bnd = joinTags(bnd, s.forkSlotTag("block", env.Slot))
	case m.desc == "payload:timestamp+1":
		bnd = joinTags(bnd, s.forkSlotTag("payload-timestamp", env.Slot))
	case m.desc == "blobs:max+1":
		bnd = joinTags(bnd, s.forkSlotTag("blob-count", env.Slot))
	}
	return &Step{Topic: "block", Desc: m.desc, Variant: m.variant, Bnd: bnd, Cond: cond, Key: map[string][]string{"block": {key}}, Now: m.now,
		Run: func(b *Backend) gossipval.GossipValidatorResult {
			return gossipval.ValidateBeaconBlock(context.Background(), env, b)
		}}
}

// produce builds an honest block at `slot` on parent block `par`.
func (s *Scen) produce(par *Block, slot common.Slot, plan chain.BlockPlan) (*common.BeaconBlockEnvelope, *chain.StateCtx, error) {
	c := chainAt(s.B, par)
	pre, err := c.PreState(slot)
	if err != nil {
		return nil, nil, err
	}
	plan.Slot = slot
	env, err := chain.ProduceOn(pre, c.Deposits, plan)
	if err != nil {
		return nil, nil, err
	}
	return env, pre, nil
}

func (s *Scen) blockVariants(par *Block, h *blkMsg, pre *chain.StateCtx) []*blkMsg {
	var out []*blkMsg
	sp := s.spec()
	add := func(desc string, f func(m *blkMsg) bool) {
		env, err := chain.CloneEnvelope(sp, h.env)
		if err != nil {
			panic(err)
		}
		m := *h
		m.env = env
		m.desc = desc
		if f(&m) {
			out = append(out, &m)
		}
	}
	n := pre.ValidatorCount()
	other := common.ValidatorIndex((uint64(h.env.ProposerIndex) + 1) % n)
	for fv := pre.Validator(other); !fv.IsActive(pre.Epoch()) || fv.Slashed; fv = pre.Validator(other) {
		other = common.ValidatorIndex((uint64(other) + 1) % n)
	}
	okey := pre.KeyOf(other)
	add("sig:wrong-key", func(m *blkMsg) bool {
		chain.Seal(pre, m.env, chain.SealOpts{Signer: &okey})
		m.sigOK = false
		return true
	})
	add("sig:wrong-domain-type", func(m *blkMsg) bool {
		t := common.DOMAIN_BEACON_ATTESTER
		chain.Seal(pre, m.env, chain.SealOpts{DomainType: &t})
		m.sigOK = false
		return true
	})
	add("sig:wrong-fork-version", func(m *blkMsg) bool {
		ver := s.otherVersion(sp.SlotToEpoch(m.env.Slot))
		chain.Seal(pre, m.env, chain.SealOpts{ForkVersion: &ver})
		m.sigOK = false
		return true
	})
	add("parent:unknown", func(m *blkMsg) bool {
		m.env.ParentRoot = unknownRoot("parent", uint64(m.env.Slot))
		chain.Seal(pre, m.env, chain.SealOpts{})
		return true
	})
	if par.Env != nil {
		add("slot:=parent-slot", func(m *blkMsg) bool {
			m.env.Slot = par.Slot
			m.env.ProposerIndex = par.Env.ProposerIndex
			chain.Seal(pre, m.env, chain.SealOpts{})
			t := true
			m.proposerOK = &t // the expected proposer of the parent's slot is the parent's proposer
			m.now = s.Now
			return chain.ForkAtEpoch(sp, sp.SlotToEpoch(par.Slot)) == chain.ForkAtEpoch(sp, sp.SlotToEpoch(h.env.Slot))
		})
	}
	add("proposer:other-validator", func(m *blkMsg) bool {
		m.env.ProposerIndex = other
		chain.Seal(pre, m.env, chain.SealOpts{})
		return true
	})
	add("proposer:index-out-of-range", func(m *blkMsg) bool {
		m.env.ProposerIndex = common.ValidatorIndex(n)
		chain.Seal(pre, m.env, chain.SealOpts{})
		m.sigOK = false
		return true
	})
	st := slotStart(sp, h.env.Slot)
	add("clock:future-501ms", func(m *blkMsg) bool { m.now = st - clockDisparity - time.Millisecond; return m.now >= 0 })
	add("clock:future-edge-499ms", func(m *blkMsg) bool { m.now = st - clockDisparity + time.Millisecond; return m.now >= 0 })
	return out
}

func (s *Scen) blockHistories(tier string, rng *rand.Rand) []*History {
	var out []*History
	v := s.V
	sp := s.spec()
	if s.Big || s.Name == "altmid" {
		return nil
	}
	type psite struct {
		par  *Block
		slot common.Slot
	}
	tip := v.Tip
	base := v.TipSlot
	sites := []psite{{tip, base + 1}, {tip, base + 2}, {tip, base + 3}}
	if s.Side != nil && v.DescendsFromFinalized(s.Side.Root) {
		sites = append(sites, psite{s.Side, base + 1})
	}
	if p, ok := v.Blocks[tip.Parent]; ok && v.DescendsFromFinalized(p.Root) {
		sites = append(sites, psite{p, base + 1}) // a new fork
	}
	if tier == "thorough" {
		for k := common.Slot(4); k <= 8; k++ {
			sites = append(sites, psite{tip, base + k})
		}
	}
	mkHonest := func(ps psite, plan chain.BlockPlan, desc string) (*blkMsg, *chain.StateCtx, bool) {
		env, pre, err := s.produce(ps.par, ps.slot, plan)
		if err != nil {
			if errors.Is(err, chain.ErrProposerSlashed) {
				return nil, nil, false
			}
			panic(fmt.Errorf("%s: produce on %x at %d: %w", s.Name, ps.par.Root[:3], ps.slot, err))
		}
		return &blkMsg{env: env, now: slotStart(sp, ps.slot) + time.Second, sigOK: true, tsOK: true, blobsOK: true, desc: desc}, pre, true
	}
	for _, ps := range sites {
		hm, pre, ok := mkHonest(ps, chain.BlockPlan{}, "honest")
		if !ok {
			continue
		}
		h := s.blockStep(hm)
		name := fmtSite(ps.par.Root, ps.slot)
		// equivocation: second block of the same proposer for the same slot
		h2m, _, _ := mkHonest(ps, chain.BlockPlan{Graffiti: graffiti(9)}, "honest:second-block-same-slot")
		out = append(out, &History{Name: "honest+equivocation " + name, Steps: []*Step{h, s.blockStep(h2m), clone(h)}})
		for _, vm := range s.blockVariants(ps.par, hm, pre) {
			out = append(out, seqRefusedThenValid(vm.desc+" "+name, s.blockStep(vm), h))
		}
		// later-fork conditions of the block topic
		f := chain.ForkAtEpoch(sp, sp.SlotToEpoch(ps.slot))
		if f >= chain.Bellatrix {
			if _, _, _, ok := pre.LatestExecutionHeader(); ok {
				// the produced payload is never the default one, so execution is enabled (also for the merge
				// transition block) and the timestamp condition applies
				bad, _, ok := mkHonest(ps, chain.BlockPlan{Payload: chain.PayloadPlan{Mutate: func(p *chain.Payload) { p.Timestamp++; p.Seal(0) }}}, "payload:timestamp+1")
				if ok {
					bad.tsOK = false
					out = append(out, seqRefusedThenValid(bad.desc+" "+name, s.blockStep(bad), h))
				}
			}
		}
		if f >= chain.Deneb {
			bad, _, ok := mkHonest(ps, chain.BlockPlan{Blobs: int(sp.MAX_BLOBS_PER_BLOCK) + 1}, "blobs:max+1")
			if ok {
				bad.blobsOK = false
				out = append(out, seqRefusedThenValid(bad.desc+" "+name, s.blockStep(bad), h))
			}
			okb, _, ok := mkHonest(ps, chain.BlockPlan{Blobs: int(sp.MAX_BLOBS_PER_BLOCK)}, "honest:max-blobs")
			if ok {
				out = append(out, single(okb.desc+" "+name, s.blockStep(okb)))
			}
		}
	}
	// parent outside the finalized subtree
	if s.Stale != nil {
		for _, slot := range []common.Slot{base + 1, v.FinalizedSlot(), v.FinalizedSlot() - 0} {
			if slot <= s.Stale.Slot {
				continue
			}
			m, _, ok := mkHonest(psite{s.Stale, slot}, chain.BlockPlan{}, "parent:not-in-finalized-subtree")
			if !ok {
				continue
			}
			if slot <= v.FinalizedSlot() {
				m.desc = "slot:<=finalized-slot"
				m.now = s.Now
				if slot == v.FinalizedSlot() {
					m.bnd = "slot=finalized_slot:side-branch"
				}
			}
			out = append(out, single(m.desc+" "+fmtSite(s.Stale.Root, slot), s.blockStep(m)))
		}
	}
	// the finalized epoch starts with an empty slot: blocks built ON the finalized root descend from
	// the finalized checkpoint whatever their slot; at the finalized start slot only
	// "slot > finalized slot" fails, one slot later nothing does
	if fb := v.Blocks[v.Fin.Root]; fb != nil && fb.Slot < v.FinalizedSlot() {
		fs := v.FinalizedSlot()
		if hm, pre, ok := mkHonest(psite{fb, fs + 1}, chain.BlockPlan{Graffiti: graffiti(7)}, "honest:slot=finalized+1"); ok {
			h := s.blockStep(hm)
			out = append(out, &History{Name: h.Desc + " " + fmtSite(fb.Root, fs+1), Steps: []*Step{h, clone(h)}})
			_ = pre
			if am, _, ok := mkHonest(psite{fb, fs}, chain.BlockPlan{Graffiti: graffiti(7)}, "slot:=finalized-slot"); ok {
				am.now = hm.now
				out = append(out, seqRefusedThenValid(am.desc+" "+fmtSite(fb.Root, fs), s.blockStep(am), h))
			}
		}
	}
	// two branches whose shufflings give different proposers for the same slot: a block signed by
	// the proposer of branch B but built on branch A is refused (unexpected proposer); the valid
	// block of that proposer on branch B must still be ACCEPTed afterwards.
	if s.Side != nil && v.DescendsFromFinalized(s.Side.Root) {
		for slot := base + 1; slot <= base+6; slot++ {
			pa, errA := v.StateAt(tip.Root, slot).Proposer(slot)
			pb, errB := v.StateAt(s.Side.Root, slot).Proposer(slot)
			if errA != nil || errB != nil || pa == pb {
				continue
			}
			good, _, ok := mkHonest(psite{s.Side, slot}, chain.BlockPlan{}, "honest:branch-B-proposer-on-B")
			if !ok {
				continue
			}
			pbCopy := pb
			env, _, err := s.produce(tip, slot, chain.BlockPlan{Proposer: &pbCopy})
			if err != nil {
				continue
			}
			bad := &blkMsg{env: env, now: good.now, sigOK: true, tsOK: true, blobsOK: true, desc: "proposer:branch-B-proposer-on-A"}
			out = append(out, seqRefusedThenValid("cross-branch-proposer "+fmtSite(tip.Root, slot), s.blockStep(bad), s.blockStep(good)))
			break
		}
	}
	return out
}
