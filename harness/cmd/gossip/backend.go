package main

import (
	"context"
	"encoding/hex"
	"fmt"
	"sort"
	"time"

	"verif/harness/chain"

	"github.com/protolambda/zrnt/eth2/beacon"
	"github.com/protolambda/zrnt/eth2/beacon/common"
	"github.com/protolambda/zrnt/eth2/gossipval"
)

// Backend implements every *ValBackend interface of gossipval over a View, with a
// controllable clock and seen-caches that RECORD every Seen*/Mark* call.
type Backend struct {
	V *View
	// Now is the node's clock: time since genesis.
	Now  time.Duration
	seen map[string]map[string]bool
	// calls made during the current validation
	Marks [][2]string
	Seens [][2]string
	// stepBad: block roots the node regards as invalid while the current message is validated
	stepBad map[common.Root]bool
}

func NewBackend(v *View) *Backend {
	return &Backend{V: v, seen: map[string]map[string]bool{}}
}

func (b *Backend) resetCalls() { b.Marks, b.Seens = nil, nil }

func (b *Backend) has(cache, key string) bool { return b.seen[cache][key] }
func (b *Backend) query(cache, key string) bool {
	b.Seens = append(b.Seens, [2]string{cache, key})
	return b.has(cache, key)
}
func (b *Backend) mark(cache, key string) {
	b.Marks = append(b.Marks, [2]string{cache, key})
	if b.seen[cache] == nil {
		b.seen[cache] = map[string]bool{}
	}
	b.seen[cache][key] = true
}

// Unseen tells whether the message still has an unseen key in the cache (harness-side view of
// the "first for key" conditions, logged for cross-checking against the model's cache state).
func (b *Backend) Unseen(cache string, keys []string) bool {
	for _, k := range keys {
		if !b.has(cache, k) {
			return true
		}
	}
	return false
}

// ---- key encodings (shared by the message builders and the recorded calls)
func keyBlock(slot common.Slot, p common.ValidatorIndex) string { return fmt.Sprintf("%d:%d", slot, p) }
func keyAtt(e common.Epoch, v common.ValidatorIndex) string     { return fmt.Sprintf("%d:%d", e, v) }
func keyRoot(r common.Root) string                              { return hex.EncodeToString(r[:8]) }
func keyIdx(v common.ValidatorIndex) string                     { return fmt.Sprintf("%d", v) }
func keySync(slot common.Slot, v common.ValidatorIndex, subnet uint64) string {
	return fmt.Sprintf("%d:%d:%d", slot, v, subnet)
}

// ---- gossipval backend interfaces
func (b *Backend) Spec() *common.Spec                 { return b.V.Spec }
func (b *Backend) Chain() beacon.Chain                { return chainAdapter{b.V} }
func (b *Backend) GenesisValidatorsRoot() common.Root { return b.V.GVR }
func (b *Backend) IsBadBlock(root common.Root) bool   { return b.stepBad[root] }

// SlotAfter: the slot at clock time Now+delta, clipped at genesis.
func (b *Backend) SlotAfter(delta time.Duration) common.Slot {
	return slotAtTime(b.V.Spec, b.Now+delta)
}

func slotAtTime(spec *common.Spec, t time.Duration) common.Slot {
	if t < 0 {
		return 0
	}
	return common.Slot(uint64(t/time.Millisecond) / (uint64(spec.SECONDS_PER_SLOT) * 1000))
}

func slotStart(spec *common.Spec, s common.Slot) time.Duration {
	return time.Duration(uint64(s)*uint64(spec.SECONDS_PER_SLOT)) * time.Second
}

// GetDomain is what a node derives from its configuration: the fork version scheduled for the
// epoch and the genesis validators root (harness's own schedule lookup, not Spec.ForkVersion).
func (b *Backend) GetDomain(typ common.BLSDomainType, epoch common.Epoch) (common.BLSDomain, error) {
	ver := chain.ForkVersionOf(b.V.Spec, chain.ForkAtEpoch(b.V.Spec, epoch))
	return common.ComputeDomain(typ, ver, b.V.GVR), nil
}

func (b *Backend) HeadInfo(ctx context.Context) (beacon.ChainEntry, *common.EpochsContext, common.BeaconState, error) {
	return gossipval.RetrieveHeadInfo(ctx, b.Chain())
}

func (b *Backend) SeenBlock(slot common.Slot, p common.ValidatorIndex) bool {
	return b.query("block", keyBlock(slot, p))
}
func (b *Backend) MarkBlock(slot common.Slot, p common.ValidatorIndex) {
	b.mark("block", keyBlock(slot, p))
}
func (b *Backend) SeenAttestation(e common.Epoch, v common.ValidatorIndex) bool {
	return b.query("att", keyAtt(e, v))
}
func (b *Backend) MarkAttestation(e common.Epoch, v common.ValidatorIndex) {
	b.mark("att", keyAtt(e, v))
}
func (b *Backend) SeenAggregate(r common.Root) bool { return b.query("aggroot", keyRoot(r)) }
func (b *Backend) MarkAggregate(r common.Root)      { b.mark("aggroot", keyRoot(r)) }
func (b *Backend) SeenAggregator(e common.Epoch, v common.ValidatorIndex) bool {
	return b.query("aggregator", keyAtt(e, v))
}
func (b *Backend) MarkAggregator(e common.Epoch, v common.ValidatorIndex) {
	b.mark("aggregator", keyAtt(e, v))
}
func (b *Backend) SeenExit(v common.ValidatorIndex) bool { return b.query("exit", keyIdx(v)) }
func (b *Backend) MarkExit(v common.ValidatorIndex)      { b.mark("exit", keyIdx(v)) }
func (b *Backend) SeenProposerSlashing(v common.ValidatorIndex) bool {
	return b.query("pslash", keyIdx(v))
}
func (b *Backend) MarkProposerSlashing(v common.ValidatorIndex) { b.mark("pslash", keyIdx(v)) }
func (b *Backend) AttesterSlashableAllSeen(indices []common.ValidatorIndex) bool {
	all := true
	for _, i := range indices {
		if !b.query("aslash", keyIdx(i)) {
			all = false
		}
	}
	return all
}
func (b *Backend) MarkAttesterSlashings(indices []common.ValidatorIndex) {
	for _, i := range indices {
		b.mark("aslash", keyIdx(i))
	}
}
func (b *Backend) SeenSyncCommMsg(v common.ValidatorIndex, slot common.Slot, subnet uint64) bool {
	return b.query("syncmsg", keySync(slot, v, subnet))
}
func (b *Backend) MarkSyncCommMsg(v common.ValidatorIndex, slot common.Slot, subnet uint64) {
	b.mark("syncmsg", keySync(slot, v, subnet))
}
func (b *Backend) SeenContribution(v common.ValidatorIndex, slot common.Slot, subnet uint64) bool {
	return b.query("contrib", keySync(slot, v, subnet))
}
func (b *Backend) MarkContribution(v common.ValidatorIndex, slot common.Slot, subnet uint64) {
	b.mark("contrib", keySync(slot, v, subnet))
}

var (
	_ gossipval.BeaconBlockValBackend         = (*Backend)(nil)
	_ gossipval.AttestationValBackend         = (*Backend)(nil)
	_ gossipval.AggregatesValBackend          = (*Backend)(nil)
	_ gossipval.VoluntaryExitValBackend       = (*Backend)(nil)
	_ gossipval.ProposerSlashingValBackend    = (*Backend)(nil)
	_ gossipval.AttesterSlashingValBackend    = (*Backend)(nil)
	_ gossipval.SyncCommitteeSubnetValBackend = (*Backend)(nil)
	_ gossipval.SyncContribAndProofValBackend = (*Backend)(nil)
)

// ---------------------------------------------------------------- steps, histories, recording

// Step is one message handed to one topic validator, together with the harness's claim about it.
type Step struct {
	Topic   string
	Desc    string // which honest message / corruption
	Variant string // structural tag used to identify known findings
	Bnd     string // boundary-value tag(s), "|" separated: which comparison of the tables the message sits on, and on which side
	// sync topics: every position ("seat") the validator / aggregator holds in the sync committee that signs at the
	// message's slot, the subcommittee size and the subnet / subcommittee index the message claims; the trace
	// spec recomputes compute_subnets_for_sync_committee from ALL seats
	Seats   []int
	SubSize int
	Subnet  int
	// voluntary exits: what the signature domain rule depends on (epochs, fork versions as small integers) and how
	// the message was really signed; the trace spec recomputes the signature condition from the rule
	// "head epoch >= DENEB_FORK_EPOCH: capella version (EIP-7044), else get_domain(state, ., exit.epoch)"
	Xdom map[string]int
	Cond map[string]bool // truth value of every cache-independent condition of the topic's table
	Key  map[string][]string
	Now  time.Duration
	Bad  []common.Root // roots the node regards as bad blocks while this message is validated
	Run  func(b *Backend) gossipval.GossipValidatorResult
}

// History is a sequence of steps sharing seen-caches (starting empty).
type History struct {
	Scen  string
	Name  string
	Steps []*Step
}

// Event is the logged ndjson record.
type Event struct {
	Ev      string              `json:"ev"`
	H       int                 `json:"h"`
	I       int                 `json:"i"`
	Scen    string              `json:"scen"`
	Name    string              `json:"name"`
	Topic   string              `json:"topic"`
	Desc    string              `json:"desc"`
	Variant string              `json:"variant"`
	Bnd     string              `json:"bnd"`
	Seats   []int               `json:"seats"`
	SubSize int                 `json:"subsize"`
	Subnet  int                 `json:"subnet"`
	Xdom    map[string]int      `json:"xdom"`
	Cond    map[string]int      `json:"cond"`
	Key     map[string][]string `json:"key"`
	Pre     map[string]int      `json:"pre"`
	NowMs   int                 `json:"now_ms"`
	Verdict string              `json:"verdict"`
	Err     string              `json:"err"`
	Marks   [][2]string         `json:"marks"`
	Seens   [][2]string         `json:"seens"`
	Out     string              `json:"out"`
}

func b2i(b bool) int {
	if b {
		return 1
	}
	return 0
}

// runHistory executes a history on fresh caches and returns its events (first one: Reset).
func runHistory(v *View, h *History, hi int) []Event {
	out := []Event{{Ev: "Reset", H: hi, Scen: h.Scen, Name: h.Name, Cond: map[string]int{"_": 0},
		Key: map[string][]string{"_": {}}, Pre: map[string]int{"_": 0}, Marks: [][2]string{}, Seens: [][2]string{}, Seats: []int{}, Xdom: map[string]int{"_": 0}, Out: "ok"}}
	b := NewBackend(v)
	for i, st := range h.Steps {
		ev := Event{Ev: "Msg", H: hi, I: i, Scen: h.Scen, Name: h.Name, Topic: st.Topic, Desc: st.Desc, Variant: st.Variant, Bnd: bndOf(st),
			Seats: append([]int{}, st.Seats...), SubSize: st.SubSize, Subnet: st.Subnet, Xdom: st.Xdom,
			Cond: map[string]int{}, Key: map[string][]string{}, Pre: map[string]int{}, NowMs: int(st.Now / time.Millisecond)}
		for k, x := range st.Cond {
			ev.Cond[k] = b2i(x)
		}
		if ev.Xdom == nil {
			ev.Xdom = map[string]int{"_": 0}
		}
		for c, ks := range st.Key {
			ks = append([]string{}, ks...)
			sort.Strings(ks)
			ev.Key[c] = ks
			ev.Pre[c] = b2i(b.Unseen(c, ks))
		}
		b.Now = st.Now
		b.resetCalls()
		b.stepBad = map[common.Root]bool{}
		for _, r := range st.Bad {
			b.stepBad[r] = true
		}
		var res gossipval.GossipValidatorResult
		outc, det := guarded(func() { res = st.Run(b) })
		ev.Out = outc
		if outc == "ok" {
			ev.Verdict = res.Result.String()
			if res.Err != nil {
				ev.Err = res.Err.Error()
			}
		} else {
			ev.Verdict = "NONE"
			ev.Err = det
		}
		ev.Marks = append([][2]string{}, b.Marks...)
		ev.Seens = append([][2]string{}, b.Seens...)
		out = append(out, ev)
	}
	return out
}

var watchdog = 90 * time.Second

func guarded(fn func()) (out string, detail string) {
	done := make(chan [2]string, 1)
	go func() {
		defer func() {
			if r := recover(); r != nil {
				done <- [2]string{"panic", fmt.Sprint(r)}
			}
		}()
		fn()
		done <- [2]string{"ok", ""}
	}()
	select {
	case o := <-done:
		return o[0], o[1]
	case <-time.After(watchdog):
		return "timeout", ""
	}
}
