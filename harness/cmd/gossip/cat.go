package main

import (
	"crypto/sha256"
	"encoding/binary"
	"fmt"
	"math/rand"
	"strings"
	"time"

	"verif/harness/chain"

	"github.com/protolambda/zrnt/eth2/beacon/common"
)

// condNames lists, per topic, the cache-independent conditions of spec/GossipVal.tla (the trace
// spec rejects an event whose cond vector has another domain).
var condNames = map[string][]string{
	"block": {"not_future", "after_finalized", "signature", "parent_seen", "slot_gt_parent", "finalized_ancestor",
		"expected_proposer", "payload_timestamp", "blob_count"},
	"att": {"committee_index", "subnet", "slot_window", "epoch_target", "one_bit", "bits_len", "signature",
		"block_seen", "block_valid", "target_ancestor", "finalized_ancestor"},
	"agg": {"committee_index", "slot_window", "epoch_target", "bits_len", "has_participants", "is_aggregator",
		"aggregator_in_committee", "selection_proof", "outer_signature", "aggregate_signature", "block_seen",
		"block_valid", "target_ancestor", "finalized_ancestor"},
	"exit":    {"index_known", "active", "not_exiting", "epoch_reached", "old_enough", "signature"},
	"pslash":  {"same_slot", "same_proposer", "headers_differ", "slashable", "signature_1", "signature_2"},
	"aslash":  {"slashable_data", "indices_1", "signature_1", "indices_2", "signature_2", "some_slashed"},
	"syncmsg": {"current_slot", "subnet_valid", "signature"},
	"contrib": {"current_slot", "subcommittee_index", "has_participants", "is_aggregator", "aggregator_in_subcommittee",
		"selection_proof", "outer_signature", "aggregate_signature"},
}

func allTrue(topic string) map[string]bool {
	m := map[string]bool{}
	for _, n := range condNames[topic] {
		m[n] = true
	}
	return m
}

// Constants of the networking / validator specifications (transcribed, not read from zrnt).
const (
	attestationPropagationSlotRange = 32
	attestationSubnetCount          = 64
	targetAggregatorsPerCommittee   = 16
	syncCommitteeSubnetCount        = 4
	targetAggregatorsPerSyncSubcomm = 16
	clockDisparity                  = 500 * time.Millisecond
)

func hashU64(b []byte) uint64 {
	h := sha256.Sum256(b)
	return binary.LittleEndian.Uint64(h[:8])
}

func (s *Scen) spec() *common.Spec { return s.V.Spec }

func (s *Scen) slotAt(t time.Duration) common.Slot { return slotAtTime(s.V.Spec, t) }

// notFuture: slot <= current_slot with the disparity allowance.
func (s *Scen) notFuture(slot common.Slot, now time.Duration) bool {
	return slot <= s.slotAt(now+clockDisparity)
}

// isCurrentSlot: slot == current_slot for some clock reading within the disparity allowance.
func (s *Scen) isCurrentSlot(slot common.Slot, now time.Duration) bool {
	return s.slotAt(now-clockDisparity) <= slot && slot <= s.slotAt(now+clockDisparity)
}

// attWindow is the phase0..capella rule: slot + RANGE >= current_slot >= slot; from deneb on
// (EIP-7045): slot <= current_slot and epoch(slot) in {current_epoch, previous_epoch}.
func (s *Scen) attWindow(slot common.Slot, now time.Duration) bool {
	if !s.notFuture(slot, now) {
		return false
	}
	lo := s.slotAt(now - clockDisparity) // the earliest current_slot the allowance admits
	sp := s.spec()
	if chain.ForkAtEpoch(sp, sp.SlotToEpoch(slot)) >= chain.Deneb {
		// epoch(slot) in {current_epoch, previous_epoch} for some clock reading within the allowance
		e := sp.SlotToEpoch(slot)
		return e+1 >= sp.SlotToEpoch(lo)
	}
	return slot+attestationPropagationSlotRange >= lo
}

// domainAt is the signature domain an honest signer uses for (type, epoch): fork version
// scheduled for the epoch + genesis validators root.
func (s *Scen) domainAt(typ common.BLSDomainType, epoch common.Epoch) chain.Domain {
	return chain.Domain{Type: typ, Version: chain.ForkVersionOf(s.spec(), chain.ForkAtEpoch(s.spec(), epoch)), GVR: s.V.GVR}
}

// otherVersion returns a fork version different from the one scheduled at epoch.
func (s *Scen) otherVersion(epoch common.Epoch) common.Version {
	v := chain.ForkVersionOf(s.spec(), chain.ForkAtEpoch(s.spec(), epoch))
	o := s.spec().BELLATRIX_FORK_VERSION
	if o == v {
		o = s.spec().GENESIS_FORK_VERSION
	}
	return o
}

// seq composes the standard histories for one honest message H and its variants:
//
//	[V, H, H]   refused message, then the valid one with the same key (must be ACCEPTed), then
//	            the duplicate (must be IGNOREd)
//	[H, V]      valid first, then the variant
func clone(st *Step) *Step { c := *st; return &c }

func seqRefusedThenValid(name string, v, h *Step) *History {
	return &History{Name: name, Steps: []*Step{clone(v), clone(h), clone(h)}}
}

func single(name string, st *Step) *History { return &History{Name: name, Steps: []*Step{clone(st)}} }

func pick[T any](rng *rand.Rand, xs []T, n int) []T {
	if n >= len(xs) {
		return xs
	}
	idx := rng.Perm(len(xs))[:n]
	out := make([]T, 0, n)
	for _, i := range idx {
		out = append(out, xs[i])
	}
	return out
}

func unknownRoot(tag string, n uint64) common.Root { return chain.UnknownRoot("gossip-"+tag, n) }

func (s *Scen) histories(tier string, rng *rand.Rand, want map[string]bool) (out []*History, failed []string) {
	on := func(t string) bool { return len(want) == 0 || want[t] }
	type gen struct {
		topic string
		fn    func(tier string, rng *rand.Rand) []*History
	}
	for _, g := range []gen{
		{"att", s.attHistories}, {"agg", s.aggHistories}, {"block", s.blockHistories},
		{"exit", s.exitHistories}, {"pslash", s.pslashHistories}, {"aslash", s.aslashHistories},
		{"syncmsg", s.syncMsgHistories}, {"contrib", s.contribHistories},
	} {
		sub := rng.Int63()
		if !on(g.topic) || (s.Only != nil && !s.Only[g.topic]) {
			continue
		}
		// a catalogue that cannot be built on the tree under test (e.g. zrnt refuses to produce an
		// honest block) is reported and skipped; the other catalogues are still judged
		func() {
			defer func() {
				if r := recover(); r != nil {
					failed = append(failed, fmt.Sprintf("%s/%s: %v", s.Name, g.topic, r))
				}
			}()
			hs := g.fn(tier, rand.New(rand.NewSource(sub)))
			for _, h := range hs {
				h.Name = g.topic + "/" + h.Name
			}
			out = append(out, hs...)
		}()
	}
	return out, failed
}

// bndTable maps (topic, description prefix) of catalogue entries to the boundary they sit on.
var bndTable = map[string]map[string]string{
	"block": {
		"clock:future-edge-499ms": "slot=current_slot:disparity-edge-inside", "clock:future-501ms": "slot=current_slot:disparity-edge-outside",
		"slot:=parent-slot": "slot=parent_slot", "slot:=finalized-slot": "slot=finalized_slot", "honest:slot=finalized+1": "slot=finalized_slot+1",
		"blobs:max+1": "blobs=max+1", "honest:max-blobs": "blobs=max", "proposer:index-out-of-range": "proposer_index=count",
	},
	"att": {
		"clock:future-edge-499ms": "slot=current_slot:disparity-edge-inside", "clock:future-501ms": "slot=current_slot:disparity-edge-outside",
		"clock:old-edge-in": "window-end:disparity-edge-inside", "clock:old-501ms": "window-end:disparity-edge-outside",
		"committee-index:=count": "committee_index=count", "bits:len+1": "bits=len+1", "bits:len-1": "bits=len-1",
		"target-epoch:+1": "target_epoch=epoch+1", "target-epoch:-1": "target_epoch=epoch-1", "bits:two": "participants=2", "bits:none": "participants=0",
	},
	"exit": {"epoch:future": "exit_epoch=current+1", "index:out-of-range": "index=count", "honest:pre-fork-epoch": bndPreFork},
	"pslash": {"proposer:index-out-of-range": "index=count", "honest:pre-fork-slot": bndPreFork,
		"headers:different-slots": "slot2=slot1+1"},
	"aslash": {"honest:pre-fork-target": bndPreFork, "indices2:out-of-range-member": "index=count", "indices1:empty": "indices=0"},
	"syncmsg": {
		"clock:future-edge-499ms": "slot=current_slot:early-edge-inside", "clock:future-501ms": "slot=current_slot:early-edge-outside",
		"clock:next-slot-edge-499ms": "slot=current_slot:late-edge-inside", "clock:next-slot-501ms": "slot=current_slot:late-edge-outside",
		"validator:index-out-of-range": "index=count",
	},
	"contrib": {
		"clock:future-edge-499ms": "slot=current_slot:early-edge-inside", "clock:future-501ms": "slot=current_slot:early-edge-outside",
		"clock:next-slot-edge-499ms": "slot=current_slot:late-edge-inside", "clock:next-slot-501ms": "slot=current_slot:late-edge-outside",
		"subcommittee-index:=count": "subcommittee_index=count", "bits:none": "participants=0", "aggregator:index-out-of-range": "index=count",
	},
}

func init() { bndTable["agg"] = bndTable["att"] }

func bndOf(st *Step) string {
	d := st.Desc
	if i := strings.Index(d, "+outer-prefix"); i >= 0 {
		d = d[:i]
	}
	return joinTags(bndTable[st.Topic][d], st.Bnd)
}

func allScenarios() []scenBuilder {
	return []scenBuilder{
		{"p0", func(tier string, rng *rand.Rand) ([]*Scen, error) {
			b, err := buildP0(chain.Phase0Only, rng)
			if err != nil {
				return nil, err
			}
			v, err := b.view("p0", keepAll, "main", 1, true)
			if err != nil {
				return nil, err
			}
			ve, err := b.view("p0early", keepUpTo(5), "main", 0, true)
			if err != nil {
				return nil, err
			}
			vl, err := b.view("p0lag", keepAll, "main", 1, false)
			if err != nil {
				return nil, err
			}
			// head in epoch 2 = activation + SHARD_COMMITTEE_PERIOD exactly (p0early: one epoch short)
			v2, err := b.view("p0ep2", keepUpTo(9), "main", 0, true)
			if err != nil {
				return nil, err
			}
			s2 := newScen("p0ep2", b, v2)
			s2.Only = map[string]bool{"exit": true}
			return []*Scen{newScen("p0", b, v), newScen("p0early", b, ve), newScen("p0lag", b, vl), s2}, nil
		}},
		// the p0 chain with the altair upgrade in the middle (epoch 5): messages around the fork
		// boundary are signed and verified under the version of their own epoch (thorough tier)
		{"p0fork", func(tier string, rng *rand.Rand) ([]*Scen, error) {
			if tier != "thorough" {
				return nil, nil
			}
			b, err := buildP0(chain.Forks(5, chain.FarFuture, chain.FarFuture, chain.FarFuture), rng)
			if err != nil {
				return nil, err
			}
			var out []*Scen
			for _, up := range []common.Slot{19, 21, 26} {
				v, err := b.view(fmt.Sprintf("p0fork%d", up), keepUpTo(up), "main", 0, true)
				if err != nil {
					return nil, err
				}
				out = append(out, newScen(v.Name, b, v))
			}
			return out, nil
		}},
		{"multiseat", func(tier string, rng *rand.Rand) ([]*Scen, error) {
			b, err := buildMultiseat()
			if err != nil {
				return nil, err
			}
			v, err := b.view("multiseat", keepAll, "main", 0, true)
			if err != nil {
				return nil, err
			}
			s := newScen("multiseat", b, v)
			s.Only = map[string]bool{"syncmsg": true, "contrib": true}
			// the scenario exists for validators with seats in several subcommittees
			multi := false
			members, _ := s.syncCommitteeFor(v.HeadState(), v.TipSlot)
			for _, m := range members {
				if _, subs := s.seatsOf(members, m); len(subs) > 1 {
					multi = true
				}
			}
			if !multi {
				return nil, fmt.Errorf("multiseat: no validator holds seats in two subcommittees")
			}
			return []*Scen{s}, nil
		}},
		{"gapfin", func(tier string, rng *rand.Rand) ([]*Scen, error) {
			b, upTo, err := buildGapfin()
			if err != nil {
				return nil, err
			}
			v, err := b.view("gapfin", keepUpTo(upTo), "main", 0, true)
			if err != nil {
				return nil, err
			}
			if fb := v.Blocks[v.Fin.Root]; v.Fin.Epoch != 3 || fb == nil || fb.Slot >= v.FinalizedSlot() {
				return nil, fmt.Errorf("gapfin: finalized checkpoint %v is not a gap-start checkpoint", v.Fin)
			}
			s := newScen("gapfin", b, v)
			s.Only = map[string]bool{"block": true, "att": true, "agg": true}
			return []*Scen{s}, nil
		}},
		{"forkedge", func(tier string, rng *rand.Rand) ([]*Scen, error) {
			b, err := buildForkedge()
			if err != nil {
				return nil, err
			}
			v, err := b.view("forkedge", keepAll, "main", 0, true)
			if err != nil {
				return nil, err
			}
			return []*Scen{newScen("forkedge", b, v)}, nil
		}},
		{"nofin", func(tier string, rng *rand.Rand) ([]*Scen, error) {
			b, err := buildNofin(12)
			if err != nil {
				return nil, err
			}
			v, err := b.view("nofin", keepAll, "main", 0, true)
			if err != nil {
				return nil, err
			}
			return []*Scen{newScen("nofin", b, v)}, nil
		}},
		{"alt", func(tier string, rng *rand.Rand) ([]*Scen, error) {
			b, err := buildAlt(15, rng)
			if err != nil {
				return nil, err
			}
			v, err := b.view("alt", keepAll, "main", 0, true)
			if err != nil {
				return nil, err
			}
			v2, err := b.view("altmid", keepUpTo(11), "main", 1, true)
			if err != nil {
				return nil, err
			}
			return []*Scen{newScen("alt", b, v), newScen("altmid", b, v2)}, nil
		}},
		{"big", func(tier string, rng *rand.Rand) ([]*Scen, error) {
			b, err := buildBig(6)
			if err != nil {
				return nil, err
			}
			v, err := b.view("big", keepAll, "main", 0, true)
			if err != nil {
				return nil, err
			}
			s := newScen("big", b, v)
			s.Big = true
			return []*Scen{s}, nil
		}},
		{"late", func(tier string, rng *rand.Rand) ([]*Scen, error) {
			b, err := buildLate(17)
			if err != nil {
				return nil, err
			}
			v, err := b.view("late", keepAll, "main", 0, true)
			if err != nil {
				return nil, err
			}
			v2, err := b.view("latebel", keepUpTo(10), "main", 0, true)
			if err != nil {
				return nil, err
			}
			// heads in the first epoch of a fork / the last epoch before it: late1 = epoch 1 (first altair epoch, last
			// before bellatrix; the next block slots 7, 8, 9 straddle the bellatrix upgrade), latebel = epoch 2 (first
			// bellatrix epoch, last before capella+deneb; next block slots 11, 12, 13), late3 = epoch 3 (FIRST deneb
			// epoch), late = epoch 4
			v1, err := b.view("late1", keepUpTo(6), "main", 0, true)
			if err != nil {
				return nil, err
			}
			v3, err := b.view("late3", keepUpTo(14), "main", 0, true)
			if err != nil {
				return nil, err
			}
			return []*Scen{newScen("late", b, v), newScen("latebel", b, v2), newScen("late1", b, v1), newScen("late3", b, v3)}, nil
		}},
	}
}

// preForkEpoch: the last epoch before the most recent fork upgrade the head state has gone
// through (ok=false if the head has not crossed a fork boundary after genesis).
func (s *Scen) preForkEpoch() (common.Epoch, bool) {
	head := s.V.HeadState()
	f := head.ForkData()
	if f.Epoch == 0 || f.Epoch > head.Epoch() || f.PreviousVersion == f.CurrentVersion {
		return 0, false
	}
	return f.Epoch - 1, true
}

// forkSlotTag: "<what>@first-slot-of-<fork>" / "<what>@last-slot-before-<fork>" when slot sits on a fork boundary.
func (s *Scen) forkSlotTag(what string, slot common.Slot) string {
	sp := s.spec()
	for _, fk := range []chain.Fork{chain.Altair, chain.Bellatrix, chain.Capella, chain.Deneb} {
		fe := chain.ForkEpochOf(sp, fk)
		if fe == chain.FarFuture || fe == 0 {
			continue
		}
		start := mustV(sp.EpochStartSlot(fe))
		// with several upgrades at one epoch the latest fork names the boundary
		if nxt := fk + 1; nxt <= chain.Deneb && chain.ForkEpochOf(sp, nxt) == fe {
			continue
		}
		if slot == start {
			return what + "@first-slot-of-" + fk.String()
		}
		if slot+1 == start {
			return what + "@last-slot-before-" + fk.String()
		}
	}
	return ""
}

// forkEpochTag: the same for epochs.
func (s *Scen) forkEpochTag(what string, epoch common.Epoch) string {
	sp := s.spec()
	for _, fk := range []chain.Fork{chain.Altair, chain.Bellatrix, chain.Capella, chain.Deneb} {
		fe := chain.ForkEpochOf(sp, fk)
		if fe == chain.FarFuture || fe == 0 {
			continue
		}
		if nxt := fk + 1; nxt <= chain.Deneb && chain.ForkEpochOf(sp, nxt) == fe {
			continue
		}
		if epoch == fe {
			return what + "@first-epoch-of-" + fk.String()
		}
		if epoch+1 == fe {
			return what + "@last-epoch-before-" + fk.String()
		}
	}
	return ""
}

func joinTags(tags ...string) string {
	out := ""
	for _, t := range tags {
		if t == "" {
			continue
		}
		if out != "" {
			out += "|"
		}
		out += t
	}
	return out
}

const bndPreFork = "epoch=fork_epoch-1:head-past-fork"

func fmtSite(root common.Root, slot common.Slot, extra ...interface{}) string {
	return fmt.Sprintf("%x@%d%s", root[:3], slot, fmt.Sprint(extra...))
}
