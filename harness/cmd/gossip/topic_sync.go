package main

import (
	"context"
	"fmt"
	"math/rand"
	"time"

	"verif/harness/chain"

	"github.com/protolambda/zrnt/eth2/beacon/altair"
	"github.com/protolambda/zrnt/eth2/beacon/common"
	"github.com/protolambda/zrnt/eth2/gossipval"
	"github.com/protolambda/ztyp/tree"
	"github.com/protolambda/ztyp/view"
)

// syncCommitteeFor returns the validator indices (position by position) of the sync committee
// that signs over the head at `slot`: compute_subnets_for_sync_committee / get_sync_subcommittee_pubkeys
// select state.current_sync_committee unless slot+1 starts a new sync-committee period, in which
// case the NEXT committee signs (its signatures go into the block of slot+1).
func (s *Scen) syncCommitteeFor(sc *chain.StateCtx, slot common.Slot) (members []common.ValidatorIndex, boundary bool) {
	sp := s.spec()
	ss, ok := sc.State.BeaconState.(common.SyncCommitteeBeaconState)
	if !ok {
		return nil, false
	}
	period := func(e common.Epoch) uint64 { return uint64(e) / uint64(sp.EPOCHS_PER_SYNC_COMMITTEE_PERIOD) }
	boundary = period(sp.SlotToEpoch(slot)) != period(sp.SlotToEpoch(slot+1))
	cv := mustV(ss.CurrentSyncCommittee())
	if boundary {
		cv = mustV(ss.NextSyncCommittee())
	}
	pubs := mustV(mustV(cv.Pubkeys()).Flatten())
	members = make([]common.ValidatorIndex, len(pubs))
	for i, p := range pubs {
		idx, ok := sc.Epc.ValidatorPubkeyCache.ValidatorIndex(p)
		if !ok {
			panic("sync committee pubkey not in the registry")
		}
		members[i] = idx
	}
	return members, boundary
}

func (s *Scen) currentCommittee(sc *chain.StateCtx) []common.ValidatorIndex {
	return sc.SyncCommittee()
}

// seatsOf: every position v holds in the committee, and the set of subcommittees they fall into.
func (s *Scen) seatsOf(members []common.ValidatorIndex, v common.ValidatorIndex) (seats []int, subs map[int]bool) {
	subs = map[int]bool{}
	for p, w := range members {
		if w == v {
			seats = append(seats, p)
			subs[p/s.subSize()] = true
		}
	}
	return
}

func (s *Scen) subSize() int { return int(s.spec().SYNC_COMMITTEE_SIZE) / syncCommitteeSubnetCount }

// ---------------------------------------------------------------- sync committee messages

type syncMsg struct {
	slot      common.Slot
	root      common.Root
	validator common.ValidatorIndex
	subnet    uint64
	signer    chain.KeyID
	signRoot  common.Root
	dom       chain.Domain
	now       time.Duration
	members   []common.ValidatorIndex
	sigOK     bool
	desc      string
	variant   string
}

func (s *Scen) syncMsgStep(m *syncMsg) *Step {
	msg := &altair.SyncCommitteeMessage{Slot: m.slot, BeaconBlockRoot: m.root, ValidatorIndex: m.validator,
		Signature: s.V.Keys.Sign1(m.signer, m.signRoot, m.dom)}
	cond := allTrue("syncmsg")
	cond["current_slot"] = s.isCurrentSlot(m.slot, m.now)
	in := false
	for pos, v := range m.members {
		if v == m.validator && uint64(pos/s.subSize()) == m.subnet {
			in = true
		}
	}
	cond["subnet_valid"] = in
	cond["signature"] = m.sigOK
	subnet := m.subnet
	seats, subs := s.seatsOf(m.members, m.validator)
	bnd := ""
	if m.desc == "honest" && len(subs) > 1 {
		// a validator sampled into the committee more than once, with seats in different subcommittees
		if int(m.subnet) == seats[0]/s.subSize() {
			bnd = "first-subnet-of-multi-seat-validator"
		} else {
			bnd = "non-first-subnet-of-multi-seat-validator"
		}
	}
	if m.desc == "honest" {
		bnd = joinTags(bnd, s.forkSlotTag("slot", m.slot))
	}
	return &Step{Topic: "syncmsg", Desc: m.desc, Variant: m.variant, Bnd: bnd, Seats: seats, SubSize: s.subSize(), Subnet: int(m.subnet), Cond: cond,
		Key: map[string][]string{"syncmsg": {keySync(m.slot, m.validator, m.subnet)}}, Now: m.now,
		Run: func(b *Backend) gossipval.GossipValidatorResult {
			_, res := gossipval.ValidateSyncCommitteeSubnet(context.Background(), subnet, msg, b)
			return res
		}}
}

// syncSite: the head (block root) the committee signs at `slot`.
type syncSite struct {
	head *Block
	slot common.Slot
}

func (s *Scen) honestSyncMsg(site syncSite, pos int) *syncMsg {
	sc := s.V.StateAt(site.head.Root, site.slot)
	members, boundary := s.syncCommitteeFor(sc, site.slot)
	v := members[pos]
	m := &syncMsg{slot: site.slot, root: site.head.Root, validator: v, subnet: uint64(pos / s.subSize()), signer: sc.KeyOf(v),
		signRoot: site.head.Root, dom: s.domainAt(common.DOMAIN_SYNC_COMMITTEE, s.spec().SlotToEpoch(site.slot)),
		now: slotStart(s.spec(), site.slot) + 2*time.Second, members: members, sigOK: true, desc: "honest"}
	if boundary {
		m.variant = "period-boundary"
	}
	return m
}

func (s *Scen) syncSites() []syncSite {
	v := s.V
	var out []syncSite
	// the node knows (root, slot) for the canonical chain's blocks and the empty slots it processed
	lo := common.Slot(1)
	if v.TipSlot > 6 {
		lo = v.TipSlot - 6
	}
	for slot := lo; slot <= v.TipSlot; slot++ {
		if b := v.CanonicalAt(slot); b != nil && b.Env != nil && v.DescendsFromFinalized(b.Root) {
			if _, ok := v.ByBlockSlot(b.Root, slot); ok {
				out = append(out, syncSite{b, slot})
			}
		}
	}
	return out
}

func (s *Scen) syncMsgHistories(tier string, rng *rand.Rand) []*History {
	var out []*History
	if chain.ForkAtEpoch(s.spec(), s.spec().SlotToEpoch(s.V.TipSlot)) < chain.Altair {
		return nil
	}
	if s.Name == "latebel" {
		return nil
	}
	sp := s.spec()
	sites := s.syncSites()
	if len(sites) == 0 {
		return nil
	}
	size := int(sp.SYNC_COMMITTEE_SIZE)
	nPos, nCorrupt := 8, 3
	if tier == "thorough" {
		nPos, nCorrupt = 32, 10
	}
	for _, site := range sites {
		if chain.ForkAtEpoch(sp, sp.SlotToEpoch(site.slot)) < chain.Altair {
			continue
		}
		sc := s.V.StateAt(site.head.Root, site.slot)
		n := sc.ValidatorCount()
		members, boundary := s.syncCommitteeFor(sc, site.slot)
		positions := rng.Perm(size)
		if len(positions) > nPos && s.Name != "multiseat" {
			positions = positions[:nPos]
		}
		name := fmtSite(site.head.Root, site.slot)
		for _, pos := range positions {
			h := s.syncMsgStep(s.honestSyncMsg(site, pos))
			out = append(out, &History{Name: fmt.Sprintf("honest+dup %s pos %d", name, pos), Steps: []*Step{h, clone(h)}})
		}
		if boundary {
			// members of the outgoing committee that are not in the incoming one, on their old subnet
			cur := s.currentCommittee(sc)
			for pos, v := range cur {
				inNext := false
				for p2, w := range members {
					if w == v && p2/s.subSize() == pos/s.subSize() {
						inNext = true
					}
				}
				if !inNext {
					m := s.honestSyncMsg(site, 0)
					m.validator, m.signer, m.subnet = v, sc.KeyOf(v), uint64(pos/s.subSize())
					m.desc = "boundary:member-of-outgoing-committee-only"
					m.variant = "period-boundary-old-committee"
					out = append(out, single(fmt.Sprintf("%s %s pos %d", m.desc, name, pos), s.syncMsgStep(m)))
					break
				}
			}
		}
		for _, pos := range positions[:min(nCorrupt, len(positions))] {
			if boundary {
				break // the corruption catalogue runs on the other sites
			}
			hm := s.honestSyncMsg(site, pos)
			h := s.syncMsgStep(hm)
			var vars []*syncMsg
			add := func(desc string, f func(m *syncMsg) bool) {
				m := *hm
				m.desc = desc
				if f(&m) {
					vars = append(vars, &m)
				}
			}
			otherIdx := common.ValidatorIndex((uint64(hm.validator) + 1) % n)
			add("sig:wrong-key", func(m *syncMsg) bool { m.signer = sc.KeyOf(otherIdx); m.sigOK = false; return true })
			add("sig:wrong-domain-type", func(m *syncMsg) bool { m.dom.Type = common.DOMAIN_BEACON_ATTESTER; m.sigOK = false; return true })
			add("sig:wrong-fork-version", func(m *syncMsg) bool {
				m.dom.Version = s.otherVersion(sp.SlotToEpoch(m.slot))
				m.sigOK = false
				return true
			})
			add("sig:over-other-root", func(m *syncMsg) bool { m.signRoot = site.head.Parent; m.sigOK = false; return true })
			add("subnet:not-the-validators", func(m *syncMsg) bool {
				for sn := uint64(0); sn < syncCommitteeSubnetCount; sn++ {
					in := false
					for p2, w := range members {
						if w == m.validator && uint64(p2/s.subSize()) == sn {
							in = true
						}
					}
					if !in {
						m.subnet = sn
						return true
					}
				}
				return false
			})
			add("validator:not-in-committee", func(m *syncMsg) bool {
				for i := uint64(0); i < n; i++ {
					in := false
					for _, w := range members {
						if w == common.ValidatorIndex(i) {
							in = true
						}
					}
					if !in {
						m.validator = common.ValidatorIndex(i)
						m.signer = sc.KeyOf(m.validator)
						return true
					}
				}
				return false
			})
			add("validator:index-out-of-range", func(m *syncMsg) bool { m.validator = common.ValidatorIndex(n); m.sigOK = false; return true })
			st := slotStart(sp, site.slot)
			next := slotStart(sp, site.slot+1)
			add("clock:future-501ms", func(m *syncMsg) bool { m.now = st - clockDisparity - time.Millisecond; return m.now >= 0 })
			add("clock:future-edge-499ms", func(m *syncMsg) bool { m.now = st - clockDisparity + time.Millisecond; return m.now >= 0 })
			add("clock:next-slot-edge-499ms", func(m *syncMsg) bool { m.now = next + clockDisparity - time.Millisecond; return true })
			add("clock:next-slot-501ms", func(m *syncMsg) bool {
				m.now = next + clockDisparity + time.Millisecond
				m.variant = "previous-slot"
				return true
			})
			add("clock:next-slot-end", func(m *syncMsg) bool {
				m.now = next + slotStart(sp, 1) - time.Second
				m.variant = "previous-slot"
				return true
			})
			add("clock:two-slots-later", func(m *syncMsg) bool {
				m.now = slotStart(sp, site.slot+2) + clockDisparity + time.Millisecond
				return true
			})
			for _, vm := range vars {
				out = append(out, seqRefusedThenValid(fmt.Sprintf("%s %s pos %d", vm.desc, name, pos), s.syncMsgStep(vm), h))
			}
		}
	}
	return out
}

// ---------------------------------------------------------------- contributions

type contribMsg struct {
	slot       common.Slot
	root       common.Root
	subIndex   uint64
	positions  []int // participating positions within the subcommittee
	sigSigners []chain.KeyID
	sigRoot    common.Root
	sigDom     chain.Domain
	aggregator common.ValidatorIndex
	selKey     chain.KeyID
	selSlot    common.Slot
	selSub     uint64
	selDom     chain.Domain
	outKey     chain.KeyID
	outDom     chain.Domain
	now        time.Duration
	members    []common.ValidatorIndex
	selOK      bool
	outOK      bool
	aggSigOK   bool
	desc       string
	variant    string
}

func (m *contribMsg) copy() *contribMsg {
	c := *m
	c.positions = append([]int(nil), m.positions...)
	c.sigSigners = append([]chain.KeyID(nil), m.sigSigners...)
	return &c
}

func (s *Scen) syncSelectionProof(k chain.KeyID, slot common.Slot, sub uint64, dom chain.Domain) common.BLSSignature {
	d := altair.SyncAggregatorSelectionData{Slot: slot, SubcommitteeIndex: view.Uint64View(sub)}
	return s.V.Keys.Sign1(k, d.HashTreeRoot(tree.GetHashFn()), dom)
}

// isSyncAggregator is is_sync_committee_aggregator.
func (s *Scen) isSyncAggregator(proof common.BLSSignature) bool {
	modulo := uint64(s.spec().SYNC_COMMITTEE_SIZE) / syncCommitteeSubnetCount / targetAggregatorsPerSyncSubcomm
	if modulo < 1 {
		modulo = 1
	}
	return hashU64(proof[:])%modulo == 0
}

func (s *Scen) contribStep(m *contribMsg) *Step {
	sp := s.spec()
	sub := s.subSize()
	bits := make(altair.SyncCommitteeSubnetBits, (sub+7)/8)
	for _, p := range m.positions {
		bits[p/8] |= 1 << (uint(p) % 8)
	}
	contrib := altair.SyncCommitteeContribution{Slot: m.slot, BeaconBlockRoot: m.root, SubcommitteeIndex: view.Uint64View(m.subIndex),
		AggregationBits: bits, Signature: s.V.Keys.Sign(m.sigSigners, m.sigRoot, m.sigDom)}
	proof := s.syncSelectionProof(m.selKey, m.selSlot, m.selSub, m.selDom)
	cp := altair.ContributionAndProof{AggregatorIndex: m.aggregator, Contribution: contrib, SelectionProof: proof}
	signed := &altair.SignedContributionAndProof{Message: cp,
		Signature: s.V.Keys.Sign1(m.outKey, cp.HashTreeRoot(sp, tree.GetHashFn()), m.outDom)}
	cond := allTrue("contrib")
	cond["current_slot"] = s.isCurrentSlot(m.slot, m.now)
	cond["subcommittee_index"] = m.subIndex < syncCommitteeSubnetCount
	cond["has_participants"] = len(m.positions) > 0
	cond["is_aggregator"] = s.isSyncAggregator(proof)
	if m.subIndex < syncCommitteeSubnetCount {
		in := false
		for pos, v := range m.members {
			if v == m.aggregator && uint64(pos/sub) == m.subIndex {
				in = true
			}
		}
		cond["aggregator_in_subcommittee"] = in
	}
	cond["selection_proof"] = m.selOK
	cond["outer_signature"] = m.outOK
	cond["aggregate_signature"] = m.aggSigOK
	bnd := ""
	seats, subs := s.seatsOf(m.members, m.aggregator)
	if m.desc == "honest" && m.subIndex == syncCommitteeSubnetCount-1 {
		bnd = "subcommittee_index=count-1"
	}
	if m.desc == "honest" && len(subs) > 1 && int(m.subIndex) != seats[0]/sub {
		if bnd != "" {
			bnd += "|"
		}
		bnd += "aggregator-in-non-first-subcommittee-of-multi-seat-validator"
	}
	if m.desc == "honest" {
		bnd = joinTags(bnd, s.forkSlotTag("slot", m.slot))
	}
	return &Step{Topic: "contrib", Desc: m.desc, Variant: m.variant, Bnd: bnd, Seats: seats, SubSize: sub, Subnet: int(m.subIndex), Cond: cond,
		Key: map[string][]string{"contrib": {keySync(m.slot, m.aggregator, m.subIndex)}}, Now: m.now,
		Run: func(b *Backend) gossipval.GossipValidatorResult {
			_, res := gossipval.ValidateSyncContribAndProof(context.Background(), signed, b)
			return res
		}}
}

// honestContrib: subcommittee subIndex, aggregated by the member at position aggPos (within the
// subcommittee), all members participating unless positions is given.
func (s *Scen) honestContrib(site syncSite, subIndex uint64, aggPos int, positions []int) *contribMsg {
	sc := s.V.StateAt(site.head.Root, site.slot)
	members, boundary := s.syncCommitteeFor(sc, site.slot)
	sub := s.subSize()
	if positions == nil {
		for i := 0; i < sub; i++ {
			positions = append(positions, i)
		}
	}
	var signers []chain.KeyID
	for _, p := range positions {
		signers = append(signers, sc.KeyOf(members[int(subIndex)*sub+p]))
	}
	agg := members[int(subIndex)*sub+aggPos]
	k := sc.KeyOf(agg)
	epoch := s.spec().SlotToEpoch(site.slot)
	m := &contribMsg{slot: site.slot, root: site.head.Root, subIndex: subIndex, positions: positions, sigSigners: signers,
		sigRoot: site.head.Root, sigDom: s.domainAt(common.DOMAIN_SYNC_COMMITTEE, epoch),
		aggregator: agg, selKey: k, selSlot: site.slot, selSub: subIndex, selDom: s.domainAt(common.DOMAIN_SYNC_COMMITTEE_SELECTION_PROOF, epoch),
		outKey: k, outDom: s.domainAt(common.DOMAIN_CONTRIBUTION_AND_PROOF, epoch),
		now: slotStart(s.spec(), site.slot) + 4*time.Second, members: members, selOK: true, outOK: true, aggSigOK: true, desc: "honest"}
	if boundary {
		m.variant = "period-boundary"
	}
	return m
}

func (s *Scen) contribHistories(tier string, rng *rand.Rand) []*History {
	var out []*History
	sp := s.spec()
	if chain.ForkAtEpoch(sp, sp.SlotToEpoch(s.V.TipSlot)) < chain.Altair {
		return nil
	}
	if s.Name == "latebel" {
		return nil
	}
	sites := s.syncSites()
	sub := s.subSize()
	nCorrupt := 1
	if tier == "thorough" {
		nCorrupt = 4
	}
	nonSelCovered := false
	for _, site := range sites {
		if chain.ForkAtEpoch(sp, sp.SlotToEpoch(site.slot)) < chain.Altair {
			continue
		}
		sc := s.V.StateAt(site.head.Root, site.slot)
		n := sc.ValidatorCount()
		members, _ := s.syncCommitteeFor(sc, site.slot)
		epoch := sp.SlotToEpoch(site.slot)
		selDom := s.domainAt(common.DOMAIN_SYNC_COMMITTEE_SELECTION_PROOF, epoch)
		name := fmtSite(site.head.Root, site.slot)
		for subIndex := uint64(0); subIndex < syncCommitteeSubnetCount; subIndex++ {
			var sel, non []int
			for p := 0; p < sub; p++ {
				v := members[int(subIndex)*sub+p]
				if s.isSyncAggregator(s.syncSelectionProof(sc.KeyOf(v), site.slot, subIndex, selDom)) {
					sel = append(sel, p)
				} else {
					non = append(non, p)
				}
			}
			if len(sel) == 0 {
				continue
			}
			aggPos := sel[rng.Intn(len(sel))]
			hm := s.honestContrib(site, subIndex, aggPos, nil)
			h := s.contribStep(hm)
			tag := fmt.Sprintf("%s sub %d", name, subIndex)
			out = append(out, &History{Name: "honest+dup " + tag, Steps: []*Step{h, clone(h)}})
			// partial participation is as valid; the same aggregator again is IGNOREd
			if sub >= 2 {
				part := s.honestContrib(site, subIndex, aggPos, []int{aggPos})
				part.desc = "honest:single-participant"
				if part.variant == "" {
					part.variant = "single-participant"
				} else {
					part.variant += "+single-participant"
				}
				ps := s.contribStep(part)
				out = append(out, &History{Name: "partial-then-full " + tag, Steps: []*Step{ps, clone(h)}})
			}
			if int(subIndex) >= nCorrupt && !(s.Big && len(non) > 0 && !nonSelCovered) {
				continue
			}
			if hm.variant == "period-boundary" {
				continue // the corruption catalogue runs on the other sites
			}
			var vars []*contribMsg
			add := func(desc string, f func(m *contribMsg) bool) {
				m := hm.copy()
				m.desc = desc
				if f(m) {
					vars = append(vars, m)
				}
			}
			other := common.ValidatorIndex((uint64(hm.aggregator) + 1) % n)
			okey := sc.KeyOf(other)
			add("selection:wrong-key", func(m *contribMsg) bool { m.selKey = okey; m.selOK = false; return true })
			add("selection:wrong-domain-type", func(m *contribMsg) bool { m.selDom.Type = common.DOMAIN_SELECTION_PROOF; m.selOK = false; return true })
			add("selection:wrong-fork-version", func(m *contribMsg) bool { m.selDom.Version = s.otherVersion(epoch); m.selOK = false; return true })
			add("selection:other-subcommittee", func(m *contribMsg) bool {
				m.selSub = (m.selSub + 1) % syncCommitteeSubnetCount
				m.selOK = false
				return true
			})
			add("selection:other-slot", func(m *contribMsg) bool { m.selSlot++; m.selOK = false; return true })
			if len(non) > 0 {
				nonSelCovered = true
				add("aggregator:not-selected", func(m *contribMsg) bool {
					m.aggregator = members[int(subIndex)*sub+non[0]]
					m.selKey = sc.KeyOf(m.aggregator)
					m.outKey = m.selKey
					return true
				})
			}
			add("aggregator:other-subcommittee-member", func(m *contribMsg) bool {
				for i := uint64(0); i < n; i++ {
					cand := common.ValidatorIndex(i)
					in := false
					for p := 0; p < sub; p++ {
						if members[int(subIndex)*sub+p] == cand {
							in = true
						}
					}
					if !in {
						m.aggregator = cand
						m.selKey = sc.KeyOf(cand)
						m.outKey = m.selKey
						return true
					}
				}
				return false
			})
			add("aggregator:index-out-of-range", func(m *contribMsg) bool {
				m.aggregator = common.ValidatorIndex(n)
				m.selOK, m.outOK = false, false
				return true
			})
			add("outer:wrong-key", func(m *contribMsg) bool { m.outKey = okey; m.outOK = false; return true })
			add("outer:wrong-domain-type", func(m *contribMsg) bool {
				m.outDom.Type = common.DOMAIN_AGGREGATE_AND_PROOF
				m.outOK = false
				return true
			})
			add("outer:wrong-fork-version", func(m *contribMsg) bool { m.outDom.Version = s.otherVersion(epoch); m.outOK = false; return true })
			add("aggsig:missing-signer", func(m *contribMsg) bool {
				if len(m.sigSigners) < 2 {
					return false
				}
				m.sigSigners = m.sigSigners[1:]
				m.aggSigOK = false
				return true
			})
			add("aggsig:wrong-domain-type", func(m *contribMsg) bool {
				m.sigDom.Type = common.DOMAIN_BEACON_ATTESTER
				m.aggSigOK = false
				return true
			})
			add("aggsig:over-other-root", func(m *contribMsg) bool { m.sigRoot = site.head.Parent; m.aggSigOK = false; return true })
			add("bits:none", func(m *contribMsg) bool { m.positions = []int{}; m.sigSigners = []chain.KeyID{}; return true })
			add("subcommittee-index:=count", func(m *contribMsg) bool {
				m.subIndex = syncCommitteeSubnetCount
				m.selSub = m.subIndex
				return true
			})
			st := slotStart(sp, site.slot)
			next := slotStart(sp, site.slot+1)
			add("clock:future-501ms", func(m *contribMsg) bool { m.now = st - clockDisparity - time.Millisecond; return m.now >= 0 })
			add("clock:future-edge-499ms", func(m *contribMsg) bool { m.now = st - clockDisparity + time.Millisecond; return m.now >= 0 })
			add("clock:next-slot-edge-499ms", func(m *contribMsg) bool { m.now = next + clockDisparity - time.Millisecond; return true })
			add("clock:next-slot-501ms", func(m *contribMsg) bool {
				m.now = next + clockDisparity + time.Millisecond
				m.variant = "previous-slot"
				return true
			})
			add("clock:two-slots-later", func(m *contribMsg) bool {
				m.now = slotStart(sp, site.slot+2) + clockDisparity + time.Millisecond
				return true
			})
			for _, vm := range vars {
				out = append(out, seqRefusedThenValid(vm.desc+" "+tag, s.contribStep(vm), h))
			}
		}
	}
	if s.Big && !nonSelCovered {
		panic("big preset: every sync subcommittee member was selected as aggregator")
	}
	return out
}
