package main

import (
	"context"
	"math/rand"
	"strings"
	"time"

	blsu "github.com/protolambda/bls12-381-util"

	"verif/harness/chain"

	"github.com/protolambda/zrnt/eth2/beacon/common"
	"github.com/protolambda/zrnt/eth2/beacon/phase0"
	"github.com/protolambda/zrnt/eth2/gossipval"
	"github.com/protolambda/ztyp/tree"
)

// aggMsg is a fully explicit SignedAggregateAndProof plus what the harness knows about it.
type aggMsg struct {
	data       phase0.AttestationData
	bitsLen    int
	positions  []int
	attSigners []chain.KeyID
	attDom     chain.Domain
	aggregator common.ValidatorIndex
	// selection proof: signed by selKey over hash_tree_root(selSlot) under selDom
	selKey  chain.KeyID
	selSlot common.Slot
	selDom  chain.Domain
	// outer signature
	outKey    chain.KeyID
	outDom    chain.Domain
	outPrefix bool // sign only the first two bytes of the signing root (what zrnt verifies)
	now       time.Duration
	bad       []common.Root
	committee []common.ValidatorIndex // nil when index out of range
	cps       uint64
	selOK     bool // the selection proof is a valid signature of data.slot by the aggregator
	outOK     bool
	attSigOK  bool
	desc      string
	variant   string
}

func (m *aggMsg) copy() *aggMsg {
	c := *m
	c.positions = append([]int(nil), m.positions...)
	c.attSigners = append([]chain.KeyID(nil), m.attSigners...)
	c.bad = append([]common.Root(nil), m.bad...)
	return &c
}

// isAggregator is is_aggregator of the honest-validator specification.
func isAggregator(committeeLen int, proof common.BLSSignature) bool {
	modulo := uint64(committeeLen) / targetAggregatorsPerCommittee
	if modulo < 1 {
		modulo = 1
	}
	return hashU64(proof[:])%modulo == 0
}

func (s *Scen) selectionProof(k chain.KeyID, slot common.Slot, dom chain.Domain) common.BLSSignature {
	return s.V.Keys.Sign1(k, slot.HashTreeRoot(tree.GetHashFn()), dom)
}

// honestAgg builds the aggregate of committee (site.slot, site.index) by the member at
// position site.pos (which must be selected as aggregator; see aggregatorPositions).
func (s *Scen) honestAgg(site attSite, participants []int) *aggMsg {
	sc := s.V.StateAt(site.head.Root, site.slot)
	epoch := s.spec().SlotToEpoch(site.slot)
	cps, err := sc.CommitteeCount(epoch)
	if err != nil {
		panic(err)
	}
	comm, err := sc.Committee(site.slot, site.index)
	if err != nil {
		panic(err)
	}
	if participants == nil {
		for i := range comm {
			participants = append(participants, i)
		}
	}
	var signers []chain.KeyID
	for _, p := range participants {
		signers = append(signers, sc.KeyOf(comm[p]))
	}
	agg := comm[site.pos]
	k := sc.KeyOf(agg)
	return &aggMsg{
		data: sc.AttestationData(site.slot, site.index), bitsLen: len(comm), positions: participants,
		attSigners: signers, attDom: s.domainAt(common.DOMAIN_BEACON_ATTESTER, epoch),
		aggregator: agg, selKey: k, selSlot: site.slot, selDom: s.domainAt(common.DOMAIN_SELECTION_PROOF, epoch),
		outKey: k, outDom: s.domainAt(common.DOMAIN_AGGREGATE_AND_PROOF, epoch),
		now: s.Now, committee: comm, cps: cps, selOK: true, outOK: true, attSigOK: true, desc: "honest",
	}
}

// aggregatorPositions splits the committee positions into selected / not selected aggregators.
func (s *Scen) aggregatorPositions(head *Block, slot common.Slot, index common.CommitteeIndex) (sel, non []int) {
	sc := s.V.StateAt(head.Root, slot)
	comm, err := sc.Committee(slot, index)
	if err != nil {
		panic(err)
	}
	dom := s.domainAt(common.DOMAIN_SELECTION_PROOF, s.spec().SlotToEpoch(slot))
	for p, v := range comm {
		if isAggregator(len(comm), s.selectionProof(sc.KeyOf(v), slot, dom)) {
			sel = append(sel, p)
		} else {
			non = append(non, p)
		}
	}
	return
}

func (s *Scen) aggStep(m *aggMsg) *Step {
	sp := s.spec()
	att := phase0.Attestation{
		AggregationBits: chain.NewAttestationBits(m.bitsLen, m.positions),
		Data:            m.data,
		Signature:       chain.SignAttestationData(s.V.Keys, &m.data, m.attSigners, m.attDom),
	}
	proof := s.selectionProof(m.selKey, m.selSlot, m.selDom)
	msg := phase0.AggregateAndProof{AggregatorIndex: m.aggregator, Aggregate: att, SelectionProof: proof}
	msgRoot := msg.HashTreeRoot(sp, tree.GetHashFn())
	var outer common.BLSSignature
	if m.outPrefix {
		sr := common.ComputeSigningRoot(msgRoot, m.outDom.Compute())
		outer = common.BLSSignature(blsu.Sign(s.V.Keys.Secret(m.outKey), sr[:2]).Serialize())
	} else {
		outer = s.V.Keys.Sign1(m.outKey, msgRoot, m.outDom)
	}
	signed := &phase0.SignedAggregateAndProof{Message: msg, Signature: outer}

	cond := allTrue("agg")
	cond["committee_index"] = uint64(m.data.Index) < m.cps
	cond["bits_len"] = m.committee == nil || m.bitsLen == len(m.committee)
	cond["has_participants"] = len(m.positions) >= 1
	inComm := false
	for _, v := range m.committee {
		if v == m.aggregator {
			inComm = true
		}
	}
	cond["aggregator_in_committee"] = m.committee == nil || inComm
	cond["is_aggregator"] = m.committee == nil || isAggregator(len(m.committee), proof)
	cond["selection_proof"] = m.selOK
	cond["outer_signature"] = m.outOK && !m.outPrefix
	cond["aggregate_signature"] = m.attSigOK
	s.attChainConds(cond, &m.data, m.now, m.bad)
	keys := map[string][]string{
		"aggroot":    {keyRoot(att.HashTreeRoot(sp, tree.GetHashFn()))},
		"aggregator": {keyAtt(m.data.Target.Epoch, m.aggregator)},
	}
	variant := m.variant
	if m.outPrefix {
		if variant != "" {
			variant += "+"
		}
		variant += "outer-sig-prefix2"
	}
	bnd := ""
	if strings.HasPrefix(m.desc, "honest") {
		if chain.ForkAtEpoch(sp, m.data.Target.Epoch) < chain.ForkAtEpoch(sp, sp.SlotToEpoch(s.slotAt(m.now))) {
			bnd = bndPreFork
		} else if uint64(m.data.Index)+1 == m.cps {
			bnd = "committee_index=count-1"
		}
		bnd = joinTags(bnd, s.forkEpochTag("slot", s.spec().SlotToEpoch(m.data.Slot)))
	}
	if strings.HasPrefix(m.desc, "clock:old-") && chain.ForkAtEpoch(s.spec(), s.spec().SlotToEpoch(m.data.Slot)) >= chain.Deneb {
		bnd = joinTags(bnd, "window-end-deneb-rule:"+strings.TrimSuffix(strings.TrimPrefix(m.desc, "clock:old-"), "+outer-prefix"))
	}
	return &Step{Topic: "agg", Desc: m.desc, Variant: variant, Bnd: bnd, Cond: cond, Key: keys, Now: m.now, Bad: m.bad,
		Run: func(b *Backend) gossipval.GossipValidatorResult {
			_, res := gossipval.ValidateAggregateAndProof(context.Background(), signed, b)
			return res
		}}
}

func (s *Scen) aggVariants(site attSite, h *aggMsg, nonSel []int) []*aggMsg {
	var out []*aggMsg
	add := func(desc string, f func(m *aggMsg) bool) {
		m := h.copy()
		m.desc = desc
		if f(m) {
			out = append(out, m)
		}
	}
	// the same corruption with an outer signature made over the 2-byte prefix of the signing
	// root: keeps every check after the outer-signature check reachable on a zrnt that verifies
	// the prefix only (known finding), and is just one more failing condition otherwise.
	addBoth := func(desc string, f func(m *aggMsg) bool) {
		add(desc, f)
		add(desc+"+outer-prefix", func(m *aggMsg) bool { m.outPrefix = true; return f(m) })
	}
	v := s.V
	sp := s.spec()
	epoch := h.data.Target.Epoch
	sc := v.StateAt(site.head.Root, site.slot)
	n := sc.ValidatorCount()
	other := common.ValidatorIndex((uint64(h.aggregator) + 1) % n)
	okey := sc.KeyOf(other)

	add("selection:wrong-key", func(m *aggMsg) bool { m.selKey = okey; m.selOK = false; return true })
	add("selection:wrong-domain-type", func(m *aggMsg) bool { m.selDom.Type = common.DOMAIN_AGGREGATE_AND_PROOF; m.selOK = false; return true })
	add("selection:wrong-fork-version", func(m *aggMsg) bool { m.selDom.Version = s.otherVersion(epoch); m.selOK = false; return true })
	add("selection:other-slot", func(m *aggMsg) bool { m.selSlot++; m.selOK = false; return true })
	if len(nonSel) > 0 {
		add("aggregator:not-selected", func(m *aggMsg) bool {
			m.aggregator = h.committee[nonSel[0]]
			m.selKey = sc.KeyOf(m.aggregator)
			m.outKey = m.selKey
			return true
		})
	}
	// a validator of another committee with its own valid proof and outer signature
	add("aggregator:not-in-committee", func(m *aggMsg) bool {
		for i := uint64(0); i < n; i++ {
			cand := common.ValidatorIndex(i)
			in := false
			for _, x := range h.committee {
				if x == cand {
					in = true
				}
			}
			fv := sc.Validator(cand)
			if !in && fv.IsActive(epoch) {
				m.aggregator = cand
				m.selKey = sc.KeyOf(cand)
				m.outKey = m.selKey
				return true
			}
		}
		return false
	})
	add("aggregator:index-out-of-range", func(m *aggMsg) bool {
		m.aggregator = common.ValidatorIndex(n)
		m.selOK, m.outOK = false, false
		return true
	})
	add("outer:wrong-key", func(m *aggMsg) bool { m.outKey = okey; m.outOK = false; return true })
	add("outer:wrong-domain-type", func(m *aggMsg) bool { m.outDom.Type = common.DOMAIN_SELECTION_PROOF; m.outOK = false; return true })
	add("outer:wrong-fork-version", func(m *aggMsg) bool { m.outDom.Version = s.otherVersion(epoch); m.outOK = false; return true })
	add("outer:over-root-prefix", func(m *aggMsg) bool { m.outPrefix = true; return true })

	addBoth("aggsig:missing-signer", func(m *aggMsg) bool {
		if len(m.attSigners) < 2 {
			return false
		}
		m.attSigners = m.attSigners[1:]
		m.attSigOK = false
		return true
	})
	addBoth("aggsig:wrong-domain-type", func(m *aggMsg) bool { m.attDom.Type = common.DOMAIN_BEACON_PROPOSER; m.attSigOK = false; return true })
	add("aggsig:wrong-fork-version", func(m *aggMsg) bool { m.attDom.Version = s.otherVersion(epoch); m.attSigOK = false; return true })
	addBoth("bits:none", func(m *aggMsg) bool { m.positions = []int{}; m.attSigners = []chain.KeyID{}; return true })
	addBoth("bits:len+1", func(m *aggMsg) bool { m.bitsLen++; return true })
	if len(h.positions) > 0 && h.positions[len(h.positions)-1] < len(h.committee)-1 {
		addBoth("bits:len-1", func(m *aggMsg) bool { m.bitsLen--; return true })
	}
	add("committee-index:=count", func(m *aggMsg) bool {
		m.data.Index = common.CommitteeIndex(m.cps)
		m.committee = nil
		return true
	})
	add("target-epoch:+1", func(m *aggMsg) bool {
		m.data.Target.Epoch++
		m.attDom = s.domainAt(common.DOMAIN_BEACON_ATTESTER, m.data.Target.Epoch)
		return true
	})
	if epoch > 0 {
		add("target-epoch:-1", func(m *aggMsg) bool {
			m.data.Target.Epoch--
			m.attDom = s.domainAt(common.DOMAIN_BEACON_ATTESTER, m.data.Target.Epoch)
			return true
		})
	}
	add("head:unknown", func(m *aggMsg) bool { m.data.BeaconBlockRoot = unknownRoot("head", uint64(site.slot)); return true })
	addBoth("head:bad", func(m *aggMsg) bool { m.bad = []common.Root{m.data.BeaconBlockRoot}; return true })
	add("target:unknown-root", func(m *aggMsg) bool { m.data.Target.Root = unknownRoot("target", uint64(epoch)); return true })
	if s.Side != nil && s.Side.Root != h.data.Target.Root && !s.isAncestor(s.Side.Root, site.head.Root) {
		addBoth("target:other-branch", func(m *aggMsg) bool {
			m.data.Target.Root = s.Side.Root
			m.variant = "target-other-branch"
			return true
		})
	}
	if cb, ok := v.Blocks[h.data.Target.Root]; ok && cb.Env != nil {
		if _, ok := v.Blocks[cb.Parent]; ok {
			addBoth("target:older-ancestor", func(m *aggMsg) bool {
				m.data.Target.Root = cb.Parent
				m.variant = "target-older-ancestor"
				return true
			})
		}
	}
	st := slotStart(sp, site.slot)
	addBoth("clock:future-501ms", func(m *aggMsg) bool { m.now = st - clockDisparity - time.Millisecond; return m.now >= 0 })
	addBoth("clock:future-edge-499ms", func(m *aggMsg) bool { m.now = st - clockDisparity + time.Millisecond; return m.now >= 0 })
	if chain.ForkAtEpoch(sp, epoch) < chain.Deneb {
		last := slotStart(sp, site.slot+attestationPropagationSlotRange+1)
		addBoth("clock:old-edge-in", func(m *aggMsg) bool { m.now = last + clockDisparity - time.Millisecond; return true })
		addBoth("clock:old-501ms", func(m *aggMsg) bool { m.now = last + clockDisparity + time.Millisecond; return true })
	} else {
		last := slotStart(sp, mustV(sp.EpochStartSlot(epoch+2)))
		addBoth("clock:old-edge-in", func(m *aggMsg) bool { m.now = last + clockDisparity - time.Millisecond; return true })
		addBoth("clock:old-501ms", func(m *aggMsg) bool {
			m.now = last + clockDisparity + time.Millisecond
			m.variant = "deneb-window"
			return true
		})
	}
	return out
}

func (s *Scen) aggHistories(tier string, rng *rand.Rand) []*History {
	var out []*History
	if s.Name == "p0early" || s.Name == "altmid" || s.Name == "latebel" || s.Name == "late1" {
		return nil
	}
	back := common.Slot(2 * uint64(s.spec().SLOTS_PER_EPOCH))
	if s.Name == "nofin" {
		back = 12
	}
	// committee sites (position 0 as placeholder; the aggregator is chosen below)
	type csite struct {
		head  *Block
		slot  common.Slot
		index common.CommitteeIndex
	}
	seenC := map[csite]bool{}
	var csites []csite
	for _, st := range s.attSites(back) {
		c := csite{st.head, st.slot, st.index}
		if !seenC[c] {
			seenC[c] = true
			csites = append(csites, c)
		}
	}
	nHonest, nCorrupt := 16, 3
	if tier == "thorough" {
		nHonest, nCorrupt = 120, 16
	}
	if s.Big {
		nCorrupt = 2
	}
	if s.Name == "p0lag" {
		nHonest, nCorrupt = 4, 1
	}
	mk := func(c csite) (attSite, *aggMsg, []int, []int, bool) {
		sel, non := s.aggregatorPositions(c.head, c.slot, c.index)
		if len(sel) == 0 {
			return attSite{}, nil, nil, nil, false
		}
		site := attSite{c.head, c.slot, c.index, sel[rng.Intn(len(sel))]}
		return site, s.honestAgg(site, nil), sel, non, true
	}
	for _, c := range pick(rng, csites, nHonest) {
		site, hm, _, _, ok := mk(c)
		if !ok {
			continue
		}
		h := s.aggStep(hm)
		out = append(out, &History{Name: "honest+dup " + fmtSite(site.head.Root, site.slot, "/", site.index, "/", site.pos),
			Steps: []*Step{h, clone(h)}})
	}
	// aggregates dated before the last fork boundary, received after it
	{
		var as []attSite
		for _, c := range csites {
			as = append(as, attSite{c.head, c.slot, c.index, 0})
		}
		for _, st := range s.preForkSites(as, 3) {
			site, hm, _, _, ok := mk(csite{st.head, st.slot, st.index})
			if !ok {
				continue
			}
			h := s.aggStep(hm)
			out = append(out, &History{Name: "pre-fork+dup " + fmtSite(site.head.Root, site.slot, "/", site.index), Steps: []*Step{h, clone(h)}})
		}
	}
	nonSelCovered := false
	for _, c := range pick(rng, csites, nCorrupt) {
		site, hm, sel, non, ok := mk(c)
		if !ok {
			continue
		}
		if len(non) > 0 {
			nonSelCovered = true
		}
		h := s.aggStep(hm)
		for _, vm := range s.aggVariants(site, hm, non) {
			out = append(out, seqRefusedThenValid(vm.desc+" "+fmtSite(site.head.Root, site.slot), s.aggStep(vm), h))
		}
		// same aggregator, other aggregate (fewer participants): IGNOREd after H (aggregator seen)
		if len(hm.committee) >= 2 {
			m2 := s.honestAgg(site, []int{site.pos})
			m2.desc = "honest:same-aggregator-other-aggregate"
			h2 := s.aggStep(m2)
			out = append(out, &History{Name: "same-aggregator " + fmtSite(site.head.Root, site.slot), Steps: []*Step{h, h2}})
			out = append(out, &History{Name: "same-aggregator-rev " + fmtSite(site.head.Root, site.slot), Steps: []*Step{clone(h2), clone(h)}})
		}
		// other aggregator, same aggregate: IGNOREd after H (aggregate root seen)
		if len(sel) >= 2 {
			p2 := sel[0]
			if p2 == site.pos {
				p2 = sel[1]
			}
			site2 := site
			site2.pos = p2
			m3 := s.honestAgg(site2, nil)
			m3.desc = "honest:other-aggregator-same-aggregate"
			out = append(out, &History{Name: "same-aggregate " + fmtSite(site.head.Root, site.slot), Steps: []*Step{clone(h), s.aggStep(m3)}})
		}
	}
	if s.Big && !nonSelCovered {
		panic("big preset: every committee member was selected as aggregator")
	}
	if s.Stale != nil {
		sel, _ := s.aggregatorPositions(s.Stale, s.Stale.Slot, 0)
		if len(sel) > 0 {
			m := s.honestAgg(attSite{s.Stale, s.Stale.Slot, 0, sel[0]}, nil)
			m.desc = "head:not-in-finalized-subtree"
			out = append(out, single(m.desc, s.aggStep(m)))
			m2 := m.copy()
			m2.outPrefix = true
			m2.desc += "+outer-prefix"
			out = append(out, single(m2.desc, s.aggStep(m2)))
		}
	}
	return out
}
