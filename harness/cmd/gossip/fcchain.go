package main

// Subcommand fcchain: REAL-CHAIN driver for the fork-choice family (C09/C10/C11).
//
//	gossip fcchain -seed S -tier quick|thorough -outdir D     (prints a JSON manifest on stdout)
//
// Histories are built with harness/chain (real states, real signed blocks and attestations): a main
// chain with finality, skipped slots (incl. skipped epoch starts), 2-3 competing branches made with
// Chain.Copy whose attesters are disjoint validator sets, branch blocks delivered late (parents
// first), a stretch without finality. The REAL forkchoice.ProtoForkChoice is then fed the way a
// client feeds it: per slot tick the blocks delivered at that tick (ProcessBlock with the post-state
// checkpoints epochs, ProcessAttestation for every attester of every included attestation,
// UpdateJustified when the block's state is ahead of the store), ProcessSlot on the head for empty
// slots, gossip-only votes, and Head() + queries after every import.
//
// The output is EXACTLY the ndjson event format of harness/cmd/fc (Op/Ret/Obs below are copies),
// one file per history, validated by spec/ForkChoiceTrace.tla. Roots are mapped to small integers
// ORDER-PRESERVINGLY (all roots of the history, plus the fake roots of negative queries, sorted
// bytewise, rank 1..n; 0 = zero root) because the specification breaks ties by root order; the
// fork choice itself is fed the real 32-byte roots.

import (
	"bufio"
	"bytes"
	"context"
	"encoding/json"
	"flag"
	"fmt"
	"math/rand"
	"os"
	"path/filepath"
	"sort"
	"sync"
	"time"

	"verif/harness/chain"

	"github.com/protolambda/zrnt/eth2/beacon/common"
	"github.com/protolambda/zrnt/eth2/beacon/phase0"
	"github.com/protolambda/zrnt/eth2/forkchoice"
	"github.com/protolambda/zrnt/eth2/forkchoice/proto"
)

// ---------------------------------------------------------------- event format of harness/cmd/fc

type fcCP struct {
	Epoch int `json:"epoch"`
	Root  int `json:"root"`
}

type fcOp struct {
	Ev        string  `json:"ev"`
	H         int     `json:"h"`
	SPE       int     `json:"spe,omitempty"`
	NilSink   int     `json:"nilsink"`
	Parent    int     `json:"parent"`
	Root      int     `json:"root"`
	Slot      int     `json:"slot"`
	JE        int     `json:"je"`
	FE        int     `json:"fe"`
	V         int     `json:"v"`
	Trigger   int     `json:"trigger"`
	J         fcCP    `json:"j"`
	F         fcCP    `json:"f"`
	Bal       []int   `json:"bal"`
	BalErr    int     `json:"balerr"`
	SinkFail  int     `json:"sinkfail"`
	Q         string  `json:"q"`
	Anchor    int     `json:"anchor"`
	WithBlock int     `json:"withblock"`
	UsePar    int     `json:"usepar"`
	UseSlot   int     `json:"useslot"`
	ObsHead   int     `json:"obshead"`
	Out       string  `json:"out"`
	Ret       *fcRet  `json:"ret"`
	Pruned    [][]int `json:"pruned"`
	Obs       *fcObs  `json:"obs"`
	Detail    string  `json:"detail,omitempty"`
}

type fcRet struct {
	Ok      int     `json:"ok"`
	Root    int     `json:"root"`
	Slot    int     `json:"slot"`
	Unknown int     `json:"unknown"`
	In      int     `json:"in"`
	Chain   [][]int `json:"chain"`
	Canon   [][]int `json:"canon"`
	Non     [][]int `json:"non"`
}

type fcObs struct {
	Table   [][]int `json:"table"`
	HasHead int     `json:"hashead"`
	Head    []int   `json:"head"`
	Nodes   [][]int `json:"nodes"`
	Just    []int   `json:"just"`
	Fin     []int   `json:"fin"`
	Pin     []int   `json:"pin"`
}

// fcTarget is the object under test with the order-preserving root <-> rank mapping.
type fcTarget struct {
	fc     forkchoice.Forkchoice
	arr    *proto.ProtoArray
	pruned [][]int
	dead   bool
	// the node table (verif hook) is logged with a head observation only when wanted: checking it costs the
	// specification O(nodes^2) per observation, so real-chain histories log it after every checkpoint update and
	// for a sample of the other head observations
	wantTable bool
	rank      map[common.Root]int
	roots     []common.Root // roots[rank]
}

func (t *fcTarget) mkRoot(r int) common.Root {
	if r <= 0 || r >= len(t.roots) {
		return common.Root{}
	}
	return t.roots[r]
}

func (t *fcTarget) rootID(r common.Root) int {
	if r == (common.Root{}) {
		return 0
	}
	if k, ok := t.rank[r]; ok {
		return k
	}
	return -1
}

func (t *fcTarget) sink(ctx context.Context, ref forkchoice.NodeRef, canonical bool) error {
	t.pruned = append(t.pruned, []int{t.rootID(ref.Root), int(ref.Slot), b2i(canonical)})
	return nil
}

func fcGuarded(fn func()) (out string, detail string) {
	done := make(chan [2]string, 1)
	go func() {
		defer func() {
			if r := recover(); r != nil {
				done <- [2]string{"panic", fmt.Sprint(r)}
			}
		}()
		fn()
		done <- [2]string{"ok", ""}
	}()
	select {
	case o := <-done:
		return o[0], o[1]
	case <-time.After(3 * time.Second):
	}
	// scheduling delay on a loaded machine is not a blocked call: extend unless timeouts are systematic
	if fcConfirmedTimeouts < 3 {
		select {
		case o := <-done:
			return o[0], o[1]
		case <-time.After(27 * time.Second):
		}
	}
	fcConfirmedTimeouts++
	return "timeout", ""
}

var fcConfirmedTimeouts int

func fcGweis(b []int) []forkchoice.Gwei {
	out := make([]forkchoice.Gwei, len(b))
	for i, x := range b {
		out[i] = forkchoice.Gwei(x)
	}
	return out
}

func (t *fcTarget) refRet(ref forkchoice.NodeRef, err error) *fcRet {
	if err != nil {
		return &fcRet{Ok: 0}
	}
	return &fcRet{Ok: 1, Root: t.rootID(ref.Root), Slot: int(ref.Slot)}
}

func (t *fcTarget) refs(rs []forkchoice.NodeRef) [][]int {
	out := [][]int{}
	for _, r := range rs {
		out = append(out, []int{t.rootID(r.Root), int(r.Slot)})
	}
	sort.Slice(out, func(i, j int) bool {
		if out[i][0] != out[j][0] {
			return out[i][0] < out[j][0]
		}
		return out[i][1] < out[j][1]
	})
	return out
}

func (t *fcTarget) table() [][]int {
	nodes, off := t.arr.VerifNodes()
	ref := func(i forkchoice.NodeIndex) (int, int) {
		if i == proto.NONE || i < off || int(i-off) >= len(nodes) {
			if i != proto.NONE {
				return -1, -1
			}
			return 0, 0
		}
		n := nodes[i-off]
		return t.rootID(n.Ref.Root), int(n.Ref.Slot)
	}
	out := make([][]int, 0, len(nodes))
	for _, n := range nodes {
		bcr, bcs := ref(n.BestChild)
		bdr, bds := ref(n.BestDescendant)
		out = append(out, []int{t.rootID(n.Ref.Root), int(n.Ref.Slot), int(n.Weight), bcr, bcs, bdr, bds,
			b2i(n.ForkchoiceParent != proto.NONE)})
	}
	return out
}

func (t *fcTarget) observe(op *fcOp) {
	obs := &fcObs{Head: []int{0, 0, 0}, Nodes: [][]int{}, Pin: []int{}}
	var keys []forkchoice.NodeRef
	for k := range t.arr.Indices() {
		keys = append(keys, k)
	}
	obs.Nodes = t.refs(keys)
	out, _ := fcGuarded(func() {
		j := t.fc.Justified()
		f := t.fc.Finalized()
		obs.Just = []int{int(j.Epoch), t.rootID(j.Root)}
		obs.Fin = []int{int(f.Epoch), t.rootID(f.Root)}
		if p := t.fc.Pin(); p != nil {
			obs.Pin = []int{t.rootID(p.Root), int(p.Slot)}
		}
	})
	if out != "ok" {
		op.Out = out
		op.Detail = "observing checkpoints: " + out
		t.dead = true
		op.Obs = obs
		return
	}
	if op.ObsHead != 0 {
		out, det := fcGuarded(func() {
			h, err := t.fc.Head()
			obs.HasHead = 1
			if err == nil {
				obs.Head = []int{1, t.rootID(h.Root), int(h.Slot)}
				if t.wantTable {
					obs.Table = t.table()
				}
			} else {
				op.Detail += " head: " + err.Error()
			}
		})
		if out != "ok" {
			obs.HasHead = 1
			obs.Head = []int{-1, 0, 0}
			op.Detail = "Head(): " + out + " " + det
			t.dead = true
		}
	}
	op.Obs = obs
}

func (t *fcTarget) exec(op *fcOp) {
	op.Pruned = [][]int{}
	var fn func()
	switch op.Ev {
	case "ProcessSlot":
		fn = func() {
			t.fc.ProcessSlot(t.mkRoot(op.Parent), common.Slot(op.Slot), common.Epoch(op.JE), common.Epoch(op.FE))
			op.Ret = &fcRet{Ok: 1}
		}
	case "ProcessBlock":
		fn = func() {
			ok := t.fc.ProcessBlock(t.mkRoot(op.Parent), t.mkRoot(op.Root), common.Slot(op.Slot), common.Epoch(op.JE), common.Epoch(op.FE))
			op.Ret = &fcRet{Ok: b2i(ok)}
		}
	case "ProcessAttestation":
		fn = func() {
			ok := t.fc.ProcessAttestation(common.ValidatorIndex(op.V), t.mkRoot(op.Root), common.Slot(op.Slot))
			op.Ret = &fcRet{Ok: b2i(ok)}
		}
	case "UpdateJustified":
		fn = func() {
			t.pruned = [][]int{}
			err := t.fc.UpdateJustified(context.Background(), t.mkRoot(op.Trigger),
				common.Checkpoint{Epoch: common.Epoch(op.J.Epoch), Root: t.mkRoot(op.J.Root)},
				common.Checkpoint{Epoch: common.Epoch(op.F.Epoch), Root: t.mkRoot(op.F.Root)},
				func() ([]forkchoice.Gwei, error) { return fcGweis(op.Bal), nil })
			op.Ret = &fcRet{Ok: b2i(err == nil)}
			if err != nil {
				op.Detail = err.Error()
			}
		}
	case "Query":
		switch op.Q {
		case "Head":
			fn = func() { h, err := t.fc.Head(); op.Ret = t.refRet(h, err) }
		case "FindHead":
			fn = func() { h, err := t.fc.FindHead(t.mkRoot(op.Anchor), common.Slot(op.Slot)); op.Ret = t.refRet(h, err) }
		case "CanonicalChain":
			fn = func() {
				ch, err := t.fc.CanonicalChain(t.mkRoot(op.Anchor), common.Slot(op.Slot))
				r := &fcRet{Ok: b2i(err == nil), Chain: [][]int{}}
				if err == nil {
					for _, e := range ch {
						r.Chain = append(r.Chain, []int{t.rootID(e.Root), int(e.Slot), t.rootID(e.ParentRoot)})
					}
				}
				op.Ret = r
			}
		case "InSubtree":
			fn = func() {
				u, in := t.fc.InSubtree(t.mkRoot(op.Anchor), t.mkRoot(op.Root))
				op.Ret = &fcRet{Ok: 1, Unknown: b2i(u), In: b2i(in)}
			}
		case "ClosestToSlot":
			fn = func() {
				r, err := t.fc.ClosestToSlot(t.mkRoot(op.Anchor), common.Slot(op.Slot))
				op.Ret = t.refRet(r, err)
			}
		case "CanonAtSlot":
			fn = func() {
				r, err := t.fc.CanonAtSlot(t.mkRoot(op.Anchor), common.Slot(op.Slot), op.WithBlock != 0)
				op.Ret = t.refRet(r, err)
			}
		case "GetSlot":
			fn = func() {
				s, ok := t.fc.GetSlot(t.mkRoot(op.Root))
				op.Ret = &fcRet{Ok: b2i(ok), Slot: int(s)}
				if !ok {
					op.Ret.Slot = 0
				}
			}
		case "Search":
			fn = func() {
				var pr *forkchoice.Root
				var sl *forkchoice.Slot
				if op.UsePar != 0 {
					r := t.mkRoot(op.Parent)
					pr = &r
				}
				if op.UseSlot != 0 {
					s := common.Slot(op.FE) // the slot filter travels in "fe" (as in harness/cmd/fc)
					sl = &s
				}
				non, canon, err := t.fc.Search(forkchoice.NodeRef{Root: t.mkRoot(op.Anchor), Slot: common.Slot(op.Slot)}, pr, sl)
				r := &fcRet{Ok: b2i(err == nil), Canon: [][]int{}, Non: [][]int{}}
				if err == nil {
					r.Canon = t.refs(canon)
					r.Non = t.refs(non)
				}
				op.Ret = r
			}
		}
	}
	if fn == nil {
		op.Out = "ok"
		op.Detail = "unknown op"
		return
	}
	out, det := fcGuarded(fn)
	op.Out = out
	if out != "ok" {
		op.Ret = &fcRet{}
		op.Detail = det
		t.dead = true
	}
	if op.Ev == "UpdateJustified" {
		op.Pruned = t.pruned
	}
	if op.Ev != "Query" && !t.dead {
		t.observe(op)
	}
}

func fcNormalize(op *fcOp) {
	if op.Ret == nil {
		op.Ret = &fcRet{}
	}
	if op.Ret.Chain == nil {
		op.Ret.Chain = [][]int{}
	}
	if op.Ret.Canon == nil {
		op.Ret.Canon = [][]int{}
	}
	if op.Ret.Non == nil {
		op.Ret.Non = [][]int{}
	}
	if op.Pruned == nil {
		op.Pruned = [][]int{}
	}
	if op.Bal == nil {
		op.Bal = []int{}
	}
	if op.Obs == nil {
		op.Obs = &fcObs{}
	}
	o := op.Obs
	if o.Head == nil {
		o.Head = []int{0, 0, 0}
	}
	if o.Nodes == nil {
		o.Nodes = [][]int{}
	}
	if o.Table == nil {
		o.Table = [][]int{}
	}
	if o.Just == nil {
		o.Just = []int{0, 0}
	}
	if o.Fin == nil {
		o.Fin = []int{0, 0}
	}
	if o.Pin == nil {
		o.Pin = []int{}
	}
}

// ---------------------------------------------------------------- history construction

type fcBlock struct {
	env       *common.BeaconBlockEnvelope
	post      *chain.StateCtx
	branch    string
	deliverAt common.Slot
	order     int
}

type fcHistory struct {
	name    string
	spec    *common.Spec
	genesis *chain.StateCtx
	blocks  []*fcBlock
	last    common.Slot // last slot tick
}

type fcParams struct {
	preset    string
	forks     chain.ForkSchedule
	vals      int
	epochs    int
	forkAt    common.Slot  // main block slot the branches fork from
	forkLen   common.Slot  // slots the competition lasts
	shareB    float64      // share of the validators attesting on branch B during the competition
	winnerB   bool         // the chain continues on B afterwards
	delay     common.Slot  // B's blocks reach the node this many slots late
	third     bool         // a third, short branch
	offFrom   common.Epoch // stretch without finality: [offFrom, offTo)
	offTo     common.Epoch
	skips     map[common.Slot]bool
	nameExtra string
}

func fcRandomParams(rng *rand.Rand, k int, tier string) fcParams {
	p := fcParams{preset: chain.PresetS1, vals: 16, forks: chain.Phase0Only}
	if k%3 == 1 {
		p.preset, p.vals = chain.PresetS4, 8
	}
	switch (k / 3) % 3 {
	case 1:
		p.forks = chain.Forks(0, chain.FarFuture, chain.FarFuture, chain.FarFuture)
	case 2:
		p.forks = chain.Forks(2, chain.FarFuture, chain.FarFuture, chain.FarFuture)
	}
	spe := 4
	if p.preset == chain.PresetS4 {
		spe = 2
	}
	p.epochs = 6 + rng.Intn(3)
	if p.preset == chain.PresetS4 {
		p.epochs += 3
	}
	total := p.epochs * spe
	p.forkAt = common.Slot(2*spe + rng.Intn(total/2))
	p.forkLen = common.Slot(2 + rng.Intn(2*spe))
	p.shareB = []float64{0.3, 0.45, 0.55, 0.7}[rng.Intn(4)]
	p.winnerB = p.shareB > 0.5
	if rng.Intn(5) == 0 {
		p.winnerB = !p.winnerB // the lighter branch is extended anyway; the head follows once the votes move
	}
	p.delay = common.Slot(rng.Intn(4))
	p.third = rng.Intn(2) == 0
	if k%6 == 5 {
		// the long stretch without finality
		p.offFrom = common.Epoch(1 + rng.Intn(2))
		p.offTo = p.offFrom + 4
		if int(p.offTo) > p.epochs-2 {
			p.epochs = int(p.offTo) + 2
		}
	}
	p.skips = map[common.Slot]bool{}
	total = p.epochs * spe
	// an empty epoch start, and a few more empty slots
	p.skips[common.Slot(spe*(2+rng.Intn(p.epochs-2)))] = true
	for i := 0; i < 1+rng.Intn(3); i++ {
		p.skips[common.Slot(2+rng.Intn(total-2))] = true
	}
	return p
}

// fcBuild builds the blocks of one history.
func fcBuild(p fcParams, rng *rand.Rand) (*fcHistory, error) {
	spec := chain.NewSpec(p.preset, p.forks)
	b, c, err := newBuild(spec, chain.GenesisOpts{Validators: p.vals})
	if err != nil {
		return nil, err
	}
	spe := spec.SLOTS_PER_EPOCH
	last := common.Slot(p.epochs) * spe
	var setB, setM []common.ValidatorIndex
	perm := rng.Perm(p.vals)
	nB := int(float64(p.vals)*p.shareB + 0.5)
	for i, v := range perm {
		if i < nB {
			setB = append(setB, common.ValidatorIndex(v))
		} else {
			setM = append(setM, common.ValidatorIndex(v))
		}
	}
	offline := func(slot common.Slot) []common.ValidatorIndex {
		e := spec.SlotToEpoch(slot)
		if p.offTo > p.offFrom && e >= p.offFrom && e < p.offTo {
			// 40 % offline: no justification
			return append([]common.ValidatorIndex(nil), setOf(perm, p.vals*2/5)...)
		}
		return nil
	}
	step := func(slot common.Slot, off []common.ValidatorIndex, skip bool, g byte) chain.StepPlan {
		st := chain.StepPlan{Slot: slot, Seed: int64(slot)*31 + int64(g), Skip: skip, Offline: off}
		if g != 0 {
			gr := graffiti(g)
			st.Block = &chain.BlockPlan{Graffiti: gr}
		}
		return st
	}
	run := func(ch *chain.Chain, sc *chain.Scenario, branch string, steps []chain.StepPlan) error {
		for _, st := range steps {
			n := len(ch.Blocks)
			r := sc.Step(st)
			if r.Err != nil {
				return fmt.Errorf("branch %s slot %d: %w", branch, st.Slot, r.Err)
			}
			if r.Kind == "dead" {
				return fmt.Errorf("branch %s slot %d: registry ran empty", branch, st.Slot)
			}
			if len(ch.Blocks) > n {
				b.items = append(b.items, item{env: ch.Blocks[len(ch.Blocks)-1], post: ch.StateCtx.Copy(false), branch: branch})
			}
		}
		return nil
	}
	mainSc := chain.NewScenario(c)
	mainSc.KeepStates = false
	var steps []chain.StepPlan
	for s := common.Slot(1); s <= p.forkAt; s++ {
		steps = append(steps, step(s, offline(s), p.skips[s] && s != p.forkAt, 0))
	}
	if err := run(c, mainSc, "main", steps); err != nil {
		return nil, err
	}
	// the competition: disjoint attester sets, different empty slots (so mostly different proposers)
	cb := c.Copy()
	bSc := chain.NewScenario(cb)
	bSc.KeepStates = false
	end := p.forkAt + p.forkLen
	if end > last-spe {
		end = last - spe
	}
	steps = nil
	var bsteps []chain.StepPlan
	for s := p.forkAt + 1; s <= end; s++ {
		steps = append(steps, step(s, setB, s == p.forkAt+2, 0))
		bsteps = append(bsteps, step(s, setM, s == p.forkAt+1 && end > p.forkAt+1, 11))
	}
	if err := run(c, mainSc, "main", steps); err != nil {
		return nil, err
	}
	if err := run(cb, bSc, "B", bsteps); err != nil {
		return nil, err
	}
	if p.third && end >= p.forkAt+2 {
		cc := c.Copy()
		// a third branch from the main chain inside the window, attested by two validators only
		few := map[common.ValidatorIndex]bool{setM[0]: true}
		if len(setM) > 1 {
			few[setM[1]] = true
		}
		var off []common.ValidatorIndex
		for v := 0; v < p.vals; v++ {
			if !few[common.ValidatorIndex(v)] {
				off = append(off, common.ValidatorIndex(v))
			}
		}
		cSc := chain.NewScenario(cc)
		cSc.KeepStates = false
		if err := run(cc, cSc, "C", []chain.StepPlan{step(end+1, off, false, 12), step(end+2, off, false, 12)}); err != nil {
			return nil, err
		}
	}
	// everybody continues on the winner
	w, wSc, wn := c, mainSc, "main"
	if p.winnerB {
		w, wSc, wn = cb, bSc, "B"
	}
	steps = nil
	for s := end + 1; s <= last; s++ {
		steps = append(steps, step(s, offline(s), p.skips[s], 0))
	}
	if err := run(w, wSc, wn, steps); err != nil {
		return nil, err
	}
	h := &fcHistory{spec: spec, genesis: b.genesis.Genesis.Copy(false), last: last + 1}
	// delivery: on time, except branch B's blocks of the competition window (late, parents first)
	lastAt := map[string]common.Slot{}
	for i, it := range b.items {
		at := it.env.Slot
		if it.branch == "B" && it.env.Slot <= end {
			at += p.delay
		}
		if it.branch == "C" {
			at += 1
		}
		if at < lastAt[it.branch] {
			at = lastAt[it.branch]
		}
		lastAt[it.branch] = at
		h.blocks = append(h.blocks, &fcBlock{env: it.env, post: it.post, branch: it.branch, deliverAt: at, order: i})
	}
	// parents first: a block is never delivered before its parent
	at := map[common.Root]common.Slot{}
	for _, bl := range h.blocks {
		if pa, ok := at[bl.env.ParentRoot]; ok && bl.deliverAt < pa {
			bl.deliverAt = pa
		}
		at[bl.env.BlockRoot] = bl.deliverAt
	}
	sort.SliceStable(h.blocks, func(i, j int) bool {
		if h.blocks[i].deliverAt != h.blocks[j].deliverAt {
			return h.blocks[i].deliverAt < h.blocks[j].deliverAt
		}
		return h.blocks[i].env.Slot < h.blocks[j].env.Slot
	})
	return h, nil
}

func setOf(perm []int, n int) []common.ValidatorIndex {
	var out []common.ValidatorIndex
	for i := len(perm) - 1; i >= 0 && len(out) < n; i-- {
		out = append(out, common.ValidatorIndex(perm[i]))
	}
	return out
}

// ---------------------------------------------------------------- driving the fork choice

type fcStats struct {
	Events     int `json:"events"`
	Blocks     int `json:"blocks"`
	Votes      int `json:"votes"`
	VotesOK    int `json:"votes_accepted"`
	Updates    int `json:"update_justified"`
	Prunes     int `json:"prunes"`
	PrunedN    int `json:"pruned_nodes"`
	Switches   int `json:"branch_switches"`
	HeadErrors int `json:"head_errors"`
	GapStarts  int `json:"justified_gap_starts"`
	LateBlocks int `json:"late_blocks"`
	Queries    int `json:"queries"`
	MaxNodes   int `json:"max_nodes"`
	Tables     int `json:"node_tables"`
}

type fcDriver struct {
	h           *fcHistory
	t           *fcTarget
	rng         *rand.Rand
	hid         int
	out         []*fcOp
	stats       fcStats
	known       map[common.Root]*fcBlock // delivered blocks (genesis: env nil)
	delivered   []common.Root
	states      map[nodeKey]*chain.StateCtx
	head        forkchoice.NodeRef
	haveHead    bool
	fake        []common.Root
	genesisRoot common.Root
}

func (d *fcDriver) emit(op *fcOp) {
	op.H = d.hid
	if op.Bal == nil {
		op.Bal = []int{}
	}
	if !d.t.dead {
		d.t.wantTable = op.Ev == "UpdateJustified" || d.rng.Intn(6) == 0
		d.t.exec(op)
		if op.Obs != nil && len(op.Obs.Table) > 0 {
			d.stats.Tables++
		}
		fcNormalize(op)
		d.out = append(d.out, op)
		d.stats.Events++
		if op.Obs != nil && len(op.Obs.Nodes) > d.stats.MaxNodes {
			d.stats.MaxNodes = len(op.Obs.Nodes)
		}
		if op.Obs != nil && op.Obs.HasHead == 1 {
			if op.Obs.Head[0] == 1 {
				nh := forkchoice.NodeRef{Root: d.t.mkRoot(op.Obs.Head[1]), Slot: common.Slot(op.Obs.Head[2])}
				if d.haveHead && nh.Root != d.head.Root && !d.descends(nh.Root, d.head.Root) {
					d.stats.Switches++
				}
				d.head, d.haveHead = nh, true
			} else {
				d.stats.HeadErrors++
			}
		}
	}
}

// descends: a is a descendant of b in the delivered block tree.
func (d *fcDriver) descends(a, b common.Root) bool {
	for {
		if a == b {
			return true
		}
		bl, ok := d.known[a]
		if !ok || bl.env == nil {
			return false
		}
		a = bl.env.ParentRoot
	}
}

func (d *fcDriver) stateAt(root common.Root, slot common.Slot) *chain.StateCtx {
	k := nodeKey{root, slot}
	if s, ok := d.states[k]; ok {
		return s
	}
	var base *chain.StateCtx
	if root == d.genesisRoot {
		base = d.h.genesis
	} else {
		base = d.known[root].post
	}
	s := base
	if slot > base.Slot() {
		s = base.Copy(false)
		if err := s.Advance(slot); err != nil {
			panic(err)
		}
	}
	d.states[k] = s
	return s
}

func (d *fcDriver) cp(c common.Checkpoint) common.Checkpoint {
	if c.Root == (common.Root{}) {
		c.Root = d.genesisRoot
	}
	return c
}

func (d *fcDriver) effBalances(j common.Checkpoint) []int {
	slot := mustV(d.h.spec.EpochStartSlot(j.Epoch))
	s := d.stateAt(j.Root, slot)
	vals := s.Validators()
	out := make([]int, len(vals))
	for i := range vals {
		if vals[i].IsActive(j.Epoch) {
			out[i] = int(vals[i].EffectiveBalance)
		}
	}
	return out
}

func (d *fcDriver) r(root common.Root) int { return d.t.rootID(root) }

// importBlock: what a client does when a block has been validated.
func (d *fcDriver) importBlock(bl *fcBlock, tick common.Slot) {
	env := bl.env
	_, cj, fin := bl.post.Justified()
	d.known[env.BlockRoot] = bl
	d.delivered = append(d.delivered, env.BlockRoot)
	d.stats.Blocks++
	if bl.deliverAt > env.Slot {
		d.stats.LateBlocks++
	}
	var votes []fcVote
	if ops := chain.OpsOf(env.Body); ops != nil && ops.Attestations != nil {
		for i := range *ops.Attestations {
			att := &(*ops.Attestations)[i]
			votes = append(votes, d.attesters(bl.post, att)...)
		}
	}
	// the head is observed once per import group: after its last mutating call (and after the block itself when the
	// block is all there is, or now and then)
	d.emit(&fcOp{Ev: "ProcessBlock", Parent: d.r(env.ParentRoot), Root: d.r(env.BlockRoot), Slot: int(env.Slot),
		JE: int(cj.Epoch), FE: int(fin.Epoch), ObsHead: b2i(len(votes) == 0 || d.rng.Intn(4) == 0)})
	for i, v := range votes {
		d.vote(v.v, v.root, v.slot, i == len(votes)-1)
	}
	// checkpoints of the block's state ahead of the store?
	j, f := d.cp(cj), d.cp(fin)
	sj, sf := d.t.fc.Justified(), d.t.fc.Finalized()
	if j.Epoch > sj.Epoch || f.Epoch > sf.Epoch {
		if gs := mustV(d.h.spec.EpochStartSlot(j.Epoch)); d.blockSlot(j.Root) < gs {
			d.stats.GapStarts++
		}
		op := &fcOp{Ev: "UpdateJustified", Trigger: d.r(env.BlockRoot), J: fcCP{int(j.Epoch), d.r(j.Root)}, F: fcCP{int(f.Epoch), d.r(f.Root)},
			Bal: d.effBalances(j), ObsHead: 1}
		d.emit(op)
		d.stats.Updates++
		if len(op.Pruned) > 0 {
			d.stats.Prunes++
			d.stats.PrunedN += len(op.Pruned)
		}
	}
	d.queries(tick)
}

func (d *fcDriver) blockSlot(root common.Root) common.Slot {
	if bl, ok := d.known[root]; ok && bl.env != nil {
		return bl.env.Slot
	}
	return 0
}

type fcVote struct {
	v    common.ValidatorIndex
	root common.Root
	slot common.Slot
}

func (d *fcDriver) attesters(post *chain.StateCtx, att *phase0.Attestation) []fcVote {
	var out []fcVote
	comm, err := post.Committee(att.Data.Slot, att.Data.Index)
	if err != nil {
		return nil
	}
	for i, v := range comm {
		if att.AggregationBits.GetBit(uint64(i)) {
			out = append(out, fcVote{v, att.Data.BeaconBlockRoot, att.Data.Slot})
		}
	}
	return out
}

func (d *fcDriver) vote(v common.ValidatorIndex, root common.Root, slot common.Slot, obs bool) {
	op := &fcOp{Ev: "ProcessAttestation", V: int(v), Root: d.r(root), Slot: int(slot), ObsHead: b2i(obs)}
	d.emit(op)
	d.stats.Votes++
	if op.Ret != nil && op.Ret.Ok == 1 {
		d.stats.VotesOK++
	}
}

func (d *fcDriver) anyRoot() common.Root {
	if d.rng.Intn(8) == 0 {
		return d.fake[d.rng.Intn(len(d.fake))]
	}
	return d.delivered[d.rng.Intn(len(d.delivered))]
}

// queries: a few read-only calls after an import.
func (d *fcDriver) queries(tick common.Slot) {
	spec := d.h.spec
	sj, sf := d.t.fc.Justified(), d.t.fc.Finalized()
	js, fs := mustV(spec.EpochStartSlot(sj.Epoch)), mustV(spec.EpochStartSlot(sf.Epoch))
	q := func(op *fcOp) {
		op.Ev = "Query"
		d.emit(op)
		d.stats.Queries++
	}
	if d.rng.Intn(3) == 0 {
		q(&fcOp{Q: "Head"})
	}
	nonneg := func(x int) int {
		if x < 0 {
			return 0
		}
		return x
	}
	kinds := d.rng.Perm(8)[:2+d.rng.Intn(2)]
	for _, k := range kinds {
		switch k {
		case 0:
			q(&fcOp{Q: "CanonicalChain", Anchor: d.r(sj.Root), Slot: int(js)})
		case 1:
			q(&fcOp{Q: "CanonicalChain", Anchor: d.r(sf.Root), Slot: int(fs)})
		case 2:
			r := d.anyRoot()
			q(&fcOp{Q: "FindHead", Anchor: d.r(r), Slot: int(d.blockSlot(r)) + d.rng.Intn(2)})
		case 3:
			if d.rng.Intn(2) == 0 {
				q(&fcOp{Q: "InSubtree", Anchor: d.r(sf.Root), Root: d.r(d.anyRoot())})
			} else {
				q(&fcOp{Q: "InSubtree", Anchor: d.r(d.anyRoot()), Root: d.r(d.anyRoot())})
			}
		case 4:
			q(&fcOp{Q: "CanonAtSlot", Anchor: d.r(sf.Root), Slot: int(fs) + d.rng.Intn(int(tick-fs)+2), WithBlock: d.rng.Intn(2)})
		case 5:
			switch d.rng.Intn(5) {
			case 0, 1:
				q(&fcOp{Q: "Search", Anchor: d.r(sf.Root), Slot: int(fs), UsePar: 1, Parent: d.r(d.anyRoot())})
			case 2, 3:
				q(&fcOp{Q: "Search", Anchor: d.r(sf.Root), Slot: int(fs), UseSlot: 1, FE: int(fs) + d.rng.Intn(int(tick-fs)+1)})
			default:
				q(&fcOp{Q: "Search", Anchor: d.r(sj.Root), Slot: int(js)})
			}
		case 6:
			q(&fcOp{Q: "GetSlot", Root: d.r(d.anyRoot())})
		case 7:
			r := d.anyRoot()
			q(&fcOp{Q: "ClosestToSlot", Anchor: d.r(r), Slot: nonneg(int(d.blockSlot(r)) + d.rng.Intn(4) - 1)})
		}
	}
}

func (d *fcDriver) run() {
	h := d.h
	spec := h.spec
	g := h.genesis
	d.genesisRoot = g.HeadRoot()
	d.known[d.genesisRoot] = &fcBlock{post: g}
	d.delivered = append(d.delivered, d.genesisRoot)
	// Init (anchor = genesis, parent 0), exactly as harness/cmd/fc does it
	gv := g.Validators()
	bal := make([]int, len(gv))
	for i := range gv {
		if gv[i].IsActive(0) {
			bal[i] = int(gv[i].EffectiveBalance)
		}
	}
	gr := d.r(d.genesisRoot)
	init := &fcOp{Ev: "Init", H: d.hid, SPE: int(spec.SLOTS_PER_EPOCH), Root: gr, Parent: 0, Slot: 0, ObsHead: 1,
		J: fcCP{0, gr}, F: fcCP{0, gr}, Bal: bal, Pruned: [][]int{}}
	out, det := fcGuarded(func() {
		cp := common.Checkpoint{Epoch: 0, Root: d.genesisRoot}
		fc, err := proto.NewProtoForkChoice(spec, cp, cp, d.genesisRoot, 0, common.Root{}, fcGweis(bal), proto.NodeSinkFn(d.t.sink))
		init.Ret = &fcRet{Ok: b2i(err == nil)}
		if err == nil {
			d.t.fc = fc
			d.t.arr = fc.(*forkchoice.ProtoForkChoice).VerifGraph().(*proto.ProtoArray)
		} else {
			init.Detail = err.Error()
		}
	})
	init.Out = out
	if out != "ok" || d.t.fc == nil {
		init.Detail += det
		d.t.dead = true
	} else {
		d.t.wantTable = true
		d.t.observe(init)
	}
	fcNormalize(init)
	d.out = append(d.out, init)
	d.stats.Events++
	d.head, d.haveHead = forkchoice.NodeRef{Root: d.genesisRoot, Slot: 0}, true

	next := 0
	for tick := common.Slot(1); tick <= h.last && !d.t.dead; tick++ {
		gotBlockForTick := false
		for next < len(h.blocks) && h.blocks[next].deliverAt <= tick {
			bl := h.blocks[next]
			next++
			d.importBlock(bl, tick)
			if bl.env.Slot == tick && d.haveHead && d.head.Root == bl.env.BlockRoot {
				gotBlockForTick = true
			}
		}
		// the slot passes without a block on the head: the client processes the empty slot
		if !gotBlockForTick && d.haveHead && d.head.Slot < tick {
			if _, ok := d.known[d.head.Root]; ok && d.blockSlot(d.head.Root) < tick {
				s := d.stateAt(d.head.Root, tick)
				_, cj, fin := s.Justified()
				d.emit(&fcOp{Ev: "ProcessSlot", Parent: d.r(d.head.Root), Slot: int(tick), JE: int(cj.Epoch), FE: int(fin.Epoch), ObsHead: 1})
			}
		}
		// gossip-only votes of this slot's attesters for the head
		if d.haveHead && d.rng.Intn(3) != 0 {
			if _, ok := d.known[d.head.Root]; ok && d.blockSlot(d.head.Root) <= tick {
				s := d.stateAt(d.head.Root, tick)
				if n, err := s.CommitteeCount(spec.SlotToEpoch(tick)); err == nil {
					var vs []common.ValidatorIndex
					for i := uint64(0); i < n; i++ {
						if comm, err := s.Committee(tick, common.CommitteeIndex(i)); err == nil {
							for _, v := range comm {
								if d.rng.Intn(2) == 0 {
									vs = append(vs, v)
								}
							}
						}
					}
					root := d.head.Root
					for i, v := range vs {
						switch d.rng.Intn(12) {
						case 0: // a vote for a slot the node has not processed yet: refused
							d.vote(v, root, tick+1, false)
						case 1: // a vote for a block the node does not have: refused
							d.vote(v, d.fake[d.rng.Intn(len(d.fake))], tick, false)
						}
						d.vote(v, root, tick, i == len(vs)-1)
					}
				}
			}
		}
	}
}

// ---------------------------------------------------------------- subcommand

type fcManifestEntry struct {
	Path  string  `json:"path"`
	SPE   int     `json:"spe"`
	Name  string  `json:"name"`
	Stats fcStats `json:"stats"`
}

func fcchainMain(args []string) {
	fs := flag.NewFlagSet("fcchain", flag.ExitOnError)
	tier := fs.String("tier", "quick", "quick|thorough")
	seed := fs.Int64("seed", 1, "seed")
	outdir := fs.String("outdir", "", "directory for the trace files")
	count := fs.Int("n", 0, "number of histories (default 6 quick / 60 thorough)")
	fs.Parse(args)
	n := *count
	if n == 0 {
		n = 6
		if *tier == "thorough" {
			n = 60
		}
	}
	if *outdir == "" {
		fmt.Fprintln(os.Stderr, "fcchain: -outdir required")
		os.Exit(2)
	}
	if err := os.MkdirAll(*outdir, 0o755); err != nil {
		fmt.Fprintln(os.Stderr, err)
		os.Exit(3)
	}
	entries := make([]*fcManifestEntry, n)
	errs := make([]error, n)
	var wg sync.WaitGroup
	sem := make(chan struct{}, 16)
	for k := 0; k < n; k++ {
		wg.Add(1)
		go func(k int) {
			defer wg.Done()
			sem <- struct{}{}
			defer func() { <-sem }()
			defer func() {
				if r := recover(); r != nil {
					errs[k] = fmt.Errorf("history %d: panic: %v", k, r)
				}
			}()
			rng := rand.New(rand.NewSource(*seed*1000003 + int64(k)))
			p := fcRandomParams(rng, k, *tier)
			h, err := fcBuild(p, rng)
			if err != nil {
				errs[k] = fmt.Errorf("history %d: %w", k, err)
				return
			}
			h.name = fmt.Sprintf("%s-%s-e%d-fork@%d+%d-B%.2f-delay%d", p.preset, p.forks, p.epochs, p.forkAt, p.forkLen, p.shareB, p.delay)
			// order-preserving ranks over every root of the history and the fake roots
			t := &fcTarget{rank: map[common.Root]int{}}
			var fake []common.Root
			for i := 0; i < 4; i++ {
				fake = append(fake, chain.UnknownRoot("fcchain", uint64(k*10+i)))
			}
			all := append([]common.Root{h.genesis.HeadRoot()}, fake...)
			for _, bl := range h.blocks {
				all = append(all, bl.env.BlockRoot)
			}
			sort.Slice(all, func(i, j int) bool { return bytes.Compare(all[i][:], all[j][:]) < 0 })
			t.roots = append([]common.Root{{}}, all...)
			for i, r := range t.roots {
				if i > 0 {
					t.rank[r] = i
				}
			}
			d := &fcDriver{h: h, t: t, rng: rng, hid: k, known: map[common.Root]*fcBlock{}, states: map[nodeKey]*chain.StateCtx{}, fake: fake}
			d.run()
			path := filepath.Join(*outdir, fmt.Sprintf("fcchain-%03d.ndjson", k))
			f, err := os.Create(path)
			if err != nil {
				errs[k] = err
				return
			}
			w := bufio.NewWriterSize(f, 1<<20)
			enc := json.NewEncoder(w)
			for _, op := range d.out {
				if err := enc.Encode(op); err != nil {
					errs[k] = err
				}
			}
			w.Flush()
			f.Close()
			entries[k] = &fcManifestEntry{Path: path, SPE: int(h.spec.SLOTS_PER_EPOCH), Name: h.name, Stats: d.stats}
		}(k)
	}
	wg.Wait()
	var out []*fcManifestEntry
	for k, e := range entries {
		if errs[k] != nil {
			fmt.Fprintf(os.Stderr, "fcchain: %v\n", errs[k])
			continue
		}
		out = append(out, e)
	}
	if len(out) == 0 {
		fmt.Fprintln(os.Stderr, "fcchain: no history could be built")
		os.Exit(3)
	}
	json.NewEncoder(os.Stdout).Encode(out)
}
