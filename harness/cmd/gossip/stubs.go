package main

import "math/rand"

func (s *Scen) exitHistories(tier string, rng *rand.Rand) []*History    { return nil }
func (s *Scen) pslashHistories(tier string, rng *rand.Rand) []*History  { return nil }
func (s *Scen) aslashHistories(tier string, rng *rand.Rand) []*History  { return nil }
func (s *Scen) syncMsgHistories(tier string, rng *rand.Rand) []*History { return nil }
func (s *Scen) contribHistories(tier string, rng *rand.Rand) []*History { return nil }
