// Command helpers binds spec/Helpers.tla (property C19) to zrnt's numeric / time / Merkle helpers.
//
//	helpers replay <enum.ndjson> <mismatch.ndjson>   spec -> code: run TLC-emitted events on the real functions
//	helpers record <seed> <n> <trace.ndjson>          code -> spec: boundary-biased calls, logged for HelpersTrace.tla
//	helpers recall <events.ndjson> <trace.ndjson>     re-execute the calls of saved events (for --replay)
//
// Numbers travel as little-endian limbs in base 2^15 (spec/BigNat.tla), canonical (no top zero limb, 0 = []).
// Every call of a zrnt function runs under recover(); a panic is the outcome "panic".
// Hash oracle: in replay mode the TLC-chosen table is installed in hashing.Hash; in record mode the table
// is computed here with crypto/sha256 (independent of zrnt's hashing package) and logged with the call.
package main

import (
	"bufio"
	"crypto/sha256"
	"encoding/hex"
	"encoding/json"
	"fmt"
	"math/rand"
	"os"
	"sort"
	"strconv"
	"time"

	"github.com/protolambda/zrnt/eth2/beacon/common"
	"github.com/protolambda/zrnt/eth2/beacon/deneb"
	"github.com/protolambda/zrnt/eth2/gossipval"
	"github.com/protolambda/zrnt/eth2/util/hashing"
	zmath "github.com/protolambda/zrnt/eth2/util/math"
	"github.com/protolambda/zrnt/eth2/util/merkle"
	"github.com/protolambda/ztyp/tree"
	"github.com/protolambda/ztyp/view"
)

const limbBits = 15
const limbBase = 1 << limbBits
const maxU64 = ^uint64(0)

func toLimbs(v uint64) []int {
	out := make([]int, 0, 5)
	for v != 0 {
		out = append(out, int(v%limbBase))
		v /= limbBase
	}
	return out
}

func fromLimbs(l []int) (uint64, bool) {
	if len(l) > 5 || (len(l) == 5 && l[4] >= 16) {
		return 0, false
	}
	var v uint64
	for i := len(l) - 1; i >= 0; i-- {
		v = v*limbBase + uint64(l[i])
	}
	return v, true
}

func bytesToInts(b []byte) []int {
	out := make([]int, len(b))
	for i, x := range b {
		out[i] = int(x)
	}
	return out
}

// Event is the union of all fields an event of any helper can carry (see spec/Helpers.tla).
type Event struct {
	Fn     string     `json:"fn"`
	A      [][]int    `json:"a"`
	Out    string     `json:"out"`
	R      []int      `json:"r"`
	Leaf   string     `json:"leaf"`
	Branch []string   `json:"branch"`
	Root   string     `json:"root"`
	Tab    [][]string `json:"tab"`
	// record-mode extras that make an event re-executable (recall)
	Vals map[string]string `json:"vals"` // value id -> hex bytes (real SHA-256 Merkle events)
	In   []int             `json:"in"`
	X    []int             `json:"x"`
	Y    []int             `json:"y"`
	Act  [][]int           `json:"act"`
	Exit [][]int           `json:"exit"`
}

// outcome of one real call
type outcome struct {
	out string // ok | err | panic
	r   uint64
	msg string
}

func guard(f func() (uint64, error)) (o outcome) {
	defer func() {
		if r := recover(); r != nil {
			o = outcome{out: "panic", msg: fmt.Sprint(r)}
		}
	}()
	v, err := f()
	if err != nil {
		return outcome{out: "err", msg: err.Error()}
	}
	return outcome{out: "ok", r: v}
}

func b2u(b bool) uint64 {
	if b {
		return 1
	}
	return 0
}

// callNumeric dispatches one numeric helper on uint64 arguments.
func callNumeric(fn string, a []uint64) outcome {
	need := map[string]int{"MaxU64": 2, "MinU64": 2, "IntegerSquareroot": 1, "IntegerSquareRootPrysm": 1,
		"IsPowerOfTwo": 1, "NextPowerOfTwo": 1, "TimeToSlot": 3, "TimeAtSlot": 3, "SlotToEpoch": 2,
		"SlotPrevious": 1, "EpochPrevious": 1, "EpochStartSlot": 2, "ComputeActivationExitEpoch": 2,
		"GetChurnLimit": 3, "ActivationChurnLimit": 2, "ValidatorActivationChurnLimit": 4, "CommitteeCount": 4, "CheckSlotSpan": 4}
	n, ok := need[fn]
	if !ok || len(a) != n {
		fmt.Fprintf(os.Stderr, "helpers: bad event fn=%s args=%d\n", fn, len(a))
		os.Exit(3)
	}
	return guard(func() (uint64, error) {
		switch fn {
		case "MaxU64":
			return zmath.MaxU64(a[0], a[1]), nil
		case "MinU64":
			return zmath.MinU64(a[0], a[1]), nil
		case "IntegerSquareroot":
			return zmath.IntegerSquareroot(a[0]), nil
		case "IntegerSquareRootPrysm":
			return zmath.IntegerSquareRootPrysm(a[0]), nil
		case "IsPowerOfTwo":
			return b2u(zmath.IsPowerOfTwo(a[0])), nil
		case "NextPowerOfTwo":
			return zmath.NextPowerOfTwo(a[0]), nil
		case "TimeToSlot":
			sp := &common.Spec{}
			sp.SECONDS_PER_SLOT = common.Timestamp(a[2])
			return uint64(sp.TimeToSlot(common.Timestamp(a[0]), common.Timestamp(a[1]))), nil
		case "TimeAtSlot":
			sp := &common.Spec{}
			sp.SECONDS_PER_SLOT = common.Timestamp(a[2])
			t, err := sp.TimeAtSlot(common.Slot(a[0]), common.Timestamp(a[1]))
			return uint64(t), err
		case "SlotToEpoch":
			sp := &common.Spec{}
			sp.SLOTS_PER_EPOCH = common.Slot(a[1])
			return uint64(sp.SlotToEpoch(common.Slot(a[0]))), nil
		case "SlotPrevious":
			return uint64(common.Slot(a[0]).Previous()), nil
		case "EpochPrevious":
			return uint64(common.Epoch(a[0]).Previous()), nil
		case "EpochStartSlot":
			sp := &common.Spec{}
			sp.SLOTS_PER_EPOCH = common.Slot(a[1])
			s, err := sp.EpochStartSlot(common.Epoch(a[0]))
			return uint64(s), err
		case "ComputeActivationExitEpoch":
			sp := &common.Spec{}
			sp.MAX_SEED_LOOKAHEAD = common.Epoch(a[1])
			return uint64(sp.ComputeActivationExitEpoch(common.Epoch(a[0]))), nil
		case "GetChurnLimit":
			sp := &common.Spec{}
			sp.MIN_PER_EPOCH_CHURN_LIMIT = view.Uint64View(a[1])
			sp.CHURN_LIMIT_QUOTIENT = view.Uint64View(a[2])
			return sp.GetChurnLimit(a[0]), nil
		case "ActivationChurnLimit":
			sp := &common.Spec{}
			sp.MAX_PER_EPOCH_ACTIVATION_CHURN_LIMIT = view.Uint64View(a[1])
			return deneb.VerifValidatorActivationChurnLimit(sp, a[0]), nil
		case "ValidatorActivationChurnLimit":
			// the helper fed with get_validator_churn_limit, as deneb.ProcessEpochRegistryUpdates does, under a
			// configuration that carries all three churn parameters
			sp := &common.Spec{}
			sp.MIN_PER_EPOCH_CHURN_LIMIT = view.Uint64View(a[1])
			sp.CHURN_LIMIT_QUOTIENT = view.Uint64View(a[2])
			sp.MAX_PER_EPOCH_ACTIVATION_CHURN_LIMIT = view.Uint64View(a[3])
			return deneb.VerifValidatorActivationChurnLimit(sp, sp.GetChurnLimit(a[0])), nil
		case "CommitteeCount":
			sp := &common.Spec{}
			sp.SLOTS_PER_EPOCH = common.Slot(a[1])
			sp.TARGET_COMMITTEE_SIZE = view.Uint64View(a[2])
			sp.MAX_COMMITTEES_PER_SLOT = view.Uint64View(a[3])
			return common.CommitteeCount(sp, a[0]), nil
		case "CheckSlotSpan":
			lo, hi := common.Slot(a[2]), common.Slot(a[3])
			slotAfter := func(delta time.Duration) common.Slot {
				if delta < 0 {
					return lo
				}
				return hi
			}
			return 0, gossipval.CheckSlotSpan(slotAfter, common.Slot(a[0]), common.Slot(a[1]))
		}
		panic("unreachable")
	})
}

// ---------------------------------------------------------------- replay (spec -> code)

var sentinel = tree.Root{0xEE, 0xEE, 0xEE, 0xEE}

func idRoot(id string) tree.Root {
	var r tree.Root
	h := sha256.Sum256([]byte("verif-id:" + id)) // just a spread-out injective naming of ids
	copy(r[:], h[:])
	return r
}

func replay(inPath, outPath string) {
	in, err := os.Open(inPath)
	check(err)
	defer in.Close()
	out, err := os.Create(outPath)
	check(err)
	defer out.Close()
	w := bufio.NewWriter(out)
	defer w.Flush()
	sc := bufio.NewScanner(in)
	sc.Buffer(make([]byte, 1<<20), 1<<26)
	realHash := hashing.Hash
	counts := map[string]int{}
	outs := map[string]int{}
	mism := 0
	line := 0
	for sc.Scan() {
		line++
		var e Event
		check(json.Unmarshal(sc.Bytes(), &e))
		counts[e.Fn]++
		var o outcome
		if e.Fn == "VerifyMerkleBranch" {
			o = replayMerkle(&e)
			hashing.Hash = realHash
		} else {
			args := make([]uint64, len(e.A))
			for i, l := range e.A {
				v, ok := fromLimbs(l)
				if !ok {
					fmt.Fprintf(os.Stderr, "helpers: argument does not fit uint64 at line %d\n", line)
					os.Exit(3)
				}
				args[i] = v
			}
			o = callNumeric(e.Fn, args)
		}
		outs[e.Fn+":"+o.out]++
		wantR, _ := fromLimbs(e.R)
		okk := o.out == e.Out && (o.out != "ok" || e.Fn == "CheckSlotSpan" || o.r == wantR)
		if !okk {
			mism++
			rec := map[string]interface{}{"line": line, "event": json.RawMessage(append([]byte{}, sc.Bytes()...)),
				"obs_out": o.out, "obs_r": toLimbs(o.r), "obs_r_dec": strconv.FormatUint(o.r, 10), "msg": o.msg}
			b, _ := json.Marshal(rec)
			w.Write(b)
			w.WriteByte('\n')
		}
	}
	check(sc.Err())
	sum := map[string]interface{}{"events": line, "mismatches": mism, "per_fn": counts, "outcomes": outs}
	b, _ := json.Marshal(sum)
	fmt.Println(string(b))
}

func replayMerkle(e *Event) outcome {
	if len(e.Vals) > 0 {
		return replayMerkleReal(e)
	}
	depth, okd := fromLimbs(e.A[0])
	index, oki := fromLimbs(e.A[1])
	if !okd || !oki {
		fmt.Fprintln(os.Stderr, "helpers: merkle depth/index does not fit uint64")
		os.Exit(3)
	}
	byRoot := map[tree.Root]string{}
	tab := map[[2]string]string{}
	note := func(id string) {
		byRoot[idRoot(id)] = id
	}
	for _, t := range e.Tab {
		tab[[2]string{t[0], t[1]}] = t[2]
		note(t[0])
		note(t[1])
		note(t[2])
	}
	// TLC-chosen hash oracle: parses the 64-byte pre-image, so a wrong concatenation order or a
	// pre-image of another shape is visible as a different (or sentinel) value
	hashing.Hash = func(input []byte) [32]byte {
		if len(input) != 64 {
			return sentinel
		}
		var l, r tree.Root
		copy(l[:], input[:32])
		copy(r[:], input[32:])
		li, ok1 := byRoot[l]
		ri, ok2 := byRoot[r]
		if !ok1 || !ok2 {
			return sentinel
		}
		o, ok := tab[[2]string{li, ri}]
		if !ok {
			return sentinel
		}
		return idRoot(o)
	}
	branch := make([]tree.Root, len(e.Branch))
	for i, id := range e.Branch {
		branch[i] = idRoot(id)
	}
	return guard(func() (uint64, error) {
		return b2u(merkle.VerifyMerkleBranch(idRoot(e.Leaf), branch, depth, index, idRoot(e.Root))), nil
	})
}

// replayMerkleReal re-executes a recorded real-SHA-256 Merkle event from its logged byte values.
func replayMerkleReal(e *Event) outcome {
	depth, okd := fromLimbs(e.A[0])
	index, oki := fromLimbs(e.A[1])
	if !okd || !oki {
		fmt.Fprintln(os.Stderr, "helpers: merkle depth/index does not fit uint64")
		os.Exit(3)
	}
	val := func(id string) tree.Root {
		var r tree.Root
		b, err := hex.DecodeString(e.Vals[id])
		if err != nil || len(b) != 32 {
			fmt.Fprintln(os.Stderr, "helpers: merkle event lacks bytes of value", id)
			os.Exit(3)
		}
		copy(r[:], b)
		return r
	}
	branch := make([]tree.Root, len(e.Branch))
	for i, id := range e.Branch {
		branch[i] = val(id)
	}
	return guard(func() (uint64, error) {
		return b2u(merkle.VerifyMerkleBranch(val(e.Leaf), branch, depth, index, val(e.Root))), nil
	})
}

// recall re-executes every event of a file (arguments only) and writes fresh trace events with the outcome
// observed now; used by --replay so that TLC decides again on the current tree.
func recall(inPath, outPath string) {
	in, err := os.Open(inPath)
	check(err)
	defer in.Close()
	out, err := os.Create(outPath)
	check(err)
	defer out.Close()
	w := bufio.NewWriter(out)
	defer w.Flush()
	sc := bufio.NewScanner(in)
	sc.Buffer(make([]byte, 1<<20), 1<<26)
	realHash := hashing.Hash
	n := 0
	for sc.Scan() {
		var raw map[string]interface{}
		check(json.Unmarshal(sc.Bytes(), &raw))
		if inner, ok := raw["event"]; ok { // mismatch record of the replayer
			b, _ := json.Marshal(inner)
			raw = nil
			check(json.Unmarshal(b, &raw))
		}
		b, _ := json.Marshal(raw)
		var e Event
		check(json.Unmarshal(b, &e))
		switch e.Fn {
		case "VerifyMerkleBranch":
			o := replayMerkle(&e)
			hashing.Hash = realHash
			raw["out"] = o.out
			raw["r"] = []int{}
			if o.out == "ok" {
				raw["r"] = toLimbs(o.r)
			}
			raw["msg"] = o.msg
		case "ActiveIndices", "Hash", "HashRepeat", "XorBytes32":
			fmt.Fprintln(os.Stderr, "helpers: recall of", e.Fn, "events is not supported; event skipped")
			continue
		default:
			args := make([]uint64, len(e.A))
			for i, l := range e.A {
				v, ok := fromLimbs(l)
				if !ok {
					fmt.Fprintln(os.Stderr, "helpers: argument does not fit uint64")
					os.Exit(3)
				}
				args[i] = v
			}
			o := callNumeric(e.Fn, args)
			raw["out"] = o.out
			raw["r"] = []int{}
			if o.out == "ok" {
				raw["r"] = toLimbs(o.r)
			}
			raw["msg"] = o.msg
		}
		b, _ = json.Marshal(raw)
		w.Write(b)
		w.WriteByte('\n')
		n++
	}
	check(sc.Err())
	fmt.Printf("{\"events\":%d}\n", n)
}

// ---------------------------------------------------------------- record (code -> spec)

type recorder struct {
	rng     *rand.Rand
	w       *bufio.Writer
	n       int
	classes map[string]int
	perFn   map[string]int
	outs    map[string]int
}

func (rc *recorder) emit(ev map[string]interface{}) {
	b, err := json.Marshal(ev)
	check(err)
	rc.w.Write(b)
	rc.w.WriteByte('\n')
	rc.n++
	rc.perFn[ev["fn"].(string)]++
	rc.outs[ev["fn"].(string)+":"+ev["out"].(string)]++
}

// u64 draws a boundary-biased 64-bit value and names its class.
func (rc *recorder) u64() (uint64, string) {
	r := rc.rng
	switch r.Intn(14) {
	case 0:
		return 0, "zero"
	case 1:
		return 1, "one"
	case 2:
		return uint64(1) << uint(r.Intn(64)), "pow2"
	case 3:
		k := uint(r.Intn(64)) + 1
		if k == 64 {
			return maxU64, "max"
		}
		return (uint64(1) << k) - 1, "pow2m1"
	case 4:
		return (uint64(1) << uint(r.Intn(64))) + 1, "pow2p1"
	case 5:
		return maxU64, "max"
	case 6:
		return maxU64 - uint64(r.Intn(3)) - 1, "nearmax"
	case 7, 8, 9:
		k := rc.sqBase()
		switch r.Intn(3) {
		case 0:
			return k * k, "sq"
		case 1:
			if k == 0 {
				return 0, "zero"
			}
			return k*k - 1, "sqm1"
		default:
			return k*k + 1, "sqp1"
		}
	case 10:
		return uint64(r.Intn(1 << 12)), "small"
	case 11:
		return uint64(r.Int63n(1 << 40)), "mid"
	default:
		return r.Uint64(), "rand64"
	}
}

// sqBase: k <= 2^32-1 so that k*k fits
func (rc *recorder) sqBase() uint64 {
	r := rc.rng
	switch r.Intn(6) {
	case 0:
		return (uint64(1) << 32) - 1 - uint64(r.Intn(3))
	case 1:
		return uint64(1) << uint(r.Intn(32))
	case 2:
		return (uint64(1) << uint(1+r.Intn(32))) - 1
	case 3:
		return uint64(94906265 + r.Intn(6)) // around sqrt(2^53): first float64 rounding trouble
	case 4:
		return uint64(r.Intn(1 << 16))
	default:
		return uint64(r.Uint32())
	}
}

func (rc *recorder) nonzero() uint64 {
	for {
		v, _ := rc.u64()
		if v != 0 {
			return v
		}
	}
}

func (rc *recorder) pick(vs ...uint64) uint64 { return vs[rc.rng.Intn(len(vs))] }

func (rc *recorder) numeric(fn string, cls string, a ...uint64) {
	o := callNumeric(fn, a)
	args := make([][]int, len(a))
	for i, v := range a {
		args[i] = toLimbs(v)
	}
	r := []int{}
	if o.out == "ok" {
		r = toLimbs(o.r)
	}
	rc.classes[fn+":"+cls]++
	rc.emit(map[string]interface{}{"fn": fn, "a": args, "out": o.out, "r": r, "cls": cls, "msg": o.msg})
}

func (rc *recorder) oneRound() {
	r := rc.rng
	// one-argument helpers
	for _, fn := range []string{"IntegerSquareroot", "IntegerSquareRootPrysm", "IsPowerOfTwo", "NextPowerOfTwo", "SlotPrevious", "EpochPrevious"} {
		v, c := rc.u64()
		rc.numeric(fn, c, v)
	}
	{
		x, c1 := rc.u64()
		y, c2 := rc.u64()
		if r.Intn(4) == 0 {
			y = x
			c2 = "same"
		}
		rc.numeric("MaxU64", c1+"/"+c2, x, y)
		rc.numeric("MinU64", c1+"/"+c2, x, y)
		rc.numeric("ActivationChurnLimit", c1+"/"+c2, x, y)
	}
	// TimeToSlot(t, genesis, sps)
	{
		sps := rc.pick(1, 2, 6, 12, uint64(1+r.Intn(100)), rc.nonzero())
		g, _ := rc.u64()
		if r.Intn(2) == 0 {
			g = 1606824023
		}
		var t uint64
		cls := "after"
		switch r.Intn(5) {
		case 0:
			t, _ = rc.u64()
			cls = "any"
			if t < g {
				cls = "before-genesis"
			}
		case 1:
			t = g
			cls = "at-genesis"
		case 2:
			k := uint64(r.Intn(1000))
			if (maxU64-g)/sps >= k {
				t = g + k*sps - uint64(r.Intn(2))
				if t < g {
					t = g
				}
			} else {
				t = maxU64
			}
			cls = "slot-edge"
		case 3:
			t = maxU64
			cls = "max"
		default:
			d, _ := rc.u64()
			if maxU64-g >= d {
				t = g + d
			} else {
				t = maxU64
			}
		}
		rc.numeric("TimeToSlot", cls, t, g, sps)
	}
	// TimeAtSlot(slot, genesis, sps): emphasis on the representability boundary
	{
		sps := rc.pick(1, 2, 6, 12, uint64(1+r.Intn(100)), rc.nonzero())
		g, _ := rc.u64()
		if r.Intn(2) == 0 {
			g = 1606824023
		}
		mx := (maxU64 - g) / sps // largest slot whose timestamp fits
		var s uint64
		cls := "any"
		switch r.Intn(6) {
		case 0:
			s, cls = mx, "last-representable"
		case 1:
			if mx > 0 {
				s, cls = mx-1, "below-last"
			}
		case 2:
			if mx < maxU64 {
				s, cls = mx+1, "first-overflow"
			} else {
				s, cls = mx, "last-representable"
			}
		case 3:
			s, cls = uint64(r.Intn(1<<24)), "realistic"
		default:
			s, _ = rc.u64()
			if s > mx {
				cls = "overflow"
			} else if s == mx {
				cls = "last-representable"
			}
		}
		rc.numeric("TimeAtSlot", cls, s, g, sps)
	}
	// SlotToEpoch / EpochStartSlot
	{
		spe := rc.pick(1, 2, 4, 8, 32, uint64(1+r.Intn(64)), rc.nonzero())
		s, c := rc.u64()
		rc.numeric("SlotToEpoch", c, s, spe)
		mx := maxU64 / spe
		var e uint64
		cls := "any"
		switch r.Intn(5) {
		case 0:
			e, cls = mx, "last-representable"
		case 1:
			if mx < maxU64 {
				e, cls = mx+1, "first-overflow"
			} else {
				e, cls = mx, "last-representable"
			}
		case 2:
			e, cls = uint64(r.Intn(1<<24)), "realistic"
		default:
			e, _ = rc.u64()
			if e > mx {
				cls = "overflow"
			} else if e == mx {
				cls = "last-representable"
			}
		}
		rc.numeric("EpochStartSlot", cls, e, spe)
	}
	// ComputeActivationExitEpoch(e, MAX_SEED_LOOKAHEAD)
	{
		msl := rc.pick(0, 1, 4, 4, uint64(r.Intn(16)))
		lim := maxU64 - 1 - msl // largest e with representable result
		var e uint64
		cls := "any"
		switch r.Intn(4) {
		case 0:
			e, cls = lim, "last-representable"
		case 1:
			e, cls = lim+1, "first-overflow"
		default:
			e, _ = rc.u64()
			if e > lim {
				cls = "overflow"
			}
		}
		rc.numeric("ComputeActivationExitEpoch", cls, e, msl)
	}
	// GetChurnLimit(active, MIN_PER_EPOCH_CHURN_LIMIT, CHURN_LIMIT_QUOTIENT)
	{
		q := rc.pick(65536, 32, 1, 8, uint64(1+r.Intn(1<<17)), rc.nonzero())
		mn := rc.pick(4, 2, 0, 1, uint64(r.Intn(100)))
		if r.Intn(8) == 0 {
			mn, _ = rc.u64()
		}
		var act uint64
		cls := "any"
		switch r.Intn(4) {
		case 0:
			k := uint64(r.Intn(64))
			if q <= maxU64/(k+1) {
				act = k*q + rc.pick(0, q-1)
				cls = "quotient-edge"
			}
		case 1:
			if mn > 0 && q <= maxU64/mn {
				act = mn*q - uint64(r.Intn(2))
				cls = "min-edge"
			}
		default:
			act, _ = rc.u64()
		}
		rc.numeric("GetChurnLimit", cls, act, mn, q)
	}
	// ValidatorActivationChurnLimit(active, MIN_PER_EPOCH_CHURN_LIMIT, CHURN_LIMIT_QUOTIENT, MAX_PER_EPOCH_ACTIVATION_CHURN_LIMIT)
	{
		q := rc.pick(65536, 32, 1, 2, 7, uint64(1+r.Intn(1<<17)), rc.nonzero())
		mn := rc.pick(4, 2, 8, 1, 0, uint64(r.Intn(100)))
		if r.Intn(10) == 0 {
			mn, _ = rc.u64()
		}
		var cp uint64
		cls := ""
		switch r.Intn(6) {
		case 0:
			cp = 0
		case 1:
			if mn > 0 {
				cp = uint64(r.Int63n(int64(minU(mn, 1<<62))))
			}
		case 2:
			cp = mn
		case 3:
			if mn < maxU64 {
				cp = mn + 1 + uint64(r.Intn(8))
				if cp < mn {
					cp = maxU64
				}
			} else {
				cp = mn
			}
		case 4:
			cp = rc.pick(8, 4, 16, maxU64)
		default:
			cp, _ = rc.u64()
		}
		switch {
		case cp < mn && cp == 0:
			cls = "cap-zero-below-min"
		case cp < mn:
			cls = "cap-below-min"
		case cp == mn:
			cls = "cap-equals-min"
		default:
			cls = "cap-above-min"
		}
		// active counts around every breakpoint: min*quot, cap*quot, multiples of the quotient
		var act uint64
		switch r.Intn(5) {
		case 0:
			if mn != 0 && q <= maxU64/mn {
				act = mn*q - uint64(r.Intn(2)) + uint64(r.Intn(2))
			}
		case 1:
			if cp != 0 && q <= maxU64/cp {
				act = cp*q - uint64(r.Intn(2)) + uint64(r.Intn(2))
			}
		case 2:
			k := uint64(r.Intn(64))
			if q <= maxU64/(k+1) {
				act = k*q + rc.pick(0, q-1)
			}
		case 3:
			act = uint64(r.Intn(1 << 22))
		default:
			act, _ = rc.u64()
		}
		rc.numeric("ValidatorActivationChurnLimit", cls, act, mn, q, cp)
	}
	// CommitteeCount(active, SLOTS_PER_EPOCH, TARGET_COMMITTEE_SIZE, MAX_COMMITTEES_PER_SLOT)
	{
		type cc struct{ spe, tcs, maxc uint64 }
		cfgs := []cc{{32, 128, 64}, {8, 4, 4}, {4, 2, 2}, {uint64(1 + r.Intn(40)), uint64(1 + r.Intn(200)), uint64(1 + r.Intn(70))},
			{rc.nonzero(), rc.nonzero(), rc.nonzero()}}
		c := cfgs[r.Intn(len(cfgs))]
		var act uint64
		cls := "any"
		d := c.spe * c.tcs
		fits := c.tcs == 0 || d/c.tcs == c.spe
		switch r.Intn(4) {
		case 0:
			k := uint64(r.Intn(int(minU(c.maxc, 1<<20)) + 2))
			if fits && d != 0 && k <= maxU64/d {
				act = k*d - uint64(r.Intn(2))
				if k == 0 {
					act = 0
				}
				cls = "count-edge"
			}
		case 1:
			if fits && d != 0 && c.maxc <= maxU64/d {
				act = c.maxc*d - uint64(r.Intn(2)) + uint64(r.Intn(2))
				cls = "max-edge"
			}
		default:
			act, _ = rc.u64()
		}
		rc.numeric("CommitteeCount", cls, act, c.spe, c.tcs, c.maxc)
	}
	// CheckSlotSpan(slot, span, minSlot, maxSlot)
	{
		span := rc.pick(0, 1, 32, 32, uint64(r.Intn(64)))
		if r.Intn(10) == 0 {
			span, _ = rc.u64()
		}
		slot, _ := rc.u64()
		cls := "any"
		var lo, hi uint64
		switch r.Intn(6) {
		case 0: // window around the slot: lo in slot+span-1..slot+span+1
			if slot <= maxU64-span-1 && slot+span >= 1 {
				lo = slot + span - 1 + uint64(r.Intn(3))
				hi = lo
				if hi < slot && r.Intn(2) == 0 {
					hi = slot
				}
				cls = "old-edge"
			}
		case 1:
			hi = slot - uint64(r.Intn(2))
			if slot == 0 {
				hi = 0
			}
			if r.Intn(2) == 0 && hi < maxU64 {
				hi++
			}
			lo = hi
			if lo > 0 && r.Intn(2) == 0 {
				lo--
			}
			cls = "new-edge"
		case 2: // slot + span not representable
			if span > 0 {
				slot = maxU64 - span + 1 + uint64(r.Int63n(int64(minU(span, 1<<30))))
				lo, _ = rc.u64()
				hi, _ = rc.u64()
				if r.Intn(2) == 0 {
					hi = maxU64
					lo = rc.pick(0, maxU64)
				}
				cls = "sum-overflow"
			}
		default:
			lo, _ = rc.u64()
			hi, _ = rc.u64()
		}
		rc.numeric("CheckSlotSpan", cls, slot, span, lo, hi)
	}
	rc.activeIndices()
	rc.hashes()
	rc.merkleReal()
}

func minU(a, b uint64) uint64 {
	if a < b {
		return a
	}
	return b
}

func (rc *recorder) activeIndices() {
	r := rc.rng
	n := r.Intn(10)
	epoch, _ := rc.u64()
	if r.Intn(2) == 0 {
		epoch = uint64(r.Intn(20))
	}
	near := func() uint64 {
		switch r.Intn(6) {
		case 0:
			return maxU64
		case 1:
			return epoch
		case 2:
			return epoch + 1
		case 3:
			return epoch - 1
		case 4:
			return 0
		default:
			v, _ := rc.u64()
			return v
		}
	}
	bounded := make([]common.BoundedIndex, n)
	act := make([][]int, n)
	exit := make([][]int, n)
	for i := range bounded {
		a, x := near(), near()
		bounded[i] = common.BoundedIndex{Index: common.ValidatorIndex(i), Activation: common.Epoch(a), Exit: common.Epoch(x)}
		act[i], exit[i] = toLimbs(a), toLimbs(x)
	}
	idx := []int{}
	out := "ok"
	func() {
		defer func() {
			if rec := recover(); rec != nil {
				out = "panic"
			}
		}()
		for _, v := range common.ActiveIndices(bounded, common.Epoch(epoch)) {
			idx = append(idx, int(v))
		}
	}()
	rc.emit(map[string]interface{}{"fn": "ActiveIndices", "a": [][]int{toLimbs(epoch)}, "act": act, "exit": exit,
		"idx": idx, "out": out, "r": []int{}})
}

var repeatFn = hashing.GetHashFn()

func (rc *recorder) hashes() {
	r := rc.rng
	lens := []int{0, 1, 31, 32, 33, 55, 56, 63, 64, 65, 119, 120, r.Intn(200)}
	in := make([]byte, lens[r.Intn(len(lens))])
	r.Read(in)
	oracle := sha256.Sum256(in)
	for _, fn := range []string{"Hash", "HashRepeat"} {
		var h [32]byte
		out := "ok"
		func() {
			defer func() {
				if rec := recover(); rec != nil {
					out = "panic"
				}
			}()
			if fn == "Hash" {
				h = hashing.Hash(in)
			} else {
				h = repeatFn(in) // re-used working variables: a missing Reset shows here
			}
		}()
		rc.emit(map[string]interface{}{"fn": fn, "a": [][]int{}, "len": len(in), "h": bytesToInts(h[:]), "o": bytesToInts(oracle[:]), "out": out, "r": []int{}})
	}
	var x, y [32]byte
	r.Read(x[:])
	r.Read(y[:])
	if r.Intn(4) == 0 {
		y = x
	}
	var z [32]byte
	out := "ok"
	func() {
		defer func() {
			if rec := recover(); rec != nil {
				out = "panic"
			}
		}()
		z = hashing.XorBytes32(x, y)
	}()
	rc.emit(map[string]interface{}{"fn": "XorBytes32", "a": [][]int{}, "x": bytesToInts(x[:]), "y": bytesToInts(y[:]), "z": bytesToInts(z[:]), "out": out, "r": []int{}})
}

// merkleReal builds a real SHA-256 tree with crypto/sha256, logs the hash table (value ids) and calls
// VerifyMerkleBranch (which hashes through zrnt's own hashing package) on honest and corrupted branches.
func (rc *recorder) merkleReal() {
	r := rc.rng
	ids := map[tree.Root]string{}
	idOf := func(v tree.Root) string {
		if s, ok := ids[v]; ok {
			return s
		}
		s := "n" + strconv.Itoa(len(ids))
		ids[v] = s
		return s
	}
	tab := [][]string{}
	seen := map[[2]string]bool{}
	hashPair := func(l, rt tree.Root) tree.Root {
		var buf [64]byte
		copy(buf[:32], l[:])
		copy(buf[32:], rt[:])
		o := tree.Root(sha256.Sum256(buf[:]))
		k := [2]string{idOf(l), idOf(rt)}
		if !seen[k] {
			seen[k] = true
			tab = append(tab, []string{k[0], k[1], idOf(o)})
		}
		return o
	}
	randRoot := func() tree.Root {
		var v tree.Root
		r.Read(v[:])
		return v
	}
	var depth int
	var levels [][]tree.Root // levels[0] = leaves (dense trees only)
	var index uint64
	var leaf, root tree.Root
	var branch []tree.Root
	if r.Intn(5) == 0 {
		// sparse deep tree (deposit-contract shape): one leaf, zero-hash siblings
		depth = []int{32, 33, 20, 63, 64}[r.Intn(5)]
		index = r.Uint64()
		if depth < 64 {
			index &= (uint64(1) << uint(depth)) - 1
		}
		leaf = randRoot()
		z := tree.Root{}
		v := leaf
		for i := 0; i < depth; i++ {
			branch = append(branch, z)
			if (index>>uint(i))&1 == 1 {
				v = hashPair(z, v)
			} else {
				v = hashPair(v, z)
			}
			z = hashPair(z, z)
		}
		root = v
	} else {
		depth = r.Intn(7)
		n := 1 << uint(depth)
		leaves := make([]tree.Root, n)
		for i := range leaves {
			if i > 0 && r.Intn(6) == 0 {
				leaves[i] = leaves[r.Intn(i)] // repeated values
			} else {
				leaves[i] = randRoot()
			}
		}
		levels = [][]tree.Root{leaves}
		for len(levels[len(levels)-1]) > 1 {
			prev := levels[len(levels)-1]
			next := make([]tree.Root, len(prev)/2)
			for i := range next {
				next[i] = hashPair(prev[2*i], prev[2*i+1])
			}
			levels = append(levels, next)
		}
		root = levels[depth][0]
		index = uint64(r.Intn(n))
		leaf = leaves[index]
		for lv := 0; lv < depth; lv++ {
			branch = append(branch, levels[lv][(index>>uint(lv))^1])
		}
	}
	d := uint64(depth)
	cls := "honest"
	switch m := r.Intn(12); {
	case m == 0 && depth > 0:
		branch[r.Intn(depth)] = randRoot()
		cls = "sibling-random"
	case m == 1 && depth > 0:
		j := r.Intn(depth)
		index ^= uint64(1) << uint(j)
		cls = "index-bit-flipped"
	case m == 2 && depth > 0:
		branch = branch[:r.Intn(depth)]
		cls = "branch-short"
	case m == 3:
		branch = append(branch, randRoot())
		cls = "branch-long"
	case m == 4:
		root = randRoot()
		cls = "root-random"
	case m == 5:
		leaf = randRoot()
		cls = "leaf-random"
	case m == 6 && depth < 64:
		index += uint64(1+r.Intn(5)) << uint(depth) // high bits beyond the depth are ignored by the spec
		cls = "index-high-bits"
	case m == 7 && depth > 0 && levels != nil:
		// verify an interior node as the root of a shallower branch
		d = uint64(r.Intn(depth))
		root = levels[d][index>>d]
		cls = "shallower"
	case m == 8 && depth > 1:
		i, j := 0, depth-1
		branch[i], branch[j] = branch[j], branch[i]
		cls = "siblings-swapped"
	case m == 9 && depth > 0 && levels != nil:
		root = levels[depth-1][r.Intn(len(levels[depth-1]))]
		cls = "root-interior"
	case m == 10:
		d = d + 1
		cls = "depth-plus-one"
	}
	bids := make([]string, len(branch))
	for i, b := range branch {
		bids[i] = idOf(b)
	}
	o := guard(func() (uint64, error) {
		return b2u(merkle.VerifyMerkleBranch(leaf, branch, d, index, root)), nil
	})
	rr := []int{}
	if o.out == "ok" {
		rr = toLimbs(o.r)
	}
	rc.classes["VerifyMerkleBranch:"+cls]++
	if o.out == "ok" {
		rc.classes["VerifyMerkleBranch:"+map[uint64]string{0: "rejected", 1: "accepted"}[o.r]]++
	}
	lid, rid := idOf(leaf), idOf(root)
	vals := map[string]string{}
	if len(ids) <= 40 { // enough to re-execute the call; large trees are not dumped
		for v, id := range ids {
			vv := v
			vals[id] = hex.EncodeToString(vv[:])
		}
	} else {
		for _, v := range append([]tree.Root{leaf, root}, branch...) {
			vv := v
			vals[idOf(v)] = hex.EncodeToString(vv[:])
		}
	}
	rc.emit(map[string]interface{}{"fn": "VerifyMerkleBranch", "a": [][]int{toLimbs(d), toLimbs(index)}, "leaf": lid,
		"branch": bids, "root": rid, "tab": tab, "vals": vals, "out": o.out, "r": rr, "cls": cls, "msg": o.msg})
}

func record(seed int64, rounds int, outPath string) {
	out, err := os.Create(outPath)
	check(err)
	defer out.Close()
	w := bufio.NewWriter(out)
	rc := &recorder{rng: rand.New(rand.NewSource(seed)), w: w, classes: map[string]int{}, perFn: map[string]int{}, outs: map[string]int{}}
	// fixed corner list first (always present, independent of the seed)
	for _, fn := range []string{"IntegerSquareroot", "IntegerSquareRootPrysm", "IsPowerOfTwo", "NextPowerOfTwo", "SlotPrevious", "EpochPrevious"} {
		for _, v := range []uint64{0, 1, 2, 3, 4, maxU64, maxU64 - 1, 1 << 63, (1 << 63) + 1, (1 << 63) - 1,
			(1<<32 - 1) * (1<<32 - 1), (1<<32-1)*(1<<32-1) - 1, (1<<32-1)*(1<<32-1) + 1, 1 << 62, (1 << 62) - 1} {
			rc.numeric(fn, "corner", v)
		}
	}
	for i := 0; i < rounds; i++ {
		rc.oneRound()
	}
	check(w.Flush())
	keys := make([]string, 0, len(rc.classes))
	for k := range rc.classes {
		keys = append(keys, k)
	}
	sort.Strings(keys)
	sum := map[string]interface{}{"events": rc.n, "per_fn": rc.perFn, "classes": rc.classes, "outcomes": rc.outs}
	b, _ := json.Marshal(sum)
	fmt.Println(string(b))
}

func check(err error) {
	if err != nil {
		fmt.Fprintln(os.Stderr, "helpers:", err)
		os.Exit(3)
	}
}

func main() {
	if len(os.Args) < 2 {
		fmt.Fprintln(os.Stderr, "usage: helpers replay <in> <out> | recall <in> <out> | record <seed> <rounds> <out>")
		os.Exit(3)
	}
	switch os.Args[1] {
	case "replay":
		replay(os.Args[2], os.Args[3])
	case "recall":
		recall(os.Args[2], os.Args[3])
	case "record":
		seed, err := strconv.ParseInt(os.Args[2], 10, 64)
		check(err)
		n, err := strconv.Atoi(os.Args[3])
		check(err)
		record(seed, n, os.Args[4])
	default:
		fmt.Fprintln(os.Stderr, "unknown sub-command", os.Args[1])
		os.Exit(3)
	}
}
