// Command chaindemo runs the chain harness' scenarios on every preset and a few fork
// schedules, prints a per-epoch summary and exits non-zero if zrnt rejects an honest
// block (or anything else goes wrong).
//
//	chaindemo [-seed N] [-epochs N] [-presets S1,S2,...] [-corners] [-q]
package main

import (
	"flag"
	"fmt"
	"math/rand"
	"os"
	"strings"
	"time"

	"github.com/protolambda/zrnt/eth2/beacon/common"

	"verif/harness/chain"
)

type epochAcc struct {
	blocks, skipped int
	ops             chain.OpCounts
}

func (a *epochAcc) add(o chain.OpCounts) {
	a.ops.Attestations += o.Attestations
	a.ops.ProposerSlashings += o.ProposerSlashings
	a.ops.AttesterSlashings += o.AttesterSlashings
	a.ops.Deposits += o.Deposits
	a.ops.Exits += o.Exits
	a.ops.BLSChanges += o.BLSChanges
	a.ops.Blobs += o.Blobs
	a.ops.SyncBits += o.SyncBits
	a.ops.Withdrawals += o.Withdrawals
}

func summarize(c *chain.Chain, res []chain.StepResult, quiet bool) {
	spec := c.Spec
	acc := map[common.Epoch]*epochAcc{}
	last := map[common.Epoch]*chain.StateCtx{}
	var maxEpoch common.Epoch
	for _, r := range res {
		e := spec.SlotToEpoch(r.Plan.Slot)
		if e > maxEpoch {
			maxEpoch = e
		}
		a := acc[e]
		if a == nil {
			a = &epochAcc{}
			acc[e] = a
		}
		switch r.Kind {
		case "block":
			a.blocks++
			a.add(chain.CountOps(r.Env.Body))
			last[e] = r.Post
		default:
			a.skipped++
			if r.Post != nil {
				last[e] = r.Post
			}
		}
	}
	if quiet {
		return
	}
	fmt.Printf("  %5s %-9s %6s %5s %4s %4s | %3s %3s %4s %3s %3s %3s %3s %4s %3s %3s\n",
		"epoch", "fork", "blocks", "activ", "just", "fin", "att", "psl", "asl", "dep", "ext", "bls", "wdr", "sync", "blb", "val")
	for e := common.Epoch(0); e <= maxEpoch; e++ {
		a := acc[e]
		if a == nil {
			continue
		}
		s := last[e]
		if s == nil {
			fmt.Printf("  %5d %-9s %6d (no block)\n", e, "-", a.blocks)
			continue
		}
		_, cur, fin := s.Justified()
		fmt.Printf("  %5d %-9s %6d %5d %4d %4d | %3d %3d %4d %3d %3d %3d %3d %4d %3d %3d\n",
			e, s.Fork(), a.blocks, len(s.ActiveIndices()), cur.Epoch, fin.Epoch,
			a.ops.Attestations, a.ops.ProposerSlashings, a.ops.AttesterSlashings, a.ops.Deposits, a.ops.Exits,
			a.ops.BLSChanges, a.ops.Withdrawals, a.ops.SyncBits, a.ops.Blobs, s.ValidatorCount())
	}
}

func main() {
	seed := flag.Int64("seed", 1, "seed of the random scenarios")
	epochs := flag.Int("epochs", 16, "epochs per random scenario")
	presets := flag.String("presets", "S1,S2,S3,S4,minimal", "comma separated presets")
	corners := flag.Bool("corners", true, "also run the hand-written corner scenarios")
	quiet := flag.Bool("q", false, "no per-epoch tables")
	flag.Parse()

	schedules := []chain.ForkSchedule{
		chain.Forks(1, 2, 3, 4),
		chain.Forks(2, 4, 7, 10),
		chain.Forks(0, 0, 3, 3),
		chain.AllAt(0),
		chain.Forks(3, 6, chain.FarFuture, chain.FarFuture),
		chain.Phase0Only,
	}
	failed := 0
	totalBlocks := 0
	start := time.Now()
	for _, preset := range strings.Split(*presets, ",") {
		for i, fs := range schedules {
			if preset == chain.PresetMinimal && i > 1 {
				continue
			}
			spec := chain.NewSpec(preset, fs)
			n := chain.DefaultValidatorCount(preset)
			c, err := chain.NewGenesis(spec, chain.GenesisOpts{Validators: n})
			if err != nil {
				fmt.Printf("FAIL %s %s: genesis: %v\n", preset, fs, err)
				failed++
				continue
			}
			steps := chain.RandomScenario(rand.New(rand.NewSource(*seed+int64(i))), spec, chain.ScenarioOpts{Epochs: *epochs, Validators: n})
			t0 := time.Now()
			res, err := c.RunScenario(steps)
			status := "ok  "
			if err != nil {
				status = "FAIL"
				failed++
			}
			fmt.Printf("%s random  preset=%-7s forks=[%s] seed=%d blocks=%d (%.0f blocks/s)\n", status, preset, fs, *seed+int64(i), len(c.Blocks), float64(len(c.Blocks))/time.Since(t0).Seconds())
			if err != nil {
				fmt.Printf("     error: %v\n", err)
			}
			if n := len(res); n > 0 && res[n-1].Kind == "dead" {
				fmt.Printf("     note: history ended at slot %d, the active validator set ran empty\n", res[n-1].Plan.Slot)
			}
			totalBlocks += len(c.Blocks)
			summarize(c, res, *quiet)
		}
	}
	if *corners {
		for _, ns := range chain.CornerScenarios() {
			c, res, err := ns.Run()
			status := "ok  "
			if err != nil {
				status = "FAIL"
				failed++
			}
			nb := 0
			if c != nil {
				nb = len(c.Blocks)
				totalBlocks += nb
			}
			fmt.Printf("%s corner  %-22s preset=%-7s forks=[%s] blocks=%d\n", status, ns.Name, ns.Preset, ns.Forks, nb)
			if err != nil {
				fmt.Printf("     error: %v\n", err)
			}
			if c != nil {
				summarize(c, res, *quiet)
			}
		}
	}
	fmt.Printf("%d blocks in %.1fs, %d failures\n", totalBlocks, time.Since(start).Seconds(), failed)
	if failed > 0 {
		os.Exit(1)
	}
}
