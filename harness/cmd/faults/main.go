// Command faults records fault-injection runs of the real zrnt transition for C18
// (spec/Faults.tla, spec/FaultsTrace.tla).
//
//	faults list -tier quick|thorough -seed N              JSON list of the chains of this run
//	faults rec  -tier T -seed N -chain I -out FILE        record chain I (ndjson trace), summary on stdout
//	            [-only ID]                                emit only step ID (replay)
//
// For every step of a chain built by harness/chain (ProcessSlots, StateTransition of a block,
// process_epoch alone) the recorder
//  1. runs the step on a copy of the pre-state under a COUNTING context (Err() counts and records its
//     call site, never fails) and a recording execution engine: P polls, the engine calls with their
//     arguments, outcome and post-state root of the undisturbed run;
//  2. re-runs the same step from a fresh copy of the same pre-state once per k in 1..P+1 under a
//     context that reports context.Canceled from its k-th consultation on (sticky), and once per
//     engine call x {invalid, error = (false, err), errortrue = (true, err)};
//  3. logs one "Step" event and one "Fault" event per disturbed run.
//
// The expected engine arguments are computed here from the block alone: the payload as it sits in the
// block body (digest taken before any run), versioned hashes' pre-images hashed with crypto/sha256,
// the block's parent_root. The verdict is TLC's (FaultsTrace.tla), not this program's.
package main

import (
	"context"
	"crypto/sha256"
	"encoding/hex"
	"encoding/json"
	"flag"
	"fmt"
	"math/rand"
	"os"
	"runtime"
	"sort"
	"strings"
	"time"

	"github.com/protolambda/zrnt/eth2/beacon/bellatrix"
	"github.com/protolambda/zrnt/eth2/beacon/capella"
	"github.com/protolambda/zrnt/eth2/beacon/common"
	"github.com/protolambda/zrnt/eth2/beacon/deneb"

	"verif/harness/chain"
)

// ---------------------------------------------------------------- fault context

// faultCtx is a context.Context whose consultations are counted. From the cancelFrom-th
// consultation on (1-based; 0 = never) it is cancelled and stays cancelled.
type faultCtx struct {
	polls      int
	cancelFrom int
	record     bool
	sites      []string
	closed     chan struct{}
}

func newFaultCtx(cancelFrom int, record bool) *faultCtx {
	c := &faultCtx{cancelFrom: cancelFrom, record: record, closed: make(chan struct{})}
	close(c.closed)
	return c
}

func (c *faultCtx) consult() bool {
	c.polls++
	if c.record {
		site := "?"
		if _, file, line, ok := runtime.Caller(2); ok {
			if i := strings.Index(file, "/eth2/"); i >= 0 {
				file = file[i+1:]
			}
			site = fmt.Sprintf("%s:%d", file, line)
		}
		c.sites = append(c.sites, site)
	}
	return c.cancelFrom > 0 && c.polls >= c.cancelFrom
}

func (c *faultCtx) Err() error {
	if c.consult() {
		return context.Canceled
	}
	return nil
}

func (c *faultCtx) Done() <-chan struct{} {
	if c.consult() {
		return c.closed
	}
	return nil // like context.Background(): blocks forever
}

func (c *faultCtx) Deadline() (time.Time, bool)       { return time.Time{}, false }
func (c *faultCtx) Value(key interface{}) interface{} { return nil }

var _ context.Context = (*faultCtx)(nil)

// ---------------------------------------------------------------- recording engine

type callRec struct {
	Name    string
	Payload string // digest of the payload the engine was shown
	Pbr     string
	Vh      [][]int
}

// recEngine answers "valid" = (true, nil) except for the plan[n]-th call (1-based): "invalid" = (false, nil),
// "error" = (false, err), "errortrue" = (true, err).
type recEngine struct {
	calls []callRec
	plan  map[int]string
}

var errEngine = fmt.Errorf("scripted engine error")

func (e *recEngine) answer(c callRec) (bool, error) {
	e.calls = append(e.calls, c)
	switch e.plan[len(e.calls)] {
	case "invalid":
		return false, nil
	case "error":
		return false, errEngine
	case "errortrue":
		// the other shape of a failing engine: a "true" that must not be believed because the call failed
		return true, errEngine
	}
	return true, nil
}

func digestPayload(p *chain.Payload) string {
	if p == nil {
		return "nil"
	}
	h := sha256.Sum256([]byte(fmt.Sprintf("%#v", *p)))
	return hex.EncodeToString(h[:8])
}

func short(r common.Root) string { return hex.EncodeToString(r[:8]) }

func bytesToInts(b []byte) []int {
	out := make([]int, len(b))
	for i, x := range b {
		out[i] = int(x)
	}
	return out
}

func (e *recEngine) BellatrixNotifyNewPayload(ctx context.Context, p *bellatrix.ExecutionPayload) (bool, error) {
	return e.answer(callRec{Name: chain.EngNotifyNewPayload, Payload: digestPayload(chain.PayloadOf(&bellatrix.BeaconBlockBody{ExecutionPayload: *p}))})
}
func (e *recEngine) BellatrixIsValidBlockHash(ctx context.Context, p *bellatrix.ExecutionPayload) (bool, error) {
	return e.answer(callRec{Name: chain.EngIsValidBlockHash, Payload: digestPayload(chain.PayloadOf(&bellatrix.BeaconBlockBody{ExecutionPayload: *p}))})
}
func (e *recEngine) CapellaNotifyNewPayload(ctx context.Context, p *capella.ExecutionPayload) (bool, error) {
	return e.answer(callRec{Name: chain.EngNotifyNewPayload, Payload: digestPayload(chain.PayloadOf(&capella.BeaconBlockBody{ExecutionPayload: *p}))})
}
func (e *recEngine) CapellaIsValidBlockHash(ctx context.Context, p *capella.ExecutionPayload) (bool, error) {
	return e.answer(callRec{Name: chain.EngIsValidBlockHash, Payload: digestPayload(chain.PayloadOf(&capella.BeaconBlockBody{ExecutionPayload: *p}))})
}
func (e *recEngine) DenebNotifyNewPayload(ctx context.Context, p *deneb.ExecutionPayload, pbr common.Root) (bool, error) {
	return e.answer(callRec{Name: chain.EngNotifyNewPayload, Pbr: short(pbr), Payload: digestPayload(chain.PayloadOf(&deneb.BeaconBlockBody{ExecutionPayload: *p}))})
}
func (e *recEngine) DenebIsValidVersionedHashes(ctx context.Context, p *deneb.ExecutionPayload, vh []common.Hash32) (bool, error) {
	c := callRec{Name: chain.EngIsValidVersionedHashes, Payload: digestPayload(chain.PayloadOf(&deneb.BeaconBlockBody{ExecutionPayload: *p})), Vh: [][]int{}}
	for _, h := range vh {
		c.Vh = append(c.Vh, bytesToInts(h[:]))
	}
	return e.answer(c)
}
func (e *recEngine) DenebIsValidBlockHash(ctx context.Context, p *deneb.ExecutionPayload, pbr common.Root) (bool, error) {
	return e.answer(callRec{Name: chain.EngIsValidBlockHash, Pbr: short(pbr), Payload: digestPayload(chain.PayloadOf(&deneb.BeaconBlockBody{ExecutionPayload: *p}))})
}

var _ bellatrix.ExecutionEngine = (*recEngine)(nil)
var _ capella.ExecutionEngine = (*recEngine)(nil)
var _ deneb.ExecutionEngine = (*recEngine)(nil)

// ---------------------------------------------------------------- steps

type stepDesc struct {
	kind string // "slots" | "block" | "blocknv" (StateTransition without result validation) | "epoch" | "badblock"
	to   common.Slot
	env  *common.BeaconBlockEnvelope
	note string
}

type result struct {
	Out  string `json:"out"`
	Root string `json:"root"`
	err  string
}

type runOut struct {
	res   result
	polls int
	sites []string
	calls []callRec
}

// runStep executes one step on a fresh copy of pre. ctx nil = context.Background(); eng nil = the
// chain's own engine (spec unchanged).
func runStep(pre *chain.StateCtx, st stepDesc, fc *faultCtx, eng *recEngine) (out runOut) {
	work := pre.Copy(true)
	spec := work.Spec
	if eng != nil {
		sc := *work.Spec
		sc.ExecutionEngine = eng
		spec = &sc
	}
	var ctx context.Context = context.Background()
	if fc != nil {
		ctx = fc
	}
	func() {
		defer func() {
			if r := recover(); r != nil {
				out.res = result{Out: "panic", err: fmt.Sprint(r)}
			}
		}()
		var err error
		switch st.kind {
		case "slots":
			err = common.ProcessSlots(ctx, spec, work.Epc, work.TransitionState(), st.to)
		case "block", "badblock":
			err = common.StateTransition(ctx, spec, work.Epc, work.TransitionState(), st.env, true)
		case "blocknv":
			// the entry point block producers use: no signature / state-root validation of the result
			err = common.StateTransition(ctx, spec, work.Epc, work.TransitionState(), st.env, false)
		case "epoch":
			// set-up (not part of the step): process_slot of the last slot of the epoch
			if err = common.ProcessSlot(context.Background(), spec, work.State); err != nil {
				panic("setup ProcessSlot: " + err.Error())
			}
			err = work.State.ProcessEpoch(ctx, spec, work.Epc)
		default:
			panic("unknown step kind " + st.kind)
		}
		if err != nil {
			out.res = result{Out: "err", err: err.Error()}
		} else {
			out.res = result{Out: "ok", Root: short(work.StateRoot())}
		}
	}()
	if fc != nil {
		out.polls = fc.polls
		out.sites = fc.sites
	}
	if eng != nil {
		out.calls = eng.calls
	}
	return out
}

// wantCall is what the specification prescribes for one engine call, computed from the block alone.
type wantArgs struct {
	payload string
	pbr     string
	shas    [][]int
}

func prescribed(env *common.BeaconBlockEnvelope) wantArgs {
	w := wantArgs{payload: digestPayload(chain.PayloadOf(env.Body)), shas: [][]int{}}
	if b, ok := env.Body.(*deneb.BeaconBlockBody); ok {
		w.pbr = short(env.ParentRoot)
		for _, c := range b.BlobKZGCommitments {
			h := sha256.Sum256(c[:])
			w.shas = append(w.shas, bytesToInts(h[:]))
		}
	}
	return w
}

func payloadIsDefault(p *chain.Payload) bool {
	z := common.Root{}
	return p.ParentHash == z && p.StateRoot == z && p.ReceiptsRoot == z && p.PrevRandao == z && p.BlockHash == z &&
		p.FeeRecipient == (common.Eth1Address{}) && p.BlockNumber == 0 && p.GasLimit == 0 && p.GasUsed == 0 &&
		p.Timestamp == 0 && len(p.ExtraData) == 0 && p.BaseFeePerGas == 0 && len(p.Transactions) == 0 &&
		len(p.Withdrawals) == 0 && p.BlobGasUsed == 0 && p.ExcessBlobGas == 0
}

// executionEnabled is is_execution_enabled(state at the block's slot, body) derived from the pre-state and
// the block: from capella on the payload is always processed; in bellatrix iff the merge is complete
// (a property slot processing cannot change) or the body carries a non-default payload.
func executionEnabled(pre *chain.StateCtx, env *common.BeaconBlockEnvelope) bool {
	switch chain.ForkOfBody(env.Body) {
	case chain.Capella, chain.Deneb:
		return true
	case chain.Bellatrix:
		if pre.Fork() == chain.Bellatrix && pre.MergeComplete() {
			return true
		}
		return !payloadIsDefault(chain.PayloadOf(env.Body))
	}
	return false
}

// ---------------------------------------------------------------- recorder

type recorder struct {
	out      *json.Encoder
	only     int
	nextID   int
	rng      *rand.Rand
	pre      *chain.StateCtx
	lastEp   int64
	sum      summary
	budget   int // max disturbed runs per step (0 = all)
	seed     int64
	badEvery int
}

type summary struct {
	Chain       string         `json:"chain"`
	Steps       map[string]int `json:"steps"`
	ByFork      map[string]int `json:"by_fork"`
	Faults      int            `json:"faults"`
	CancelRuns  int            `json:"cancel_runs"`
	EngineRuns  map[string]int `json:"engine_runs"`
	Polls       int            `json:"polls"`
	EngineCalls map[string]int `json:"engine_calls"`
	Sites       map[string]int `json:"sites"`
	LastSites   map[string]int `json:"last_sites"`
	Blobs       int            `json:"blocks_with_blobs"`
	UndErr      int            `json:"undisturbed_err"`
	Events      int            `json:"events"`
	Skipped     int            `json:"steps_skipped"`
	Sample      []interface{}  `json:"sample"`
}

func (r *recorder) emit(ev map[string]interface{}) {
	if err := r.out.Encode(ev); err != nil {
		panic(err)
	}
	r.sum.Events++
	if len(r.sum.Sample) < 4 && (ev["ev"] == "Fault" && r.sum.Events%7 == 3 || ev["ev"] == "Step" && len(r.sum.Sample) == 0) {
		s := map[string]interface{}{}
		for _, k := range []string{"ev", "id", "kind", "fork", "P", "ncalls", "fault", "polls", "res", "und", "slot"} {
			if v, ok := ev[k]; ok {
				s[k] = v
			}
		}
		r.sum.Sample = append(r.sum.Sample, s)
	}
}

func callsJSON(calls []callRec, w wantArgs) ([]interface{}, bool) {
	out := []interface{}{}
	ok := true
	for _, c := range calls {
		vh := c.Vh
		if vh == nil {
			vh = [][]int{}
		}
		shas := w.shas
		if c.Name != chain.EngIsValidVersionedHashes {
			shas = [][]int{}
		}
		out = append(out, map[string]interface{}{"name": c.Name, "gotPayload": c.Payload, "wantPayload": w.payload,
			"gotPbr": c.Pbr, "wantPbr": w.pbr, "gotVh": vh, "shas": shas})
	}
	return out, ok
}

func sameCalls(a, b []callRec) bool {
	if len(a) > len(b) {
		return false
	}
	for i := range a {
		x, y := a[i], b[i]
		if x.Name != y.Name || x.Payload != y.Payload || x.Pbr != y.Pbr || fmt.Sprint(x.Vh) != fmt.Sprint(y.Vh) {
			return false
		}
	}
	return true
}

// doStep records one step: undisturbed run, plain run (given or made here), all disturbed runs.
func (r *recorder) doStep(pre *chain.StateCtx, st stepDesc, plain *result) {
	id := r.nextID
	r.nextID++
	if r.only >= 0 && id != r.only {
		r.sum.Skipped++
		return
	}
	und := runStep(pre, st, newFaultCtx(0, true), &recEngine{})
	if plain == nil {
		p := runStep(pre, st, nil, nil)
		plain = &p.res
	}
	fork := pre.Fork().String()
	exec := 0
	w := wantArgs{shas: [][]int{}}
	if st.env != nil {
		fork = chain.ForkOfBody(st.env.Body).String()
		if executionEnabled(pre, st.env) {
			exec = 1
		}
		w = prescribed(st.env)
		if len(w.shas) > 0 {
			r.sum.Blobs++
		}
	}
	cj, _ := callsJSON(und.calls, w)
	P, C := und.polls, len(und.calls)
	ev := map[string]interface{}{"ev": "Step", "id": id, "kind": st.kind, "fork": fork, "exec": exec,
		"slot": int(pre.Slot()), "to": int(st.to), "P": P, "ncalls": C, "calls": cj,
		"und": und.res, "plain": *plain, "sites": und.sites, "note": st.note}
	if und.res.Out != "ok" {
		ev["underr"] = und.res.err
		r.sum.UndErr++
	}
	r.emit(ev)
	r.sum.Steps[st.kind]++
	r.sum.ByFork[fork+":"+st.kind]++
	r.sum.Polls += P
	for _, s := range und.sites {
		r.sum.Sites[s]++
	}
	if P > 0 && und.res.Out == "ok" {
		r.sum.LastSites[und.sites[P-1]]++
	}
	for _, c := range und.calls {
		r.sum.EngineCalls[fork+":"+c.Name]++
	}

	fault := func(f map[string]interface{}, fc *faultCtx, eng *recEngine) {
		o := runStep(pre, st, fc, eng)
		names := []string{}
		for _, c := range o.calls {
			names = append(names, c.Name)
		}
		argsok := 0
		if sameCalls(o.calls, und.calls) {
			argsok = 1
		}
		e := map[string]interface{}{"ev": "Fault", "id": id, "fault": f, "polls": o.polls, "ncalls": len(o.calls),
			"callnames": names, "argsok": argsok, "res": o.res}
		if o.res.Out != "ok" {
			e["err"] = o.res.err
		}
		r.emit(e)
		r.sum.Faults++
	}
	ks := make([]int, 0, P+1)
	for k := 1; k <= P+1; k++ {
		ks = append(ks, k)
	}
	if r.budget > 0 && len(ks) > r.budget {
		// keep the first, the last two (last poll, beyond the last poll) and a random sample of the rest
		keep := map[int]bool{1: true, P: true, P + 1: true}
		srng := rand.New(rand.NewSource(r.seed + int64(id)*104729))
		for len(keep) < r.budget {
			keep[1+srng.Intn(P)] = true
		}
		ks = ks[:0]
		for k := range keep {
			ks = append(ks, k)
		}
		sort.Ints(ks)
	}
	for _, k := range ks {
		fault(map[string]interface{}{"kind": "cancel", "k": k, "c": 0, "v": ""}, newFaultCtx(k, false), &recEngine{})
		r.sum.CancelRuns++
	}
	for c := 1; c <= C; c++ {
		for _, v := range []string{"invalid", "error", "errortrue"} {
			fault(map[string]interface{}{"kind": "engine", "k": 0, "c": c, "v": v}, newFaultCtx(0, false), &recEngine{plan: map[int]string{c: v}})
			r.sum.EngineRuns[und.calls[c-1].Name+":"+v]++
		}
	}
}

// derived steps that share the pre-state of a natural step
func (r *recorder) derived(pre *chain.StateCtx, to common.Slot) {
	spe := pre.Spec.SLOTS_PER_EPOCH
	slot := pre.Slot()
	if to <= slot {
		return
	}
	if (slot+1)%spe == 0 && int64(slot) != r.lastEp {
		r.lastEp = int64(slot)
		r.doStep(pre, stepDesc{kind: "epoch", to: slot + 1, note: "process_epoch alone"}, nil)
		// exactly one slot across the boundary: the last poll of process_epoch is the last poll of the step
		r.doStep(pre, stepDesc{kind: "slots", to: slot + 1, note: "one slot across the epoch boundary"}, nil)
	}
}

func (r *recorder) BeforeSlots(c *chain.Chain, to common.Slot) { r.pre = c.StateCtx.Copy(true) }
func (r *recorder) AfterSlots(c *chain.Chain, to common.Slot, err error) {
	pre := r.pre
	r.derived(pre, to)
	r.doStep(pre, stepDesc{kind: "slots", to: to}, plainOf(c, err))
}
func (r *recorder) BeforeBlock(c *chain.Chain, env *common.BeaconBlockEnvelope) {
	r.pre = c.StateCtx.Copy(true)
}
func (r *recorder) AfterBlock(c *chain.Chain, env *common.BeaconBlockEnvelope, err error) {
	pre := r.pre
	r.derived(pre, env.Slot)
	if env.Slot > pre.Slot()+1 || r.rng.Intn(4) == 0 {
		r.doStep(pre, stepDesc{kind: "slots", to: env.Slot, note: "slot processing up to the block's slot"}, nil)
	}
	r.doStep(pre, stepDesc{kind: "block", to: env.Slot, env: env}, plainOf(c, err))
	r.doStep(pre, stepDesc{kind: "blocknv", to: env.Slot, env: env, note: "validateResult=false"}, nil)
	if err == nil && r.badEvery > 0 && r.rng.Intn(r.badEvery) == 0 {
		// an invalid block (state root) on the same pre-state: every fault must still end in an error
		pc := &chain.Chain{StateCtx: pre.Copy(true), Deposits: c.Deposits, Runner: chain.ZrntRunner{}, Ctx: context.Background()}
		if bad, e := pc.MakeVariant("wrong-state-root", env); e == nil {
			r.doStep(pre, stepDesc{kind: "badblock", to: env.Slot, env: bad, note: "wrong-state-root variant"}, nil)
		}
	}
}

func plainOf(c *chain.Chain, err error) *result {
	if err != nil {
		return &result{Out: "err", err: err.Error()}
	}
	return &result{Out: "ok", Root: short(c.StateRoot())}
}

// ---------------------------------------------------------------- chains

type chainCfg struct {
	Name       string `json:"name"`
	Preset     string `json:"preset"`
	Forks      [4]int `json:"forks"` // -1 = never
	Validators int    `json:"validators"`
	Epochs     int    `json:"epochs"`
	Seed       int64  `json:"seed"`
	Corner     string `json:"corner"`
	Budget     int    `json:"budget"`
}

func sched(f [4]int) chain.ForkSchedule {
	e := func(x int) common.Epoch {
		if x < 0 {
			return chain.FarFuture
		}
		return common.Epoch(x)
	}
	return chain.Forks(e(f[0]), e(f[1]), e(f[2]), e(f[3]))
}

func chainList(tier string, seed int64) []chainCfg {
	var out []chainCfg
	add := func(preset string, forks [4]int, epochs int, budget int) {
		i := len(out)
		out = append(out, chainCfg{Name: fmt.Sprintf("r%d-%s-%d.%d.%d.%d", i, preset, forks[0], forks[1], forks[2], forks[3]),
			Preset: preset, Forks: forks, Validators: chain.DefaultValidatorCount(preset), Epochs: epochs,
			Seed: seed*7919 + int64(i), Budget: budget})
	}
	corner := func(name string, budget int) {
		out = append(out, chainCfg{Name: "corner-" + name, Corner: name, Budget: budget})
	}
	if tier == "quick" {
		add("S1", [4]int{1, 2, 3, 4}, 10, 0)
		add("S4", [4]int{1, 2, 3, 4}, 16, 0)
		add("S1", [4]int{0, 0, 0, 0}, 8, 0)
		add("S1", [4]int{0, 0, 1, 2}, 8, 0)
		add("S4", [4]int{0, 1, 1, 3}, 14, 0)
		add("S2", [4]int{1, 1, 2, 3}, 8, 0)
		add("S3", [4]int{0, 0, 0, 1}, 5, 0)
		add("S4", [4]int{2, 4, 6, 8}, 14, 0)
		add("S1", [4]int{0, 1, -1, -1}, 8, 0)
		add("S4", [4]int{-1, -1, -1, -1}, 12, 0)
		add("minimal", [4]int{0, 0, 1, 2}, 3, 10)
		for _, n := range []string{"fork-boundary-blocks", "never-merged", "deposit-mix", "mass-slashing", "sync-patterns"} {
			corner(n, 0)
		}
		return out
	}
	presets := []string{"S1", "S4", "S2", "S3", "S1", "S4"}
	scheds := [][4]int{{1, 2, 3, 4}, {0, 0, 0, 0}, {0, 0, 1, 2}, {0, 1, 1, 3}, {1, 1, 2, 3}, {2, 4, 6, 8}, {0, 0, 0, 1}, {0, 1, -1, -1},
		{-1, -1, -1, -1}, {0, 0, 0, 3}, {1, 1, 1, 1}, {0, 2, 3, 3}}
	rng := rand.New(rand.NewSource(seed))
	for i := 0; i < 130; i++ {
		p := presets[i%len(presets)]
		s := scheds[(i/2+rng.Intn(3))%len(scheds)]
		ep := 12
		if p == "S4" {
			ep = 18
		}
		if p == "S3" {
			ep = 8
		}
		add(p, s, ep, 0)
	}
	add("minimal", [4]int{0, 0, 1, 2}, 4, 0)
	add("minimal", [4]int{1, 1, 2, 3}, 5, 0)
	for _, ns := range chain.CornerScenarios() {
		corner(ns.Name, 0)
	}
	return out
}

func buildChain(cfg chainCfg) (*chain.Chain, []chain.StepPlan, error) {
	if cfg.Corner != "" {
		for _, ns := range chain.CornerScenarios() {
			if ns.Name == cfg.Corner {
				c, err := ns.Build()
				return c, ns.Steps, err
			}
		}
		return nil, nil, fmt.Errorf("unknown corner scenario %q", cfg.Corner)
	}
	spec := chain.NewSpec(cfg.Preset, sched(cfg.Forks))
	c, err := chain.NewGenesis(spec, chain.GenesisOpts{Validators: cfg.Validators})
	if err != nil {
		return nil, nil, err
	}
	steps := chain.RandomScenario(rand.New(rand.NewSource(cfg.Seed)), spec, chain.ScenarioOpts{Epochs: cfg.Epochs, Validators: cfg.Validators})
	return c, steps, nil
}

func main() {
	if len(os.Args) < 2 {
		fmt.Fprintln(os.Stderr, "usage: faults list|rec ...")
		os.Exit(2)
	}
	fs := flag.NewFlagSet(os.Args[1], flag.ExitOnError)
	tier := fs.String("tier", "quick", "")
	seed := fs.Int64("seed", 1, "")
	idx := fs.Int("chain", 0, "")
	outp := fs.String("out", "", "")
	only := fs.Int("only", -1, "")
	_ = fs.Parse(os.Args[2:])
	cfgs := chainList(*tier, *seed)
	switch os.Args[1] {
	case "list":
		_ = json.NewEncoder(os.Stdout).Encode(cfgs)
	case "rec":
		if *idx < 0 || *idx >= len(cfgs) {
			fmt.Fprintln(os.Stderr, "no such chain")
			os.Exit(2)
		}
		cfg := cfgs[*idx]
		f, err := os.Create(*outp)
		if err != nil {
			fmt.Fprintln(os.Stderr, err)
			os.Exit(2)
		}
		defer f.Close()
		c, steps, err := buildChain(cfg)
		if err != nil {
			fmt.Fprintln(os.Stderr, "build chain:", err)
			os.Exit(2)
		}
		badEvery := 10
		r := &recorder{out: json.NewEncoder(f), only: *only, rng: rand.New(rand.NewSource(cfg.Seed ^ 0x5eed)), lastEp: -1,
			budget: cfg.Budget, badEvery: badEvery, seed: cfg.Seed,
			sum: summary{Chain: cfg.Name, Steps: map[string]int{}, ByFork: map[string]int{}, EngineRuns: map[string]int{},
				EngineCalls: map[string]int{}, Sites: map[string]int{}, LastSites: map[string]int{}}}
		c.Observer = r
		// a panic inside zrnt while the chain harness produces a block ends the scenario, not the recording
		defer func() {
			if p := recover(); p != nil {
				fmt.Fprintln(os.Stderr, "scenario stopped by a panic:", p)
				_ = json.NewEncoder(os.Stdout).Encode(r.sum)
			}
		}()
		_, err = c.RunScenario(steps)
		if err != nil {
			// the scenario stops at the first step zrnt refused; what was recorded so far stays valid
			fmt.Fprintln(os.Stderr, "scenario stopped:", err)
		}
		_ = json.NewEncoder(os.Stdout).Encode(r.sum)
	default:
		fmt.Fprintln(os.Stderr, "unknown command")
		os.Exit(2)
	}
}
