package main

// `ssz bits`: replays the cases TLC enumerated from spec/Bits.tla (spec/BitsEval.tla) on the bit-field helper methods of
// the SSZ bitlist/bitvector types and on common.ValidatorSet / common.Version.

import (
	"bufio"
	"bytes"
	"encoding/binary"
	"encoding/json"
	"flag"
	"fmt"
	"os"
	"reflect"

	blsu "github.com/protolambda/bls12-381-util"
	"github.com/protolambda/zrnt/eth2/beacon/altair"
	"github.com/protolambda/zrnt/eth2/beacon/common"
	"github.com/protolambda/zrnt/eth2/beacon/electra"
	"github.com/protolambda/zrnt/eth2/beacon/phase0"
)

type bitType struct {
	name   string
	isList bool // bitlist: the byte form carries the delimiter bit
	mk     func(raw []byte) reflect.Value
}

var bitTypes = []bitType{
	{"phase0.AttestationBits", true, func(b []byte) reflect.Value { return reflect.ValueOf(phase0.AttestationBits(b)) }},
	{"electra.AttestationBits", true, func(b []byte) reflect.Value { return reflect.ValueOf(electra.AttestationBits(b)) }},
	{"altair.SyncCommitteeBits", false, func(b []byte) reflect.Value { return reflect.ValueOf(altair.SyncCommitteeBits(b)) }},
	{"altair.SyncCommitteeSubnetBits", false, func(b []byte) reflect.Value { return reflect.ValueOf(altair.SyncCommitteeSubnetBits(b)) }},
	{"electra.CommitteeBits", false, func(b []byte) reflect.Value { return reflect.ValueOf(electra.CommitteeBits(b)) }},
}

func packBits(bits []int, delimiter bool) []byte {
	n := len(bits)
	if delimiter {
		n++
	}
	out := make([]byte, (n+7)/8)
	for i, b := range bits {
		if b != 0 {
			out[i/8] |= 1 << uint(i%8)
		}
	}
	if delimiter {
		out[len(bits)/8] |= 1 << uint(len(bits)%8)
	}
	return out
}

func ints(x interface{}) []int {
	arr, _ := x.([]interface{})
	out := make([]int, len(arr))
	for i, e := range arr {
		switch t := e.(type) {
		case float64:
			out[i] = int(t)
		case bool:
			if t {
				out[i] = 1
			}
		}
	}
	return out
}

func vidx(x []int) []common.ValidatorIndex {
	out := make([]common.ValidatorIndex, len(x))
	for i, v := range x {
		out[i] = common.ValidatorIndex(v)
	}
	return out
}

func vints(x []common.ValidatorIndex) []int {
	out := make([]int, len(x))
	for i, v := range x {
		out[i] = int(v)
	}
	return out
}

type bitsRun struct {
	devs   []map[string]string
	counts map[string]int
}

func (r *bitsRun) dev(typ, method, f string, a ...interface{}) {
	r.devs = append(r.devs, map[string]string{"prop": "C04", "class": "bits_mismatch", "type": typ, "method": method, "detail": fmt.Sprintf(f, a...)})
}

// call a method of v if it exists; ok=false when the type does not offer it
func (r *bitsRun) call(t bitType, v reflect.Value, method string, args ...interface{}) (out []reflect.Value, ok bool) {
	m := v.MethodByName(method)
	if !m.IsValid() {
		return nil, false
	}
	defer func() {
		if rec := recover(); rec != nil {
			r.dev(t.name, method, "panic: %v", rec)
			out, ok = nil, false
		}
	}()
	in := make([]reflect.Value, len(args))
	for i, a := range args {
		in[i] = reflect.ValueOf(a).Convert(m.Type().In(i))
	}
	r.counts[t.name+"."+method]++
	return m.Call(in), true
}

func cmdBits(args []string) {
	fs := flag.NewFlagSet("bits", flag.ExitOnError)
	cases := fs.String("cases", "bits.ndjson", "cases written by TLC (BitsEval)")
	out := fs.String("out", "bits_report.json", "")
	fs.Parse(args)
	f, err := os.Open(*cases)
	if err != nil {
		die("%v", err)
	}
	defer f.Close()
	r := &bitsRun{counts: map[string]int{}}
	sc := bufio.NewScanner(f)
	sc.Buffer(make([]byte, 1<<20), 1<<26)
	n := 0
	for sc.Scan() {
		if len(bytes.TrimSpace(sc.Bytes())) == 0 {
			continue
		}
		var c map[string]interface{}
		if err := json.Unmarshal(sc.Bytes(), &c); err != nil {
			die("bits case: %v", err)
		}
		n++
		switch c["op"] {
		case "unary":
			r.unary(c)
		case "setbit":
			r.setbit(c)
		case "pair":
			r.pair(c)
		case "dedup":
			l := vidx(ints(c["list"]))
			vs := common.ValidatorSet(l)
			r.counts["common.ValidatorSet.Dedup"]++
			vs.Dedup()
			if !reflect.DeepEqual(vints(vs), ints(c["result"])) {
				r.dev("common.ValidatorSet", "Dedup", "Dedup(%v) = %v, specification %v", c["list"], vints(vs), c["result"])
			}
		case "vpair":
			a, b := common.ValidatorSet(vidx(ints(c["a"]))), common.ValidatorSet(vidx(ints(c["b"])))
			r.counts["common.ValidatorSet.Intersects"]++
			if got := a.Intersects(b); got != c["intersects"].(bool) {
				r.dev("common.ValidatorSet", "Intersects", "%v.Intersects(%v) = %v, specification %v", c["a"], c["b"], got, c["intersects"])
			}
			if c["disjoint"].(bool) {
				r.counts["common.ValidatorSet.MergeDisjoint"]++
				func() {
					defer func() {
						if rec := recover(); rec != nil {
							r.dev("common.ValidatorSet", "MergeDisjoint", "%v.MergeDisjoint(%v) panicked: %v", c["a"], c["b"], rec)
						}
					}()
					if got := a.MergeDisjoint(b); !reflect.DeepEqual(vints(got), ints(c["merged"])) {
						r.dev("common.ValidatorSet", "MergeDisjoint", "%v.MergeDisjoint(%v) = %v, specification %v", c["a"], c["b"], vints(got), c["merged"])
					}
				}()
			}
		case "swap":
			s := common.ValidatorSet(vidx(ints(c["s"])))
			r.counts["common.ValidatorSet.Swap"]++
			s.Swap(int(c["i"].(float64)), int(c["j"].(float64)))
			if !reflect.DeepEqual(vints(s), ints(c["result"])) {
				r.dev("common.ValidatorSet", "Swap", "Swap(%v,%v) = %v, specification %v", c["i"], c["j"], vints(s), c["result"])
			}
		case "version":
			v := ints(c["v"])
			ver := common.Version{byte(v[0]), byte(v[1]), byte(v[2]), byte(v[3])}
			r.counts["common.Version.ToUint32"]++
			if got := ver.ToUint32(); uint64(got) != uint64(c["value"].(float64)) {
				r.dev("common.Version", "ToUint32", "%v.ToUint32() = %d, specification %v", v, got, c["value"])
			}
		default:
			die("unknown bits op %v", c["op"])
		}
	}
	r.kzg()
	js, _ := json.Marshal(map[string]interface{}{"cases": n, "devs": r.devs, "counts": r.counts})
	if err := os.WriteFile(*out, js, 0o644); err != nil {
		die("%v", err)
	}
}

func (r *bitsRun) unary(c map[string]interface{}) {
	a := ints(c["a"])
	comm := vidx(ints(c["committee"]))
	for _, t := range bitTypes {
		v := t.mk(packBits(a, t.isList))
		if out, ok := r.call(t, v, "BitLen"); ok && out[0].Uint() != uint64(c["bitlen"].(float64)) {
			r.dev(t.name, "BitLen", "bits %v: BitLen = %d, specification %v", a, out[0].Uint(), c["bitlen"])
		}
		if out, ok := r.call(t, v, "OnesCount"); ok && out[0].Uint() != uint64(c["ones"].(float64)) {
			r.dev(t.name, "OnesCount", "bits %v: OnesCount = %d, specification %v", a, out[0].Uint(), c["ones"])
		}
		for i, want := range ints(c["bits"]) {
			if out, ok := r.call(t, v, "GetBit", uint64(i)); ok && out[0].Bool() != (want == 1) {
				r.dev(t.name, "GetBit", "bits %v: GetBit(%d) = %v", a, i, out[0].Bool())
			}
		}
		if out, ok := r.call(t, v, "FilterParticipants", append([]common.ValidatorIndex{}, comm...)); ok {
			if got := vints(out[0].Interface().([]common.ValidatorIndex)); !reflect.DeepEqual(got, ints(c["participants"])) {
				r.dev(t.name, "FilterParticipants", "bits %v: %v, specification %v", a, got, c["participants"])
			}
		}
		if out, ok := r.call(t, v, "FilterNonParticipants", append([]common.ValidatorIndex{}, comm...)); ok {
			if got := vints(out[0].Interface().([]common.ValidatorIndex)); !reflect.DeepEqual(got, ints(c["nonparticipants"])) {
				r.dev(t.name, "FilterNonParticipants", "bits %v: %v, specification %v", a, got, c["nonparticipants"])
			}
		}
		if out, ok := r.call(t, v, "SingleParticipant", comm); ok {
			gotErr := !out[1].IsNil()
			switch want := c["single"].(type) {
			case string: // "none" / "many": refused
				if !gotErr {
					r.dev(t.name, "SingleParticipant", "bits %v: returned %d, specification says %s", a, out[0].Uint(), want)
				}
			case float64:
				if gotErr || out[0].Uint() != uint64(want) {
					r.dev(t.name, "SingleParticipant", "bits %v: (%d, err=%v), specification %v", a, out[0].Uint(), gotErr, want)
				}
			}
		}
		if out, ok := r.call(t, v, "Copy"); ok {
			cp := out[0].Bytes()
			if !bytes.Equal(cp, v.Bytes()) {
				r.dev(t.name, "Copy", "bits %v: copy differs", a)
			} else if len(cp) > 0 {
				cp[0] ^= 0xff
				if bytes.Equal(cp, v.Bytes()) {
					r.dev(t.name, "Copy", "bits %v: the copy shares memory with the original", a)
				}
			}
		}
	}
}

func (r *bitsRun) setbit(c map[string]interface{}) {
	a := ints(c["a"])
	for _, t := range bitTypes {
		v := t.mk(packBits(a, t.isList))
		if _, ok := r.call(t, v, "SetBit", uint64(c["i"].(float64)), c["v"].(float64) == 1); ok {
			if want := packBits(ints(c["result"]), t.isList); !bytes.Equal(v.Bytes(), want) {
				r.dev(t.name, "SetBit", "bits %v SetBit(%v,%v): bytes %x, specification %x", a, c["i"], c["v"], v.Bytes(), want)
			}
		}
	}
}

func (r *bitsRun) pair(c map[string]interface{}) {
	a, b := ints(c["a"]), ints(c["b"])
	for _, t := range bitTypes {
		va, vb := t.mk(packBits(a, t.isList)), t.mk(packBits(b, t.isList))
		if out, ok := r.call(t, va, "Covers", vb.Interface()); ok {
			if !out[1].IsNil() || out[0].Bool() != c["covers"].(bool) {
				r.dev(t.name, "Covers", "%v covers %v: (%v, err=%v), specification %v", a, b, out[0].Bool(), !out[1].IsNil(), c["covers"])
			}
		}
		if _, ok := r.call(t, va, "Or", vb.Interface()); ok {
			if want := packBits(ints(c["or"]), t.isList); !bytes.Equal(va.Bytes(), want) {
				r.dev(t.name, "Or", "%v or %v: bytes %x, specification %x", a, b, va.Bytes(), want)
			}
			if !bytes.Equal(vb.Bytes(), packBits(b, t.isList)) {
				r.dev(t.name, "Or", "%v or %v: the argument was modified", a, b)
			}
		}
	}
	// bit fields of different lengths are refused by Covers
	if len(a) > 0 {
		for _, t := range bitTypes {
			if !t.isList {
				continue
			}
			va, vs := t.mk(packBits(a, true)), t.mk(packBits(a[:len(a)-1], true))
			if out, ok := r.call(t, va, "Covers", vs.Interface()); ok && out[1].IsNil() {
				r.dev(t.name, "Covers", "lengths %d and %d compared without error", len(a), len(a)-1)
			}
		}
	}
}

// KZGCommitment.ToPubkey: a commitment is a compressed G1 point; the harness owns the points (sk = 1..4), an oracle like
// every other piece of cryptography: a valid point converts and serialises back to the same bytes, junk is refused.
func (r *bitsRun) kzg() {
	for k := 1; k <= 4; k++ {
		var raw [32]byte
		binary.BigEndian.PutUint64(raw[24:], uint64(k))
		var sk blsu.SecretKey
		if err := sk.Deserialize(&raw); err != nil {
			die("key: %v", err)
		}
		pk, err := blsu.SkToPk(&sk)
		if err != nil {
			die("key: %v", err)
		}
		c := common.KZGCommitment(pk.Serialize())
		r.counts["common.KZGCommitment.ToPubkey"]++
		got, err := c.ToPubkey()
		if err != nil {
			r.dev("common.KZGCommitment", "ToPubkey", "valid point refused: %v", err)
		} else if got.Serialize() != pk.Serialize() {
			r.dev("common.KZGCommitment", "ToPubkey", "point %x converts to %x", c[:], got.Serialize())
		}
	}
	junk := common.KZGCommitment{}
	for i := range junk {
		junk[i] = 0xff
	}
	r.counts["common.KZGCommitment.ToPubkey"]++
	if _, err := junk.ToPubkey(); err == nil {
		r.dev("common.KZGCommitment", "ToPubkey", "48 bytes of 0xff accepted as a curve point")
	}
}
