package main

// Probes that go beyond the five SSZ methods: root-preserving conversions (SignedHeader, Shallow/WithExecutionPayload),
// typed-view constructors (AsX, NewXView, struct.View()) with every accessor, limit checks, and small derived helpers.
// Expected values come from TLC (canonical text tree, merkle plan, sub-plan of one field) wherever there is one.

import (
	"bytes"
	"encoding/json"
	"fmt"
	"reflect"
	"strings"

	"github.com/protolambda/zrnt/eth2/beacon/common"
	"github.com/protolambda/ztyp/codec"
	"github.com/protolambda/ztyp/tree"
	"github.com/protolambda/ztyp/view"

	"verif/harness/sszreg"
)

type probeCtx struct {
	te       *sszreg.TypeEntry
	b        *sszreg.Binding
	spec     *common.Spec
	hFn      tree.HashFn
	res      map[string]interface{}
	ser      []byte
	planRoot [32]byte
	typ      view.TypeDef
	rep      *Report
	dev      func(prop, class, method, f string, a ...interface{})
	note     func(f string, a ...interface{})
}

func (p *probeCtx) count(name string) {
	if p.rep.Probes == nil {
		p.rep.Probes = map[string]int{}
	}
	p.rep.Probes[name]++
	p.rep.Checks++
}

func generic(x interface{}) (interface{}, error) {
	js, err := json.Marshal(x)
	if err != nil {
		return nil, err
	}
	d := json.NewDecoder(bytes.NewReader(js))
	d.UseNumber()
	var out interface{}
	err = d.Decode(&out)
	return out, err
}

var accessorAlias = map[string]string{"receiptroot": "receiptsroot", "random": "prevrandao", "frombLSpubkey": "fromblspubkey"}

func nkey(k string) string { return strings.ToLower(strings.ReplaceAll(k, "_", "")) }

// canonical subtree of a container field, by (normalised) name
func (p *probeCtx) fieldTree(tree interface{}, name string) interface{} {
	m, _ := tree.(map[string]interface{})
	if m == nil || m["k"] != "o" {
		return nil
	}
	fs, _ := m["f"].([]interface{})
	for _, f := range fs {
		fa := f.([]interface{})
		if nkey(fa[0].(string)) == name {
			return fa[1]
		}
	}
	return nil
}

func isViewObj(x interface{}) (view.View, bool) {
	v, ok := x.(view.View)
	if !ok {
		return nil, false
	}
	rv := reflect.ValueOf(x)
	if rv.Kind() == reflect.Ptr && rv.IsNil() {
		return nil, false
	}
	return v, true
}

// compareTypedView: root, Raw() and every accessor of a typed view against the canonical tree of the value
func (p *probeCtx) compareTypedView(label string, wrapped interface{}, canon interface{}, wantRoot *[32]byte) {
	defer func() {
		if r := recover(); r != nil {
			p.dev("C15", "panic", label, "typed view of %s panicked: %v", p.te.Name, r)
		}
	}()
	if vv, ok := isViewObj(wrapped); ok && wantRoot != nil && reflect.ValueOf(wrapped).Kind() == reflect.Ptr {
		p.count(label + "|root")
		if got := vv.HashTreeRoot(p.hFn); got != tree.Root(*wantRoot) {
			p.dev("C05", "view_root_mismatch", label, "typed view root %x, specification root %x", got[:], (*wantRoot)[:])
		}
	}
	rv := reflect.ValueOf(wrapped)
	structView := rv.Kind() == reflect.Ptr && rv.Elem().Kind() == reflect.Struct
	if !structView {
		// a plain value (AsEpoch, AsBLSSignature, ...): it is the value
		if g, err := generic(wrapped); err == nil {
			p.count(label + "|value")
			if why := sszreg.CompareText(canon, g, "$", nil); why != "" {
				p.dev("C15", "typed_view_value_mismatch", label, "%s", why)
			}
		}
		return
	}
	if m := rv.MethodByName("Raw"); m.IsValid() {
		if out, err := callM(wrapped, "Raw", p.spec); err != nil {
			p.dev("C15", "typed_view_error", label+".Raw", "%v", err)
		} else if len(out) == 2 && !out[1].IsNil() {
			p.dev("C15", "typed_view_error", label+".Raw", "%v", out[1].Interface())
		} else if g, err := generic(out[0].Interface()); err == nil {
			p.count(label + "|raw")
			if why := sszreg.CompareText(canon, g, "$", nil); why != "" {
				p.dev("C15", "typed_view_raw_mismatch", label+".Raw", "%s", why)
			}
		}
	}
	// accessors named after container fields
	for i := 0; i < rv.NumMethod(); i++ {
		name := rv.Type().Method(i).Name
		ft := rv.Method(i).Type()
		if ft.NumOut() != 2 || !ft.Out(1).Implements(reflect.TypeOf((*error)(nil)).Elem()) {
			continue
		}
		if ft.NumIn() > 1 || (ft.NumIn() == 1 && ft.In(0) != reflect.TypeOf(p.spec)) {
			continue
		}
		key := nkey(name)
		if al, ok := accessorAlias[key]; ok {
			key = al
		}
		sub := p.fieldTree(canon, key)
		if sub == nil {
			continue
		}
		out, err := callM(wrapped, name, p.spec)
		if err == nil && !out[1].IsNil() {
			err = out[1].Interface().(error)
		}
		if err != nil {
			p.count(label + "|accessor")
			p.dev("C15", "typed_view_error", label+"."+name, "%v", err)
			continue
		}
		val := out[0].Interface()
		if nv, isV := isViewObj(val); isV && out[0].Kind() == reflect.Ptr && out[0].Elem().Kind() == reflect.Struct {
			// a nested typed view: its Raw() is the value and its own accessors are probed recursively; a nested
			// vector/list of fixed-size leaves without Raw() is compared through its encoding
			if want, ok := flatLeaves(sub); ok && !out[0].MethodByName("Raw").IsValid() {
				var buf bytes.Buffer
				p.count(label + "|accessor")
				if err := nv.Serialize(codec.NewEncodingWriter(&buf)); err != nil || !bytes.Equal(buf.Bytes(), want) {
					p.dev("C15", "typed_view_accessor_mismatch", label+"."+name, "sub-view %s holds %s, the value has %s", name, hx(buf.Bytes()), hx(want))
				}
				continue
			}
			p.compareTypedView(label+"."+name, val, sub, nil)
			continue
		}
		g, err := generic(val)
		if err != nil {
			continue
		}
		p.count(label + "|accessor")
		if why := sszreg.CompareText(sub, g, "$."+name, nil); why != "" {
			p.dev("C15", "typed_view_accessor_mismatch", label+"."+name, "%s", why)
		}
	}
}

// flatLeaves: the concatenated bytes of an array of integer / byte-string leaves (= its SSZ encoding)
func flatLeaves(canon interface{}) ([]byte, bool) {
	m, _ := canon.(map[string]interface{})
	if m == nil || m["k"] != "a" {
		return nil, false
	}
	var out []byte
	for _, e := range m["e"].([]interface{}) {
		em, _ := e.(map[string]interface{})
		if em == nil || (em["k"] != "u" && em["k"] != "x") {
			return nil, false
		}
		out = append(out, sszreg.BytesOf(em["b"])...)
	}
	return out, true
}

func evalSub(res map[string]interface{}) (*[32]byte, bool) {
	sp, _ := res["subplan"].([]interface{})
	if len(sp) == 0 {
		return nil, false
	}
	r, _, err := sszreg.EvalPlan(sp)
	if err != nil {
		die("subplan: %v", err)
	}
	return &r, true
}

func runProbes(p *probeCtx) {
	defer func() {
		if r := recover(); r != nil {
			p.dev("C05", "panic", "probe", "probe on %s panicked: %v", p.te.Name, r)
		}
	}()
	canon := p.res["json"]
	var obj interface{}
	if p.b.New != nil {
		obj = p.b.New()
		if deserialize(obj, p.spec, p.ser) != nil {
			obj = nil
		}
	}

	// ---- AsX(view decoded from the canonical encoding)
	if fn := sszreg.AsTable[p.te.Name]; fn != nil && p.typ != nil {
		if v, err := viewDeserialize(p.typ, p.ser); err == nil {
			if wrapped, err := sszreg.CallAs(fn, v); err != nil {
				p.count("as|construct")
				p.dev("C15", "typed_view_error", "As", "typed-view constructor refuses the view of its own type: %v", err)
			} else {
				p.count("as|construct")
				p.compareTypedView("as", wrapped, canon, &p.planRoot)
			}
		}
	}
	// ---- struct.View(): every accessor, Raw, root
	if obj != nil && reflect.ValueOf(obj).MethodByName("View").IsValid() {
		if out, err := callM(obj, "View", p.spec); err == nil && len(out) >= 1 && !(len(out) == 2 && !out[1].IsNil()) {
			if !(out[0].Kind() == reflect.Ptr && out[0].IsNil()) {
				p.compareTypedView("view", out[0].Interface(), canon, &p.planRoot)
			}
		}
	}
	// ---- NewXView(): the default view is the default value
	if nf := sszreg.NewViewTable[p.te.Name]; nf != nil {
		nv := nf(p.spec)
		var buf bytes.Buffer
		if err := nv.Serialize(codec.NewEncodingWriter(&buf)); err == nil && bytes.Equal(buf.Bytes(), p.ser) {
			p.count("new_view|default_root")
			if got := nv.HashTreeRoot(p.hFn); got != tree.Root(p.planRoot) {
				p.dev("C05", "view_root_mismatch", "NewView", "root of the freshly constructed default view %x, specification root of the default value %x", got[:], p.planRoot[:])
			}
		} else if !p.rep.NonZero && len(p.ser) == buf.Len() {
			p.count("new_view|default_encoding")
			p.dev("C04", "ser_mismatch", "NewView", "the freshly constructed default view does not serialize to the default value: %s", firstDiff(p.ser, buf.Bytes()))
		}
	}
	if obj == nil {
		return
	}
	ov := reflect.ValueOf(obj)

	// ---- SignedBeaconBlock.SignedHeader: same root as the block message, same fields, same signature
	if ov.MethodByName("SignedHeader").IsValid() {
		if sub, ok := evalSub(p.res); ok {
			out, err := callM(obj, "SignedHeader", p.spec)
			if err != nil {
				p.dev("C05", "panic", "SignedHeader", "%v", err)
			} else {
				h := out[0].Interface().(*common.SignedBeaconBlockHeader)
				p.count("signed_header|root")
				if got := h.Message.HashTreeRoot(p.hFn); got != tree.Root(*sub) {
					p.dev("C05", "conversion_root_mismatch", "SignedHeader", "header root %x, specification root of the block message %x", got[:], (*sub)[:])
				}
				msg := p.fieldTree(canon, "message")
				g, _ := generic(h)
				gm, _ := g.(map[string]interface{})
				hm, _ := gm["message"].(map[string]interface{})
				for _, k := range []string{"slot", "proposer_index", "parent_root", "state_root"} {
					p.count("signed_header|field")
					if why := sszreg.CompareText(p.fieldTree(msg, nkey(k)), hm[k], "$.message."+k, nil); why != "" {
						p.dev("C05", "conversion_field_mismatch", "SignedHeader", "%s", why)
					}
				}
				p.count("signed_header|field")
				if why := sszreg.CompareText(p.fieldTree(canon, "signature"), gm["signature"], "$.signature", nil); why != "" {
					p.dev("C05", "conversion_field_mismatch", "SignedHeader", "%s", why)
				}
			}
		}
	}

	// ---- BeaconBlockBody.Shallow / WithExecutionPayload / GetTransactions / GetBlobKZGCommitments
	if ov.MethodByName("Shallow").IsValid() {
		p.probeShallow(obj, canon)
	}
	if ov.MethodByName("GetTransactions").IsValid() {
		if out, err := callM(obj, "GetTransactions", p.spec); err == nil {
			g, _ := generic(out[0].Interface())
			p.count("body|get_transactions")
			if why := sszreg.CompareText(p.fieldTree(p.fieldTree(canon, "executionpayload"), "transactions"), g, "$", nil); why != "" {
				p.dev("C15", "typed_view_accessor_mismatch", "GetTransactions", "%s", why)
			}
		}
	}
	if ov.MethodByName("GetBlobKZGCommitments").IsValid() {
		if out, err := callM(obj, "GetBlobKZGCommitments", p.spec); err == nil {
			g, _ := generic(out[0].Interface())
			p.count("body|get_blob_kzg_commitments")
			if why := sszreg.CompareText(p.fieldTree(canon, "blobkzgcommitments"), g, "$", nil); why != "" {
				p.dev("C15", "typed_view_accessor_mismatch", "GetBlobKZGCommitments", "%s", why)
			}
		}
	}
	if ov.MethodByName("CheckLimits").IsValid() {
		p.probeCheckLimits(obj)
	}

	// ---- BitLen of fixed bit vectors
	if p.te.Schema.Kind == "bitvector" && ov.MethodByName("BitLen").IsValid() {
		if out, err := callM(obj, "BitLen", p.spec); err == nil {
			p.count("bitvector|bitlen")
			if out[0].Uint() != p.te.Schema.N {
				p.dev("C04", "bits_mismatch", "BitLen", "BitLen = %d, the schema is Bitvector[%d]", out[0].Uint(), p.te.Schema.N)
			}
		}
	}

	// ---- MetaData.Data / Status.Data: the log form names every field and carries its value
	if m := ov.MethodByName("Data"); m.IsValid() && m.Type().NumIn() == 0 && m.Type().NumOut() == 1 {
		data, _ := m.Call(nil)[0].Interface().(map[string]interface{})
		cm, _ := canon.(map[string]interface{})
		fs, _ := cm["f"].([]interface{})
		p.count("data|fields")
		if len(data) != len(fs) {
			p.dev("C04", "text_value_mismatch", "Data", "Data() has %d entries, the schema %d fields", len(data), len(fs))
		}
		for _, f := range fs {
			fa := f.([]interface{})
			name := fa[0].(string)
			got, ok := data[name]
			if !ok {
				p.dev("C04", "text_value_mismatch", "Data", "Data() lacks %s", name)
				continue
			}
			g, _ := generic(got)
			if leaf, _ := fa[1].(map[string]interface{}); leaf != nil && leaf["k"] == "x" {
				if s, isStr := g.(string); isStr && !strings.HasPrefix(s, "0x") {
					g = "0x" + s // byte fields are logged as bare hex
				}
			}
			p.count("data|field")
			if why := sszreg.CompareText(fa[1], g, "$."+name, nil); why != "" {
				p.dev("C04", "text_value_mismatch", "Data", "%s", why)
			}
		}
	}

	// ---- spec.Wrap: the wrapper proxies the text forms and the SSZ methods of the wrapped object
	if so, ok := obj.(common.SpecObj); ok {
		w := p.spec.Wrap(so)
		p.count("wrap|proxy")
		j1, e1 := json.Marshal(w)
		j2, e2 := json.Marshal(obj)
		if e1 != nil || e2 != nil || !bytes.Equal(j1, j2) {
			p.dev("C04", "text_roundtrip", "Wrap.MarshalJSON", "wrapper marshals differently from the wrapped object (%v, %v)", e1, e2)
		}
		fresh := p.b.New().(common.SpecObj)
		w2 := p.spec.Wrap(fresh)
		if err := json.Unmarshal(j2, w2); err != nil {
			p.dev("C04", "text_roundtrip", "Wrap.UnmarshalJSON", "%v", err)
		} else if got, err := serialize(fresh, p.spec); err != nil || !bytes.Equal(got, p.ser) {
			p.dev("C04", "text_roundtrip", "Wrap.UnmarshalJSON", "value decoded through the wrapper serializes differently")
		}
		if y, err := safeMarshalYAML(w); err != nil {
			p.dev("C04", "text_roundtrip", "Wrap.MarshalYAML", "%v", err)
		} else {
			fresh2 := p.b.New().(common.SpecObj)
			if err := safeUnmarshalYAML(y, p.spec.Wrap(fresh2)); err != nil {
				p.dev("C04", "text_roundtrip", "Wrap.UnmarshalYAML", "%v", err)
			} else if got, err := serialize(fresh2, p.spec); err != nil || !bytes.Equal(got, p.ser) {
				p.dev("C04", "text_roundtrip", "Wrap.UnmarshalYAML", "value decoded through the wrapper serializes differently")
			}
		}
		if ws, ok := w.(common.WrappedSpecObj); ok {
			if sp, in := ws.Unwrap(); sp != p.spec || in != so {
				p.dev("C04", "text_roundtrip", "Wrap.Unwrap", "Unwrap does not return what was wrapped")
			}
		}
	}
}

func (p *probeCtx) probeShallow(obj interface{}, canon interface{}) {
	sub, ok := evalSub(p.res)
	if !ok {
		return
	}
	out, err := callM(obj, "Shallow", p.spec)
	if err != nil {
		p.dev("C05", "panic", "Shallow", "%v", err)
		return
	}
	sh := out[0].Interface()
	p.count("shallow|root")
	if r, err := callM(sh, "HashTreeRoot", p.spec, p.hFn); err != nil {
		p.dev("C05", "panic", "Shallow.HashTreeRoot", "%v", err)
	} else if got := r[0].Interface().(tree.Root); got != tree.Root(p.planRoot) {
		p.dev("C05", "conversion_root_mismatch", "Shallow", "root of the shallow body %x, specification root of the full body %x", got[:], p.planRoot[:])
	}
	shv := reflect.ValueOf(sh).Elem()
	p.count("shallow|payload_root")
	if pr := shv.FieldByName("ExecutionPayloadRoot").Interface().(tree.Root); pr != tree.Root(*sub) {
		p.dev("C05", "conversion_root_mismatch", "Shallow", "execution_payload_root %x, specification root of the payload %x", pr[:], (*sub)[:])
	}
	gs, _ := generic(sh)
	gm, _ := gs.(map[string]interface{})
	cm, _ := canon.(map[string]interface{})
	for _, f := range cm["f"].([]interface{}) {
		fa := f.([]interface{})
		name := fa[0].(string)
		if name == "execution_payload" {
			continue
		}
		p.count("shallow|field")
		if why := sszreg.CompareText(fa[1], gm[name], "$."+name, nil); why != "" {
			p.dev("C05", "conversion_field_mismatch", "Shallow", "%s", why)
		}
	}
	// WithExecutionPayload(payload of the body) gives the body back; a payload with another root is refused
	payload := reflect.ValueOf(obj).Elem().FieldByName("ExecutionPayload")
	if !payload.IsValid() || !reflect.ValueOf(sh).MethodByName("WithExecutionPayload").IsValid() {
		return
	}
	p.count("shallow|with_payload")
	back, err := callM(sh, "WithExecutionPayload", p.spec, payload.Interface())
	if err == nil && !back[1].IsNil() {
		err = back[1].Interface().(error)
	}
	if err != nil {
		p.dev("C05", "conversion_error", "WithExecutionPayload", "the body's own payload is refused: %v", err)
	} else if got, err := serialize(back[0].Interface(), p.spec); err != nil || !bytes.Equal(got, p.ser) {
		p.dev("C05", "conversion_field_mismatch", "WithExecutionPayload", "Shallow().WithExecutionPayload(payload) is not the original body: %s", firstDiff(p.ser, got))
	}
	other := reflect.New(payload.Type())
	other.Elem().Set(payload)
	bh := other.Elem().FieldByName("BlockHash")
	if bh.IsValid() {
		bh.Index(0).SetUint(bh.Index(0).Uint() ^ 1)
		p.count("shallow|with_other_payload")
		r2, err := callM(sh, "WithExecutionPayload", p.spec, other.Elem().Interface())
		if err == nil && r2[1].IsNil() {
			p.dev("C05", "conversion_error", "WithExecutionPayload", "a payload whose root differs from execution_payload_root is accepted")
		}
	}
}

// CheckLimits: a value within every list limit passes (blob commitments are additionally capped by MAX_BLOBS_PER_BLOCK, a
// consensus rule, so a refusal that names them is allowed); a list one over its limit is refused.
func (p *probeCtx) probeCheckLimits(obj interface{}) {
	out, err := callM(obj, "CheckLimits", p.spec)
	if err != nil {
		p.dev("C04", "panic", "CheckLimits", "%v", err)
		return
	}
	p.count("check_limits|valid")
	if !out[0].IsNil() {
		msg := out[0].Interface().(error).Error()
		if !strings.Contains(msg, "blob") {
			p.dev("C04", "valid_refused", "CheckLimits", "a body within all limits is refused: %s", msg)
		}
	}
	var over func(schema *sszreg.Schema, get func(root reflect.Value) reflect.Value, path string)
	over = func(schema *sszreg.Schema, get func(root reflect.Value) reflect.Value, path string) {
		for _, f := range schema.Fields {
			f := f
			fget := func(root reflect.Value) reflect.Value {
				h := get(root)
				for i := 0; i < h.NumField(); i++ {
					tag := strings.Split(h.Type().Field(i).Tag.Get("json"), ",")[0]
					if tag == f.Name {
						return h.Field(i)
					}
				}
				return reflect.Value{}
			}
			switch f.Schema.Kind {
			case "list":
				lim := f.Schema.Lim.Value()
				if lim > 40 {
					continue
				}
				o2 := p.b.New()
				if deserialize(o2, p.spec, p.ser) != nil {
					continue
				}
				fv := fget(reflect.ValueOf(o2).Elem())
				if !fv.IsValid() || fv.Kind() != reflect.Slice {
					continue
				}
				fv.Set(reflect.MakeSlice(fv.Type(), int(lim)+1, int(lim)+1))
				if fv.Type().Elem().Kind() == reflect.Ptr {
					for i := 0; i < fv.Len(); i++ {
						fv.Index(i).Set(reflect.New(fv.Type().Elem().Elem()))
					}
				}
				p.count("check_limits|over")
				r, err := callM(o2, "CheckLimits", p.spec)
				if err != nil {
					p.dev("C04", "panic", "CheckLimits", "%s over limit: %v", path+f.Name, err)
				} else if r[0].IsNil() {
					p.rep.Devs = append(p.rep.Devs, Dev{Prop: "C04", Class: "malformed_accepted", Method: "CheckLimits", Mal: "overlimit", Reason: "list limit @" + path + f.Name,
						Detail: fmt.Sprintf("%s with %d elements (limit %d) passes CheckLimits", path+f.Name, lim+1, lim)})
				}
			case "container":
				if f.Name == "execution_payload" || f.Name == "execution_requests" {
					over(f.Schema, fget, path+f.Name+".")
				}
			}
		}
	}
	over(p.te.Schema, func(root reflect.Value) reflect.Value { return root }, "")
}
