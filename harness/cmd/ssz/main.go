// Command ssz: the Go side of C04/C05 (static part).
//
//	ssz gen   -schemas schemas_<preset>.json -seed N -per K -budget B -out cases.ndjson
//	    generates value trees FROM THE TLC-EXPORTED SCHEMA TABLE (boundary + seeded random); it knows nothing
//	    about encodings.
//	ssz check -schemas schemas_<preset>.json -results results.ndjson -out report.ndjson
//	    binds every schema name to the zrnt type and compares the real code with what TLC computed from
//	    spec/SSZ.tla (encoding, lengths, merkle plan evaluated with crypto/sha256, canonical text tree, refused
//	    malformed encodings).
package main

import (
	"bufio"
	"bytes"
	"crypto/sha256"
	"encoding/hex"
	"encoding/json"
	"flag"
	"fmt"
	"math/rand"
	"os"
	"reflect"
	"regexp"
	"sort"
	"strings"

	"github.com/protolambda/zrnt/eth2/beacon/common"
	"github.com/protolambda/ztyp/codec"
	"github.com/protolambda/ztyp/tree"
	"github.com/protolambda/ztyp/view"
	"gopkg.in/yaml.v3"

	"verif/harness/sszreg"
)

func die(f string, a ...interface{}) {
	fmt.Fprintf(os.Stderr, "ssz: "+f+"\n", a...)
	os.Exit(2)
}

func main() {
	if len(os.Args) < 2 {
		die("usage: ssz gen|check|types ...")
	}
	switch os.Args[1] {
	case "gen":
		cmdGen(os.Args[2:])
	case "check":
		cmdCheck(os.Args[2:])
	case "bits":
		cmdBits(os.Args[2:])
	case "viewtypes": // types that have a typed view: an AsX constructor or a View() method on the struct form
		for _, b := range sszreg.Registry {
			hasView := b.New != nil && reflect.ValueOf(b.New()).MethodByName("View").IsValid()
			if sszreg.AsTable[b.Name] != nil || hasView {
				fmt.Println(b.Name)
			}
		}
	case "types":
		for _, b := range sszreg.Registry {
			fmt.Println(b.Name)
		}
	default:
		die("unknown subcommand %s", os.Args[1])
	}
}

// ---------------------------------------------------------------------------------------------------------------

func cmdGen(args []string) {
	fs := flag.NewFlagSet("gen", flag.ExitOnError)
	schemas := fs.String("schemas", "", "schema table exported by TLC")
	seed := fs.Int64("seed", 1, "seed")
	per := fs.Int("per", 5, "values per type (>=3: default, ones, then random)")
	budget := fs.Int("budget", 12000, "soft cap on leaf bytes per value")
	maxMin := fs.Uint64("maxmin", 70000, "skip types whose smallest value exceeds this many bytes under this preset")
	malMax := fs.Int("malmax", 6000, "only values up to this many leaf bytes get malformed-encoding mutants")
	over := fs.Int("over", 1, "over-limit values to attempt per type")
	filter := fs.String("types", "", "regexp on type names")
	out := fs.String("out", "cases.ndjson", "output")
	startID := fs.Int("startid", 1, "first case id")
	startK := fs.Int("startk", 0, "first value number per type (0 default, 1 ones, 2 full, 3.. random): 3 = random values only")
	fs.Parse(args)
	tab, err := sszreg.LoadTable(*schemas)
	if err != nil {
		die("%v", err)
	}
	var re *regexp.Regexp
	if *filter != "" {
		re = regexp.MustCompile(*filter)
	}
	f, err := os.Create(*out)
	if err != nil {
		die("%v", err)
	}
	w := bufio.NewWriterSize(f, 1<<20)
	id := *startID
	skipped := []string{}
	emit := func(te *sszreg.TypeEntry, v *sszreg.Value, mode string, m int, ol bool, olpath string) {
		var buf bytes.Buffer
		fmt.Fprintf(&buf, `{"id":%d,"t":%q,"mode":%q,"m":%d,"ol":%v,"olpath":%q,"sub":%s,"v":`, id, te.Name, mode, m, ol, olpath, subPath(te))
		v.AppendJSON(&buf)
		buf.WriteString("}\n")
		w.Write(buf.Bytes())
		id++
	}
	for ti, te := range tab.Types {
		if re != nil && !re.MatchString(te.Name) {
			continue
		}
		if te.Schema.MinSize() > *maxMin {
			skipped = append(skipped, te.Name)
			continue
		}
		r := rand.New(rand.NewSource(*seed*1000003 + int64(ti)*7919))
		for k := *startK; k < *startK+*per; k++ {
			g := &sszreg.Gen{R: r, Budget: *budget}
			mode := "random"
			switch k {
			case 0:
				g.Mode, mode = sszreg.GenDefault, "default"
			case 1:
				g.Mode, mode = sszreg.GenOnes, "ones"
			case 2:
				g.Mode, mode = sszreg.GenFull, "full"
				g.Budget = *budget / 2
			default:
				g.Mode = sszreg.GenRandom
				if k%3 == 0 {
					g.Budget = *budget / 8 // small values: many distinct shapes
				}
			}
			v := g.Value(te.Schema)
			m := 0
			if v.Size() <= *malMax {
				m = 1 + r.Intn(1000)
			}
			emit(te, v, mode, m, false, "")
		}
		nl := sszreg.CountLists(te.Schema)
		for k := 0; k < *over && nl > 0; k++ {
			for try := 0; try < 6; try++ {
				g := &sszreg.Gen{R: r, Mode: sszreg.GenRandom, Budget: *budget, OverTarget: 1 + r.Intn(nl), OverCap: 400}
				v := g.Value(te.Schema)
				if g.OverDone {
					emit(te, v, "overlimit", 0, true, g.OverPath)
					break
				}
			}
		}
	}
	w.Flush()
	f.Close()
	js, _ := json.Marshal(map[string]interface{}{"cases": id - *startID, "skipped_too_big": skipped, "next_id": id})
	fmt.Println(string(js))
}

// ---------------------------------------------------------------------------------------------------------------

type Dev struct {
	Prop   string `json:"prop"`
	Class  string `json:"class"`
	Method string `json:"method"`
	Detail string `json:"detail"`
	Mal    string `json:"mal,omitempty"`    // mutation class of a malformed encoding
	Reason string `json:"reason,omitempty"` // why the specification's decoder refuses it
}

type Report struct {
	ID          int            `json:"id"`
	Type        string         `json:"t"`
	Preset      string         `json:"preset"`
	Kind        string         `json:"kind"` // value | overlimit
	Checks      int            `json:"checks"`
	Devs        []Dev          `json:"devs"`
	Notes       []string       `json:"notes"`
	Hash        string         `json:"hash"`
	Bytes       int            `json:"bytes"`
	NonZero     bool           `json:"nonzero"`
	HasView     bool           `json:"has_view"`
	MalTried    int            `json:"mal_tried"`
	PlanHash    int            `json:"plan_hashes"`
	OddVectors  bool           `json:"odd_vectors"`      // the type contains a vector/bitvector whose length is not a power of two
	Probes      map[string]int `json:"probes,omitempty"` // conversion / typed-view / helper probes run on this case
	AliasProbes int            `json:"alias_probes"`
	MalByKind   map[string]int `json:"mal_by_kind,omitempty"`
}

// callM invokes method `name` on obj (a pointer), passing spec first when the method wants it; panics are returned
// as errors tagged "panic".
func callM(obj interface{}, name string, spec *common.Spec, args ...interface{}) (out []reflect.Value, err error) {
	defer func() {
		if r := recover(); r != nil {
			err = fmt.Errorf("panic: %v", r)
		}
	}()
	m := reflect.ValueOf(obj).MethodByName(name)
	if !m.IsValid() {
		return nil, fmt.Errorf("no method %s", name)
	}
	mt := m.Type()
	var in []reflect.Value
	if mt.NumIn() > 0 && mt.In(0) == reflect.TypeOf(spec) {
		in = append(in, reflect.ValueOf(spec))
	}
	for _, a := range args {
		in = append(in, reflect.ValueOf(a))
	}
	if len(in) != mt.NumIn() {
		return nil, fmt.Errorf("method %s wants %d args, have %d", name, mt.NumIn(), len(in))
	}
	return m.Call(in), nil
}

func errOf(v reflect.Value) error {
	if v.IsNil() {
		return nil
	}
	return v.Interface().(error)
}

func deserialize(obj interface{}, spec *common.Spec, data []byte) error {
	dr := codec.NewDecodingReader(bytes.NewReader(data), uint64(len(data)))
	out, err := callM(obj, "Deserialize", spec, dr)
	if err != nil {
		return err
	}
	return errOf(out[0])
}

func serialize(obj interface{}, spec *common.Spec) ([]byte, error) {
	var buf bytes.Buffer
	out, err := callM(obj, "Serialize", spec, codec.NewEncodingWriter(&buf))
	if err != nil {
		return nil, err
	}
	if e := errOf(out[0]); e != nil {
		return nil, e
	}
	return buf.Bytes(), nil
}

func viewDeserialize(typ view.TypeDef, data []byte) (v view.View, err error) {
	defer func() {
		if r := recover(); r != nil {
			err = fmt.Errorf("panic: %v", r)
		}
	}()
	return typ.Deserialize(codec.NewDecodingReader(bytes.NewReader(data), uint64(len(data))))
}

func hx(b []byte) string {
	s := hex.EncodeToString(b)
	if len(s) > 96 {
		return fmt.Sprintf("%s…%s(%dB)", s[:48], s[len(s)-24:], len(b))
	}
	return s
}

func firstDiff(a, b []byte) string {
	n := len(a)
	if len(b) < n {
		n = len(b)
	}
	for i := 0; i < n; i++ {
		if a[i] != b[i] {
			return fmt.Sprintf("first difference at byte %d (want %02x got %02x), lengths want %d got %d", i, a[i], b[i], len(a), len(b))
		}
	}
	return fmt.Sprintf("lengths want %d got %d", len(a), len(b))
}

func isPanic(err error) bool { return err != nil && strings.HasPrefix(err.Error(), "panic:") }

func cmdCheck(args []string) {
	fs := flag.NewFlagSet("check", flag.ExitOnError)
	schemas := fs.String("schemas", "", "schema table exported by TLC")
	results := fs.String("results", "results.ndjson", "TLC output")
	out := fs.String("out", "report.ndjson", "report")
	fs.Parse(args)
	tab, err := sszreg.LoadTable(*schemas)
	if err != nil {
		die("%v", err)
	}
	spec, err := tab.BuildSpec()
	if err != nil {
		die("%v", err)
	}
	reg := sszreg.RegistryByName()
	// table and registry must name the same types (coverage of the inventory is decided here)
	var missing []string
	for _, te := range tab.Types {
		if reg[te.Name] == nil {
			missing = append(missing, "unbound:"+te.Name)
		}
	}
	for n := range reg {
		if tab.ByName[n] == nil {
			missing = append(missing, "noschema:"+n)
		}
	}
	sort.Strings(missing)

	in, err := os.Open(*results)
	if err != nil {
		die("%v", err)
	}
	defer in.Close()
	of, err := os.Create(*out)
	if err != nil {
		die("%v", err)
	}
	w := bufio.NewWriterSize(of, 1<<20)
	sc := bufio.NewScanner(in)
	sc.Buffer(make([]byte, 1<<20), 1<<30)
	hFn := tree.GetHashFn()
	n := 0
	for sc.Scan() {
		line := sc.Bytes()
		if len(bytes.TrimSpace(line)) == 0 {
			continue
		}
		var res map[string]interface{}
		if err := json.Unmarshal(line, &res); err != nil {
			die("results line %d: %v", n+1, err)
		}
		n++
		name := res["t"].(string)
		te, b := tab.ByName[name], reg[name]
		if te == nil || b == nil {
			die("result for unknown type %s", name)
		}
		rep := checkOne(te, b, spec, hFn, res)
		rep.Preset = tab.PresetName
		js, _ := json.Marshal(rep)
		w.Write(js)
		w.WriteByte('\n')
	}
	if err := sc.Err(); err != nil {
		die("reading results: %v", err)
	}
	sum, _ := json.Marshal(map[string]interface{}{"summary": true, "preset": tab.PresetName, "results": n, "binding_gaps": missing,
		"registry": len(reg), "table": len(tab.Types)})
	w.Write(sum)
	w.WriteByte('\n')
	w.Flush()
	of.Close()
}

func checkOne(te *sszreg.TypeEntry, b *sszreg.Binding, spec *common.Spec, hFn tree.HashFn, res map[string]interface{}) *Report {
	rep := &Report{ID: int(res["id"].(float64)), Type: te.Name, Kind: "value", Devs: []Dev{}, Notes: []string{}}
	rep.OddVectors = hasOddVector(te.Schema)
	ser := sszreg.BytesOf(res["ser"])
	rep.Bytes = len(ser)
	h := sha256.Sum256(append([]byte(te.Name+"|"), ser...))
	rep.Hash = hex.EncodeToString(h[:8])
	dev := func(prop, class, method, f string, a ...interface{}) {
		rep.Devs = append(rep.Devs, Dev{Prop: prop, Class: class, Method: method, Detail: fmt.Sprintf(f, a...)})
	}
	devMal := func(class, method, mal, reason, f string, a ...interface{}) {
		rep.Devs = append(rep.Devs, Dev{Prop: "C04", Class: class, Method: method, Detail: fmt.Sprintf(f, a...), Mal: mal, Reason: reason})
	}
	note := func(f string, a ...interface{}) { rep.Notes = append(rep.Notes, fmt.Sprintf(f, a...)) }
	var typ view.TypeDef
	if b.Type != nil {
		typ = b.Type(spec)
		rep.HasView = true
	}

	// ---------------- over-limit value: the encoding must be refused
	if res["ol"].(bool) {
		rep.Kind = "overlimit"
		rep.Checks++
		why, _ := res["olwhy"].(string)
		if p, _ := res["olpath"].(string); true {
			why += " @" + p
		}
		if b.New == nil {
			return rep
		}
		obj := b.New()
		if err := deserialize(obj, spec, ser); err == nil {
			devMal("malformed_accepted", "Deserialize", "overlimit", why, "encoding=%s accepted", hx(ser))
		} else if isPanic(err) {
			devMal("panic", "Deserialize", "overlimit", why, "%v", err)
		}
		if typ != nil {
			rep.Checks++
			if _, err := viewDeserialize(typ, ser); err == nil {
				devMal("malformed_accepted", "view.Deserialize", "overlimit", why, "encoding=%s accepted", hx(ser))
			} else if isPanic(err) {
				devMal("panic", "view.Deserialize", "overlimit", why, "%v", err)
			}
		}
		return rep
	}

	for _, x := range ser {
		if x != 0 {
			rep.NonZero = true
			break
		}
	}
	wantFixed := uint64(res["fixed"].(float64))
	isFixed := res["isfixed"].(bool)
	planRoot, nh, err := sszreg.EvalPlan(res["plan"].([]interface{}))
	if err != nil {
		die("plan of case %d: %v", rep.ID, err)
	}
	rep.PlanHash = nh

	// ---------------- struct form: decode the canonical encoding
	var obj interface{}
	if b.New != nil { // view-only bindings have no struct form
		obj = b.New()
		rep.Checks++
		if err := deserialize(obj, spec, ser); err != nil {
			cl := "valid_refused"
			if isPanic(err) {
				cl = "panic"
			}
			dev("C04", cl, "Deserialize", "canonical encoding %s refused: %v", hx(ser), err)
			obj = nil
		}
	}
	reSer := func(o interface{}, method, what string) {
		rep.Checks++
		got, err := serialize(o, spec)
		if err != nil {
			cl := "serialize_error"
			if isPanic(err) {
				cl = "panic"
			}
			dev("C04", cl, method, "%s: %v", what, err)
		} else if !bytes.Equal(got, ser) {
			dev("C04", "ser_mismatch", method, "%s: %s", what, firstDiff(ser, got))
		}
	}
	if obj != nil {
		reSer(obj, "Serialize", "Serialize(Deserialize(canonical))")
		rep.Checks++
		if out, err := callM(obj, "ByteLength", spec); err != nil {
			dev("C04", "panic", "ByteLength", "%v", err)
		} else if got := out[0].Uint(); got != uint64(len(ser)) {
			dev("C04", "bytelen_mismatch", "ByteLength", "ByteLength=%d, bytes written=%d", got, len(ser))
		}
		rep.Checks++
		if out, err := callM(obj, "FixedLength", spec); err != nil {
			dev("C04", "panic", "FixedLength", "%v", err)
		} else if got := out[0].Uint(); got != wantFixed {
			dev("C04", "fixedlen_mismatch", "FixedLength", "FixedLength=%d, schema says %d (fixed-size=%v)", got, wantFixed, isFixed)
		}
		rep.Checks++
		if out, err := callM(obj, "HashTreeRoot", spec, hFn); err != nil {
			dev("C05", "panic", "HashTreeRoot", "%v", err)
		} else {
			got := out[0].Interface().(tree.Root)
			if got != tree.Root(planRoot) {
				dev("C05", "struct_root_mismatch", "HashTreeRoot", "struct root %x, specification root %x", got[:], planRoot[:])
			}
		}
		// struct -> view conversion, where the type offers one
		if m := reflect.ValueOf(obj).MethodByName("View"); m.IsValid() {
			rep.Checks++
			if out, err := callM(obj, "View", spec); err != nil {
				if isPanic(err) {
					dev("C05", "panic", "View", "%v", err)
				}
			} else if len(out) >= 1 {
				bad := len(out) == 2 && !out[1].IsNil()
				if bad {
					dev("C05", "view_conversion_error", "View", "%v", out[1].Interface())
				} else if hv, ok := out[0].Interface().(interface {
					HashTreeRoot(h tree.HashFn) tree.Root
				}); ok && !(out[0].Kind() == reflect.Ptr && out[0].IsNil()) {
					func() {
						defer func() {
							if r := recover(); r != nil {
								dev("C05", "panic", "View.HashTreeRoot", "%v", r)
							}
						}()
						if got := hv.HashTreeRoot(hFn); got != tree.Root(planRoot) {
							dev("C05", "view_root_mismatch", "View", "root of struct.View() %x, specification root %x", got[:], planRoot[:])
						}
					}()
				}
			}
		}
	}

	// ---------------- argument aliasing: a view converted from a struct holds VALUES; when the caller overwrites the
	// struct afterwards, the view (its encoding, hence its content) must not change
	if obj != nil && reflect.ValueOf(obj).MethodByName("View").IsValid() {
		o2 := b.New()
		if err := deserialize(o2, spec, ser); err == nil {
			if out, err := callM(o2, "View", spec); err == nil && len(out) >= 1 && !(len(out) == 2 && !out[1].IsNil()) {
				if vv, ok := out[0].Interface().(interface {
					Serialize(w *codec.EncodingWriter) error
				}); ok && !(out[0].Kind() == reflect.Ptr && out[0].IsNil()) {
					func() {
						defer func() {
							if r := recover(); r != nil {
								note("alias probe panicked: %v", r)
							}
						}()
						var b1, b2 bytes.Buffer
						if vv.Serialize(codec.NewEncodingWriter(&b1)) != nil {
							return
						}
						cells := sszreg.Scribble(reflect.ValueOf(o2))
						if cells == 0 || vv.Serialize(codec.NewEncodingWriter(&b2)) != nil {
							return
						}
						rep.Checks++
						rep.AliasProbes++
						if !bytes.Equal(b1.Bytes(), b2.Bytes()) {
							dev("C05", "view_aliases_struct", "View", "the view returned by View() changed when the struct was overwritten afterwards: %s", firstDiff(b1.Bytes(), b2.Bytes()))
						}
					}()
				}
			}
		}
	}

	// ---------------- tree-view form
	if typ != nil {
		rep.Checks++
		v, err := viewDeserialize(typ, ser)
		if err != nil {
			cl := "valid_refused"
			if isPanic(err) {
				cl = "panic"
			}
			dev("C04", cl, "view.Deserialize", "canonical encoding %s refused: %v", hx(ser), err)
		} else {
			func() {
				defer func() {
					if r := recover(); r != nil {
						dev("C05", "panic", "view", "%v", r)
					}
				}()
				rep.Checks += 4
				if got := v.HashTreeRoot(hFn); got != tree.Root(planRoot) {
					dev("C05", "view_root_mismatch", "view.HashTreeRoot", "view root %x, specification root %x", got[:], planRoot[:])
				}
				var buf bytes.Buffer
				if err := v.Serialize(codec.NewEncodingWriter(&buf)); err != nil {
					dev("C04", "serialize_error", "view.Serialize", "%v", err)
				} else if !bytes.Equal(buf.Bytes(), ser) {
					dev("C04", "ser_mismatch", "view.Serialize", "%s", firstDiff(ser, buf.Bytes()))
				}
				if n, err := v.ValueByteLength(); err != nil {
					dev("C04", "bytelen_mismatch", "view.ValueByteLength", "%v", err)
				} else if n != uint64(len(ser)) {
					dev("C04", "bytelen_mismatch", "view.ValueByteLength", "ValueByteLength=%d, bytes written=%d", n, len(ser))
				}
				if typ.IsFixedByteLength() != isFixed || typ.TypeByteLength() != wantFixed {
					dev("C04", "fixedlen_mismatch", "view.TypeByteLength", "IsFixedByteLength=%v TypeByteLength=%d, schema says fixed=%v %d",
						typ.IsFixedByteLength(), typ.TypeByteLength(), isFixed, wantFixed)
				}
			}()
		}
	}

	// ---------------- text forms
	if obj != nil {
		keysExact := true
		rep.Checks++
		js, err := safeMarshalJSON(obj)
		if err != nil {
			dev("C04", "text_error", "MarshalJSON", "%v", err)
		} else {
			dec := json.NewDecoder(bytes.NewReader(js))
			dec.UseNumber()
			var generic interface{}
			if err := dec.Decode(&generic); err != nil {
				dev("C04", "text_error", "MarshalJSON", "output is not JSON: %v", err)
			} else if why := sszreg.CompareText(res["json"], generic, "$", &keysExact); why != "" {
				dev("C04", "text_value_mismatch", "MarshalJSON", "%s", why)
			}
			rep.Checks++
			o2 := b.New()
			if err := safeUnmarshalJSON(js, o2); err != nil {
				dev("C04", "text_roundtrip", "UnmarshalJSON", "own JSON output refused: %v (%s)", err, truncS(string(js)))
			} else {
				reSer(o2, "UnmarshalJSON", "Serialize(UnmarshalJSON(MarshalJSON(x)))")
			}
			if !keysExact {
				note("json keys are not spelled as in the specification")
			}
		}
		rep.Checks++
		ys, err := safeMarshalYAML(obj)
		if err != nil {
			dev("C04", "text_error", "MarshalYAML", "%v", err)
		} else {
			o3 := b.New()
			if err := safeUnmarshalYAML(ys, o3); err != nil {
				dev("C04", "text_roundtrip", "UnmarshalYAML", "own YAML output refused: %v (%s)", err, truncS(string(ys)))
			} else {
				reSer(o3, "UnmarshalYAML", "Serialize(UnmarshalYAML(MarshalYAML(x)))")
			}
		}
		// canonical (consensus-spec) JSON as input: informative only, the statement requires round-trips
		if canon, err := sszreg.RenderCanonical(res["json"]); err == nil {
			cj, _ := json.Marshal(canon)
			o4 := b.New()
			if err := safeUnmarshalJSON(cj, o4); err != nil {
				note("canonical JSON refused: %v", truncS(err.Error()))
			} else if got, err := serialize(o4, spec); err != nil || !bytes.Equal(got, ser) {
				if keysExact {
					note("canonical JSON accepted but decodes to a different value")
				}
			} else {
				rep.Checks++
			}
		}
	}

	// ---------------- malformed encodings (refused by the specification's decoder)
	// ---------------- conversions, typed views, derived helpers (probes.go)
	runProbes(&probeCtx{te: te, b: b, spec: spec, hFn: hFn, res: res, ser: ser, planRoot: planRoot, typ: typ, rep: rep, dev: dev, note: note})

	mal, _ := res["mal"].([]interface{})
	rep.MalByKind = map[string]int{}
	for _, mx := range mal {
		ma := mx.([]interface{})
		class := ma[0].(string)
		data := sszreg.BytesOf(ma[1])
		why, _ := ma[2].(string)
		rep.MalTried++
		rep.MalByKind[malKind(class)]++
		rep.Checks++
		if b.New != nil {
			o := b.New()
			if err := deserialize(o, spec, data); err == nil {
				devMal("malformed_accepted", "Deserialize", class, why, "encoding=%s accepted (valid encoding was %s)", hx(data), hx(ser))
			} else if isPanic(err) {
				devMal("panic", "Deserialize", class, why, "encoding=%s: %v", hx(data), err)
			}
		}
		if typ != nil {
			rep.Checks++
			if _, err := viewDeserialize(typ, data); err == nil {
				devMal("malformed_accepted", "view.Deserialize", class, why, "encoding=%s accepted (valid encoding was %s)", hx(data), hx(ser))
			} else if isPanic(err) {
				devMal("panic", "view.Deserialize", class, why, "encoding=%s: %v", hx(data), err)
			}
		}
	}
	return rep
}

func hasOddVector(s *sszreg.Schema) bool {
	switch s.Kind {
	case "vector":
		return s.N&(s.N-1) != 0 || hasOddVector(s.Elem)
	case "bitvector", "bytevector":
		return s.N&(s.N-1) != 0 && s.N > 32
	case "list":
		return hasOddVector(s.Elem)
	case "container":
		for _, f := range s.Fields {
			if hasOddVector(f.Schema) {
				return true
			}
		}
	}
	return false
}

// subPath: the field whose own merkle plan TLC also emits (1-based positions): the message of a signed block, the
// execution payload of a block body
func subPath(te *sszreg.TypeEntry) string {
	if te.Schema.Kind != "container" {
		return "[]"
	}
	if strings.HasSuffix(te.Name, ".SignedBeaconBlock") {
		return "[1]"
	}
	if strings.HasSuffix(te.Name, ".BeaconBlockBody") {
		for i, f := range te.Schema.Fields {
			if f.Name == "execution_payload" {
				return fmt.Sprintf("[%d]", i+1)
			}
		}
	}
	return "[]"
}

func malKind(class string) string {
	if strings.HasPrefix(class, "offset") {
		return "offset"
	}
	return class
}

func truncS(s string) string {
	if len(s) > 200 {
		return s[:200] + "…"
	}
	return s
}

func safeMarshalJSON(o interface{}) (b []byte, err error) {
	defer func() {
		if r := recover(); r != nil {
			err = fmt.Errorf("panic: %v", r)
		}
	}()
	return json.Marshal(o)
}

func safeUnmarshalJSON(b []byte, o interface{}) (err error) {
	defer func() {
		if r := recover(); r != nil {
			err = fmt.Errorf("panic: %v", r)
		}
	}()
	return json.Unmarshal(b, o)
}

func safeMarshalYAML(o interface{}) (b []byte, err error) {
	defer func() {
		if r := recover(); r != nil {
			err = fmt.Errorf("panic: %v", r)
		}
	}()
	return yaml.Marshal(o)
}

func safeUnmarshalYAML(b []byte, o interface{}) (err error) {
	defer func() {
		if r := recover(); r != nil {
			err = fmt.Errorf("panic: %v", r)
		}
	}()
	return yaml.Unmarshal(b, o)
}
