package main

import (
	"bufio"
	"encoding/json"
	"fmt"
	"os"
	"reflect"
	"strconv"
	"strings"

	"github.com/protolambda/zrnt/eth2/beacon/altair"
	"github.com/protolambda/zrnt/eth2/beacon/common"
	"github.com/protolambda/zrnt/eth2/configs"
	"github.com/protolambda/zrnt/eth2/gossipval"
)

// dump writes one json line {"config", "key", "value"} per constant: every field of configs.Mainnet and
// configs.Minimal (key = yaml name of the field, value = its canonical text) and the spec-level Go constants.
// spec/PublishedConstants.tla (an independent transcription of the published presets/configs) is the oracle.
func dump(outPath string) {
	out, err := os.Create(outPath)
	check(err)
	defer out.Close()
	w := bufio.NewWriter(out)
	defer w.Flush()
	n := 0
	emit := func(cfg, key, value string) {
		b, _ := json.Marshal(map[string]string{"config": cfg, "key": key, "value": value})
		w.Write(b)
		w.WriteByte('\n')
		n++
	}
	text := func(v reflect.Value) string {
		if v.Kind() == reflect.String {
			return v.String()
		}
		s := fmt.Sprint(v.Interface())
		if strings.HasPrefix(s, "0x") || strings.HasPrefix(s, "0X") {
			s = strings.ToLower(s)
		}
		return s
	}
	for _, c := range []struct {
		name string
		spec *common.Spec
	}{{"mainnet", configs.Mainnet}, {"minimal", configs.Minimal}} {
		sv := reflect.ValueOf(c.spec).Elem()
		for i := 0; i < sv.NumField(); i++ {
			part := sv.Field(i)
			if sv.Type().Field(i).Name == "ExecutionEngine" || part.Kind() != reflect.Struct {
				continue
			}
			for j := 0; j < part.NumField(); j++ {
				f := part.Type().Field(j)
				key := strings.Split(f.Tag.Get("yaml"), ",")[0]
				if key == "" {
					key = f.Name
				}
				emit(c.name, key, text(part.Field(j)))
			}
		}
	}
	u := func(v uint64) string { return strconv.FormatUint(v, 10) }
	dom := func(d common.BLSDomainType) string { return strings.ToLower(fmt.Sprintf("0x%x", d[:])) }
	k := "constants"
	emit(k, "FAR_FUTURE_EPOCH", u(uint64(common.FAR_FUTURE_EPOCH)))
	emit(k, "BASE_REWARDS_PER_EPOCH", u(common.BASE_REWARDS_PER_EPOCH))
	emit(k, "DEPOSIT_CONTRACT_TREE_DEPTH", u(common.DEPOSIT_CONTRACT_TREE_DEPTH))
	emit(k, "GENESIS_SLOT", u(uint64(common.GENESIS_SLOT)))
	emit(k, "GENESIS_EPOCH", u(uint64(common.GENESIS_EPOCH)))
	emit(k, "JUSTIFICATION_BITS_LENGTH", u(common.JUSTIFICATION_BITS_LENGTH))
	emit(k, "TARGET_AGGREGATORS_PER_COMMITTEE", u(common.TARGET_AGGREGATORS_PER_COMMITTEE))
	emit(k, "BLS_WITHDRAWAL_PREFIX", u(common.BLS_WITHDRAWAL_PREFIX))
	emit(k, "ETH1_ADDRESS_WITHDRAWAL_PREFIX", u(common.ETH1_ADDRESS_WITHDRAWAL_PREFIX))
	emit(k, "SYNC_COMMITTEE_SUBNET_COUNT", u(common.SYNC_COMMITTEE_SUBNET_COUNT))
	emit(k, "TARGET_AGGREGATORS_PER_SYNC_SUBCOMMITTEE", u(common.TARGET_AGGREGATORS_PER_SYNC_SUBCOMMITTEE))
	emit(k, "DOMAIN_BEACON_PROPOSER", dom(common.DOMAIN_BEACON_PROPOSER))
	emit(k, "DOMAIN_BEACON_ATTESTER", dom(common.DOMAIN_BEACON_ATTESTER))
	emit(k, "DOMAIN_RANDAO", dom(common.DOMAIN_RANDAO))
	emit(k, "DOMAIN_DEPOSIT", dom(common.DOMAIN_DEPOSIT))
	emit(k, "DOMAIN_VOLUNTARY_EXIT", dom(common.DOMAIN_VOLUNTARY_EXIT))
	emit(k, "DOMAIN_SELECTION_PROOF", dom(common.DOMAIN_SELECTION_PROOF))
	emit(k, "DOMAIN_AGGREGATE_AND_PROOF", dom(common.DOMAIN_AGGREGATE_AND_PROOF))
	emit(k, "DOMAIN_SYNC_COMMITTEE", dom(common.DOMAIN_SYNC_COMMITTEE))
	emit(k, "DOMAIN_SYNC_COMMITTEE_SELECTION_PROOF", dom(common.DOMAIN_SYNC_COMMITTEE_SELECTION_PROOF))
	emit(k, "DOMAIN_CONTRIBUTION_AND_PROOF", dom(common.DOMAIN_CONTRIBUTION_AND_PROOF))
	emit(k, "DOMAIN_BLS_TO_EXECUTION_CHANGE", dom(common.DOMAIN_BLS_TO_EXECUTION_CHANGE))
	emit(k, "BLOB_TX_TYPE", u(common.BLOB_TX_TYPE))
	emit(k, "VERSIONED_HASH_VERSION_KZG", u(common.VERSIONED_HASH_VERSION_KZG))
	emit(k, "ATTESTATION_SUBNET_COUNT", u(common.ATTESTATION_SUBNET_COUNT))
	emit(k, "MAX_EXTRA_DATA_BYTES", u(common.MAX_EXTRA_DATA_BYTES))
	emit(k, "BYTES_PER_LOGS_BLOOM", u(common.BYTES_PER_LOGS_BLOOM))
	emit(k, "TIMELY_SOURCE_FLAG_INDEX", u(uint64(altair.TIMELY_SOURCE_FLAG_INDEX)))
	emit(k, "TIMELY_TARGET_FLAG_INDEX", u(uint64(altair.TIMELY_TARGET_FLAG_INDEX)))
	emit(k, "TIMELY_HEAD_FLAG_INDEX", u(uint64(altair.TIMELY_HEAD_FLAG_INDEX)))
	emit(k, "TIMELY_SOURCE_WEIGHT", u(uint64(altair.TIMELY_SOURCE_WEIGHT)))
	emit(k, "TIMELY_TARGET_WEIGHT", u(uint64(altair.TIMELY_TARGET_WEIGHT)))
	emit(k, "TIMELY_HEAD_WEIGHT", u(uint64(altair.TIMELY_HEAD_WEIGHT)))
	emit(k, "SYNC_REWARD_WEIGHT", u(uint64(altair.SYNC_REWARD_WEIGHT)))
	emit(k, "PROPOSER_WEIGHT", u(uint64(altair.PROPOSER_WEIGHT)))
	emit(k, "WEIGHT_DENOMINATOR", u(uint64(altair.WEIGHT_DENOMINATOR)))
	emit(k, "FINALIZED_ROOT_GINDEX", u(uint64(altair.FINALIZED_ROOT_INDEX)))
	emit(k, "NEXT_SYNC_COMMITTEE_GINDEX", u(uint64(altair.NEXT_SYNC_COMMITTEE_INDEX)))
	emit(k, "GOSSIP_ATTESTATION_PROPAGATION_SLOT_RANGE", u(gossipval.ATTESTATION_PROPAGATION_SLOT_RANGE))
	emit(k, "GOSSIP_MAXIMUM_GOSSIP_CLOCK_DISPARITY_MS", u(uint64(gossipval.MAXIMUM_GOSSIP_CLOCK_DISPARITY.Milliseconds())))
	fmt.Printf("{\"constants\":%d}\n", n)
}
