// Command forks binds spec/Forks.tla and spec/PublishedConstants.tla (property C14) to zrnt.
//
//	forks replay <forks_table.ndjson> <mismatch.ndjson> <seed> <sigmode>   spec -> code: TLC's (schedule, epoch) table
//	forks dump <out.ndjson>                                           built-in configs + spec-level constants
//
// replay: for every row of the TLC table the schedule is realised as a *common.Spec (several realisations:
// abstract epochs scaled by K; the built-in mainnet/minimal configurations for the rows of their own order type)
// and the real lookups are compared with the row:
//
//	Spec.ForkVersion(slot) for the first/last slot of the epoch,
//	ForkDecoder.ForkDigest(epoch) and BlockAllocator(digest) for several genesis validators roots
//	  (expected digest computed here with crypto/sha256, independent of zrnt),
//	signed block <-> envelope conversion (root, signature, body, type),
//	BeaconBlockEnvelope.VerifySignature for a block signed (real BLS) under each fork version
//	  (domain and signing root computed here with crypto/sha256),
//	state type and state.Fork() after common.ProcessSlots on a StandardUpgradeableBeaconState.
//
// Every disagreement is written as one json line {kind, sched, epoch, real, expected, observed, ...}.
package main

import (
	"bufio"
	"bytes"
	"context"
	"crypto/sha256"
	"encoding/binary"
	"encoding/json"
	"fmt"
	"math/rand"
	"os"
	"reflect"
	"runtime"
	"sort"
	"strconv"
	"strings"
	"sync"

	blsu "github.com/protolambda/bls12-381-util"
	"github.com/protolambda/zrnt/eth2/beacon"
	"github.com/protolambda/zrnt/eth2/beacon/altair"
	"github.com/protolambda/zrnt/eth2/beacon/bellatrix"
	"github.com/protolambda/zrnt/eth2/beacon/capella"
	"github.com/protolambda/zrnt/eth2/beacon/common"
	"github.com/protolambda/zrnt/eth2/beacon/deneb"
	"github.com/protolambda/zrnt/eth2/beacon/electra"
	"github.com/protolambda/zrnt/eth2/beacon/phase0"
	"github.com/protolambda/zrnt/eth2/configs"
	"github.com/protolambda/ztyp/codec"
	"github.com/protolambda/ztyp/tree"
)

const absFAR = 1000000
const absBIG = 999999
const farFuture = ^uint64(0)

var forkNames = []string{"phase0", "altair", "bellatrix", "capella", "deneb", "electra", "fulu"}

func forkIdx(name string) int {
	for i, n := range forkNames {
		if n == name {
			return i
		}
	}
	fatal("unknown fork name " + name)
	return -1
}

type Row struct {
	Sched    []int  `json:"sched"`
	Epoch    int    `json:"epoch"`
	Fork     string `json:"fork"`
	HasState bool   `json:"has_state"`
	StType   string `json:"st_type"`
	StPrev   string `json:"st_prev"`
	StCur    string `json:"st_cur"`
	StEpoch  int    `json:"st_epoch"`
	Verifies []bool `json:"verifies"`
	// get_domain: for message epoch M the version selected from the row's Fork record (and what the configuration
	// reports for M)
	Domain []DomainProbe `json:"domain"`
}

type DomainProbe struct {
	M             int    `json:"m"`
	Version       string `json:"version"`
	ConfigVersion string `json:"config_version"`
}

func fatal(msg string) {
	fmt.Fprintln(os.Stderr, "forks:", msg)
	os.Exit(3)
}

func check(err error) {
	if err != nil {
		fatal(err.Error())
	}
}

// ---------------------------------------------------------------- realisations of an abstract schedule

// versions used by custom specs: distinct, not the published ones, not ordered like the fork order
var customVersions = []common.Version{
	{0x61, 0x00, 0x00, 0x07}, {0x1f, 0x00, 0x00, 0x07}, {0xc2, 0x00, 0x00, 0x07}, {0x03, 0x00, 0x00, 0x07},
	{0x9a, 0x00, 0x00, 0x07}, {0x45, 0x00, 0x00, 0x07}, {0x7e, 0x00, 0x00, 0x07},
}

type realisation struct {
	name     string
	spec     *common.Spec
	versions []common.Version // per fork index
	// concrete epochs to probe for an abstract probe epoch (all must lie in the same fork interval as the abstract one)
	probes func(abs int) []uint64
	// concrete value of an abstract (non-FAR) fork epoch recorded in a Fork record
	forkEpoch func(abs int) uint64
}

func specVersions(sp *common.Spec) []common.Version {
	return []common.Version{sp.GENESIS_FORK_VERSION, sp.ALTAIR_FORK_VERSION, sp.BELLATRIX_FORK_VERSION,
		sp.CAPELLA_FORK_VERSION, sp.DENEB_FORK_VERSION, sp.ELECTRA_FORK_VERSION, sp.FULU_FORK_VERSION}
}

func setForkEpochs(sp *common.Spec, eps []uint64) {
	sp.ALTAIR_FORK_EPOCH = common.Epoch(eps[0])
	sp.BELLATRIX_FORK_EPOCH = common.Epoch(eps[1])
	sp.CAPELLA_FORK_EPOCH = common.Epoch(eps[2])
	sp.DENEB_FORK_EPOCH = common.Epoch(eps[3])
	sp.ELECTRA_FORK_EPOCH = common.Epoch(eps[4])
	sp.FULU_FORK_EPOCH = common.Epoch(eps[5])
}

func forkEpochs(sp *common.Spec) []uint64 {
	return []uint64{uint64(sp.ALTAIR_FORK_EPOCH), uint64(sp.BELLATRIX_FORK_EPOCH), uint64(sp.CAPELLA_FORK_EPOCH),
		uint64(sp.DENEB_FORK_EPOCH), uint64(sp.ELECTRA_FORK_EPOCH), uint64(sp.FULU_FORK_EPOCH)}
}

// customSpec: the minimal preset with our own fork versions and the schedule scaled by k.
func customSpec(sched []int, k uint64, slotsPerEpoch uint64) *common.Spec {
	sp := *configs.Minimal
	sp.CONFIG_NAME = "verif"
	if slotsPerEpoch != 0 {
		sp.SLOTS_PER_EPOCH = common.Slot(slotsPerEpoch)
	}
	sp.GENESIS_FORK_VERSION = customVersions[0]
	sp.ALTAIR_FORK_VERSION = customVersions[1]
	sp.BELLATRIX_FORK_VERSION = customVersions[2]
	sp.CAPELLA_FORK_VERSION = customVersions[3]
	sp.DENEB_FORK_VERSION = customVersions[4]
	sp.ELECTRA_FORK_VERSION = customVersions[5]
	sp.FULU_FORK_VERSION = customVersions[6]
	eps := make([]uint64, 6)
	for i, a := range sched {
		if a == absFAR {
			eps[i] = farFuture
		} else {
			eps[i] = uint64(a) * k
		}
	}
	setForkEpochs(&sp, eps)
	return &sp
}

func scaled(sched []int, k uint64, spe uint64) *realisation {
	sp := customSpec(sched, k, spe)
	maxEpoch := farFuture / uint64(sp.SLOTS_PER_EPOCH)
	return &realisation{
		name: fmt.Sprintf("custom(k=%d,spe=%d)", k, uint64(sp.SLOTS_PER_EPOCH)), spec: sp, versions: specVersions(sp),
		forkEpoch: func(abs int) uint64 { return uint64(abs) * k },
		probes: func(abs int) []uint64 {
			switch {
			case abs == absFAR:
				return []uint64{farFuture}
			case abs == absBIG:
				// the largest epoch that still has slots, and the largest below FAR_FUTURE_EPOCH
				return []uint64{maxEpoch, farFuture - 1}
			default:
				a := uint64(abs)
				if k == 1 {
					return []uint64{a}
				}
				return []uint64{a * k, a*k + 1, a*k + k - 1}
			}
		},
	}
}

// builtin: a built-in configuration realises exactly the rows whose abstract schedule is its own order type.
func builtin(name string, sp *common.Spec) (*realisation, []int) {
	eps := forkEpochs(sp)
	distinct := map[uint64]bool{}
	for _, e := range eps {
		if e != farFuture {
			distinct[e] = true
		}
	}
	vals := make([]uint64, 0)
	for e := range distinct {
		vals = append(vals, e)
	}
	sort.Slice(vals, func(i, j int) bool { return vals[i] < vals[j] })
	rank := map[uint64]int{}
	base := 1
	if len(vals) > 0 && vals[0] == 0 {
		base = 0
	}
	for i, v := range vals {
		rank[v] = base + i
	}
	abs := make([]int, 6)
	for i, e := range eps {
		if e == farFuture {
			abs[i] = absFAR
		} else {
			abs[i] = rank[e]
		}
	}
	concrete := map[int]uint64{}
	for v, r := range rank {
		concrete[r] = v
	}
	maxRank := base + len(vals) - 1
	maxEpoch := farFuture / uint64(sp.SLOTS_PER_EPOCH)
	r := &realisation{name: name, spec: sp, versions: specVersions(sp),
		forkEpoch: func(a int) uint64 {
			if v, ok := concrete[a]; ok {
				return v
			}
			return 0 // the phase0 record (fork.epoch = GENESIS_EPOCH)
		},
		probes: func(a int) []uint64 {
			switch {
			case a == absFAR:
				return []uint64{farFuture}
			case a == absBIG:
				return []uint64{maxEpoch, farFuture - 1}
			case len(vals) == 0: // no fork is ever activated
				return []uint64{uint64(a), uint64(a) * 100000}
			case a > maxRank:
				top := vals[len(vals)-1]
				return []uint64{top + uint64(a-maxRank), top + 100000}
			case a < base: // before the first fork
				return []uint64{0, concrete[base] - 1}
			default:
				lo := concrete[a]
				out := []uint64{lo, lo + 1}
				if a < maxRank {
					out = append(out, concrete[a+1]-1)
				}
				return out
			}
		}}
	return r, abs
}

// ---------------------------------------------------------------- independent glue (crypto/sha256)

func forkDataRoot(v common.Version, gvr common.Root) [32]byte {
	var buf [64]byte
	copy(buf[0:4], v[:])
	copy(buf[32:], gvr[:])
	return sha256.Sum256(buf[:])
}

func expectedDigest(v common.Version, gvr common.Root) common.ForkDigest {
	r := forkDataRoot(v, gvr)
	var d common.ForkDigest
	copy(d[:], r[:4])
	return d
}

// compute_domain(domain_type, fork_version, genesis_validators_root) = domain_type ++ fork_data_root[:28]
func expectedDomain(dt common.BLSDomainType, v common.Version, gvr common.Root) (d common.BLSDomain) {
	fdr := forkDataRoot(v, gvr)
	copy(d[0:4], dt[:])
	copy(d[4:], fdr[:28])
	return
}

var domainTypes = []common.BLSDomainType{common.DOMAIN_BEACON_PROPOSER, common.DOMAIN_BEACON_ATTESTER, common.DOMAIN_RANDAO,
	common.DOMAIN_VOLUNTARY_EXIT, common.DOMAIN_SYNC_COMMITTEE}

// domainVersionName: which fork's version a domain was derived from
func domainVersionName(versions []common.Version, dt common.BLSDomainType, gvr common.Root, d common.BLSDomain) string {
	for i, v := range versions {
		if expectedDomain(dt, v, gvr) == d {
			return forkNames[i]
		}
	}
	return "unknown"
}

// forkRecordDomains: common.Fork.GetDomain on the Fork record of the row (built here from the table), for the message
// epochs fork.epoch-1, fork.epoch, fork.epoch+1 and around the row's epoch. Covers all seven forks.
func forkRecordDomains(c *collector, row *Row, r *realisation, gvrs []common.Root, rng *rand.Rand) {
	if len(row.Domain) == 0 {
		return
	}
	prev, cur := r.versions[forkIdx(row.StPrev)], r.versions[forkIdx(row.StCur)]
	fe := r.forkEpoch(row.StEpoch)
	rec := common.Fork{PreviousVersion: prev, CurrentVersion: cur, Epoch: common.Epoch(fe)}
	for _, p := range row.Domain {
		want := r.versions[forkIdx(p.Version)]
		for _, ce := range r.probes(p.M) {
			gvr := gvrs[rng.Intn(len(gvrs))]
			dt := domainTypes[rng.Intn(len(domainTypes))]
			got, err := rec.GetDomain(dt, gvr, common.Epoch(ce))
			c.count("ForkGetDomain", 1)
			if ce == fe && prev != cur {
				c.count("get_domain_at_fork_epoch", 1)
			}
			if ce+1 == fe && prev != cur {
				c.count("get_domain_before_fork_epoch", 1)
			}
			if err != nil || got != expectedDomain(dt, want, gvr) {
				c.mismatch("ForkGetDomain", row, r.name, map[string]interface{}{"message_epoch": strconv.FormatUint(ce, 10),
					"fork_record": map[string]interface{}{"previous": row.StPrev, "current": row.StCur, "epoch": strconv.FormatUint(fe, 10)},
					"expected": p.Version, "observed": domainVersionName(r.versions, dt, gvr, got)})
			}
		}
	}
}

// signing root of a block root under DOMAIN_BEACON_PROPOSER (0x00000000), version v
func proposerSigningRoot(blockRoot common.Root, v common.Version, gvr common.Root) [32]byte {
	fdr := forkDataRoot(v, gvr)
	var buf [64]byte
	copy(buf[:32], blockRoot[:])
	// domain = domain_type (4 bytes, zero for the proposer domain) ++ fork_data_root[:28]
	copy(buf[36:64], fdr[:28])
	return sha256.Sum256(buf[:])
}

// ---------------------------------------------------------------- blocks of every fork

type signedBlock interface {
	common.SpecObj
	common.EnvelopeBuilder
}

func blockTypeFork(x interface{}) string {
	t := fmt.Sprintf("%T", x) // e.g. *deneb.SignedBeaconBlock, *deneb.BeaconBlockBody, *deneb.BeaconStateView
	t = strings.TrimPrefix(t, "*")
	if i := strings.Index(t, "."); i > 0 {
		return t[:i]
	}
	return t
}

func rnd32(rng *rand.Rand) (out [32]byte) {
	rng.Read(out[:])
	return
}

// newBlock builds a signed block of the fork's type with several non-default header and body fields.
func newBlock(sp *common.Spec, fork string, slot common.Slot, proposer common.ValidatorIndex, rng *rand.Rand) signedBlock {
	syncBits := make(altair.SyncCommitteeBits, (uint64(sp.SYNC_COMMITTEE_SIZE)+7)/8)
	syncBits[0] = 0x05
	parent, stateRoot, graffiti := common.Root(rnd32(rng)), common.Root(rnd32(rng)), common.Root(rnd32(rng))
	eth1 := common.Eth1Data{DepositRoot: common.Root(rnd32(rng)), DepositCount: common.DepositIndex(rng.Intn(1000)), BlockHash: common.Root(rnd32(rng))}
	var randao common.BLSSignature
	rng.Read(randao[:])
	exit := phase0.SignedVoluntaryExit{Message: phase0.VoluntaryExit{Epoch: common.Epoch(rng.Intn(100)), ValidatorIndex: common.ValidatorIndex(rng.Intn(100))}}
	rng.Read(exit.Signature[:])
	var syncSig common.BLSSignature
	rng.Read(syncSig[:])
	blsChange := common.SignedBLSToExecutionChange{}
	blsChange.BLSToExecutionChange.ValidatorIndex = common.ValidatorIndex(rng.Intn(100))
	rng.Read(blsChange.Signature[:])
	var kzg common.KZGCommitment
	rng.Read(kzg[:])
	switch fork {
	case "phase0":
		b := &phase0.SignedBeaconBlock{}
		b.Message.Slot, b.Message.ProposerIndex, b.Message.ParentRoot, b.Message.StateRoot = slot, proposer, parent, stateRoot
		b.Message.Body.Graffiti, b.Message.Body.Eth1Data, b.Message.Body.RandaoReveal = graffiti, eth1, randao
		b.Message.Body.VoluntaryExits = append(b.Message.Body.VoluntaryExits, exit)
		return b
	case "altair":
		b := &altair.SignedBeaconBlock{}
		b.Message.Slot, b.Message.ProposerIndex, b.Message.ParentRoot, b.Message.StateRoot = slot, proposer, parent, stateRoot
		b.Message.Body.Graffiti, b.Message.Body.Eth1Data, b.Message.Body.RandaoReveal = graffiti, eth1, randao
		b.Message.Body.VoluntaryExits = append(b.Message.Body.VoluntaryExits, exit)
		b.Message.Body.SyncAggregate.SyncCommitteeSignature = syncSig
		b.Message.Body.SyncAggregate.SyncCommitteeBits = syncBits
		return b
	case "bellatrix":
		b := &bellatrix.SignedBeaconBlock{}
		b.Message.Slot, b.Message.ProposerIndex, b.Message.ParentRoot, b.Message.StateRoot = slot, proposer, parent, stateRoot
		b.Message.Body.Graffiti, b.Message.Body.Eth1Data, b.Message.Body.RandaoReveal = graffiti, eth1, randao
		b.Message.Body.VoluntaryExits = append(b.Message.Body.VoluntaryExits, exit)
		b.Message.Body.SyncAggregate.SyncCommitteeSignature = syncSig
		b.Message.Body.SyncAggregate.SyncCommitteeBits = syncBits
		b.Message.Body.ExecutionPayload.ParentHash = common.Root(rnd32(rng))
		b.Message.Body.ExecutionPayload.BlockNumber = 77
		return b
	case "capella":
		b := &capella.SignedBeaconBlock{}
		b.Message.Slot, b.Message.ProposerIndex, b.Message.ParentRoot, b.Message.StateRoot = slot, proposer, parent, stateRoot
		b.Message.Body.Graffiti, b.Message.Body.Eth1Data, b.Message.Body.RandaoReveal = graffiti, eth1, randao
		b.Message.Body.VoluntaryExits = append(b.Message.Body.VoluntaryExits, exit)
		b.Message.Body.SyncAggregate.SyncCommitteeSignature = syncSig
		b.Message.Body.SyncAggregate.SyncCommitteeBits = syncBits
		b.Message.Body.ExecutionPayload.ParentHash = common.Root(rnd32(rng))
		b.Message.Body.ExecutionPayload.BlockNumber = 78
		b.Message.Body.BLSToExecutionChanges = append(b.Message.Body.BLSToExecutionChanges, blsChange)
		return b
	case "deneb":
		b := &deneb.SignedBeaconBlock{}
		b.Message.Slot, b.Message.ProposerIndex, b.Message.ParentRoot, b.Message.StateRoot = slot, proposer, parent, stateRoot
		b.Message.Body.Graffiti, b.Message.Body.Eth1Data, b.Message.Body.RandaoReveal = graffiti, eth1, randao
		b.Message.Body.VoluntaryExits = append(b.Message.Body.VoluntaryExits, exit)
		b.Message.Body.SyncAggregate.SyncCommitteeSignature = syncSig
		b.Message.Body.SyncAggregate.SyncCommitteeBits = syncBits
		b.Message.Body.ExecutionPayload.ParentHash = common.Root(rnd32(rng))
		b.Message.Body.ExecutionPayload.BlockNumber = 79
		b.Message.Body.ExecutionPayload.ExcessBlobGas = 5
		b.Message.Body.BLSToExecutionChanges = append(b.Message.Body.BLSToExecutionChanges, blsChange)
		b.Message.Body.BlobKZGCommitments = append(b.Message.Body.BlobKZGCommitments, kzg)
		return b
	case "electra":
		b := &electra.SignedBeaconBlock{}
		b.Message.Slot, b.Message.ProposerIndex, b.Message.ParentRoot, b.Message.StateRoot = slot, proposer, parent, stateRoot
		b.Message.Body.Graffiti, b.Message.Body.Eth1Data, b.Message.Body.RandaoReveal = graffiti, eth1, randao
		b.Message.Body.VoluntaryExits = append(b.Message.Body.VoluntaryExits, exit)
		b.Message.Body.SyncAggregate.SyncCommitteeSignature = syncSig
		b.Message.Body.SyncAggregate.SyncCommitteeBits = syncBits
		b.Message.Body.ExecutionPayload.ParentHash = common.Root(rnd32(rng))
		b.Message.Body.ExecutionPayload.BlockNumber = 80
		b.Message.Body.BLSToExecutionChanges = append(b.Message.Body.BLSToExecutionChanges, blsChange)
		b.Message.Body.BlobKZGCommitments = append(b.Message.Body.BlobKZGCommitments, kzg)
		return b
	}
	return nil
}

func setSignature(b signedBlock, sig common.BLSSignature) {
	reflect.ValueOf(b).Elem().FieldByName("Signature").Set(reflect.ValueOf(sig))
}

func getSignature(b interface{}) common.BLSSignature {
	return reflect.ValueOf(b).Elem().FieldByName("Signature").Interface().(common.BLSSignature)
}

// messageRoot: hash-tree-root of the block message (spec-aware types)
func messageRoot(sp *common.Spec, b interface{}) common.Root {
	msg := reflect.ValueOf(b).Elem().FieldByName("Message").Addr().Interface().(common.SpecObj)
	return msg.HashTreeRoot(sp, tree.GetHashFn())
}

func bodyOf(b interface{}) common.SpecObj {
	return reflect.ValueOf(b).Elem().FieldByName("Message").FieldByName("Body").Addr().Interface().(common.SpecObj)
}

func serialize(sp *common.Spec, o common.SpecObj) []byte {
	var buf bytes.Buffer
	check(o.Serialize(sp, codec.NewEncodingWriter(&buf)))
	return buf.Bytes()
}

// ---------------------------------------------------------------- mismatch collection

type collector struct {
	mu     sync.Mutex
	w      *bufio.Writer
	n      int
	counts map[string]int
}

func (c *collector) count(kind string, n int) {
	c.mu.Lock()
	c.counts[kind] += n
	c.mu.Unlock()
}

func (c *collector) mismatch(kind string, row *Row, real string, fields map[string]interface{}) {
	rec := map[string]interface{}{"kind": kind, "sched": row.Sched, "epoch": row.Epoch, "fork": row.Fork, "real": real}
	for k, v := range fields {
		rec[k] = v
	}
	b, _ := json.Marshal(rec)
	c.mu.Lock()
	c.w.Write(b)
	c.w.WriteByte('\n')
	c.n++
	c.mu.Unlock()
}

func versionName(versions []common.Version, v common.Version) string {
	for i, x := range versions {
		if x == v {
			return forkNames[i]
		}
	}
	return "unknown(" + v.String() + ")"
}

// ---------------------------------------------------------------- per-row checks

type keyPair struct {
	sk  blsu.SecretKey
	pub common.BLSPubkey
}

func makeKey(i int) keyPair {
	var b [32]byte
	binary.BigEndian.PutUint64(b[24:], uint64(i)+1)
	var sk blsu.SecretKey
	check(sk.Deserialize(&b))
	pk, err := blsu.SkToPk(&sk)
	check(err)
	return keyPair{sk: sk, pub: common.BLSPubkey(pk.Serialize())}
}

func lookups(c *collector, row *Row, r *realisation, gvrs []common.Root, rng *rand.Rand, sigMode string, key keyPair) {
	sp := r.spec
	want := forkIdx(row.Fork)
	spe := uint64(sp.SLOTS_PER_EPOCH)
	forkRecordDomains(c, row, r, gvrs, rng)
	for _, ep := range r.probes(row.Epoch) {
		// Spec.ForkVersion for the first and last slot of the epoch (if the epoch has slots)
		var slots []uint64
		if ep <= farFuture/spe && (ep+1 <= farFuture/spe) {
			slots = []uint64{ep * spe, ep*spe + spe - 1}
		} else if ep <= farFuture/spe {
			slots = []uint64{ep * spe, farFuture}
		}
		for _, s := range slots {
			got := sp.ForkVersion(common.Slot(s))
			c.count("ForkVersion", 1)
			if got != r.versions[want] {
				c.mismatch("ForkVersion", row, r.name, map[string]interface{}{"slot": strconv.FormatUint(s, 10),
					"concrete_epoch": strconv.FormatUint(ep, 10), "expected": row.Fork, "observed": versionName(r.versions, got)})
			}
		}
		for gi, gvr := range gvrs {
			dec := beacon.NewForkDecoder(sp, gvr)
			digest := dec.ForkDigest(common.Epoch(ep))
			c.count("ForkDigest", 1)
			wantDigest := expectedDigest(r.versions[want], gvr)
			if digest != wantDigest {
				obs := "unknown(" + digest.String() + ")"
				for i := range forkNames {
					if expectedDigest(r.versions[i], gvr) == digest {
						obs = forkNames[i]
					}
				}
				c.mismatch("ForkDigest", row, r.name, map[string]interface{}{"concrete_epoch": strconv.FormatUint(ep, 10),
					"gvr": gvr.String(), "expected": row.Fork, "observed": obs})
			}
			// block type selected for the digest the specification prescribes (zrnt has no fulu block type)
			if row.Fork != "fulu" {
				alloc, err := dec.BlockAllocator(wantDigest)
				c.count("BlockAllocator", 1)
				if err != nil {
					c.mismatch("BlockAllocator", row, r.name, map[string]interface{}{"expected": row.Fork, "observed": "error: " + err.Error()})
				} else if t := blockTypeFork(alloc()); t != row.Fork {
					c.mismatch("BlockAllocator", row, r.name, map[string]interface{}{"expected": row.Fork, "observed": t})
				}
			}
			// envelope signature check
			if len(slots) == 0 || row.Fork == "fulu" || sigMode == "none" || (sigMode == "first-gvr" && gi > 0) {
				continue
			}
			slot := slots[rng.Intn(len(slots))]
			proposer := common.ValidatorIndex(rng.Intn(1 << 20))
			blk := newBlock(sp, row.Fork, common.Slot(slot), proposer, rng)
			root := messageRoot(sp, blk)
			for v := 0; v < len(forkNames); v++ {
				sr := proposerSigningRoot(root, r.versions[v], gvr)
				sig := blsu.Sign(&key.sk, sr[:])
				setSignature(blk, common.BLSSignature(sig.Serialize()))
				// the envelope carries the digest the decoder reports for this epoch; a forger could also choose the
				// digest of the version it signed under: both must fail for a wrong version
				digests := []common.ForkDigest{wantDigest}
				if v != want {
					digests = append(digests, expectedDigest(r.versions[v], gvr))
				}
				for _, dg := range digests {
					env := blk.Envelope(sp, dg)
					ok := env.VerifySignature(sp, gvr, proposer, &common.CachedPubkey{Compressed: key.pub})
					c.count("VerifySignature", 1)
					if ok != row.Verifies[v] {
						c.mismatch("VerifySignature", row, r.name, map[string]interface{}{"slot": strconv.FormatUint(slot, 10),
							"signed_under": forkNames[v], "digest_of": versionName(r.versions, versionOfDigest(r.versions, gvr, dg)),
							"expected": row.Verifies[v], "observed": ok})
					}
				}
			}
			// wrong proposer index / wrong key never verify (sanity of the positive case)
		}
	}
}

func versionOfDigest(versions []common.Version, gvr common.Root, d common.ForkDigest) common.Version {
	for _, v := range versions {
		if expectedDigest(v, gvr) == d {
			return v
		}
	}
	return common.Version{0xff, 0xff, 0xff, 0xff}
}

// envelopeRoundTrip: signed block -> envelope -> signed block preserves root, signature, body and type.
func envelopeRoundTrip(c *collector, sp *common.Spec, rng *rand.Rand) {
	for _, fork := range forkNames[:6] {
		row := &Row{Sched: []int{}, Epoch: -1, Fork: fork}
		blk := newBlock(sp, fork, common.Slot(rng.Intn(1000)), common.ValidatorIndex(rng.Intn(1000)), rng)
		var sig common.BLSSignature
		rng.Read(sig[:])
		setSignature(blk, sig)
		var digest common.ForkDigest
		rng.Read(digest[:])
		env := blk.Envelope(sp, digest)
		c.count("Envelope", 1)
		bad := []string{}
		hdr := reflect.ValueOf(blk).Elem().FieldByName("Message")
		if env.Slot != hdr.FieldByName("Slot").Interface().(common.Slot) ||
			env.ProposerIndex != hdr.FieldByName("ProposerIndex").Interface().(common.ValidatorIndex) ||
			env.ParentRoot != hdr.FieldByName("ParentRoot").Interface().(common.Root) ||
			env.StateRoot != hdr.FieldByName("StateRoot").Interface().(common.Root) {
			bad = append(bad, "header-fields")
		}
		if env.BlockRoot != messageRoot(sp, blk) {
			bad = append(bad, "block-root")
		}
		if env.BeaconBlockHeader.HashTreeRoot(tree.GetHashFn()) != messageRoot(sp, blk) {
			bad = append(bad, "header-root")
		}
		if env.Signature != sig {
			bad = append(bad, "signature")
		}
		if env.ForkDigest != digest {
			bad = append(bad, "digest")
		}
		if env.Body == nil || env.Body.HashTreeRoot(sp, tree.GetHashFn()) != bodyOf(blk).HashTreeRoot(sp, tree.GetHashFn()) ||
			env.BodyRoot != bodyOf(blk).HashTreeRoot(sp, tree.GetHashFn()) {
			bad = append(bad, "body-root")
		} else if !bytes.Equal(serialize(sp, env.Body), serialize(sp, bodyOf(blk))) {
			bad = append(bad, "body-bytes")
		}
		if blockTypeFork(env.Body) != fork {
			bad = append(bad, "body-type")
		}
		back, err := beacon.EnvelopeToSignedBeaconBlock(env)
		if err != nil {
			bad = append(bad, "back-error:"+err.Error())
		} else {
			if blockTypeFork(back) != fork {
				bad = append(bad, "back-type:"+blockTypeFork(back))
			}
			if back.HashTreeRoot(sp, tree.GetHashFn()) != blk.HashTreeRoot(sp, tree.GetHashFn()) {
				bad = append(bad, "back-root")
			}
			if !bytes.Equal(serialize(sp, back), serialize(sp, blk)) {
				bad = append(bad, "back-bytes")
			}
			if getSignature(back) != sig {
				bad = append(bad, "back-signature")
			}
		}
		if len(bad) > 0 {
			c.mismatch("Envelope", row, "custom", map[string]interface{}{"expected": "preserved", "observed": bad})
		}
	}
}

// ---------------------------------------------------------------- chains

type chainObs struct {
	Type  string
	Prev  string
	Cur   string
	Epoch uint64
}

func observeState(st common.BeaconState, versions []common.Version) chainObs {
	f, err := st.Fork()
	check(err)
	return chainObs{Type: blockTypeFork(st), Prev: versionName(versions, f.PreviousVersion), Cur: versionName(versions, f.CurrentVersion), Epoch: uint64(f.Epoch)}
}

// runChain advances one chain under the schedule and compares the state at the first, a middle and the last slot of
// every epoch that has a row.
func runChain(c *collector, rows []*Row, sched []int, nval int, spe uint64, k uint64) {
	r := scaled(sched, k, spe)
	sp := r.spec
	vals := make([]phase0.KickstartValidatorData, nval)
	for i := range vals {
		kp := makeKey(1000 + i)
		vals[i] = phase0.KickstartValidatorData{Pubkey: kp.pub, Balance: sp.MAX_EFFECTIVE_BALANCE}
		vals[i].WithdrawalCredentials[31] = byte(i)
	}
	genesis, epc, err := phase0.KickStartState(sp, common.Root{0x42}, 1700000000, vals)
	check(err)
	state := &beacon.StandardUpgradeableBeaconState{BeaconState: genesis}
	ctx := context.Background()
	// forks scheduled at epoch 0: the genesis state is upgraded before the first slot
	if err := state.UpgradeMaybe(ctx, sp, epc); err != nil {
		c.mismatch("Chain", rows[0], r.name, map[string]interface{}{"expected": "genesis upgrade", "observed": "error: " + err.Error()})
		return
	}
	byEpoch := map[int]*Row{}
	maxE := 0
	for _, row := range rows {
		byEpoch[row.Epoch] = row
		if row.Epoch > maxE {
			maxE = row.Epoch
		}
	}
	speU := uint64(sp.SLOTS_PER_EPOCH)
	lastSlot := (uint64(maxE)*k+k-1)*speU + speU - 1
	compare := func(slot uint64) {
		ce := slot / speU       // concrete epoch
		row := byEpoch[int(ce/k)] // abstract epoch of the row
		if row == nil {
			return
		}
		obs := observeState(state.BeaconState, r.versions)
		c.count("State", 1)
		wantEpoch := uint64(row.StEpoch) * k
		if obs.Type != row.StType || obs.Prev != row.StPrev || obs.Cur != row.StCur || obs.Epoch != wantEpoch {
			c.mismatch("State", row, r.name, map[string]interface{}{"slot": strconv.FormatUint(slot, 10), "validators": nval,
				"expected": chainObs{row.StType, row.StPrev, row.StCur, wantEpoch}, "observed": obs})
		}
		// the configuration's answer for this very slot names the state's current version
		fv := versionName(r.versions, sp.ForkVersion(common.Slot(slot)))
		c.count("StateVsForkVersion", 1)
		if fv != obs.Cur {
			c.mismatch("StateVsForkVersion", row, r.name, map[string]interface{}{"slot": strconv.FormatUint(slot, 10),
				"expected": obs.Cur, "observed": fv})
		}
		// get_domain on the real state: message epochs around the state's epoch and around its recorded fork epoch
		gvr, err := state.GenesisValidatorsRoot()
		check(err)
		frec, err := state.Fork()
		check(err)
		for _, p := range row.Domain {
			want := r.versions[forkIdx(p.Version)]
			for _, me := range r.probes(p.M) {
				dt := domainTypes[int(slot+me)%len(domainTypes)]
				got, err := common.GetDomain(state.BeaconState, dt, common.Epoch(me))
				c.count("StateGetDomain", 1)
				boundary := me == uint64(frec.Epoch) && frec.PreviousVersion != frec.CurrentVersion
				if boundary {
					c.count("get_domain_at_fork_epoch", 1)
				}
				if err != nil || got != expectedDomain(dt, want, gvr) {
					c.mismatch("StateGetDomain", row, r.name, map[string]interface{}{"slot": strconv.FormatUint(slot, 10),
						"message_epoch": strconv.FormatUint(me, 10), "at_fork_epoch": boundary,
						"expected": p.Version, "observed": domainVersionName(r.versions, dt, gvr, got)})
				}
			}
		}
		// cross-check: a message of the state's own epoch is verified under the version the configuration reports
		// for that epoch (Forks!DomainAgreement)
		for _, dt := range domainTypes {
			got, err := common.GetDomain(state.BeaconState, dt, common.Epoch(ce))
			c.count("DomainVsForkVersion", 1)
			if err != nil || got != expectedDomain(dt, sp.ForkVersion(common.Slot(slot)), gvr) {
				c.mismatch("DomainVsForkVersion", row, r.name, map[string]interface{}{"slot": strconv.FormatUint(slot, 10),
					"message_epoch": strconv.FormatUint(ce, 10), "at_fork_epoch": ce == uint64(frec.Epoch) && frec.PreviousVersion != frec.CurrentVersion,
					"expected": versionName(r.versions, sp.ForkVersion(common.Slot(slot))), "observed": domainVersionName(r.versions, dt, gvr, got)})
			}
		}
	}
	compare(0)
	for slot := uint64(1); slot <= lastSlot; slot++ {
		if err := common.ProcessSlots(ctx, sp, epc, state, common.Slot(slot)); err != nil {
			c.mismatch("Chain", rows[0], r.name, map[string]interface{}{"slot": strconv.FormatUint(slot, 10), "expected": "ProcessSlots succeeds", "observed": "error: " + err.Error()})
			return
		}
		pos := slot % speU
		if pos == 0 || pos == speU-1 || pos == 1 {
			compare(slot)
		}
	}
	c.count("Chains", 1)
}

// ---------------------------------------------------------------- replay

func replay(tablePath, outPath string, seed int64, sigMode string, chainsMode string) {
	f, err := os.Open(tablePath)
	check(err)
	defer f.Close()
	var rows []*Row
	sc := bufio.NewScanner(f)
	sc.Buffer(make([]byte, 1<<20), 1<<26)
	for sc.Scan() {
		if len(bytes.TrimSpace(sc.Bytes())) == 0 {
			continue
		}
		row := &Row{}
		check(json.Unmarshal(sc.Bytes(), row))
		rows = append(rows, row)
	}
	check(sc.Err())
	out, err := os.Create(outPath)
	check(err)
	defer out.Close()
	w := bufio.NewWriter(out)
	c := &collector{w: w, counts: map[string]int{}}
	rng := rand.New(rand.NewSource(seed))

	gvrs := []common.Root{{}, common.Root(rnd32(rng)), common.Root(rnd32(rng))}
	gvrs[0][0] = 0x01

	mainnetR, mainnetAbs := builtin("configs.Mainnet", configs.Mainnet)
	minimalR, minimalAbs := builtin("configs.Minimal", configs.Minimal)
	sameSched := func(a, b []int) bool { return reflect.DeepEqual(a, b) }

	type job struct {
		row *Row
		r   *realisation
		sig string
	}
	var jobs []job
	ks := []uint64{1, 3, 1 << 33}
	bySched := map[string][]*Row{}
	for _, row := range rows {
		key := fmt.Sprint(row.Sched)
		bySched[key] = append(bySched[key], row)
		for i, k := range ks {
			sig := "none"
			if i == 0 {
				sig = sigMode
			}
			jobs = append(jobs, job{row, scaled(row.Sched, k, 0), sig})
		}
		if sameSched(row.Sched, mainnetAbs) {
			jobs = append(jobs, job{row, mainnetR, "first-gvr"})
		}
		if sameSched(row.Sched, minimalAbs) {
			jobs = append(jobs, job{row, minimalR, "first-gvr"})
		}
	}
	builtinRows := 0
	for _, j := range jobs {
		if j.r == mainnetR || j.r == minimalR {
			builtinRows++
		}
	}
	key := makeKey(7)
	var wg sync.WaitGroup
	ch := make(chan int)
	for wk := 0; wk < runtime.NumCPU(); wk++ {
		wg.Add(1)
		go func(wk int) {
			defer wg.Done()
			for i := range ch {
				j := jobs[i]
				lrng := rand.New(rand.NewSource(seed*1000003 + int64(i)))
				lookups(c, j.row, j.r, gvrs, lrng, j.sig, key)
			}
		}(wk)
	}
	for i := range jobs {
		ch <- i
	}
	close(ch)
	wg.Wait()

	// envelope round trips under the minimal and mainnet presets
	for i := 0; i < 8; i++ {
		envelopeRoundTrip(c, configs.Minimal, rng)
		envelopeRoundTrip(c, configs.Mainnet, rng)
	}

	// chains
	type cjob struct {
		sched []int
		rows  []*Row
		nval  int
		spe   uint64
		k     uint64
	}
	var cjobs []cjob
	keys := make([]string, 0, len(bySched))
	for k := range bySched {
		keys = append(keys, k)
	}
	sort.Strings(keys)
	for _, k := range keys {
		rs := []*Row{}
		for _, row := range bySched[k] {
			if row.HasState {
				rs = append(rs, row)
			}
		}
		if len(rs) == 0 {
			continue
		}
		nvals := []int{8, 12, 16, 24}
		cjobs = append(cjobs, cjob{rs[0].Sched, rs, nvals[rng.Intn(len(nvals))], 0, 1})
		if chainsMode == "full" {
			cjobs = append(cjobs, cjob{rs[0].Sched, rs, nvals[rng.Intn(len(nvals))], 4, 1})
			cjobs = append(cjobs, cjob{rs[0].Sched, rs, nvals[rng.Intn(len(nvals))], 0, 2})
		}
	}
	ch2 := make(chan int)
	for wk := 0; wk < runtime.NumCPU(); wk++ {
		wg.Add(1)
		go func() {
			defer wg.Done()
			for i := range ch2 {
				j := cjobs[i]
				func() {
					defer func() {
						if rec := recover(); rec != nil {
							c.mismatch("Chain", j.rows[0], "custom", map[string]interface{}{"expected": "no panic", "observed": fmt.Sprint("panic: ", rec)})
						}
					}()
					runChain(c, j.rows, j.sched, j.nval, j.spe, j.k)
				}()
			}
		}()
	}
	for i := range cjobs {
		ch2 <- i
	}
	close(ch2)
	wg.Wait()
	check(w.Flush())
	sum := map[string]interface{}{"rows": len(rows), "schedules": len(bySched), "mismatches": c.n, "checks": c.counts,
		"builtin_rows": builtinRows, "chain_jobs": len(cjobs), "mainnet_order_type": mainnetAbs, "minimal_order_type": minimalAbs}
	b, _ := json.Marshal(sum)
	fmt.Println(string(b))
}

func main() {
	if len(os.Args) < 2 {
		fatal("usage: forks replay <table> <out> <seed> <sigmode all|first-gvr|none> <chains quick|full> | dump <out>")
	}
	switch os.Args[1] {
	case "replay":
		seed, err := strconv.ParseInt(os.Args[4], 10, 64)
		check(err)
		replay(os.Args[2], os.Args[3], seed, os.Args[5], os.Args[6])
	case "dump":
		dump(os.Args[2])
	default:
		fatal("unknown sub-command " + os.Args[1])
	}
}
