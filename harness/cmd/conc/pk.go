package main

// Concurrent driver of common.PubkeyCache and of the CachedPubkey handles it gives out.
//
// Keys are real BLS public keys (secret key x+1 -> "k<x>"). To stay clear of the SEQUENTIAL findings of C16
// (known_findings.d/pubkeys.json: lookups and adds of a key that an ancestor holds at or beyond the trusted
// count) every key has ONE fixed index (x mod 8) and every handle gets keys of its own pool only:
//   pool 0 (k0..k7)    the root handle            pool 1 (k8..k15)  the child forked in the set-up
//   pool 2 (k16..k23)  conflicting appends (mix "appendrace")
//   pool 3+g           handles forked by goroutine g in the concurrent phase (used by g only)
// so that no key is ever offered at two indices and no handle is offered a key of a sibling history.

import (
	"math/rand"
	"strconv"
	"sync"

	blsu "github.com/protolambda/bls12-381-util"
	"github.com/protolambda/zrnt/eth2/beacon/common"
)

const pkNIdx = 8
const pkNKeys = 64

var keyBytes []common.BLSPubkey
var keyName = map[common.BLSPubkey]string{}
var keysOnce sync.Once

func initKeys() {
	keysOnce.Do(func() {
		for i := 0; i < pkNKeys; i++ {
			var skb [32]byte
			skb[30] = byte((i + 1) >> 8)
			skb[31] = byte(i + 1)
			var sk blsu.SecretKey
			if err := sk.Deserialize(&skb); err != nil {
				panic(err)
			}
			pk, err := blsu.SkToPk(&sk)
			if err != nil {
				panic(err)
			}
			b := common.BLSPubkey(pk.Serialize())
			keyBytes = append(keyBytes, b)
			keyName[b] = "k" + strconv.Itoa(i)
		}
	})
}

func keyOf(pool, idx int) string { return "k" + strconv.Itoa(pool*8+idx) }

func keyID(name string) int {
	n, err := strconv.Atoi(name[1:])
	if err != nil {
		panic("bad key name " + name)
	}
	return n
}

type PkRet struct {
	Kind  string `json:"kind"` // Add: same | new | err | nilnil
	H2    int    `json:"h2"`
	Key   string `json:"key"` // Pubkey: key name or "-"
	Idx   int    `json:"idx"` // Index: index or -1
	DecOK int    `json:"decok"`
}

type HView struct {
	Hd   int            `json:"hd"`
	Pubs []string       `json:"pubs"`
	Idx  map[string]int `json:"idx"`
}

type PkEv struct {
	Meta
	Ev    string  `json:"ev"` // Add | Pubkey | Index | Obs
	Hd    int     `json:"hd"`
	I     int     `json:"i"`
	P     string  `json:"p"`
	Dec   int     `json:"dec"`
	Ret   PkRet   `json:"ret"`
	Views []HView `json:"views"`

	s      *pkSession
	hdFn   func() int // handle chosen at run time (a handle created earlier by the same goroutine)
	onNew  func(id int)
	nkeys  int
	shared bool
}

func (e *PkEv) meta() *Meta { return &e.Meta }

type pkSession struct {
	mu      sync.Mutex
	handles []*common.PubkeyCache
	ids     map[*common.PubkeyCache]int
}

func (s *pkSession) get(id int) *common.PubkeyCache {
	s.mu.Lock()
	defer s.mu.Unlock()
	if id < 1 || id > len(s.handles) {
		return nil
	}
	return s.handles[id-1]
}

func (s *pkSession) register(pc *common.PubkeyCache) (id int, isNew bool) {
	s.mu.Lock()
	defer s.mu.Unlock()
	if id, ok := s.ids[pc]; ok {
		return id, false
	}
	s.handles = append(s.handles, pc)
	s.ids[pc] = len(s.handles)
	return len(s.handles), true
}

func (e *PkEv) run() {
	if e.hdFn != nil {
		e.Hd = e.hdFn()
	}
	switch e.Ev {
	case "Add":
		recv := e.s.get(e.Hd)
		if recv == nil {
			panic("unknown handle")
		}
		res, err := recv.AddValidator(common.ValidatorIndex(e.I), keyBytes[keyID(e.P)])
		switch {
		case err != nil:
			e.Ret.Kind = "err"
			e.Detail = err.Error()
		case res == nil:
			e.Ret.Kind = "nilnil"
		default:
			id, isNew := e.s.register(res)
			e.Ret.H2 = id
			if isNew {
				e.Ret.Kind = "new"
				if e.onNew != nil {
					e.onNew(id)
				}
			} else if id == e.Hd {
				e.Ret.Kind = "same"
			} else {
				e.Ret.Kind = "other" // an existing handle other than the receiver: never allowed
			}
		}
	case "Pubkey":
		recv := e.s.get(e.Hd)
		if recv == nil {
			panic("unknown handle")
		}
		cp, ok := recv.Pubkey(common.ValidatorIndex(e.I))
		e.Ret.Key = "-"
		if ok && cp == nil {
			e.Ret.Key = "?nil"
		} else if ok {
			name, known := keyName[cp.Compressed]
			if !known {
				name = "?"
			}
			e.Ret.Key = name
			if e.Dec != 0 {
				// lazy decompression on the shared handle. The returned *blsu.Pubkey is NOT used here: the BLS library
				// normalises points in place (kilic G1.Affine self-assigns), so even Serialize() on a shared key is a
				// write - that is a property of the consumer side, outside the components C17 names.
				pub, err := cp.Pubkey()
				if err == nil && pub != nil {
					e.Ret.DecOK = 1
				}
			}
		}
	case "Index":
		recv := e.s.get(e.Hd)
		if recv == nil {
			panic("unknown handle")
		}
		idx, ok := recv.ValidatorIndex(keyBytes[keyID(e.P)])
		e.Ret.Idx = -1
		if ok {
			e.Ret.Idx = int(idx)
			if idx > 1<<20 {
				e.Ret.Idx = 1 << 20
			}
		}
	case "Obs":
		e.s.mu.Lock()
		hs := append([]*common.PubkeyCache(nil), e.s.handles...)
		e.s.mu.Unlock()
		for n, h := range hs {
			v := HView{Hd: n + 1, Pubs: []string{}, Idx: map[string]int{}}
			for i := 0; i < pkNIdx; i++ {
				cp, ok := h.Pubkey(common.ValidatorIndex(i))
				switch {
				case !ok:
					v.Pubs = append(v.Pubs, "-")
				case cp == nil:
					v.Pubs = append(v.Pubs, "?nil")
				default:
					name, known := keyName[cp.Compressed]
					if !known {
						name = "?"
					} else if _, err := cp.Pubkey(); err != nil {
						name = "?invalid"
					}
					v.Pubs = append(v.Pubs, name)
				}
			}
			for k := 0; k < e.nkeys; k++ {
				idx, ok := h.ValidatorIndex(keyBytes[k])
				if !ok {
					v.Idx["k"+strconv.Itoa(k)] = -1
				} else if idx > 1<<20 {
					v.Idx["k"+strconv.Itoa(k)] = 1 << 20
				} else {
					v.Idx["k"+strconv.Itoa(k)] = int(idx)
				}
			}
			e.Views = append(e.Views, v)
		}
	}
}

func pkHistory(c *runConf, rng *rand.Rand, h int) ([]op, bool) {
	initKeys()
	s := &pkSession{ids: map[*common.PubkeyCache]int{}}
	root := common.EmptyPubkeyCache()
	s.register(root)
	mk := func(ev string, hd, i int, p string) *PkEv {
		return &PkEv{Ev: ev, Hd: hd, I: i, P: p, s: s, Views: []HView{}}
	}
	setup := []op{}
	n0 := 1 + rng.Intn(4) // keys of the root handle after the set-up
	for i := 0; i < n0; i++ {
		setup = append(setup, mk("Add", 1, i, keyOf(0, i)))
	}
	childAt := -1
	childLen := 0
	if rng.Intn(3) != 0 {
		childAt = rng.Intn(n0)
		setup = append(setup, mk("Add", 1, childAt, keyOf(1, childAt))) // conflict with a fresh key: handle 2 forks out
		childLen = childAt + 1
		if rng.Intn(2) == 0 && childLen < 6 {
			setup = append(setup, mk("Add", 2, childLen, keyOf(1, childLen)))
			childLen++
		}
	}
	shared := []int{1}
	if childAt >= 0 {
		shared = append(shared, 2)
	}
	decAllowed := !c.exclude["Decompress"]
	conc := make([][]op, c.gor)
	rootLen := n0
	nops := c.ops - 2 + rng.Intn(5)
	if nops < 2 {
		nops = 2
	}
	lookup := func(g int, priv *int) op {
		hd := shared[rng.Intn(len(shared))]
		e := mk("Pubkey", hd, rng.Intn(pkNIdx), "")
		if rng.Intn(2) == 0 {
			e.Ev = "Index"
			pool := 0
			if hd == 2 && rng.Intn(2) == 0 {
				pool = 1
			}
			if rng.Intn(6) == 0 {
				pool = rng.Intn(3)
			}
			e.P = keyOf(pool, rng.Intn(pkNIdx))
		} else if decAllowed && rng.Intn(2) == 0 {
			e.Dec = 1
		}
		if *priv > 0 && rng.Intn(3) == 0 {
			p := priv
			e.hdFn = func() int { return *p }
		}
		return e
	}
	switch c.mix {
	case "decompress":
		// everybody decompresses the same few cached keys while one goroutine keeps appending (slice growth)
		for i := 0; i < nops; i++ {
			g := i % c.gor
			if g == 0 && i%2 == 0 && rootLen < 7 {
				conc[g] = append(conc[g], mk("Add", 1, rootLen, keyOf(0, rootLen)))
				rootLen++
				continue
			}
			e := mk("Pubkey", shared[rng.Intn(len(shared))], rng.Intn(n0), "")
			e.Dec = 1
			conc[g] = append(conc[g], e)
		}
	case "appendrace":
		// several goroutines offer the next index of the same handle at the same time (same or different key)
		for g := 0; g < c.gor; g++ {
			pool := 0
			if rng.Intn(2) == 0 {
				pool = 2
			}
			conc[g] = append(conc[g], mk("Add", 1, rootLen, keyOf(pool, rootLen)))
			zero := 0
			conc[g] = append(conc[g], lookup(g, &zero))
		}
	default:
		privs := make([]int, c.gor)
		for i := 0; i < nops; i++ {
			g := i % c.gor
			priv := &privs[g]
			var e *PkEv
			switch x := rng.Intn(10); {
			case x < 2 && g == 0 && rootLen < 6: // the only appender of the root handle
				e = mk("Add", 1, rootLen, keyOf(0, rootLen))
				rootLen++
			case x < 2 && g == 1 && childAt >= 0 && childLen < 6: // the only appender of the set-up child
				e = mk("Add", 2, childLen, keyOf(1, childLen))
				childLen++
			case x == 2: // known pair
				i := rng.Intn(n0)
				e = mk("Add", 1, i, keyOf(0, i))
			case x == 3: // far beyond the end
				e = mk("Add", shared[rng.Intn(len(shared))], 7, keyOf(0, 7))
				if e.Hd == 2 {
					e.P = keyOf(1, 7)
				}
			case x == 4 && *priv == 0: // fork out a private handle
				i := rng.Intn(n0)
				e = mk("Add", 1, i, keyOf(3+g, i))
				gg := g
				e.onNew = func(id int) { privs[gg] = id }
			case x == 5 && *priv > 0: // extend the private handle (its length is only known at run time: try index of the fork + 1)
				e = nil
			}
			if e == nil {
				conc[g] = append(conc[g], lookup(g, priv))
			} else {
				conc[g] = append(conc[g], e)
			}
		}
	}
	final := func() []op {
		e := mk("Obs", 0, 0, "")
		e.nkeys = pkNKeys
		return []op{e}
	}
	events, blocked := runHistory(h, setup, conc, final)
	return events, blocked
}
