package main

// Concurrent driver of the fork-choice wrapper (forkchoice.ProtoForkChoice). The event format is the one of
// harness/cmd/fc (so spec/LinearizeFC.tla can reuse the reply rules of spec/ForkChoiceTrace.tla), extended by
// the fields of Meta. Roots are small integers encoded big-endian in the first two bytes.

import (
	"context"
	"errors"
	"math/rand"
	"runtime"
	"sort"

	"github.com/protolambda/zrnt/eth2/beacon/common"
	"github.com/protolambda/zrnt/eth2/forkchoice"
	"github.com/protolambda/zrnt/eth2/forkchoice/proto"
)

type CP struct {
	Epoch int `json:"epoch"`
	Root  int `json:"root"`
}

type Op struct {
	Meta
	Ev      string `json:"ev"`
	SPE     int    `json:"spe"`
	NilSink int    `json:"nilsink"`
	Parent  int    `json:"parent"`
	Root    int    `json:"root"`
	Slot    int    `json:"slot"`
	JE      int    `json:"je"`
	FE      int    `json:"fe"`
	V       int    `json:"v"`
	Trigger int    `json:"trigger"`
	J       CP     `json:"j"`
	F       CP     `json:"f"`
	Bal     []int  `json:"bal"`
	BalErr  int    `json:"balerr"`
	// sink fails on its k-th invocation (0 = never)
	SinkFail  int    `json:"sinkfail"`
	Q         string `json:"q"`
	Anchor    int    `json:"anchor"`
	WithBlock int    `json:"withblock"`
	UsePar    int    `json:"usepar"`
	UseSlot   int    `json:"useslot"`
	ObsHead   int    `json:"obshead"`

	Ret    *Ret    `json:"ret"`
	Pruned [][]int `json:"pruned"`
	Obs    *Obs    `json:"obs"`

	t *fcTarget
}

type Ret struct {
	Ok      int     `json:"ok"`
	Root    int     `json:"root"`
	Slot    int     `json:"slot"`
	Unknown int     `json:"unknown"`
	In      int     `json:"in"`
	Chain   [][]int `json:"chain"`
	Canon   [][]int `json:"canon"`
	Non     [][]int `json:"non"`
}

type Obs struct {
	HasHead int     `json:"hashead"`
	Head    []int   `json:"head"` // [ok, root, slot]
	Nodes   [][]int `json:"nodes"`
	Just    []int   `json:"just"`
	Fin     []int   `json:"fin"`
	Pin     []int   `json:"pin"`
}

func (o *Op) meta() *Meta { return &o.Meta }

func mkRoot(r int) (out common.Root) {
	out[0] = byte(r >> 8)
	out[1] = byte(r)
	return
}

func rootID(r common.Root) int {
	for i := 2; i < 32; i++ {
		if r[i] != 0 {
			return -1
		}
	}
	return int(r[0])<<8 | int(r[1])
}

func b2i(b bool) int {
	if b {
		return 1
	}
	return 0
}

type fcTarget struct {
	fc   forkchoice.Forkchoice
	arr  *proto.ProtoArray
	spec *common.Spec
}

type collectorKey struct{}

// collector receives the sink callbacks of ONE UpdateJustified call (it travels in the call's context).
type collector struct {
	n, fail int
	pruned  [][]int
}

func (t *fcTarget) sink(ctx context.Context, ref forkchoice.NodeRef, canonical bool) error {
	c, _ := ctx.Value(collectorKey{}).(*collector)
	if c == nil {
		return nil
	}
	c.n++
	c.pruned = append(c.pruned, []int{rootID(ref.Root), int(ref.Slot), b2i(canonical)})
	if c.fail != 0 && c.n == c.fail {
		return errors.New("scripted sink failure")
	}
	return nil
}

func gweis(b []int) []forkchoice.Gwei {
	out := make([]forkchoice.Gwei, len(b))
	for i, x := range b {
		out[i] = forkchoice.Gwei(x)
	}
	return out
}

func refRet(ref forkchoice.NodeRef, err error) *Ret {
	if err != nil {
		return &Ret{Ok: 0}
	}
	return &Ret{Ok: 1, Root: rootID(ref.Root), Slot: int(ref.Slot)}
}

func refs(rs []forkchoice.NodeRef) [][]int {
	out := [][]int{}
	for _, r := range rs {
		out = append(out, []int{rootID(r.Root), int(r.Slot)})
	}
	sort.Slice(out, func(i, j int) bool {
		if out[i][0] != out[j][0] {
			return out[i][0] < out[j][0]
		}
		return out[i][1] < out[j][1]
	})
	return out
}

func (op *Op) run() {
	t := op.t
	if op.Ev != "Init" && t.fc == nil {
		panic("no fork-choice object (Init failed)")
	}
	switch op.Ev {
	case "Init":
		spec := &common.Spec{}
		spec.SLOTS_PER_EPOCH = common.Slot(op.SPE)
		t.spec = spec
		var sink proto.NodeSink
		if op.NilSink == 0 {
			sink = proto.NodeSinkFn(t.sink)
		}
		just := common.Checkpoint{Epoch: common.Epoch(op.J.Epoch), Root: mkRoot(op.J.Root)}
		fin := common.Checkpoint{Epoch: common.Epoch(op.F.Epoch), Root: mkRoot(op.F.Root)}
		fc, err := proto.NewProtoForkChoice(spec, fin, just, mkRoot(op.Root), common.Slot(op.Slot), mkRoot(op.Parent),
			gweis(op.Bal), sink)
		op.Ret = &Ret{Ok: b2i(err == nil)}
		if err == nil {
			t.fc = fc
			t.arr = fc.(*forkchoice.ProtoForkChoice).VerifGraph().(*proto.ProtoArray)
		}
	case "ProcessSlot":
		if op.G == 0 {
			// set-up call: keep the documented precondition (known parent, later slot); otherwise ask instead of telling
			if first, ok := t.fc.GetSlot(mkRoot(op.Parent)); !ok || int(first) >= op.Slot {
				op.Ev, op.Q, op.Root = "Query", "GetSlot", op.Parent
				op.run()
				return
			}
		}
		t.fc.ProcessSlot(mkRoot(op.Parent), common.Slot(op.Slot), common.Epoch(op.JE), common.Epoch(op.FE))
		op.Ret = &Ret{Ok: 1}
	case "ProcessBlock":
		ok := t.fc.ProcessBlock(mkRoot(op.Parent), mkRoot(op.Root), common.Slot(op.Slot), common.Epoch(op.JE), common.Epoch(op.FE))
		op.Ret = &Ret{Ok: b2i(ok)}
	case "ProcessAttestation":
		ok := t.fc.ProcessAttestation(common.ValidatorIndex(op.V), mkRoot(op.Root), common.Slot(op.Slot))
		op.Ret = &Ret{Ok: b2i(ok)}
	case "SetPin":
		err := t.fc.SetPin(mkRoot(op.Root), common.Slot(op.Slot))
		op.Ret = &Ret{Ok: b2i(err == nil)}
	case "UpdateJustified":
		col := &collector{fail: op.SinkFail}
		ctx := context.WithValue(context.Background(), collectorKey{}, col)
		err := t.fc.UpdateJustified(ctx, mkRoot(op.Trigger),
			common.Checkpoint{Epoch: common.Epoch(op.J.Epoch), Root: mkRoot(op.J.Root)},
			common.Checkpoint{Epoch: common.Epoch(op.F.Epoch), Root: mkRoot(op.F.Root)},
			func() ([]forkchoice.Gwei, error) {
				if op.BalErr != 0 {
					return nil, errors.New("scripted balances failure")
				}
				return gweis(op.Bal), nil
			})
		op.Ret = &Ret{Ok: b2i(err == nil)}
		if err != nil {
			op.Detail = err.Error()
		}
		op.Pruned = col.pruned
	case "Obs":
		op.Obs = t.observe()
		op.Ret = &Ret{Ok: 1}
	case "Query":
		switch op.Q {
		case "Head":
			h, err := t.fc.Head()
			op.Ret = refRet(h, err)
		case "FindHead":
			h, err := t.fc.FindHead(mkRoot(op.Anchor), common.Slot(op.Slot))
			op.Ret = refRet(h, err)
		case "CanonicalChain":
			ch, err := t.fc.CanonicalChain(mkRoot(op.Anchor), common.Slot(op.Slot))
			r := &Ret{Ok: b2i(err == nil), Chain: [][]int{}}
			if err == nil {
				for _, e := range ch {
					r.Chain = append(r.Chain, []int{rootID(e.Root), int(e.Slot), rootID(e.ParentRoot)})
				}
			}
			op.Ret = r
		case "InSubtree":
			u, in := t.fc.InSubtree(mkRoot(op.Anchor), mkRoot(op.Root))
			op.Ret = &Ret{Ok: 1, Unknown: b2i(u), In: b2i(in)}
		case "ClosestToSlot":
			r, err := t.fc.ClosestToSlot(mkRoot(op.Anchor), common.Slot(op.Slot))
			op.Ret = refRet(r, err)
		case "CanonAtSlot":
			r, err := t.fc.CanonAtSlot(mkRoot(op.Anchor), common.Slot(op.Slot), op.WithBlock != 0)
			op.Ret = refRet(r, err)
		case "GetSlot":
			s, ok := t.fc.GetSlot(mkRoot(op.Root))
			op.Ret = &Ret{Ok: b2i(ok), Slot: int(s)}
			if !ok {
				op.Ret.Slot = 0
			}
		case "Search":
			var pr *forkchoice.Root
			var sl *forkchoice.Slot
			if op.UsePar != 0 {
				r := mkRoot(op.Parent)
				pr = &r
			}
			if op.UseSlot != 0 {
				s := common.Slot(op.FE) // the slot filter travels in "fe" to keep "slot" for the anchor
				sl = &s
			}
			non, canon, err := t.fc.Search(forkchoice.NodeRef{Root: mkRoot(op.Anchor), Slot: common.Slot(op.Slot)}, pr, sl)
			r := &Ret{Ok: b2i(err == nil), Canon: [][]int{}, Non: [][]int{}}
			if err == nil {
				r.Canon = refs(canon)
				r.Non = refs(non)
			}
			op.Ret = r
		case "Justified":
			j := t.fc.Justified()
			op.Ret = &Ret{Ok: 1, Root: rootID(j.Root), Slot: int(j.Epoch)}
		case "Finalized":
			f := t.fc.Finalized()
			op.Ret = &Ret{Ok: 1, Root: rootID(f.Root), Slot: int(f.Epoch)}
		case "Pin":
			if p := t.fc.Pin(); p != nil {
				op.Ret = &Ret{Ok: 1, Root: rootID(p.Root), Slot: int(p.Slot)}
			} else {
				op.Ret = &Ret{Ok: 0}
			}
		}
	}
}

// observe: full observation of the object; called only when no other goroutine uses it.
func (t *fcTarget) observe() *Obs {
	obs := &Obs{Head: []int{0, 0, 0}, Nodes: [][]int{}, Pin: []int{}}
	var keys []forkchoice.NodeRef
	for k := range t.arr.Indices() {
		keys = append(keys, k)
	}
	obs.Nodes = refs(keys)
	j := t.fc.Justified()
	f := t.fc.Finalized()
	obs.Just = []int{int(j.Epoch), rootID(j.Root)}
	obs.Fin = []int{int(f.Epoch), rootID(f.Root)}
	if p := t.fc.Pin(); p != nil {
		obs.Pin = []int{rootID(p.Root), int(p.Slot)}
	}
	h, err := t.fc.Head()
	obs.HasHead = 1
	if err == nil {
		obs.Head = []int{1, rootID(h.Root), int(h.Slot)}
	}
	return obs
}

func normalizeFC(op *Op) {
	if op.Ret == nil {
		op.Ret = &Ret{}
	}
	if op.Ret.Chain == nil {
		op.Ret.Chain = [][]int{}
	}
	if op.Ret.Canon == nil {
		op.Ret.Canon = [][]int{}
	}
	if op.Ret.Non == nil {
		op.Ret.Non = [][]int{}
	}
	if op.Pruned == nil {
		op.Pruned = [][]int{}
	}
	if op.Bal == nil {
		op.Bal = []int{}
	}
	if op.Obs == nil {
		op.Obs = &Obs{}
	}
	o := op.Obs
	if o.Head == nil {
		o.Head = []int{0, 0, 0}
	}
	if o.Nodes == nil {
		o.Nodes = [][]int{}
	}
	if o.Just == nil {
		o.Just = []int{0, 0}
	}
	if o.Fin == nil {
		o.Fin = []int{0, 0}
	}
	if o.Pin == nil {
		o.Pin = []int{}
	}
}

var fcProfiles = []string{"mixed", "votes", "prune", "queries"}

// fcHistory: a generated call sequence; its first part is the sequential set-up, the rest is dealt to the goroutines.
func fcHistory(c *runConf, rng *rand.Rand, h int) ([]op, bool) {
	profile := fcProfiles[rng.Intn(len(fcProfiles))]
	spe := 2 + rng.Intn(3)
	nsetup := 4 + rng.Intn(7)
	nconc := c.ops - 2 + rng.Intn(5)
	if nconc < 2 {
		nconc = 2
	}
	gops := genHistory(rng, h, nsetup+nconc, profile, spe)
	t := &fcTarget{}
	for _, o := range gops {
		o.t = t
		o.ObsHead = 0
	}
	gops[0].NilSink = 0
	if rng.Intn(12) == 0 {
		gops[0].NilSink = 1
	}
	setupOps := gops[:1+nsetup]
	concOps := gops[1+nsetup:]
	extra := []string{"Justified", "Finalized", "Pin"}
	hasUJ := false
	for _, o := range concOps {
		o.SinkFail = 0
		if o.Ev == "Query" && rng.Intn(6) == 0 {
			o.Q = extra[rng.Intn(len(extra))]
		}
		if c.exclude[o.Ev] || (o.Ev == "Query" && c.exclude[o.Q]) {
			o.Ev, o.Q = "Query", "GetSlot"
		}
		if o.Ev == "UpdateJustified" {
			hasUJ = true
		}
	}
	setup := make([]op, 0, len(setupOps)+1)
	for _, o := range setupOps {
		setup = append(setup, o)
	}
	// ProcessSlot has a documented precondition (known parent, later slot); in the concurrent phase it is only kept when
	// it holds right after the set-up and nothing can prune the parent meanwhile. The check runs as the last set-up step.
	guard := &guardOp{t: t, ops: concOps, hasUJ: hasUJ}
	setup = append(setup, guard)
	conc := make([][]op, c.gor)
	for i, o := range concOps {
		g := rng.Intn(c.gor)
		if i < c.gor {
			g = i
		}
		conc[g] = append(conc[g], o)
	}
	final := func() []op { return []op{&Op{Ev: "Obs", t: t}} }
	events, blocked := runHistory(h, setup, conc, final)
	out := events[:0]
	for _, e := range events {
		if o, ok := e.(*Op); ok {
			normalizeFC(o)
			out = append(out, e)
		}
	}
	runtime.KeepAlive(t)
	return out, blocked
}

// guardOp is not logged: it rewrites concurrent ProcessSlot calls whose precondition does not hold.
type guardOp struct {
	Meta
	t     *fcTarget
	ops   []*Op
	hasUJ bool
}

func (g *guardOp) meta() *Meta { return &g.Meta }
func (g *guardOp) run() {
	if g.t.fc == nil {
		return
	}
	for _, o := range g.ops {
		if o.Ev != "ProcessSlot" {
			continue
		}
		first, ok := g.t.fc.GetSlot(mkRoot(o.Parent))
		if g.hasUJ || !ok || int(first) >= o.Slot {
			o.Ev, o.Q, o.Root = "Query", "GetSlot", o.Parent
		}
	}
}
