// Command conc drives the shared components of zrnt from several goroutines at once (property C17, part B).
// It is built with -race; a race-detector report on stderr / exit code 66 is an observation of the runner.
//
//	conc run  -comp fc|pk|keyed|att|sync -seed S -hist N -gor G -ops K [-mix name] [-exclude a,b] -out trace.ndjson
//	conc pair -comp <Component> -a MethodA -b MethodB [-iters N] [-seed S]
//
// run: N short histories on fresh objects. A history is a sequential set-up (g = 0), a concurrent phase
// (g = 1..G, each goroutine makes its calls in program order) and a final full observation (after all
// goroutines were joined). Every call records an invocation and a response sequence number taken from ONE
// atomic counter (inv before the call, rs after it), its arguments and its reply. Every history runs under a
// watchdog: a call that has not returned after a few seconds is logged with out = "timeout" (rs = 2^30) and
// the history ends. spec/Linearize*.tla decides whether the recorded replies have a linearization.
//
// pair: targeted test of two methods of one component (the pair named by a model-level counterexample of
// spec/Locks.tla): two goroutines released by a start barrier, thousands of iterations on shared instances.
// Exit 0: nothing observed; exit 66 / "WARNING: DATA RACE": race detector; exit 3 and "BLOCKED": a call did
// not return.
package main

import (
	"bufio"
	"encoding/json"
	"flag"
	"fmt"
	"math/rand"
	"os"
	"runtime"
	"strings"
	"sync"
	"sync/atomic"
	"time"
)

var seq int64

func tick() int { return int(atomic.AddInt64(&seq, 1)) }

const blockedRs = 1 << 30

var callTimeout = 20 * time.Second

// Meta is the part of an event every component shares.
type Meta struct {
	H      int    `json:"h"`
	ID     int    `json:"id"`
	G      int    `json:"g"`
	Inv    int    `json:"inv"`
	Rs     int    `json:"rs"`
	Out    string `json:"out"` // ok | panic | timeout
	Detail string `json:"detail"`
	state  int32  // 0 not started, 1 invoked, 2 returned
}

type op interface {
	meta() *Meta
	run() // performs the real call and stores the reply in the event
}

func execOp(o op) {
	m := o.meta()
	m.Inv = tick()
	atomic.StoreInt32(&m.state, 1)
	out, detail := "ok", ""
	func() {
		defer func() {
			if r := recover(); r != nil {
				out, detail = "panic", fmt.Sprint(r)
			}
		}()
		o.run()
	}()
	m.Out, m.Detail = out, detail
	m.Rs = tick()
	atomic.StoreInt32(&m.state, 2)
}

// runHistory executes setup sequentially, then the per-goroutine call lists concurrently, then final.
// It returns the events that were at least invoked and whether a call blocked.
func runHistory(h int, setup []op, conc [][]op, final func() []op) (events []op, blocked bool) {
	all := []op{}
	id := 0
	number := func(o op, g int) {
		id++
		m := o.meta()
		m.H, m.ID, m.G = h, id, g
		all = append(all, o)
	}
	for _, o := range setup {
		number(o, 0)
	}
	for g, list := range conc {
		for _, o := range list {
			number(o, g+1)
		}
	}
	var finals []op
	done := make(chan struct{})
	var fmu sync.Mutex
	go func() {
		for _, o := range setup {
			execOp(o)
			if o.meta().Out != "ok" {
				close(done)
				return
			}
		}
		var wg sync.WaitGroup
		// round barriers: the k-th calls of all goroutines are released together, so that they really overlap
		rounds := 0
		for _, list := range conc {
			if len(list) > rounds {
				rounds = len(list)
			}
		}
		need := make([]int32, rounds)
		arrived := make([]int32, rounds)
		for _, list := range conc {
			for r := range list {
				need[r]++
			}
		}
		var abort int32
		for _, list := range conc {
			wg.Add(1)
			go func(list []op) {
				defer wg.Done()
				for r, o := range list {
					atomic.AddInt32(&arrived[r], 1)
					for spin := 0; atomic.LoadInt32(&arrived[r]) < need[r] && atomic.LoadInt32(&abort) == 0; spin++ {
						if spin > 30000 {
							runtime.Gosched()
						}
					}
					execOp(o)
					if o.meta().Out != "ok" {
						atomic.StoreInt32(&abort, 1)
						return
					}
				}
			}(list)
		}
		wg.Wait()
		if final != nil {
			fs := final()
			fmu.Lock()
			finals = fs
			fmu.Unlock()
			for _, o := range fs {
				id++
				m := o.meta()
				m.H, m.ID, m.G = h, id, -1
				execOp(o)
			}
		}
		close(done)
	}()
	select {
	case <-done:
	case <-time.After(callTimeout):
		blocked = true
	}
	fmu.Lock()
	all = append(all, finals...)
	fmu.Unlock()
	for _, o := range all {
		m := o.meta()
		switch atomic.LoadInt32(&m.state) {
		case 2:
			events = append(events, o)
		case 1:
			if blocked {
				m.Out, m.Rs = "timeout", blockedRs
				events = append(events, o)
			}
		}
	}
	return events, blocked
}

type writer struct {
	w *bufio.Writer
	f *os.File
}

func newWriter(path string) *writer {
	f, err := os.Create(path)
	if err != nil {
		fmt.Fprintln(os.Stderr, err)
		os.Exit(2)
	}
	return &writer{w: bufio.NewWriterSize(f, 1<<16), f: f}
}

func (w *writer) history(events []op) {
	for _, e := range events {
		b, err := json.Marshal(e)
		if err != nil {
			panic(err)
		}
		w.w.Write(b)
		w.w.WriteByte('\n')
	}
	w.w.Flush() // a race report may end the process at any time
}

func (w *writer) close() { w.w.Flush(); w.f.Close() }

type runConf struct {
	comp    string
	seed    int64
	hist    int
	gor     int
	ops     int
	mix     string
	exclude map[string]bool
	out     string
	full    bool // sequential findings of the component are repaired: unrestricted call patterns
}

func main() {
	if len(os.Args) < 2 {
		fmt.Fprintln(os.Stderr, "usage: conc run|pair ...")
		os.Exit(2)
	}
	switch os.Args[1] {
	case "run":
		fs := flag.NewFlagSet("run", flag.ExitOnError)
		comp := fs.String("comp", "fc", "")
		seed := fs.Int64("seed", 1, "")
		hist := fs.Int("hist", 100, "")
		gor := fs.Int("gor", 3, "")
		ops := fs.Int("ops", 8, "calls in the concurrent phase")
		mix := fs.String("mix", "main", "")
		excl := fs.String("exclude", "", "comma-separated operation names left out of the concurrent phase")
		out := fs.String("out", "", "")
		full := fs.Bool("full", false, "")
		tmo := fs.Int("timeout-ms", 20000, "")
		fs.Parse(os.Args[2:])
		callTimeout = time.Duration(*tmo) * time.Millisecond
		c := &runConf{comp: *comp, seed: *seed, hist: *hist, gor: *gor, ops: *ops, mix: *mix, out: *out, full: *full,
			exclude: map[string]bool{}}
		for _, x := range strings.Split(*excl, ",") {
			if x != "" {
				c.exclude[x] = true
			}
		}
		w := newWriter(c.out)
		defer w.close()
		nblocked := 0
		for h := 1; h <= c.hist; h++ {
			rng := rand.New(rand.NewSource(c.seed*1000003 + int64(h)))
			var events []op
			var blocked bool
			switch c.comp {
			case "fc":
				events, blocked = fcHistory(c, rng, h)
			case "pk":
				events, blocked = pkHistory(c, rng, h)
			case "keyed", "att", "sync":
				events, blocked = poolHistory(c, rng, h)
			default:
				fmt.Fprintln(os.Stderr, "unknown component", c.comp)
				os.Exit(2)
			}
			w.history(events)
			if blocked {
				nblocked++
				fmt.Fprintf(os.Stderr, "BLOCKED history %d of %s\n", h, c.comp)
				break // the goroutines of a blocked history keep spinning / holding locks: stop here
			}
		}
	case "pair":
		fs := flag.NewFlagSet("pair", flag.ExitOnError)
		comp := fs.String("comp", "", "")
		a := fs.String("a", "", "")
		b := fs.String("b", "", "")
		iters := fs.Int("iters", 3000, "")
		seed := fs.Int64("seed", 1, "")
		tmo := fs.Int("timeout-ms", 20000, "")
		single := fs.Bool("single", false, "run only method a, twice in a row on one goroutine (self-deadlock / lock leak)")
		calls := fs.Int("calls", 3, "calls per goroutine and iteration")
		fs.Parse(os.Args[2:])
		pairCalls = *calls
		callTimeout = time.Duration(*tmo) * time.Millisecond
		os.Exit(runPair(*comp, *a, *b, *iters, *seed, *single))
	case "seqprobe":
		// which SEQUENTIAL call patterns of the attestation pool work on this tree (they panic while the C20 findings
		// are open); the runner widens the concurrent call patterns accordingly (-full)
		res := map[string]bool{}
		try := func(name string, f func()) {
			ok := true
			func() {
				defer func() {
					if r := recover(); r != nil {
						ok = false
					}
				}()
				f()
			}()
			res[name] = ok
		}
		try("att_aggregate_ok", func() {
			s := newPoolSession()
			e := s.ev("AddAtt")
			e.Att = Att{Slot: 1, Index: 0, Epoch: 0, Var: 0, Bits: []int{1, 1, 0}, Sig: "x", Comm: committee(1, 0, 3)}
			s.prepare(e).run()
		})
		try("att_search_ok", func() {
			s := newPoolSession()
			e := s.ev("AddAtt")
			e.Att = Att{Slot: 1, Index: 0, Epoch: 0, Var: 0, Bits: []int{1, 0, 0}, Sig: "x", Comm: committee(1, 0, 3)}
			s.prepare(e).run()
			s.ev("Search").run()
		})
		try("sync_fresh_ok", func() {
			s := newPoolSession()
			e := s.ev("SyncAdd")
			e.Item = SyncItem{ID: "m1", Kind: "msg", Slot: 0, V: 1}
			s.prepare(e).run()
			r := s.ev("SyncReset")
			r.Slot = 0
			r.run()
			e2 := s.ev("SyncAdd")
			e2.Item = SyncItem{ID: "c1", Kind: "contrib", Slot: 0, Sub: 1}
			s.prepare(e2).run()
		})
		b, _ := json.Marshal(res)
		fmt.Println(string(b))
	default:
		os.Exit(2)
	}
}
