package main

// Concurrent drivers of the operation pools (eth2/pool). Values are built as in harness/cmd/pools so that
// spec/LinearizePools.tla can reuse the reply rules of spec/Pools.tla.
//
// Call patterns that trigger the SEQUENTIAL findings of C20 (known_findings.d/pools.json) are avoided unless
// -full is given: aggregates (>= 2 bits) are never offered and Search only uses filters that match nothing
// (AttestationPool), and the sync-committee pool is Reset far from slot 0 before anything is added.

import (
	"context"
	"crypto/sha256"
	"fmt"
	"math/rand"
	"reflect"
	"sort"
	"sync"

	"github.com/protolambda/zrnt/eth2/beacon/altair"
	"github.com/protolambda/zrnt/eth2/beacon/common"
	"github.com/protolambda/zrnt/eth2/beacon/phase0"
	"github.com/protolambda/zrnt/eth2/configs"
	"github.com/protolambda/zrnt/eth2/pool"
	"github.com/protolambda/ztyp/view"
)

type Att struct {
	Slot  int    `json:"slot"`
	Index int    `json:"index"`
	Epoch int    `json:"epoch"`
	Var   int    `json:"var"`
	Bits  []int  `json:"bits"`
	Sig   string `json:"sig"`
	Comm  []int  `json:"comm"`
}

type SyncItem struct {
	ID   string `json:"id"`
	Kind string `json:"kind"` // msg | contrib
	Slot int    `json:"slot"`
	V    int    `json:"v"`
	Root int    `json:"root"`
	Sub  int    `json:"sub"`
}

type SnapItem struct {
	ID  string `json:"id"`
	Buf string `json:"buf"`
}

type Snap struct {
	Cur   int        `json:"cur"`
	Items []SnapItem `json:"items"`
}

type PoolEv struct {
	Meta
	Ev      string   `json:"ev"` // AddAtt | Search | Prune | AddKeyed | All | SyncAdd | SyncReset | Obs
	Att     Att      `json:"att"`
	Fs      int      `json:"fs"`
	Fc      int      `json:"fc"`
	Epoch   int      `json:"epoch"`
	Pool    string   `json:"pool"`
	Key     int      `json:"key"`
	Kid     string   `json:"kid"`
	Item    SyncItem `json:"item"`
	Slot    int      `json:"slot"`
	Ret     string   `json:"ret"` // ok | err
	ResAtts []Att    `json:"resatts"`
	ResIDs  []string `json:"resids"`
	Snap    Snap     `json:"snap"`

	s *poolSession
}

func (e *PoolEv) meta() *Meta { return &e.Meta }

func hashOf(s string) [32]byte { return sha256.Sum256([]byte(s)) }

func sigOf(name string) (out common.BLSSignature) {
	h := hashOf("sig:" + name)
	copy(out[0:32], h[:])
	copy(out[32:64], h[:])
	copy(out[64:96], h[:])
	return
}

func rootOf(name string) common.Root { return common.Root(hashOf("root:" + name)) }

type dataKey struct{ slot, index, epoch, v int }

func attData(k dataKey) phase0.AttestationData {
	src := k.epoch - 1
	if src < 0 {
		src = 0
	}
	return phase0.AttestationData{
		Slot:            common.Slot(k.slot),
		Index:           common.CommitteeIndex(k.index),
		BeaconBlockRoot: rootOf(fmt.Sprintf("head-%d-%d", k.slot, k.v)),
		Source:          common.Checkpoint{Epoch: common.Epoch(src), Root: rootOf(fmt.Sprintf("cp-%d", src))},
		Target:          common.Checkpoint{Epoch: common.Epoch(k.epoch), Root: rootOf(fmt.Sprintf("cp-%d", k.epoch))},
	}
}

func bitlist(bits []int) phase0.AttestationBits {
	n := len(bits)
	b := make(phase0.AttestationBits, n/8+1)
	for i, x := range bits {
		if x != 0 {
			b[i/8] |= 1 << uint(i%8)
		}
	}
	b[n/8] |= 1 << uint(n%8)
	return b
}

func unbitlist(b phase0.AttestationBits) []int {
	n := b.BitLen()
	out := make([]int, n)
	for i := uint64(0); i < n; i++ {
		if b.GetBit(i) {
			out[i] = 1
		}
	}
	return out
}

const genSPE = 4

func committee(slot, index, size int) []int {
	epoch := slot / genSPE
	block := (slot%genSPE)*2 + index
	n := genSPE * 2 * size
	out := make([]int, size)
	for i := range out {
		out[i] = (block*size + i + epoch*7) % n
	}
	return out
}

// poolSession: the pools of one history and the registries that translate results back to ids. The registries
// are filled BEFORE the history runs (all values are created up-front) and only read afterwards.
type poolSession struct {
	spec *common.Spec
	ap   *pool.AttestationPool
	psp  *pool.ProposerSlashingPool
	asp  *pool.AttesterSlashingPool
	vep  *pool.VoluntaryExitPool
	scp  *pool.SyncCommitteePool

	datas map[phase0.AttestationData]dataKey
	sigs  map[common.BLSSignature]string

	psByPtr map[*phase0.ProposerSlashing]string
	psCopy  map[string]phase0.ProposerSlashing
	asByPtr map[*phase0.AttesterSlashing]string
	asCopy  map[string]phase0.AttesterSlashing
	exByPtr map[*phase0.SignedVoluntaryExit]string
	exCopy  map[string]phase0.SignedVoluntaryExit

	msgByPtr map[*altair.SyncCommitteeMessage]string
	msgCopy  map[string]altair.SyncCommitteeMessage
	ctrBySig map[common.BLSSignature]string
	ctrCopy  map[string]altair.SyncCommitteeContribution

	// prepared arguments per event
	atts map[*PoolEv]*phase0.Attestation
	comm map[*PoolEv]common.CommitteeIndices
	ps   map[*PoolEv]*phase0.ProposerSlashing
	as   map[*PoolEv]*phase0.AttesterSlashing
	ex   map[*PoolEv]*phase0.SignedVoluntaryExit
	msg  map[*PoolEv]*altair.SyncCommitteeMessage
	ctr  map[*PoolEv]*altair.SyncCommitteeContribution
	mu   sync.Mutex
}

func newPoolSession() *poolSession {
	spec := configs.Minimal
	return &poolSession{
		spec: spec,
		ap:   pool.NewAttestationPool(spec), psp: pool.NewProposerSlashingPool(spec),
		asp: pool.NewAttesterSlashingPool(spec), vep: pool.NewVoluntaryExitPool(spec),
		scp:      pool.NewSyncCommitteePool(spec),
		datas:    map[phase0.AttestationData]dataKey{},
		sigs:     map[common.BLSSignature]string{},
		psByPtr:  map[*phase0.ProposerSlashing]string{},
		psCopy:   map[string]phase0.ProposerSlashing{},
		asByPtr:  map[*phase0.AttesterSlashing]string{},
		asCopy:   map[string]phase0.AttesterSlashing{},
		exByPtr:  map[*phase0.SignedVoluntaryExit]string{},
		exCopy:   map[string]phase0.SignedVoluntaryExit{},
		msgByPtr: map[*altair.SyncCommitteeMessage]string{},
		msgCopy:  map[string]altair.SyncCommitteeMessage{},
		ctrBySig: map[common.BLSSignature]string{},
		ctrCopy:  map[string]altair.SyncCommitteeContribution{},
		atts:     map[*PoolEv]*phase0.Attestation{},
		comm:     map[*PoolEv]common.CommitteeIndices{},
		ps:       map[*PoolEv]*phase0.ProposerSlashing{},
		as:       map[*PoolEv]*phase0.AttesterSlashing{},
		ex:       map[*PoolEv]*phase0.SignedVoluntaryExit{},
		msg:      map[*PoolEv]*altair.SyncCommitteeMessage{},
		ctr:      map[*PoolEv]*altair.SyncCommitteeContribution{},
	}
}

func (s *poolSession) ev(name string) *PoolEv {
	return &PoolEv{Ev: name, s: s, Fs: -1, Fc: -1, Att: Att{Bits: []int{}, Comm: []int{}}, ResAtts: []Att{}, ResIDs: []string{},
		Snap: Snap{Items: []SnapItem{}}}
}

// prepare builds the real argument values of an event (single-threaded, before the history runs).
func (s *poolSession) prepare(e *PoolEv) *PoolEv {
	switch e.Ev {
	case "AddAtt":
		a := e.Att
		k := dataKey{a.Slot, a.Index, a.Epoch, a.Var}
		d := attData(k)
		s.datas[d] = k
		sig := sigOf(a.Sig)
		s.sigs[sig] = a.Sig
		comm := make(common.CommitteeIndices, len(a.Comm))
		for i, v := range a.Comm {
			comm[i] = common.ValidatorIndex(v)
		}
		s.atts[e] = &phase0.Attestation{AggregationBits: bitlist(a.Bits), Data: d, Signature: sig}
		s.comm[e] = comm
	case "AddKeyed":
		key := e.Key
		h := hashOf(e.Kid)
		switch e.Pool {
		case "ps":
			sl := &phase0.ProposerSlashing{}
			sl.SignedHeader1.Message.ProposerIndex = common.ValidatorIndex(key)
			sl.SignedHeader1.Message.Slot = common.Slot(h[0])
			sl.SignedHeader1.Message.BodyRoot = rootOf(e.Kid + "-1")
			sl.SignedHeader1.Signature = sigOf(e.Kid + "-1")
			sl.SignedHeader2.Message.ProposerIndex = common.ValidatorIndex(key)
			sl.SignedHeader2.Message.Slot = common.Slot(h[0])
			sl.SignedHeader2.Message.BodyRoot = rootOf(e.Kid + "-2")
			sl.SignedHeader2.Signature = sigOf(e.Kid + "-2")
			s.psByPtr[sl] = e.Kid
			s.psCopy[e.Kid] = *sl
			s.ps[e] = sl
		case "as":
			mk := func() *phase0.AttesterSlashing {
				d1 := attData(dataKey{key, 0, key / 4, 0})
				d2 := attData(dataKey{key, 0, key / 4, 1})
				return &phase0.AttesterSlashing{
					Attestation1: phase0.IndexedAttestation{AttestingIndices: common.CommitteeIndices{common.ValidatorIndex(key), common.ValidatorIndex(key + 1)}, Data: d1, Signature: sigOf(fmt.Sprintf("as-%d-1", key))},
					Attestation2: phase0.IndexedAttestation{AttestingIndices: common.CommitteeIndices{common.ValidatorIndex(key), common.ValidatorIndex(key + 1)}, Data: d2, Signature: sigOf(fmt.Sprintf("as-%d-2", key))},
				}
			}
			sl := mk()
			s.asByPtr[sl] = e.Kid
			s.asCopy[e.Kid] = *mk()
			s.as[e] = sl
		case "ex":
			ex := &phase0.SignedVoluntaryExit{Message: phase0.VoluntaryExit{Epoch: common.Epoch(h[0]), ValidatorIndex: common.ValidatorIndex(key)}, Signature: sigOf(e.Kid)}
			s.exByPtr[ex] = e.Kid
			s.exCopy[e.Kid] = *ex
			s.ex[e] = ex
		}
	case "SyncAdd":
		it := e.Item
		if it.Kind == "msg" {
			m := &altair.SyncCommitteeMessage{Slot: common.Slot(it.Slot), BeaconBlockRoot: rootOf(fmt.Sprintf("blk-%d", it.Root)),
				ValidatorIndex: common.ValidatorIndex(it.V), Signature: sigOf(it.ID)}
			s.msgByPtr[m] = it.ID
			s.msgCopy[it.ID] = *m
			s.msg[e] = m
		} else {
			h := hashOf(it.ID)
			c := &altair.SyncCommitteeContribution{Slot: common.Slot(it.Slot), BeaconBlockRoot: rootOf(fmt.Sprintf("blk-%d", it.Root)),
				SubcommitteeIndex: view.Uint64View(it.Sub), AggregationBits: altair.SyncCommitteeSubnetBits{h[0] | 1}, Signature: sigOf(it.ID)}
			s.ctrBySig[c.Signature] = it.ID
			cp := *c
			cp.AggregationBits = append(altair.SyncCommitteeSubnetBits(nil), c.AggregationBits...)
			s.ctrCopy[it.ID] = cp
			s.ctr[e] = c
		}
	}
	return e
}

func retOf(err error) string {
	if err != nil {
		return "err"
	}
	return "ok"
}

func (e *PoolEv) run() {
	s := e.s
	ctx := context.Background()
	switch e.Ev {
	case "AddAtt":
		e.Ret = retOf(s.ap.AddAttestation(ctx, s.atts[e], s.comm[e]))
	case "Search":
		var opts []pool.AttSearchOption
		if e.Fs >= 0 {
			opts = append(opts, pool.WithSlot(common.Slot(e.Fs)))
		}
		if e.Fc >= 0 {
			opts = append(opts, pool.WithCommittee(common.CommitteeIndex(e.Fc)))
		}
		res := s.ap.Search(opts...)
		e.Ret = "ok"
		for _, r := range res {
			if r == nil {
				e.ResAtts = append(e.ResAtts, Att{Var: -1, Sig: "?nil", Bits: []int{}, Comm: []int{}})
				continue
			}
			k, ok := s.datas[r.Data]
			if !ok {
				k = dataKey{int(r.Data.Slot), int(r.Data.Index), int(r.Data.Target.Epoch), -1}
			}
			name, ok := s.sigs[r.Signature]
			if !ok {
				name = "?"
			}
			e.ResAtts = append(e.ResAtts, Att{Slot: k.slot, Index: k.index, Epoch: k.epoch, Var: k.v, Bits: unbitlist(r.AggregationBits), Sig: name, Comm: []int{}})
		}
	case "Prune":
		s.ap.Prune(common.Epoch(e.Epoch))
		e.Ret = "ok"
	case "AddKeyed":
		switch e.Pool {
		case "ps":
			e.Ret = retOf(s.psp.AddProposerSlashing(ctx, s.ps[e]))
		case "as":
			e.Ret = retOf(s.asp.AddAttesterSlashing(ctx, s.as[e]))
		case "ex":
			e.Ret = retOf(s.vep.AddVoluntaryExit(ctx, s.ex[e]))
		}
	case "All":
		e.Ret = "ok"
		ids := []string{}
		switch e.Pool {
		case "ps":
			for _, r := range s.psp.All() {
				id, ok := s.psByPtr[r]
				if !ok {
					id = "?unknown"
				} else if *r != s.psCopy[id] {
					id = "?altered-" + id
				}
				ids = append(ids, id)
			}
		case "as":
			for _, r := range s.asp.All() {
				id, ok := s.asByPtr[r]
				if !ok {
					id = "?unknown"
				} else if !reflect.DeepEqual(*r, s.asCopy[id]) {
					id = "?altered-" + id
				}
				ids = append(ids, id)
			}
		case "ex":
			for _, r := range s.vep.All() {
				id, ok := s.exByPtr[r]
				if !ok {
					id = "?unknown"
				} else if *r != s.exCopy[id] {
					id = "?altered-" + id
				}
				ids = append(ids, id)
			}
		}
		sort.Strings(ids)
		e.ResIDs = ids
	case "SyncAdd":
		if e.Item.Kind == "msg" {
			e.Ret = retOf(s.scp.AddSyncCommitteeMessage(ctx, s.msg[e]))
		} else {
			e.Ret = retOf(s.scp.AddSyncCommitteeContribution(ctx, s.ctr[e]))
		}
	case "SyncReset":
		s.scp.Reset(common.Slot(e.Slot))
		e.Ret = "ok"
	case "Obs":
		e.Ret = "ok"
		e.Snap = s.syncSnap()
	}
}

func (s *poolSession) syncSnap() Snap {
	snap := s.scp.VerifSnapshot()
	out := Snap{Cur: -1, Items: []SnapItem{}}
	if snap.CurrentSlot != ^common.Slot(0) {
		if snap.CurrentSlot > 1<<20 {
			out.Cur = 1 << 20
		} else {
			out.Cur = int(snap.CurrentSlot)
		}
	}
	names := [3]string{"prev", "cur", "next"}
	for i := 0; i < 3; i++ {
		for _, m := range snap.Msgs[i] {
			id, ok := s.msgByPtr[m]
			if !ok {
				id = "?unknown-message"
			} else if *m != s.msgCopy[id] {
				id = "?altered-" + id
			}
			out.Items = append(out.Items, SnapItem{ID: id, Buf: names[i]})
		}
		for _, c := range snap.Contribs[i] {
			id, ok := s.ctrBySig[c.Contrib.Signature]
			if !ok {
				id = "?unknown-contribution"
			} else {
				orig := s.ctrCopy[id]
				if c.Root != orig.BeaconBlockRoot || c.Subnet != uint64(orig.SubcommitteeIndex) ||
					!reflect.DeepEqual([]byte(c.Contrib.AggregationBits), []byte(orig.AggregationBits)) {
					id = "?altered-" + id
				}
			}
			out.Items = append(out.Items, SnapItem{ID: id, Buf: names[i]})
		}
	}
	sort.Slice(out.Items, func(a, b int) bool {
		if out.Items[a].ID != out.Items[b].ID {
			return out.Items[a].ID < out.Items[b].ID
		}
		return out.Items[a].Buf < out.Items[b].Buf
	})
	return out
}

func poolHistory(c *runConf, rng *rand.Rand, h int) ([]op, bool) {
	s := newPoolSession()
	var setup []op
	var pending []*PoolEv // calls of the concurrent phase
	var final func() []op
	nops := c.ops - 2 + rng.Intn(5)
	if nops < 2 {
		nops = 2
	}
	switch c.comp {
	case "keyed":
		pl := []string{"ps", "as", "ex"}[rng.Intn(3)]
		n := 0
		add := func() *PoolEv {
			n++
			e := s.ev("AddKeyed")
			e.Pool, e.Key, e.Kid = pl, 1+rng.Intn(4), fmt.Sprintf("%s%d", pl, n)
			return s.prepare(e)
		}
		for i := rng.Intn(3); i > 0; i-- {
			setup = append(setup, add())
		}
		for i := 0; i < nops; i++ {
			if rng.Intn(10) < 6 && !c.exclude["AddKeyed"] {
				pending = append(pending, add())
			} else {
				e := s.ev("All")
				e.Pool = pl
				pending = append(pending, e)
			}
		}
		final = func() []op { e := s.ev("All"); e.Pool = pl; return []op{e} }
	case "att":
		size := 3 + rng.Intn(3)
		cur := 1 + rng.Intn(2)
		sigN := 0
		var added []Att
		mkAtt := func() *PoolEv {
			var a Att
			q := rng.Float64()
			if q < 0.15 && len(added) > 0 {
				a = added[rng.Intn(len(added))]
			} else {
				var slot, index, v int
				if q < 0.55 && len(added) > 0 {
					b := added[rng.Intn(len(added))]
					slot, index, v = b.Slot, b.Index, rng.Intn(3)
					if rng.Intn(2) == 0 {
						v = b.Var
					}
				} else {
					e := cur - rng.Intn(3)
					if e < 0 {
						e = 0
					}
					slot, index, v = e*genSPE+rng.Intn(genSPE), rng.Intn(2), rng.Intn(2)
				}
				bits := make([]int, size)
				if rng.Intn(12) == 0 {
					// no bit set: refused before anything is stored (an early-return path)
				} else if !c.full || rng.Float64() < 0.4 {
					bits[rng.Intn(size)] = 1
				} else {
					for cnt := 0; cnt < 2; {
						cnt = 0
						for i := range bits {
							bits[i] = 0
							if rng.Intn(2) == 0 {
								bits[i] = 1
								cnt++
							}
						}
					}
				}
				sigN++
				a = Att{Slot: slot, Index: index, Epoch: slot / genSPE, Var: v, Bits: bits, Sig: fmt.Sprintf("g%d", sigN),
					Comm: committee(slot, index, size)}
			}
			added = append(added, a)
			e := s.ev("AddAtt")
			e.Att = a
			return s.prepare(e)
		}
		mkSearch := func() *PoolEv {
			e := s.ev("Search")
			if !c.full {
				e.Fs = 60 + rng.Intn(3) // matches no data: Search iterates the pool but returns nothing
				return e
			}
			if rng.Intn(3) > 0 && len(added) > 0 {
				e.Fs = added[rng.Intn(len(added))].Slot
			}
			if rng.Intn(3) == 0 {
				e.Fc = rng.Intn(2)
			}
			return e
		}
		mkPrune := func() *PoolEv {
			e := s.ev("Prune")
			e.Epoch = cur + rng.Intn(3) - 1
			if e.Epoch < 0 {
				e.Epoch = 0
			}
			return e
		}
		for i := 1 + rng.Intn(3); i > 0; i-- {
			setup = append(setup, mkAtt())
		}
		if rng.Intn(3) == 0 {
			setup = append(setup, mkPrune())
		}
		for i := 0; i < nops; i++ {
			x := rng.Intn(10)
			switch {
			case x < 2 && !c.exclude["Search"]:
				pending = append(pending, mkSearch())
			case x < 4 && !c.exclude["Prune"]:
				pending = append(pending, mkPrune())
			default:
				pending = append(pending, mkAtt())
			}
		}
		final = func() []op {
			if !c.full {
				return []op{mkSearch()}
			}
			e := s.ev("Search")
			return []op{e}
		}
	case "sync":
		base := 5 + rng.Intn(3)
		if c.full && rng.Intn(3) == 0 {
			// the sequential findings of C20 are repaired: also start at genesis, sometimes without any Reset in the set-up
			base = rng.Intn(2)
		}
		if !c.full || rng.Intn(3) != 0 {
			r0 := s.ev("SyncReset")
			r0.Slot = base // (unrepaired tree: a jump from the initial state, all six buffers are made)
			setup = append(setup, r0)
		}
		n := 0
		mkItem := func() *PoolEv {
			n++
			slot := base + rng.Intn(5) - 2
			if slot < 0 {
				slot = 0
			}
			var it SyncItem
			if rng.Intn(3) > 0 {
				it = SyncItem{ID: fmt.Sprintf("m%d", n), Kind: "msg", Slot: slot, V: rng.Intn(3), Root: rng.Intn(2)}
			} else {
				it = SyncItem{ID: fmt.Sprintf("c%d", n), Kind: "contrib", Slot: slot, Root: rng.Intn(2), Sub: rng.Intn(2)}
			}
			e := s.ev("SyncAdd")
			e.Item = it
			return s.prepare(e)
		}
		mkReset := func() *PoolEv {
			e := s.ev("SyncReset")
			switch q := rng.Intn(10); {
			case q < 5:
				e.Slot = base + 1
			case q < 7:
				e.Slot = base
			case q < 9 && base > 0:
				e.Slot = base - 1
			default:
				e.Slot = base + 3
			}
			return e
		}
		for i := rng.Intn(3); i > 0; i-- {
			setup = append(setup, mkItem())
		}
		for i := 0; i < nops; i++ {
			if rng.Intn(10) < 3 && !c.exclude["Reset"] {
				pending = append(pending, mkReset())
			} else {
				pending = append(pending, mkItem())
			}
		}
		final = func() []op { return []op{s.ev("Obs")} }
	}
	conc := make([][]op, c.gor)
	for i, e := range pending {
		g := rng.Intn(c.gor)
		if i < c.gor {
			g = i
		}
		conc[g] = append(conc[g], e)
	}
	return runHistory(h, setup, conc, final)
}
