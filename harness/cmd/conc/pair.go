package main

// Targeted concurrent tests: exactly two methods of one component, released together by a start barrier,
// thousands of iterations on fresh shared instances. Used by the runner to reproduce (or fail to reproduce) a
// model-level race / deadlock of spec/Locks.tla on the real code.

import (
	"context"
	"fmt"
	"math/rand"
	"os"
	"runtime"
	"sync"
	"sync/atomic"
	"time"

	"github.com/protolambda/zrnt/eth2/beacon/altair"
	"github.com/protolambda/zrnt/eth2/beacon/common"
	"github.com/protolambda/zrnt/eth2/beacon/phase0"
	"github.com/protolambda/zrnt/eth2/configs"
	"github.com/protolambda/zrnt/eth2/forkchoice"
	"github.com/protolambda/zrnt/eth2/forkchoice/proto"
	"github.com/protolambda/zrnt/eth2/pool"
	"github.com/protolambda/ztyp/view"
)

// a fixture is a fresh shared instance; call performs method m once with arguments drawn from rng.
type fixture interface {
	call(m string, rng *rand.Rand, g int) bool // false: unknown method
	methods() []string                          // every method the fixture can drive (used to probe for a leaked lock)
}

// ---------------------------------------------------------------- fork choice

type fcFix struct {
	fc    forkchoice.Forkchoice
	roots []int
	next  int32
}

func newFcFix(rng *rand.Rand) fixture {
	spec := &common.Spec{}
	spec.SLOTS_PER_EPOCH = 2
	arr := proto.NewProtoArray(mkRoot(0), mkRoot(1), 0, 0, 0, proto.NodeSinkFn(func(ctx context.Context, ref forkchoice.NodeRef, canonical bool) error { return nil }))
	cp := common.Checkpoint{Epoch: 0, Root: mkRoot(1)}
	fc, err := forkchoice.NewForkChoice(spec, cp, cp, mkRoot(1), 0, arr, proto.NewProtoVoteStore(spec), gweis([]int{10, 20, 32}))
	if err != nil {
		panic(err)
	}
	f := &fcFix{fc: fc, roots: []int{1}, next: 100}
	// a small tree: 1 <- 2 <- 3, 2 <- 4
	fc.ProcessBlock(mkRoot(1), mkRoot(2), 1, 0, 0)
	fc.ProcessBlock(mkRoot(2), mkRoot(3), 2, 0, 0)
	fc.ProcessBlock(mkRoot(2), mkRoot(4), 3, 1, 0)
	f.roots = []int{1, 2, 3, 4}
	fc.ProcessAttestation(0, mkRoot(3), 2)
	return f
}

func (f *fcFix) methods() []string {
	return []string{"Pin", "SetPin", "UpdateJustified", "Justified", "Finalized", "ProcessAttestation", "CanonicalChain",
		"ProcessSlot", "ProcessBlock", "InSubtree", "Search", "ClosestToSlot", "CanonAtSlot", "GetSlot", "FindHead", "Head"}
}

func (f *fcFix) call(m string, rng *rand.Rand, g int) bool {
	r := f.roots[rng.Intn(len(f.roots))]
	slotOf := map[int]int{1: 0, 2: 1, 3: 2, 4: 3, 77: 5}
	// error / early-return paths need arguments the object refuses: an unknown root, a slot that is not a node
	switch rng.Intn(4) {
	case 0:
		r = 77
	case 1:
		slotOf = map[int]int{1: 9, 2: 0, 3: 9, 4: 0, 77: 5}
	}
	switch m {
	case "Pin":
		f.fc.Pin()
	case "SetPin":
		f.fc.SetPin(mkRoot(r), common.Slot(slotOf[r]))
	case "UpdateJustified":
		j := common.Checkpoint{Epoch: 1, Root: mkRoot(2)}
		fin := common.Checkpoint{Epoch: 0, Root: mkRoot(1)}
		if rng.Intn(2) == 0 {
			fin = common.Checkpoint{Epoch: 1, Root: mkRoot(2)}
			j = common.Checkpoint{Epoch: 1, Root: mkRoot(2)}
		}
		trigger := 4
		switch rng.Intn(5) {
		case 0:
			trigger = 77 // unknown trigger
		case 1:
			j = common.Checkpoint{Epoch: 2, Root: mkRoot(77)} // unknown justified root
		case 2:
			j, fin = common.Checkpoint{Epoch: 1, Root: mkRoot(2)}, common.Checkpoint{Epoch: 2, Root: mkRoot(3)} // justified < finalized
		}
		f.fc.UpdateJustified(context.Background(), mkRoot(trigger), j, fin, func() ([]forkchoice.Gwei, error) { return gweis([]int{10, 20, 32, 5}), nil })
	case "Justified":
		f.fc.Justified()
	case "Finalized":
		f.fc.Finalized()
	case "ProcessAttestation":
		f.fc.ProcessAttestation(common.ValidatorIndex(rng.Intn(5)), mkRoot(r), common.Slot(slotOf[r]))
	case "CanonicalChain":
		f.fc.CanonicalChain(mkRoot(r), common.Slot(slotOf[r]))
	case "ProcessSlot":
		// documented precondition: known parent, later slot
		if r == 77 {
			r = 1
		}
		f.fc.ProcessSlot(mkRoot(r), common.Slot(map[int]int{1: 0, 2: 1, 3: 2, 4: 3}[r]+1+rng.Intn(2)), 0, 0)
	case "ProcessBlock":
		n := int(atomic.AddInt32(&f.next, 1))
		f.fc.ProcessBlock(mkRoot(r), mkRoot(n), common.Slot(slotOf[r]+1), 0, 0)
	case "InSubtree":
		f.fc.InSubtree(mkRoot(1), mkRoot(r))
	case "Search":
		f.fc.Search(forkchoice.NodeRef{Root: mkRoot(1), Slot: 0}, nil, nil)
	case "ClosestToSlot":
		f.fc.ClosestToSlot(mkRoot(r), common.Slot(slotOf[r]+1))
	case "CanonAtSlot":
		f.fc.CanonAtSlot(mkRoot(1), common.Slot(rng.Intn(4)), rng.Intn(2) == 0)
	case "GetSlot":
		f.fc.GetSlot(mkRoot(r))
	case "FindHead":
		f.fc.FindHead(mkRoot(r), common.Slot(slotOf[r]))
	case "Head":
		f.fc.Head()
	default:
		return false
	}
	return true
}

// ---------------------------------------------------------------- pubkey cache

type pkFix struct {
	parent, child *common.PubkeyCache
	n             int
	childLen      int
}

func newPkFix(rng *rand.Rand) fixture {
	initKeys()
	p := common.EmptyPubkeyCache()
	n := 2 + rng.Intn(3)
	for i := 0; i < n; i++ {
		p.AddValidator(common.ValidatorIndex(i), keyBytes[i])
	}
	at := rng.Intn(n)
	ch, err := p.AddValidator(common.ValidatorIndex(at), keyBytes[8+at])
	if err != nil || ch == nil {
		panic("fixture: fork-out failed")
	}
	return &pkFix{parent: p, child: ch, n: n, childLen: at + 1}
}

func (f *pkFix) methods() []string { return []string{"Pubkey", "ValidatorIndex", "Pubkey.Pubkey", "AddValidator"} }

func (f *pkFix) call(m string, rng *rand.Rand, g int) bool {
	h := f.parent
	onChild := rng.Intn(2) == 0
	if onChild {
		h = f.child
	}
	switch m {
	case "Pubkey":
		h.Pubkey(common.ValidatorIndex(rng.Intn(f.n + 3)))
	case "ValidatorIndex":
		h.ValidatorIndex(keyBytes[rng.Intn(f.n+12)])
	case "Pubkey.Pubkey":
		if cp, ok := h.Pubkey(common.ValidatorIndex(rng.Intn(f.n))); ok && cp != nil {
			cp.Pubkey()
		}
	case "AddValidator":
		// the next index of the parent (same for both goroutines), a known pair, or a fork-out with a private key
		switch rng.Intn(7) {
		case 5, 6: // far beyond the end with an unknown key: goes all the way to the locked append section and is refused there
			h.AddValidator(common.ValidatorIndex(f.n+5), keyBytes[40+rng.Intn(8)])
		case 4: // the next index of the forked-out child (its own key pool)
			f.child.AddValidator(common.ValidatorIndex(f.childLen), keyBytes[8+f.childLen])
		case 0:
			i := rng.Intn(f.n)
			f.parent.AddValidator(common.ValidatorIndex(i), keyBytes[i])
		case 1:
			i := rng.Intn(f.n)
			f.parent.AddValidator(common.ValidatorIndex(i), keyBytes[24+8*g+i])
		default:
			f.parent.AddValidator(common.ValidatorIndex(f.n), keyBytes[f.n])
		}
	default:
		return false
	}
	return true
}

type cpFix struct{ cp *common.CachedPubkey }

func newCpFix(rng *rand.Rand) fixture {
	initKeys()
	return &cpFix{cp: &common.CachedPubkey{Compressed: keyBytes[rng.Intn(8)]}}
}

func (f *cpFix) methods() []string { return []string{"Pubkey"} }

func (f *cpFix) call(m string, rng *rand.Rand, g int) bool {
	if m != "Pubkey" {
		return false
	}
	f.cp.Pubkey()
	return true
}

// ---------------------------------------------------------------- pools

type poolFix struct {
	s    *poolSession
	comp string
	n    int32
	full bool
}

func newPoolFix(comp string, full bool) func(rng *rand.Rand) fixture {
	return func(rng *rand.Rand) fixture {
		f := &poolFix{s: newPoolSession(), comp: comp, full: full}
		ctx := context.Background()
		// a little content, so that iteration / pruning have something to touch
		for i := 0; i < 2; i++ {
			switch comp {
			case "AttestationPool":
				f.s.ap.AddAttestation(ctx, f.att(rng, i), committeeIdx(i, 0, 3))
			case "VoluntaryExitPool":
				f.s.vep.AddVoluntaryExit(ctx, &phase0.SignedVoluntaryExit{Message: phase0.VoluntaryExit{ValidatorIndex: common.ValidatorIndex(50 + i)}})
			case "ProposerSlashingPool":
				ps := &phase0.ProposerSlashing{}
				ps.SignedHeader1.Message.ProposerIndex = common.ValidatorIndex(50 + i)
				f.s.psp.AddProposerSlashing(ctx, ps)
			}
		}
		if comp == "SyncCommitteePool" {
			f.s.scp.Reset(5)
		}
		return f
	}
}

func committeeIdx(slot, index, size int) common.CommitteeIndices {
	c := committee(slot, index, size)
	out := make(common.CommitteeIndices, len(c))
	for i, v := range c {
		out[i] = common.ValidatorIndex(v)
	}
	return out
}

func (f *poolFix) att(rng *rand.Rand, slot int) *phase0.Attestation {
	bits := []int{0, 0, 0}
	bits[rng.Intn(3)] = 1
	return &phase0.Attestation{AggregationBits: bitlist(bits), Data: attData(dataKey{slot, 0, slot / genSPE, rng.Intn(2)}),
		Signature: sigOf(fmt.Sprint("p", atomic.AddInt32(&f.n, 1)))}
}

var poolMethods = map[string][]string{
	"AttestationPool":      {"AddAttestation", "Search", "Prune", "Packing"},
	"AttesterSlashingPool": {"AddAttesterSlashing", "All", "Pack"},
	"ProposerSlashingPool": {"AddProposerSlashing", "All", "Pack"},
	"VoluntaryExitPool":    {"AddVoluntaryExit", "All", "Pack"},
	"SyncCommitteePool":    {"AddSyncCommitteeMessage", "AddSyncCommitteeContribution", "PackAggregate", "PackContribution", "Reset"},
}

func (f *poolFix) methods() []string { return poolMethods[f.comp] }

func (f *poolFix) call(m string, rng *rand.Rand, g int) bool {
	ctx := context.Background()
	s := f.s
	switch f.comp + "." + m {
	case "AttestationPool.AddAttestation":
		slot := rng.Intn(12)
		a := f.att(rng, slot)
		if rng.Intn(6) == 0 {
			a.AggregationBits = bitlist([]int{0, 0, 0}) // refused: empty attestation
		}
		s.ap.AddAttestation(ctx, a, committeeIdx(slot, 0, 3))
	case "AttestationPool.Search":
		if f.full {
			s.ap.Search()
		} else {
			s.ap.Search(pool.WithSlot(63)) // see pools.go: other filters hit a sequential finding of C20
		}
	case "AttestationPool.Prune":
		s.ap.Prune(common.Epoch(rng.Intn(4)))
	case "AttestationPool.Packing":
		s.ap.Packing(ctx, common.Checkpoint{}, common.Checkpoint{}, common.Root{}, 0, 1, time.Millisecond, nil)
	case "AttesterSlashingPool.AddAttesterSlashing":
		k := rng.Intn(6)
		s.asp.AddAttesterSlashing(ctx, &phase0.AttesterSlashing{
			Attestation1: phase0.IndexedAttestation{AttestingIndices: common.CommitteeIndices{common.ValidatorIndex(k)}, Data: attData(dataKey{k, 0, 0, 0})},
			Attestation2: phase0.IndexedAttestation{AttestingIndices: common.CommitteeIndices{common.ValidatorIndex(k)}, Data: attData(dataKey{k, 0, 0, 1})}})
	case "AttesterSlashingPool.All":
		s.asp.All()
	case "AttesterSlashingPool.Pack":
		s.asp.Pack(nil, 1)
	case "ProposerSlashingPool.AddProposerSlashing":
		ps := &phase0.ProposerSlashing{}
		ps.SignedHeader1.Message.ProposerIndex = common.ValidatorIndex(rng.Intn(6))
		s.psp.AddProposerSlashing(ctx, ps)
	case "ProposerSlashingPool.All":
		s.psp.All()
	case "ProposerSlashingPool.Pack":
		s.psp.Pack(nil, 1)
	case "VoluntaryExitPool.AddVoluntaryExit":
		s.vep.AddVoluntaryExit(ctx, &phase0.SignedVoluntaryExit{Message: phase0.VoluntaryExit{ValidatorIndex: common.ValidatorIndex(rng.Intn(6))}})
	case "VoluntaryExitPool.All":
		s.vep.All()
	case "VoluntaryExitPool.Pack":
		s.vep.Pack(nil, 1)
	case "SyncCommitteePool.AddSyncCommitteeMessage":
		slot := 4 + rng.Intn(3)
		if rng.Intn(5) == 0 {
			slot = 20 // outside the window: refused
		}
		s.scp.AddSyncCommitteeMessage(ctx, &altair.SyncCommitteeMessage{Slot: common.Slot(slot), ValidatorIndex: common.ValidatorIndex(rng.Intn(4))})
	case "SyncCommitteePool.AddSyncCommitteeContribution":
		cslot := 4 + rng.Intn(3)
		if rng.Intn(5) == 0 {
			cslot = 20
		}
		s.scp.AddSyncCommitteeContribution(ctx, &altair.SyncCommitteeContribution{Slot: common.Slot(cslot),
			SubcommitteeIndex: view.Uint64View(rng.Intn(2)), AggregationBits: altair.SyncCommitteeSubnetBits{1}})
	case "SyncCommitteePool.PackAggregate":
		s.scp.PackAggregate(ctx, 5, common.Root{}, nil)
	case "SyncCommitteePool.PackContribution":
		s.scp.PackContribution(ctx, 5, common.Root{}, 0, nil)
	case "SyncCommitteePool.Reset":
		// only rotations by at most one slot around 5: the buffers stay non-nil (a sequential finding of C20 otherwise)
		s.scp.Reset(common.Slot(4 + rng.Intn(3)))
	default:
		return false
	}
	return true
}

var _ = configs.Minimal

// ---------------------------------------------------------------- runner

func fixtureFor(comp string, full bool) func(rng *rand.Rand) fixture {
	switch comp {
	case "ProtoForkChoice":
		return newFcFix
	case "PubkeyCache":
		return newPkFix
	case "CachedPubkey":
		return newCpFix
	case "AttestationPool", "AttesterSlashingPool", "ProposerSlashingPool", "VoluntaryExitPool", "SyncCommitteePool":
		return newPoolFix(comp, full)
	}
	return nil
}

var pairCalls = 3

func runPair(comp, a, b string, iters int, seed int64, single bool) int {
	full := os.Getenv("CONC_FULL") == "1"
	mk := fixtureFor(comp, full)
	if mk == nil {
		fmt.Fprintln(os.Stderr, "UNSUPPORTED component", comp)
		return 4
	}
	rng := rand.New(rand.NewSource(seed))
	for it := 0; it < iters; it++ {
		seeds := [3]int64{rng.Int63(), rng.Int63(), rng.Int63()}
		done := make(chan int, 1)
		go func() {
			f := mk(rand.New(rand.NewSource(seeds[2]))) // under the watchdog too: the set-up calls the component
			if single {
				// one goroutine: method a with many argument classes (so that its error / early-return paths run too),
				// then every method of the component once: a lock leaked by any path of a blocks one of them
				r := rand.New(rand.NewSource(seeds[0]))
				for k := 0; k < pairCalls; k++ {
					if !f.call(a, r, 0) {
						done <- 4
						return
					}
				}
				if b != "" {
					f.call(b, r, 0)
				}
				for _, m := range f.methods() {
					f.call(m, r, 0)
				}
				done <- 0
				return
			}
			var start int32
			var wg sync.WaitGroup
			var unknown int32
			for g, m := range []string{a, b} {
				wg.Add(1)
				go func(g int, m string) {
					defer wg.Done()
					r := rand.New(rand.NewSource(seeds[g]))
					for atomic.LoadInt32(&start) == 0 {
						runtime.Gosched()
					}
					for k := 0; k < pairCalls; k++ {
						if !f.call(m, r, g) {
							atomic.StoreInt32(&unknown, 1)
							return
						}
					}
				}(g, m)
			}
			atomic.StoreInt32(&start, 1)
			wg.Wait()
			if unknown != 0 {
				done <- 4
				return
			}
			done <- 0
		}()
		select {
		case rc := <-done:
			if rc == 4 {
				fmt.Fprintf(os.Stderr, "UNSUPPORTED method of %s: %s / %s\n", comp, a, b)
				return 4
			}
		case <-time.After(callTimeout):
			fmt.Fprintf(os.Stderr, "BLOCKED %s: %s x %s did not return within %v (iteration %d)\n", comp, a, b, callTimeout, it)
			return 3
		}
	}
	return 0
}
