package main

import (
	"context"
	"fmt"
	"math/rand"

	"github.com/protolambda/zrnt/eth2/beacon/common"

	"verif/harness/beaconrec"
	"verif/harness/chain"
)

func schedName(f chain.ForkSchedule) string {
	e := func(x common.Epoch) string {
		if x == chain.FarFuture {
			return "x"
		}
		return fmt.Sprintf("%d", uint64(x))
	}
	return "f" + e(f.Altair) + "_" + e(f.Bellatrix) + "_" + e(f.Capella) + "_" + e(f.Deneb)
}

// idle scenarios: no blocks at all.  ProcessSlots over many epochs from a genesis state whose registry
// was edited through the tree-view setters (slashed / exiting / pending validators, uneven balances):
// inactivity leak, penalties, hysteresis, ejections, activation queue, slashing penalties, every reset
// and accumulator, every fork upgrade.
type idleCfg struct {
	preset     string
	forks      chain.ForkSchedule
	validators int
	epochs     int
	mutate     bool
	maxStep    int // ProcessSlots advances 1..maxStep slots per event
	// queues > 0: instead of the random registry edits, `queues` validators wait for activation (eligible at
	// the finalized epoch 0) and queues+3 validators sit at the ejection balance: in the very first epoch
	// transition both the activation queue and the ejections exceed the churn limit (and, in deneb, the
	// churn limit exceeds the EIP-7514 activation cap)
	queues int
}

func idleScenarios(tier string, seed int64) []scenario {
	F := chain.Forks
	X := chain.FarFuture
	cfgs := []idleCfg{
		{chain.PresetS1, chain.Phase0Only, 16, 12, true, 3, 0},
		{chain.PresetS2, chain.Phase0Only, 16, 14, true, 9, 0},
		{chain.PresetS2, F(2, 4, 6, 8), 16, 14, true, 5, 0},
		{chain.PresetS3, chain.Phase0Only, 32, 10, true, 5, 0},
		{chain.PresetS3, F(1, 1, 2, 3), 32, 12, true, 4, 0},
		{chain.PresetS4, F(1, 2, 3, 4), 8, 20, true, 5, 0},
		{chain.PresetS1, chain.AllAt(3), 16, 12, true, 6, 0},
		{chain.PresetS1, F(2, 3, X, X), 16, 12, true, 1, 0},
		{chain.PresetS4, F(3, 5, 5, 8), 8, 24, false, 7, 0},
		{chain.PresetS2, F(1, 2, 2, 5), 24, 14, true, 4, 0},
		// queue-vs-churn classes in the first epoch transition of every fork (S3: churn 32/4 vs cap 3)
		{chain.PresetS3, chain.Phase0Only, 32, 4, false, 2, 7},
		{chain.PresetS3, F(0, X, X, X), 32, 4, false, 2, 7},
		{chain.PresetS3, F(0, 0, X, X), 32, 4, false, 3, 7},
		{chain.PresetS3, F(0, 0, 0, X), 32, 4, false, 2, 7},
		{chain.PresetS3, F(0, 0, 0, 0), 32, 5, false, 1, 7},
		{chain.PresetS3, F(0, 0, 0, 1), 40, 5, false, 2, 9},
	}
	if tier == "thorough" {
		base := cfgs
		scheds := []chain.ForkSchedule{chain.Phase0Only, F(1, 2, 3, 4), F(2, 2, 2, 2), F(1, 3, 3, 6), F(4, 6, 8, 10),
			F(2, X, X, X), F(1, 2, X, X), F(1, 2, 4, X), F(3, 4, 5, 6), F(2, 4, 4, 7), F(1, 1, 1, 2), F(5, 5, 6, 6)}
		for rep := 0; rep < 6; rep++ {
			for i, p := range chain.ScaledPresets {
				for j, s := range scheds {
					n := chain.DefaultValidatorCount(p)
					if (rep+i+j)%3 == 0 {
						n += 8
					}
					cfgs = append(cfgs, idleCfg{p, s, n, 10 + (rep+j)%8, (rep+j)%4 != 0, 1 + (rep*7+i+j)%9, 0})
				}
			}
		}
		_ = base
	}
	var out []scenario
	for i, cfg := range cfgs {
		cfg := cfg
		i := i
		name := fmt.Sprintf("idle-%02d-%s-%s-v%d", i, cfg.preset, schedName(cfg.forks), cfg.validators)
		out = append(out, scenario{
			name:  name,
			group: cfg.preset + "-" + schedName(cfg.forks),
			run: func(rec *beaconrec.Recorder) error {
				return runIdle(rec, cfg, name, rand.New(rand.NewSource(seed*1000003+int64(i))))
			},
		})
	}
	return out
}

func runIdle(rec *beaconrec.Recorder, cfg idleCfg, name string, rng *rand.Rand) error {
	spec := chain.NewSpec(cfg.preset, cfg.forks)
	c, err := chain.NewGenesis(spec, chain.GenesisOpts{Validators: cfg.validators})
	if err != nil {
		return err
	}
	if cfg.mutate {
		if err := mutateRegistry(c, rng); err != nil {
			return err
		}
	}
	if cfg.queues > 0 {
		if err := queueRegistry(c, cfg.queues); err != nil {
			return err
		}
	}
	rec.Sigs = sigLookup(c.Keys)
	rec.CompensateSyncCache = compensateSyncCache
	c.CompensateSyncCache = compensateSyncCache
	c.Runner = rec
	if err := rec.Init(spec, c.State, map[string]interface{}{"scenario": name}); err != nil {
		return err
	}
	end := common.Slot(cfg.epochs) * spec.SLOTS_PER_EPOCH
	for c.Slot() < end {
		step := common.Slot(1 + rng.Intn(cfg.maxStep))
		// An idle chain drains under ejection-prone presets.  process_slots itself is undefined once no
		// validator is active (proposer / sync committee selection divide by zero), so the history ends
		// while a few validators are still active three epochs ahead, and steps stay within one epoch
		// boundary while the registry is draining.
		draining, alive := false, 0
		for _, v := range c.Validators() {
			if v.ExitEpoch != common.FAR_FUTURE_EPOCH {
				draining = true
			}
			if e := c.Epoch() + 3; v.ActivationEpoch <= e && e < v.ExitEpoch {
				alive++
			}
		}
		if alive < 2 {
			break
		}
		if draining && step > spec.SLOTS_PER_EPOCH {
			step = spec.SLOTS_PER_EPOCH
		}
		if err := c.Slots(c.Slot() + step); err != nil {
			return fmt.Errorf("ProcessSlots failed on an idle chain at slot %d: %w", c.Slot(), err)
		}
	}
	return nil
}

// mutateRegistry edits the genesis registry directly (the result is an arbitrary well-formed state, which
// is all process_slots needs) and rebuilds the epochs context.
func mutateRegistry(c *chain.Chain, rng *rand.Rand) error {
	spec := c.Spec
	vals, err := c.State.Validators()
	if err != nil {
		return err
	}
	bals, err := c.State.Balances()
	if err != nil {
		return err
	}
	slashings, err := c.State.Slashings()
	if err != nil {
		return err
	}
	n := int(c.ValidatorCount())
	half := common.Epoch(spec.EPOCHS_PER_SLASHINGS_VECTOR / 2)
	delay := spec.MIN_VALIDATOR_WITHDRAWABILITY_DELAY
	touched := 0
	for i := 0; i < n; i++ {
		// keep at least 3/4 of the registry untouched-active so committees stay non-trivial
		if touched*4 >= n || rng.Intn(3) != 0 {
			// balance noise around the hysteresis thresholds for some of the others
			if rng.Intn(3) == 0 {
				b := uint64(spec.MAX_EFFECTIVE_BALANCE) - uint64(rng.Intn(1400)) + uint64(rng.Intn(600))
				if err := bals.SetBalance(common.ValidatorIndex(i), common.Gwei(b)); err != nil {
					return err
				}
			}
			continue
		}
		touched++
		v, err := vals.Validator(common.ValidatorIndex(i))
		if err != nil {
			return err
		}
		switch rng.Intn(5) {
		case 0: // slashed a while ago: proportional penalty due at epoch k
			k := common.Epoch(rng.Intn(5))
			if err := v.MakeSlashed(); err != nil {
				return err
			}
			if err := v.SetExitEpoch(k + 1); err != nil {
				return err
			}
			if err := v.SetWithdrawableEpoch(k + half); err != nil {
				return err
			}
			eff, _ := v.EffectiveBalance()
			if err := slashings.AddSlashing(common.Epoch(rng.Intn(int(spec.EPOCHS_PER_SLASHINGS_VECTOR))), eff); err != nil {
				return err
			}
		case 1: // exit already initiated
			e := common.Epoch(2 + rng.Intn(6))
			if err := v.SetExitEpoch(e); err != nil {
				return err
			}
			if err := v.SetWithdrawableEpoch(e + delay); err != nil {
				return err
			}
		case 2: // deposited, eligible, waiting for activation
			if err := v.SetActivationEpoch(common.FAR_FUTURE_EPOCH); err != nil {
				return err
			}
			if err := v.SetActivationEligibilityEpoch(0); err != nil {
				return err
			}
		case 3: // deposited, not yet in the activation queue
			if err := v.SetActivationEpoch(common.FAR_FUTURE_EPOCH); err != nil {
				return err
			}
			if err := v.SetActivationEligibilityEpoch(common.FAR_FUTURE_EPOCH); err != nil {
				return err
			}
		case 4: // low balance: effective balance drops, ejection under S2
			b := uint64(spec.EJECTION_BALANCE) + uint64(rng.Intn(2500))
			if err := bals.SetBalance(common.ValidatorIndex(i), common.Gwei(b)); err != nil {
				return err
			}
		}
	}
	epc, err := common.NewEpochsContext(spec, c.State)
	if err != nil {
		return err
	}
	c.Epc = epc
	return nil
}

var _ = context.Background

// queueRegistry prepares the queue-vs-churn situation described at idleCfg.queues.
func queueRegistry(c *chain.Chain, k int) error {
	spec := c.Spec
	vals, err := c.State.Validators()
	if err != nil {
		return err
	}
	bals, err := c.State.Balances()
	if err != nil {
		return err
	}
	n := int(c.ValidatorCount())
	for j := 0; j < k; j++ { // waiting for activation, eligibility finalized
		v, err := vals.Validator(common.ValidatorIndex(n - 1 - j))
		if err != nil {
			return err
		}
		if err := v.SetActivationEpoch(common.FAR_FUTURE_EPOCH); err != nil {
			return err
		}
		if err := v.SetActivationEligibilityEpoch(0); err != nil {
			return err
		}
	}
	for j := 0; j < k+3; j++ { // at the ejection balance
		i := common.ValidatorIndex(2 * j)
		v, err := vals.Validator(i)
		if err != nil {
			return err
		}
		if err := v.SetEffectiveBalance(spec.EJECTION_BALANCE); err != nil {
			return err
		}
		if err := bals.SetBalance(i, spec.EJECTION_BALANCE); err != nil {
			return err
		}
	}
	epc, err := common.NewEpochsContext(spec, c.State.BeaconState)
	if err != nil {
		return err
	}
	c.Epc = epc
	return nil
}
