// Command beacon records ndjson traces of zrnt's state transition (common.ProcessSlots /
// common.StateTransition) for validation against spec/BeaconTrace.tla (properties C01, C02).
//
//	beacon -out DIR -tier quick|thorough -seed N [-family idle,chain] [-only NAME]
//
// One trace file per (preset, fork schedule) is written to DIR (the reference specification takes its
// constants from the first Init event of a file), plus DIR/stats.json with coverage counters.
package main

import (
	"encoding/json"
	"flag"
	"fmt"
	"os"
	"path/filepath"
	"runtime/debug"
	"sort"
	"strings"

	"verif/harness/beaconrec"
)

type traceFile struct {
	Name      string             `json:"name"`
	Path      string             `json:"path"`
	Histories int                `json:"histories"`
	Events    int                `json:"events"`
	Counters  beaconrec.Counters `json:"counters"`
	f         *os.File
	rec       *beaconrec.Recorder
}

type output struct {
	dir   string
	files map[string]*traceFile
	// maxEvents splits a group into several files when it grows beyond this many events
	maxEvents int
	seq       map[string]int
	all       []*traceFile
	tag       string
}

// compensateSyncCache: see the -compensate-sync-cache flag.
var compensateSyncCache bool

// recorder returns the recorder of the trace file for the given group key (preset + schedule).
func (o *output) recorder(group string) *beaconrec.Recorder {
	tf := o.files[group]
	if tf != nil && tf.rec.Events >= o.maxEvents {
		o.closeFile(tf)
		delete(o.files, group)
		tf = nil
	}
	if tf == nil {
		o.seq[group]++
		name := fmt.Sprintf("%s.%s.%d", group, o.tag, o.seq[group])
		path := filepath.Join(o.dir, name+".ndjson")
		f, err := os.Create(path)
		if err != nil {
			fatal(err)
		}
		tf = &traceFile{Name: name, Path: path, f: f, rec: beaconrec.New(f)}
		o.files[group] = tf
		o.all = append(o.all, tf)
	}
	return tf.rec
}

func (o *output) closeFile(tf *traceFile) {
	if tf.f == nil {
		return
	}
	if err := tf.rec.Flush(); err != nil {
		fatal(err)
	}
	tf.f.Close()
	tf.f = nil
	tf.Events = tf.rec.Events
	tf.Counters = beaconrec.Counters{}
	for k, v := range tf.rec.C {
		if !strings.HasPrefix(k, "_") { // transient marks
			tf.Counters[k] = v
		}
	}
	tf.Histories = tf.rec.C["histories"]
}

func fatal(err error) {
	fmt.Fprintln(os.Stderr, "beacon recorder:", err)
	os.Exit(3)
}

func main() {
	out := flag.String("out", "", "output directory")
	tier := flag.String("tier", "quick", "quick | thorough")
	seed := flag.Int64("seed", 1, "seed of every random choice")
	family := flag.String("family", "idle,chain", "scenario families to run")
	flag.StringVar(&scriptsFile, "scripts", "", "family tlc: file with one TLC-generated scenario script (JSON) per line")
	only := flag.String("only", "", "run only the scenarios whose name contains this string")
	maxEvents := flag.Int("max-events", 400, "split trace files at this many events")
	shard := flag.String("shard", "0/1", "i/n: run only the scenarios whose position is i modulo n")
	comp := flag.Bool("compensate-sync-cache", false, "wrap the state in chain.SyncFixState (reload the context's sync-committee caches at epoch starts); default: zrnt runs unmodified")
	flag.Parse()
	var shardI, shardN int
	if _, err := fmt.Sscanf(*shard, "%d/%d", &shardI, &shardN); err != nil || shardN < 1 || shardI < 0 || shardI >= shardN {
		fatal(fmt.Errorf("bad -shard %q", *shard))
	}
	compensateSyncCache = *comp
	if *out == "" {
		fatal(fmt.Errorf("-out required"))
	}
	if err := os.MkdirAll(*out, 0o755); err != nil {
		fatal(err)
	}
	o := &output{dir: *out, files: map[string]*traceFile{}, maxEvents: *maxEvents, seq: map[string]int{}, tag: fmt.Sprintf("s%d", shardI)}
	var scens []scenario
	for _, fam := range strings.Split(*family, ",") {
		switch fam {
		case "idle":
			scens = append(scens, idleScenarios(*tier, *seed)...)
		case "chain":
			scens = append(scens, chainScenarios(*tier, *seed)...)
		case "tlc":
			scens = append(scens, tlcScenarios(*tier, *seed)...)
		case "":
		default:
			fatal(fmt.Errorf("unknown family %q", fam))
		}
	}
	ran := 0
	for pos, sc := range scens {
		if *only != "" && !strings.Contains(sc.name, *only) {
			continue
		}
		if pos%shardN != shardI {
			continue
		}
		rec := o.recorder(sc.group)
		if err := guarded(rec, sc.name, sc.run); err != nil {
			fatal(fmt.Errorf("scenario %s: %w", sc.name, err))
		}
		ran++
	}
	total := beaconrec.Counters{}
	for _, tf := range o.all {
		o.closeFile(tf)
		for k, v := range tf.Counters {
			total[k] += v
		}
	}
	sort.Slice(o.all, func(i, j int) bool { return o.all[i].Name < o.all[j].Name })
	stats := map[string]interface{}{"files": o.all, "counters": total, "scenarios": ran}
	b, _ := json.MarshalIndent(stats, "", " ")
	if err := os.WriteFile(filepath.Join(*out, fmt.Sprintf("stats.%d.json", shardI)), b, 0o644); err != nil {
		fatal(err)
	}
}

type scenario struct {
	name  string
	group string // trace-file group: preset + fork schedule (one P per file)
	run   func(rec *beaconrec.Recorder) error
}

// guarded runs one scenario.  A panic raised inside zrnt's frames while the harness produces / prepares the
// chain (pre-state advance, state-root dry run, oracle derivation on the shadow copy) ends the history with a
// Crash event - a violation, the model considers the history valid -; a panic of the harness itself still
// kills the recorder (exit 2, infrastructure).
func guarded(rec *beaconrec.Recorder, name string, run func(*beaconrec.Recorder) error) (err error) {
	defer func() {
		if p := recover(); p != nil {
			stack := debug.Stack()
			if _, _, zrnt := beaconrec.ClassifyStack(stack); zrnt && rec.Events > 0 {
				fmt.Fprintf(os.Stderr, "note: %s: zrnt panicked outside a recorded call: %v\n", name, p)
				err = rec.Crash(name, p, stack)
				return
			}
			fmt.Fprintf(os.Stderr, "harness panic in %s: %v\n%s\n", name, p, stack)
			os.Exit(2)
		}
	}()
	return run(rec)
}
