package main

import (
	"fmt"
	"math/rand"
	"os"
	"strings"

	"github.com/protolambda/zrnt/eth2/beacon/common"
	"github.com/protolambda/ztyp/view"

	"verif/harness/absstate"
	"verif/harness/beaconrec"
	"verif/harness/chain"
)

// sigLookup adapts the chain package's signature registry to the recorder.  KeySum is the sum of the
// signers' secret scalars (the harness' keys are the small integers KeyID+1): with such keys a BLS
// aggregate is determined by (message, domain, key sum), which is what the model compares.
func sigLookup(ks *chain.Keys) beaconrec.SigLookup {
	return func(sig common.BLSSignature) (*absstate.SigDesc, bool) {
		info, ok := ks.Lookup(sig)
		if !ok {
			return nil, false
		}
		d := &absstate.SigDesc{Message: info.Message, DomainType: info.DomainType, ForkVersion: info.ForkVersion, GVR: info.GVR}
		sum := uint64(0)
		for _, k := range info.Signers {
			d.Signers = append(d.Signers, ks.Pubkey(k))
			sum += uint64(k) + 1
		}
		d.KeySum = -1
		if sum < 1<<31 {
			d.KeySum = int(sum)
		}
		return d, true
	}
}

// keyTable lists pubkey id -> secret scalar for every key the harness may ever use in these scenarios
// (validator / depositor keys 0..n-1 and their BLS withdrawal keys).
func keyTable(ks *chain.Keys, n int) map[string]int {
	out := map[string]int{}
	for k := 0; k < n; k++ {
		pk := ks.Pubkey(chain.KeyID(k))
		out[absstate.ID(pk[:])] = k + 1
		wk := chain.WithdrawalKey(chain.KeyID(k))
		wpk := ks.Pubkey(wk)
		out[absstate.ID(wpk[:])] = int(wk) + 1
	}
	return out
}

const keyUniverse = 96

func init() {
	absstate.Unwrappers = append(absstate.Unwrappers, func(s common.BeaconState) (common.BeaconState, bool) {
		if f, ok := s.(chain.SyncFixState); ok {
			return f.StandardUpgradeableBeaconState, true
		}
		return nil, false
	})
}

type chainCfg struct {
	name       string
	preset     string
	forks      chain.ForkSchedule
	validators int
	epochs     int
	skipProb   float64
	calm       bool
	genesis    chain.GenesisOpts
	steps      []chain.StepPlan // explicit steps (corner scenarios); nil = RandomScenario
	// prepare edits the freshly built genesis chain before the history starts
	prepare func(c *chain.Chain) error
	// tweak edits the preset (the trace-file group gets tag appended: one preset record per file)
	tweak func(spec *common.Spec)
	tag   string
}

func chainScenarios(tier string, seed int64) []scenario {
	F := chain.Forks
	X := chain.FarFuture
	var cfgs []chainCfg
	add := func(preset string, forks chain.ForkSchedule, epochs int, skip float64, calm bool) {
		cfgs = append(cfgs, chainCfg{preset: preset, forks: forks, validators: chain.DefaultValidatorCount(preset), epochs: epochs, skipProb: skip, calm: calm})
	}
	if tier == "quick" {
		add(chain.PresetS1, chain.Phase0Only, 16, 0.12, false)
		add(chain.PresetS1, F(2, X, X, X), 16, 0.12, false)
		add(chain.PresetS1, F(1, 3, X, X), 16, 0.12, false)
		add(chain.PresetS1, F(1, 2, 4, X), 16, 0.15, false)
		add(chain.PresetS1, F(1, 2, 3, 5), 16, 0.12, false)
		add(chain.PresetS1, F(0, 0, 0, 0), 14, 0.12, false)
		add(chain.PresetS2, chain.Phase0Only, 14, 0.2, false)
		add(chain.PresetS2, F(1, 2, 3, 4), 16, 0.12, false)
		add(chain.PresetS2, F(3, 3, 6, 6), 16, 0.12, false)
		add(chain.PresetS3, F(2, 4, 6, 8), 14, 0.12, false)
		add(chain.PresetS3, F(0, 0, 1, 2), 14, 0.1, false)
		add(chain.PresetS4, F(2, 4, 6, 8), 24, 0.12, false)
		add(chain.PresetS4, chain.AllAt(5), 20, 0.25, false)
		add(chain.PresetS4, F(0, 1, 2, 3), 20, 0.12, true)
		// second batch: other schedules / skip rates (same presets)
		add(chain.PresetS1, F(2, 2, 2, 2), 14, 0.3, false)
		add(chain.PresetS1, F(3, 4, 5, 6), 16, 0.05, false)
		add(chain.PresetS1, F(0, 0, 2, 5), 16, 0.12, false)
		add(chain.PresetS1, F(1, 1, 1, 2), 14, 0.2, false)
		add(chain.PresetS2, F(0, 0, 0, 0), 14, 0.12, false)
		add(chain.PresetS2, F(2, X, X, X), 14, 0.12, false)
		add(chain.PresetS2, F(1, 1, 2, 6), 16, 0.05, false)
		add(chain.PresetS3, chain.Phase0Only, 12, 0.12, false)
		add(chain.PresetS3, F(1, 2, 3, 4), 14, 0.2, false)
		add(chain.PresetS3, F(0, 1, 1, 5), 14, 0.12, false)
		add(chain.PresetS4, chain.Phase0Only, 20, 0.12, false)
		add(chain.PresetS4, F(1, 3, 5, 7), 24, 0.3, false)
		add(chain.PresetS4, F(0, 0, 0, 4), 20, 0.05, false)
		add(chain.PresetS4, F(4, 4, 8, 8), 24, 0.12, false)
	} else {
		scheds := []chain.ForkSchedule{chain.Phase0Only, F(1, 2, 3, 4), F(2, 2, 2, 2), F(1, 3, 3, 6), F(4, 6, 8, 10),
			F(2, X, X, X), F(1, 2, X, X), F(1, 2, 4, X), F(3, 4, 5, 6), F(2, 4, 4, 7), F(0, 0, 0, 0), F(0, 1, 1, 2),
			F(0, 0, 2, 5), F(5, 5, 6, 6), F(0, 0, 0, 3), F(1, 1, 1, 1)}
		for rep := 0; rep < 9; rep++ {
			for i, p := range chain.ScaledPresets {
				for j, s := range scheds {
					epochs := 14 + (rep+i+j)%6
					if p == chain.PresetS4 {
						epochs += 8
					}
					add(p, s, epochs, []float64{0.12, 0.05, 0.3}[(rep+j)%3], (rep+i+j)%7 == 0)
				}
			}
		}
	}
	// preset variants in which MAX_VALIDATORS_PER_WITHDRAWALS_SWEEP exceeds the registry size (the sweep is then
	// bounded by len(validators) but the cursor still advances by the preset value, modulo the registry size),
	// through capella and deneb, with full and non-full withdrawal lists
	for i, f := range []chain.ForkSchedule{F(0, 0, 0, 3), F(0, 0, 1, 4), F(0, 0, 0, X), F(0, 0, 0, 0)} {
		bound, preset, n := 24, chain.PresetS1, 16
		if i%2 == 1 {
			bound, preset, n = 11, chain.PresetS4, 8
		}
		b := bound
		cfgs = append(cfgs, chainCfg{name: fmt.Sprintf("sweep-bound-%d", b), preset: preset, forks: f, validators: n, epochs: 8 + 4*(i%2), skipProb: 0.1,
			tweak: func(spec *common.Spec) { spec.MAX_VALIDATORS_PER_WITHDRAWALS_SWEEP = view.Uint64View(b) }, tag: fmt.Sprintf("-sweep%d", b),
			genesis: chain.GenesisOpts{Eth1Creds: []int{0, 2, 3, 5, 7}}})
	}
	// own corner: attester slashings over sets that mix slashable validators with an already slashed one, a not
	// yet activated one (fresh deposit) and an exited + withdrawable one; valid by the specification (the
	// non-slashable members are skipped)
	for _, f := range []chain.ForkSchedule{chain.Phase0Only, F(0, 0, 0, 0), F(1, 2, 3, 4), F(0, 1, X, X)} {
		cfgs = append(cfgs, chainCfg{name: "corner-mixed-attester-slashing", preset: chain.PresetS1, forks: f, validators: 16,
			genesis: chain.GenesisOpts{PendingDeposits: []chain.DepositSpec{{Key: 16}}}, steps: mixedSlashingSteps()})
	}
	// own corner: several aggregates of ONE committee with overlapping attester sets, in the same and in later
	// blocks: {0,1} then {0,2} (an already flagged attester precedes a new one), an exact duplicate, a strict superset
	for _, f := range []chain.ForkSchedule{chain.Phase0Only, F(0, X, X, X), F(0, 0, X, X), F(0, 0, 0, X), F(0, 0, 0, 0), F(1, 2, 3, 4)} {
		cfgs = append(cfgs, chainCfg{name: "corner-overlapping-aggregates", preset: chain.PresetS1, forks: f, validators: 32,
			steps: overlappingAggregateSteps(24)})
	}
	// own corner: deposits whose signature BYTES have every shape (valid / wrong but decodable / all-zero / all-0xff /
	// garbage / infinity), as top-ups (counted whatever the signature) and for new pubkeys (ignored unless valid;
	// a later valid deposit of the same pubkey creates the validator)
	for _, f := range []chain.ForkSchedule{chain.Phase0Only, F(0, 0, 0, 0), F(0, 1, X, X), F(1, 2, 3, 4), F(0, 0, X, X), F(0, 0, 0, X)} {
		cfgs = append(cfgs, chainCfg{name: "corner-deposit-signature-shapes", preset: chain.PresetS1, forks: f, validators: 16,
			steps: honestSteps(16), prepare: depositSignatureShapes})
	}
	for _, ns := range chain.CornerScenarios() {
		ns := ns
		g := ns.Genesis
		if g.Validators == 0 {
			g.Validators = chain.DefaultValidatorCount(ns.Preset)
		}
		cfgs = append(cfgs, chainCfg{name: "corner-" + ns.Name, preset: ns.Preset, forks: ns.Forks, validators: g.Validators, genesis: g, steps: ns.Steps})
	}
	var out []scenario
	for i, cfg := range cfgs {
		cfg := cfg
		i := i
		if cfg.name == "" {
			cfg.name = fmt.Sprintf("random-%02d", i)
		}
		name := fmt.Sprintf("chain-%s-%s-%s-v%d", cfg.name, cfg.preset, schedName(cfg.forks), cfg.validators)
		out = append(out, scenario{
			name:  name,
			group: cfg.preset + cfg.tag + "-" + schedName(cfg.forks),
			run: func(rec *beaconrec.Recorder) error {
				return runChain(rec, cfg, name, rand.New(rand.NewSource(seed*7919+int64(i))))
			},
		})
	}
	return out
}

func runChain(rec *beaconrec.Recorder, cfg chainCfg, name string, rng *rand.Rand) error {
	spec := chain.NewSpec(cfg.preset, cfg.forks)
	if cfg.tweak != nil {
		cfg.tweak(spec)
	}
	g := cfg.genesis
	g.Validators = cfg.validators
	c, err := chain.NewGenesis(spec, g)
	if err != nil {
		return err
	}
	if cfg.prepare != nil {
		if err := cfg.prepare(c); err != nil {
			return err
		}
	}
	steps := cfg.steps
	if steps == nil {
		steps = chain.RandomScenario(rng, spec, chain.ScenarioOpts{Epochs: cfg.epochs, Validators: cfg.validators, SkipProb: cfg.skipProb, Calm: cfg.calm})
	}
	// some of the skipped slots become ProcessSlots calls of their own (Slots events)
	for i := range steps {
		if steps[i].Skip && !steps[i].AdvanceOnly && rng.Intn(2) == 0 {
			steps[i].AdvanceOnly = true
		}
	}
	rec.Sigs = sigLookup(c.Keys)
	rec.ExpectValid = true
	rec.ProbeSlots = true
	// zrnt is observed unmodified: no harness-side reload of the context's sync-committee caches
	// (chain.SyncFixState) unless explicitly asked for with -compensate-sync-cache
	rec.CompensateSyncCache = compensateSyncCache
	c.CompensateSyncCache = compensateSyncCache
	if c.Engine != nil {
		eng := c.Engine
		rec.EngineOK = func() bool {
			calls := eng.Calls()
			return len(calls) == 0 || calls[len(calls)-1].Verdict == chain.EngineValid
		}
	}
	c.Runner = rec
	meta := map[string]interface{}{"scenario": name}
	if err := initHistory(rec, c, cfg.preset, g, meta, cfg.prepare); err != nil {
		return err
	}
	sc := chain.NewScenario(c)
	sc.KeepStates = false
	for _, st := range steps {
		r := sc.Step(st)
		if r.Err != nil {
			// zrnt rejecting an honest block is logged as a Block event with accepted=false (a C01
			// violation the trace specification reports); anything else is a harness problem
			if r.Kind == "block" && r.Env != nil {
				rec.C.Add("honest_blocks_rejected", 1)
				return nil
			}
			if r.Env == nil && strings.Contains(r.Err.Error(), "no active validators") {
				// the registry drained completely (ejection-prone preset during a long leak): no further
				// block can exist, process_slots itself is undefined from here on; the history ends here
				rec.C.Add("histories_ended_by_drained_registry", 1)
				fmt.Fprintf(os.Stderr, "note: %s ends at slot %d: registry drained\n", name, st.Slot)
				return nil
			}
			return fmt.Errorf("slot %d (%s): %w", st.Slot, r.Kind, r.Err)
		}
	}
	return nil
}

// initHistory writes the Init event.  When a fork is scheduled at epoch 0 the genesis state was upgraded in
// place by chain.NewGenesis (zrnt's UpgradeMaybe at slot 0); the same genesis is then built once more under
// a schedule without forks to obtain the pre-upgrade state, and the upgrade itself is validated.
func initHistory(rec *beaconrec.Recorder, c *chain.Chain, preset string, g chain.GenesisOpts, meta map[string]interface{}, prepare ...func(*chain.Chain) error) error {
	keys := keyTable(c.Keys, keyUniverse)
	if c.Spec.ALTAIR_FORK_EPOCH != 0 {
		return rec.InitWithKeys(c.Spec, c.State, meta, keys)
	}
	g.Keys, g.Engine = nil, nil
	pre, err := chain.NewGenesis(chain.NewSpec(preset, chain.Phase0Only), g)
	if err != nil {
		return err
	}
	for _, p := range prepare {
		if p != nil {
			if err := p(pre); err != nil {
				return err
			}
		}
	}
	return rec.InitUpgraded(c.Spec, pre.State, c.State, meta, keys)
}

// mixedSlashingSteps: validator 3 is slashed as a proposer at slot 3 and exits validator 5 early; later blocks
// carry attester slashings over {3, 6} (3 already slashed), {9, 16} (16 deposited at slot 1, never activated)
// and, once 5 is withdrawable, {5, 10}.
func mixedSlashingSteps() []chain.StepPlan {
	vi := func(xs ...int) []common.ValidatorIndex {
		out := make([]common.ValidatorIndex, len(xs))
		for i, x := range xs {
			out[i] = common.ValidatorIndex(x)
		}
		return out
	}
	var steps []chain.StepPlan
	for sl := 1; sl <= 40; sl++ {
		st := chain.StepPlan{Slot: common.Slot(sl), Seed: int64(7000 + sl)}
		switch sl {
		case 3:
			st.Block = &chain.BlockPlan{ProposerSlashings: []chain.ProposerSlashingPlan{{Proposer: 3}}}
		case 6:
			st.Block = &chain.BlockPlan{AttesterSlashings: []chain.AttesterSlashingPlan{{Indices: vi(3, 6)}}}
		case 9:
			st.Block = &chain.BlockPlan{Exits: []chain.ExitPlan{{Validator: 5}}}
		case 10:
			st.Block = &chain.BlockPlan{AttesterSlashings: []chain.AttesterSlashingPlan{{Indices: vi(9, 16)}}}
		case 14:
			st.Block = &chain.BlockPlan{AttesterSlashings: []chain.AttesterSlashingPlan{{Indices: vi(3, 11), Surround: true}}}
		case 5:
			// partial intersection: {1, 12, 13, 14} and {7, 12, 13, 15} - only 12 and 13 signed both
			st.Block = &chain.BlockPlan{AttesterSlashings: []chain.AttesterSlashingPlan{{Indices: vi(12, 13), Only1: vi(1, 14), Only2: vi(7, 15)}}}
		case 22:
			// ... and with the already slashed 3 in the intersection, surround vote: {2, 3, 4} and {0, 3, 4, 8}
			st.Block = &chain.BlockPlan{AttesterSlashings: []chain.AttesterSlashingPlan{{Indices: vi(3, 4), Only1: vi(2), Only2: vi(0, 8), Surround: true}}}
		case 38:
			// validator 5: exit epoch 2+1+2 = 5, withdrawable 7: at epoch 9 it is no longer slashable
			st.Block = &chain.BlockPlan{AttesterSlashings: []chain.AttesterSlashingPlan{{Indices: vi(5, 10)}}}
		}
		steps = append(steps, st)
	}
	return steps
}

func honestSteps(n int) []chain.StepPlan {
	var steps []chain.StepPlan
	for sl := 1; sl <= n; sl++ {
		steps = append(steps, chain.StepPlan{Slot: common.Slot(sl), Seed: int64(8000 + sl)})
	}
	return steps
}

// depositSignatureShapes puts 17 deposits on the eth1 side and lets the genesis state's eth1_data commit to them
// (as chain.GenesisOpts.PendingDeposits does): the first nine blocks must include them, two per block.
func depositSignatureShapes(c *chain.Chain) error {
	spec := c.Spec
	shape := func(d *common.DepositData, how string) {
		switch how {
		case "zero":
			d.Signature = common.BLSSignature{}
		case "ff":
			for j := range d.Signature {
				d.Signature[j] = 0xff
			}
		case "garbage":
			for j := range d.Signature {
				d.Signature[j] = byte(0x31 + 3*j)
			}
		case "infinity":
			d.Signature = chain.InfinitySignature
		}
	}
	add := func(key chain.KeyID, amount common.Gwei, how string) {
		ds := chain.DepositSpec{Key: key, Amount: amount, BadSignature: how == "wrong"}
		d := chain.MakeDepositData(spec, c.Keys, ds)
		shape(&d, how)
		c.Deposits.Append(d)
	}
	inc := spec.EFFECTIVE_BALANCE_INCREMENT
	// top-ups of genesis validators 2..7
	for i, how := range []string{"valid", "wrong", "zero", "ff", "garbage", "infinity"} {
		add(chain.KeyID(2+i), inc*2, how)
	}
	// new pubkeys 16..21, then the valid re-deposits of 17..21
	// (the valid one above MAX_EFFECTIVE_BALANCE: a new validator's effective balance is capped)
	for i, how := range []string{"valid", "wrong", "zero", "ff", "garbage", "infinity"} {
		amount := common.Gwei(0)
		if how == "valid" {
			amount = spec.MAX_EFFECTIVE_BALANCE + 3*inc
		}
		add(chain.KeyID(16+i), amount, how)
	}
	for k := 17; k <= 21; k++ {
		// 17: above the cap, 18: one increment below it, 19: not a multiple of the increment
		amount := map[int]common.Gwei{17: spec.MAX_EFFECTIVE_BALANCE + inc + 7, 18: spec.MAX_EFFECTIVE_BALANCE - inc, 19: spec.MAX_EFFECTIVE_BALANCE - inc/2}[k]
		add(chain.KeyID(k), amount, "valid")
	}
	cur, _ := c.Eth1()
	ed := c.Deposits.Eth1Data(c.Deposits.Count())
	ed.BlockHash = cur.BlockHash
	return c.State.SetEth1Data(ed)
}

// overlappingAggregateSteps: nobody attests through the pool; every block carries hand-made aggregates of the
// committees of the two previous slots (32 validators: 2 committees of 4 per slot).
func overlappingAggregateSteps(n int) []chain.StepPlan {
	var steps []chain.StepPlan
	for sl := 1; sl <= n; sl++ {
		st := chain.StepPlan{Slot: common.Slot(sl), Seed: int64(8500 + sl), NoAttest: true, HoldAttestations: true}
		plan := &chain.BlockPlan{}
		a := func(slot int, index int, pos ...int) {
			if slot >= 1 || (slot == 0 && sl > 0) {
				plan.Attestations = append(plan.Attestations, chain.AttPlan{Slot: common.Slot(slot), Index: common.CommitteeIndex(index), Positions: pos})
			}
		}
		// previous slot, committee 0: two partially overlapping aggregates in the same block
		a(sl-1, 0, 0, 1)
		a(sl-1, 0, 0, 2)
		// previous slot, committee 1: everybody
		a(sl-1, 1, 0, 1, 2, 3)
		if sl >= 2 {
			// the slot before: committee 0 once more, alternating strict superset / exact duplicate / overlap {1,3}
			switch sl % 3 {
			case 0:
				a(sl-2, 0, 0, 1, 2, 3)
			case 1:
				a(sl-2, 0, 0, 1)
			default:
				a(sl-2, 0, 1, 3)
			}
		}
		st.Block = plan
		steps = append(steps, st)
	}
	return steps
}
