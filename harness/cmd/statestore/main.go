// Command statestore: replays TLC-generated StateStore behaviours (spec/StateStore.tla) on real beacon states of every
// fork and compares, after every step, every live handle with the model's store (C15) and the view root with the root of
// the same content rebuilt from scratch (history half of C05).
//
//	statestore caps   -fork F -schemas schemas_minimal.json            -> fields.json (field table for the model)
//	statestore replay -fork F -schemas ... -behaviours b.ndjson -seed N -> report.ndjson
package main

import (
	"bufio"
	"bytes"
	"context"
	"encoding/binary"
	"encoding/hex"
	"encoding/json"
	"flag"
	"fmt"
	"hash/fnv"
	"math/rand"
	"os"
	"reflect"
	"sort"
	"strings"

	blsu "github.com/protolambda/bls12-381-util"
	"github.com/protolambda/zrnt/eth2/beacon"
	"github.com/protolambda/zrnt/eth2/beacon/altair"
	"github.com/protolambda/zrnt/eth2/beacon/bellatrix"
	"github.com/protolambda/zrnt/eth2/beacon/capella"
	"github.com/protolambda/zrnt/eth2/beacon/common"
	"github.com/protolambda/zrnt/eth2/beacon/deneb"
	"github.com/protolambda/zrnt/eth2/beacon/electra"
	"github.com/protolambda/zrnt/eth2/beacon/phase0"
	"github.com/protolambda/ztyp/codec"
	"github.com/protolambda/ztyp/tree"
	"github.com/protolambda/ztyp/view"

	"verif/harness/sszreg"
)

var forks = []string{"phase0", "altair", "bellatrix", "capella", "deneb", "electra"}

const nValidators = 8

func die(f string, a ...interface{}) {
	fmt.Fprintf(os.Stderr, "statestore: "+f+"\n", a...)
	os.Exit(2)
}

// ---------------------------------------------------------------------------------------------------------------
// base states

func forkIndex(f string) int {
	for i, x := range forks {
		if x == f {
			return i
		}
	}
	die("unknown fork %s", f)
	return -1
}

func specFor(tab *sszreg.Table, fork string) *common.Spec {
	spec, err := tab.BuildSpec()
	if err != nil {
		die("%v", err)
	}
	far := common.Epoch(^uint64(0))
	fi := forkIndex(fork)
	set := func(i int, e *common.Epoch) {
		if fi >= i {
			*e = 0
		} else {
			*e = far
		}
	}
	set(1, &spec.ALTAIR_FORK_EPOCH)
	set(2, &spec.BELLATRIX_FORK_EPOCH)
	set(3, &spec.CAPELLA_FORK_EPOCH)
	set(4, &spec.DENEB_FORK_EPOCH)
	set(5, &spec.ELECTRA_FORK_EPOCH)
	spec.FULU_FORK_EPOCH = far
	spec.EIP7441_FORK_EPOCH = far
	spec.EIP7732_FORK_EPOCH = far
	return spec
}

// baseState: genesis with nValidators real keys (sk = i+1), upgraded at slot 0 up to the requested fork.
// distinctSyncCommittees makes next_sync_committee differ from current_sync_committee (the genesis/upgrade path computes
// the same committee twice): the same members rotated by one position, so the aggregate key stays valid.  Without this a
// rotation that keeps the wrong committee would be invisible.
func distinctSyncCommittees(spec *common.Spec, st common.BeaconState, epc *common.EpochsContext) {
	ss, ok := st.(common.SyncCommitteeBeaconState)
	if !ok {
		return
	}
	cur, err := ss.CurrentSyncCommittee()
	if err != nil {
		die("sync committee: %v", err)
	}
	pv, err := cur.Pubkeys()
	if err != nil {
		die("sync committee: %v", err)
	}
	pubs, err := pv.Flatten()
	if err != nil {
		die("sync committee: %v", err)
	}
	agg, err := cur.AggregatePubkey()
	if err != nil {
		die("sync committee: %v", err)
	}
	rot := append(append([]common.BLSPubkey{}, pubs[1:]...), pubs[0])
	distinct := false
	for i := range rot {
		if rot[i] != pubs[i] {
			distinct = true
		}
	}
	if !distinct {
		die("cannot build a next sync committee that differs from the current one")
	}
	nv, err := (&common.SyncCommittee{Pubkeys: rot, AggregatePubkey: agg}).View(spec)
	if err != nil {
		die("sync committee view: %v", err)
	}
	if err := ss.SetNextSyncCommittee(nv); err != nil {
		die("SetNextSyncCommittee: %v", err)
	}
	if err := epc.LoadSyncCommittees(ss); err != nil {
		die("LoadSyncCommittees: %v", err)
	}
}

func baseState(spec *common.Spec) (common.BeaconState, *common.EpochsContext) {
	st, epc := baseStateRaw(spec)
	distinctSyncCommittees(spec, st, epc)
	return st, epc
}

func baseStateRaw(spec *common.Spec) (common.BeaconState, *common.EpochsContext) {
	vals := make([]phase0.KickstartValidatorData, nValidators)
	for i := range vals {
		var raw [32]byte
		binary.BigEndian.PutUint64(raw[24:], uint64(i)+1)
		var sk blsu.SecretKey
		if err := sk.Deserialize(&raw); err != nil {
			die("key: %v", err)
		}
		pk, err := blsu.SkToPk(&sk)
		if err != nil {
			die("key: %v", err)
		}
		vals[i].Pubkey = common.BLSPubkey(pk.Serialize())
		vals[i].WithdrawalCredentials[0] = byte(i % 2) // both BLS and eth1 credentials occur
		vals[i].WithdrawalCredentials[31] = byte(i + 1)
		vals[i].Balance = spec.MAX_EFFECTIVE_BALANCE
	}
	st, epc, err := phase0.KickStartState(spec, common.Root{0x42}, 1600000000, vals)
	if err != nil {
		die("genesis: %v", err)
	}
	up := &beacon.StandardUpgradeableBeaconState{BeaconState: st}
	electraEpoch := spec.ELECTRA_FORK_EPOCH
	spec.ELECTRA_FORK_EPOCH = common.Epoch(^uint64(0)) // zrnt has no deneb->electra upgrade function
	if err := up.UpgradeMaybe(context.Background(), spec, epc); err != nil {
		die("upgrade: %v", err)
	}
	spec.ELECTRA_FORK_EPOCH = electraEpoch
	if electraEpoch == 0 {
		// an electra state with the content of the deneb state (new fields at their defaults), built through the
		// text form of the struct types and loaded from its encoding
		dv := up.BeaconState.(*deneb.BeaconStateView)
		raw, err := dv.Raw(spec)
		if err != nil {
			die("deneb raw: %v", err)
		}
		js, err := json.Marshal(raw)
		if err != nil {
			die("%v", err)
		}
		var er electra.BeaconState
		if err := json.Unmarshal(js, &er); err != nil {
			die("deneb -> electra: %v", err)
		}
		var buf bytes.Buffer
		if err := er.Serialize(spec, codec.NewEncodingWriter(&buf)); err != nil {
			die("%v", err)
		}
		es, err := decodeState("electra", spec, buf.Bytes())
		if err != nil {
			die("electra state: %v", err)
		}
		return es, epc
	}
	return up.BeaconState, epc
}

func stateTypeOf(fork string, spec *common.Spec) *view.ContainerTypeDef {
	switch fork {
	case "phase0":
		return phase0.BeaconStateType(spec)
	case "altair":
		return altair.BeaconStateType(spec)
	case "bellatrix":
		return bellatrix.BeaconStateType(spec)
	case "capella":
		return capella.BeaconStateType(spec)
	case "deneb":
		return deneb.BeaconStateType(spec)
	case "electra":
		return electra.BeaconStateType(spec)
	}
	die("fork %s", fork)
	return nil
}

func asStateView(fork string, v view.View, err error) (common.BeaconState, error) {
	switch fork {
	case "phase0":
		return phase0.AsBeaconStateView(v, err)
	case "altair":
		return altair.AsBeaconStateView(v, err)
	case "bellatrix":
		return bellatrix.AsBeaconStateView(v, err)
	case "capella":
		return capella.AsBeaconStateView(v, err)
	case "deneb":
		return deneb.AsBeaconStateView(v, err)
	case "electra":
		return electra.AsBeaconStateView(v, err)
	}
	return nil, fmt.Errorf("fork %s", fork)
}

func decodeState(fork string, spec *common.Spec, data []byte) (common.BeaconState, error) {
	v, err := stateTypeOf(fork, spec).Deserialize(codec.NewDecodingReader(bytes.NewReader(data), uint64(len(data))))
	return asStateView(fork, v, err)
}

// ---------------------------------------------------------------------------------------------------------------
// reflection helpers

type env struct {
	fork   string
	spec   *common.Spec
	tab    *sszreg.Table
	schema *sszreg.Schema // the fork's BeaconState container schema
	seed   int64
	hFn    tree.HashFn
	// spelling of JSON keys per Go type (zrnt does not always use the specification's names)
	rawType reflect.Type // struct type returned by Raw(spec)
}

type handle struct {
	st  common.BeaconState
	epc *common.EpochsContext
}

func callRec(obj interface{}, name string, spec *common.Spec, args ...interface{}) (out []reflect.Value, err error) {
	defer func() {
		if r := recover(); r != nil {
			err = fmt.Errorf("panic: %v", r)
		}
	}()
	m := reflect.ValueOf(obj).MethodByName(name)
	if !m.IsValid() {
		return nil, fmt.Errorf("no method %s", name)
	}
	mt := m.Type()
	var in []reflect.Value
	ai := 0
	for i := 0; i < mt.NumIn(); i++ {
		if mt.In(i) == reflect.TypeOf(spec) {
			in = append(in, reflect.ValueOf(spec))
			continue
		}
		if ai >= len(args) {
			return nil, fmt.Errorf("method %s: too few arguments", name)
		}
		a := reflect.ValueOf(args[ai])
		if rv, ok := args[ai].(reflect.Value); ok {
			a = rv
		}
		ai++
		if !a.Type().AssignableTo(mt.In(i)) {
			if a.Type().ConvertibleTo(mt.In(i)) {
				a = a.Convert(mt.In(i))
			} else {
				return nil, fmt.Errorf("method %s: argument %d has type %s, want %s", name, i, a.Type(), mt.In(i))
			}
		}
		in = append(in, a)
	}
	out = m.Call(in)
	if n := len(out); n > 0 {
		if e, ok := out[n-1].Interface().(error); ok && e != nil {
			return out, e
		}
	}
	return out, nil
}

func hasMethod(obj interface{}, name string) bool {
	return reflect.ValueOf(obj).MethodByName(name).IsValid()
}

func norm(x interface{}) interface{} {
	b, err := json.Marshal(x)
	if err != nil {
		return fmt.Sprintf("<<marshal error %v>>", err)
	}
	return normBytes(b)
}

func normBytes(b []byte) interface{} {
	d := json.NewDecoder(bytes.NewReader(b))
	d.UseNumber()
	var out interface{}
	if err := d.Decode(&out); err != nil {
		return fmt.Sprintf("<<bad json %v>>", err)
	}
	return canon(out)
}

// canon makes null and [] equal and numbers strings, so that comparisons are about values.
func canon(x interface{}) interface{} {
	switch t := x.(type) {
	case nil:
		return []interface{}{}
	case json.Number:
		return t.String()
	case []interface{}:
		o := make([]interface{}, len(t))
		for i := range t {
			o[i] = canon(t[i])
		}
		return o
	case map[string]interface{}:
		o := map[string]interface{}{}
		for k, v := range t {
			o[k] = canon(v)
		}
		return o
	}
	return x
}

func short(x interface{}) string {
	b, _ := json.Marshal(x)
	s := string(b)
	if len(s) > 220 {
		return s[:150] + "…" + s[len(s)-50:]
	}
	return s
}

func normKey(k string) string { return strings.ToLower(strings.ReplaceAll(k, "_", "")) }

// jsonFieldOf finds the struct field of t (a struct type) whose JSON key matches name.
func jsonFieldOf(t reflect.Type, name string) (reflect.StructField, bool) {
	for i := 0; i < t.NumField(); i++ {
		f := t.Field(i)
		tag := strings.Split(f.Tag.Get("json"), ",")[0]
		if tag == "" {
			tag = f.Name
		}
		if tag == name || normKey(tag) == normKey(name) {
			return f, true
		}
	}
	return reflect.StructField{}, false
}

// ---------------------------------------------------------------------------------------------------------------
// concrete values: generated from the schema, rendered with the key spelling of the Go type, decoded into the Go type

func bitsToBytes(bits []byte, delimiter bool) []byte {
	n := len(bits)
	if delimiter {
		n++
	}
	out := make([]byte, (n+7)/8)
	for i, b := range bits {
		if b != 0 {
			out[i/8] |= 1 << uint(i%8)
		}
	}
	if delimiter {
		out[len(bits)/8] |= 1 << uint(len(bits)%8)
	}
	return out
}

func leDecimal(b []byte) string {
	var v uint64
	if len(b) <= 8 {
		for i := len(b) - 1; i >= 0; i-- {
			v = v<<8 | uint64(b[i])
		}
		return fmt.Sprintf("%d", v)
	}
	// big: use hex -> big.Int
	be := make([]byte, len(b))
	for i := range b {
		be[len(b)-1-i] = b[i]
	}
	var z = new(bigInt)
	return z.fromBytes(be)
}

// renderFor renders a schema value as JSON text using the key spelling of Go type t.
func renderFor(s *sszreg.Schema, v *sszreg.Value, t reflect.Type) interface{} {
	for t != nil && t.Kind() == reflect.Ptr {
		t = t.Elem()
	}
	switch s.Kind {
	case "uint":
		return leDecimal(v.B)
	case "bool":
		return v.B[0] == 1
	case "bytevector", "bytelist":
		return "0x" + hex.EncodeToString(v.B)
	case "bitvector":
		return "0x" + hex.EncodeToString(bitsToBytes(v.B, false))
	case "bitlist":
		return "0x" + hex.EncodeToString(bitsToBytes(v.B, true))
	case "vector", "list":
		var et reflect.Type
		if t != nil && (t.Kind() == reflect.Slice || t.Kind() == reflect.Array) {
			et = t.Elem()
		}
		out := make([]interface{}, len(v.L))
		for i, e := range v.L {
			out[i] = renderFor(s.Elem, e, et)
		}
		return out
	case "container":
		out := map[string]interface{}{}
		for i, f := range s.Fields {
			key := f.Name
			var ft reflect.Type
			if t != nil && t.Kind() == reflect.Struct {
				if sf, ok := jsonFieldOf(t, f.Name); ok {
					tag := strings.Split(sf.Tag.Get("json"), ",")[0]
					if tag == "" {
						tag = sf.Name
					}
					key = tag
					ft = sf.Type
				}
			}
			out[key] = renderFor(f.Schema, v.L[i], ft)
		}
		return out
	}
	return nil
}

func (e *env) rng(field string, id int) *rand.Rand {
	h := fnv.New64a()
	fmt.Fprintf(h, "%d|%s|%d", e.seed, field, id)
	return rand.New(rand.NewSource(int64(h.Sum64())))
}

// concrete returns the typed Go value (of type t) with id `id` for schema s, plus its normalised JSON.
func (e *env) concrete(field string, id int, s *sszreg.Schema, t reflect.Type) (reflect.Value, interface{}, error) {
	g := &sszreg.Gen{R: e.rng(field, id), Mode: sszreg.GenRandom, Budget: 300}
	v := g.Value(s)
	js, err := json.Marshal(renderFor(s, v, t))
	if err != nil {
		return reflect.Value{}, nil, err
	}
	ptr := reflect.New(t)
	if err := json.Unmarshal(js, ptr.Interface()); err != nil {
		return reflect.Value{}, nil, fmt.Errorf("decoding generated %s value %s: %v", field, string(js), err)
	}
	return ptr.Elem(), norm(ptr.Interface()), nil
}

// ---------------------------------------------------------------------------------------------------------------
// field table

type fieldInfo struct {
	Name string   `json:"name"`
	Kind string   `json:"kind"`
	Len  int      `json:"len"`
	Cap  int      `json:"cap"`
	Ops  []string `json:"ops"`

	idx    int
	schema *sszreg.Schema
	goType reflect.Type // type of the field in the Raw struct
}

// accessor names per field (the binding table).  A method that does not exist on a fork's state type simply means the
// capability is absent there; `mustHave` lists what every fork that has the field is required to offer.
type accessor struct {
	get, set         string // typed whole-field getter / setter
	bump             string // increment-style mutator
	sub              string // getter of the typed sub-view (collections)
	getElem, setElem string // element accessors on the sub-view (index argument first)
	appendM, resetM  string
	setAll, fill     string // whole-collection setter on the state / fill on the state
	touch            bool   // elements are containers with their own sub-field setters (validators)
	wrap             func(v view.View, err error) (interface{}, error)
	copyField        bool
}

func wrapOf(f interface{}) func(v view.View, err error) (interface{}, error) {
	fv := reflect.ValueOf(f)
	return func(v view.View, err error) (interface{}, error) {
		var ev reflect.Value
		if err == nil {
			ev = reflect.Zero(reflect.TypeOf((*error)(nil)).Elem())
		} else {
			ev = reflect.ValueOf(err)
		}
		var vv reflect.Value
		if v == nil {
			vv = reflect.Zero(reflect.TypeOf((*view.View)(nil)).Elem())
		} else {
			vv = reflect.ValueOf(v)
		}
		out := fv.Call([]reflect.Value{vv, ev})
		if e, ok := out[1].Interface().(error); ok && e != nil {
			return nil, e
		}
		return out[0].Interface(), nil
	}
}

func accessors(fork string) map[string]accessor {
	var hdr func(v view.View, err error) (interface{}, error)
	switch fork {
	case "bellatrix":
		hdr = wrapOf(bellatrix.AsExecutionPayloadHeader)
	case "capella":
		hdr = wrapOf(capella.AsExecutionPayloadHeader)
	case "deneb", "electra":
		hdr = wrapOf(deneb.AsExecutionPayloadHeader)
	}
	cp := wrapOf(common.AsCheckPoint)
	sc := wrapOf(common.AsSyncCommittee)
	return map[string]accessor{
		"genesis_time":                     {get: "GenesisTime", set: "SetGenesisTime"},
		"genesis_validators_root":          {get: "GenesisValidatorsRoot", set: "SetGenesisValidatorsRoot"},
		"slot":                             {get: "Slot", set: "SetSlot"},
		"fork":                             {get: "Fork", set: "SetFork", wrap: wrapOf(common.AsFork)},
		"latest_block_header":              {get: "LatestBlockHeader", set: "SetLatestBlockHeader", wrap: wrapOf(common.AsBeaconBlockHeader)},
		"block_roots":                      {sub: "BlockRoots", getElem: "GetRoot", setElem: "SetRoot"},
		"state_roots":                      {sub: "StateRoots", getElem: "GetRoot", setElem: "SetRoot"},
		"historical_roots":                 {sub: "HistoricalRoots", appendM: "Append"},
		"eth1_data":                        {get: "Eth1Data", set: "SetEth1Data", wrap: wrapOf(common.AsEth1Data)},
		"eth1_data_votes":                  {sub: "Eth1DataVotes", appendM: "Append", resetM: "Reset"},
		"eth1_deposit_index":               {get: "Eth1DepositIndex", bump: "IncrementDepositIndex"},
		"validators":                       {sub: "Validators", getElem: "Validator", touch: true},
		"balances":                         {sub: "Balances", getElem: "GetBalance", setElem: "SetBalance", appendM: "AppendBalance", setAll: "SetBalances"},
		"randao_mixes":                     {sub: "RandaoMixes", getElem: "GetRandomMix", setElem: "SetRandomMix", fill: "SeedRandao"},
		"slashings":                        {sub: "Slashings", getElem: "GetSlashingsValue", setElem: "+ResetSlashings+AddSlashing"},
		"previous_epoch_attestations":      {sub: "PreviousEpochAttestations", appendM: "Append"},
		"current_epoch_attestations":       {sub: "CurrentEpochAttestations", appendM: "Append"},
		"previous_epoch_participation":     {sub: "PreviousEpochParticipation", getElem: "GetFlags", setElem: "SetFlags"},
		"current_epoch_participation":      {sub: "CurrentEpochParticipation", getElem: "GetFlags", setElem: "SetFlags"},
		"justification_bits":               {get: "JustificationBits", set: "SetJustificationBits"},
		"previous_justified_checkpoint":    {get: "PreviousJustifiedCheckpoint", set: "SetPreviousJustifiedCheckpoint", wrap: cp},
		"current_justified_checkpoint":     {get: "CurrentJustifiedCheckpoint", set: "SetCurrentJustifiedCheckpoint", wrap: cp},
		"finalized_checkpoint":             {get: "FinalizedCheckpoint", set: "SetFinalizedCheckpoint", wrap: cp},
		"inactivity_scores":                {sub: "InactivityScores", getElem: "GetScore", setElem: "SetScore"},
		"current_sync_committee":           {get: "CurrentSyncCommittee", set: "SetCurrentSyncCommittee", wrap: sc, copyField: true},
		"next_sync_committee":              {get: "NextSyncCommittee", set: "SetNextSyncCommittee", wrap: sc, copyField: true},
		"latest_execution_payload_header":  {get: "LatestExecutionPayloadHeader", set: "SetLatestExecutionPayloadHeader", wrap: hdr},
		"next_withdrawal_index":            {get: "NextWithdrawalIndex", set: "SetNextWithdrawalIndex", bump: "IncrementNextWithdrawalIndex"},
		"next_withdrawal_validator_index":  {get: "NextWithdrawalValidatorIndex", set: "SetNextWithdrawalValidatorIndex"},
		"historical_summaries":             {sub: "HistoricalSummaries", appendM: "Append"},
		"deposit_requests_start_index":     {get: "DepositRequestsStartIndex", set: "SetDepositRequestsStartIndex"},
		"deposit_balance_to_consume":       {get: "DepositBalanceToConsume", set: "SetDepositBalanceToConsume"},
		"exit_balance_to_consume":          {get: "ExitBalanceToConsume", set: "SetExitBalanceToConsume"},
		"earliest_exit_epoch":              {get: "EarliestExitEpoch", set: "SetEarliestExitEpoch"},
		"consolidation_balance_to_consume": {get: "ConsolidationBalanceToConsume", set: "SetConsolidationBalanceToConsume"},
		"earliest_consolidation_epoch":     {get: "EarliestConsolidationEpoch", set: "SetEarliestConsolidationEpoch"},
		"pending_deposits":                 {},
		"pending_partial_withdrawals":      {},
		"pending_consolidations":           {},
	}
}

// the lists that hold one element per validator: AddValidator must grow each by exactly one
var perValidator = map[string]bool{"validators": true, "balances": true, "previous_epoch_participation": true,
	"current_epoch_participation": true, "inactivity_scores": true}

func (e *env) fields(base common.BeaconState) ([]*fieldInfo, error) {
	acc := accessors(e.fork)
	rawJSON, _, err := e.project(&handle{st: base})
	if err != nil {
		return nil, err
	}
	var out []*fieldInfo
	for i, f := range e.schema.Fields {
		a, ok := acc[f.Name]
		if !ok {
			return nil, fmt.Errorf("state field %s of %s has no entry in the accessor table", f.Name, e.fork)
		}
		fi := &fieldInfo{Name: f.Name, idx: i, schema: f.Schema}
		sf, ok := jsonFieldOf(e.rawType, f.Name)
		if !ok {
			return nil, fmt.Errorf("Raw struct of %s has no field for %s", e.fork, f.Name)
		}
		fi.goType = sf.Type
		ops := []string{"load"}
		has := func(m string) bool { return m != "" && hasMethod(base, m) }
		switch f.Schema.Kind {
		case "vector":
			fi.Kind, fi.Len, fi.Cap = "vec", int(f.Schema.N), int(f.Schema.N)
		case "list":
			fi.Kind = "list"
			arr, _ := rawJSON[f.Name].([]interface{})
			fi.Len = len(arr)
			fi.Cap = fi.Len + 3
			if lim := f.Schema.Lim.Value(); uint64(fi.Cap) > lim {
				fi.Cap = int(lim)
			}
		default:
			fi.Kind = "scalar"
		}
		if a.get != "" && !has(a.get) || a.set != "" && !has(a.set) || a.sub != "" && !has(a.sub) || a.bump != "" && !has(a.bump) {
			return nil, fmt.Errorf("accessor table for %s.%s names a method the state type does not have (%+v)", e.fork, f.Name, a)
		}
		if fi.Kind == "scalar" {
			if a.set != "" {
				ops = append(ops, "set")
			}
			if a.bump != "" {
				ops = append(ops, "bump")
			}
			if a.copyField {
				ops = append(ops, "copyfield")
			}
			if hasMethod(base, "RotateSyncCommittee") {
				if f.Name == "current_sync_committee" {
					ops = append(ops, "rotatecur")
				} else if f.Name == "next_sync_committee" {
					ops = append(ops, "rotatenext")
				}
			}
		} else {
			if a.setElem != "" {
				ops = append(ops, "setelem")
			}
			if a.touch {
				ops = append(ops, "touch")
			}
			if a.appendM != "" {
				ops = append(ops, "append")
			}
			if a.resetM != "" {
				ops = append(ops, "reset")
			}
			if a.setAll != "" {
				ops = append(ops, "setall")
			}
			if a.fill != "" {
				ops = append(ops, "fill")
			}
			if perValidator[f.Name] && hasMethod(base, "AddValidator") {
				ops = append(ops, "addvalidator")
			}
		}
		fi.Ops = ops
		out = append(out, fi)
	}
	return out, nil
}

// ---------------------------------------------------------------------------------------------------------------
// projection

// project returns the Raw(spec) struct of the state as normalised JSON per field, plus the struct itself.
func (e *env) project(h *handle) (map[string]interface{}, interface{}, error) {
	out, err := callRec(h.st, "Raw", e.spec)
	if err != nil {
		return nil, nil, fmt.Errorf("Raw: %v", err)
	}
	raw := out[0].Interface()
	if e.rawType == nil {
		e.rawType = reflect.TypeOf(raw).Elem()
	}
	m, ok := norm(raw).(map[string]interface{})
	if !ok {
		return nil, nil, fmt.Errorf("Raw does not marshal to an object")
	}
	// re-key by specification names (tolerant about spelling)
	byName := map[string]interface{}{}
	for _, f := range e.schema.Fields {
		for k, v := range m {
			if k == f.Name || normKey(k) == normKey(f.Name) {
				byName[f.Name] = v
			}
		}
	}
	if len(byName) != len(e.schema.Fields) {
		return nil, nil, fmt.Errorf("Raw struct has %d JSON fields matching the schema's %d", len(byName), len(e.schema.Fields))
	}
	return byName, raw, nil
}

type bigInt struct{}

func (*bigInt) fromBytes(be []byte) string {
	// decimal conversion of a big-endian byte string without math/big dependencies in the hot path
	digits := []byte{0}
	for _, b := range be {
		carry := int(b)
		for i := 0; i < len(digits); i++ {
			x := int(digits[i])*256 + carry
			digits[i] = byte(x % 10)
			carry = x / 10
		}
		for carry > 0 {
			digits = append(digits, byte(carry%10))
			carry /= 10
		}
	}
	var sb strings.Builder
	for i := len(digits) - 1; i >= 0; i-- {
		sb.WriteByte('0' + digits[i])
	}
	return sb.String()
}

// ---------------------------------------------------------------------------------------------------------------
// replay

type Dev struct {
	Prop   string `json:"prop"`
	Class  string `json:"class"`
	Field  string `json:"field"`
	Op     string `json:"op"`
	Handle string `json:"handle"`
	Step   int    `json:"step"`
	Detail string `json:"detail"`
}

type step struct {
	Op   string `json:"op"`
	H    string `json:"h"`
	F    string `json:"f"`
	Fi   int    `json:"fi"`
	I    int    `json:"i"`
	V    int    `json:"v"`
	H2   string `json:"h2"`
	C    int    `json:"c"`
	Post []struct {
		H    string            `json:"h"`
		Live bool              `json:"live"`
		F    []json.RawMessage `json:"f"`
	} `json:"post"`
}

type replayer struct {
	e       *env
	flds    []*fieldInfo
	byName  map[string]*fieldInfo
	acc     map[string]accessor
	baseSSZ []byte
	baseEpc *common.EpochsContext
	h       map[string]*handle
	bind    map[int]interface{} // opaque token -> observed content
	devs    []Dev
	stepNo  int
	stats   map[string]int
	epcProj map[string]string
	// handles whose tree can no longer be hashed (reported once, with the step that broke it)
	poisoned map[string]bool
	lastStep *step
	desync   map[string]bool
	// everything the replayer (= the caller) passed to the library in this behaviour: scribbled over by "scribble" steps
	args  []reflect.Value
	avKey int
}

// dev records a deviation.  A (handle, field) that has deviated once is out of sync with the model for the rest of
// the behaviour (and so are copies of that handle): only the first deviation is evidence, later ones are consequences.
func (r *replayer) dev(prop, class, field, op, hd, f string, a ...interface{}) {
	key := hd + "|" + field + "|" + prop
	if r.desync[key] {
		r.stats["suppressed_consequences"]++
		return
	}
	r.desync[key] = true
	r.devs = append(r.devs, Dev{prop, class, field, op, hd, r.stepNo, fmt.Sprintf(f, a...)})
}

// fresh returns the start state of a behaviour: alternately the tree the library's own constructors built (genesis:
// SeedRandao, deposits; fork upgrades) and the same state decoded from its encoding ("loaded from encoded bytes").
func (r *replayer) fresh(n int) *handle {
	if n%2 == 1 {
		st, epc := baseState(r.e.spec)
		r.stats["start_constructor_built"]++
		return &handle{st: st, epc: epc}
	}
	st, err := decodeState(r.e.fork, r.e.spec, r.baseSSZ)
	if err != nil {
		die("reloading base state: %v", err)
	}
	r.stats["start_decoded_from_bytes"]++
	return &handle{st: st, epc: r.baseEpc.Clone()}
}

func serializeView(v view.View) ([]byte, error) {
	var buf bytes.Buffer
	if err := v.Serialize(codec.NewEncodingWriter(&buf)); err != nil {
		return nil, err
	}
	return buf.Bytes(), nil
}

// expected content of one token for field fi (element or scalar): returns (value, known).
func (r *replayer) tokenValue(fi *fieldInfo, tok int, elem bool) (interface{}, bool, error) {
	if tok > 0 {
		s, t := fi.schema, fi.goType
		if elem {
			s, t = fi.schema.Elem, elemType(fi.goType)
		}
		_, js, err := r.e.concrete(valueKey(fi.Name), tok, s, t)
		return js, true, err
	}
	v, ok := r.bind[tok]
	return v, ok, nil
}

// valueKey: value ids are per field, except where the model moves content between fields (RotateSyncCommittee moves
// the next committee into current): those fields share one value space
func valueKey(field string) string {
	if field == "current_sync_committee" || field == "next_sync_committee" {
		return "sync_committee"
	}
	return field
}

func elemType(t reflect.Type) reflect.Type {
	for t.Kind() == reflect.Ptr {
		t = t.Elem()
	}
	if t.Kind() == reflect.Slice || t.Kind() == reflect.Array {
		return t.Elem()
	}
	return t
}

func (r *replayer) checkToken(hd string, fi *fieldInfo, tok int, elem bool, observed interface{}, where string, op string) {
	exp, known, err := r.tokenValue(fi, tok, elem)
	if err != nil {
		die("%v", err)
	}
	if !known {
		r.bind[tok] = observed
		return
	}
	r.stats["comparisons"]++
	if !reflect.DeepEqual(exp, observed) {
		cl := "field_changed_unexpectedly"
		if tok > 0 {
			cl = "stored_value_not_read_back"
		}
		r.dev("C15", cl, fi.Name, op, hd, "%s: expected %s, state has %s", where, short(exp), short(observed))
		// re-bind so that one deviation is reported once
		if tok < 0 {
			r.bind[tok] = observed
		}
	}
}

// compare every live handle with the model's store
func (r *replayer) checkAll(s *step) {
	for _, p := range s.Post {
		if !p.Live {
			continue
		}
		h := r.h[p.H]
		if h == nil {
			die("model says %s is live, replayer has no such handle", p.H)
		}
		proj, raw, err := r.e.project(h)
		if err != nil {
			r.dev("C15", "projection_failed", "", s.Op, p.H, "%v", err)
			continue
		}
		for k, fi := range r.flds {
			obs := proj[fi.Name]
			if fi.Kind == "scalar" {
				var tok int
				if err := json.Unmarshal(p.F[k], &tok); err != nil {
					die("bad scalar token %s", string(p.F[k]))
				}
				r.checkToken(p.H, fi, tok, false, obs, fi.Name, s.Op)
				continue
			}
			var cv struct {
				O int   `json:"o"`
				S []int `json:"s"`
			}
			if err := json.Unmarshal(p.F[k], &cv); err != nil {
				die("bad collection value %s", string(p.F[k]))
			}
			arr, _ := obs.([]interface{})
			if cv.O < 0 {
				r.checkToken(p.H, fi, cv.O, false, obs, fi.Name+" (whole)", s.Op)
				continue
			}
			if len(arr) != len(cv.S) {
				r.dev("C15", "length_mismatch", fi.Name, s.Op, p.H, "model has %d elements, state has %d", len(cv.S), len(arr))
				continue
			}
			for i, tok := range cv.S {
				r.checkToken(p.H, fi, tok, true, arr[i], fmt.Sprintf("%s[%d]", fi.Name, i), s.Op)
			}
		}
		r.checkGetters(p.H, h, proj, s.Op)
		r.checkBulkReads(p.H, h, proj, s.Op)
		r.checkRoots(p.H, h, raw, s.Op)
		r.checkEpc(p.H, h, s)
	}
}

// typed getters return exactly what is stored
func (r *replayer) checkGetters(hd string, h *handle, proj map[string]interface{}, op string) {
	for _, fi := range r.flds {
		a := r.acc[fi.Name]
		if a.get != "" {
			out, err := callRec(h.st, a.get, r.e.spec)
			r.stats["getter_calls"]++
			if err != nil {
				r.dev("C15", "getter_error", fi.Name, op, hd, "%s: %v", a.get, err)
				continue
			}
			val := out[0].Interface()
			if hasMethod(val, "Raw") { // a typed sub-view: its Raw() is the value
				r.stats["read|"+fi.Name+"|raw"]++
				o2, err := callRec(val, "Raw", r.e.spec)
				if err != nil {
					r.dev("C15", "getter_error", fi.Name, op, hd, "%s().Raw: %v", a.get, err)
					continue
				}
				val = o2[0].Interface()
			} else if sv, ok := val.(*common.SyncCommitteeView); ok {
				r.stats["read|"+fi.Name+"|pubkeys_flatten+aggregate"]++
				val = r.syncCommitteeValue(sv, fi, hd, op)
			}
			if got := r.renorm(val, fi.goType); !reflect.DeepEqual(got, proj[fi.Name]) {
				r.dev("C15", "getter_mismatch", fi.Name, op, hd, "%s() = %s, stored %s", a.get, short(got), short(proj[fi.Name]))
			}
		}
		if a.sub != "" && a.getElem != "" {
			arr, _ := proj[fi.Name].([]interface{})
			sub, err := callRec(h.st, a.sub, r.e.spec)
			if err != nil {
				r.dev("C15", "getter_error", fi.Name, op, hd, "%s: %v", a.sub, err)
				continue
			}
			// read a few positions through the typed element getter
			for _, i := range pick(len(arr)) {
				r.stats["element_reads"]++
				got, err := r.readElem(sub[0].Interface(), a, fi, uint64(i))
				if err != nil {
					r.dev("C15", "getter_error", fi.Name, op, hd, "%s(%d): %v", a.getElem, i, err)
					continue
				}
				if !reflect.DeepEqual(got, arr[i]) {
					r.dev("C15", "element_getter_mismatch", fi.Name, op, hd, "%s(%d) = %s, stored %s", a.getElem, i, short(got), short(arr[i]))
				}
			}
		}
	}
}

// every read form of the typed sub-views agrees with the stored content: element getters at EVERY position, bulk reads
// (AllBalances, Iter, FlattenValidators, Raw), per-element derived reads (Validator.Flatten) and derived aggregates
// (Slashings.Total, Eth1DataVotes.Count/Length).  One coverage counter per (sub-view, read form).
func (r *replayer) checkBulkReads(hd string, h *handle, proj map[string]interface{}, op string) {
	cur := ""
	defer func() {
		if rec := recover(); rec != nil {
			r.dev("C15", "bulk_read_panic", cur, op, hd, "reading %s panicked: %v", cur, rec)
		}
	}()
	cmp := func(field, form string, got, want interface{}, where string) {
		r.stats["read|"+field+"|"+form]++
		if !reflect.DeepEqual(got, want) {
			r.dev("C15", "read_form_mismatch", field, op, hd, "%s via %s: %s, stored %s", where, form, short(got), short(want))
		}
	}
	fail := func(field, form string, err error) {
		r.stats["read|"+field+"|"+form]++
		r.dev("C15", "getter_error", field, op, hd, "%s: %v", form, err)
	}
	arrOf := func(name string) []interface{} { a, _ := proj[name].([]interface{}); return a }
	flatOf := func(x interface{}) interface{} { // the FlatValidator part of a stored validator
		m, _ := x.(map[string]interface{})
		return map[string]interface{}{
			"EffectiveBalance": m["effective_balance"], "Slashed": m["slashed"],
			"ActivationEligibilityEpoch": m["activation_eligibility_epoch"], "ActivationEpoch": m["activation_epoch"],
			"ExitEpoch": m["exit_epoch"], "WithdrawableEpoch": m["withdrawable_epoch"]}
	}

	// ---- validators
	cur = "validators"
	if vals, err := h.st.Validators(); err != nil {
		fail(cur, "sub-view", err)
	} else {
		arr := arrOf(cur)
		n, err := vals.ValidatorCount()
		if err != nil {
			fail(cur, "count", err)
		} else {
			cmp(cur, "count", n, uint64(len(arr)), "ValidatorCount")
		}
		for i := range arr {
			v, err := vals.Validator(common.ValidatorIndex(i))
			if err != nil {
				fail(cur, "element_getters", err)
				continue
			}
			got, err := r.validatorValue(v)
			if err != nil {
				fail(cur, "element_getters", err)
			} else {
				cmp(cur, "element_getters", got, arr[i], fmt.Sprintf("validator %d", i))
			}
			var fv common.FlatValidator
			if err := v.Flatten(&fv); err != nil {
				fail(cur, "flatten", err)
			} else {
				cmp(cur, "flatten", norm(&fv), flatOf(arr[i]), fmt.Sprintf("validator %d", i))
			}
		}
		if flats, err := common.FlattenValidators(vals); err != nil {
			fail(cur, "flatten_bulk", err)
		} else if len(flats) != len(arr) {
			cmp(cur, "flatten_bulk", len(flats), len(arr), "FlattenValidators length")
		} else {
			for i := range flats {
				cmp(cur, "flatten_bulk", norm(&flats[i]), flatOf(arr[i]), fmt.Sprintf("FlattenValidators[%d]", i))
			}
		}
		next := vals.Iter()
		k := 0
		for {
			v, ok, err := next()
			if err != nil {
				fail(cur, "iter", err)
				break
			}
			if !ok {
				break
			}
			if k < len(arr) {
				if got, err := r.validatorValue(v); err != nil {
					fail(cur, "iter", err)
				} else {
					cmp(cur, "iter", got, arr[k], fmt.Sprintf("Iter item %d", k))
				}
			}
			k++
		}
		cmp(cur, "iter", k, len(arr), "Iter item count")
	}

	// ---- balances
	cur = "balances"
	if bals, err := h.st.Balances(); err != nil {
		fail(cur, "sub-view", err)
	} else {
		arr := arrOf(cur)
		if all, err := bals.AllBalances(); err != nil {
			fail(cur, "all", err)
		} else {
			cmp(cur, "all", norm(all), proj[cur], "AllBalances")
		}
		if n, err := bals.Length(); err != nil {
			fail(cur, "length", err)
		} else {
			cmp(cur, "length", n, uint64(len(arr)), "Length")
		}
		for i := range arr {
			if b, err := bals.GetBalance(common.ValidatorIndex(i)); err != nil {
				fail(cur, "element_getters", err)
			} else {
				cmp(cur, "element_getters", norm(b), arr[i], fmt.Sprintf("GetBalance(%d)", i))
			}
		}
		next := bals.Iter()
		k := 0
		for {
			b, ok, err := next()
			if err != nil {
				fail(cur, "iter", err)
				break
			}
			if !ok {
				break
			}
			if k < len(arr) {
				cmp(cur, "iter", norm(b), arr[k], fmt.Sprintf("Iter item %d", k))
			}
			k++
		}
		cmp(cur, "iter", k, len(arr), "Iter item count")
	}

	// ---- roots / mixes / slashings: every position
	for _, name := range []string{"block_roots", "state_roots"} {
		cur = name
		var br common.BatchRoots
		var err error
		if name == "block_roots" {
			br, err = h.st.BlockRoots()
		} else {
			br, err = h.st.StateRoots()
		}
		if err != nil {
			fail(cur, "sub-view", err)
			continue
		}
		for i, want := range arrOf(name) {
			if got, err := br.GetRoot(common.Slot(i)); err != nil {
				fail(cur, "element_getters", err)
			} else {
				cmp(cur, "element_getters", norm(got), want, fmt.Sprintf("GetRoot(%d)", i))
			}
		}
	}
	cur = "randao_mixes"
	if mx, err := h.st.RandaoMixes(); err != nil {
		fail(cur, "sub-view", err)
	} else {
		for i, want := range arrOf(cur) {
			if got, err := mx.GetRandomMix(common.Epoch(i)); err != nil {
				fail(cur, "element_getters", err)
			} else {
				cmp(cur, "element_getters", norm(got), want, fmt.Sprintf("GetRandomMix(%d)", i))
			}
		}
	}
	cur = "slashings"
	if sl, err := h.st.Slashings(); err != nil {
		fail(cur, "sub-view", err)
	} else {
		var sum uint64
		for i, want := range arrOf(cur) {
			if got, err := sl.GetSlashingsValue(common.Epoch(i)); err != nil {
				fail(cur, "element_getters", err)
			} else {
				cmp(cur, "element_getters", norm(got), want, fmt.Sprintf("GetSlashingsValue(%d)", i))
			}
			if ws, ok := want.(string); ok {
				var x uint64
				fmt.Sscanf(ws, "%d", &x)
				sum += x // Gwei arithmetic wraps the same way
			}
		}
		if tot, err := sl.Total(); err != nil {
			fail(cur, "total", err)
		} else {
			cmp(cur, "total", uint64(tot), sum, "Total")
		}
	}

	// ---- eth1 data votes: Length and Count
	cur = "eth1_data_votes"
	if ev, err := h.st.Eth1DataVotes(); err != nil {
		fail(cur, "sub-view", err)
	} else {
		arr := arrOf(cur)
		if n, err := ev.Length(); err != nil {
			fail(cur, "length", err)
		} else {
			cmp(cur, "length", n, uint64(len(arr)), "Length")
		}
		if len(arr) > 0 {
			js, _ := json.Marshal(arr[len(arr)-1])
			var dat common.Eth1Data
			if err := json.Unmarshal(js, &dat); err == nil {
				want := uint64(0)
				for _, x := range arr {
					if reflect.DeepEqual(x, arr[len(arr)-1]) {
						want++
					}
				}
				if c, err := ev.Count(dat); err != nil {
					fail(cur, "count", err)
				} else {
					cmp(cur, "count", c, want, "Count(last vote)")
				}
				dat.DepositCount ^= 0x5a5a5a5a5a5a
				present := uint64(0)
				for _, x := range arr {
					if reflect.DeepEqual(x, norm(&dat)) {
						present++
					}
				}
				if c, err := ev.Count(dat); err == nil {
					cmp(cur, "count", c, present, "Count(vote not stored)")
				}
			}
		}
	}

	// ---- derived read of the execution header (bellatrix): merge completed <=> the header is not the default header
	if hasMethod(h.st, "IsTransitionCompleted") {
		cur = "latest_execution_payload_header"
		if out, err := callRec(h.st, "IsTransitionCompleted", r.e.spec); err != nil {
			fail(cur, "is_transition_completed", err)
		} else {
			fi := r.byName[cur]
			zero := norm(reflect.New(fi.goType).Interface())
			cmp(cur, "is_transition_completed", out[0].Bool(), !reflect.DeepEqual(proj[cur], zero), "IsTransitionCompleted")
		}
	}

	// ---- fork-specific sub-views, reached by name
	for _, fi := range r.flds {
		a := r.acc[fi.Name]
		cur = fi.Name
		switch fi.Name {
		case "previous_epoch_participation", "current_epoch_participation", "inactivity_scores":
			sub, err := callRec(h.st, a.sub, r.e.spec)
			if err != nil {
				fail(cur, "sub-view", err)
				continue
			}
			sv := sub[0].Interface()
			if hasMethod(sv, "Raw") {
				if out, err := callRec(sv, "Raw", r.e.spec); err != nil {
					fail(cur, "raw", err)
				} else {
					cmp(cur, "raw", norm(out[0].Interface()), proj[cur], "Raw")
				}
			}
			for i, want := range arrOf(cur) {
				if got, err := r.readElem(sv, a, fi, uint64(i)); err != nil {
					fail(cur, "element_getters", err)
				} else {
					cmp(cur, "element_getters", got, want, fmt.Sprintf("%s(%d)", a.getElem, i))
				}
			}
		case "previous_epoch_attestations", "current_epoch_attestations":
			sub, err := callRec(h.st, a.sub, r.e.spec)
			if err != nil {
				fail(cur, "sub-view", err)
				continue
			}
			lv, ok := sub[0].Interface().(*phase0.PendingAttestationsView)
			if !ok {
				continue
			}
			arr := arrOf(cur)
			if n, err := lv.Length(); err != nil {
				fail(cur, "length", err)
			} else {
				cmp(cur, "length", n, uint64(len(arr)), "Length")
			}
			for i, want := range arr {
				pv, err := phase0.AsPendingAttestation(lv.Get(uint64(i)))
				if err != nil {
					fail(cur, "element_raw", err)
					continue
				}
				if raw, err := pv.Raw(); err != nil {
					fail(cur, "element_raw", err)
				} else {
					cmp(cur, "element_raw", norm(raw), want, fmt.Sprintf("element %d Raw", i))
				}
			}
		}
	}
}

func (r *replayer) syncCommitteeValue(sv *common.SyncCommitteeView, fi *fieldInfo, hd, op string) interface{} {
	pv, err := sv.Pubkeys()
	if err != nil {
		r.dev("C15", "getter_error", fi.Name, op, hd, "Pubkeys: %v", err)
		return nil
	}
	pubs, err := pv.Flatten()
	if err != nil {
		r.dev("C15", "getter_error", fi.Name, op, hd, "Flatten: %v", err)
		return nil
	}
	agg, err := sv.AggregatePubkey()
	if err != nil {
		r.dev("C15", "getter_error", fi.Name, op, hd, "AggregatePubkey: %v", err)
		return nil
	}
	return &common.SyncCommittee{Pubkeys: pubs, AggregatePubkey: agg}
}

// renorm: JSON of val as if it had the Go type t (so that e.g. Uint64View and Gwei compare equal)
func (r *replayer) renorm(val interface{}, t reflect.Type) interface{} {
	n := norm(val)
	return n
}

func pick(n int) []int {
	if n == 0 {
		return nil
	}
	set := map[int]bool{0: true, n - 1: true, n / 2: true, 1 % n: true}
	var out []int
	for k := range set {
		out = append(out, k)
	}
	sort.Ints(out)
	return out
}

func (r *replayer) readElem(sub interface{}, a accessor, fi *fieldInfo, i uint64) (interface{}, error) {
	out, err := callRec(sub, a.getElem, r.e.spec, idxArg(sub, a.getElem, i))
	if err != nil {
		return nil, err
	}
	val := out[0].Interface()
	if fi.Name == "validators" {
		return r.validatorValue(val)
	}
	return norm(val), nil
}

// idxArg converts an index to the method's first non-spec parameter type (Slot, Epoch, ValidatorIndex, uint64)
func idxArg(obj interface{}, method string, i uint64) reflect.Value {
	m := reflect.ValueOf(obj).MethodByName(method)
	mt := m.Type()
	for k := 0; k < mt.NumIn(); k++ {
		if mt.In(k).Kind() == reflect.Uint64 {
			return reflect.ValueOf(i).Convert(mt.In(k))
		}
	}
	return reflect.ValueOf(i)
}

// validatorValue rebuilds the validator from the getters of its typed sub-view
func (r *replayer) validatorValue(v interface{}) (interface{}, error) {
	val, ok := v.(common.Validator)
	if !ok {
		return nil, fmt.Errorf("not a common.Validator: %T", v)
	}
	var out phase0.Validator
	var err error
	if out.Pubkey, err = val.Pubkey(); err != nil {
		return nil, err
	}
	if out.WithdrawalCredentials, err = val.WithdrawalCredentials(); err != nil {
		return nil, err
	}
	if out.EffectiveBalance, err = val.EffectiveBalance(); err != nil {
		return nil, err
	}
	if out.Slashed, err = val.Slashed(); err != nil {
		return nil, err
	}
	if out.ActivationEligibilityEpoch, err = val.ActivationEligibilityEpoch(); err != nil {
		return nil, err
	}
	if out.ActivationEpoch, err = val.ActivationEpoch(); err != nil {
		return nil, err
	}
	if out.ExitEpoch, err = val.ExitEpoch(); err != nil {
		return nil, err
	}
	if out.WithdrawableEpoch, err = val.WithdrawableEpoch(); err != nil {
		return nil, err
	}
	return norm(&out), nil
}

// C05 history half: the root the view reports = root of the same content built from scratch
func (r *replayer) checkRoots(hd string, h *handle, raw interface{}, op string) {
	if r.poisoned[hd] {
		return
	}
	r.stats["root_checks"]++
	for _, fi := range r.flds {
		if fi.Kind == "vec" && fi.Len&(fi.Len-1) != 0 {
			r.stats["vector_length_not_power_of_two"]++
		}
	}
	defer func() {
		if rec := recover(); rec != nil {
			r.poisoned[hd] = true
			fld, n := "", 0
			if r.lastStep != nil {
				fld, n = r.lastStep.F, r.lastStep.I
			}
			r.dev("C05", "root_panic", fld, op, hd, "after %s(%s, n=%d): computing the state root panicked: %v", op, fld, n, rec)
			// the field just written is broken from here on: later accessor failures on it are consequences
			r.desync[hd+"|"+fld+"|C15"] = true
		}
	}()
	viewRoot := h.st.HashTreeRoot(r.e.hFn)
	ssz, err := serializeView(h.st)
	if err != nil {
		r.dev("C05", "serialize_error", "", op, hd, "%v", err)
		return
	}
	rebuilt, err := decodeState(r.e.fork, r.e.spec, ssz)
	if err != nil {
		r.dev("C05", "rebuild_failed", "", op, hd, "state does not decode from its own encoding: %v", err)
		return
	}
	rebuiltRoot := rebuilt.HashTreeRoot(r.e.hFn)
	out, err := callRec(raw, "HashTreeRoot", r.e.spec, r.e.hFn)
	if err != nil {
		r.dev("C05", "struct_root_error", "", op, hd, "%v", err)
		return
	}
	structRoot := out[0].Interface().(tree.Root)
	if viewRoot != rebuiltRoot {
		// which fields carry a cached hash that differs from the hash of their own content?
		type getter interface {
			Get(i uint64) (view.View, error)
		}
		a, aok := h.st.(getter)
		b, bok := rebuilt.(getter)
		named := false
		if aok && bok {
			for _, fi := range r.flds {
				va, ea := a.Get(uint64(fi.idx))
				vb, eb := b.Get(uint64(fi.idx))
				if ea != nil || eb != nil {
					continue
				}
				if ra, rb := va.HashTreeRoot(r.e.hFn), vb.HashTreeRoot(r.e.hFn); ra != rb {
					named = true
					r.dev("C05", "stale_root", fi.Name, op, hd, "after %s: cached root of %s is %x, its content hashes to %x (state root %x, rebuilt %x)", op, fi.Name, ra[:], rb[:], viewRoot[:], rebuiltRoot[:])
				}
			}
		}
		if !named {
			r.dev("C05", "stale_root", "", op, hd, "view root %x after the history, %x when rebuilt from its own encoding", viewRoot[:], rebuiltRoot[:])
		}
	}
	if structRoot != rebuiltRoot {
		r.dev("C05", "struct_view_root_mismatch", "", op, hd, "struct root %x, rebuilt view root %x", structRoot[:], rebuiltRoot[:])
	}
}

func epcProjection(epc *common.EpochsContext) string {
	if epc == nil {
		return ""
	}
	var sb strings.Builder
	fmt.Fprintf(&sb, "eb=%v tas=%d ", epc.EffectiveBalances, epc.TotalActiveStake)
	if epc.CurrentEpoch != nil {
		fmt.Fprintf(&sb, "cur=%d act=%v ", epc.CurrentEpoch.Epoch, epc.CurrentEpoch.ActiveIndices)
	}
	if epc.PreviousEpoch != nil {
		fmt.Fprintf(&sb, "prev=%d ", epc.PreviousEpoch.Epoch)
	}
	if epc.NextEpoch != nil {
		fmt.Fprintf(&sb, "next=%d nact=%v ", epc.NextEpoch.Epoch, epc.NextEpoch.ActiveIndices)
	}
	if epc.Proposers != nil {
		fmt.Fprintf(&sb, "prop=%v ", *epc.Proposers)
	}
	if epc.CurrentSyncCommittee != nil {
		fmt.Fprintf(&sb, "csc=%v ", epc.CurrentSyncCommittee.Indices)
	}
	if epc.NextSyncCommittee != nil {
		fmt.Fprintf(&sb, "nsc=%v ", epc.NextSyncCommittee.Indices)
	}
	return sb.String()
}

// the cloned context of every handle other than the one just advanced is unchanged
func (r *replayer) checkEpc(hd string, h *handle, s *step) {
	p := epcProjection(h.epc)
	old, seen := r.epcProj[hd]
	touched := (s.Op == "advance" && s.H == hd) || (s.Op == "copy" && s.H2 == hd)
	if seen && !touched && old != p {
		r.dev("C15", "context_changed", "", s.Op, hd, "epochs context of %s changed by a step on %s", hd, s.H)
	}
	r.epcProj[hd] = p
}

// ------------------------------------------------------------------------------------------------- operations

func (r *replayer) typedArg(fi *fieldInfo, id int, elem bool) (reflect.Value, interface{}) {
	s, t := fi.schema, fi.goType
	if elem {
		s, t = fi.schema.Elem, elemType(fi.goType)
	}
	v, js, err := r.e.concrete(valueKey(fi.Name), id, s, t)
	if err != nil {
		die("%v", err)
	}
	r.args = append(r.args, v)
	return v, js
}

// setterArg converts a typed value to what the setter wants (pointer, view, plain)
func (r *replayer) setterArg(obj interface{}, method string, val reflect.Value) (reflect.Value, error) {
	m := reflect.ValueOf(obj).MethodByName(method)
	mt := m.Type()
	var want reflect.Type
	for k := 0; k < mt.NumIn(); k++ {
		if mt.In(k) != reflect.TypeOf(r.e.spec) {
			want = mt.In(k) // last non-spec parameter is the value
		}
	}
	if want == nil {
		return reflect.Value{}, fmt.Errorf("%s takes no value", method)
	}
	if val.Type().AssignableTo(want) {
		return val, nil
	}
	if want.Kind() == reflect.Ptr && val.Type().AssignableTo(want.Elem()) {
		p := reflect.New(want.Elem())
		p.Elem().Set(val)
		r.args = append(r.args, p)
		return p, nil
	}
	if val.Type().ConvertibleTo(want) && want.Kind() != reflect.Ptr && want.Kind() != reflect.Interface {
		return val.Convert(want), nil
	}
	// a view is wanted: the struct form offers View / View(spec)
	p := val
	if val.Kind() != reflect.Ptr {
		p = reflect.New(val.Type())
		p.Elem().Set(val)
	}
	r.args = append(r.args, p) // the struct a view argument is converted from stays with the caller
	if hasMethod(p.Interface(), "View") {
		out, err := callRec(p.Interface(), "View", r.e.spec)
		if err != nil {
			return reflect.Value{}, err
		}
		if out[0].Type().AssignableTo(want) {
			return out[0], nil
		}
	}
	return reflect.Value{}, fmt.Errorf("cannot pass %s to %s (wants %s)", val.Type(), method, want)
}

func (r *replayer) resolveIndex(h *handle, fi *fieldInfo, i int) (int, int) {
	proj, _, err := r.e.project(h)
	if err != nil {
		return -1, 0
	}
	arr, _ := proj[fi.Name].([]interface{})
	if len(arr) == 0 {
		return -1, 0
	}
	return (i - 1) % len(arr), len(arr)
}

func (r *replayer) apply(s *step) {
	r.stats["op_"+s.Op]++
	h := r.h[s.H]
	if h == nil {
		die("step on unknown handle %s", s.H)
	}
	var fi *fieldInfo
	var a accessor
	if s.F != "" {
		fi = r.byName[s.F]
		if fi == nil {
			die("step names unknown field %s", s.F)
		}
		a = r.acc[fi.Name]
		r.stats["field_"+fi.Name+"_"+s.Op]++
	}
	fail := func(f string, x ...interface{}) {
		r.dev("C15", "accessor_error", s.F, s.Op, s.H, f, x...)
	}
	switch s.Op {
	case "set":
		val, _ := r.typedArg(fi, s.V, false)
		arg, err := r.setterArg(h.st, a.set, val)
		if err != nil {
			die("%v", err)
		}
		if _, err := callRec(h.st, a.set, r.e.spec, arg); err != nil {
			fail("%s: %v", a.set, err)
		}
	case "load", "setall":
		r.storeWhole(s, h, fi, a)
	case "setelem":
		idx, _ := r.resolveIndex(h, fi, s.I)
		if idx < 0 {
			r.stats["skipped_empty"]++
			return
		}
		sub, err := callRec(h.st, a.sub, r.e.spec)
		if err != nil {
			fail("%s: %v", a.sub, err)
			return
		}
		val, js := r.typedArg(fi, s.V, true)
		if strings.HasPrefix(a.setElem, "+") { // slashings: ResetSlashings(i); AddSlashing(i, v)
			if _, err := callRec(sub[0].Interface(), "ResetSlashings", r.e.spec, idxArg(sub[0].Interface(), "ResetSlashings", uint64(idx))); err != nil {
				fail("ResetSlashings: %v", err)
			}
			if _, err := callRec(sub[0].Interface(), "AddSlashing", r.e.spec, idxArg(sub[0].Interface(), "AddSlashing", uint64(idx)), val); err != nil {
				fail("AddSlashing: %v", err)
			}
		} else {
			arg, err := r.setterArg(sub[0].Interface(), a.setElem, val)
			if err != nil {
				die("%v", err)
			}
			if _, err := callRec(sub[0].Interface(), a.setElem, r.e.spec, idxArg(sub[0].Interface(), a.setElem, uint64(idx)), arg); err != nil {
				fail("%s(%d): %v", a.setElem, idx, err)
			}
		}
		// the element just written reads back through the typed getter
		if a.getElem != "" {
			if got, err := r.readElem(sub[0].Interface(), a, fi, uint64(idx)); err != nil {
				fail("%s(%d): %v", a.getElem, idx, err)
			} else if !reflect.DeepEqual(got, js) {
				r.dev("C15", "element_not_read_back", fi.Name, s.Op, s.H, "wrote %s at %d, %s returns %s", short(js), idx, a.getElem, short(got))
			}
		}
	case "touch":
		idx, _ := r.resolveIndex(h, fi, s.I)
		if idx < 0 {
			r.stats["skipped_empty"]++
			return
		}
		r.touchValidator(s, h, fi, a, idx)
	case "append":
		sub, err := callRec(h.st, a.sub, r.e.spec)
		if err != nil {
			fail("%s: %v", a.sub, err)
			return
		}
		val, _ := r.typedArg(fi, s.V, true)
		arg, err := r.setterArg(sub[0].Interface(), a.appendM, val)
		if err != nil {
			die("%v", err)
		}
		atLimit := false
		if proj, _, perr := r.e.project(h); perr == nil {
			arr, _ := proj[fi.Name].([]interface{})
			atLimit = uint64(len(arr)) >= fi.schema.Lim.Value()
		}
		_, err = callRec(sub[0].Interface(), a.appendM, r.e.spec, arg)
		switch {
		case atLimit && err == nil:
			r.dev("C15", "append_beyond_limit", fi.Name, s.Op, s.H, "%s accepted an element although the list is at its limit %d", a.appendM, fi.schema.Lim.Value())
		case atLimit: // a full list refuses the element (only reachable when the model does not know the length)
			r.stats["append_refused_at_limit"]++
		case err != nil:
			fail("%s: %v", a.appendM, err)
		}
	case "reset":
		sub, err := callRec(h.st, a.sub, r.e.spec)
		if err != nil {
			fail("%s: %v", a.sub, err)
			return
		}
		if _, err := callRec(sub[0].Interface(), a.resetM, r.e.spec); err != nil {
			fail("%s: %v", a.resetM, err)
		}
	case "fill":
		val, _ := r.typedArg(fi, s.V, true)
		if _, err := callRec(h.st, a.fill, r.e.spec, val); err != nil {
			fail("%s: %v", a.fill, err)
		}
	case "bump":
		before, err := callRec(h.st, a.get, r.e.spec)
		if err != nil {
			fail("%s: %v", a.get, err)
			return
		}
		if _, err := callRec(h.st, a.bump, r.e.spec); err != nil {
			fail("%s: %v", a.bump, err)
			return
		}
		after, err := callRec(h.st, a.get, r.e.spec)
		if err != nil {
			fail("%s: %v", a.get, err)
			return
		}
		if after[0].Uint() != before[0].Uint()+1 {
			r.dev("C15", "bump_wrong", fi.Name, s.Op, s.H, "%s: %d -> %d", a.bump, before[0].Uint(), after[0].Uint())
		}
	case "copyfield":
		src := r.h[s.H2]
		out, err := callRec(src.st, a.get, r.e.spec)
		if err != nil {
			fail("%s: %v", a.get, err)
			return
		}
		if _, err := callRec(h.st, a.set, r.e.spec, out[0]); err != nil {
			fail("%s: %v", a.set, err)
		}
	case "copy":
		cp, err := h.st.CopyState()
		if err != nil {
			fail("CopyState: %v", err)
			return
		}
		r.h[s.H2] = &handle{st: cp, epc: h.epc.Clone()}
		delete(r.epcProj, s.H2)
		r.poisoned[s.H2] = r.poisoned[s.H]
		for k := range r.desync {
			if strings.HasPrefix(k, s.H2+"|") {
				delete(r.desync, k)
			}
		}
		for k, v := range r.desync {
			if v && strings.HasPrefix(k, s.H+"|") {
				r.desync[s.H2+k[len(s.H):]] = true
			}
		}
	case "advance":
		r.advance(s, h)
	case "addvalidator":
		r.addValidator(s, h)
	case "rotate":
		nfi := r.byName["next_sync_committee"]
		if before, _, err := r.e.project(h); err == nil && !reflect.DeepEqual(before["current_sync_committee"], before["next_sync_committee"]) {
			r.stats["rotate_with_distinct_committees"]++
		}
		val, _ := r.typedArg(nfi, s.V, false)
		arg, err := r.setterArg(h.st, "RotateSyncCommittee", val)
		if err != nil {
			die("%v", err)
		}
		if _, err := callRec(h.st, "RotateSyncCommittee", r.e.spec, arg); err != nil {
			r.dev("C15", "accessor_error", "next_sync_committee", s.Op, s.H, "RotateSyncCommittee: %v", err)
		}
	case "scribble":
		r.scribble(s)
	default:
		die("unknown op %s", s.Op)
	}
}

// storeWhole implements "load" (store by loading encoded bytes: every field) and "setall" (typed whole-collection setter)
func (r *replayer) storeWhole(s *step, h *handle, fi *fieldInfo, a accessor) {
	var newVal reflect.Value
	if fi.Kind == "scalar" {
		newVal, _ = r.typedArg(fi, s.V, false)
	} else {
		ev, _ := r.typedArg(fi, s.V, true)
		st := fi.goType
		newVal = reflect.MakeSlice(reflect.SliceOf(elemType(st)), s.I, s.I)
		for k := 0; k < s.I; k++ {
			newVal.Index(k).Set(ev)
		}
		if newVal.Type().ConvertibleTo(st) {
			newVal = newVal.Convert(st)
		}
	}
	if s.Op == "setall" {
		r.args = append(r.args, newVal)
		arg, err := r.setterArg(h.st, a.setAll, newVal)
		if err != nil {
			die("%v", err)
		}
		if _, err := callRec(h.st, a.setAll, r.e.spec, arg); err != nil {
			r.dev("C15", "accessor_error", s.F, s.Op, s.H, "%s: %v", a.setAll, err)
		}
		return
	}
	// load: Raw struct -> replace the field -> Serialize -> decode into a fresh tree-backed state
	_, raw, err := r.e.project(h)
	if err != nil {
		r.dev("C15", "projection_failed", s.F, s.Op, s.H, "%v", err)
		return
	}
	sf, _ := jsonFieldOf(r.e.rawType, fi.Name)
	reflect.ValueOf(raw).Elem().FieldByIndex(sf.Index).Set(newVal)
	var buf bytes.Buffer
	if _, err := callRec(raw, "Serialize", r.e.spec, codec.NewEncodingWriter(&buf)); err != nil {
		die("serializing modified raw state: %v", err)
	}
	st, err := decodeState(r.e.fork, r.e.spec, buf.Bytes())
	if err != nil {
		r.dev("C15", "load_failed", s.F, s.Op, s.H, "state with %s replaced does not load: %v", fi.Name, err)
		return
	}
	h.st = st
	r.poisoned[s.H] = false // a freshly decoded tree
}

// touchValidator writes sub-fields of validator idx through its typed sub-view and reads them back
func (r *replayer) touchValidator(s *step, h *handle, fi *fieldInfo, a accessor, idx int) {
	sub, err := callRec(h.st, a.sub, r.e.spec)
	if err != nil {
		r.dev("C15", "accessor_error", s.F, s.Op, s.H, "%s: %v", a.sub, err)
		return
	}
	out, err := callRec(sub[0].Interface(), a.getElem, r.e.spec, idxArg(sub[0].Interface(), a.getElem, uint64(idx)))
	if err != nil {
		r.dev("C15", "accessor_error", s.F, s.Op, s.H, "%s(%d): %v", a.getElem, idx, err)
		return
	}
	v := out[0].Interface().(common.Validator)
	before, _ := r.validatorValue(v)
	rng := r.e.rng("touch", s.C*1000+idx)
	exp := before.(map[string]interface{})
	exp2 := map[string]interface{}{}
	for k, x := range exp {
		exp2[k] = x
	}
	// every settable sub-field gets a new value; the four epochs are pairwise distinct and differ from the balance, so
	// that a read form that swaps two same-typed neighbours cannot go unnoticed
	x := rng.Uint64() >> uint(rng.Intn(40))
	if rng.Intn(4) == 0 {
		x = ^uint64(0) - 16 - uint64(rng.Intn(1000))
	}
	var wc common.Root
	rng.Read(wc[:])
	type w struct {
		key string
		val interface{}
		do  func() error
	}
	writes := []w{
		{"withdrawal_credentials", wc, func() error { return v.SetWithdrawalCredentials(wc) }},
		{"effective_balance", common.Gwei(x + 7), func() error { return v.SetEffectiveBalance(common.Gwei(x + 7)) }},
		{"activation_eligibility_epoch", common.Epoch(x), func() error { return v.SetActivationEligibilityEpoch(common.Epoch(x)) }},
		{"activation_epoch", common.Epoch(x + 1), func() error { return v.SetActivationEpoch(common.Epoch(x + 1)) }},
		{"exit_epoch", common.Epoch(x + 2), func() error { return v.SetExitEpoch(common.Epoch(x + 2)) }},
		{"withdrawable_epoch", common.Epoch(x + 3), func() error { return v.SetWithdrawableEpoch(common.Epoch(x + 3)) }},
	}
	if rng.Intn(2) == 0 {
		writes = append(writes, w{"slashed", true, v.MakeSlashed})
	}
	rng.Shuffle(len(writes), func(i, j int) { writes[i], writes[j] = writes[j], writes[i] })
	for _, wr := range writes {
		r.stats["validator_subfield_"+wr.key]++
		if err := wr.do(); err != nil {
			r.dev("C15", "accessor_error", s.F, s.Op, s.H, "validator sub-field setter %s: %v", wr.key, err)
			return
		}
		exp2[wr.key] = norm(wr.val)
	}
	which := "all"
	// re-read through a fresh sub-view of the state
	sub2, _ := callRec(h.st, a.sub, r.e.spec)
	got, err := r.readElem(sub2[0].Interface(), a, fi, uint64(idx))
	if err != nil {
		r.dev("C15", "getter_error", s.F, s.Op, s.H, "%v", err)
		return
	}
	if !reflect.DeepEqual(got, canon(exp2)) {
		r.dev("C15", "subfield_setter_wrong", fi.Name, s.Op, s.H, "validator %d after sub-field setters (%s): %s, expected %s", idx, which, short(got), short(exp2))
	}
}

// addValidator drives the compound setter state.AddValidator and checks its direct effects against the arguments: every
// per-validator list grows by exactly one, the new validator carries the given key and credentials, the new balance is
// the given one, the new participation flags and inactivity score are zero.  (The comparison of the full post-state with
// the model, every other field and handle included, follows in checkAll.)
func (r *replayer) addValidator(s *step, h *handle) {
	before, _, err := r.e.project(h)
	if err != nil {
		r.dev("C15", "projection_failed", "", s.Op, s.H, "%v", err)
		return
	}
	r.avKey++
	var raw [32]byte
	binary.BigEndian.PutUint64(raw[24:], uint64(1000+r.avKey*16+s.C))
	var sk blsu.SecretKey
	if err := sk.Deserialize(&raw); err != nil {
		die("key: %v", err)
	}
	pk, err := blsu.SkToPk(&sk)
	if err != nil {
		die("key: %v", err)
	}
	pub := common.BLSPubkey(pk.Serialize())
	var creds common.Root
	r.e.rng("addvalidator-creds", s.C).Read(creds[:])
	bfi := r.byName["balances"]
	balV, balJS := r.typedArg(bfi, s.V, true)
	bal := common.Gwei(balV.Uint())
	if err := func() (err error) {
		defer func() {
			if rec := recover(); rec != nil {
				err = fmt.Errorf("panic: %v", rec)
			}
		}()
		return h.st.AddValidator(r.e.spec, pub, creds, bal)
	}(); err != nil {
		r.dev("C15", "accessor_error", "validators", s.Op, s.H, "AddValidator: %v", err)
		return
	}
	after, _, err := r.e.project(h)
	if err != nil {
		r.dev("C15", "projection_failed", "", s.Op, s.H, "%v", err)
		return
	}
	for _, fi := range r.flds {
		if !perValidator[fi.Name] {
			continue
		}
		b, _ := before[fi.Name].([]interface{})
		a, _ := after[fi.Name].([]interface{})
		r.stats["addvalidator_list|"+fi.Name]++
		if len(a) != len(b)+1 {
			r.dev("C15", "addvalidator_wrong", fi.Name, s.Op, s.H, "AddValidator: %s had %d elements, now has %d (expected %d)", fi.Name, len(b), len(a), len(b)+1)
			continue
		}
		last := a[len(a)-1]
		switch fi.Name {
		case "validators":
			m, _ := last.(map[string]interface{})
			if !reflect.DeepEqual(m["pubkey"], norm(pub)) || !reflect.DeepEqual(m["withdrawal_credentials"], norm(creds)) {
				r.dev("C15", "addvalidator_wrong", fi.Name, s.Op, s.H, "AddValidator: new validator is %s, given pubkey %s credentials %s", short(last), pub, creds)
			}
		case "balances":
			if !reflect.DeepEqual(last, balJS) {
				r.dev("C15", "addvalidator_wrong", fi.Name, s.Op, s.H, "AddValidator: new balance is %s, given %s", short(last), short(balJS))
			}
		default:
			if !reflect.DeepEqual(last, "0") {
				r.dev("C15", "addvalidator_wrong", fi.Name, s.Op, s.H, "AddValidator: new element of %s is %s, expected 0", fi.Name, short(last))
			}
		}
	}
}

// scribble: the caller overwrites every argument it passed in earlier steps, and every value the read API gives back
// (Raw(), struct-returning getters, bulk slices).  The model says this changes nothing: checkAll then compares every live
// handle with the unchanged store and the view root with the root rebuilt from the state's own encoding.
func (r *replayer) scribble(s *step) {
	for _, a := range r.args {
		r.stats["scribbled_argument_cells"] += sszreg.Scribble(a)
	}
	r.stats["scribbled_arguments"] += len(r.args)
	r.args = nil
	names := make([]string, 0, len(r.h))
	for hd := range r.h {
		names = append(names, hd)
	}
	sort.Strings(names)
	for _, hd := range names {
		h := r.h[hd]
		func() {
			defer func() {
				if rec := recover(); rec != nil {
					r.dev("C15", "getter_error", "", s.Op, hd, "reading for the scribble step panicked: %v", rec)
				}
			}()
			if out, err := callRec(h.st, "Raw", r.e.spec); err == nil {
				r.stats["scribbled_results|Raw"]++
				r.stats["scribbled_result_cells"] += sszreg.Scribble(out[0])
			}
			for _, fi := range r.flds {
				a := r.acc[fi.Name]
				if a.get == "" {
					continue
				}
				out, err := callRec(h.st, a.get, r.e.spec)
				if err != nil {
					continue
				}
				res := out[0]
				if hasMethod(res.Interface(), "Raw") { // a sub-view: what Raw() hands out belongs to the caller
					o2, err := callRec(res.Interface(), "Raw", r.e.spec)
					if err != nil {
						continue
					}
					res = o2[0]
				} else if sv, ok := res.Interface().(*common.SyncCommitteeView); ok {
					if pv, err := sv.Pubkeys(); err == nil {
						if pubs, err := pv.Flatten(); err == nil {
							res = reflect.ValueOf(pubs)
						}
					}
				}
				if res.Kind() != reflect.Ptr && res.Kind() != reflect.Slice { // a plain value: make it addressable
					p := reflect.New(res.Type())
					p.Elem().Set(res)
					res = p
				}
				if n := sszreg.Scribble(res); n > 0 {
					r.stats["scribbled_results|"+fi.Name]++
					r.stats["scribbled_result_cells"] += n
				}
			}
			if bals, err := h.st.Balances(); err == nil {
				if all, err := bals.AllBalances(); err == nil {
					r.stats["scribbled_results|AllBalances"]++
					r.stats["scribbled_result_cells"] += sszreg.Scribble(reflect.ValueOf(all))
				}
			}
		}()
	}
}

func (r *replayer) advance(s *step, h *handle) {
	slot, err := h.st.Slot()
	if err != nil {
		r.dev("C15", "accessor_error", "slot", s.Op, s.H, "%v", err)
		return
	}
	k := common.Slot(1)
	if s.C%2 == 0 {
		k = r.e.spec.SLOTS_PER_EPOCH
	}
	if slot > 1<<40 { // a mutated slot near the top of the range cannot be advanced
		r.stats["advance_refused"]++
		return
	}
	up := &beacon.StandardUpgradeableBeaconState{BeaconState: h.st}
	func() {
		defer func() {
			if rec := recover(); rec != nil {
				r.stats["advance_panicked"]++
				fmt.Fprintf(os.Stderr, "note: ProcessSlots panicked on a mutated state: %v\n", rec)
			}
		}()
		if err := common.ProcessSlots(context.Background(), r.e.spec, h.epc, up, slot+k); err != nil {
			r.stats["advance_errors"]++
		} else {
			r.stats["advance_ok"]++
		}
	}()
	h.st = up.BeaconState
}

// sub-views of container-valued fields: every getter returns the sub-field it names; every setter writes it
func (r *replayer) probeSubViews(hd string, h *handle) {
	proj, _, err := r.e.project(h)
	if err != nil {
		return
	}
	cv, ok := h.st.(interface {
		Get(i uint64) (view.View, error)
	})
	if !ok {
		die("state view has no Get")
	}
	aliases := map[string]string{"receiptroot": "receiptsroot", "random": "prevrandao"}
	for _, fi := range r.flds {
		a := r.acc[fi.Name]
		if a.wrap == nil || fi.schema.Kind != "container" {
			continue
		}
		obj, _ := proj[fi.Name].(map[string]interface{})
		sv, err := a.wrap(cv.Get(uint64(fi.idx)))
		if err != nil {
			r.dev("C15", "subview_error", fi.Name, "probe", hd, "%v", err)
			continue
		}
		rv := reflect.ValueOf(sv)
		byNorm := map[string]interface{}{}
		for k, v := range obj {
			byNorm[normKey(k)] = v
		}
		for m := 0; m < rv.NumMethod(); m++ {
			mt := rv.Type().Method(m)
			ft := rv.Method(m).Type()
			if ft.NumIn() != 0 || ft.NumOut() != 2 || !ft.Out(1).Implements(reflect.TypeOf((*error)(nil)).Elem()) {
				continue
			}
			key := normKey(mt.Name)
			if al, ok := aliases[key]; ok {
				key = al
			}
			want, ok := byNorm[key]
			if !ok {
				continue
			}
			if _, isView := reflect.Zero(ft.Out(0)).Interface().(view.View); isView && ft.Out(0).Kind() == reflect.Ptr {
				continue // nested sub-views (Pubkeys) are covered by the whole-field getter
			}
			r.stats["subview_getters"]++
			out, err := callRec(sv, mt.Name, r.e.spec)
			if err != nil {
				r.dev("C15", "subview_getter_error", fi.Name, "probe", hd, "%T.%s: %v (stored %s)", sv, mt.Name, err, short(want))
				continue
			}
			if got := norm(out[0].Interface()); !reflect.DeepEqual(got, want) {
				r.dev("C15", "subview_getter_mismatch", fi.Name, "probe", hd, "%T.%s() = %s, the field holds %s", sv, mt.Name, short(got), short(want))
			}
		}
	}
}

// sub-view setters (CheckpointView.Set, Eth1DataView.SetDepositRoot, BeaconBlockHeaderView.SetStateRoot, ...): executed on
// a COPY of the state: the named sub-field (and nothing else of that field) changes in the copy, the original keeps its root
func (r *replayer) probeSubViewSetters(hd string, h *handle) {
	if r.poisoned[hd] {
		return
	}
	origRoot := h.st.HashTreeRoot(r.e.hFn)
	aliases := map[string]string{"receiptroot": "receiptsroot", "random": "prevrandao"}
	for _, fi := range r.flds {
		a := r.acc[fi.Name]
		if a.wrap == nil || fi.schema.Kind != "container" {
			continue
		}
		cpState, err := h.st.CopyState()
		if err != nil {
			r.dev("C15", "accessor_error", fi.Name, "probe-set", hd, "CopyState: %v", err)
			continue
		}
		cp := &handle{st: cpState, epc: h.epc}
		before, _, err := r.e.project(cp)
		if err != nil {
			continue
		}
		cv := cpState.(interface {
			Get(i uint64) (view.View, error)
		})
		sv, err := a.wrap(cv.Get(uint64(fi.idx)))
		if err != nil {
			continue
		}
		rv := reflect.ValueOf(sv)
		for m := 0; m < rv.NumMethod(); m++ {
			name := rv.Type().Method(m).Name
			ft := rv.Method(m).Type()
			if !strings.HasPrefix(name, "Set") || name == "SetBacking" || ft.NumIn() != 1 || ft.NumOut() != 1 {
				continue
			}
			argT := ft.In(0)
			var sub *sszreg.Schema
			subKey := ""
			if name == "Set" {
				sub = fi.schema
			} else {
				key := normKey(name[3:])
				if al, ok := aliases[key]; ok {
					key = al
				}
				for _, sf := range fi.schema.Fields {
					if normKey(sf.Name) == key {
						sub, subKey = sf.Schema, sf.Name
					}
				}
			}
			if sub == nil {
				continue
			}
			vt := argT
			for vt.Kind() == reflect.Ptr {
				vt = vt.Elem()
			}
			val, js, err := r.e.concrete(fi.Name+"."+name, r.stepNo, sub, vt)
			if err != nil {
				continue
			}
			arg := val
			if argT.Kind() == reflect.Ptr {
				p := reflect.New(vt)
				p.Elem().Set(val)
				arg = p
			}
			r.stats["subview_setters"]++
			if _, err := callRec(sv, name, r.e.spec, arg); err != nil {
				r.dev("C15", "subview_setter_error", fi.Name, "probe-set", hd, "%T.%s: %v", sv, name, err)
				continue
			}
			r.stats["subview_setter_args_scribbled"] += sszreg.Scribble(arg) + sszreg.Scribble(val)
			after, _, err := r.e.project(cp)
			if err != nil {
				r.dev("C15", "projection_failed", fi.Name, "probe-set", hd, "%v", err)
				continue
			}
			// expected: `before` with the sub-field (or the whole field) replaced
			exp := map[string]interface{}{}
			for k, v := range before {
				exp[k] = v
			}
			if subKey == "" {
				exp[fi.Name] = js
			} else {
				obj := map[string]interface{}{}
				for k, v := range before[fi.Name].(map[string]interface{}) {
					if normKey(k) == normKey(subKey) {
						obj[k] = js
					} else {
						obj[k] = v
					}
				}
				exp[fi.Name] = obj
			}
			for k := range exp {
				if !reflect.DeepEqual(exp[k], after[k]) {
					r.dev("C15", "subview_setter_wrong", fi.Name, "probe-set", hd, "%T.%s(%s): field %s is %s, expected %s", sv, name, short(js), k, short(after[k]), short(exp[k]))
					break
				}
			}
			before = after
		}
		if got := h.st.HashTreeRoot(r.e.hFn); got != origRoot {
			r.dev("C15", "copy_not_independent", fi.Name, "probe-set", hd, "sub-view setters on a copy changed the original state's root")
		}
	}
}

// classifyMethods lists every method of the fork's BeaconStateView with how the replayer drives it; a method that is
// neither bound nor deliberately left out is an error (a new accessor must be classified before the check runs again).
func classifyMethods(fork string, base common.BeaconState) (map[string]string, error) {
	generic := map[string]bool{}
	ct := reflect.TypeOf(&view.ContainerView{})
	for i := 0; i < ct.NumMethod(); i++ {
		generic[ct.Method(i).Name] = true
	}
	bound := map[string]string{
		"AddValidator": "action addvalidator", "RotateSyncCommittee": "action rotate", "CopyState": "action copy",
		"Raw": "projection after every step", "HashTreeRoot": "root check after every step", "Serialize": "rebuild-from-bytes root check",
		"Get": "sub-view probes (generic field access)", "ProcessEpoch": "action advance (common.ProcessSlots)",
		"IsTransitionCompleted": "derived read of latest_execution_payload_header, compared after every step",
	}
	for field, a := range accessors(fork) {
		for _, m := range []struct{ name, how string }{{a.get, "getter of " + field}, {a.set, "action set on " + field},
			{a.bump, "action bump on " + field}, {a.sub, "sub-view of " + field}, {a.setAll, "action setall on " + field},
			{a.fill, "action fill on " + field}} {
			if m.name != "" {
				bound[m.name] = m.how
			}
		}
	}
	notBound := map[string]string{
		"ForkSettings":       "not bound: pure function of the configuration, reads and writes no state",
		"ProcessBlock":       "not bound: block processing belongs to the transition properties (C01/C03)",
		"IsExecutionEnabled": "not bound: predicate over a block argument, part of block processing (C01/C03)",
		"IsTransitionBlock":  "not bound: predicate over a block argument, part of block processing (C01/C03)",
	}
	out := map[string]string{}
	t := reflect.TypeOf(base)
	var unclassified []string
	for i := 0; i < t.NumMethod(); i++ {
		name := t.Method(i).Name
		switch {
		case bound[name] != "":
			out[name] = "bound: " + bound[name]
		case notBound[name] != "":
			out[name] = notBound[name]
		case generic[name]:
			out[name] = "not bound: generic ztyp container-view method (promoted), not a typed accessor"
		default:
			unclassified = append(unclassified, name)
		}
	}
	if len(unclassified) > 0 {
		return out, fmt.Errorf("%s.BeaconStateView has methods the binding table does not classify: %v", fork, unclassified)
	}
	return out, nil
}

func cmdMethods(args []string) {
	fs := flag.NewFlagSet("methods", flag.ExitOnError)
	fork := fs.String("fork", "phase0", "")
	schemas := fs.String("schemas", "", "")
	fs.Parse(args)
	_, base, _ := setup(*fork, *schemas, 1)
	m, err := classifyMethods(*fork, base)
	js, _ := json.Marshal(m)
	fmt.Println(string(js))
	if err != nil {
		die("%v", err)
	}
}

func cmdCaps(args []string) {
	fs := flag.NewFlagSet("caps", flag.ExitOnError)
	fork := fs.String("fork", "phase0", "")
	schemas := fs.String("schemas", "", "")
	fs.Parse(args)
	e, base, _ := setup(*fork, *schemas, 1)
	flds, err := e.fields(base)
	if err != nil {
		die("%v", err)
	}
	if _, err := classifyMethods(*fork, base); err != nil {
		die("%v", err)
	}
	js, _ := json.Marshal(flds)
	fmt.Println(string(js))
}

func setup(fork, schemas string, seed int64) (*env, common.BeaconState, *common.EpochsContext) {
	tab, err := sszreg.LoadTable(schemas)
	if err != nil {
		die("%v", err)
	}
	te := tab.ByName[fork+".BeaconState"]
	if te == nil {
		die("no schema for %s.BeaconState", fork)
	}
	e := &env{fork: fork, spec: specFor(tab, fork), tab: tab, schema: te.Schema, seed: seed, hFn: tree.GetHashFn()}
	base, epc := baseState(e.spec)
	if got := strings.TrimPrefix(fmt.Sprintf("%T", base), "*"); !strings.HasPrefix(got, fork+".") {
		die("base state has type %s, wanted fork %s", got, fork)
	}
	return e, base, epc
}

func cmdReplay(args []string) {
	fs := flag.NewFlagSet("replay", flag.ExitOnError)
	fork := fs.String("fork", "phase0", "")
	schemas := fs.String("schemas", "", "")
	behaviours := fs.String("behaviours", "", "one JSON array of steps per line")
	seed := fs.Int64("seed", 1, "")
	out := fs.String("out", "report.ndjson", "")
	fs.Parse(args)
	e, base, epc := setup(*fork, *schemas, *seed)
	flds, err := e.fields(base)
	if err != nil {
		die("%v", err)
	}
	baseSSZ, err := serializeView(base)
	if err != nil {
		die("%v", err)
	}
	in, err := os.Open(*behaviours)
	if err != nil {
		die("%v", err)
	}
	defer in.Close()
	of, err := os.Create(*out)
	if err != nil {
		die("%v", err)
	}
	w := bufio.NewWriter(of)
	sc := bufio.NewScanner(in)
	sc.Buffer(make([]byte, 1<<20), 1<<30)
	total := map[string]int{}
	n := 0
	for sc.Scan() {
		line := bytes.TrimSpace(sc.Bytes())
		if len(line) == 0 {
			continue
		}
		var steps []step
		if err := json.Unmarshal(line, &steps); err != nil {
			die("behaviour %d: %v", n+1, err)
		}
		n++
		r := &replayer{e: e, flds: flds, byName: map[string]*fieldInfo{}, acc: accessors(*fork), baseSSZ: baseSSZ, baseEpc: epc,
			h: map[string]*handle{}, bind: map[int]interface{}{}, stats: map[string]int{}, epcProj: map[string]string{}, poisoned: map[string]bool{}, desync: map[string]bool{}}
		for _, fi := range flds {
			r.byName[fi.Name] = fi
		}
		r.h["h1"] = r.fresh(n)
		// the start state itself: cached roots of the constructor-built tree = roots of its content rebuilt from bytes
		r.stepNo = 0
		if _, raw0, err := e.project(r.h["h1"]); err != nil {
			r.dev("C15", "projection_failed", "", "init", "h1", "%v", err)
		} else {
			r.checkRoots("h1", r.h["h1"], raw0, "init")
		}
		for k := range steps {
			r.stepNo = k + 1
			r.lastStep = &steps[k]
			r.apply(&steps[k])
			r.checkAll(&steps[k])
		}
		r.stepNo = len(steps) + 1
		for hd, h := range r.h {
			r.probeSubViews(hd, h)
			r.probeSubViewSetters(hd, h)
		}
		hs := fnv.New64a()
		hs.Write(line)
		rep := map[string]interface{}{"behaviour": n, "fork": *fork, "steps": len(steps), "devs": r.devs, "hash": fmt.Sprintf("%016x", hs.Sum64()),
			"stats": r.stats}
		js, _ := json.Marshal(rep)
		w.Write(js)
		w.WriteByte('\n')
		for k, v := range r.stats {
			total[k] += v
		}
	}
	js, _ := json.Marshal(map[string]interface{}{"summary": true, "fork": *fork, "behaviours": n, "stats": total})
	w.Write(js)
	w.WriteByte('\n')
	w.Flush()
	of.Close()
}

func main() {
	if len(os.Args) < 2 {
		die("usage: statestore caps|replay ...")
	}
	switch os.Args[1] {
	case "caps":
		cmdCaps(os.Args[2:])
	case "methods":
		cmdMethods(os.Args[2:])
	case "replay":
		cmdReplay(os.Args[2:])
	default:
		die("unknown subcommand %s", os.Args[1])
	}
}
