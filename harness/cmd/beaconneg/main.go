// Command beaconneg records ndjson traces for property C03: valid chains (as in cmd/beacon) in which, before
// every block is applied, single-fault variants of that block (harness/negvariants, DESIGN appendix D) and -
// in the thorough tier - byte-level mutations of its SSZ encoding are run through common.StateTransition on
// COPIES of the live state ("Neg" events).  spec/BeaconTrace.tla decides for each variant whether the
// specification rejects it; zrnt must then return an error and must never panic.
//
//	beaconneg -out DIR -tier quick|thorough -seed N -shard i/n
package main

import (
	"bytes"
	"encoding/json"
	"flag"
	"fmt"
	"math/rand"
	"os"
	"path/filepath"
	"runtime/debug"
	"sort"
	"strings"

	"github.com/protolambda/zrnt/eth2/beacon/altair"
	"github.com/protolambda/zrnt/eth2/beacon/bellatrix"
	"github.com/protolambda/zrnt/eth2/beacon/capella"
	"github.com/protolambda/zrnt/eth2/beacon/common"
	"github.com/protolambda/zrnt/eth2/beacon/deneb"
	"github.com/protolambda/zrnt/eth2/beacon/phase0"
	"github.com/protolambda/ztyp/codec"
	"github.com/protolambda/ztyp/tree"

	"verif/harness/beaconrec"
	"verif/harness/chain"
	"verif/harness/chainabs"
	"verif/harness/negvariants"
)

func fatal(err error) {
	fmt.Fprintln(os.Stderr, "beaconneg recorder:", err)
	os.Exit(3)
}

func schedName(f chain.ForkSchedule) string {
	e := func(x common.Epoch) string {
		if x == chain.FarFuture {
			return "x"
		}
		return fmt.Sprintf("%d", uint64(x))
	}
	return "f" + e(f.Altair) + "_" + e(f.Bellatrix) + "_" + e(f.Capella) + "_" + e(f.Deneb)
}

type cfg struct {
	name       string
	preset     string
	forks      chain.ForkSchedule
	validators int
	epochs     int
	genesis    chain.GenesisOpts
	steps      []chain.StepPlan
}

// covered counts, per process, how often each (class, fork) and (variant, fork) pair was exercised.
var covered = map[string]int{}

// observer derives and runs the negative variants right before a block is applied.
type observer struct {
	rec      *beaconrec.Recorder
	rng      *rand.Rand
	variants []negvariants.Variant
	next     int // rotation through the catalogue
	perBlock int
	bytesPer int // byte-level mutants per block
	editsPer int // boundary variants on an edited copy of the state, per block
	nextEdit int
	err      error
}

// editVariant: a variant judged on an EDITED copy of the live state: validator X is put exactly at a
// boundary of a status condition (is_slashable_validator, is_active_validator, exit already initiated, ...)
// and an otherwise honest, correctly signed block carrying one operation about X is built on that state, so
// that ONLY the status condition decides.  Whether the block is valid is decided by the model.
type editVariant struct {
	name, class string
	minEpoch    common.Epoch
	proposerX   bool // X is the proposer of the block's slot (the honest block itself is re-used)
	edit        func(v common.Validator, cur common.Epoch) error
	plan        func(x common.ValidatorIndex, cur common.Epoch) chain.BlockPlan
	// editState (instead of edit): an edit of the state that is not about one validator; mutate: applied to the
	// honest block (re-used as is when nil) after the edit
	editState func(st *chain.StateCtx, deposits *chain.DepositTree, env *common.BeaconBlockEnvelope) error
	mutate    func(st *chain.StateCtx, env *common.BeaconBlockEnvelope) (*common.BeaconBlockEnvelope, error)
	// keepBlock: the honest block is used exactly as it is (its state root is already the one an implementation
	// that wrongly processes it would compute)
	keepBlock bool
	anySlot   bool // also applicable to blocks at the first slot of an epoch
}

// The honest pre-state advanced (through empty slots, by ProcessSlots) to the block's OWN slot, or one beyond: the
// block is fully valid for the state at its slot - proposer, parent root, signature, state root - but
// state_transition starts with process_slots(state, block.slot), which asserts state.slot < block.slot.
func advanceTo(extra common.Slot) func(st *chain.StateCtx, deposits *chain.DepositTree, env *common.BeaconBlockEnvelope) error {
	return func(st *chain.StateCtx, _ *chain.DepositTree, env *common.BeaconBlockEnvelope) error {
		return st.Advance(env.Slot + extra)
	}
}

// eth1_data.deposit_count one below eth1_deposit_index: reachable when an eth1 vote majority adopts data with a
// smaller count; the specification's uint64 subtraction underflows, every block on such a state is invalid
func editCountBelowIndex(st *chain.StateCtx, deposits *chain.DepositTree, env *common.BeaconBlockEnvelope) error {
	cur, idx := st.Eth1()
	if idx == 0 {
		return fmt.Errorf("no deposits yet")
	}
	// consistent eth1 data of an earlier deposit-contract state: root over exactly idx-1 leaves
	ed := deposits.Eth1Data(uint64(idx) - 1)
	ed.BlockHash = cur.BlockHash
	return st.State.SetEth1Data(ed)
}

// the same count, but the deposit ROOT still commits to all deposits (inconsistent eth1 data, which only a
// dishonest voting majority can adopt): proofs for the indices beyond deposit_count verify.  Only applied to
// blocks that carry exactly MAX_DEPOSITS deposits - see known_findings.d/beacon.json (deposit count underflow).
func editCountBelowIndexRootCommitsMore(st *chain.StateCtx, deposits *chain.DepositTree, env *common.BeaconBlockEnvelope) error {
	ed, idx := st.Eth1()
	if idx == 0 || uint64(len(*chain.OpsOf(env.Body).Deposits)) != uint64(st.Spec.MAX_DEPOSITS) {
		return fmt.Errorf("not applicable")
	}
	ed.DepositCount = idx - 1
	return st.State.SetEth1Data(ed)
}

// appendDeposit adds one (well-formed, unprovable) deposit to a copy of the block and re-signs it
func appendDeposit(st *chain.StateCtx, env *common.BeaconBlockEnvelope) (*common.BeaconBlockEnvelope, error) {
	out, err := chain.CloneEnvelope(st.Spec, env)
	if err != nil {
		return nil, err
	}
	ops := chain.OpsOf(out.Body)
	d := chain.MakeDepositData(st.Spec, st.Keys, chain.DepositSpec{Key: 90})
	*ops.Deposits = append(*ops.Deposits, common.Deposit{Data: d})
	return out, nil
}

func setEpochs(v common.Validator, elig, act, exit, wd *common.Epoch) error {
	if elig != nil {
		if err := v.SetActivationEligibilityEpoch(*elig); err != nil {
			return err
		}
	}
	if act != nil {
		if err := v.SetActivationEpoch(*act); err != nil {
			return err
		}
	}
	if exit != nil {
		if err := v.SetExitEpoch(*exit); err != nil {
			return err
		}
	}
	if wd != nil {
		return v.SetWithdrawableEpoch(*wd)
	}
	return nil
}

func ep(e common.Epoch) *common.Epoch { return &e }

var far = common.FAR_FUTURE_EPOCH

var (
	planPSlash = func(x common.ValidatorIndex, cur common.Epoch) chain.BlockPlan {
		return chain.BlockPlan{ProposerSlashings: []chain.ProposerSlashingPlan{{Proposer: x}}}
	}
	planASlash = func(x common.ValidatorIndex, cur common.Epoch) chain.BlockPlan {
		return chain.BlockPlan{AttesterSlashings: []chain.AttesterSlashingPlan{{Indices: []common.ValidatorIndex{x}}}}
	}
	planExit = func(x common.ValidatorIndex, cur common.Epoch) chain.BlockPlan {
		return chain.BlockPlan{Exits: []chain.ExitPlan{{Validator: x}}}
	}
	planBLS = func(x common.ValidatorIndex, cur common.Epoch) chain.BlockPlan {
		return chain.BlockPlan{BLSChanges: []chain.BLSChangePlan{{Validator: x}}}
	}
	// 0x00 ++ hash(withdrawal pubkey)[1:]  ->  0x01 ++ the same 31 bytes: from_bls_pubkey still hashes to the rest
	// of the credentials and the signature is valid, only the prefix condition of the BLS change fails
	editEth1Prefix = func(v common.Validator, cur common.Epoch) error {
		wc, err := v.WithdrawalCredentials()
		if err != nil || wc[0] != common.BLS_WITHDRAWAL_PREFIX {
			return fmt.Errorf("not applicable")
		}
		wc[0] = common.ETH1_ADDRESS_WITHDRAWAL_PREFIX
		return v.SetWithdrawalCredentials(wc)
	}
	editWdNow    = func(v common.Validator, cur common.Epoch) error { return setEpochs(v, nil, nil, ep(cur-2), ep(cur)) }
	editWdNext   = func(v common.Validator, cur common.Epoch) error { return setEpochs(v, nil, nil, ep(cur-1), ep(cur+1)) }
	editActNext  = func(v common.Validator, cur common.Epoch) error { return setEpochs(v, ep(0), ep(cur+1), nil, nil) }
	editActNow   = func(v common.Validator, cur common.Epoch) error { return setEpochs(v, ep(0), ep(cur), nil, nil) }
	editPending  = func(v common.Validator, cur common.Epoch) error { return setEpochs(v, ep(far), ep(far), nil, nil) }
	editExited   = func(v common.Validator, cur common.Epoch) error { return setEpochs(v, nil, nil, ep(cur-1), ep(cur+1)) }
	editExiting  = func(v common.Validator, cur common.Epoch) error { return setEpochs(v, nil, nil, ep(cur+3), ep(cur+5)) }
	editSlashedP = func(v common.Validator, cur common.Epoch) error {
		if err := v.MakeSlashed(); err != nil {
			return err
		}
		return setEpochs(v, nil, nil, ep(cur+3), ep(cur+8))
	}
)

var editVariants = []editVariant{
	{"pslash-withdrawable-now", "slashable_boundary", 2, false, editWdNow, planPSlash, nil, nil, false, false},
	{"pslash-withdrawable-next-control", "slashable_boundary", 1, false, editWdNext, planPSlash, nil, nil, false, false},
	{"pslash-activation-next", "slashable_boundary", 0, false, editActNext, planPSlash, nil, nil, false, false},
	{"pslash-activation-now-control", "slashable_boundary", 1, false, editActNow, planPSlash, nil, nil, false, false},
	{"aslash-withdrawable-now", "slashable_boundary", 2, false, editWdNow, planASlash, nil, nil, false, false},
	{"aslash-withdrawable-next-control", "slashable_boundary", 1, false, editWdNext, planASlash, nil, nil, false, false},
	{"aslash-activation-next", "slashable_boundary", 0, false, editActNext, planASlash, nil, nil, false, false},
	{"aslash-activation-now-control", "slashable_boundary", 1, false, editActNow, planASlash, nil, nil, false, false},
	{"exit-of-pending-validator", "exit_status", 0, false, editPending, planExit, nil, nil, false, false},
	{"exit-of-future-activation", "exit_status", 0, false, editActNext, planExit, nil, nil, false, false},
	{"exit-of-exited-validator", "exit_status", 1, false, editExited, planExit, nil, nil, false, false},
	{"exit-already-initiated", "exit_status", 0, false, editExiting, planExit, nil, nil, false, false},
	{"bls-change-credentials-not-bls-prefix", "bls_change", 0, false, editEth1Prefix, planBLS, nil, nil, false, false},
	{"header-proposer-slashed", "header", 0, true, editSlashedP, nil, nil, nil, false, false},
	{"deposit-count-below-index-no-deposits", "deposit_count_underflow", 0, true, nil, nil, editCountBelowIndex, nil, false, false},
	{"deposit-count-below-index-one-deposit", "deposit_count_underflow", 0, true, nil, nil, editCountBelowIndex, appendDeposit, false, false},
	{"deposit-count-below-index-root-commits-more", "deposit_count_underflow", 0, true, nil, nil, editCountBelowIndexRootCommitsMore, nil, false, false},
	{"block-slot-equals-state-slot", "block_slot_not_after_state_slot", 0, true, nil, nil, advanceTo(0), nil, true, true},
	{"block-slot-before-state-slot", "block_slot_not_after_state_slot", 0, true, nil, nil, advanceTo(1), nil, true, true},
}

// engineVariants: the honest block, unchanged, while the execution engine answers "invalid" (or fails) at one of
// the calls of verify_and_notify_new_payload: process_execution_payload asserts the engine's verdict.
var engineVariants = []struct {
	name, method string
	verdict      chain.EngineVerdict
	min          chain.Fork
}{
	{"payload-engine-invalid-block-hash", chain.EngIsValidBlockHash, chain.EngineInvalid, chain.Bellatrix},
	{"payload-engine-invalid-payload", chain.EngNotifyNewPayload, chain.EngineInvalid, chain.Bellatrix},
	{"payload-engine-error", chain.EngNotifyNewPayload, chain.EngineError, chain.Bellatrix},
	{"payload-engine-invalid-versioned-hashes", chain.EngIsValidVersionedHashes, chain.EngineInvalid, chain.Deneb},
}

func (o *observer) engineVariant(c *chain.Chain, env *common.BeaconBlockEnvelope, fork chain.Fork) {
	eng := c.Engine
	p := chain.PayloadOf(env.Body)
	if eng == nil || fork < chain.Bellatrix || p == nil || p.BlockHash == (common.Root{}) {
		return
	}
	// the least exercised one on this fork
	best := -1
	for i, v := range engineVariants {
		if fork >= v.min && (best < 0 || covered["v:"+v.name+"_"+fork.String()] < covered["v:"+engineVariants[best].name+"_"+fork.String()]) {
			best = i
		}
	}
	v := engineVariants[best]
	if covered["v:"+v.name+"_"+fork.String()] >= 3 && o.rng.Intn(4) != 0 {
		return
	}
	venv, err := chain.CloneEnvelope(c.Spec, env)
	if err != nil {
		return
	}
	eng.Script = func(call *chain.EngineCall) chain.EngineVerdict {
		if call.Method == v.method {
			return v.verdict
		}
		return chain.EngineValid
	}
	defer func() { eng.Script = nil }()
	o.rec.NegBlock(c.Ctx, c.Spec, c.Epc, c.State, venv, v.name, "payload")
	covered["payload_"+fork.String()]++
	covered["v:"+v.name+"_"+fork.String()]++
}

// runEdited builds and runs one editVariant for the block env (about to be applied on c's head).
func (o *observer) runEdited(c *chain.Chain, env *common.BeaconBlockEnvelope, ev editVariant) {
	defer func() { recover() }() // a variant that cannot be built is skipped
	spec := c.Spec
	cur := spec.SlotToEpoch(env.Slot)
	if cur < ev.minEpoch {
		return
	}
	base := c.StateCtx.Copy(true)
	base.CompensateSyncCache = false
	// X: the block's proposer, or a healthy active validator that is not the proposer
	var x common.ValidatorIndex
	if ev.proposerX {
		x = env.ProposerIndex
	} else {
		var cands []common.ValidatorIndex
		for i, v := range base.Validators() {
			if v.IsActive(cur) && cur > 0 && v.IsActive(cur-1) && v.ExitEpoch == far && !v.Slashed && common.ValidatorIndex(i) != env.ProposerIndex {
				cands = append(cands, common.ValidatorIndex(i))
			}
		}
		if len(cands) < int(spec.SLOTS_PER_EPOCH)+2 {
			return
		}
		x = cands[o.rng.Intn(len(cands))]
	}
	vals, err := base.State.Validators()
	if err != nil {
		return
	}
	if ev.editState != nil {
		if ev.editState(base, c.Deposits, env) != nil {
			return
		}
	} else {
		v, err := vals.Validator(x)
		if err != nil || ev.edit(v, cur) != nil {
			return
		}
	}
	epc, err := common.NewEpochsContext(spec, base.State.BeaconState)
	if err != nil {
		return
	}
	base.Epc = epc
	venv := env
	if ev.plan != nil {
		pre2 := base.Copy(true)
		if pre2.Advance(env.Slot) != nil {
			return
		}
		if p, err := pre2.Proposer(env.Slot); err != nil || p == x || pre2.Validator(p).Slashed {
			return
		}
		plan := ev.plan(x, cur)
		plan.Slot = env.Slot
		venv, err = chain.ProduceOn(pre2, c.Deposits, plan)
		if err != nil || venv == nil {
			return
		}
	}
	if ev.plan == nil && !ev.keepBlock {
		// the honest block re-used on the edited state: give it the state root an implementation that (wrongly)
		// processes it would arrive at - as for every other variant, only the edited condition may decide
		pre2 := base.Copy(true)
		if pre2.Advance(env.Slot) != nil {
			return
		}
		venv, err = chain.CloneEnvelope(spec, venv)
		if err != nil {
			return
		}
		if ev.mutate != nil {
			venv, err = ev.mutate(pre2, venv)
			if err != nil || venv == nil {
				return
			}
		}
		venv.BodyRoot = venv.Body.HashTreeRoot(spec, tree.GetHashFn())
		if root, err := chain.ComputeStateRoot(pre2, venv); err == nil {
			venv.StateRoot = root
		}
		k := pre2.KeyOf(venv.ProposerIndex)
		chain.Seal(pre2, venv, chain.SealOpts{Signer: &k})
	}
	o.rec.NegBlockOn(c.Ctx, spec, base.Epc, base.State, venv, ev.name, ev.class)
	fork := chain.ForkAtEpoch(spec, cur)
	covered[ev.class+"_"+fork.String()]++
}

func (o *observer) BeforeSlots(c *chain.Chain, to common.Slot)           {}
func (o *observer) AfterSlots(c *chain.Chain, to common.Slot, err error) {}
func (o *observer) AfterBlock(c *chain.Chain, env *common.BeaconBlockEnvelope, err error) {
}

func (o *observer) BeforeBlock(c *chain.Chain, env *common.BeaconBlockEnvelope) {
	if o.err != nil {
		return
	}
	pre, err := c.PreState(env.Slot)
	if err != nil {
		o.err = err
		return
	}
	fork := pre.Fork()
	// Order: the catalogue rotated by o.next, stably sorted by how often the variant's (class, fork) and the
	// variant itself were exercised so far in this process - rare classes (deposits, slashings, BLS changes)
	// are tried first whenever a block offers them.
	n := len(o.variants)
	order := make([]int, n)
	for i := range order {
		order[i] = (o.next + i) % n
	}
	o.next += o.perBlock
	key := func(i int) int {
		v := o.variants[i]
		return covered[v.Class+"_"+fork.String()]*4 + covered["v:"+v.Name+"_"+fork.String()]*16
	}
	sort.SliceStable(order, func(a, b int) bool { return key(order[a]) < key(order[b]) })
	done := 0
	for _, i := range order {
		if done >= o.perBlock {
			break
		}
		v := o.variants[i]
		if fork < v.MinFork {
			continue
		}
		venv, err := v.Make(pre, c.Deposits, env)
		if err != nil || venv == nil {
			continue // not applicable to this block
		}
		o.rec.NegBlock(c.Ctx, c.Spec, c.Epc, c.State, venv, v.Name, v.Class)
		covered[v.Class+"_"+fork.String()]++
		covered["v:"+v.Name+"_"+fork.String()]++
		done++
	}
	// blocks with deposits are rare: run every deposit variant not yet seen on this fork in this process
	if len(*chain.OpsOf(env.Body).Deposits) > 0 {
		for _, v := range o.variants {
			if v.Class != "deposit" || covered["v:"+v.Name+"_"+fork.String()] > 0 {
				continue
			}
			if venv, err := v.Make(pre, c.Deposits, env); err == nil && venv != nil {
				o.rec.NegBlock(c.Ctx, c.Spec, c.Epc, c.State, venv, v.Name, v.Class)
				covered[v.Class+"_"+fork.String()]++
				covered["v:"+v.Name+"_"+fork.String()]++
			}
		}
	}
	o.engineVariant(c, env, fork)
	for i := 0; i < o.editsPer; i++ {
		ev := editVariants[o.nextEdit%len(editVariants)]
		o.nextEdit++
		if ev.anySlot || env.Slot%c.Spec.SLOTS_PER_EPOCH != 0 {
			o.runEdited(c, env, ev)
		}
	}
	// process_slots precondition at the entry point itself: ProcessSlots to the current slot and to an earlier one
	// must fail and leave the state unchanged
	if cur := c.Slot(); o.next%3 == 0 {
		o.rec.SlotsNeg(c.Ctx, c.Spec, c.Epc, c.State, cur)
		if cur >= 1 {
			o.rec.SlotsNeg(c.Ctx, c.Spec, c.Epc, c.State, cur-1-common.Slot(o.rng.Intn(int(cur))))
		}
	}
	for i := 0; i < o.bytesPer; i++ {
		if venv := byteMutant(o.rng, pre, env); venv != nil {
			o.rec.NegBlock(c.Ctx, c.Spec, c.Epc, c.State, venv, "bytes", "bytes")
		}
	}
}

// byteMutant flips 1..3 bytes of the block's SSZ encoding; if the result still decodes it is given a valid
// proposer signature again (and its real state root when it happens to be processable), so that the checks
// behind the signature are exercised.  nil when the mutation does not decode.
func byteMutant(rng *rand.Rand, pre *chain.StateCtx, env *common.BeaconBlockEnvelope) (out *common.BeaconBlockEnvelope) {
	defer func() {
		if r := recover(); r != nil {
			out = nil
		}
	}()
	spec := pre.Spec
	raw, err := chain.EncodeEnvelope(spec, env)
	if err != nil {
		return nil
	}
	for n := 1 + rng.Intn(3); n > 0; n-- {
		// skip the 96 signature bytes after the 4-byte offset: they are re-made anyway
		i := 100 + rng.Intn(len(raw)-100)
		if rng.Intn(3) == 0 {
			raw[i] = byte(rng.Intn(256))
		} else {
			raw[i] ^= 1 << uint(rng.Intn(8))
		}
	}
	rd := codec.NewDecodingReader(bytes.NewReader(raw), uint64(len(raw)))
	var venv *common.BeaconBlockEnvelope
	switch env.Body.(type) {
	case *phase0.BeaconBlockBody:
		var b phase0.SignedBeaconBlock
		if b.Deserialize(spec, rd) != nil {
			return nil
		}
		venv = b.Envelope(spec, env.ForkDigest)
	case *altair.BeaconBlockBody:
		var b altair.SignedBeaconBlock
		if b.Deserialize(spec, rd) != nil {
			return nil
		}
		venv = b.Envelope(spec, env.ForkDigest)
	case *bellatrix.BeaconBlockBody:
		var b bellatrix.SignedBeaconBlock
		if b.Deserialize(spec, rd) != nil {
			return nil
		}
		venv = b.Envelope(spec, env.ForkDigest)
	case *capella.BeaconBlockBody:
		var b capella.SignedBeaconBlock
		if b.Deserialize(spec, rd) != nil {
			return nil
		}
		venv = b.Envelope(spec, env.ForkDigest)
	case *deneb.BeaconBlockBody:
		var b deneb.SignedBeaconBlock
		if b.Deserialize(spec, rd) != nil {
			return nil
		}
		venv = b.Envelope(spec, env.ForkDigest)
	default:
		return nil
	}
	venv.BodyRoot = venv.Body.HashTreeRoot(spec, tree.GetHashFn())
	if venv.Slot == env.Slot {
		if root, err := chain.ComputeStateRoot(pre, venv); err == nil {
			venv.StateRoot = root
		}
	}
	k := pre.KeyOf(env.ProposerIndex)
	chain.Seal(pre, venv, chain.SealOpts{Signer: &k})
	return venv
}

func run(rec *beaconrec.Recorder, cf cfg, name string, rng *rand.Rand, perBlock, bytesPer, editsPer int, rot int) error {
	spec := chain.NewSpec(cf.preset, cf.forks)
	g := cf.genesis
	g.Validators = cf.validators
	c, err := chain.NewGenesis(spec, g)
	if err != nil {
		return err
	}
	steps := cf.steps
	if steps == nil {
		steps = chain.RandomScenario(rng, spec, chain.ScenarioOpts{Epochs: cf.epochs, Validators: cf.validators, SkipProb: 0.12})
	}
	rec.Sigs = chainabs.SigLookup(c.Keys)
	rec.ExpectValid = true
	rec.ProbeSlots = false
	c.CompensateSyncCache = false
	if c.Engine != nil {
		eng := c.Engine
		rec.EngineOK = func() bool {
			if eng.Script != nil {
				// an engine variant is running: the engine's answer to verify_and_notify_new_payload is the scripted
				// one (not valid), whether or not the implementation asked every question
				return false
			}
			calls := eng.Calls()
			return len(calls) == 0 || calls[len(calls)-1].Verdict == chain.EngineValid
		}
	}
	c.Runner = rec
	obs := &observer{rec: rec, rng: rng, variants: negvariants.All(), next: rot, nextEdit: rot, perBlock: perBlock, bytesPer: bytesPer, editsPer: editsPer}
	c.Observer = obs
	extra := []chain.KeyID{}
	if err := rec.InitWithKeys(spec, c.State, map[string]interface{}{"scenario": name}, chainabs.KeyTable(c.Keys, 96, extra...)); err != nil {
		return err
	}
	sc := chain.NewScenario(c)
	sc.KeepStates = false
	for _, st := range steps {
		if !st.Skip && st.Slot > c.Slot()+1 {
			// bring the head right before the block's slot: every variant then only processes one slot
			if err := c.Slots(st.Slot - 1); err != nil {
				if strings.Contains(err.Error(), "no active validators") {
					return nil
				}
				return err
			}
		}
		r := sc.Step(st)
		if obs.err != nil {
			return obs.err
		}
		if r.Err != nil {
			if r.Kind == "block" && r.Env != nil {
				return nil // zrnt rejected an honest block: logged, judged by C01
			}
			if strings.Contains(r.Err.Error(), "no active validators") {
				return nil
			}
			return fmt.Errorf("slot %d (%s): %w", st.Slot, r.Kind, r.Err)
		}
	}
	return nil
}

func main() {
	out := flag.String("out", "", "output directory")
	tier := flag.String("tier", "quick", "quick | thorough")
	seed := flag.Int64("seed", 1, "seed")
	shard := flag.String("shard", "0/1", "i/n")
	maxEvents := flag.Int("max-events", 500, "split trace files at this many events")
	flag.Parse()
	var shardI, shardN int
	if _, err := fmt.Sscanf(*shard, "%d/%d", &shardI, &shardN); err != nil || shardN < 1 || shardI < 0 || shardI >= shardN {
		fatal(fmt.Errorf("bad -shard"))
	}
	if err := os.MkdirAll(*out, 0o755); err != nil {
		fatal(err)
	}
	F := chain.Forks
	X := chain.FarFuture
	var cfgs []cfg
	add := func(p string, f chain.ForkSchedule, epochs int) {
		cfgs = append(cfgs, cfg{preset: p, forks: f, validators: chain.DefaultValidatorCount(p), epochs: epochs})
	}
	perBlock, bytesPer, editsPer := 5, 1, 2
	if *tier == "quick" {
		add(chain.PresetS1, chain.Phase0Only, 14)
		add(chain.PresetS1, F(2, X, X, X), 14)
		add(chain.PresetS1, F(1, 3, X, X), 14)
		add(chain.PresetS1, F(1, 2, 4, X), 14)
		add(chain.PresetS1, F(1, 2, 3, 5), 16)
		add(chain.PresetS1, F(0, 0, 0, 0), 14)
		add(chain.PresetS2, F(0, 0, 1, 2), 14)
		add(chain.PresetS3, F(1, 2, 3, 4), 12)
		add(chain.PresetS3, chain.Phase0Only, 12)
		add(chain.PresetS4, F(2, 4, 6, 8), 22)
		add(chain.PresetS4, F(0, 1, 2, 3), 20)
		add(chain.PresetS1, F(0, 0, 0, 3), 14)
	} else {
		perBlock, bytesPer, editsPer = 8, 2, 3
		scheds := []chain.ForkSchedule{chain.Phase0Only, F(1, 2, 3, 4), F(2, 2, 2, 2), F(1, 3, 3, 6), F(2, X, X, X), F(1, 2, X, X),
			F(1, 2, 4, X), F(0, 0, 0, 0), F(0, 1, 1, 2), F(0, 0, 2, 5), F(0, 0, 0, 3), F(3, 4, 5, 6)}
		for rep := 0; rep < 2; rep++ {
			for i, p := range chain.ScaledPresets {
				for j, s := range scheds {
					e := 13 + (rep+i+j)%5
					if p == chain.PresetS4 {
						e += 8
					}
					add(p, s, e)
				}
			}
		}
	}
	// short chains whose first blocks must carry deposits, one per fork (forks active from genesis): the deposit
	// conditions are then exercised on every fork whatever the random scenarios do
	for _, f := range []chain.ForkSchedule{chain.Phase0Only, F(0, X, X, X), F(0, 0, X, X), F(0, 0, 0, X), F(0, 0, 0, 0)} {
		var pend []chain.DepositSpec
		for k := 0; k < 6; k++ {
			pend = append(pend, chain.DepositSpec{Key: chain.KeyID(16 + k), BadSignature: k == 3})
		}
		steps := []chain.StepPlan{}
		for sl := 1; sl <= 6; sl++ {
			steps = append(steps, chain.StepPlan{Slot: common.Slot(sl), Seed: int64(900 + sl)})
		}
		cfgs = append(cfgs, cfg{name: "deposits-at-genesis", preset: chain.PresetS1, forks: f, validators: 16,
			genesis: chain.GenesisOpts{PendingDeposits: pend}, steps: steps})
	}
	for _, ns := range chain.CornerScenarios() {
		g := ns.Genesis
		if g.Validators == 0 {
			g.Validators = chain.DefaultValidatorCount(ns.Preset)
		}
		cfgs = append(cfgs, cfg{name: "corner-" + ns.Name, preset: ns.Preset, forks: ns.Forks, validators: g.Validators, genesis: g, steps: ns.Steps})
	}
	type tf struct {
		Name     string             `json:"name"`
		Path     string             `json:"path"`
		Events   int                `json:"events"`
		Counters beaconrec.Counters `json:"counters"`
	}
	var files []*tf
	total := beaconrec.Counters{}
	var cur *tf
	var curF *os.File
	var rec *beaconrec.Recorder
	closeCur := func() {
		if cur == nil {
			return
		}
		rec.Flush()
		curF.Close()
		cur.Events, cur.Counters = rec.Events, rec.C
		for k, v := range rec.C {
			total[k] += v
		}
		cur = nil
	}
	groupSeq := map[string]int{}
	curGroup := ""
	ran := 0
	for pos, cf := range cfgs {
		if pos%shardN != shardI {
			continue
		}
		if cf.name == "" {
			cf.name = fmt.Sprintf("random-%02d", pos)
		}
		group := cf.preset + "-" + schedName(cf.forks)
		if cur == nil || group != curGroup || rec.Events >= *maxEvents {
			closeCur()
			groupSeq[group]++
			name := fmt.Sprintf("%s.n%d.%d", group, shardI, groupSeq[group])
			path := filepath.Join(*out, name+".ndjson")
			f, err := os.Create(path)
			if err != nil {
				fatal(err)
			}
			cur, curF, curGroup = &tf{Name: name, Path: path}, f, group
			rec = beaconrec.New(f)
			files = append(files, cur)
		}
		name := fmt.Sprintf("neg-%s-%s-%s-v%d", cf.name, cf.preset, schedName(cf.forks), cf.validators)
		runIt := func() (err error) {
			defer func() {
				if p := recover(); p != nil {
					stack := debug.Stack()
					if _, _, zrnt := beaconrec.ClassifyStack(stack); zrnt && rec.Events > 0 {
						fmt.Fprintf(os.Stderr, "note: %s: zrnt panicked outside a recorded call: %v\n", name, p)
						err = rec.Crash(name, p, stack)
						return
					}
					fmt.Fprintf(os.Stderr, "harness panic in %s: %v\n%s\n", name, p, stack)
					os.Exit(2)
				}
			}()
			return run(rec, cf, name, rand.New(rand.NewSource(*seed*104729+int64(pos))), perBlock, bytesPer, editsPer, pos*7+int(*seed))
		}
		if err := runIt(); err != nil {
			fatal(fmt.Errorf("scenario %s: %w", name, err))
		}
		ran++
	}
	closeCur()
	b, _ := json.MarshalIndent(map[string]interface{}{"files": files, "counters": total, "scenarios": ran}, "", " ")
	if err := os.WriteFile(filepath.Join(*out, fmt.Sprintf("stats.%d.json", shardI)), b, 0o644); err != nil {
		fatal(err)
	}
}
