// Command genesis records ndjson traces of zrnt's genesis construction (phase0.GenesisFromEth1,
// phase0.KickStartState, phase0.KickStartStateWithSignatures, phase0.IsValidGenesisState) for validation
// against spec/BeaconGenesisTrace.tla (property C13).
//
//	genesis -out DIR -tier quick|thorough -seed N
//
// One trace file per preset variant (the specification reads its constants from the first event's P).
package main

import (
	"encoding/json"
	"flag"
	"fmt"
	"math/rand"
	"os"
	"path/filepath"
	"reflect"
	"sort"
	"strings"

	kbls "github.com/kilic/bls12-381"
	blsu "github.com/protolambda/bls12-381-util"
	"github.com/protolambda/zrnt/eth2/beacon/common"
	"github.com/protolambda/zrnt/eth2/beacon/phase0"
	"github.com/protolambda/ztyp/tree"
	"github.com/protolambda/ztyp/view"

	"verif/harness/absstate"
	"verif/harness/chain"
	"verif/harness/chainabs"
)

func fatal(err error) {
	fmt.Fprintln(os.Stderr, "genesis recorder:", err)
	os.Exit(3)
}

type gInput struct {
	Eth1BlockHash string                    `json:"eth1_block_hash"`
	Eth1Time      int                       `json:"eth1_time"`
	Deposits      []absstate.GenesisDeposit `json:"deposits"`
	EmptyBodyRoot string                    `json:"empty_body_root"`
	Gvr           string                    `json:"gvr"`
}

type event struct {
	Ev     string                 `json:"ev"`
	Fn     string                 `json:"fn"`
	P      map[string]interface{} `json:"P,omitempty"`
	Class  string                 `json:"class"`
	G      gInput                 `json:"g"`
	Time   int                    `json:"time"`
	Ok     bool                   `json:"ok"`
	Err    string                 `json:"err"`
	Panic  string                 `json:"panic,omitempty"`
	State  *absstate.State        `json:"state,omitempty"`
	Valid  bool                   `json:"valid"`
	EpcOK  bool                   `json:"epc_ok"`
	RootOK bool                   `json:"deposit_root_ok"`
	// KeyMismatch (kickstart_sigs): a secret key that does not belong to the pubkey was supplied
	KeyMismatch bool `json:"key_mismatch"`
}

// depKind enumerates how one deposit of a list is made.
type depKind int

const (
	dNewFull depKind = iota
	dNewPartial
	dNewOver
	dNewBadPoP
	dNewWrongDomain
	dNewEth1Creds
	dTopUp
	dTopUpBadSig
	dTopUpOtherCreds
	dInvalidPubkey
	dGarbageSig
	// signature-byte shapes (the spec verifies the signature of NEW pubkeys only; a top-up counts whatever its
	// signature bytes are, even when they do not decode)
	dNewSigZero
	dNewSigFF
	dNewSigInfinity
	dTopUpSigZero
	dTopUpSigFF
	dTopUpSigGarbage
	dTopUpSigInfinity
	dRedeposit // valid deposit of a pubkey whose earlier deposit(s) were ignored: must create the validator
	numKinds
)

var kindNames = []string{"new_full", "new_partial", "new_over", "new_bad_pop", "new_wrong_domain", "new_eth1_creds",
	"topup", "topup_bad_sig", "topup_other_creds", "invalid_pubkey", "garbage_sig",
	"new_sig_zero", "new_sig_ff", "new_sig_infinity", "topup_sig_zero", "topup_sig_ff", "topup_sig_garbage", "topup_sig_infinity", "redeposit"}

type listPlan struct {
	class string
	kinds []depKind
	// amounts[i] = 0: chosen by kind
	amounts []common.Gwei
	// proof corruption: -1 none; otherwise index of the deposit whose proof is broken, and how
	breakProof int
	breakHow   string // "flip", "final_tree", "swap"
}

type recorder struct {
	spec *common.Spec
	ks   *chain.Keys
	rng  *rand.Rand
	enc  *json.Encoder
	n    int
	c    map[string]int
	p    map[string]interface{}
}

func (r *recorder) buildDeposits(pl listPlan) []common.Deposit {
	spec := r.spec
	t := chain.NewDepositTree()
	max := spec.MAX_EFFECTIVE_BALANCE
	inc := spec.EFFECTIVE_BALANCE_INCREMENT
	nextKey := chain.KeyID(0)
	var made []chain.KeyID    // keys that (tried to) deposit so far
	var created []chain.KeyID // keys whose deposit created a validator (valid proof of possession)
	var ignored []chain.KeyID // keys whose deposits were all ignored so far
	isTopKind := func(k depKind) bool {
		return k == dTopUp || k == dTopUpBadSig || k == dTopUpOtherCreds || k == dTopUpSigZero || k == dTopUpSigFF ||
			k == dTopUpSigGarbage || k == dTopUpSigInfinity
	}
	for i, k := range pl.kinds {
		ds := chain.DepositSpec{}
		amount := common.Gwei(0)
		if i < len(pl.amounts) {
			amount = pl.amounts[i]
		}
		isTop := isTopKind(k) && len(created) > 0
		if k == dRedeposit && len(ignored) > 0 {
			ds.Key = ignored[0]
			ignored = ignored[1:]
			created = append(created, ds.Key)
		} else if isTop {
			ds.Key = created[r.rng.Intn(len(created))]
			if amount == 0 {
				amount = inc * common.Gwei(1+r.rng.Intn(3))
				if r.rng.Intn(3) == 0 {
					amount = max / 2
				}
			}
		} else {
			ds.Key = nextKey
			nextKey++
			made = append(made, ds.Key)
			switch k {
			case dNewBadPoP, dNewWrongDomain, dGarbageSig, dNewSigZero, dNewSigFF, dNewSigInfinity:
				ignored = append(ignored, ds.Key)
			case dInvalidPubkey:
			default:
				created = append(created, ds.Key)
			}
		}
		switch k {
		case dNewPartial:
			if amount == 0 {
				amount = []common.Gwei{inc, max / 2, max - inc, max - 1, inc - 1, max - inc/2}[r.rng.Intn(6)]
			}
		case dNewOver:
			if amount == 0 {
				amount = []common.Gwei{max + 1, max + inc, 2 * max, max + inc - 1}[r.rng.Intn(4)]
			}
		case dNewBadPoP, dTopUpBadSig:
			ds.BadSignature = true
		case dNewWrongDomain:
			v := spec.ALTAIR_FORK_VERSION
			ds.WrongDomainVersion = &v
		case dNewEth1Creds:
			ds.Eth1Creds = true
		case dTopUpOtherCreds:
			c := chain.Eth1WithdrawalCredentials(chain.Eth1Address(ds.Key + 500))
			ds.Credentials = &c
		}
		ds.Amount = amount
		data := chain.MakeDepositData(spec, r.ks, ds)
		switch k {
		case dInvalidPubkey:
			// not a point of the curve
			for j := range data.Pubkey {
				data.Pubkey[j] = 0xff
			}
			made = made[:len(made)-1]
		case dGarbageSig, dTopUpSigGarbage:
			for j := range data.Signature {
				data.Signature[j] = byte(0x11 + j)
			}
		case dNewSigZero, dTopUpSigZero:
			data.Signature = common.BLSSignature{}
		case dNewSigFF, dTopUpSigFF:
			for j := range data.Signature {
				data.Signature[j] = 0xff
			}
		case dNewSigInfinity, dTopUpSigInfinity:
			data.Signature = chain.InfinitySignature
		}
		t.Append(data)
	}
	n := uint64(len(pl.kinds))
	deps := make([]common.Deposit, n)
	for i := uint64(0); i < n; i++ {
		deps[i] = t.Deposit(i, i+1) // proof against the incremental root, as genesis requires
	}
	if pl.breakProof >= 0 && pl.breakProof < int(n) {
		i := uint64(pl.breakProof)
		switch pl.breakHow {
		case "flip":
			deps[i].Proof[int(i)%8][3] ^= 0x40
		case "final_tree":
			deps[i] = t.Deposit(i, n) // valid for the final tree only
		case "swap":
			if i+1 < n {
				deps[i], deps[i+1] = deps[i+1], deps[i]
			} else {
				deps[i].Proof[0][0] ^= 1
			}
		}
	}
	return deps
}

func (r *recorder) emit(ev *event) {
	if r.n == 0 {
		ev.P = r.p
	}
	r.n++
	if err := r.enc.Encode(ev); err != nil {
		fatal(err)
	}
}

func epcEqual(a, b *common.EpochsContext) bool {
	sh := func(x, y *common.ShufflingEpoch) bool {
		return x.Epoch == y.Epoch && reflect.DeepEqual(x.ActiveIndices, y.ActiveIndices) && reflect.DeepEqual(x.Shuffling, y.Shuffling)
	}
	return sh(a.PreviousEpoch, b.PreviousEpoch) && sh(a.CurrentEpoch, b.CurrentEpoch) && sh(a.NextEpoch, b.NextEpoch) &&
		reflect.DeepEqual(a.Proposers.Proposers, b.Proposers.Proposers) &&
		reflect.DeepEqual(a.EffectiveBalances, b.EffectiveBalances) && a.TotalActiveStake == b.TotalActiveStake
}

// run executes one genesis construction and logs it.
func (r *recorder) run(fn string, pl listPlan, eth1Hash common.Root, eth1Time common.Timestamp, kickTime common.Timestamp) {
	spec := r.spec
	deps := r.buildDeposits(pl)
	if fn == "kickstart" || fn == "kickstart_sigs" {
		// the kickstart helpers take validator data, not deposits: re-derive the deposit list they build
		// (placeholder / fresh signatures, incremental proofs are irrelevant there)
		for i := range deps {
			deps[i].Proof = common.DepositProof{}
		}
	}
	ev := &event{Ev: "Genesis", Fn: fn, Class: pl.class, Time: int(kickTime)}
	var state *phase0.BeaconStateView
	var epc *common.EpochsContext
	var err error
	var usedDeps []common.Deposit
	func() {
		defer func() {
			if p := recover(); p != nil {
				ev.Panic = fmt.Sprint(p)
				err = fmt.Errorf("panic: %v", p)
			}
		}()
		switch fn {
		case "eth1":
			usedDeps = deps
			state, epc, err = phase0.GenesisFromEth1(spec, eth1Hash, eth1Time, deps, false)
		case "eth1_unverified":
			usedDeps = deps
			state, epc, err = phase0.GenesisFromEth1(spec, eth1Hash, eth1Time, deps, true)
		case "kickstart":
			vals := make([]phase0.KickstartValidatorData, len(deps))
			placeholder := common.BLSSignature((*blsu.Signature)(kbls.NewG2().One()).Serialize())
			usedDeps = make([]common.Deposit, len(deps))
			for i := range deps {
				vals[i] = phase0.KickstartValidatorData{Pubkey: deps[i].Data.Pubkey, WithdrawalCredentials: deps[i].Data.WithdrawalCredentials, Balance: deps[i].Data.Amount}
				usedDeps[i].Data = deps[i].Data
				usedDeps[i].Data.Signature = placeholder
			}
			state, epc, err = phase0.KickStartState(spec, eth1Hash, kickTime, vals)
		case "kickstart_sigs":
			// zrnt signs the deposits itself with the given secret keys (and refuses keys that do not match)
			vals := make([]phase0.KickstartValidatorData, len(deps))
			keys := make([][32]byte, len(deps))
			usedDeps = make([]common.Deposit, len(deps))
			for i := range deps {
				vals[i] = phase0.KickstartValidatorData{Pubkey: deps[i].Data.Pubkey, WithdrawalCredentials: deps[i].Data.WithdrawalCredentials, Balance: deps[i].Data.Amount}
				if k, ok := r.ks.KeyOf(deps[i].Data.Pubkey); ok {
					keys[i] = r.ks.SecretBytes(k)
					// the helper signs the deposit message itself: the deposit it builds carries the proof of
					// possession under the fork-agnostic deposit domain, whatever signature the list had
					usedDeps[i].Data = deps[i].Data
					usedDeps[i].Data.Signature = r.ks.Sign1(k, deps[i].Data.MessageRoot(), chain.Domain{Type: common.DOMAIN_DEPOSIT, Version: spec.GENESIS_FORK_VERSION})
					continue
				} else {
					keys[i] = r.ks.SecretBytes(0) // a key that does not match: zrnt must refuse
					ev.KeyMismatch = true
				}
				usedDeps[i].Data = deps[i].Data
			}
			state, epc, err = phase0.KickStartStateWithSignatures(spec, eth1Hash, kickTime, vals, keys)
			if err == nil {
				// describe the deposits zrnt built: its own signatures are valid proofs of possession, which
				// the unverified model does not look at; keep the original bytes (they decode)
			}
		}
	}()
	sigs := chainabs.SigLookup(r.ks)
	absDeps, aerr := absstate.AbstractGenesisDeposits(sigs, usedDeps)
	if aerr != nil {
		fatal(aerr)
	}
	emptyBody := phase0.BeaconBlockBody{}
	ebr := emptyBody.HashTreeRoot(spec, tree.GetHashFn())
	ev.G = gInput{Eth1BlockHash: absstate.ID(eth1Hash[:]), Eth1Time: int(eth1Time), Deposits: absDeps, EmptyBodyRoot: absstate.ID(ebr[:])}
	if fn == "kickstart" || fn == "kickstart_sigs" {
		ev.G.Eth1Time = 0
	}
	ev.Ok = err == nil
	if err != nil {
		ev.Err = err.Error()
	} else {
		abs, perr := absstate.Project(spec, state)
		if perr != nil {
			fatal(perr)
		}
		ev.State = abs
		raw, rerr := state.Raw(spec)
		if rerr != nil {
			fatal(rerr)
		}
		gvr := absstate.ValidatorsRoot(raw.Validators, uint64(spec.VALIDATOR_REGISTRY_LIMIT))
		ev.G.Gvr = absstate.ID(gvr[:])
		// final eth1_data.deposit_root vs the harness' own root of the full list
		want := absstate.ZeroID
		if len(absDeps) > 0 {
			want = absDeps[len(absDeps)-1].RootAfter
		}
		ev.RootOK = abs.Eth1.DepositRoot == want || len(absDeps) == 0
		valid, verr := phase0.IsValidGenesisState(spec, state)
		if verr != nil {
			ev.Err = "IsValidGenesisState: " + verr.Error()
		}
		ev.Valid = valid
		fresh, ferr := common.NewEpochsContext(spec, state)
		ev.EpcOK = ferr == nil && epcEqual(epc, fresh)
	}
	r.c["events"]++
	r.c["fn_"+fn]++
	r.c["class_"+pl.class]++
	if ev.Ok {
		r.c["built"]++
		if ev.Valid {
			r.c["valid_genesis"]++
		} else {
			r.c["invalid_genesis"]++
		}
	} else {
		r.c["refused"]++
	}
	for _, k := range pl.kinds {
		r.c["dep_"+kindNames[k]]++
	}
	if pl.breakProof >= 0 {
		r.c["broken_proof_"+pl.breakHow]++
	}
	r.emit(ev)
}

// catalogue returns the deterministic boundary lists.
func catalogue(spec *common.Spec) []listPlan {
	spe := int(spec.SLOTS_PER_EPOCH)
	max := spec.MAX_EFFECTIVE_BALANCE
	inc := spec.EFFECTIVE_BALANCE_INCREMENT
	rep := func(k depKind, n int) []depKind {
		if n < 0 {
			n = 0
		}
		out := make([]depKind, n)
		for i := range out {
			out[i] = k
		}
		return out
	}
	cat := func(parts ...[]depKind) []depKind {
		var out []depKind
		for _, p := range parts {
			out = append(out, p...)
		}
		return out
	}
	minActive := int(spec.MIN_GENESIS_ACTIVE_VALIDATOR_COUNT)
	pls := []listPlan{
		{class: "empty", kinds: nil},
		{class: "below_slots_per_epoch", kinds: rep(dNewFull, spe-1)},
		{class: "exactly_slots_per_epoch", kinds: rep(dNewFull, spe)},
		{class: "min_active_minus_one", kinds: rep(dNewFull, minActive-1)},
		{class: "min_active_exact", kinds: rep(dNewFull, minActive)},
		{class: "min_active_by_topup", kinds: cat(rep(dNewFull, minActive-1), []depKind{dNewPartial, dTopUp}),
			amounts: append(make([]common.Gwei, minActive-1), max-inc, inc)},
		{class: "all_partial_no_active", kinds: rep(dNewPartial, spe+2)},
		{class: "over_max", kinds: cat(rep(dNewOver, 3), rep(dNewFull, spe))},
		{class: "bad_pop_skipped", kinds: cat(rep(dNewFull, spe), []depKind{dNewBadPoP, dNewWrongDomain, dNewFull, dGarbageSig})},
		{class: "invalid_pubkey_skipped", kinds: cat(rep(dNewFull, spe), []depKind{dInvalidPubkey, dNewFull})},
		{class: "topups", kinds: cat(rep(dNewFull, spe), []depKind{dNewPartial, dTopUp, dTopUpBadSig, dTopUpOtherCreds, dTopUp})},
		{class: "amount_edges", kinds: cat(rep(dNewFull, spe), rep(dNewPartial, 5)),
			amounts: append(make([]common.Gwei, spe), max-1, inc-1, inc, max-inc, 1)},
		{class: "eth1_creds", kinds: cat(rep(dNewEth1Creds, 2), rep(dNewFull, spe))},
		{class: "topup_signature_shapes", kinds: cat(rep(dNewFull, spe), []depKind{dNewPartial, dTopUp, dTopUpBadSig, dTopUpSigZero,
			dTopUpSigFF, dTopUpSigGarbage, dTopUpSigInfinity, dTopUp})},
		{class: "new_signature_shapes_then_redeposit", kinds: cat(rep(dNewFull, spe), []depKind{dNewBadPoP, dNewSigZero, dNewSigFF,
			dGarbageSig, dNewSigInfinity, dRedeposit, dRedeposit, dRedeposit, dRedeposit, dRedeposit, dTopUpSigFF})},
	}
	for _, how := range []string{"flip", "final_tree", "swap"} {
		for _, at := range []int{0, spe / 2, spe + 1} {
			pls = append(pls, listPlan{class: "broken_proof", kinds: cat(rep(dNewFull, spe+1), []depKind{dTopUp}), breakProof: at, breakHow: how})
		}
	}
	for i := range pls {
		if pls[i].class != "broken_proof" {
			pls[i].breakProof = -1
		}
	}
	return pls
}

func randomPlan(rng *rand.Rand, spec *common.Spec) listPlan {
	n := rng.Intn(22)
	if rng.Intn(4) == 0 {
		n = int(spec.MIN_GENESIS_ACTIVE_VALIDATOR_COUNT) - 1 + rng.Intn(3)
	}
	pl := listPlan{class: "random", breakProof: -1}
	for i := 0; i < n; i++ {
		k := depKind(rng.Intn(int(numKinds)))
		if rng.Intn(2) == 0 {
			k = dNewFull
		}
		pl.kinds = append(pl.kinds, k)
	}
	if n > 0 && rng.Intn(12) == 0 {
		pl.class = "random_broken_proof"
		pl.breakProof = rng.Intn(n)
		pl.breakHow = []string{"flip", "final_tree", "swap"}[rng.Intn(3)]
	}
	return pl
}

type variant struct {
	preset    string
	minActive uint64
	minTime   common.Timestamp
	delay     common.Timestamp
}

func main() {
	out := flag.String("out", "", "output directory")
	tier := flag.String("tier", "quick", "quick | thorough")
	seed := flag.Int64("seed", 1, "seed")
	flag.Parse()
	if *out == "" {
		fatal(fmt.Errorf("-out required"))
	}
	if err := os.MkdirAll(*out, 0o755); err != nil {
		fatal(err)
	}
	variants := []variant{
		{chain.PresetS1, 8, 0, 7}, {chain.PresetS1, 4, 1500, 7}, {chain.PresetS2, 6, 1007, 7}, {chain.PresetS3, 16, 0, 0},
		{chain.PresetS4, 2, 999, 3}, {chain.PresetS4, 4, 1000, 0},
	}
	randomPerVariant := 40
	if *tier == "thorough" {
		randomPerVariant = 700
		variants = append(variants, variant{chain.PresetS1, 12, 1010, 11}, variant{chain.PresetS2, 5, 0, 1}, variant{chain.PresetS3, 20, 1200, 9},
			variant{chain.PresetS3, 8, 900, 2})
	}
	total := map[string]int{}
	var files []map[string]interface{}
	for vi, v := range variants {
		spec := chain.NewSpec(v.preset, chain.Phase0Only)
		spec.MIN_GENESIS_ACTIVE_VALIDATOR_COUNT = view.Uint64View(v.minActive)
		spec.MIN_GENESIS_TIME = v.minTime
		spec.GENESIS_DELAY = v.delay
		name := fmt.Sprintf("%s-a%d-t%d-d%d", v.preset, v.minActive, v.minTime, v.delay)
		path := filepath.Join(*out, name+".ndjson")
		f, err := os.Create(path)
		if err != nil {
			fatal(err)
		}
		ks := chain.NewKeys()
		p, err := absstate.Preset(spec)
		if err != nil {
			fatal(err)
		}
		extra := []chain.KeyID{}
		for k := 0; k < 64; k++ {
			extra = append(extra, chain.KeyID(k)+7777) // signers of "bad signature" deposits
		}
		p["KEYS"] = chainabs.KeyTable(ks, 64, extra...)
		r := &recorder{spec: spec, ks: ks, rng: rand.New(rand.NewSource(*seed*131 + int64(vi))), enc: json.NewEncoder(f), c: map[string]int{}, p: p}
		for _, pl := range catalogue(spec) {
			h := chain.Eth1BlockHash(uint64(len(pl.kinds)) + 17)
			for _, fn := range []string{"eth1", "eth1_unverified", "kickstart", "kickstart_sigs"} {
				r.run(fn, pl, h, common.Timestamp(1000+r.rng.Intn(20)), common.Timestamp(900+r.rng.Intn(300)))
			}
		}
		for i := 0; i < randomPerVariant; i++ {
			pl := randomPlan(r.rng, spec)
			h := chain.Eth1BlockHash(uint64(r.rng.Intn(1000)))
			fn := []string{"eth1", "eth1", "eth1", "eth1_unverified", "kickstart", "kickstart_sigs"}[r.rng.Intn(6)]
			r.run(fn, pl, h, common.Timestamp(800+r.rng.Intn(1500)), common.Timestamp(800+r.rng.Intn(1500)))
		}
		f.Close()
		for k, n := range r.c {
			total[k] += n
		}
		files = append(files, map[string]interface{}{"name": name, "path": path, "events": r.n})
	}
	keys := make([]string, 0, len(total))
	for k := range total {
		keys = append(keys, k)
	}
	sort.Strings(keys)
	_ = strings.Join
	b, _ := json.MarshalIndent(map[string]interface{}{"files": files, "counters": total}, "", " ")
	if err := os.WriteFile(filepath.Join(*out, "stats.json"), b, 0o644); err != nil {
		fatal(err)
	}
}
