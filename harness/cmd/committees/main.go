// Command committees binds spec/Committees.tla to zrnt's committee / proposer / sync-committee code (C07).
//
//	committees record <plan.ndjson> <events.ndjson>
//	    code -> spec: builds REAL beacon states (phase0 .. deneb views, small data-driven presets), either
//	    freshly mutated registries or chains advanced with common.ProcessSlots through epoch transitions,
//	    the altair upgrade and sync-committee period boundaries, and logs per state the registry projection,
//	    the randao mixes, the answers of the real EpochsContext (fresh NewEpochsContext and, on chains, the
//	    running one) and the SHA-256 digests of the specification's pre-images (crypto/sha256, independent
//	    of zrnt's hashing package).  spec/CommitteesTrace.tla recomputes every answer.
//
//	committees replay <cases.ndjson> <results.json>
//	    spec -> code: every case was produced by TLC (MC_Committees.tla): preset, registry, mixes, a hash
//	    oracle chosen by TLC (pivots, coins, sampling bytes at the acceptance boundary) and the answers the
//	    specification prescribes.  The oracle is installed as THE hash function of the process and the real
//	    NewEpochsContext / ComputeProposers / ComputeSyncCommitteeIndices run on a real state.
package main

import (
	"bufio"
	"context"
	"crypto/sha256"
	"encoding/binary"
	"encoding/json"
	"fmt"
	"math/rand"
	"os"
	"sort"
	"strings"

	blsu "github.com/protolambda/bls12-381-util"
	"github.com/protolambda/zrnt/eth2/beacon"
	"github.com/protolambda/zrnt/eth2/beacon/altair"
	"github.com/protolambda/zrnt/eth2/beacon/bellatrix"
	"github.com/protolambda/zrnt/eth2/beacon/capella"
	"github.com/protolambda/zrnt/eth2/beacon/common"
	"github.com/protolambda/zrnt/eth2/beacon/deneb"
	"github.com/protolambda/zrnt/eth2/beacon/phase0"
	"github.com/protolambda/zrnt/eth2/configs"
	"github.com/protolambda/zrnt/eth2/util/hashing"
	"github.com/protolambda/ztyp/view"
	"verif/harness/chain"
)

const farFuture = 1000000 // JSON / TLA+ image of FAR_FUTURE_EPOCH

// Preset: the constants the specification module looks at (field names = spec names) plus harness-only ones.
type Preset struct {
	SLOTS_PER_EPOCH                  uint64
	MAX_COMMITTEES_PER_SLOT          uint64
	TARGET_COMMITTEE_SIZE            uint64
	SHUFFLE_ROUND_COUNT              uint64
	MAX_EFFECTIVE_BALANCE            uint64
	SYNC_COMMITTEE_SIZE              uint64
	EPOCHS_PER_HISTORICAL_VECTOR     uint64
	MIN_SEED_LOOKAHEAD               uint64
	EPOCHS_PER_SYNC_COMMITTEE_PERIOD uint64
	// harness only
	MAX_SEED_LOOKAHEAD          uint64 `json:"MAX_SEED_LOOKAHEAD,omitempty"`
	EFFECTIVE_BALANCE_INCREMENT uint64 `json:"EFFECTIVE_BALANCE_INCREMENT,omitempty"`
}

const never = ^uint64(0)

func makeSpec(p Preset, altairEpoch, bellatrixEpoch, capellaEpoch, denebEpoch uint64) *common.Spec {
	s := *configs.Minimal // struct copy; every field is a value
	s.SLOTS_PER_EPOCH = common.Slot(p.SLOTS_PER_EPOCH)
	s.MAX_COMMITTEES_PER_SLOT = view.Uint64View(p.MAX_COMMITTEES_PER_SLOT)
	s.TARGET_COMMITTEE_SIZE = view.Uint64View(p.TARGET_COMMITTEE_SIZE)
	s.MAX_VALIDATORS_PER_COMMITTEE = 2048
	s.SHUFFLE_ROUND_COUNT = view.Uint8View(p.SHUFFLE_ROUND_COUNT)
	s.MAX_EFFECTIVE_BALANCE = common.Gwei(p.MAX_EFFECTIVE_BALANCE)
	incr := p.EFFECTIVE_BALANCE_INCREMENT
	if incr == 0 {
		incr = p.MAX_EFFECTIVE_BALANCE / 32
	}
	s.EFFECTIVE_BALANCE_INCREMENT = common.Gwei(incr)
	s.MIN_DEPOSIT_AMOUNT = common.Gwei(incr)
	s.EJECTION_BALANCE = common.Gwei(p.MAX_EFFECTIVE_BALANCE / 4)
	s.SYNC_COMMITTEE_SIZE = view.Uint64View(p.SYNC_COMMITTEE_SIZE)
	s.EPOCHS_PER_HISTORICAL_VECTOR = common.Epoch(p.EPOCHS_PER_HISTORICAL_VECTOR)
	s.MIN_SEED_LOOKAHEAD = common.Epoch(p.MIN_SEED_LOOKAHEAD)
	msl := p.MAX_SEED_LOOKAHEAD
	if msl == 0 {
		msl = p.MIN_SEED_LOOKAHEAD + 1
	}
	s.MAX_SEED_LOOKAHEAD = common.Epoch(msl)
	s.EPOCHS_PER_SYNC_COMMITTEE_PERIOD = common.Epoch(p.EPOCHS_PER_SYNC_COMMITTEE_PERIOD)
	s.SLOTS_PER_HISTORICAL_ROOT = common.Slot(2 * p.SLOTS_PER_EPOCH)
	s.EPOCHS_PER_SLASHINGS_VECTOR = 4
	s.EPOCHS_PER_ETH1_VOTING_PERIOD = 2
	s.MIN_EPOCHS_TO_INACTIVITY_PENALTY = 2
	s.MIN_GENESIS_ACTIVE_VALIDATOR_COUNT = 1
	s.MIN_GENESIS_TIME = 1000
	s.GENESIS_DELAY = 7
	s.SHARD_COMMITTEE_PERIOD = 2
	s.MIN_VALIDATOR_WITHDRAWABILITY_DELAY = 2
	s.INACTIVITY_PENALTY_QUOTIENT = 64
	s.INACTIVITY_PENALTY_QUOTIENT_ALTAIR = 48
	s.INACTIVITY_PENALTY_QUOTIENT_BELLATRIX = 32
	s.CHURN_LIMIT_QUOTIENT = 8
	s.MIN_PER_EPOCH_CHURN_LIMIT = 2
	s.MAX_PER_EPOCH_ACTIVATION_CHURN_LIMIT = 3
	s.MAX_WITHDRAWALS_PER_PAYLOAD = 2
	s.MAX_VALIDATORS_PER_WITHDRAWALS_SWEEP = 5
	s.ALTAIR_FORK_EPOCH = common.Epoch(altairEpoch)
	s.BELLATRIX_FORK_EPOCH = common.Epoch(bellatrixEpoch)
	s.CAPELLA_FORK_EPOCH = common.Epoch(capellaEpoch)
	s.DENEB_FORK_EPOCH = common.Epoch(denebEpoch)
	s.ELECTRA_FORK_EPOCH = common.Epoch(never)
	s.FULU_FORK_EPOCH = common.Epoch(never)
	return &s
}

// ---------------------------------------------------------------- keys

var pubCache = map[int]common.BLSPubkey{}

func pubkey(i int) common.BLSPubkey {
	if p, ok := pubCache[i]; ok {
		return p
	}
	var skb [32]byte
	binary.BigEndian.PutUint64(skb[24:], uint64(i+1))
	var sk blsu.SecretKey
	if err := sk.Deserialize(&skb); err != nil {
		panic(err)
	}
	pk, err := blsu.SkToPk(&sk)
	if err != nil {
		panic(err)
	}
	p := common.BLSPubkey(pk.Serialize())
	pubCache[i] = p
	return p
}

// ---------------------------------------------------------------- state construction

func genesis(spec *common.Spec, n int, rng *rand.Rand) (*phase0.BeaconStateView, error) {
	vals := make([]phase0.KickstartValidatorData, n)
	for i := range vals {
		vals[i] = phase0.KickstartValidatorData{Pubkey: pubkey(i), Balance: spec.MAX_EFFECTIVE_BALANCE}
		vals[i].WithdrawalCredentials[0] = 0
		vals[i].WithdrawalCredentials[31] = byte(i)
	}
	var h common.Root
	rng.Read(h[:])
	st, _, err := phase0.KickStartState(spec, h, 2000, vals)
	return st, err
}

type valSpec struct {
	Act, Exit, Eff uint64
	Slashed        bool
}

// randomRegistry draws activation / exit epochs around `cur` and effective balances so that every class the
// property talks about occurs: not yet active, active, exiting next epoch, exited, slashed, zero / low / boundary /
// full effective balance -- while the previous, current and next epoch keep at least one active validator and a
// majority of validators keeps a high balance (bounds the number of sampling rounds, cf. the oracle table size).
func randomRegistry(p Preset, n int, cur uint64, rng *rand.Rand) []valSpec {
	incr := p.EFFECTIVE_BALANCE_INCREMENT
	if incr == 0 {
		incr = p.MAX_EFFECTIVE_BALANCE / 32
	}
	steps := p.MAX_EFFECTIVE_BALANCE / incr
	out := make([]valSpec, n)
	style := rng.Intn(4) // 0: everything active & full, 1: mostly active, 2/3: mixed
	for i := range out {
		v := &out[i]
		v.Act, v.Exit, v.Eff = 0, never, p.MAX_EFFECTIVE_BALANCE
		if style == 0 {
			continue
		}
		pMix := []int{0, 15, 40, 60}[style]
		if rng.Intn(100) < pMix {
			switch rng.Intn(8) {
			case 0: // not yet active, becomes active next epoch
				v.Act = cur + 1
			case 1: // becomes active in two epochs / far future
				if rng.Intn(2) == 0 {
					v.Act = cur + 2
				} else {
					v.Act = never
				}
			case 2: // became active this epoch
				v.Act = cur
			case 3: // exits at the next epoch (active now, not in next)
				v.Exit = cur + 1
			case 4: // exited this epoch (active in previous only)
				v.Exit = cur
			case 5: // exited long ago
				if cur > 0 {
					v.Exit = uint64(rng.Intn(int(cur)))
				} else {
					v.Exit = cur + 2
				}
			case 6: // exits later
				v.Exit = cur + 2 + uint64(rng.Intn(3))
			case 7: // active for exactly the current epoch
				v.Act, v.Exit = cur, cur+1
			}
			if v.Exit != never && rng.Intn(2) == 0 {
				v.Slashed = true
			}
		}
		if rng.Intn(100) < []int{0, 20, 35, 40}[style] {
			switch rng.Intn(5) {
			case 0:
				v.Eff = 0
			case 1:
				v.Eff = incr
			case 2:
				v.Eff = incr * uint64(rng.Intn(int(steps)+1))
			case 3:
				v.Eff = p.MAX_EFFECTIVE_BALANCE - incr
			case 4:
				v.Eff = p.MAX_EFFECTIVE_BALANCE / 2
			}
		}
	}
	// guarantee: for each of prev / cur / next at least two (if n >= 2) active validators with a full balance
	prev := cur
	if cur > 0 {
		prev = cur - 1
	}
	k := 2
	if n < 2 {
		k = 1
	}
	for _, i := range rng.Perm(n)[:k] {
		out[i] = valSpec{Act: 0, Exit: never, Eff: p.MAX_EFFECTIVE_BALANCE}
		if prev > 0 && rng.Intn(2) == 0 {
			out[i].Act = uint64(rng.Intn(int(prev) + 1))
		}
	}
	return out
}

func applyRegistry(spec *common.Spec, st common.BeaconState, reg []valSpec) error {
	vals, err := st.Validators()
	if err != nil {
		return err
	}
	bals := make([]common.Gwei, len(reg))
	for i, r := range reg {
		v, err := vals.Validator(common.ValidatorIndex(i))
		if err != nil {
			return err
		}
		if err := v.SetActivationEligibilityEpoch(0); err != nil {
			return err
		}
		if err := v.SetActivationEpoch(common.Epoch(r.Act)); err != nil {
			return err
		}
		if err := v.SetExitEpoch(common.Epoch(r.Exit)); err != nil {
			return err
		}
		w := r.Exit
		if w != never {
			w += uint64(spec.MIN_VALIDATOR_WITHDRAWABILITY_DELAY)
		}
		if err := v.SetWithdrawableEpoch(common.Epoch(w)); err != nil {
			return err
		}
		if err := v.SetEffectiveBalance(common.Gwei(r.Eff)); err != nil {
			return err
		}
		if r.Slashed {
			if err := v.MakeSlashed(); err != nil {
				return err
			}
		}
		bals[i] = common.Gwei(r.Eff)
	}
	return st.SetBalances(bals)
}

func randomMixes(spec *common.Spec, st common.BeaconState, rng *rand.Rand) error {
	mixes, err := st.RandaoMixes()
	if err != nil {
		return err
	}
	for e := uint64(0); e < uint64(spec.EPOCHS_PER_HISTORICAL_VECTOR); e++ {
		var m common.Root
		rng.Read(m[:])
		if err := mixes.SetRandomMix(common.Epoch(e), m); err != nil {
			return err
		}
	}
	return nil
}

// ---------------------------------------------------------------- events

type pair [2][]int

type answers struct {
	Src       string      `json:"src"` // "fresh" (NewEpochsContext) or "running" (epc carried through ProcessSlots)
	Counts    []int       `json:"counts"`
	Comms     [][][][]int `json:"comms"`     // epoch(prev,cur,next) x slot x committee x member
	Proposers []int       `json:"proposers"` // per slot of the current epoch
	SyncCur   []int       `json:"sync_cur"`  // epc.CurrentSyncCommittee.Indices ([] before altair)
	SyncNext  []int       `json:"sync_next"`
	HasSync   bool        `json:"has_sync"`
	Err       string      `json:"err,omitempty"`
}

type event struct {
	Ev       string    `json:"ev"`
	Chain    int       `json:"chain"`
	Kind     string    `json:"kind"`
	Fork     string    `json:"fork"`
	P        Preset    `json:"P"`
	Slot     int       `json:"slot"`
	Vals     [][]int   `json:"vals"` // [activation, exit, effective balance, slashed]
	Mixes    [][]int   `json:"mixes"`
	H        []pair    `json:"H"`
	Epcs     []answers `json:"epcs"`
	HasSync  bool      `json:"has_sync"`
	Boundary string    `json:"boundary"` // "upgrade" | "rotate" | "" : stored sync committees were produced right now
	NewChain bool      `json:"new_chain"`
	StoreCur []int     `json:"state_sync_cur"`  // state's current_sync_committee pubkeys as validator indices
	StoreNxt []int     `json:"state_sync_next"` //
	Direct   []int     `json:"sync_direct"`     // ComputeSyncCommitteeIndices(spec, state, cur+1, active(cur+1))
	DirectE  string    `json:"sync_direct_err,omitempty"`
	// aggregate public keys (48 bytes as ints; [] when absent): of the state's stored committees and of
	// IndicesToSyncCommittee(sync_direct) -- the committee get_next_sync_committee(state) returns
	StoreCurAgg []int `json:"state_sync_cur_agg"`
	StoreNxtAgg []int `json:"state_sync_next_agg"`
	DirectAgg   []int `json:"sync_direct_agg"`
	// BLS oracle: eth_aggregate_pubkeys over a list of seats is a function of the BAG of seat holders; entries
	// <<sorted seat list with repetitions, aggregate>> computed by the harness with blsu.AggregatePubkeys from the
	// registry's pubkeys (one entry per seat list that occurs in this event)
	AggOracle [][2][]int        `json:"agg_oracle"`
	Note      map[string]string `json:"note,omitempty"`
}

func ints(bs []byte) []int {
	out := make([]int, len(bs))
	for i, b := range bs {
		out[i] = int(b)
	}
	return out
}

func idxInts(xs []common.ValidatorIndex) []int {
	out := make([]int, len(xs))
	for i, x := range xs {
		out[i] = int(x)
	}
	return out
}

func ep(e common.Epoch) int {
	if uint64(e) > 1<<30 {
		return farFuture
	}
	return int(e)
}

type oracleBuilder struct {
	seen      map[string]bool
	out       []pair
	maxBlocks uint64 // largest number of sampling blocks any selection of this state reads
}

func (o *oracleBuilder) sha(pre []byte) [32]byte {
	d := sha256.Sum256(pre)
	if !o.seen[string(pre)] {
		o.seen[string(pre)] = true
		o.out = append(o.out, pair{ints(pre), ints(d[:])})
	}
	return d
}

func cat(parts ...[]byte) []byte {
	var out []byte
	for _, p := range parts {
		out = append(out, p...)
	}
	return out
}

func u64(v uint64) []byte {
	var b [8]byte
	binary.LittleEndian.PutUint64(b[:], v)
	return b[:]
}

func u32(v uint32) []byte {
	var b [4]byte
	binary.LittleEndian.PutUint32(b[:], v)
	return b[:]
}

// shuffleEntries adds the digests compute_shuffled_index may ask for under `seed` for lists of up to nMax entries.
func (o *oracleBuilder) shuffleEntries(seed [32]byte, rounds uint64, nMax int) {
	for r := uint64(0); r < rounds; r++ {
		o.sha(cat(seed[:], []byte{byte(r)}))
		for w := 0; w < (nMax+255)/256; w++ {
			o.sha(cat(seed[:], []byte{byte(r)}, u32(uint32(w))))
		}
	}
}

// ---- table sizing ----------------------------------------------------------------------------------------
// How many sampling blocks hash(seed + uint_to_bytes(block)) the specification's candidate loop will read is
// only known by running that loop.  The harness runs a plain re-statement of it with crypto/sha256 for ONE purpose:
// deciding how many blocks to put into the oracle table (plus one block of slack).  It decides nothing else: if it
// were wrong the table would be too small and TLC would stop with a missing pre-image (infrastructure error, exit 2),
// or too large (harmless).  The verdict comes from Committees.tla alone.
const maxBlocks = 2000
const degenerateBlocks = 12

func sizingShuffled(index, n uint64, seed [32]byte, rounds uint64) uint64 {
	for r := uint64(0); r < rounds; r++ {
		h := sha256.Sum256(cat(seed[:], []byte{byte(r)}))
		pivot := binary.LittleEndian.Uint64(h[:8]) % n
		flip := (pivot + n - index) % n
		pos := index
		if flip > pos {
			pos = flip
		}
		src := sha256.Sum256(cat(seed[:], []byte{byte(r)}, u32(uint32(pos/256))))
		if (src[(pos%256)/8]>>(pos%8))&1 == 1 {
			index = flip
		}
	}
	return index
}

func activeAt(vals [][]int, e uint64) []int {
	out := []int{}
	for i, v := range vals {
		if uint64(v[0]) <= e && e < uint64(v[1]) {
			out = append(out, i)
		}
	}
	return out
}

func (o *oracleBuilder) samplingBlocks(seed [32]byte, p Preset, vals [][]int, e uint64, need uint64) {
	active := activeAt(vals, e)
	blocks := uint64(1)
	if len(active) > 0 {
		got := uint64(0)
		for i := uint64(0); got < need && i < maxBlocks*32; i++ {
			cand := active[sizingShuffled(i%uint64(len(active)), uint64(len(active)), seed, p.SHUFFLE_ROUND_COUNT)]
			d := sha256.Sum256(cat(seed[:], u64(i/32)))
			if uint64(vals[cand][2])*255 >= p.MAX_EFFECTIVE_BALANCE*uint64(d[i%32]) {
				got++
			}
			blocks = i/32 + 1
		}
	}
	if blocks > o.maxBlocks {
		o.maxBlocks = blocks
	}
	for b := uint64(0); b < blocks+1; b++ {
		o.sha(cat(seed[:], u64(b)))
	}
}

// buildOracle: crypto/sha256 of every pre-image the specification hashes for this state.
func buildOracle(p Preset, slot uint64, mixes [][32]byte, vals [][]int) ([]pair, uint64) {
	nVals := len(vals)
	o := &oracleBuilder{seen: map[string]bool{}}
	cur := slot / p.SLOTS_PER_EPOCH
	prev := cur
	if cur > 0 {
		prev = cur - 1
	}
	seed := func(e uint64, domain byte) [32]byte {
		m := mixes[(e+p.EPOCHS_PER_HISTORICAL_VECTOR-p.MIN_SEED_LOOKAHEAD-1)%p.EPOCHS_PER_HISTORICAL_VECTOR]
		return o.sha(cat([]byte{domain, 0, 0, 0}, u64(e), m[:]))
	}
	for _, e := range []uint64{prev, cur, cur + 1} {
		o.shuffleEntries(seed(e, 1), p.SHUFFLE_ROUND_COUNT, nVals)
	}
	ps := seed(cur, 0)
	for s := cur * p.SLOTS_PER_EPOCH; s < (cur+1)*p.SLOTS_PER_EPOCH; s++ {
		ss := o.sha(cat(ps[:], u64(s)))
		o.shuffleEntries(ss, p.SHUFFLE_ROUND_COUNT, nVals)
		o.samplingBlocks(ss, p, vals, cur, 1)
	}
	for _, e := range []uint64{cur, cur + 1} {
		ys := seed(e, 7)
		o.shuffleEntries(ys, p.SHUFFLE_ROUND_COUNT, nVals)
		o.samplingBlocks(ys, p, vals, e, p.SYNC_COMMITTEE_SIZE)
	}
	return o.out, o.maxBlocks
}

func guarded(f func() error) (err error) {
	defer func() {
		if r := recover(); r != nil {
			err = fmt.Errorf("panic: %v", r)
		}
	}()
	return f()
}

func epcAnswers(spec *common.Spec, epc *common.EpochsContext, slot uint64, src string) answers {
	a := answers{Src: src, Counts: []int{}, Comms: [][][][]int{}, Proposers: []int{}, SyncCur: []int{}, SyncNext: []int{}}
	err := guarded(func() error {
		spe := uint64(spec.SLOTS_PER_EPOCH)
		cur := slot / spe
		prev := cur
		if cur > 0 {
			prev = cur - 1
		}
		for _, e := range []uint64{prev, cur, cur + 1} {
			cnt, err := epc.GetCommitteeCountPerSlot(common.Epoch(e))
			if err != nil {
				return err
			}
			a.Counts = append(a.Counts, int(cnt))
			ecs := [][][]int{}
			for s := e * spe; s < (e+1)*spe; s++ {
				scs := [][]int{}
				for c := uint64(0); c < cnt; c++ {
					com, err := epc.GetBeaconCommittee(common.Slot(s), common.CommitteeIndex(c))
					if err != nil {
						return err
					}
					scs = append(scs, idxInts(com))
				}
				// one past the count must not exist
				if _, err := epc.GetBeaconCommittee(common.Slot(s), common.CommitteeIndex(cnt)); err == nil {
					return fmt.Errorf("GetBeaconCommittee(slot %d, index %d) succeeded beyond the committee count %d", s, cnt, cnt)
				}
				ecs = append(ecs, scs)
			}
			a.Comms = append(a.Comms, ecs)
		}
		for s := cur * spe; s < (cur+1)*spe; s++ {
			pr, err := epc.GetBeaconProposer(common.Slot(s))
			if err != nil {
				return err
			}
			a.Proposers = append(a.Proposers, int(pr))
		}
		if epc.CurrentSyncCommittee != nil && epc.NextSyncCommittee != nil {
			a.HasSync = true
			a.SyncCur = idxInts(epc.CurrentSyncCommittee.Indices)
			a.SyncNext = idxInts(epc.NextSyncCommittee.Indices)
		}
		return nil
	})
	if err != nil {
		a.Err = err.Error()
	}
	return a
}

func forkName(st common.BeaconState) string {
	switch st.(type) {
	case *phase0.BeaconStateView:
		return "phase0"
	case *altair.BeaconStateView:
		return "altair"
	case *bellatrix.BeaconStateView:
		return "bellatrix"
	case *capella.BeaconStateView:
		return "capella"
	case *deneb.BeaconStateView:
		return "deneb"
	}
	return fmt.Sprintf("%T", st)
}

func unwrap(st common.BeaconState) common.BeaconState {
	if u, ok := st.(*beacon.StandardUpgradeableBeaconState); ok {
		return u.BeaconState
	}
	return st
}

func projectState(spec *common.Spec, p Preset, st common.BeaconState) (ev event, mixesRaw [][32]byte, err error) {
	st = unwrap(st)
	ev.Ev = "State"
	ev.P = p
	ev.Fork = forkName(st)
	slot, err := st.Slot()
	if err != nil {
		return ev, nil, err
	}
	ev.Slot = int(slot)
	vals, err := st.Validators()
	if err != nil {
		return ev, nil, err
	}
	n, err := vals.ValidatorCount()
	if err != nil {
		return ev, nil, err
	}
	pubToIdx := map[common.BLSPubkey]int{}
	for i := uint64(0); i < n; i++ {
		v, err := vals.Validator(common.ValidatorIndex(i))
		if err != nil {
			return ev, nil, err
		}
		a, _ := v.ActivationEpoch()
		x, _ := v.ExitEpoch()
		eff, _ := v.EffectiveBalance()
		sl, _ := v.Slashed()
		pk, _ := v.Pubkey()
		pubToIdx[pk] = int(i)
		s := 0
		if sl {
			s = 1
		}
		ev.Vals = append(ev.Vals, []int{ep(a), ep(x), int(eff), s})
	}
	mixes, err := st.RandaoMixes()
	if err != nil {
		return ev, nil, err
	}
	for e := uint64(0); e < uint64(spec.EPOCHS_PER_HISTORICAL_VECTOR); e++ {
		m, err := mixes.GetRandomMix(common.Epoch(e))
		if err != nil {
			return ev, nil, err
		}
		mixesRaw = append(mixesRaw, m)
		ev.Mixes = append(ev.Mixes, ints(m[:]))
	}
	ev.StoreCur, ev.StoreNxt, ev.Direct = []int{}, []int{}, []int{}
	ev.StoreCurAgg, ev.StoreNxtAgg, ev.DirectAgg, ev.AggOracle = []int{}, []int{}, []int{}, [][2][]int{}
	if ss, ok := st.(common.SyncCommitteeBeaconState); ok {
		ev.HasSync = true
		for k, get := range []func() (*common.SyncCommitteeView, error){ss.CurrentSyncCommittee, ss.NextSyncCommittee} {
			scv, err := get()
			if err != nil {
				return ev, nil, err
			}
			pv, err := scv.Pubkeys()
			if err != nil {
				return ev, nil, err
			}
			pubs, err := pv.Flatten()
			if err != nil {
				return ev, nil, err
			}
			idxs := []int{}
			for _, pk := range pubs {
				i, ok := pubToIdx[pk]
				if !ok {
					i = -1
				}
				idxs = append(idxs, i)
			}
			agg, err := scv.AggregatePubkey()
			if err != nil {
				return ev, nil, err
			}
			if k == 0 {
				ev.StoreCur, ev.StoreCurAgg = idxs, ints(agg[:])
			} else {
				ev.StoreNxt, ev.StoreNxtAgg = idxs, ints(agg[:])
			}
		}
	}
	return ev, mixesRaw, nil
}

// directSync: zrnt's ComputeSyncCommitteeIndices(spec, state, current+1, active(current+1)) -- the function the
// specification calls get_next_sync_committee_indices(state).
func directSync(spec *common.Spec, st common.BeaconState, ev *event) {
	st = unwrap(st)
	err := guarded(func() error {
		vals, err := st.Validators()
		if err != nil {
			return err
		}
		bounded, err := common.LoadBoundedIndices(vals)
		if err != nil {
			return err
		}
		next := common.Epoch(uint64(ev.Slot)/uint64(spec.SLOTS_PER_EPOCH) + 1)
		active := common.ActiveIndices(bounded, next)
		out, err := common.ComputeSyncCommitteeIndices(spec, st, next, active)
		if err != nil {
			return err
		}
		ev.Direct = idxInts(out)
		pc, err := common.NewPubkeyCache(vals)
		if err != nil {
			return err
		}
		sc, err := common.IndicesToSyncCommittee(out, pc)
		if err != nil {
			return err
		}
		ev.DirectAgg = ints(sc.AggregatePubkey[:])
		return nil
	})
	if err != nil {
		ev.DirectE = err.Error()
	}
}

// aggOracle: the BLS oracle entries for the seat lists of this event: aggregate (blsu.AggregatePubkeys, repetitions
// included, keys read from the state's registry) keyed by the sorted seat list.
func aggOracle(st common.BeaconState, seatLists ...[]int) ([][2][]int, error) {
	st = unwrap(st)
	vals, err := st.Validators()
	if err != nil {
		return nil, err
	}
	out := [][2][]int{}
	seen := map[string]bool{}
	for _, seats := range seatLists {
		if len(seats) == 0 {
			continue
		}
		bag := append([]int{}, seats...)
		sort.Ints(bag)
		key := fmt.Sprint(bag)
		if seen[key] || bag[0] < 0 {
			continue
		}
		seen[key] = true
		pubs := make([]*blsu.Pubkey, 0, len(bag))
		for _, i := range bag {
			v, err := vals.Validator(common.ValidatorIndex(i))
			if err != nil {
				return nil, err
			}
			pk, err := v.Pubkey()
			if err != nil {
				return nil, err
			}
			var bp blsu.Pubkey
			raw := [48]byte(pk)
			if err := bp.Deserialize(&raw); err != nil {
				return nil, err
			}
			pubs = append(pubs, &bp)
		}
		agg, err := blsu.AggregatePubkeys(pubs)
		if err != nil {
			return nil, err
		}
		ser := agg.Serialize()
		out = append(out, [2][]int{bag, ints(ser[:])})
	}
	return out, nil
}

func recordState(spec *common.Spec, p Preset, st common.BeaconState, running *common.EpochsContext, chain int, kind, boundary string, newChain bool) (event, error) {
	ev, mixesRaw, err := projectState(spec, p, st)
	if err != nil {
		return ev, err
	}
	ev.Chain, ev.Kind, ev.Boundary, ev.NewChain = chain, kind, boundary, newChain
	var blocks uint64
	ev.H, blocks = buildOracle(p, uint64(ev.Slot), mixesRaw, ev.Vals)
	if blocks > degenerateBlocks {
		// (nearly) every active validator has a (nearly) zero balance: the specification's sampling loops run for
		// thousands of candidates, which TLC evaluates as equally deep recursion.  Such inputs are not recorded.
		return event{Ev: "Skipped", Chain: chain, Kind: kind, Slot: ev.Slot, Fork: ev.Fork, P: p, Vals: ev.Vals}, nil
	}
	var fresh *common.EpochsContext
	ferr := guarded(func() error {
		var err error
		fresh, err = common.NewEpochsContext(spec, unwrap(st))
		return err
	})
	if ferr != nil {
		ev.Epcs = append(ev.Epcs, answers{Src: "fresh", Err: ferr.Error(), Counts: []int{}, Comms: [][][][]int{}, Proposers: []int{}, SyncCur: []int{}, SyncNext: []int{}})
	} else {
		ev.Epcs = append(ev.Epcs, epcAnswers(spec, fresh, uint64(ev.Slot), "fresh"))
		// outside property C07 (observation only, never part of a verdict): a query for an epoch the context does
		// not cover should be an error, not a crash
		oerr := guarded(func() error {
			_, err := fresh.GetCommitteeCountPerSlot(common.Epoch(uint64(ev.Slot)/uint64(spec.SLOTS_PER_EPOCH) + 2))
			return err
		})
		if oerr != nil {
			ev.Note = map[string]string{"count_for_uncovered_epoch": oerr.Error()}
		}
	}
	if running != nil {
		ev.Epcs = append(ev.Epcs, epcAnswers(spec, running, uint64(ev.Slot), "running"))
	}
	directSync(spec, st, &ev)
	if ev.AggOracle, err = aggOracle(st, ev.StoreCur, ev.StoreNxt, ev.Direct); err != nil {
		return ev, err
	}
	return ev, nil
}

// ---------------------------------------------------------------- plans

type planItem struct {
	Kind     string    `json:"kind"` // "mutated" | "chain"
	Chain    int       `json:"chain"`
	P        Preset    `json:"P"`
	NVals    int       `json:"nvals"`
	Fork     string    `json:"fork"`     // mutated: fork of the state view ("phase0".."deneb")
	Epoch    uint64    `json:"epoch"`    // mutated: current epoch of the state
	SlotOff  uint64    `json:"slot_off"` // mutated: slot within the epoch
	Upgrade  bool      `json:"upgrade"`  // mutated phase0 state at an epoch start: also record UpgradeToAltair(state)
	Altair   int64     `json:"altair"`   // chain: ALTAIR_FORK_EPOCH (-1 never)
	Later    int64     `json:"later"`    // chain: bellatrix/capella/deneb fork epochs start here (-1 never), one per epoch
	Epochs   uint64    `json:"epochs"`   // chain: how many epochs to advance
	Seed     int64     `json:"seed"`
	Registry []valSpec `json:"registry,omitempty"` // explicit registry (replays / TLC cases); else random from Seed
	// kind "blocks": a real, signed, block-carrying history built by harness/chain
	Preset string  `json:"preset"` // S1..S4
	Forks  []int64 `json:"forks"`  // altair, bellatrix, capella, deneb fork epochs (-1 never)
	Corner string  `json:"corner"` // name of a chain.CornerScenarios() history instead of a random scenario
	MidP   float64 `json:"mid_p"`  // probability of recording a state that is not the first of its epoch
}

func toFork(spec *common.Spec, st *phase0.BeaconStateView, fork string) (common.BeaconState, error) {
	if fork == "phase0" || fork == "" {
		return st, nil
	}
	epc, err := common.NewEpochsContext(spec, st)
	if err != nil {
		return nil, err
	}
	a, err := altair.UpgradeToAltair(spec, epc, st)
	if err != nil || fork == "altair" {
		return a, err
	}
	b, err := bellatrix.UpgradeToBellatrix(spec, epc, a)
	if err != nil || fork == "bellatrix" {
		return b, err
	}
	c, err := capella.UpgradeToCapella(spec, epc, b)
	if err != nil || fork == "capella" {
		return c, err
	}
	d, err := deneb.UpgradeToDeneb(spec, epc, c)
	return d, err
}

func runMutated(it planItem, emit func(event) error) error {
	rng := rand.New(rand.NewSource(it.Seed))
	spec := makeSpec(it.P, never, never, never, never)
	g, err := genesis(spec, it.NVals, rng)
	if err != nil {
		return err
	}
	st, err := toFork(spec, g, it.Fork)
	if err != nil {
		return err
	}
	reg := it.Registry
	if reg == nil {
		reg = randomRegistry(it.P, it.NVals, it.Epoch, rng)
	}
	if err := applyRegistry(spec, st, reg); err != nil {
		return err
	}
	if err := randomMixes(spec, st, rng); err != nil {
		return err
	}
	if err := st.SetSlot(common.Slot(it.Epoch*it.P.SLOTS_PER_EPOCH + it.SlotOff)); err != nil {
		return err
	}
	ev, err := recordState(spec, it.P, st, nil, it.Chain, "mutated", "", true)
	if err != nil {
		return err
	}
	if err := emit(ev); err != nil {
		return err
	}
	if pre, ok := st.(*phase0.BeaconStateView); ok && it.Upgrade {
		// the stored sync committees of the upgraded state are produced right here, from this very state
		epc, err := common.NewEpochsContext(spec, pre)
		if err != nil {
			return err
		}
		post, err := altair.UpgradeToAltair(spec, epc, pre)
		if err != nil {
			return err
		}
		ev2, err := recordState(spec, it.P, post, nil, it.Chain, "mutated-upgraded", "upgrade", false)
		if err != nil {
			return err
		}
		return emit(ev2)
	}
	return nil
}

func runChain(it planItem, emit func(event) error) error {
	rng := rand.New(rand.NewSource(it.Seed))
	f := func(v int64) uint64 {
		if v < 0 {
			return never
		}
		return uint64(v)
	}
	bel, cap_, den := uint64(never), uint64(never), uint64(never)
	if it.Later >= 0 {
		bel, cap_, den = uint64(it.Later), uint64(it.Later)+1, uint64(it.Later)+2
	}
	spec := makeSpec(it.P, f(it.Altair), bel, cap_, den)
	g, err := genesis(spec, it.NVals, rng)
	if err != nil {
		return err
	}
	// genesis registry with scheduled activations / exits in the coming epochs and unequal balances
	reg := it.Registry
	if reg == nil {
		reg = randomRegistry(it.P, it.NVals, 1+uint64(rng.Intn(3)), rng)
		for i := range reg { // at genesis nothing may have exited yet in the past
			if reg[i].Exit != never && reg[i].Exit == 0 {
				reg[i].Exit = 1
			}
			reg[i].Slashed = false
		}
		// the chain needs validators that are active from genesis on
		for k, i := range rng.Perm(it.NVals) {
			if k >= 2 {
				break
			}
			reg[i] = valSpec{Act: 0, Exit: never, Eff: it.P.MAX_EFFECTIVE_BALANCE}
		}
	}
	if err := applyRegistry(spec, g, reg); err != nil {
		return err
	}
	// genesis must keep an active validator
	epc, err := common.NewEpochsContext(spec, g)
	if err != nil {
		return fmt.Errorf("chain genesis epc: %v", err)
	}
	var st common.UpgradeableBeaconState = &beacon.StandardUpgradeableBeaconState{BeaconState: g}
	if it.Altair == 0 {
		if err := st.UpgradeMaybe(context.Background(), spec, epc); err != nil {
			return err
		}
	}
	spe := it.P.SLOTS_PER_EPOCH
	first := true
	boundaryAt := func(slot uint64) string {
		if slot%spe != 0 {
			return ""
		}
		e := slot / spe
		if it.Altair >= 0 && e == uint64(it.Altair) {
			return "upgrade"
		}
		if it.Altair >= 0 && e > uint64(it.Altair) && e%it.P.EPOCHS_PER_SYNC_COMMITTEE_PERIOD == 0 {
			return "rotate"
		}
		return ""
	}
	dead := false
	rec := func(slot uint64) error {
		ev, err := recordState(spec, it.P, st, epc, it.Chain, "chain", boundaryAt(slot), first)
		// a state that is not recorded (degenerate balances) breaks the history of the stored sync committees:
		// the next recorded state starts a new history (new_chain) for the trace specification
		first = ev.Ev == "Skipped"
		if err != nil {
			return err
		}
		// a chain whose validators have all exited (ejections, no blocks) by the next epoch is dying: the
		// specification's selections are undefined without an active validator (assert len(indices) > 0,
		// i % 0); such states are not recorded and the chain ends here
		cur := slot / spe
		// (cur+2 as well: the coming epoch transition / upgrade computes the shuffling and sync committee of cur+2)
		if len(activeAt(ev.Vals, cur)) == 0 || len(activeAt(ev.Vals, cur+1)) == 0 ||
			len(activeAt(ev.Vals, cur+2)) == 0 {
			dead = true
			return nil
		}
		return emit(ev)
	}
	if err := rec(0); err != nil {
		return err
	}
	end := it.Epochs * spe
	midPick := uint64(rng.Intn(int(spe)))
	for slot := uint64(1); slot <= end; slot++ {
		if err := common.ProcessSlots(context.Background(), spec, epc, st, common.Slot(slot)); err != nil {
			if strings.Contains(err.Error(), "no active validators") {
				// every validator has exited (ejections on a chain without blocks): the chain is dead, for the
				// specification as well (compute_proposer_index asserts len(indices) > 0); stop recording it
				return nil
			}
			// diagnosis only: the sync-committee update hides its cause, repeat its two steps to learn it
			diag := ""
			if epc.NextEpoch != nil {
				idx, e1 := common.ComputeSyncCommitteeIndices(spec, unwrap(st), epc.NextEpoch.Epoch, epc.NextEpoch.ActiveIndices)
				diag = fmt.Sprintf(" [ComputeSyncCommitteeIndices(epoch %d, %d active): %v", epc.NextEpoch.Epoch, len(epc.NextEpoch.ActiveIndices), e1)
				if e1 == nil {
					_, e2 := common.IndicesToSyncCommittee(idx, epc.ValidatorPubkeyCache)
					diag += fmt.Sprintf("; IndicesToSyncCommittee(%v): %v", idx, e2)
				}
				diag += "]"
			}
			return fmt.Errorf("ProcessSlots(%d): %v%s", slot, err, diag)
		}
		if slot%spe == 0 || slot%spe == midPick {
			if err := rec(slot); err != nil {
				return err
			}
			if dead {
				return nil
			}
		}
	}
	return nil
}

// ---------------------------------------------------------------- block-carrying histories (harness/chain)

func presetOf(spec *common.Spec) Preset {
	return Preset{
		SLOTS_PER_EPOCH: uint64(spec.SLOTS_PER_EPOCH), MAX_COMMITTEES_PER_SLOT: uint64(spec.MAX_COMMITTEES_PER_SLOT),
		TARGET_COMMITTEE_SIZE: uint64(spec.TARGET_COMMITTEE_SIZE), SHUFFLE_ROUND_COUNT: uint64(spec.SHUFFLE_ROUND_COUNT),
		MAX_EFFECTIVE_BALANCE: uint64(spec.MAX_EFFECTIVE_BALANCE), SYNC_COMMITTEE_SIZE: uint64(spec.SYNC_COMMITTEE_SIZE),
		EPOCHS_PER_HISTORICAL_VECTOR: uint64(spec.EPOCHS_PER_HISTORICAL_VECTOR), MIN_SEED_LOOKAHEAD: uint64(spec.MIN_SEED_LOOKAHEAD),
		EPOCHS_PER_SYNC_COMMITTEE_PERIOD: uint64(spec.EPOCHS_PER_SYNC_COMMITTEE_PERIOD),
		MAX_SEED_LOOKAHEAD:               uint64(spec.MAX_SEED_LOOKAHEAD), EFFECTIVE_BALANCE_INCREMENT: uint64(spec.EFFECTIVE_BALANCE_INCREMENT),
	}
}

// blockObserver records states of a chain.Chain after its steps: the first state seen in every epoch (boundary
// "upgrade" / "rotate" when the stored sync committees were produced by the transition into that epoch; they, the
// effective balances, the active sets and the seeds they depend on cannot change inside the epoch) and, with
// probability MidP, later states of the epoch.
type blockObserver struct {
	main      *chain.Chain
	it        planItem
	p         Preset
	rng       *rand.Rand
	emit      func(event) error
	err       error
	dead      bool
	first     bool
	lastEpoch int64
	volExits  map[int]bool
	blocks    int
	ops       map[string]int
}

func (o *blockObserver) boundaryEpoch(e uint64) string {
	alt := uint64(o.main.Spec.ALTAIR_FORK_EPOCH)
	if alt == never {
		return ""
	}
	if e == alt {
		return "upgrade"
	}
	if e > alt && e%o.p.EPOCHS_PER_SYNC_COMMITTEE_PERIOD == 0 {
		return "rotate"
	}
	return ""
}

func (o *blockObserver) record(c *chain.Chain) {
	if c != o.main || o.err != nil || o.dead {
		return
	}
	slot := uint64(c.Slot())
	e := slot / o.p.SLOTS_PER_EPOCH
	boundary := ""
	newChain := o.first
	if int64(e) > o.lastEpoch {
		boundary = o.boundaryEpoch(e)
		for m := o.lastEpoch + 1; m < int64(e); m++ { // an epoch without a recorded state: its rotation was not seen
			if o.boundaryEpoch(uint64(m)) != "" {
				newChain = true
			}
		}
	} else if o.rng.Float64() >= o.it.MidP {
		return
	}
	ev, err := recordState(c.Spec, o.p, c.State, c.Epc, o.it.Chain, "blocks", boundary, newChain)
	if err != nil {
		o.err = err
		return
	}
	o.lastEpoch = int64(e)
	o.first = ev.Ev == "Skipped"
	if len(activeAt(ev.Vals, e)) == 0 || len(activeAt(ev.Vals, e+1)) == 0 || len(activeAt(ev.Vals, e+2)) == 0 {
		o.dead = true
		return
	}
	if ev.Ev == "State" {
		if ev.Note == nil {
			ev.Note = map[string]string{}
		}
		vx := []int{}
		for i := range ev.Vals {
			if o.volExits[i] {
				vx = append(vx, i)
			}
		}
		b, _ := json.Marshal(map[string]interface{}{"preset": o.it.Preset, "corner": o.it.Corner, "vol_exits": vx,
			"ejection_balance": uint64(c.Spec.EJECTION_BALANCE), "blocks": o.blocks, "ops": o.ops})
		ev.Note["history"] = string(b)
	}
	if err := o.emit(ev); err != nil {
		o.err = err
	}
}

func (o *blockObserver) BeforeSlots(c *chain.Chain, to common.Slot) {}
func (o *blockObserver) AfterSlots(c *chain.Chain, to common.Slot, err error) {
	if err == nil {
		o.record(c)
	}
}
func (o *blockObserver) BeforeBlock(c *chain.Chain, env *common.BeaconBlockEnvelope) {}
func (o *blockObserver) AfterBlock(c *chain.Chain, env *common.BeaconBlockEnvelope, err error) {
	if err != nil || c != o.main {
		return
	}
	ops := chain.OpsOf(env.Body)
	for _, x := range *ops.VoluntaryExits {
		o.volExits[int(x.Message.ValidatorIndex)] = true
	}
	o.blocks++
	o.ops["exits"] += len(*ops.VoluntaryExits)
	o.ops["deposits"] += len(*ops.Deposits)
	o.ops["proposer_slashings"] += len(*ops.ProposerSlashings)
	o.ops["attester_slashings"] += len(*ops.AttesterSlashings)
	o.ops["attestations"] += len(*ops.Attestations)
	o.record(c)
}

func runBlocks(it planItem, emit func(event) error) error {
	rng := rand.New(rand.NewSource(it.Seed))
	var c *chain.Chain
	var steps []chain.StepPlan
	var err error
	if it.Corner != "" {
		found := false
		for _, ns := range chain.CornerScenarios() {
			if ns.Name == it.Corner {
				ns := ns
				if c, err = ns.Build(); err != nil {
					return err
				}
				steps, found = ns.Steps, true
			}
		}
		if !found {
			return fmt.Errorf("no corner scenario %q", it.Corner)
		}
	} else {
		f := func(i int) common.Epoch {
			if i >= len(it.Forks) || it.Forks[i] < 0 {
				return chain.FarFuture
			}
			return common.Epoch(it.Forks[i])
		}
		spec := chain.NewSpec(it.Preset, chain.Forks(f(0), f(1), f(2), f(3)))
		n := it.NVals
		if n == 0 {
			n = chain.DefaultValidatorCount(it.Preset)
		}
		// a few genesis validators below the activation balance (they enter through the queue after a top-up or stay
		// out) and a few pending deposits, so that the registry changes for real
		bals := make([]common.Gwei, n)
		for i := range bals {
			bals[i] = spec.MAX_EFFECTIVE_BALANCE
			if i >= 4 && rng.Intn(8) == 0 {
				bals[i] = spec.MAX_EFFECTIVE_BALANCE / 2
			}
		}
		c, err = chain.NewGenesis(spec, chain.GenesisOpts{Validators: n, Balances: bals,
			PendingDeposits: []chain.DepositSpec{{Key: chain.KeyID(n)}, {Key: chain.KeyID(n + 1)}}})
		if err != nil {
			return err
		}
		steps = chain.RandomScenario(rng, spec, chain.ScenarioOpts{Epochs: int(it.Epochs), Validators: n})
	}
	o := &blockObserver{main: c, it: it, p: presetOf(c.Spec), rng: rng, emit: emit, first: true, lastEpoch: -1,
		volExits: map[int]bool{}, ops: map[string]int{}}
	o.record(c) // genesis
	c.Observer = o
	_, err = c.RunScenario(steps)
	if o.err != nil {
		return o.err
	}
	if err != nil {
		return fmt.Errorf("block-carrying chain (%s %s): %v", it.Preset, it.Corner, err)
	}
	return nil
}

func record(planPath, outPath string) error {
	f, err := os.Open(planPath)
	if err != nil {
		return err
	}
	defer f.Close()
	w, err := os.Create(outPath)
	if err != nil {
		return err
	}
	defer w.Close()
	bw := bufio.NewWriterSize(w, 1<<20)
	defer bw.Flush()
	enc := json.NewEncoder(bw)
	emit := func(ev event) error { return enc.Encode(&ev) }
	sc := bufio.NewScanner(f)
	sc.Buffer(make([]byte, 1<<20), 1<<26)
	line := 0
	for sc.Scan() {
		line++
		var it planItem
		if err := json.Unmarshal(sc.Bytes(), &it); err != nil {
			return err
		}
		// zrnt code also runs while the states are built (genesis, upgrades, ProcessSlots): a panic or an error
		// there is recorded as an event of its own (the check reports it; it is never silently dropped)
		err = guarded(func() error {
			switch it.Kind {
			case "mutated":
				return runMutated(it, emit)
			case "chain":
				return runChain(it, emit)
			case "blocks":
				return runBlocks(it, emit)
			default:
				return fmt.Errorf("unknown plan kind %q", it.Kind)
			}
		})
		if err != nil {
			if e2 := emit(event{Ev: "Failed", Chain: it.Chain, Kind: it.Kind, P: it.P,
				Note: map[string]string{"error": err.Error()}}); e2 != nil {
				return e2
			}
		}
	}
	return sc.Err()
}

// ---------------------------------------------------------------- spec -> code replay

type genCase struct {
	Tag       int         `json:"tag"`
	P         Preset      `json:"P"`
	Epoch     uint64      `json:"epoch"`
	Vals      [][]int     `json:"vals"` // [act, exit, eff]
	Mixes     [][]int     `json:"mixes"`
	Table     []pair      `json:"table"`
	Counts    []int       `json:"counts"`
	Comms     [][][][]int `json:"comms"`
	Proposers []int       `json:"proposers"`
	Sync      []int       `json:"sync"`
	Focus     interface{} `json:"focus"`
}

type mismatch struct {
	Line   int         `json:"line"`
	What   string      `json:"what"`
	Detail string      `json:"detail"`
	Got    interface{} `json:"got,omitempty"`
	Want   interface{} `json:"want,omitempty"`
}

type fakeOracle struct {
	table  map[string][32]byte
	misses int
}

func (o *fakeOracle) hash(in []byte) [32]byte {
	if d, ok := o.table[string(in)]; ok {
		return d
	}
	o.misses++
	return sha256.Sum256(in)
}

func bytesOf(xs []int) []byte {
	out := make([]byte, len(xs))
	for i, x := range xs {
		out[i] = byte(x)
	}
	return out
}

func replay(casesPath, resultPath string) error {
	f, err := os.Open(casesPath)
	if err != nil {
		return err
	}
	defer f.Close()
	sc := bufio.NewScanner(f)
	sc.Buffer(make([]byte, 1<<20), 1<<28)
	realHash, realGet := hashing.Hash, hashing.GetHashFn
	mism := []mismatch{}
	cases, misses, line := 0, 0, 0
	for sc.Scan() {
		line++
		var c genCase
		if err := json.Unmarshal(sc.Bytes(), &c); err != nil {
			return fmt.Errorf("line %d: %v", line, err)
		}
		cases++
		add := func(what, detail string, got, want interface{}) {
			mism = append(mism, mismatch{Line: line, What: what, Detail: detail, Got: got, Want: want})
		}
		// real state with the TLC-chosen registry and mixes (built with the real hash function)
		hashing.Hash, hashing.GetHashFn = realHash, realGet
		rng := rand.New(rand.NewSource(int64(c.Tag)))
		spec := makeSpec(c.P, never, never, never, never)
		var st common.BeaconState
		serr := guarded(func() error {
			g, err := genesis(spec, len(c.Vals), rng)
			if err != nil {
				return fmt.Errorf("genesis: %v", err)
			}
			st = g
			if c.Tag%2 == 1 {
				if st, err = toFork(spec, g, "altair"); err != nil {
					return fmt.Errorf("upgrade: %v", err)
				}
			}
			return nil
		})
		if serr != nil {
			add("state construction (KickStartState / UpgradeToAltair)", serr.Error(), nil, nil)
			continue
		}
		reg := make([]valSpec, len(c.Vals))
		for i, v := range c.Vals {
			reg[i] = valSpec{Act: uint64(v[0]), Exit: uint64(v[1]), Eff: uint64(v[2])}
			if v[0] >= farFuture {
				reg[i].Act = never
			}
			if v[1] >= farFuture {
				reg[i].Exit = never
			}
		}
		if err := applyRegistry(spec, st, reg); err != nil {
			return err
		}
		mixes, err := st.RandaoMixes()
		if err != nil {
			return err
		}
		for e, m := range c.Mixes {
			var r common.Root
			copy(r[:], bytesOf(m))
			if err := mixes.SetRandomMix(common.Epoch(e), r); err != nil {
				return err
			}
		}
		if err := st.SetSlot(common.Slot(c.Epoch * c.P.SLOTS_PER_EPOCH)); err != nil {
			return err
		}
		// install the TLC-chosen oracle
		o := &fakeOracle{table: map[string][32]byte{}}
		for _, e := range c.Table {
			var d [32]byte
			copy(d[:], bytesOf(e[1]))
			o.table[string(bytesOf(e[0]))] = d
		}
		hashing.Hash = o.hash
		hashing.GetHashFn = func() hashing.HashFn { return o.hash }
		var a answers
		var direct event
		direct.Slot = int(c.Epoch * c.P.SLOTS_PER_EPOCH)
		perr := guarded(func() error {
			epc, err := common.NewEpochsContext(spec, st)
			if err != nil {
				return err
			}
			a = epcAnswers(spec, epc, uint64(direct.Slot), "fresh")
			directSync(spec, st, &direct)
			return nil
		})
		hashing.Hash, hashing.GetHashFn = realHash, realGet
		misses += o.misses
		if perr != nil {
			add("NewEpochsContext", perr.Error(), nil, nil)
			continue
		}
		if a.Err != "" {
			add("EpochsContext queries", a.Err, nil, nil)
			continue
		}
		if !jsonEq(a.Counts, c.Counts) {
			add("GetCommitteeCountPerSlot", "counts (prev,cur,next) differ from the specification", a.Counts, c.Counts)
		}
		if !jsonEq(a.Comms, c.Comms) {
			add("GetBeaconCommittee", "committees (prev,cur,next) differ from the specification", a.Comms, c.Comms)
		}
		if !jsonEq(a.Proposers, c.Proposers) {
			add("GetBeaconProposer", "proposers of the current epoch differ from the specification", a.Proposers, c.Proposers)
		}
		if direct.DirectE != "" {
			add("ComputeSyncCommitteeIndices", direct.DirectE, nil, c.Sync)
		} else if !jsonEq(direct.Direct, c.Sync) {
			add("ComputeSyncCommitteeIndices", "next sync committee indices differ from the specification", direct.Direct, c.Sync)
		} else if orc, err := aggOracle(st, c.Sync); err != nil {
			return fmt.Errorf("line %d aggregate oracle: %v", line, err)
		} else if len(orc) == 1 && !jsonEq(orc[0][1], direct.DirectAgg) {
			// eth_aggregate_pubkeys over the specification's seat list (repetitions included), computed by the harness
			add("IndicesToSyncCommittee", "aggregate_pubkey is not the aggregate of the seats' keys (with repetitions)", direct.DirectAgg, orc[0][1])
		}
	}
	if err := sc.Err(); err != nil {
		return err
	}
	res := map[string]interface{}{"cases": cases, "oracle_misses": misses, "mismatches": mism}
	if len(mism) > 40 {
		res["mismatches"] = mism[:40]
		res["mismatches_total"] = len(mism)
	}
	out, _ := json.Marshal(res)
	return os.WriteFile(resultPath, out, 0o644)
}

func jsonEq(a, b interface{}) bool {
	x, _ := json.Marshal(a)
	y, _ := json.Marshal(b)
	return string(x) == string(y)
}

func main() {
	if len(os.Args) < 4 {
		fmt.Fprintln(os.Stderr, "usage: committees record <plan.ndjson> <events.ndjson> | committees replay <cases.ndjson> <results.json>")
		os.Exit(2)
	}
	var err error
	switch os.Args[1] {
	case "record":
		err = record(os.Args[2], os.Args[3])
	case "replay":
		err = replay(os.Args[2], os.Args[3])
	default:
		err = fmt.Errorf("unknown sub-command %q", os.Args[1])
	}
	if err != nil {
		fmt.Fprintln(os.Stderr, "committees:", err)
		os.Exit(2)
	}
}
