// Command lockextract derives the lock protocol of zrnt's shared components from the Go sources
// (property C17, DESIGN.md section 5.4 and appendix H).
//
//	lockextract -repo /repo -out <dir>
//
// For every component (a Go type with a mutex, plus CachedPubkey which has none) it enumerates the
// control-flow paths of every method and writes
//
//	<dir>/LockPrograms_<Component>.tla   TLA+ constants for spec/Locks.tla
//	<dir>/lockprograms.json              summary, warnings and the access-site table (file:line -> field)
//
// Instructions are 4-tuples of strings <<op, a, b, target>>:
//
//	<<"Acq", mutex, "W"|"R", tgt>>   <<"Rel", mutex, "W"|"R", tgt>>
//	<<"Rd", field, "", tgt>>         <<"Wr", field, "", tgt>>
//	<<"Call", method, "", tgt>>      tgt in {"self", "parent", "fresh"}
//
// The analysis is syntactic (go/parser + go/ast only; no type checking, so it works on any working
// tree that parses): branches are split, loops are unrolled zero and one time, `defer` runs at return,
// unexported helpers of the receiver are inlined, calls to the component's own exported methods stay
// Call instructions (re-entrant locking shows up in the model), calls through interface-typed fields
// are a read or a write of that field's object according to a table of mutating method names that is
// cross-checked against the bodies of the concrete implementations in eth2/forkchoice/proto.
//
// Handled: named and embedded sync.Mutex / sync.RWMutex (also x.parent.mu of the parent instance); defer of lock
// operations, of function literals and of other calls (run at return, LIFO); if / else, switch, type switch, for
// and range (zero or one iteration, break / continue), return, panic, short-circuit && and ||; plain and compound
// assignments, ++ / --, map and slice element stores, delete / clear / copy / append / len / cap; per-path
// aliases of reference-typed fields and elements (`existing := ap.aggregate[k]`, range values,
// `subsByRoot = sp.prevContribs`); fields of sync/atomic type are skipped; the immutable-after-construction list
// is verified (a listed field that some method writes is modelled as a normal field, with a warning); append on a
// slice of struct VALUES of another component reads the elements' fields (slice growth copies them); element
// handles handed out by a method (PubkeyCache.Pubkey -> *CachedPubkey) give synthetic methods "Pubkey.Pubkey".
// Paths are canonicalised (accesses between two lock operations are a set) and capped at 256 per method.
//
// Known imprecisions (all on the safe side for the verdict: a spurious model counterexample that the real code
// does not reproduce is an InfraError, never a VIOLATION; a missed one is still open to part B):
//   - no type information: aliases through helper parameters / results (`n, err := pr.getNode(i)`) are not
//     followed, and a method call on (part of) a field's value is a READ of the field even if the method has a
//     pointer receiver and mutates;
//   - one abstract location per field (all map entries / slice elements together);
//   - branch conditions are ignored: every combination of branch outcomes is a path;
//   - callbacks passed in by the caller (justifiedStateBalances, the prune sink) are assumed not to touch the
//     component; function literals are analysed as if they ran where they are written;
//   - go statements, channels, sync.Cond, sync.Once, TryLock are not modelled (a warning is emitted);
//   - instances: the receiver, its parent and instances created inside the call; no grandparents.
package main

import (
	"encoding/json"
	"flag"
	"fmt"
	"go/ast"
	"go/parser"
	"go/token"
	"os"
	"path/filepath"
	"sort"
	"strings"
)

// ---------------------------------------------------------------- configuration

type compConf struct {
	Name  string   // component (= Go type) name
	Dir   string   // package directory relative to the repository root
	Files []string // file names (empty: every non-test, non-verif .go file of the directory)
	// fields set only by constructors / composite literals; the extractor verifies that no method writes them
	Immutable []string
	// field holding the parent instance of the same type ("" if none)
	ParentField string
	// fields of interface type: method -> mutates?
	Iface map[string]ifaceConf
	// handed-out element handles: exported method Method returns a pointer into Field whose elements are
	// values of component Elem; users call Elem's methods on it without holding this component's lock.
	Handouts []handout
}

type ifaceConf struct {
	ImplDir  string          // directory of the concrete implementations (for the cross-check)
	Impls    []string        // concrete type names
	Mutating map[string]bool // method name -> true if it can mutate the object
}

type handout struct{ Method, Field, Elem string }

var graphMethods = map[string]bool{
	"ProcessSlot": true, "ProcessBlock": true, "ApplyScoreChanges": true, "OnPrune": true,
	// the queries below refresh the best-child/best-descendant links (updateConnections) before answering
	"FindHead": true, "InSubtree": true, "CanonicalChain": true, "CanonAtSlot": true, "Search": true,
	"ClosestToSlot": false, "GetSlot": false, "Indices": false,
}

var voteMethods = map[string]bool{"ProcessAttestation": true, "ComputeDeltas": true, "HasChanges": false}

var fixedComponents = []compConf{
	{
		Name: "ProtoForkChoice", Dir: "eth2/forkchoice", Files: []string{"forkchoice.go"},
		Immutable: []string{"spec", "protoArray", "voteStore"}, // the interface VALUES never change; the objects behind them do
		Iface: map[string]ifaceConf{
			"protoArray": {ImplDir: "eth2/forkchoice/proto", Impls: []string{"ProtoArray"}, Mutating: graphMethods},
			"voteStore":  {ImplDir: "eth2/forkchoice/proto", Impls: []string{"ProtoVoteStore"}, Mutating: voteMethods},
		},
	},
	{
		Name: "PubkeyCache", Dir: "eth2/beacon/common", Files: []string{"validator_pubkeys.go", "bls.go"},
		Immutable: []string{"parent", "trustedParentCount"}, ParentField: "parent",
		Handouts: []handout{{Method: "Pubkey", Field: "idx2pub", Elem: "CachedPubkey"}},
	},
	{
		Name: "CachedPubkey", Dir: "eth2/beacon/common", Files: []string{"bls.go"},
		Immutable: []string{"Compressed"},
	},
}

const poolDir = "eth2/pool"

// ---------------------------------------------------------------- model

type Ins struct {
	Op, A, B, T string
	Pos         string `json:"-"`
}

func (i Ins) String() string { return i.Op + ":" + i.A + ":" + i.B + ":" + i.T }

type alias struct {
	tgt   string   // self | parent | fresh
	field string   // "" = the object itself
	typ   ast.Expr // type of the aliased value if known
}

const (
	stNormal = iota
	stReturned
	stBreak
	stContinue
)

type pstate struct {
	ins    []Ins
	defers [][]Ins
	env    map[string]alias
	status int
}

func (p *pstate) clone() *pstate {
	q := &pstate{status: p.status}
	q.ins = append([]Ins(nil), p.ins...)
	for _, d := range p.defers {
		q.defers = append(q.defers, append([]Ins(nil), d...))
	}
	q.env = make(map[string]alias, len(p.env))
	for k, v := range p.env {
		q.env[k] = v
	}
	return q
}

func (p *pstate) key() string {
	var sb strings.Builder
	sb.WriteString(fmt.Sprint(p.status))
	for _, i := range p.ins {
		sb.WriteString("|" + i.String())
	}
	sb.WriteString("#")
	for _, d := range p.defers {
		for _, i := range d {
			sb.WriteString("|" + i.String())
		}
		sb.WriteString(";")
	}
	keys := make([]string, 0, len(p.env))
	for k := range p.env {
		keys = append(keys, k)
	}
	sort.Strings(keys)
	for _, k := range keys {
		sb.WriteString("~" + k + "=" + p.env[k].tgt + "." + p.env[k].field)
	}
	return sb.String()
}

type site struct {
	File      string `json:"file"`
	Line      int    `json:"line"`
	Component string `json:"component"`
	Func      string `json:"func"`
	Field     string `json:"field"`
	Kind      string `json:"kind"`
}

type component struct {
	conf      compConf
	fset      *token.FileSet
	structT   *ast.StructType
	fieldType map[string]ast.Expr
	mutexes   map[string]string // field name -> "Mutex" | "RWMutex"
	atomics   map[string]bool
	methods   map[string]*ast.FuncDecl
	typeDecls map[string]ast.Expr // package-level named types
	ignored   map[string]bool     // immutable fields actually ignored
	progs     map[string][][]Ins
	warnings  []string
	sites     []site
	pathCap   int
	truncated map[string]bool
	// writes seen per field (func names), for the immutability check
	writers map[string]map[string]bool
	all     map[string]*component
	curFunc string
}

func (c *component) warn(format string, a ...interface{}) {
	w := fmt.Sprintf(format, a...)
	for _, x := range c.warnings {
		if x == w {
			return
		}
	}
	c.warnings = append(c.warnings, w)
}

// ---------------------------------------------------------------- loading

func isVerifFile(path string) bool {
	b, err := os.ReadFile(path)
	if err != nil {
		return false
	}
	head := string(b)
	if len(head) > 200 {
		head = head[:200]
	}
	return strings.Contains(head, "go:build verif") || strings.HasSuffix(path, "_verif.go")
}

func parseDir(fset *token.FileSet, dir string, only []string) (map[string]*ast.File, error) {
	out := map[string]*ast.File{}
	ents, err := os.ReadDir(dir)
	if err != nil {
		return nil, err
	}
	for _, e := range ents {
		n := e.Name()
		if e.IsDir() || !strings.HasSuffix(n, ".go") || strings.HasSuffix(n, "_test.go") {
			continue
		}
		p := filepath.Join(dir, n)
		if isVerifFile(p) {
			continue
		}
		if len(only) > 0 {
			ok := false
			for _, o := range only {
				if o == n {
					ok = true
				}
			}
			if !ok {
				continue
			}
		}
		f, err := parser.ParseFile(fset, p, nil, parser.ParseComments)
		if err != nil {
			return nil, err
		}
		out[p] = f
	}
	return out, nil
}

func recvTypeName(fd *ast.FuncDecl) string {
	if fd.Recv == nil || len(fd.Recv.List) == 0 {
		return ""
	}
	t := fd.Recv.List[0].Type
	if s, ok := t.(*ast.StarExpr); ok {
		t = s.X
	}
	if ix, ok := t.(*ast.IndexExpr); ok {
		t = ix.X
	}
	if id, ok := t.(*ast.Ident); ok {
		return id.Name
	}
	return ""
}

func recvName(fd *ast.FuncDecl) string {
	if fd.Recv == nil || len(fd.Recv.List) == 0 || len(fd.Recv.List[0].Names) == 0 {
		return "_"
	}
	return fd.Recv.List[0].Names[0].Name
}

func syncKind(t ast.Expr) string {
	if s, ok := t.(*ast.SelectorExpr); ok {
		if id, ok := s.X.(*ast.Ident); ok && id.Name == "sync" {
			if s.Sel.Name == "Mutex" || s.Sel.Name == "RWMutex" {
				return s.Sel.Name
			}
		}
	}
	return ""
}

func isAtomicType(t ast.Expr) bool {
	if ix, ok := t.(*ast.IndexExpr); ok {
		t = ix.X
	}
	if s, ok := t.(*ast.SelectorExpr); ok {
		if id, ok := s.X.(*ast.Ident); ok && id.Name == "atomic" {
			return true
		}
	}
	return false
}

func loadComponent(repo string, conf compConf, files map[string]*ast.File, fset *token.FileSet) (*component, error) {
	c := &component{conf: conf, fset: fset, fieldType: map[string]ast.Expr{}, mutexes: map[string]string{},
		atomics: map[string]bool{}, methods: map[string]*ast.FuncDecl{}, typeDecls: map[string]ast.Expr{},
		ignored: map[string]bool{}, progs: map[string][][]Ins{}, pathCap: 256, truncated: map[string]bool{},
		writers: map[string]map[string]bool{}}
	for _, f := range files {
		for _, d := range f.Decls {
			switch d := d.(type) {
			case *ast.GenDecl:
				for _, s := range d.Specs {
					ts, ok := s.(*ast.TypeSpec)
					if !ok {
						continue
					}
					c.typeDecls[ts.Name.Name] = ts.Type
					if ts.Name.Name == conf.Name {
						if st, ok := ts.Type.(*ast.StructType); ok {
							c.structT = st
						}
					}
				}
			case *ast.FuncDecl:
				if recvTypeName(d) == conf.Name && d.Body != nil {
					c.methods[d.Name.Name] = d
				}
			}
		}
	}
	if c.structT == nil {
		return nil, fmt.Errorf("type %s not found in %s", conf.Name, conf.Dir)
	}
	for _, fl := range c.structT.Fields.List {
		names := []string{}
		for _, n := range fl.Names {
			names = append(names, n.Name)
		}
		if len(names) == 0 { // embedded
			t := fl.Type
			if s, ok := t.(*ast.StarExpr); ok {
				t = s.X
			}
			switch t := t.(type) {
			case *ast.SelectorExpr:
				names = []string{t.Sel.Name}
			case *ast.Ident:
				names = []string{t.Name}
			}
		}
		for _, n := range names {
			c.fieldType[n] = fl.Type
			if k := syncKind(fl.Type); k != "" {
				c.mutexes[n] = k
			} else if isAtomicType(fl.Type) {
				c.atomics[n] = true
			}
		}
	}
	return c, nil
}

// ---------------------------------------------------------------- type helpers

// refKind classifies a type expression: "map", "slice", "ptr", "iface", "func", "struct", "other", "" (unknown)
func (c *component) refKind(t ast.Expr) string {
	for depth := 0; depth < 8 && t != nil; depth++ {
		switch x := t.(type) {
		case *ast.MapType:
			return "map"
		case *ast.ArrayType:
			if x.Len == nil {
				return "slice"
			}
			return "other"
		case *ast.StarExpr:
			return "ptr"
		case *ast.InterfaceType:
			return "iface"
		case *ast.FuncType:
			return "func"
		case *ast.StructType:
			return "struct"
		case *ast.ChanType:
			return "ptr"
		case *ast.ParenExpr:
			t = x.X
		case *ast.Ident:
			if d, ok := c.typeDecls[x.Name]; ok {
				t = d
				continue
			}
			switch x.Name {
			case "bool", "string", "int", "int8", "int16", "int32", "int64", "uint", "uint8", "uint16", "uint32",
				"uint64", "uintptr", "byte", "rune", "float32", "float64":
				return "other"
			case "error", "any":
				return "iface"
			}
			return ""
		case *ast.SelectorExpr:
			return "" // type of another package
		default:
			return ""
		}
	}
	return ""
}

// elemType of a map / slice / array / pointer type (nil if unknown)
func (c *component) elemType(t ast.Expr) ast.Expr {
	for depth := 0; depth < 8 && t != nil; depth++ {
		switch x := t.(type) {
		case *ast.MapType:
			return x.Value
		case *ast.ArrayType:
			return x.Elt
		case *ast.StarExpr:
			return x.X
		case *ast.ParenExpr:
			t = x.X
		case *ast.Ident:
			if d, ok := c.typeDecls[x.Name]; ok {
				t = d
				continue
			}
			return nil
		default:
			return nil
		}
	}
	return nil
}

func isRefKind(k string) bool {
	return k == "map" || k == "slice" || k == "ptr" || k == "iface" || k == ""
}

// ---------------------------------------------------------------- expression analysis

type fctx struct {
	recv   string   // receiver identifier of the function being analysed
	fn     string   // function name (for sites)
	stack  []string // inline stack (method names)
	inCtor bool
}

type ref struct {
	ok    bool
	tgt   string // self | parent | fresh
	field string // "" = the object itself
	mutex bool
	typ   ast.Expr
}

func (c *component) isMethod(name string) bool { _, ok := c.methods[name]; return ok }

// resolve finds out whether e designates (part of) the receiver object, its parent or a fresh instance.
func (c *component) resolve(e ast.Expr, p *pstate, fx *fctx) ref {
	switch x := e.(type) {
	case *ast.Ident:
		if x.Name == fx.recv {
			return ref{ok: true, tgt: "self"}
		}
		if a, ok := p.env[x.Name]; ok {
			return ref{ok: true, tgt: a.tgt, field: a.field, typ: a.typ}
		}
	case *ast.ParenExpr:
		return c.resolve(x.X, p, fx)
	case *ast.StarExpr:
		r := c.resolve(x.X, p, fx)
		if r.ok && r.field != "" {
			r.typ = c.elemType(r.typ)
		}
		return r
	case *ast.UnaryExpr:
		if x.Op == token.AND {
			r := c.resolve(x.X, p, fx)
			if r.ok && r.typ != nil {
				r.typ = &ast.StarExpr{X: r.typ}
			}
			return r
		}
	case *ast.TypeAssertExpr:
		r := c.resolve(x.X, p, fx)
		r.typ = nil
		return r
	case *ast.IndexExpr:
		r := c.resolve(x.X, p, fx)
		if r.ok && r.field != "" {
			r.typ = c.elemType(r.typ)
			return r
		}
	case *ast.SliceExpr:
		return c.resolve(x.X, p, fx)
	case *ast.CallExpr:
		if id, ok := x.Fun.(*ast.Ident); ok && id.Name == "append" && len(x.Args) > 0 {
			return c.resolve(x.Args[0], p, fx)
		}
	case *ast.SelectorExpr:
		r := c.resolve(x.X, p, fx)
		if !r.ok {
			return ref{}
		}
		name := x.Sel.Name
		if r.field == "" {
			if c.conf.ParentField != "" && name == c.conf.ParentField {
				if r.tgt == "self" {
					return ref{ok: true, tgt: "parent"}
				}
				if r.tgt == "fresh" {
					// the parent of an instance created here is (in all anchored code) the receiver itself
					return ref{ok: true, tgt: "self"}
				}
				c.warn("%s: access to the parent of the parent is not modelled", fx.fn)
				return ref{ok: true, tgt: "parent"}
			}
			if _, ok := c.mutexes[name]; ok {
				return ref{ok: true, tgt: r.tgt, field: name, mutex: true}
			}
			if t, ok := c.fieldType[name]; ok {
				return ref{ok: true, tgt: r.tgt, field: name, typ: t}
			}
			return ref{} // method value or unknown
		}
		// below a field: same field, type unknown unless we can follow a struct
		r.typ = nil
		return r
	}
	return ref{}
}

func (c *component) pos(n ast.Node) string {
	p := c.fset.Position(n.Pos())
	return fmt.Sprintf("%s:%d", p.Filename, p.Line)
}

func (c *component) emitAccess(p *pstate, kind string, r ref, n ast.Node, fx *fctx) {
	if !r.ok || r.field == "" || r.mutex {
		return
	}
	if r.tgt == "fresh" {
		return // an instance created in this call is not shared yet
	}
	if c.atomics[r.field] {
		return
	}
	if kind == "Wr" {
		if c.writers[r.field] == nil {
			c.writers[r.field] = map[string]bool{}
		}
		c.writers[r.field][fx.fn] = true
	}
	if c.ignored[r.field] {
		return
	}
	pp := c.fset.Position(n.Pos())
	p.ins = append(p.ins, Ins{Op: kind, A: r.field, T: r.tgt, Pos: fmt.Sprintf("%s:%d", pp.Filename, pp.Line)})
	c.sites = append(c.sites, site{File: pp.Filename, Line: pp.Line, Component: c.conf.Name, Func: fx.fn, Field: r.field, Kind: kind})
}

var lockOps = map[string][2]string{
	"Lock": {"Acq", "W"}, "Unlock": {"Rel", "W"}, "RLock": {"Acq", "R"}, "RUnlock": {"Rel", "R"},
}

// lockCall recognises x.mu.Lock() / x.Lock() (embedded mutex) and returns the instruction.
func (c *component) lockCall(call *ast.CallExpr, p *pstate, fx *fctx) (Ins, bool) {
	sel, ok := call.Fun.(*ast.SelectorExpr)
	if !ok {
		return Ins{}, false
	}
	op, isLock := lockOps[sel.Sel.Name]
	if !isLock {
		if sel.Sel.Name == "TryLock" || sel.Sel.Name == "TryRLock" || sel.Sel.Name == "RLocker" {
			r := c.resolve(sel.X, p, fx)
			if r.ok && (r.mutex || r.field == "") {
				c.warn("%s: %s is not modelled", fx.fn, sel.Sel.Name)
			}
		}
		return Ins{}, false
	}
	r := c.resolve(sel.X, p, fx)
	if !r.ok {
		return Ins{}, false
	}
	mname := ""
	if r.mutex {
		mname = r.field
	} else if r.field == "" {
		// embedded mutex: the method is promoted
		for n := range c.mutexes {
			if n == "Mutex" || n == "RWMutex" {
				mname = n
			}
		}
	}
	if mname == "" {
		return Ins{}, false
	}
	if c.mutexes[mname] == "Mutex" && op[1] == "R" {
		c.warn("%s: RLock on a sync.Mutex field %s", fx.fn, mname)
	}
	return Ins{Op: op[0], A: mname, B: op[1], T: r.tgt, Pos: c.pos(call)}, true
}

// expr computes the effects of evaluating e (as an rvalue) on every path state.
func (c *component) expr(e ast.Expr, ps []*pstate, fx *fctx) []*pstate {
	if e == nil {
		return ps
	}
	switch x := e.(type) {
	case *ast.BasicLit, *ast.Ident:
		// a bare identifier that aliases shared data is a read only when used through selectors/indices
		return ps
	case *ast.ParenExpr:
		return c.expr(x.X, ps, fx)
	case *ast.FuncLit:
		// closure: analysed where it is defined (over-approximation: assumed to run there)
		c.warn("%s: function literal analysed as if executed at its definition", fx.fn)
		sub := &fctx{recv: fx.recv, fn: fx.fn, stack: fx.stack}
		out := []*pstate{}
		for _, p := range ps {
			res := c.block(x.Body.List, []*pstate{closureState(p)}, sub)
			for _, r := range res {
				q := p.clone()
				q.ins = r.ins
				out = append(out, q)
			}
		}
		return c.dedupe(out, fx)
	case *ast.CompositeLit:
		for _, el := range x.Elts {
			if kv, ok := el.(*ast.KeyValueExpr); ok {
				ps = c.expr(kv.Value, ps, fx)
			} else {
				ps = c.expr(el, ps, fx)
			}
		}
		return ps
	case *ast.KeyValueExpr:
		return c.expr(x.Value, ps, fx)
	case *ast.BinaryExpr:
		ps = c.expr(x.X, ps, fx)
		if x.Op == token.LAND || x.Op == token.LOR {
			// short circuit: the right operand may or may not be evaluated
			out := []*pstate{}
			for _, p := range ps {
				out = append(out, p.clone())
			}
			out = append(out, c.expr(x.Y, ps, fx)...)
			return c.dedupe(out, fx)
		}
		return c.expr(x.Y, ps, fx)
	case *ast.UnaryExpr:
		return c.expr(x.X, ps, fx)
	case *ast.StarExpr:
		return c.rooted(e, x.X, ps, fx)
	case *ast.TypeAssertExpr:
		return c.expr(x.X, ps, fx)
	case *ast.SliceExpr:
		ps = c.expr(x.Low, ps, fx)
		ps = c.expr(x.High, ps, fx)
		ps = c.expr(x.Max, ps, fx)
		return c.rooted(e, x.X, ps, fx)
	case *ast.IndexExpr:
		ps = c.expr(x.Index, ps, fx)
		return c.rooted(e, x.X, ps, fx)
	case *ast.SelectorExpr:
		return c.rooted(e, x.X, ps, fx)
	case *ast.CallExpr:
		return c.call(x, ps, fx)
	}
	return ps
}

func closureState(p *pstate) *pstate {
	q := p.clone()
	q.defers = nil
	return q
}

// rooted: e is a selector/index/deref expression with operand inner. If e designates shared data it is one
// read of the field; otherwise the operand is evaluated.
func (c *component) rooted(e ast.Expr, inner ast.Expr, ps []*pstate, fx *fctx) []*pstate {
	out := make([]*pstate, 0, len(ps))
	var rest []*pstate
	for _, p := range ps {
		r := c.resolve(e, p, fx)
		if r.ok {
			if r.field != "" && !r.mutex {
				// evaluate nested index expressions of the chain first
				c.emitAccess(p, "Rd", r, e, fx)
			}
			out = append(out, p)
		} else {
			rest = append(rest, p)
		}
	}
	if len(rest) > 0 {
		out = append(out, c.expr(inner, rest, fx)...)
	}
	return out
}

var pureBuiltins = map[string]bool{"len": true, "cap": true, "make": true, "new": true, "min": true, "max": true,
	"panic": true, "print": true, "println": true, "string": true, "uint64": true, "int": true}

func (c *component) call(call *ast.CallExpr, ps []*pstate, fx *fctx) []*pstate {
	// builtins
	if id, ok := call.Fun.(*ast.Ident); ok {
		switch id.Name {
		case "delete", "clear":
			if len(call.Args) > 0 {
				for _, a := range call.Args[1:] {
					ps = c.expr(a, ps, fx)
				}
				for _, p := range ps {
					r := c.resolve(call.Args[0], p, fx)
					if r.ok {
						c.emitAccess(p, "Wr", r, call, fx)
					}
				}
				return ps
			}
		case "copy":
			if len(call.Args) == 2 {
				ps = c.expr(call.Args[1], ps, fx)
				for _, p := range ps {
					r := c.resolve(call.Args[0], p, fx)
					if r.ok {
						c.emitAccess(p, "Wr", r, call, fx)
					}
				}
				return ps
			}
		case "append":
			if len(call.Args) > 0 {
				for _, a := range call.Args[1:] {
					ps = c.expr(a, ps, fx)
				}
				for _, p := range ps {
					r := c.resolve(call.Args[0], p, fx)
					if r.ok {
						c.emitAccess(p, "Rd", r, call, fx)
						// growing a slice of struct values copies every element: a read of the elements' fields
						c.elementCopy(p, r, call, fx)
					}
				}
				return ps
			}
		case "len", "cap":
			if len(call.Args) == 1 {
				handled := true
				for _, p := range ps {
					r := c.resolve(call.Args[0], p, fx)
					if r.ok && r.field != "" {
						c.emitAccess(p, "Rd", r, call, fx)
					} else {
						handled = false
					}
				}
				if handled {
					return ps
				}
				return c.expr(call.Args[0], ps, fx)
			}
		}
	}
	// mutex operations
	if len(ps) > 0 {
		if _, ok := c.lockCall(call, ps[0], fx); ok {
			for _, p := range ps {
				ins, _ := c.lockCall(call, p, fx)
				p.ins = append(p.ins, ins)
			}
			return ps
		}
	}
	// arguments first
	for _, a := range call.Args {
		ps = c.expr(a, ps, fx)
	}
	sel, isSel := call.Fun.(*ast.SelectorExpr)
	if !isSel {
		// plain function / closure variable / conversion: the function value itself
		if _, ok := call.Fun.(*ast.Ident); !ok {
			ps = c.expr(call.Fun, ps, fx)
		}
		return ps
	}
	out := []*pstate{}
	for _, p := range ps {
		r := c.resolve(sel.X, p, fx)
		name := sel.Sel.Name
		switch {
		case r.ok && r.field == "" && c.isMethod(name):
			// method of the component on self / parent / fresh instance
			if r.tgt == "self" && !ast.IsExported(name) && !contains(fx.stack, name) && len(fx.stack) < 6 {
				out = append(out, c.inline(name, p, fx)...)
			} else {
				p.ins = append(p.ins, Ins{Op: "Call", A: name, T: r.tgt, Pos: c.pos(call)})
				out = append(out, p)
			}
		case r.ok && r.field != "" && !r.mutex && c.isIfaceField(r.field) && isDirectField(sel.X):
			ic := c.conf.Iface[r.field]
			mut, known := ic.Mutating[name]
			if !known {
				c.warn("%s: method %s of interface field %s is not in the table; treated as mutating", fx.fn, name, r.field)
				mut = true
			}
			kind := "Rd"
			if mut {
				kind = "Wr"
			}
			// the interface value itself is immutable; the access is to the object behind it
			c.emitObjAccess(p, kind, r, call, fx)
			out = append(out, p)
		case r.ok && r.field != "" && !r.mutex && c.atomics[r.field]:
			out = append(out, p) // sync/atomic operation
		case r.ok && r.field != "" && !r.mutex:
			// method call on (part of) a field, e.g. existing.Participants.Covers(...): a read of the field;
			// pointer-receiver methods that mutate are not recognised (imprecision, reported)
			c.emitAccess(p, "Rd", r, call, fx)
			out = append(out, p)
		default:
			out = append(out, c.expr(sel.X, []*pstate{p}, fx)...)
		}
	}
	return c.dedupe(out, fx)
}

func isDirectField(e ast.Expr) bool {
	s, ok := e.(*ast.SelectorExpr)
	if !ok {
		return false
	}
	_, ok = s.X.(*ast.Ident)
	return ok
}

func (c *component) isIfaceField(f string) bool { _, ok := c.conf.Iface[f]; return ok }

// emitObjAccess: access to the object behind an interface-typed field; named "<field>*".
func (c *component) emitObjAccess(p *pstate, kind string, r ref, n ast.Node, fx *fctx) {
	if r.tgt == "fresh" {
		return
	}
	pp := c.fset.Position(n.Pos())
	f := r.field + "*"
	p.ins = append(p.ins, Ins{Op: kind, A: f, T: r.tgt, Pos: fmt.Sprintf("%s:%d", pp.Filename, pp.Line)})
	c.sites = append(c.sites, site{File: pp.Filename, Line: pp.Line, Component: c.conf.Name, Func: fx.fn, Field: f, Kind: kind})
}

// elementCopy: append on a slice of struct VALUES whose type is another extracted component may move the
// elements; that reads every mutable field of every element.
func (c *component) elementCopy(p *pstate, r ref, n ast.Node, fx *fctx) {
	if r.tgt == "fresh" {
		return
	}
	ft, ok := c.fieldType[r.field]
	if !ok {
		return
	}
	if c.refKind(ft) != "slice" {
		return
	}
	el := c.elemType(ft)
	id, ok := el.(*ast.Ident)
	if !ok {
		return
	}
	ec, ok := c.all[id.Name]
	if !ok || ec == c {
		return
	}
	pp := c.fset.Position(n.Pos())
	for _, f := range ec.mutableFields() {
		name := r.field + "." + f
		p.ins = append(p.ins, Ins{Op: "Rd", A: name, T: r.tgt, Pos: fmt.Sprintf("%s:%d", pp.Filename, pp.Line)})
		c.sites = append(c.sites, site{File: pp.Filename, Line: pp.Line, Component: c.conf.Name, Func: fx.fn, Field: name, Kind: "Rd"})
	}
}

func (c *component) mutableFields() []string {
	out := []string{}
	for f := range c.fieldType {
		if _, isMu := c.mutexes[f]; isMu || c.atomics[f] || c.ignored[f] {
			continue
		}
		out = append(out, f)
	}
	sort.Strings(out)
	return out
}

func contains(s []string, x string) bool {
	for _, y := range s {
		if y == x {
			return true
		}
	}
	return false
}

// inline the unexported method `name` of the receiver at the current point of p.
func (c *component) inline(name string, p *pstate, fx *fctx) []*pstate {
	fd := c.methods[name]
	sub := &fctx{recv: recvName(fd), fn: name, stack: append(append([]string(nil), fx.stack...), name)}
	start := p.clone()
	start.defers = nil
	start.env = map[string]alias{}
	start.status = stNormal
	res := c.block(fd.Body.List, []*pstate{start}, sub)
	out := []*pstate{}
	for _, r := range res {
		c.runDefers(r)
		q := p.clone()
		q.ins = r.ins
		out = append(out, q)
	}
	return out
}

func (c *component) runDefers(p *pstate) {
	for i := len(p.defers) - 1; i >= 0; i-- {
		p.ins = append(p.ins, p.defers[i]...)
	}
	p.defers = nil
}

// ---------------------------------------------------------------- statements

func (c *component) dedupe(ps []*pstate, fx *fctx) []*pstate {
	seen := map[string]bool{}
	out := ps[:0:0]
	for _, p := range ps {
		p.ins = normalise(p.ins)
		k := p.key()
		if seen[k] {
			continue
		}
		seen[k] = true
		out = append(out, p)
	}
	if len(out) > c.pathCap {
		c.truncated[fx.fn] = true
		out = out[:c.pathCap]
	}
	return out
}

// lhs handles the left-hand side of an assignment / inc-dec: a write of the designated field.
func (c *component) lhs(e ast.Expr, ps []*pstate, fx *fctx, alsoRead bool) []*pstate {
	switch x := e.(type) {
	case *ast.Ident:
		return ps
	case *ast.IndexExpr:
		ps = c.expr(x.Index, ps, fx)
	case *ast.ParenExpr:
		return c.lhs(x.X, ps, fx, alsoRead)
	}
	var rest []*pstate
	out := []*pstate{}
	for _, p := range ps {
		r := c.resolve(e, p, fx)
		if r.ok && r.field != "" && !r.mutex {
			if alsoRead {
				c.emitAccess(p, "Rd", r, e, fx)
			}
			c.emitAccess(p, "Wr", r, e, fx)
			out = append(out, p)
		} else if r.ok {
			out = append(out, p)
		} else {
			rest = append(rest, p)
		}
	}
	if len(rest) > 0 {
		// not shared: evaluate operand expressions for their reads
		switch x := e.(type) {
		case *ast.IndexExpr:
			rest = c.expr(x.X, rest, fx)
		case *ast.SelectorExpr:
			rest = c.expr(x.X, rest, fx)
		case *ast.StarExpr:
			rest = c.expr(x.X, rest, fx)
		}
		out = append(out, rest...)
	}
	return out
}

// bind records what a local variable aliases after `name := rhs` / `name = rhs`.
func (c *component) bind(name string, rhs ast.Expr, p *pstate, fx *fctx) {
	if name == "_" {
		return
	}
	delete(p.env, name)
	if rhs == nil {
		return
	}
	// fresh instance: &T{...} / T{...} of the component type
	e := rhs
	if u, ok := e.(*ast.UnaryExpr); ok && u.Op == token.AND {
		e = u.X
	}
	if cl, ok := e.(*ast.CompositeLit); ok {
		if id, ok := cl.Type.(*ast.Ident); ok && id.Name == c.conf.Name {
			p.env[name] = alias{tgt: "fresh"}
			return
		}
	}
	r := c.resolve(rhs, p, fx)
	if !r.ok || r.mutex {
		return
	}
	if r.field == "" {
		p.env[name] = alias{tgt: r.tgt}
		return
	}
	// value of (part of) a field: an alias only if the value is a reference
	_, isAddr := rhs.(*ast.UnaryExpr)
	k := c.refKind(r.typ)
	if isAddr || isRefKind(k) {
		p.env[name] = alias{tgt: r.tgt, field: r.field, typ: r.typ}
	}
}

func (c *component) assign(s *ast.AssignStmt, ps []*pstate, fx *fctx) []*pstate {
	for _, r := range s.Rhs {
		ps = c.expr(r, ps, fx)
	}
	compound := s.Tok != token.ASSIGN && s.Tok != token.DEFINE
	for _, l := range s.Lhs {
		ps = c.lhs(l, ps, fx, compound)
	}
	for _, p := range ps {
		if len(s.Lhs) == len(s.Rhs) {
			for i, l := range s.Lhs {
				if id, ok := l.(*ast.Ident); ok {
					c.bind(id.Name, s.Rhs[i], p, fx)
				}
			}
		} else if len(s.Rhs) == 1 {
			// v, ok := m[k] / x.(T) / f()
			if id, ok := s.Lhs[0].(*ast.Ident); ok {
				switch s.Rhs[0].(type) {
				case *ast.IndexExpr, *ast.TypeAssertExpr:
					c.bind(id.Name, s.Rhs[0], p, fx)
				default:
					c.bind(id.Name, nil, p, fx)
				}
			}
			for _, l := range s.Lhs[1:] {
				if id, ok := l.(*ast.Ident); ok {
					c.bind(id.Name, nil, p, fx)
				}
			}
		}
	}
	return ps
}

func splitStatus(ps []*pstate) (normal, other []*pstate) {
	for _, p := range ps {
		if p.status == stNormal {
			normal = append(normal, p)
		} else {
			other = append(other, p)
		}
	}
	return
}

func cloneAll(ps []*pstate) []*pstate {
	out := make([]*pstate, len(ps))
	for i, p := range ps {
		out[i] = p.clone()
	}
	return out
}

func (c *component) block(stmts []ast.Stmt, ps []*pstate, fx *fctx) []*pstate {
	done := []*pstate{}
	for _, s := range stmts {
		var live []*pstate
		live, other := splitStatus(ps)
		done = append(done, other...)
		if len(live) == 0 {
			ps = nil
			break
		}
		ps = c.stmt(s, live, fx)
		ps = c.dedupe(ps, fx)
	}
	return c.dedupe(append(done, ps...), fx)
}

func isPanic(e ast.Expr) bool {
	if call, ok := e.(*ast.CallExpr); ok {
		if id, ok := call.Fun.(*ast.Ident); ok && id.Name == "panic" {
			return true
		}
	}
	return false
}

func (c *component) stmt(s ast.Stmt, ps []*pstate, fx *fctx) []*pstate {
	switch x := s.(type) {
	case nil, *ast.EmptyStmt:
		return ps
	case *ast.ExprStmt:
		ps = c.expr(x.X, ps, fx)
		if isPanic(x.X) {
			for _, p := range ps {
				c.runDefers(p)
				p.status = stReturned
			}
		}
		return ps
	case *ast.AssignStmt:
		return c.assign(x, ps, fx)
	case *ast.IncDecStmt:
		return c.lhs(x.X, ps, fx, true)
	case *ast.DeclStmt:
		if gd, ok := x.Decl.(*ast.GenDecl); ok {
			for _, sp := range gd.Specs {
				if vs, ok := sp.(*ast.ValueSpec); ok {
					for _, v := range vs.Values {
						ps = c.expr(v, ps, fx)
					}
					for _, p := range ps {
						for i, n := range vs.Names {
							if i < len(vs.Values) && len(vs.Values) == len(vs.Names) {
								c.bind(n.Name, vs.Values[i], p, fx)
							} else {
								c.bind(n.Name, nil, p, fx)
							}
						}
					}
				}
			}
		}
		return ps
	case *ast.BlockStmt:
		return c.block(x.List, ps, fx)
	case *ast.LabeledStmt:
		return c.stmt(x.Stmt, ps, fx)
	case *ast.GoStmt:
		c.warn("%s: go statement is not modelled", fx.fn)
		return ps
	case *ast.SendStmt:
		ps = c.expr(x.Chan, ps, fx)
		return c.expr(x.Value, ps, fx)
	case *ast.DeferStmt:
		for _, p := range ps {
			if ins, ok := c.lockCall(x.Call, p, fx); ok {
				p.defers = append(p.defers, []Ins{ins})
				continue
			}
			// general deferred call: its effects happen at return
			tmp := &pstate{env: p.env}
			var res []*pstate
			if fl, ok := x.Call.Fun.(*ast.FuncLit); ok {
				res = c.block(fl.Body.List, []*pstate{tmp}, &fctx{recv: fx.recv, fn: fx.fn, stack: fx.stack})
				if len(res) > 1 {
					c.warn("%s: deferred function literal has several paths; the first is used", fx.fn)
				}
			} else {
				res = c.expr(x.Call, []*pstate{tmp}, fx)
			}
			if len(res) > 0 {
				p.defers = append(p.defers, res[0].ins)
			}
		}
		return ps
	case *ast.ReturnStmt:
		for _, r := range x.Results {
			ps = c.expr(r, ps, fx)
		}
		for _, p := range ps {
			c.runDefers(p)
			p.status = stReturned
		}
		return ps
	case *ast.BranchStmt:
		for _, p := range ps {
			switch x.Tok {
			case token.BREAK:
				p.status = stBreak
			case token.CONTINUE:
				p.status = stContinue
			case token.GOTO, token.FALLTHROUGH:
				c.warn("%s: %s is not modelled", fx.fn, x.Tok)
			}
		}
		return ps
	case *ast.IfStmt:
		ps = c.stmt(x.Init, ps, fx)
		ps = c.expr(x.Cond, ps, fx)
		thenPs := c.block(x.Body.List, cloneAll(ps), fx)
		var elsePs []*pstate
		if x.Else != nil {
			elsePs = c.stmt(x.Else, cloneAll(ps), fx)
		} else {
			elsePs = ps
		}
		return append(thenPs, elsePs...)
	case *ast.ForStmt:
		ps = c.stmt(x.Init, ps, fx)
		ps = c.expr(x.Cond, ps, fx)
		zero := cloneAll(ps)
		if x.Cond == nil {
			zero = nil // for { ... } is left only by break / return
		}
		once := c.block(x.Body.List, ps, fx)
		out := zero
		for _, p := range once {
			switch p.status {
			case stBreak:
				p.status = stNormal
				out = append(out, p)
			case stContinue, stNormal:
				p.status = stNormal
				q := c.stmt(x.Post, []*pstate{p}, fx)
				q = c.expr(x.Cond, q, fx)
				out = append(out, q...)
			default:
				out = append(out, p)
			}
		}
		return out
	case *ast.RangeStmt:
		ps = c.expr(x.X, ps, fx)
		// ranging over shared data reads it
		for _, p := range ps {
			r := c.resolve(x.X, p, fx)
			if r.ok && r.field != "" {
				if _, isSel := x.X.(*ast.Ident); isSel { // alias identifier: expr() emitted nothing
					c.emitAccess(p, "Rd", r, x.X, fx)
				}
			}
		}
		zero := cloneAll(ps)
		for _, p := range ps {
			r := c.resolve(x.X, p, fx)
			if id, ok := x.Key.(*ast.Ident); ok {
				delete(p.env, id.Name)
			}
			if id, ok := x.Value.(*ast.Ident); ok && id.Name != "_" {
				delete(p.env, id.Name)
				if r.ok && r.field != "" {
					et := c.elemType(r.typ)
					if isRefKind(c.refKind(et)) {
						p.env[id.Name] = alias{tgt: r.tgt, field: r.field, typ: et}
					}
				}
			}
		}
		once := c.block(x.Body.List, ps, fx)
		out := zero
		for _, p := range once {
			if p.status == stBreak || p.status == stContinue {
				p.status = stNormal
			}
			out = append(out, p)
		}
		return out
	case *ast.SwitchStmt:
		ps = c.stmt(x.Init, ps, fx)
		ps = c.expr(x.Tag, ps, fx)
		return c.cases(x.Body, ps, fx)
	case *ast.TypeSwitchStmt:
		ps = c.stmt(x.Init, ps, fx)
		ps = c.stmt(x.Assign, ps, fx)
		return c.cases(x.Body, ps, fx)
	case *ast.SelectStmt:
		c.warn("%s: select is not modelled precisely", fx.fn)
		out := []*pstate{}
		for _, cl := range x.Body.List {
			cc := cl.(*ast.CommClause)
			q := c.stmt(cc.Comm, cloneAll(ps), fx)
			out = append(out, c.block(cc.Body, q, fx)...)
		}
		return out
	}
	return ps
}

func (c *component) cases(body *ast.BlockStmt, ps []*pstate, fx *fctx) []*pstate {
	out := []*pstate{}
	hasDefault := false
	for _, cl := range body.List {
		cc := cl.(*ast.CaseClause)
		q := cloneAll(ps)
		if cc.List == nil {
			hasDefault = true
		}
		for _, e := range cc.List {
			q = c.expr(e, q, fx)
		}
		res := c.block(cc.Body, q, fx)
		for _, p := range res {
			if p.status == stBreak {
				p.status = stNormal
			}
		}
		out = append(out, res...)
	}
	if !hasDefault {
		out = append(out, ps...)
	}
	return out
}

// ---------------------------------------------------------------- per component

func (c *component) analyse() {
	// pass 1 with nothing ignored finds the writers of every field; pass 2 ignores the verified immutable ones
	for pass := 0; pass < 2; pass++ {
		c.progs = map[string][][]Ins{}
		c.sites = nil
		c.truncated = map[string]bool{}
		if pass == 1 {
			for _, f := range c.conf.Immutable {
				if _, ok := c.fieldType[f]; !ok {
					continue
				}
				if len(c.writers[f]) == 0 {
					c.ignored[f] = true
				} else {
					ws := []string{}
					for w := range c.writers[f] {
						ws = append(ws, w)
					}
					sort.Strings(ws)
					c.warn("field %s is listed immutable-after-construction but is written by %s; it is modelled as a normal field",
						f, strings.Join(ws, ","))
				}
			}
		}
		names := []string{}
		for n := range c.methods {
			names = append(names, n)
		}
		sort.Strings(names)
		for _, n := range names {
			fd := c.methods[n]
			fx := &fctx{recv: recvName(fd), fn: n, stack: []string{n}}
			start := &pstate{env: map[string]alias{}}
			res := c.block(fd.Body.List, []*pstate{start}, fx)
			seen := map[string]bool{}
			paths := [][]Ins{}
			for _, p := range res {
				c.runDefers(p)
				p.ins = normalise(p.ins)
				k := ""
				for _, i := range p.ins {
					k += "|" + i.String()
				}
				if seen[k] {
					continue
				}
				seen[k] = true
				paths = append(paths, p.ins)
			}
			if len(paths) > c.pathCap {
				c.truncated[n] = true
				paths = paths[:c.pathCap]
			}
			c.progs[n] = paths
		}
	}
	for n := range c.truncated {
		c.warn("method %s: more than %d paths, truncated", n, c.pathCap)
	}
}

// normalise canonicalises a path: within a maximal segment without Acq / Rel / Call the set of lock holders
// cannot change, so only the SET of accesses of the segment matters for co-enabledness with another thread's
// access. Accesses are deduplicated and sorted per segment, and a read is dropped when the same segment writes
// the same field (every race of the read is also a race of the write).
func normalise(ins []Ins) []Ins {
	out := []Ins{}
	seg := []Ins{}
	flush := func() {
		wr := map[string]bool{}
		for _, i := range seg {
			if i.Op == "Wr" {
				wr[i.A+"@"+i.T] = true
			}
		}
		seen := map[string]bool{}
		keep := []Ins{}
		for _, i := range seg {
			if i.Op == "Rd" && wr[i.A+"@"+i.T] {
				continue
			}
			if seen[i.String()] {
				continue
			}
			seen[i.String()] = true
			keep = append(keep, i)
		}
		sort.SliceStable(keep, func(a, b int) bool { return keep[a].String() < keep[b].String() })
		out = append(out, keep...)
		seg = seg[:0]
	}
	for _, i := range ins {
		if i.Op == "Rd" || i.Op == "Wr" {
			seg = append(seg, i)
			continue
		}
		flush()
		out = append(out, i)
	}
	flush()
	return out
}

// ---------------------------------------------------------------- interface table cross-check

// mutatingMethods returns, for a concrete type, which methods write receiver state (directly or through
// other methods of the receiver).
func mutatingMethods(repo, dir, typ string) (map[string]bool, error) {
	fset := token.NewFileSet()
	files, err := parseDir(fset, filepath.Join(repo, dir), nil)
	if err != nil {
		return nil, err
	}
	c, err := loadComponent(repo, compConf{Name: typ, Dir: dir}, files, fset)
	if err != nil {
		return nil, err
	}
	c.all = map[string]*component{typ: c}
	c.pathCap = 24
	// exported methods are inlined here too: only "does any path write?" matters
	direct := map[string]bool{}
	calls := map[string]map[string]bool{}
	for n, fd := range c.methods {
		fx := &fctx{recv: recvName(fd), fn: n, stack: []string{n, "", "", "", "", "", ""}} // full stack: never inline
		res := c.block(fd.Body.List, []*pstate{{env: map[string]alias{}}}, fx)
		calls[n] = map[string]bool{}
		for _, p := range res {
			c.runDefers(p)
			for _, i := range p.ins {
				if i.Op == "Wr" {
					direct[n] = true
				}
				if i.Op == "Call" {
					calls[n][i.A] = true
				}
			}
		}
	}
	changed := true
	for changed {
		changed = false
		for n := range c.methods {
			if direct[n] {
				continue
			}
			for m := range calls[n] {
				if direct[m] {
					direct[n] = true
					changed = true
				}
			}
		}
	}
	return direct, nil
}

// ---------------------------------------------------------------- output

func tlaStr(s string) string { return `"` + s + `"` }

func tlaIns(i Ins) string {
	return "<<" + tlaStr(i.Op) + ", " + tlaStr(i.A) + ", " + tlaStr(i.B) + ", " + tlaStr(i.T) + ">>"
}

func tlaSet(xs []string) string {
	q := make([]string, len(xs))
	for i, x := range xs {
		q[i] = tlaStr(x)
	}
	return "{" + strings.Join(q, ", ") + "}"
}

func (c *component) exported() []string {
	out := []string{}
	for n := range c.progs {
		if ast.IsExported(n) || strings.Contains(n, ".") {
			out = append(out, n)
		}
	}
	sort.Strings(out)
	return out
}

func (c *component) writeTLA(dir string) error {
	var sb strings.Builder
	name := "LockPrograms_" + c.conf.Name
	fmt.Fprintf(&sb, "---- MODULE %s ----\n", name)
	fmt.Fprintf(&sb, "\\* GENERATED by harness/cmd/lockextract from %s (%s). Do not edit.\n", c.conf.Dir, strings.Join(c.sourceFiles(), ", "))
	sb.WriteString("EXTENDS TLC\n\n")
	fmt.Fprintf(&sb, "LP_Component == %s\n", tlaStr(c.conf.Name))
	mus := []string{}
	for m := range c.mutexes {
		mus = append(mus, m)
	}
	sort.Strings(mus)
	fmt.Fprintf(&sb, "LP_Mutexes == %s\n", tlaSet(mus))
	fmt.Fprintf(&sb, "LP_Exported == %s\n", tlaSet(c.exported()))
	if c.conf.ParentField != "" {
		sb.WriteString("LP_HasParent == TRUE\n")
	} else {
		sb.WriteString("LP_HasParent == FALSE\n")
	}
	names := []string{}
	for n := range c.progs {
		names = append(names, n)
	}
	sort.Strings(names)
	sb.WriteString("LP_Prog ==\n")
	for i, n := range names {
		sep := "  @@ "
		if i == 0 {
			sep = "     "
		}
		fmt.Fprintf(&sb, "%s%s :> <<\n", sep, tlaStr(n))
		for j, path := range c.progs[n] {
			parts := make([]string, len(path))
			for k, ins := range path {
				parts[k] = tlaIns(ins)
			}
			comma := ","
			if j == len(c.progs[n])-1 {
				comma = ""
			}
			fmt.Fprintf(&sb, "        <<%s>>%s\n", strings.Join(parts, ", "), comma)
		}
		sb.WriteString("     >>\n")
	}
	if len(names) == 0 {
		sb.WriteString("     <<>>\n")
	}
	sb.WriteString("====\n")
	return os.WriteFile(filepath.Join(dir, name+".tla"), []byte(sb.String()), 0o644)
}

func (c *component) sourceFiles() []string {
	seen := map[string]bool{}
	for _, fd := range c.methods {
		seen[filepath.Base(c.fset.Position(fd.Pos()).Filename)] = true
	}
	out := []string{}
	for f := range seen {
		out = append(out, f)
	}
	sort.Strings(out)
	return out
}

type compSummary struct {
	Name      string              `json:"name"`
	Dir       string              `json:"dir"`
	Mutexes   map[string]string   `json:"mutexes"`
	Fields    []string            `json:"fields"`
	Ignored   []string            `json:"ignored_immutable"`
	Exported  []string            `json:"exported"`
	HasParent bool                `json:"has_parent"`
	Paths     map[string]int      `json:"paths"`
	Programs  map[string][]string `json:"programs"`
	Warnings  []string            `json:"warnings"`
}

func main() {
	repo := flag.String("repo", "/repo", "repository root")
	out := flag.String("out", ".", "output directory")
	flag.Parse()
	if err := os.MkdirAll(*out, 0o755); err != nil {
		fail(err)
	}
	all := map[string]*component{}
	order := []string{}
	// fixed components
	for _, conf := range fixedComponents {
		fset := token.NewFileSet()
		files, err := parseDir(fset, filepath.Join(*repo, conf.Dir), conf.Files)
		if err != nil {
			fail(err)
		}
		c, err := loadComponent(*repo, conf, files, fset)
		if err != nil {
			fail(err)
		}
		all[conf.Name] = c
		order = append(order, conf.Name)
	}
	// pools: every struct type of eth2/pool that has a mutex
	{
		fset := token.NewFileSet()
		files, err := parseDir(fset, filepath.Join(*repo, poolDir), nil)
		if err != nil {
			fail(err)
		}
		names := []string{}
		for _, f := range files {
			for _, d := range f.Decls {
				gd, ok := d.(*ast.GenDecl)
				if !ok {
					continue
				}
				for _, s := range gd.Specs {
					ts, ok := s.(*ast.TypeSpec)
					if !ok {
						continue
					}
					st, ok := ts.Type.(*ast.StructType)
					if !ok {
						continue
					}
					for _, fl := range st.Fields.List {
						if syncKind(fl.Type) != "" {
							names = append(names, ts.Name.Name)
							break
						}
					}
				}
			}
		}
		sort.Strings(names)
		for _, n := range names {
			c, err := loadComponent(*repo, compConf{Name: n, Dir: poolDir, Immutable: []string{"spec", "maxExtraAggregates"}}, files, fset)
			if err != nil {
				fail(err)
			}
			all[n] = c
			order = append(order, n)
		}
	}
	// cross-check of the interface tables against the concrete implementations
	ifaceNotes := []string{}
	for _, n := range order {
		c := all[n]
		for f, ic := range c.conf.Iface {
			for _, impl := range ic.Impls {
				mm, err := mutatingMethods(*repo, ic.ImplDir, impl)
				if err != nil {
					c.warn("interface table of %s: cannot analyse %s: %v", f, impl, err)
					continue
				}
				for m, tableSaysMut := range ic.Mutating {
					if mm[m] && !tableSaysMut {
						ic.Mutating[m] = true
						msg := fmt.Sprintf("%s.%s writes receiver state although the table lists it as read-only; treated as mutating", impl, m)
						c.warn(msg)
						ifaceNotes = append(ifaceNotes, msg)
					}
				}
			}
		}
	}
	// element components first (mutableFields of CachedPubkey is needed by PubkeyCache)
	for _, n := range []string{"CachedPubkey"} {
		if c, ok := all[n]; ok {
			c.all = all
			c.analyse()
		}
	}
	for _, n := range order {
		c := all[n]
		if c.progs != nil && len(c.progs) > 0 {
			continue
		}
		c.all = all
		c.analyse()
	}
	// synthetic methods for handed-out element handles
	for _, n := range order {
		c := all[n]
		for _, h := range c.conf.Handouts {
			ec, ok := all[h.Elem]
			if !ok {
				continue
			}
			base, ok := c.progs[h.Method]
			if !ok {
				c.warn("handout method %s not found", h.Method)
				continue
			}
			for en, epaths := range ec.progs {
				if !ast.IsExported(en) {
					continue
				}
				name := h.Method + "." + en
				var paths [][]Ins
				for _, bp := range base {
					for _, ep := range epaths {
						p := append([]Ins(nil), bp...)
						// the element lives in the instance that answered: the parent if the lookup was delegated
						tgt := "self"
						for _, i := range bp {
							if i.Op == "Call" && i.T == "parent" {
								tgt = "parent"
							}
						}
						for _, i := range ep {
							j := i
							j.A = h.Field + "." + i.A
							j.T = tgt
							if i.Op == "Call" {
								continue // element methods calling each other are not modelled
							}
							p = append(p, j)
						}
						paths = append(paths, normalise(p))
					}
				}
				if len(paths) > c.pathCap {
					paths = paths[:c.pathCap]
				}
				c.progs[name] = paths
				for _, s := range ec.sites {
					c.sites = append(c.sites, site{File: s.File, Line: s.Line, Component: c.conf.Name, Func: name, Field: h.Field + "." + s.Field, Kind: s.Kind})
				}
				for m, k := range ec.mutexes {
					c.mutexes[h.Field+"."+m] = k
				}
			}
		}
	}
	summary := struct {
		Repo       string        `json:"repo"`
		Components []compSummary `json:"components"`
		Sites      []site        `json:"sites"`
		IfaceNotes []string      `json:"iface_notes"`
	}{Repo: *repo, IfaceNotes: append([]string{}, ifaceNotes...)}
	for _, n := range order {
		c := all[n]
		if err := c.writeTLA(*out); err != nil {
			fail(err)
		}
		cs := compSummary{Name: n, Dir: c.conf.Dir, Mutexes: c.mutexes, Exported: c.exported(), HasParent: c.conf.ParentField != "",
			Paths: map[string]int{}, Programs: map[string][]string{}, Warnings: append([]string{}, c.warnings...),
			Fields: []string{}, Ignored: []string{}}
		for f := range c.fieldType {
			cs.Fields = append(cs.Fields, f)
		}
		sort.Strings(cs.Fields)
		for f := range c.ignored {
			cs.Ignored = append(cs.Ignored, f)
		}
		sort.Strings(cs.Ignored)
		for m, ps := range c.progs {
			cs.Paths[m] = len(ps)
			for _, p := range ps {
				parts := make([]string, len(p))
				for i, ins := range p {
					parts[i] = ins.String()
				}
				cs.Programs[m] = append(cs.Programs[m], strings.Join(parts, " "))
			}
		}
		summary.Components = append(summary.Components, cs)
		summary.Sites = append(summary.Sites, c.sites...)
	}
	b, _ := json.MarshalIndent(summary, "", " ")
	if err := os.WriteFile(filepath.Join(*out, "lockprograms.json"), b, 0o644); err != nil {
		fail(err)
	}
}

func fail(err error) {
	fmt.Fprintln(os.Stderr, "lockextract:", err)
	os.Exit(2)
}
