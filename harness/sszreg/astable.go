package sszreg

import (
	"reflect"

	"github.com/protolambda/zrnt/eth2/beacon/altair"
	"github.com/protolambda/zrnt/eth2/beacon/bellatrix"
	"github.com/protolambda/zrnt/eth2/beacon/capella"
	"github.com/protolambda/zrnt/eth2/beacon/common"
	"github.com/protolambda/zrnt/eth2/beacon/deneb"
	"github.com/protolambda/zrnt/eth2/beacon/electra"
	"github.com/protolambda/zrnt/eth2/beacon/phase0"
	"github.com/protolambda/ztyp/view"
)

// AsTable: the library's typed-view constructors `AsX(view, err)`, by schema-table name.  The harness wraps the view
// decoded from the canonical encoding with it and compares every accessor of the typed view with the value.
var AsTable = map[string]interface{}{
	"common.BLSPubkey": common.AsBLSPubkey, "common.BLSSignature": common.AsBLSSignature,
	"common.ExtraData": common.AsExtraData, "common.Checkpoint": common.AsCheckPoint,
	"common.CommitteeIndex": common.AsCommitteeIndex, "common.Gwei": common.AsGwei,
	"common.BeaconBlockHeader": common.AsBeaconBlockHeader, "common.JustificationBits": common.AsJustificationBits,
	"common.LogsBloom": common.AsLogsBloom, "common.SyncCommittee": common.AsSyncCommittee,
	"common.SyncCommitteePubkeys": common.AsSyncCommitteePubkeys, "common.DepositIndex": common.AsDepositIndex,
	"common.Epoch": common.AsEpoch, "common.Slot": common.AsSlot, "common.Timestamp": common.AsTimestamp,
	"common.ValidatorIndex": common.AsValidatorIndex, "common.Fork": common.AsFork, "common.Version": common.AsVersion,
	"common.BLSToExecutionChange": common.AsBLSToExecutionChange, "common.SignedBLSToExecutionChange": common.AsSignedBLSToExecutionChange,
	"common.Withdrawal": common.AsWithdrawal, "common.WithdrawalIndex": common.AsWithdrawalIndex,
	"common.Eth1Data":        common.AsEth1Data,
	"phase0.AttestationBits": phase0.AsAttestationBits, "phase0.Balances": phase0.AsRegistryBalances,
	"phase0.DepositRootsView": phase0.AsDepositRootsView, "phase0.HistoricalBatchRoots": phase0.AsBatchRoots,
	"phase0.HistoricalBatch": phase0.AsHistoricalBatch, "phase0.HistoricalRoots": phase0.AsHistoricalRoots,
	"phase0.AttestationData": phase0.AsAttestationData, "phase0.PendingAttestation": phase0.AsPendingAttestation,
	"phase0.PendingAttestations": phase0.AsPendingAttestations, "phase0.RandaoMixes": phase0.AsRandaoMixes,
	"phase0.ValidatorRegistry": phase0.AsValidatorsRegistry, "phase0.SlashingsHistory": phase0.AsSlashings,
	"phase0.Validator": phase0.AsValidator, "phase0.BeaconState": phase0.AsBeaconStateView,
	"altair.InactivityScores": altair.AsInactivityScores, "altair.ParticipationFlags": altair.AsParticipationFlags,
	"altair.ParticipationRegistry": altair.AsParticipationRegistry, "altair.BeaconState": altair.AsBeaconStateView,
	"altair.SyncAggregate": altair.AsSyncAggregate, "altair.SyncCommitteeBits": altair.AsSyncCommitteeBits,
	"altair.SyncCommitteeSubnetBits":    altair.AsSyncCommitteeSubnetBits,
	"altair.SyncCommitteeContribution":  altair.AsSyncCommitteeContribution,
	"altair.ContributionAndProof":       altair.AsContributionAndProof,
	"altair.SignedContributionAndProof": altair.AsSignedContributionAndProof,
	"altair.SyncCommitteeMessage":       altair.AsSyncCommitteeMessage,
	"bellatrix.ExecutionPayload":        bellatrix.AsExecutionPayload, "bellatrix.ExecutionPayloadHeader": bellatrix.AsExecutionPayloadHeader,
	"bellatrix.BeaconState":    bellatrix.AsBeaconStateView,
	"capella.ExecutionPayload": capella.AsExecutionPayload, "capella.ExecutionPayloadHeader": capella.AsExecutionPayloadHeader,
	"capella.HistoricalSummaries": capella.AsHistoricalSummaries, "capella.BeaconState": capella.AsBeaconStateView,
	"deneb.ExecutionPayload": deneb.AsExecutionPayload, "deneb.ExecutionPayloadHeader": deneb.AsExecutionPayloadHeader,
	"deneb.BeaconState":       deneb.AsBeaconStateView,
	"electra.AttestationBits": electra.AsAttestationBits, "electra.CommitteeBits": electra.AsCommitteeBits,
	"electra.BeaconState": electra.AsBeaconStateView,
}

// NewViewTable: constructors of default views: the default view has the root of the default value.
var NewViewTable = map[string]func(spec *common.Spec) view.View{
	"phase0.Validator":        func(*common.Spec) view.View { return phase0.NewValidatorView() },
	"phase0.BeaconState":      func(s *common.Spec) view.View { return phase0.NewBeaconStateView(s) },
	"altair.BeaconState":      func(s *common.Spec) view.View { return altair.NewBeaconStateView(s) },
	"bellatrix.BeaconState":   func(s *common.Spec) view.View { return bellatrix.NewBeaconStateView(s) },
	"capella.BeaconState":     func(s *common.Spec) view.View { return capella.NewBeaconStateView(s) },
	"deneb.BeaconState":       func(s *common.Spec) view.View { return deneb.NewBeaconStateView(s) },
	"electra.BeaconState":     func(s *common.Spec) view.View { return electra.NewBeaconStateView(s) },
	"phase0.DepositRootsView": func(*common.Spec) view.View { return phase0.NewDepositRootsView() },
}

var errType = reflect.TypeOf((*error)(nil)).Elem()
var viewType = reflect.TypeOf((*view.View)(nil)).Elem()

// CallAs applies an AsX constructor to (v, nil).
func CallAs(fn interface{}, v view.View) (interface{}, error) {
	fv := reflect.ValueOf(fn)
	out := fv.Call([]reflect.Value{reflect.ValueOf(v).Convert(viewType), reflect.Zero(errType)})
	if e, ok := out[1].Interface().(error); ok && e != nil {
		return nil, e
	}
	return out[0].Interface(), nil
}
