// Package sszreg is shared by the ssz and statestore harnesses: it reads the schema table exported by TLC
// (spec/Schemas.tla via spec/SSZExport.tla), generates values from schemas, renders the canonical text tree and
// evaluates merkle plans with crypto/sha256 (never with zrnt/ztyp hashing), and binds schema names to zrnt types.
package sszreg

import (
	"encoding/json"
	"fmt"
	"os"
	"reflect"

	"github.com/protolambda/zrnt/eth2/beacon/common"
	"github.com/protolambda/zrnt/eth2/configs"
)

// Limit is m * 2^e (TLC integers are 32-bit, so big limits travel as pairs).
type Limit struct {
	M, E uint64
}

func (l Limit) Value() uint64 {
	if l.E >= 64 {
		return ^uint64(0)
	}
	return l.M << l.E
}

type Field struct {
	Name   string
	Schema *Schema
}

// Schema mirrors the tuples of spec/SSZ.tla.
type Schema struct {
	Kind    string // uint bool bytevector bytelist vector list bitvector bitlist container union
	N       uint64 // uint: byte size; bytevector/vector/bitvector: length
	Lim     Limit  // bytelist/list/bitlist
	Elem    *Schema
	Fields  []Field
	Options []*Schema // union; nil entry = none
}

func parseLimit(x interface{}) (Limit, error) {
	a, ok := x.([]interface{})
	if !ok || len(a) != 2 {
		return Limit{}, fmt.Errorf("bad limit %v", x)
	}
	return Limit{uint64(a[0].(float64)), uint64(a[1].(float64))}, nil
}

func ParseSchema(x interface{}) (*Schema, error) {
	a, ok := x.([]interface{})
	if !ok || len(a) == 0 {
		return nil, fmt.Errorf("bad schema %v", x)
	}
	kind, _ := a[0].(string)
	s := &Schema{Kind: kind}
	var err error
	switch kind {
	case "uint", "bytevector", "bitvector":
		s.N = uint64(a[1].(float64))
	case "bool":
	case "bytelist", "bitlist":
		s.Lim, err = parseLimit(a[1])
	case "vector":
		if s.Elem, err = ParseSchema(a[1]); err == nil {
			s.N = uint64(a[2].(float64))
		}
	case "list":
		if s.Elem, err = ParseSchema(a[1]); err == nil {
			s.Lim, err = parseLimit(a[2])
		}
	case "container":
		fs, _ := a[1].([]interface{})
		for _, f := range fs {
			fa := f.([]interface{})
			fsch, e := ParseSchema(fa[1])
			if e != nil {
				return nil, e
			}
			s.Fields = append(s.Fields, Field{fa[0].(string), fsch})
		}
	case "union":
		for _, o := range a[1].([]interface{}) {
			oa := o.([]interface{})
			if len(oa) == 1 && oa[0] == "none" {
				s.Options = append(s.Options, nil)
				continue
			}
			os, e := ParseSchema(o)
			if e != nil {
				return nil, e
			}
			s.Options = append(s.Options, os)
		}
	default:
		return nil, fmt.Errorf("unknown schema kind %q", kind)
	}
	return s, err
}

func (s *Schema) IsFixed() bool {
	switch s.Kind {
	case "uint", "bool", "bytevector", "bitvector":
		return true
	case "vector":
		return s.Elem.IsFixed()
	case "container":
		for _, f := range s.Fields {
			if !f.Schema.IsFixed() {
				return false
			}
		}
		return true
	}
	return false
}

// MinSize: size in bytes of the smallest value (used only to decide which (type, preset) pairs are too big to
// ship through TLC; never used as an oracle).
func (s *Schema) MinSize() uint64 {
	switch s.Kind {
	case "uint", "bytevector":
		return s.N
	case "bool":
		return 1
	case "bitvector":
		return (s.N + 7) / 8
	case "bitlist":
		return 1
	case "bytelist", "list":
		return 0
	case "vector":
		sz := s.Elem.MinSize()
		if !s.Elem.IsFixed() {
			sz += 4
		}
		return sz * s.N
	case "container":
		var t uint64
		for _, f := range s.Fields {
			t += f.Schema.MinSize()
			if !f.Schema.IsFixed() {
				t += 4
			}
		}
		return t
	case "union":
		return 1
	}
	return 0
}

type TypeEntry struct {
	Name     string
	Schema   *Schema
	Public   bool
	Src      string
	Fixed    bool
	FixedLen uint64
}

type Table struct {
	PresetName string
	Preset     map[string]interface{}
	Types      []*TypeEntry
	ByName     map[string]*TypeEntry
}

func LoadTable(path string) (*Table, error) {
	raw, err := os.ReadFile(path)
	if err != nil {
		return nil, err
	}
	var doc struct {
		Preset map[string]interface{} `json:"preset"`
		Types  []struct {
			Name     string      `json:"name"`
			Schema   interface{} `json:"schema"`
			Public   bool        `json:"public"`
			Src      string      `json:"src"`
			Fixed    bool        `json:"fixed"`
			FixedLen uint64      `json:"fixedlen"`
		} `json:"types"`
	}
	if err := json.Unmarshal(raw, &doc); err != nil {
		return nil, err
	}
	t := &Table{Preset: doc.Preset, ByName: map[string]*TypeEntry{}}
	t.PresetName, _ = doc.Preset["name"].(string)
	for _, e := range doc.Types {
		s, err := ParseSchema(e.Schema)
		if err != nil {
			return nil, fmt.Errorf("%s: %v", e.Name, err)
		}
		te := &TypeEntry{e.Name, s, e.Public, e.Src, e.Fixed, e.FixedLen}
		t.Types = append(t.Types, te)
		t.ByName[e.Name] = te
	}
	return t, nil
}

// BuildSpec returns a *common.Spec whose preset constants are the ones of the TLC-exported preset record
// (everything else comes from the minimal configuration; mainnet for the "mainnet" preset).
func (t *Table) BuildSpec() (*common.Spec, error) {
	base := configs.Minimal
	if t.PresetName == "mainnet" {
		base = configs.Mainnet
	}
	cp := *base
	spec := &cp
	rv := reflect.ValueOf(spec).Elem()
	for k, v := range t.Preset {
		if k == "name" {
			continue
		}
		var val uint64
		switch x := v.(type) {
		case float64:
			val = uint64(x)
		case []interface{}:
			l, err := parseLimit(x)
			if err != nil {
				return nil, err
			}
			val = l.Value()
		default:
			return nil, fmt.Errorf("preset key %s: bad value %v", k, v)
		}
		f := rv.FieldByName(k)
		if !f.IsValid() {
			return nil, fmt.Errorf("preset key %s is not a field of common.Spec", k)
		}
		if f.Kind() != reflect.Uint64 {
			return nil, fmt.Errorf("preset key %s: field kind %s", k, f.Kind())
		}
		f.SetUint(val)
	}
	// deneb requires MAX_BLOBS_PER_BLOCK <= MAX_BLOB_COMMITMENTS_PER_BLOCK: keep custom presets consistent
	if spec.MAX_BLOBS_PER_BLOCK > spec.MAX_BLOB_COMMITMENTS_PER_BLOCK {
		spec.MAX_BLOBS_PER_BLOCK = spec.MAX_BLOB_COMMITMENTS_PER_BLOCK
	}
	if spec.MAX_BLOBS_PER_BLOCK_ELECTRA > spec.MAX_BLOB_COMMITMENTS_PER_BLOCK {
		spec.MAX_BLOBS_PER_BLOCK_ELECTRA = spec.MAX_BLOB_COMMITMENTS_PER_BLOCK
	}
	return spec, nil
}
