package sszreg

import (
	"reflect"

	"github.com/protolambda/ztyp/view"
)

var viewIface = reflect.TypeOf((*view.View)(nil)).Elem()

// Scribble overwrites the memory a caller owns: every byte/integer reachable through exported fields, array and slice
// elements and pointers of v is inverted (booleans are flipped).  It models a caller that reuses the struct, slice or
// array it passed to (or got back from) the library.  Tree-backed views are library-owned objects and are not entered.
// Returns the number of scalar cells changed.
func Scribble(v reflect.Value) int {
	if !v.IsValid() {
		return 0
	}
	t := v.Type()
	switch v.Kind() {
	case reflect.Ptr, reflect.Interface:
		if v.IsNil() {
			return 0
		}
		if v.Kind() == reflect.Ptr && t.Elem().Kind() == reflect.Struct && t.Implements(viewIface) {
			return 0
		}
		return Scribble(v.Elem())
	case reflect.Struct:
		if t.Implements(viewIface) || reflect.PtrTo(t).Implements(viewIface) {
			return 0
		}
		n := 0
		for i := 0; i < v.NumField(); i++ {
			if t.Field(i).PkgPath != "" { // unexported
				continue
			}
			n += Scribble(v.Field(i))
		}
		return n
	case reflect.Array, reflect.Slice:
		n := 0
		for i := 0; i < v.Len(); i++ {
			n += Scribble(v.Index(i))
		}
		return n
	case reflect.Uint8, reflect.Uint16, reflect.Uint32, reflect.Uint64, reflect.Uint:
		if v.CanSet() {
			v.SetUint(^v.Uint())
			return 1
		}
	case reflect.Int8, reflect.Int16, reflect.Int32, reflect.Int64, reflect.Int:
		if v.CanSet() {
			v.SetInt(^v.Int())
			return 1
		}
	case reflect.Bool:
		if v.CanSet() {
			v.SetBool(!v.Bool())
			return 1
		}
	}
	return 0
}
