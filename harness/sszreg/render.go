package sszreg

import (
	"crypto/sha256"
	"encoding/hex"
	"encoding/json"
	"fmt"
	"math/big"
	"sort"
	"strings"
)

// ---------------------------------------------------------------------------------------------------------------
// merkle plans (spec/SSZ.tla Plan): evaluated with crypto/sha256 only

var zeroRoots [][32]byte

func ZeroRoot(d int) [32]byte {
	for len(zeroRoots) <= d {
		if len(zeroRoots) == 0 {
			zeroRoots = append(zeroRoots, [32]byte{})
			continue
		}
		p := zeroRoots[len(zeroRoots)-1]
		zeroRoots = append(zeroRoots, sha256.Sum256(append(p[:], p[:]...)))
	}
	return zeroRoots[d]
}

// EvalPlan runs the stack program; returns the root and the number of hash operations.
func EvalPlan(plan []interface{}) ([32]byte, int, error) {
	var stack [][32]byte
	hashes := 0
	for i, opx := range plan {
		op, ok := opx.([]interface{})
		if !ok || len(op) == 0 {
			return [32]byte{}, 0, fmt.Errorf("plan op %d malformed", i)
		}
		switch op[0] {
		case "c":
			arr := op[1].([]interface{})
			if len(arr) != 32 {
				return [32]byte{}, 0, fmt.Errorf("plan op %d: chunk of %d bytes", i, len(arr))
			}
			var c [32]byte
			for k, b := range arr {
				c[k] = byte(b.(float64))
			}
			stack = append(stack, c)
		case "z":
			stack = append(stack, ZeroRoot(int(op[1].(float64))))
		case "h":
			if len(stack) < 2 {
				return [32]byte{}, 0, fmt.Errorf("plan op %d: stack underflow", i)
			}
			l, r := stack[len(stack)-2], stack[len(stack)-1]
			stack = stack[:len(stack)-2]
			stack = append(stack, sha256.Sum256(append(l[:], r[:]...)))
			hashes++
		default:
			return [32]byte{}, 0, fmt.Errorf("plan op %d: unknown %v", i, op[0])
		}
	}
	if len(stack) != 1 {
		return [32]byte{}, 0, fmt.Errorf("plan leaves %d roots", len(stack))
	}
	return stack[0], hashes, nil
}

func BytesOf(x interface{}) []byte {
	arr, _ := x.([]interface{})
	b := make([]byte, len(arr))
	for i, e := range arr {
		b[i] = byte(e.(float64))
	}
	return b
}

// ---------------------------------------------------------------------------------------------------------------
// canonical text tree (spec/SSZ.tla JsonTree) -> concrete JSON, and tolerant comparison

func leBytesToDecimal(b []byte) string {
	be := make([]byte, len(b))
	for i := range b {
		be[len(b)-1-i] = b[i]
	}
	return new(big.Int).SetBytes(be).String()
}

// RenderCanonical renders the tree in the consensus-spec JSON convention: unsigned integers as decimal strings,
// byte strings as 0x-hex, booleans as booleans.
func RenderCanonical(t interface{}) (interface{}, error) {
	m, ok := t.(map[string]interface{})
	if !ok {
		return nil, fmt.Errorf("json tree node is not an object: %v", t)
	}
	switch m["k"] {
	case "u":
		return leBytesToDecimal(BytesOf(m["b"])), nil
	case "t":
		return m["v"].(bool), nil
	case "x":
		return "0x" + hex.EncodeToString(BytesOf(m["b"])), nil
	case "n":
		return nil, nil
	case "a":
		arr, _ := m["e"].([]interface{})
		out := make([]interface{}, len(arr))
		for i, e := range arr {
			r, err := RenderCanonical(e)
			if err != nil {
				return nil, err
			}
			out[i] = r
		}
		return out, nil
	case "o":
		out := orderedObject{}
		fs, _ := m["f"].([]interface{})
		for _, f := range fs {
			fa := f.([]interface{})
			r, err := RenderCanonical(fa[1])
			if err != nil {
				return nil, err
			}
			out = append(out, kv{fa[0].(string), r})
		}
		return out, nil
	}
	return nil, fmt.Errorf("unknown json tree kind %v", m["k"])
}

type kv struct {
	K string
	V interface{}
}
type orderedObject []kv

func (o orderedObject) MarshalJSON() ([]byte, error) {
	var sb strings.Builder
	sb.WriteByte('{')
	for i, e := range o {
		if i > 0 {
			sb.WriteByte(',')
		}
		k, _ := json.Marshal(e.K)
		v, err := json.Marshal(e.V)
		if err != nil {
			return nil, err
		}
		sb.Write(k)
		sb.WriteByte(':')
		sb.Write(v)
	}
	sb.WriteByte('}')
	return []byte(sb.String()), nil
}

func normKey(k string) string {
	return strings.ToLower(strings.ReplaceAll(k, "_", ""))
}

// CompareText compares what the implementation marshalled (decoded generically, numbers as json.Number) with the
// canonical tree.  It is tolerant where text formats legitimately differ (a number may be a JSON number or a decimal
// string, hex digits may be upper case, key spelling may differ in case/underscores) and strict about structure and
// about every leaf VALUE.  Returns "" when equal, else a path-qualified reason.  keysExact reports whether all object
// keys were spelled exactly as in the canonical form.
func CompareText(canon interface{}, got interface{}, path string, keysExact *bool) string {
	m, ok := canon.(map[string]interface{})
	if !ok {
		return path + ": bad canonical node"
	}
	switch m["k"] {
	case "u":
		want := leBytesToDecimal(BytesOf(m["b"]))
		switch g := got.(type) {
		case string:
			if g == want {
				return ""
			}
			// hex-encoded integer?
			if strings.HasPrefix(g, "0x") {
				if v, ok := new(big.Int).SetString(g[2:], 16); ok && v.String() == want {
					return ""
				}
			}
			return fmt.Sprintf("%s: integer %s, text has %q", path, want, g)
		case json.Number:
			if g.String() == want {
				return ""
			}
			return fmt.Sprintf("%s: integer %s, text has %s", path, want, g)
		}
		return fmt.Sprintf("%s: integer %s, text has %T", path, want, got)
	case "t":
		if g, ok := got.(bool); ok && g == m["v"].(bool) {
			return ""
		}
		return fmt.Sprintf("%s: boolean %v, text has %v", path, m["v"], got)
	case "x":
		want := hex.EncodeToString(BytesOf(m["b"]))
		if g, ok := got.(string); ok {
			h := strings.ToLower(strings.TrimPrefix(strings.TrimPrefix(g, "0x"), "0X"))
			if h == want {
				return ""
			}
			return fmt.Sprintf("%s: bytes 0x%s, text has %q", path, trunc(want), trunc(g))
		}
		// a byte string written as an array of numbers
		if arr, ok := got.([]interface{}); ok {
			b := make([]byte, 0, len(arr))
			for _, e := range arr {
				n, ok := e.(json.Number)
				if !ok {
					return path + ": byte array with non-number"
				}
				v, _ := n.Int64()
				b = append(b, byte(v))
			}
			if hex.EncodeToString(b) == want {
				return ""
			}
		}
		return fmt.Sprintf("%s: bytes 0x%s, text has %v", path, trunc(want), trunc(fmt.Sprint(got)))
	case "n":
		if got == nil {
			return ""
		}
		return path + ": expected null"
	case "a":
		arr, _ := m["e"].([]interface{})
		g, ok := got.([]interface{})
		if !ok {
			if got == nil && len(arr) == 0 {
				return "" // null for an empty list
			}
			return fmt.Sprintf("%s: expected array of %d, text has %T", path, len(arr), got)
		}
		if len(g) != len(arr) {
			return fmt.Sprintf("%s: array length %d, text has %d", path, len(arr), len(g))
		}
		for i := range arr {
			if r := CompareText(arr[i], g[i], fmt.Sprintf("%s[%d]", path, i), keysExact); r != "" {
				return r
			}
		}
		return ""
	case "o":
		g, ok := got.(map[string]interface{})
		if !ok {
			return fmt.Sprintf("%s: expected object, text has %T", path, got)
		}
		fs, _ := m["f"].([]interface{})
		byNorm := map[string]interface{}{}
		for k, v := range g {
			byNorm[normKey(k)] = v
		}
		if len(byNorm) != len(fs) {
			keys := make([]string, 0, len(g))
			for k := range g {
				keys = append(keys, k)
			}
			sort.Strings(keys)
			return fmt.Sprintf("%s: object has %d keys %v, schema has %d fields", path, len(g), keys, len(fs))
		}
		for _, f := range fs {
			fa := f.([]interface{})
			name := fa[0].(string)
			if _, exact := g[name]; !exact && keysExact != nil {
				*keysExact = false
			}
			v, ok := byNorm[normKey(name)]
			if !ok {
				return fmt.Sprintf("%s: field %q missing in text", path, name)
			}
			if r := CompareText(fa[1], v, path+"."+name, keysExact); r != "" {
				return r
			}
		}
		return ""
	}
	return path + ": unknown canonical kind"
}

func trunc(s string) string {
	if len(s) > 80 {
		return s[:40] + "…" + s[len(s)-20:]
	}
	return s
}
