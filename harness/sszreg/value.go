package sszreg

import (
	"bytes"
	"fmt"
	"math/rand"
	"strconv"
	"strings"
)

// Value is a tree: leaves are byte sequences (uint little-endian bytes, bool {0|1}, byte vectors/lists, and for
// bitfields one byte (0/1) per bit); inner nodes are sequences of values (vector/list elements, container fields,
// union <<selector, value>>).
type Value struct {
	Leaf bool
	B    []byte
	L    []*Value
}

func LeafOf(b []byte) *Value   { return &Value{Leaf: true, B: b} }
func NodeOf(l []*Value) *Value { return &Value{L: l} }

// AppendJSON renders the value the way spec/SSZEval.tla reads it: nested arrays of small integers.
func (v *Value) AppendJSON(buf *bytes.Buffer) {
	buf.WriteByte('[')
	if v.Leaf {
		for i, b := range v.B {
			if i > 0 {
				buf.WriteByte(',')
			}
			buf.WriteString(strconv.Itoa(int(b)))
		}
	} else {
		for i, e := range v.L {
			if i > 0 {
				buf.WriteByte(',')
			}
			e.AppendJSON(buf)
		}
	}
	buf.WriteByte(']')
}

func (v *Value) Size() int {
	if v.Leaf {
		return len(v.B)
	}
	n := 0
	for _, e := range v.L {
		n += e.Size()
	}
	return n
}

// ParseValue converts a decoded JSON value tree (nested arrays) back, directed by the schema.
func ParseValue(s *Schema, x interface{}) (*Value, error) {
	a, ok := x.([]interface{})
	if !ok {
		return nil, fmt.Errorf("value is not an array")
	}
	switch s.Kind {
	case "uint", "bool", "bytevector", "bytelist", "bitvector", "bitlist":
		b := make([]byte, len(a))
		for i, e := range a {
			b[i] = byte(e.(float64))
		}
		return LeafOf(b), nil
	case "vector", "list":
		l := make([]*Value, len(a))
		for i, e := range a {
			v, err := ParseValue(s.Elem, e)
			if err != nil {
				return nil, err
			}
			l[i] = v
		}
		return NodeOf(l), nil
	case "container":
		if len(a) != len(s.Fields) {
			return nil, fmt.Errorf("container arity")
		}
		l := make([]*Value, len(a))
		for i, e := range a {
			v, err := ParseValue(s.Fields[i].Schema, e)
			if err != nil {
				return nil, err
			}
			l[i] = v
		}
		return NodeOf(l), nil
	}
	return nil, fmt.Errorf("unsupported kind %s", s.Kind)
}

// ---------------------------------------------------------------------------------------------------------------
// generation from the schema

type GenMode int

const (
	GenDefault GenMode = iota // zero / empty
	GenOnes                   // all-ones leaves, one element per list
	GenRandom                 // boundary-biased random
	GenFull                   // lists at their limit where that is small
)

type Gen struct {
	R      *rand.Rand
	Mode   GenMode
	Budget int // remaining leaf bytes the value may still grow by (lists stop growing when exhausted)
	// over-limit generation: the Target-th list-like node visited gets limit+1 elements
	OverTarget int
	overSeen   int
	OverDone   bool
	OverCap    uint64
	OverPath   string   // field path of the list that exceeds its limit
	path       []string // current field path
}

func (g *Gen) uintBytes(n int) []byte {
	b := make([]byte, n)
	switch g.Mode {
	case GenDefault:
	case GenOnes, GenFull:
		for i := range b {
			b[i] = 0xff
		}
	default:
		switch g.R.Intn(8) {
		case 0:
		case 1:
			b[0] = 1
		case 2:
			for i := range b {
				b[i] = 0xff
			}
		case 3:
			for i := range b {
				b[i] = 0xff
			}
			b[0] = 0xfe
		case 4:
			b[g.R.Intn(n)] = 1 << uint(g.R.Intn(8))
		case 5: // small number
			b[0] = byte(g.R.Intn(256))
		default:
			g.R.Read(b)
		}
	}
	return b
}

func (g *Gen) rawBytes(n int) []byte {
	b := make([]byte, n)
	switch g.Mode {
	case GenDefault:
	case GenOnes, GenFull:
		for i := range b {
			b[i] = 0xff
		}
	default:
		if g.R.Intn(6) == 0 {
			return b
		}
		g.R.Read(b)
	}
	return b
}

func (g *Gen) bits(n int) []byte {
	b := make([]byte, n)
	switch g.Mode {
	case GenDefault:
	case GenOnes, GenFull:
		for i := range b {
			b[i] = 1
		}
	default:
		switch g.R.Intn(4) {
		case 0:
		case 1:
			for i := range b {
				b[i] = 1
			}
		default:
			for i := range b {
				b[i] = byte(g.R.Intn(2))
			}
		}
	}
	return b
}

// pickLen chooses a list length given the limit, the per-element minimum cost and boundary candidates.
func (g *Gen) pickLen(lim Limit, elemCost int, boundaries []uint64) uint64 {
	limit := lim.Value()
	// over-limit target?
	if g.OverTarget > 0 && !g.OverDone {
		g.overSeen++
		if g.overSeen == g.OverTarget && limit < g.OverCap && (limit+1)*uint64(max(elemCost, 1)) <= uint64(max(g.Budget, 0)) {
			g.OverDone = true
			g.OverPath = strings.Join(g.path, ".")
			return limit + 1
		}
	}
	maxAfford := uint64(0)
	if g.Budget > 0 {
		maxAfford = uint64(g.Budget / max(elemCost, 1))
	}
	capLen := limit
	if maxAfford < capLen {
		capLen = maxAfford
	}
	var n uint64
	switch g.Mode {
	case GenDefault:
		n = 0
	case GenOnes:
		n = 1
	case GenFull:
		n = limit
	default:
		cands := []uint64{0, 1, 2, 3, limit, limit - 1}
		cands = append(cands, boundaries...)
		if g.R.Intn(3) == 0 {
			n = uint64(g.R.Intn(int(min64(capLen, 40)) + 1))
		} else {
			n = cands[g.R.Intn(len(cands))]
		}
	}
	if n > capLen {
		n = capLen
	}
	return n
}

func min64(a, b uint64) uint64 {
	if a < b {
		return a
	}
	return b
}

func (g *Gen) Value(s *Schema) *Value {
	switch s.Kind {
	case "uint":
		g.Budget -= int(s.N)
		return LeafOf(g.uintBytes(int(s.N)))
	case "bool":
		g.Budget--
		b := byte(0)
		if g.Mode == GenOnes || g.Mode == GenFull || (g.Mode == GenRandom && g.R.Intn(2) == 1) {
			b = 1
		}
		return LeafOf([]byte{b})
	case "bytevector":
		g.Budget -= int(s.N)
		return LeafOf(g.rawBytes(int(s.N)))
	case "bytelist":
		n := g.pickLen(s.Lim, 1, []uint64{31, 32, 33, 64, 65})
		g.Budget -= int(n)
		return LeafOf(g.rawBytes(int(n)))
	case "bitvector":
		g.Budget -= int(s.N+7) / 8
		return LeafOf(g.bits(int(s.N)))
	case "bitlist":
		// one "cost unit" per bit keeps bitlists modest (a bit is one byte in the value tree sent to TLC)
		n := g.pickLen(s.Lim, 1, []uint64{7, 8, 9, 15, 16, 17, 255, 256, 257})
		g.Budget -= int(n)
		return LeafOf(g.bits(int(n)))
	case "vector":
		l := make([]*Value, s.N)
		for i := range l {
			l[i] = g.Value(s.Elem)
		}
		return NodeOf(l)
	case "list":
		cost := int(s.Elem.MinSize())
		if !s.Elem.IsFixed() {
			cost += 4
		}
		n := g.pickLen(s.Lim, cost, []uint64{4, 5, 8, 9})
		l := make([]*Value, n)
		g.path = append(g.path, "[]")
		for i := range l {
			l[i] = g.Value(s.Elem)
		}
		g.path = g.path[:len(g.path)-1]
		return NodeOf(l)
	case "container":
		l := make([]*Value, len(s.Fields))
		// fixed-size mandatory parts are paid for first so that lists share what is left
		for i, f := range s.Fields {
			g.path = append(g.path, f.Name)
			l[i] = g.Value(f.Schema)
			g.path = g.path[:len(g.path)-1]
		}
		return NodeOf(l)
	}
	panic("unsupported schema kind " + s.Kind)
}

// CountLists returns the number of list-like nodes a default traversal visits (for choosing OverTarget).
func CountLists(s *Schema) int {
	switch s.Kind {
	case "bytelist", "bitlist":
		return 1
	case "list":
		return 1
	case "vector":
		return CountLists(s.Elem) * int(min64(s.N, 4))
	case "container":
		n := 0
		for _, f := range s.Fields {
			n += CountLists(f.Schema)
		}
		return n
	}
	return 0
}
