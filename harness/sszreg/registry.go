package sszreg

import (
	"github.com/protolambda/zrnt/eth2/beacon/altair"
	"github.com/protolambda/zrnt/eth2/beacon/bellatrix"
	"github.com/protolambda/zrnt/eth2/beacon/capella"
	"github.com/protolambda/zrnt/eth2/beacon/common"
	"github.com/protolambda/zrnt/eth2/beacon/deneb"
	"github.com/protolambda/zrnt/eth2/beacon/electra"
	"github.com/protolambda/zrnt/eth2/beacon/phase0"
	"github.com/protolambda/ztyp/view"
)

// Binding ties a schema-table name to the zrnt Go type (struct form) and, where the library defines one, to the
// tree-view type definition.
type Binding struct {
	Name string
	New  func() interface{}                    // pointer to a zero value of the struct-form type
	Type func(spec *common.Spec) view.TypeDef // nil when the library has no view type for it
}

type S = common.Spec

func st(t view.TypeDef) func(*S) view.TypeDef { return func(*S) view.TypeDef { return t } }

// Registry lists every type of /repo/eth2 that has a Deserialize method (the inventory of DESIGN appendix E).
var Registry = []Binding{
	// ---- common
	{"common.AttnetBits", func() interface{} { return new(common.AttnetBits) }, nil},
	{"common.BLSDomain", func() interface{} { return new(common.BLSDomain) }, st(common.BLSDomainTreeType)},
	{"common.BLSDomainType", func() interface{} { return new(common.BLSDomainType) }, st(common.BLSDomainTypeTreeType)},
	{"common.BLSPubkey", func() interface{} { return new(common.BLSPubkey) }, st(common.BLSPubkeyType)},
	{"common.BLSSignature", func() interface{} { return new(common.BLSSignature) }, st(common.BLSSignatureType)},
	{"common.BLSToExecutionChange", func() interface{} { return new(common.BLSToExecutionChange) }, st(common.BLSToExecutionChangeType)},
	{"common.BeaconBlockHeader", func() interface{} { return new(common.BeaconBlockHeader) }, st(common.BeaconBlockHeaderType)},
	{"common.Checkpoint", func() interface{} { return new(common.Checkpoint) }, st(common.CheckpointType)},
	{"common.CommitteeIndex", func() interface{} { return new(common.CommitteeIndex) }, st(common.CommitteeIndexType)},
	{"common.CommitteeIndices", func() interface{} { return new(common.CommitteeIndices) }, func(s *S) view.TypeDef { return s.CommitteeIndices() }},
	{"common.ConsolidationRequest", func() interface{} { return new(common.ConsolidationRequest) }, st(common.ConsolidationRequestType)},
	{"common.ConsolidationRequests", func() interface{} { return new(common.ConsolidationRequests) }, func(s *S) view.TypeDef { return common.ConsolidationRequestsType(s) }},
	{"common.Deposit", func() interface{} { return new(common.Deposit) }, st(common.DepositType)},
	{"common.DepositData", func() interface{} { return new(common.DepositData) }, st(common.DepositDataType)},
	{"common.DepositIndex", func() interface{} { return new(common.DepositIndex) }, nil},
	{"common.DepositMessage", func() interface{} { return new(common.DepositMessage) }, st(common.DepositMessageType)},
	{"common.DepositProof", func() interface{} { return new(common.DepositProof) }, st(common.DepositProofType)},
	{"common.DepositRequest", func() interface{} { return new(common.DepositRequest) }, st(common.DepositRequestType)},
	{"common.DepositRequests", func() interface{} { return new(common.DepositRequests) }, func(s *S) view.TypeDef { return common.DepositRequestsType(s) }},
	{"common.Epoch", func() interface{} { return new(common.Epoch) }, st(common.EpochType)},
	{"common.Eth1Address", func() interface{} { return new(common.Eth1Address) }, st(common.Eth1AddressType)},
	{"common.Eth1Data", func() interface{} { return new(common.Eth1Data) }, st(common.Eth1DataType)},
	{"common.Eth2Data", func() interface{} { return new(common.Eth2Data) }, nil},
	{"common.ExtraData", func() interface{} { return new(common.ExtraData) }, st(common.ExtraDataType)},
	{"common.Fork", func() interface{} { return new(common.Fork) }, st(common.ForkType)},
	{"common.ForkData", func() interface{} { return new(common.ForkData) }, st(common.ForkDataType)},
	{"common.ForkDigest", func() interface{} { return new(common.ForkDigest) }, st(common.ForkDigestType)},
	{"common.Goodbye", func() interface{} { return new(common.Goodbye) }, nil},
	{"common.Gwei", func() interface{} { return new(common.Gwei) }, st(common.GweiType)},
	{"common.GweiList", func() interface{} { return new(common.GweiList) }, nil},
	{"common.Deltas", func() interface{} { return new(common.Deltas) }, nil},
	{"common.JustificationBits", func() interface{} { return new(common.JustificationBits) }, st(common.JustificationBitsType)},
	{"common.KZGCommitment", func() interface{} { return new(common.KZGCommitment) }, st(common.KZGCommitmentType)},
	{"common.LogsBloom", func() interface{} { return new(common.LogsBloom) }, st(common.LogsBloomType)},
	{"common.MetaData", func() interface{} { return new(common.MetaData) }, nil},
	{"common.NetworkMessageDomain", func() interface{} { return new(common.NetworkMessageDomain) }, nil},
	{"common.PayloadTransactions", func() interface{} { return new(common.PayloadTransactions) }, func(s *S) view.TypeDef { return common.PayloadTransactionsType(s) }},
	{"common.PendingConsolidation", func() interface{} { return new(common.PendingConsolidation) }, st(common.PendingConsolidationType)},
	{"common.PendingConsolidations", func() interface{} { return new(common.PendingConsolidations) }, func(s *S) view.TypeDef { return common.PendingConsolidationsType(s) }},
	{"common.PendingDeposit", func() interface{} { return new(common.PendingDeposit) }, st(common.PendingDepositType)},
	{"common.PendingDeposits", func() interface{} { return new(common.PendingDeposits) }, func(s *S) view.TypeDef { return common.PendingDepositsType(s) }},
	{"common.PendingPartialWithdrawal", func() interface{} { return new(common.PendingPartialWithdrawal) }, st(common.PendingPartialWithdrawalType)},
	{"common.PendingPartialWithdrawals", func() interface{} { return new(common.PendingPartialWithdrawals) }, func(s *S) view.TypeDef { return common.PendingPartialWithdrawalsType(s) }},
	{"common.Ping", func() interface{} { return new(common.Ping) }, nil},
	{"common.Pong", func() interface{} { return new(common.Pong) }, nil},
	{"common.SeqNr", func() interface{} { return new(common.SeqNr) }, nil},
	{"common.SignedBLSToExecutionChange", func() interface{} { return new(common.SignedBLSToExecutionChange) }, st(common.SignedBLSToExecutionChangeType)},
	{"common.SignedBLSToExecutionChanges", func() interface{} { return new(common.SignedBLSToExecutionChanges) }, func(s *S) view.TypeDef { return common.BlockSignedBLSToExecutionChangesType(s) }},
	{"common.SignedBeaconBlockHeader", func() interface{} { return new(common.SignedBeaconBlockHeader) }, st(common.SignedBeaconBlockHeaderType)},
	{"common.SigningData", func() interface{} { return new(common.SigningData) }, st(common.SigningDataType)},
	{"common.Slot", func() interface{} { return new(common.Slot) }, st(common.SlotType)},
	{"common.SlotCommitteeIndices", func() interface{} { return new(common.SlotCommitteeIndices) }, nil},
	{"common.Status", func() interface{} { return new(common.Status) }, nil},
	{"common.SyncCommittee", func() interface{} { return new(common.SyncCommittee) }, func(s *S) view.TypeDef { return common.SyncCommitteeType(s) }},
	{"common.SyncCommitteePubkeys", func() interface{} { return new(common.SyncCommitteePubkeys) }, func(s *S) view.TypeDef { return common.SyncCommitteePubkeysType(s) }},
	{"common.SyncnetBits", func() interface{} { return new(common.SyncnetBits) }, nil},
	{"common.Timestamp", func() interface{} { return new(common.Timestamp) }, st(common.TimestampType)},
	{"common.Transaction", func() interface{} { return new(common.Transaction) }, func(s *S) view.TypeDef { return common.TransactionType(s) }},
	{"common.ValidatorIndex", func() interface{} { return new(common.ValidatorIndex) }, st(common.ValidatorIndexType)},
	{"common.Version", func() interface{} { return new(common.Version) }, st(common.VersionType)},
	{"common.Withdrawal", func() interface{} { return new(common.Withdrawal) }, st(common.WithdrawalType)},
	{"common.Withdrawals", func() interface{} { return new(common.Withdrawals) }, func(s *S) view.TypeDef { return common.WithdrawalsType(s) }},
	{"common.WithdrawalIndex", func() interface{} { return new(common.WithdrawalIndex) }, st(common.WithdrawalIndexType)},
	{"common.WithdrawalRequest", func() interface{} { return new(common.WithdrawalRequest) }, st(common.WithdrawalRequestType)},
	{"common.WithdrawalRequests", func() interface{} { return new(common.WithdrawalRequests) }, func(s *S) view.TypeDef { return common.WithdrawalRequestsType(s) }},
	// ---- phase0
	{"phase0.AggregateAndProof", func() interface{} { return new(phase0.AggregateAndProof) }, nil},
	{"phase0.SignedAggregateAndProof", func() interface{} { return new(phase0.SignedAggregateAndProof) }, nil},
	{"phase0.Attestation", func() interface{} { return new(phase0.Attestation) }, func(s *S) view.TypeDef { return phase0.AttestationType(s) }},
	{"phase0.Attestations", func() interface{} { return new(phase0.Attestations) }, func(s *S) view.TypeDef { return phase0.BlockAttestationsType(s) }},
	{"phase0.AttestationBits", func() interface{} { return new(phase0.AttestationBits) }, func(s *S) view.TypeDef { return phase0.AttestationBitsType(s) }},
	{"phase0.AttestationData", func() interface{} { return new(phase0.AttestationData) }, st(phase0.AttestationDataType)},
	{"phase0.AttesterSlashing", func() interface{} { return new(phase0.AttesterSlashing) }, func(s *S) view.TypeDef { return phase0.AttesterSlashingType(s) }},
	{"phase0.AttesterSlashings", func() interface{} { return new(phase0.AttesterSlashings) }, func(s *S) view.TypeDef { return phase0.BlockAttesterSlashingsType(s) }},
	{"phase0.Balances", func() interface{} { return new(phase0.Balances) }, func(s *S) view.TypeDef { return phase0.RegistryBalancesType(s) }},
	{"phase0.BeaconBlockBody", func() interface{} { return new(phase0.BeaconBlockBody) }, func(s *S) view.TypeDef { return phase0.BeaconBlockBodyType(s) }},
	{"phase0.BeaconBlock", func() interface{} { return new(phase0.BeaconBlock) }, func(s *S) view.TypeDef { return phase0.BeaconBlockType(s) }},
	{"phase0.SignedBeaconBlock", func() interface{} { return new(phase0.SignedBeaconBlock) }, func(s *S) view.TypeDef { return phase0.SignedBeaconBlockType(s) }},
	{"phase0.Deposits", func() interface{} { return new(phase0.Deposits) }, func(s *S) view.TypeDef { return phase0.BlockDepositsType(s) }},
	{"phase0.Eth1DataVotes", func() interface{} { return new(phase0.Eth1DataVotes) }, func(s *S) view.TypeDef { return phase0.Eth1DataVotesType(s) }},
	{"phase0.HistoricalRoots", func() interface{} { return new(phase0.HistoricalRoots) }, func(s *S) view.TypeDef { return phase0.HistoricalRootsType(s) }},
	{"phase0.HistoricalBatchRoots", func() interface{} { return new(phase0.HistoricalBatchRoots) }, func(s *S) view.TypeDef { return phase0.BatchRootsType(s) }},
	{"phase0.HistoricalBatch", func() interface{} { return new(phase0.HistoricalBatch) }, func(s *S) view.TypeDef { return phase0.HistoricalBatchType(s) }},
	{"phase0.IndexedAttestation", func() interface{} { return new(phase0.IndexedAttestation) }, func(s *S) view.TypeDef { return phase0.IndexedAttestationType(s) }},
	{"phase0.PendingAttestation", func() interface{} { return new(phase0.PendingAttestation) }, func(s *S) view.TypeDef { return phase0.PendingAttestationType(s) }},
	{"phase0.PendingAttestations", func() interface{} { return new(phase0.PendingAttestations) }, func(s *S) view.TypeDef { return phase0.PendingAttestationsType(s) }},
	{"phase0.ProposerSlashing", func() interface{} { return new(phase0.ProposerSlashing) }, st(phase0.ProposerSlashingType)},
	{"phase0.ProposerSlashings", func() interface{} { return new(phase0.ProposerSlashings) }, func(s *S) view.TypeDef { return phase0.BlockProposerSlashingsType(s) }},
	{"phase0.RandaoMixes", func() interface{} { return new(phase0.RandaoMixes) }, func(s *S) view.TypeDef { return phase0.RandaoMixesType(s) }},
	{"phase0.RegistryIndices", func() interface{} { return new(phase0.RegistryIndices) }, nil},
	{"phase0.ValidatorRegistry", func() interface{} { return new(phase0.ValidatorRegistry) }, func(s *S) view.TypeDef { return phase0.ValidatorsRegistryType(s) }},
	{"phase0.SlashingsHistory", func() interface{} { return new(phase0.SlashingsHistory) }, func(s *S) view.TypeDef { return phase0.SlashingsType(s) }},
	{"phase0.BeaconState", func() interface{} { return new(phase0.BeaconState) }, func(s *S) view.TypeDef { return phase0.BeaconStateType(s) }},
	{"phase0.Validator", func() interface{} { return new(phase0.Validator) }, st(phase0.ValidatorType)},
	{"phase0.VoluntaryExit", func() interface{} { return new(phase0.VoluntaryExit) }, st(phase0.VoluntaryExitType)},
	{"phase0.SignedVoluntaryExit", func() interface{} { return new(phase0.SignedVoluntaryExit) }, st(phase0.SignedVoluntaryExitType)},
	{"phase0.VoluntaryExits", func() interface{} { return new(phase0.VoluntaryExits) }, func(s *S) view.TypeDef { return phase0.BlockVoluntaryExitsType(s) }},
	// view-only: the deposit-contract root list has no struct form in the library
	{"phase0.DepositRootsView", nil, st(phase0.DepositRootsType)},
	// ---- altair
	{"altair.BeaconBlockBody", func() interface{} { return new(altair.BeaconBlockBody) }, func(s *S) view.TypeDef { return altair.BeaconBlockBodyType(s) }},
	{"altair.BeaconBlock", func() interface{} { return new(altair.BeaconBlock) }, func(s *S) view.TypeDef { return altair.BeaconBlockType(s) }},
	{"altair.SignedBeaconBlock", func() interface{} { return new(altair.SignedBeaconBlock) }, func(s *S) view.TypeDef { return altair.SignedBeaconBlockType(s) }},
	{"altair.InactivityScores", func() interface{} { return new(altair.InactivityScores) }, func(s *S) view.TypeDef { return altair.InactivityScoresType(s) }},
	{"altair.FinalizedRootProofBranch", func() interface{} { return new(altair.FinalizedRootProofBranch) }, st(altair.FinalizedRootProofBranchType)},
	{"altair.SyncCommitteeProofBranch", func() interface{} { return new(altair.SyncCommitteeProofBranch) }, st(altair.SyncCommitteeProofBranchType)},
	{"altair.LightClientUpdate", func() interface{} { return new(altair.LightClientUpdate) }, func(s *S) view.TypeDef { return altair.LightClientUpdateType(s) }},
	{"altair.LightClientSnapshot", func() interface{} { return new(altair.LightClientSnapshot) }, func(s *S) view.TypeDef { return altair.LightClientSnapshotType(s) }},
	{"altair.ParticipationFlags", func() interface{} { return new(altair.ParticipationFlags) }, st(altair.ParticipationFlagsType)},
	{"altair.ParticipationRegistry", func() interface{} { return new(altair.ParticipationRegistry) }, func(s *S) view.TypeDef { return altair.ParticipationRegistryType(s) }},
	{"altair.BeaconState", func() interface{} { return new(altair.BeaconState) }, func(s *S) view.TypeDef { return altair.BeaconStateType(s) }},
	{"altair.SyncAggregate", func() interface{} { return new(altair.SyncAggregate) }, func(s *S) view.TypeDef { return altair.SyncAggregateType(s) }},
	{"altair.SyncAggregatorSelectionData", func() interface{} { return new(altair.SyncAggregatorSelectionData) }, st(altair.SyncAggregatorSelectionDataType)},
	{"altair.SyncCommitteeBits", func() interface{} { return new(altair.SyncCommitteeBits) }, func(s *S) view.TypeDef { return altair.SyncCommitteeBitsType(s) }},
	{"altair.SyncCommitteeSubnetBits", func() interface{} { return new(altair.SyncCommitteeSubnetBits) }, func(s *S) view.TypeDef { return altair.SyncCommitteeSubnetBitsType(s) }},
	{"altair.SyncCommitteeContribution", func() interface{} { return new(altair.SyncCommitteeContribution) }, func(s *S) view.TypeDef { return altair.SyncCommitteeContributionType(s) }},
	{"altair.ContributionAndProof", func() interface{} { return new(altair.ContributionAndProof) }, func(s *S) view.TypeDef { return altair.ContributionAndProofType(s) }},
	{"altair.SignedContributionAndProof", func() interface{} { return new(altair.SignedContributionAndProof) }, func(s *S) view.TypeDef { return altair.SignedContributionAndProofType(s) }},
	{"altair.SyncCommitteeMessage", func() interface{} { return new(altair.SyncCommitteeMessage) }, st(altair.SyncCommitteeMessageType)},
	// ---- bellatrix
	{"bellatrix.BeaconBlockBody", func() interface{} { return new(bellatrix.BeaconBlockBody) }, func(s *S) view.TypeDef { return bellatrix.BeaconBlockBodyType(s) }},
	{"bellatrix.BeaconBlockBodyShallow", func() interface{} { return new(bellatrix.BeaconBlockBodyShallow) }, nil},
	{"bellatrix.BeaconBlock", func() interface{} { return new(bellatrix.BeaconBlock) }, func(s *S) view.TypeDef { return bellatrix.BeaconBlockType(s) }},
	{"bellatrix.SignedBeaconBlock", func() interface{} { return new(bellatrix.SignedBeaconBlock) }, func(s *S) view.TypeDef { return bellatrix.SignedBeaconBlockType(s) }},
	{"bellatrix.ExecutionPayloadHeader", func() interface{} { return new(bellatrix.ExecutionPayloadHeader) }, st(bellatrix.ExecutionPayloadHeaderType)},
	{"bellatrix.ExecutionPayload", func() interface{} { return new(bellatrix.ExecutionPayload) }, func(s *S) view.TypeDef { return bellatrix.ExecutionPayloadType(s) }},
	{"bellatrix.BeaconState", func() interface{} { return new(bellatrix.BeaconState) }, func(s *S) view.TypeDef { return bellatrix.BeaconStateType(s) }},
	// ---- capella
	{"capella.BeaconBlockBody", func() interface{} { return new(capella.BeaconBlockBody) }, func(s *S) view.TypeDef { return capella.BeaconBlockBodyType(s) }},
	{"capella.BeaconBlockBodyShallow", func() interface{} { return new(capella.BeaconBlockBodyShallow) }, nil},
	{"capella.BeaconBlock", func() interface{} { return new(capella.BeaconBlock) }, func(s *S) view.TypeDef { return capella.BeaconBlockType(s) }},
	{"capella.SignedBeaconBlock", func() interface{} { return new(capella.SignedBeaconBlock) }, func(s *S) view.TypeDef { return capella.SignedBeaconBlockType(s) }},
	{"capella.ExecutionPayloadHeader", func() interface{} { return new(capella.ExecutionPayloadHeader) }, st(capella.ExecutionPayloadHeaderType)},
	{"capella.ExecutionPayload", func() interface{} { return new(capella.ExecutionPayload) }, func(s *S) view.TypeDef { return capella.ExecutionPayloadType(s) }},
	{"capella.HistoricalSummary", func() interface{} { return new(capella.HistoricalSummary) }, st(capella.HistoricalSummaryType)},
	{"capella.HistoricalSummaries", func() interface{} { return new(capella.HistoricalSummaries) }, func(s *S) view.TypeDef { return capella.HistoricalSummariesType(s) }},
	{"capella.BeaconState", func() interface{} { return new(capella.BeaconState) }, func(s *S) view.TypeDef { return capella.BeaconStateType(s) }},
	// ---- deneb
	{"deneb.BeaconBlockBody", func() interface{} { return new(deneb.BeaconBlockBody) }, func(s *S) view.TypeDef { return deneb.BeaconBlockBodyType(s) }},
	{"deneb.BeaconBlockBodyShallow", func() interface{} { return new(deneb.BeaconBlockBodyShallow) }, nil},
	{"deneb.BeaconBlock", func() interface{} { return new(deneb.BeaconBlock) }, func(s *S) view.TypeDef { return deneb.BeaconBlockType(s) }},
	{"deneb.SignedBeaconBlock", func() interface{} { return new(deneb.SignedBeaconBlock) }, func(s *S) view.TypeDef { return deneb.SignedBeaconBlockType(s) }},
	{"deneb.KZGCommitments", func() interface{} { return new(deneb.KZGCommitments) }, func(s *S) view.TypeDef { return deneb.KZGCommitmentsType(s) }},
	{"deneb.ExecutionPayloadHeader", func() interface{} { return new(deneb.ExecutionPayloadHeader) }, st(deneb.ExecutionPayloadHeaderType)},
	{"deneb.ExecutionPayload", func() interface{} { return new(deneb.ExecutionPayload) }, func(s *S) view.TypeDef { return deneb.ExecutionPayloadType(s) }},
	{"deneb.BeaconState", func() interface{} { return new(deneb.BeaconState) }, func(s *S) view.TypeDef { return deneb.BeaconStateType(s) }},
	// ---- electra
	{"electra.AggregateAndProof", func() interface{} { return new(electra.AggregateAndProof) }, nil},
	{"electra.SignedAggregateAndProof", func() interface{} { return new(electra.SignedAggregateAndProof) }, nil},
	{"electra.Attestations", func() interface{} { return new(electra.Attestations) }, func(s *S) view.TypeDef { return electra.BlockAttestationsType(s) }},
	{"electra.SingleAttestation", func() interface{} { return new(electra.SingleAttestation) }, st(electra.SingleAttestationType)},
	{"electra.Attestation", func() interface{} { return new(electra.Attestation) }, func(s *S) view.TypeDef { return electra.AttestationType(s) }},
	{"electra.IndexedAttestation", func() interface{} { return new(electra.IndexedAttestation) }, func(s *S) view.TypeDef { return electra.IndexedAttestationType(s) }},
	{"electra.AttestationBits", func() interface{} { return new(electra.AttestationBits) }, func(s *S) view.TypeDef { return electra.AttestationBitsType(s) }},
	{"electra.AttesterSlashing", func() interface{} { return new(electra.AttesterSlashing) }, func(s *S) view.TypeDef { return electra.AttesterSlashingType(s) }},
	{"electra.AttesterSlashings", func() interface{} { return new(electra.AttesterSlashings) }, func(s *S) view.TypeDef { return electra.BlockAttesterSlashingsType(s) }},
	{"electra.BeaconBlockBody", func() interface{} { return new(electra.BeaconBlockBody) }, func(s *S) view.TypeDef { return electra.BeaconBlockBodyType(s) }},
	{"electra.BeaconBlockBodyShallow", func() interface{} { return new(electra.BeaconBlockBodyShallow) }, nil},
	{"electra.BeaconBlock", func() interface{} { return new(electra.BeaconBlock) }, func(s *S) view.TypeDef { return electra.BeaconBlockType(s) }},
	{"electra.SignedBeaconBlock", func() interface{} { return new(electra.SignedBeaconBlock) }, func(s *S) view.TypeDef { return electra.SignedBeaconBlockType(s) }},
	{"electra.CommitteeBits", func() interface{} { return new(electra.CommitteeBits) }, func(s *S) view.TypeDef { return electra.CommitteeBitsType(s) }},
	{"electra.ExecutionRequests", func() interface{} { return new(electra.ExecutionRequests) }, func(s *S) view.TypeDef { return electra.ExecutionRequestsType(s) }},
	{"electra.BeaconState", func() interface{} { return new(electra.BeaconState) }, func(s *S) view.TypeDef { return electra.BeaconStateType(s) }},
}

func RegistryByName() map[string]*Binding {
	m := map[string]*Binding{}
	for i := range Registry {
		m[Registry[i].Name] = &Registry[i]
	}
	return m
}
