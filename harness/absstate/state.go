// Package absstate projects zrnt beacon states (any fork) and blocks onto the abstract records that
// the TLA+ reference specification (spec/Beacon*.tla, DESIGN appendix F) works on.
//
// Abstraction: every root / hash / pubkey / address / signature is an opaque short string (ID), numbers
// are plain ints < 2^31 (anything larger is an error: the checks run under scaled presets), and
// FAR_FUTURE_EPOCH is the sentinel 1000000.
package absstate

import (
	"crypto/sha256"
	"encoding/hex"
	"fmt"

	"github.com/holiman/uint256"
	"github.com/protolambda/zrnt/eth2/beacon/altair"
	"github.com/protolambda/zrnt/eth2/beacon/bellatrix"
	"github.com/protolambda/zrnt/eth2/beacon/capella"
	"github.com/protolambda/zrnt/eth2/beacon/common"
	"github.com/protolambda/zrnt/eth2/beacon/deneb"
	"github.com/protolambda/zrnt/eth2/beacon/phase0"
	"github.com/protolambda/ztyp/view"
)

const Far = 1000000

// ID is the opaque identity of a byte string: the bytes themselves in hex when short (<= 8 bytes), the fixed
// ZeroID for an all-zero string of any length, otherwise the first four bytes followed by the first four
// bytes of sha256(b) - so that EVERY byte matters (a corruption anywhere in a root changes its identity)
// while values stay recognisable.
func ID(b []byte) string {
	if len(b) <= 8 {
		return hex.EncodeToString(b)
	}
	zero := true
	for _, x := range b {
		if x != 0 {
			zero = false
			break
		}
	}
	if zero {
		return ZeroID
	}
	h := sha256.Sum256(b)
	return hex.EncodeToString(b[:4]) + hex.EncodeToString(h[:4])
}

const ZeroID = "0000000000000000"

type Checkpoint struct {
	Epoch int    `json:"epoch"`
	Root  string `json:"root"`
}

type Header struct {
	Slot      int    `json:"slot"`
	Proposer  int    `json:"proposer"`
	Parent    string `json:"parent"`
	StateRoot string `json:"state_root"`
	BodyRoot  string `json:"body_root"`
}

type ForkRec struct {
	Prev  string `json:"prev"`
	Cur   string `json:"cur"`
	Epoch int    `json:"epoch"`
}

type Eth1 struct {
	DepositRoot string `json:"deposit_root"`
	Count       int    `json:"count"`
	BlockHash   string `json:"block_hash"`
}

// WC is a withdrawal-credentials value: prefix byte, bytes 1..11 (empty when all zero), bytes 12..31.
type WC struct {
	Pfx  int    `json:"pfx"`
	Mid  string `json:"mid"`
	Addr string `json:"addr"`
}

type Validator struct {
	Pk      string `json:"pk"`
	Wc      WC     `json:"wc"`
	Eff     int    `json:"eff"`
	Slashed bool   `json:"slashed"`
	Elig    int    `json:"elig"`
	Act     int    `json:"act"`
	Exit    int    `json:"exit"`
	Wd      int    `json:"wd"`
}

type AttData struct {
	Slot  int        `json:"slot"`
	Index int        `json:"index"`
	Bbr   string     `json:"bbr"`
	Src   Checkpoint `json:"src"`
	Tgt   Checkpoint `json:"tgt"`
}

type PendingAtt struct {
	Data     AttData `json:"data"`
	Bits     []int   `json:"bits"`
	Delay    int     `json:"delay"`
	Proposer int     `json:"proposer"`
}

type SyncCommittee struct {
	Pks []string `json:"pks"`
	Agg string   `json:"agg"`
}

type PayloadHeader struct {
	ParentHash    string  `json:"parent_hash"`
	FeeRecipient  string  `json:"fee_recipient"`
	StateRoot     string  `json:"state_root"`
	ReceiptsRoot  string  `json:"receipts_root"`
	LogsBloom     string  `json:"logs_bloom"`
	PrevRandao    string  `json:"prev_randao"`
	BlockNumber   string  `json:"block_number"`
	GasLimit      string  `json:"gas_limit"`
	GasUsed       string  `json:"gas_used"`
	Timestamp     int     `json:"timestamp"`
	ExtraData     string  `json:"extra_data"`
	BaseFee       string  `json:"base_fee"`
	BlockHash     string  `json:"block_hash"`
	TxRoot        string  `json:"tx_root"`
	WdRoot        *string `json:"wd_root,omitempty"`
	BlobGasUsed   *string `json:"blob_gas_used,omitempty"`
	ExcessBlobGas *string `json:"excess_blob_gas,omitempty"`
}

type HistSummary struct {
	Br string `json:"br"`
	Sr string `json:"sr"`
}

// State is the abstract beacon state; fork-specific fields are pointers and absent for other forks.
type State struct {
	Fork             string      `json:"fork"`
	GenesisTime      int         `json:"genesis_time"`
	Gvr              string      `json:"gvr"`
	Slot             int         `json:"slot"`
	ForkRec          ForkRec     `json:"fork_rec"`
	Lbh              Header      `json:"lbh"`
	BlockRoots       []string    `json:"block_roots"`
	StateRoots       []string    `json:"state_roots"`
	HistoricalRoots  []string    `json:"historical_roots"`
	Eth1             Eth1        `json:"eth1"`
	Eth1Votes        []Eth1      `json:"eth1_votes"`
	Eth1DepositIndex int         `json:"eth1_deposit_index"`
	Validators       []Validator `json:"validators"`
	Balances         []int       `json:"balances"`
	Randao           []string    `json:"randao"`
	Slashings        []int       `json:"slashings"`
	JustBits         []bool      `json:"just_bits"`
	PrevJust         Checkpoint  `json:"prev_just"`
	CurJust          Checkpoint  `json:"cur_just"`
	Fin              Checkpoint  `json:"fin"`
	// phase0
	PrevAtts *[]PendingAtt `json:"prev_atts,omitempty"`
	CurAtts  *[]PendingAtt `json:"cur_atts,omitempty"`
	// altair+
	PrevPart   *[]int         `json:"prev_part,omitempty"`
	CurPart    *[]int         `json:"cur_part,omitempty"`
	Inactivity *[]int         `json:"inactivity,omitempty"`
	SyncCur    *SyncCommittee `json:"sync_cur,omitempty"`
	SyncNext   *SyncCommittee `json:"sync_next,omitempty"`
	// bellatrix+
	Leph *PayloadHeader `json:"leph,omitempty"`
	// capella+
	NextWdIndex     *int           `json:"next_wd_index,omitempty"`
	NextWdValidator *int           `json:"next_wd_validator,omitempty"`
	HistSummaries   *[]HistSummary `json:"hist_summaries,omitempty"`
}

// proj collects the first out-of-range conversion so that callers get one error.
type proj struct {
	err     error
	lenient bool
	clamped bool
}

func (p *proj) num(x uint64, what string) int {
	if x >= Big && p.lenient {
		p.clamped = true
		return Big
	}
	if x >= 1<<31 {
		if p.err == nil {
			p.err = fmt.Errorf("absstate: %s = %d does not fit the 32-bit abstraction", what, x)
		}
		return -1
	}
	return int(x)
}

func (p *proj) epoch(e common.Epoch, what string) int {
	if e == common.FAR_FUTURE_EPOCH {
		return Far
	}
	if uint64(e) >= Far && p.lenient {
		p.clamped = true
		return Big
	}
	if uint64(e) >= Far {
		if p.err == nil {
			p.err = fmt.Errorf("absstate: epoch %s = %d collides with the FAR sentinel", what, e)
		}
		return -1
	}
	return int(e)
}

func (p *proj) checkpoint(c common.Checkpoint) Checkpoint {
	return Checkpoint{Epoch: p.epoch(c.Epoch, "checkpoint"), Root: ID(c.Root[:])}
}

func (p *proj) header(h *common.BeaconBlockHeader) Header {
	return Header{
		Slot:      p.num(uint64(h.Slot), "header.slot"),
		Proposer:  p.num(uint64(h.ProposerIndex), "header.proposer"),
		Parent:    ID(h.ParentRoot[:]),
		StateRoot: ID(h.StateRoot[:]),
		BodyRoot:  ID(h.BodyRoot[:]),
	}
}

func (p *proj) eth1(d common.Eth1Data) Eth1 {
	return Eth1{DepositRoot: ID(d.DepositRoot[:]), Count: p.num(uint64(d.DepositCount), "eth1.count"), BlockHash: ID(d.BlockHash[:])}
}

// Credentials projects 32 bytes of withdrawal credentials.
func Credentials(wc [32]byte) WC {
	mid := ""
	for _, b := range wc[1:12] {
		if b != 0 {
			mid = ID(wc[1:12])
			break
		}
	}
	return WC{Pfx: int(wc[0]), Mid: mid, Addr: ID(wc[12:32])}
}

func (p *proj) validator(v *phase0.Validator) Validator {
	return Validator{
		Pk:      ID(v.Pubkey[:]),
		Wc:      Credentials(v.WithdrawalCredentials),
		Eff:     p.num(uint64(v.EffectiveBalance), "effective_balance"),
		Slashed: v.Slashed,
		Elig:    p.epoch(v.ActivationEligibilityEpoch, "activation_eligibility_epoch"),
		Act:     p.epoch(v.ActivationEpoch, "activation_epoch"),
		Exit:    p.epoch(v.ExitEpoch, "exit_epoch"),
		Wd:      p.epoch(v.WithdrawableEpoch, "withdrawable_epoch"),
	}
}

func (p *proj) AttData(d *phase0.AttestationData) AttData {
	return AttData{
		Slot:  p.num(uint64(d.Slot), "att.slot"),
		Index: p.num(uint64(d.Index), "att.index"),
		Bbr:   ID(d.BeaconBlockRoot[:]),
		Src:   p.checkpoint(d.Source),
		Tgt:   p.checkpoint(d.Target),
	}
}

// Bits turns an SSZ bitlist (with delimiter bit) into a sequence of 0/1.
func Bits(b phase0.AttestationBits) []int {
	n := b.BitLen()
	out := make([]int, n)
	for i := uint64(0); i < n; i++ {
		if b.GetBit(i) {
			out[i] = 1
		}
	}
	return out
}

func (p *proj) pending(atts phase0.PendingAttestations) *[]PendingAtt {
	out := make([]PendingAtt, 0, len(atts))
	for _, a := range atts {
		out = append(out, PendingAtt{
			Data:     p.AttData(&a.Data),
			Bits:     Bits(a.AggregationBits),
			Delay:    p.num(uint64(a.InclusionDelay), "inclusion_delay"),
			Proposer: p.num(uint64(a.ProposerIndex), "pending.proposer"),
		})
	}
	return &out
}

func roots(rs []common.Root) []string {
	out := make([]string, len(rs))
	for i := range rs {
		out[i] = ID(rs[i][:])
	}
	return out
}

func (p *proj) base(s *State, genesisTime common.Timestamp, gvr common.Root, slot common.Slot, fork common.Fork,
	lbh *common.BeaconBlockHeader, br, sr phase0.HistoricalBatchRoots, hr phase0.HistoricalRoots,
	e1 common.Eth1Data, votes phase0.Eth1DataVotes, depIndex common.DepositIndex,
	vals phase0.ValidatorRegistry, bals phase0.Balances, mixes phase0.RandaoMixes, slashings phase0.SlashingsHistory,
	jb common.JustificationBits, pj, cj, fin common.Checkpoint) {
	s.GenesisTime = p.num(uint64(genesisTime), "genesis_time")
	s.Gvr = ID(gvr[:])
	s.Slot = p.num(uint64(slot), "slot")
	s.ForkRec = ForkRec{Prev: ID(fork.PreviousVersion[:]), Cur: ID(fork.CurrentVersion[:]), Epoch: p.epoch(fork.Epoch, "fork.epoch")}
	s.Lbh = p.header(lbh)
	s.BlockRoots = roots(br)
	s.StateRoots = roots(sr)
	s.HistoricalRoots = roots(hr)
	s.Eth1 = p.eth1(e1)
	s.Eth1Votes = make([]Eth1, 0, len(votes))
	for _, v := range votes {
		s.Eth1Votes = append(s.Eth1Votes, p.eth1(v))
	}
	s.Eth1DepositIndex = p.num(uint64(depIndex), "eth1_deposit_index")
	s.Validators = make([]Validator, 0, len(vals))
	for _, v := range vals {
		s.Validators = append(s.Validators, p.validator(v))
	}
	s.Balances = make([]int, 0, len(bals))
	for _, b := range bals {
		s.Balances = append(s.Balances, p.num(uint64(b), "balance"))
	}
	s.Randao = roots(mixes)
	s.Slashings = make([]int, 0, len(slashings))
	for _, x := range slashings {
		s.Slashings = append(s.Slashings, p.num(uint64(x), "slashings"))
	}
	s.JustBits = make([]bool, 4)
	for i := 0; i < 4; i++ {
		s.JustBits[i] = (jb[0]>>uint(i))&1 == 1
	}
	s.PrevJust = p.checkpoint(pj)
	s.CurJust = p.checkpoint(cj)
	s.Fin = p.checkpoint(fin)
}

func (p *proj) altairPart(s *State, pp, cp altair.ParticipationRegistry, scores altair.InactivityScores, sc, sn *common.SyncCommittee) {
	a := make([]int, 0, len(pp))
	for _, f := range pp {
		a = append(a, int(f))
	}
	b := make([]int, 0, len(cp))
	for _, f := range cp {
		b = append(b, int(f))
	}
	c := make([]int, 0, len(scores))
	for _, x := range scores {
		c = append(c, p.num(uint64(x), "inactivity_score"))
	}
	s.PrevPart, s.CurPart, s.Inactivity = &a, &b, &c
	s.SyncCur = SyncCommitteeOf(sc)
	s.SyncNext = SyncCommitteeOf(sn)
}

func SyncCommitteeOf(c *common.SyncCommittee) *SyncCommittee {
	out := &SyncCommittee{Pks: make([]string, 0, len(c.Pubkeys)), Agg: ID(c.AggregatePubkey[:])}
	for i := range c.Pubkeys {
		out.Pks = append(out.Pks, ID(c.Pubkeys[i][:]))
	}
	return out
}

func u64s(x uint64) string { return fmt.Sprintf("%d", x) }

// ProjectLenient is Project with numbers >= Big clamped to Big instead of failing (states produced from
// blocks with arbitrary bytes); the second result tells whether anything was clamped.
func ProjectLenient(spec *common.Spec, state common.BeaconState) (*State, bool, error) {
	p := &proj{lenient: true}
	s, err := project(spec, state, p)
	return s, p.clamped, err
}

// Project returns the abstract record of a (possibly upgradeable-wrapped) beacon state.
func Project(spec *common.Spec, state common.BeaconState) (*State, error) {
	return project(spec, state, &proj{})
}

func project(spec *common.Spec, state common.BeaconState, p *proj) (*State, error) {
	state = Unwrap(state)
	s := &State{}
	switch st := state.(type) {
	case *phase0.BeaconStateView:
		r, err := st.Raw(spec)
		if err != nil {
			return nil, err
		}
		s.Fork = "phase0"
		p.base(s, r.GenesisTime, r.GenesisValidatorsRoot, r.Slot, r.Fork, &r.LatestBlockHeader, r.BlockRoots, r.StateRoots,
			r.HistoricalRoots, r.Eth1Data, r.Eth1DataVotes, r.Eth1DepositIndex, r.Validators, r.Balances, r.RandaoMixes,
			r.Slashings, r.JustificationBits, r.PreviousJustifiedCheckpoint, r.CurrentJustifiedCheckpoint, r.FinalizedCheckpoint)
		s.PrevAtts = p.pending(r.PreviousEpochAttestations)
		s.CurAtts = p.pending(r.CurrentEpochAttestations)
	case *altair.BeaconStateView:
		r, err := st.Raw(spec)
		if err != nil {
			return nil, err
		}
		s.Fork = "altair"
		p.base(s, r.GenesisTime, r.GenesisValidatorsRoot, r.Slot, r.Fork, &r.LatestBlockHeader, r.BlockRoots, r.StateRoots,
			r.HistoricalRoots, r.Eth1Data, r.Eth1DataVotes, r.Eth1DepositIndex, r.Validators, r.Balances, r.RandaoMixes,
			r.Slashings, r.JustificationBits, r.PreviousJustifiedCheckpoint, r.CurrentJustifiedCheckpoint, r.FinalizedCheckpoint)
		p.altairPart(s, r.PreviousEpochParticipation, r.CurrentEpochParticipation, r.InactivityScores, &r.CurrentSyncCommittee, &r.NextSyncCommittee)
	case *bellatrix.BeaconStateView:
		r, err := st.Raw(spec)
		if err != nil {
			return nil, err
		}
		s.Fork = "bellatrix"
		p.base(s, r.GenesisTime, r.GenesisValidatorsRoot, r.Slot, r.Fork, &r.LatestBlockHeader, r.BlockRoots, r.StateRoots,
			r.HistoricalRoots, r.Eth1Data, r.Eth1DataVotes, r.Eth1DepositIndex, r.Validators, r.Balances, r.RandaoMixes,
			r.Slashings, r.JustificationBits, r.PreviousJustifiedCheckpoint, r.CurrentJustifiedCheckpoint, r.FinalizedCheckpoint)
		p.altairPart(s, r.PreviousEpochParticipation, r.CurrentEpochParticipation, r.InactivityScores, &r.CurrentSyncCommittee, &r.NextSyncCommittee)
		h := &r.LatestExecutionPayloadHeader
		s.Leph = p.PayloadHeaderBellatrix(h)
	case *capella.BeaconStateView:
		r, err := st.Raw(spec)
		if err != nil {
			return nil, err
		}
		s.Fork = "capella"
		p.base(s, r.GenesisTime, r.GenesisValidatorsRoot, r.Slot, r.Fork, &r.LatestBlockHeader, r.BlockRoots, r.StateRoots,
			r.HistoricalRoots, r.Eth1Data, r.Eth1DataVotes, r.Eth1DepositIndex, r.Validators, r.Balances, r.RandaoMixes,
			r.Slashings, r.JustificationBits, r.PreviousJustifiedCheckpoint, r.CurrentJustifiedCheckpoint, r.FinalizedCheckpoint)
		p.altairPart(s, r.PreviousEpochParticipation, r.CurrentEpochParticipation, r.InactivityScores, &r.CurrentSyncCommittee, &r.NextSyncCommittee)
		s.Leph = p.PayloadHeaderCapella(&r.LatestExecutionPayloadHeader)
		p.capellaPart(s, r.NextWithdrawalIndex, r.NextWithdrawalValidatorIndex, r.HistoricalSummaries)
	case *deneb.BeaconStateView:
		r, err := st.Raw(spec)
		if err != nil {
			return nil, err
		}
		s.Fork = "deneb"
		p.base(s, r.GenesisTime, r.GenesisValidatorsRoot, r.Slot, r.Fork, &r.LatestBlockHeader, r.BlockRoots, r.StateRoots,
			r.HistoricalRoots, r.Eth1Data, r.Eth1DataVotes, r.Eth1DepositIndex, r.Validators, r.Balances, r.RandaoMixes,
			r.Slashings, r.JustificationBits, r.PreviousJustifiedCheckpoint, r.CurrentJustifiedCheckpoint, r.FinalizedCheckpoint)
		p.altairPart(s, r.PreviousEpochParticipation, r.CurrentEpochParticipation, r.InactivityScores, &r.CurrentSyncCommittee, &r.NextSyncCommittee)
		s.Leph = p.PayloadHeaderDeneb(&r.LatestExecutionPayloadHeader)
		p.capellaPart(s, r.NextWithdrawalIndex, r.NextWithdrawalValidatorIndex, r.HistoricalSummaries)
	default:
		return nil, fmt.Errorf("absstate: unsupported state type %T", state)
	}
	if p.err != nil {
		return nil, p.err
	}
	return s, nil
}

func (p *proj) capellaPart(s *State, wi common.WithdrawalIndex, wv common.ValidatorIndex, hs capella.HistoricalSummaries) {
	a := p.num(uint64(wi), "next_withdrawal_index")
	b := p.num(uint64(wv), "next_withdrawal_validator_index")
	s.NextWdIndex, s.NextWdValidator = &a, &b
	l := make([]HistSummary, 0, len(hs))
	for i := range hs {
		l = append(l, HistSummary{Br: ID(hs[i].BlockSummaryRoot[:]), Sr: ID(hs[i].StateSummaryRoot[:])})
	}
	s.HistSummaries = &l
}

// U256 renders a uint256 view as a decimal string (opaque to the model).
func U256(v view.Uint256View) string {
	x := uint256.Int(v)
	return x.ToBig().String()
}

func (p *proj) PayloadHeaderBellatrix(h *bellatrix.ExecutionPayloadHeader) *PayloadHeader {
	return &PayloadHeader{
		ParentHash: ID(h.ParentHash[:]), FeeRecipient: ID(h.FeeRecipient[:]), StateRoot: ID(h.StateRoot[:]),
		ReceiptsRoot: ID(h.ReceiptsRoot[:]), LogsBloom: ID(h.LogsBloom[:]), PrevRandao: ID(h.PrevRandao[:]),
		BlockNumber: u64s(uint64(h.BlockNumber)), GasLimit: u64s(uint64(h.GasLimit)), GasUsed: u64s(uint64(h.GasUsed)),
		Timestamp: p.num(uint64(h.Timestamp), "payload timestamp"), ExtraData: ID(h.ExtraData), BaseFee: U256(h.BaseFeePerGas),
		BlockHash: ID(h.BlockHash[:]), TxRoot: ID(h.TransactionsRoot[:]),
	}
}

func (p *proj) PayloadHeaderCapella(h *capella.ExecutionPayloadHeader) *PayloadHeader {
	wr := ID(h.WithdrawalsRoot[:])
	return &PayloadHeader{
		ParentHash: ID(h.ParentHash[:]), FeeRecipient: ID(h.FeeRecipient[:]), StateRoot: ID(h.StateRoot[:]),
		ReceiptsRoot: ID(h.ReceiptsRoot[:]), LogsBloom: ID(h.LogsBloom[:]), PrevRandao: ID(h.PrevRandao[:]),
		BlockNumber: u64s(uint64(h.BlockNumber)), GasLimit: u64s(uint64(h.GasLimit)), GasUsed: u64s(uint64(h.GasUsed)),
		Timestamp: p.num(uint64(h.Timestamp), "payload timestamp"), ExtraData: ID(h.ExtraData), BaseFee: U256(h.BaseFeePerGas),
		BlockHash: ID(h.BlockHash[:]), TxRoot: ID(h.TransactionsRoot[:]), WdRoot: &wr,
	}
}

func (p *proj) PayloadHeaderDeneb(h *deneb.ExecutionPayloadHeader) *PayloadHeader {
	wr := ID(h.WithdrawalsRoot[:])
	bg := u64s(uint64(h.BlobGasUsed))
	eg := u64s(uint64(h.ExcessBlobGas))
	return &PayloadHeader{
		ParentHash: ID(h.ParentHash[:]), FeeRecipient: ID(h.FeeRecipient[:]), StateRoot: ID(h.StateRoot[:]),
		ReceiptsRoot: ID(h.ReceiptsRoot[:]), LogsBloom: ID(h.LogsBloom[:]), PrevRandao: ID(h.PrevRandao[:]),
		BlockNumber: u64s(uint64(h.BlockNumber)), GasLimit: u64s(uint64(h.GasLimit)), GasUsed: u64s(uint64(h.GasUsed)),
		Timestamp: p.num(uint64(h.Timestamp), "payload timestamp"), ExtraData: ID(h.ExtraData), BaseFee: U256(h.BaseFeePerGas),
		BlockHash: ID(h.BlockHash[:]), TxRoot: ID(h.TransactionsRoot[:]), WdRoot: &wr, BlobGasUsed: &bg, ExcessBlobGas: &eg,
	}
}
