package absstate

import (
	"crypto/sha256"
	"encoding/binary"
	"fmt"

	blsu "github.com/protolambda/bls12-381-util"
	"github.com/protolambda/zrnt/eth2/beacon/common"
)

// This file is the harness' own cryptographic glue (DESIGN §11): SSZ merkleization of the handful of
// small containers whose roots are oracle inputs of the reference specification, written directly on
// crypto/sha256, independent of zrnt's hashing / tree code.

func hash2(a, b [32]byte) [32]byte {
	var buf [64]byte
	copy(buf[:32], a[:])
	copy(buf[32:], b[:])
	return sha256.Sum256(buf[:])
}

var zeroHashes = func() [][32]byte {
	z := make([][32]byte, 64)
	for i := 1; i < len(z); i++ {
		z[i] = hash2(z[i-1], z[i-1])
	}
	return z
}()

// Merkleize computes the root of chunks padded with zero chunks to limit leaves (limit a power of two,
// limit >= len(chunks)).
func Merkleize(chunks [][32]byte, limit uint64) [32]byte {
	depth := 0
	for (uint64(1) << uint(depth)) < limit {
		depth++
	}
	if uint64(len(chunks)) > limit {
		panic("absstate.Merkleize: too many chunks")
	}
	layer := make([][32]byte, len(chunks))
	copy(layer, chunks)
	for d := 0; d < depth; d++ {
		next := make([][32]byte, 0, (len(layer)+1)/2)
		for i := 0; i < len(layer); i += 2 {
			if i+1 < len(layer) {
				next = append(next, hash2(layer[i], layer[i+1]))
			} else {
				next = append(next, hash2(layer[i], zeroHashes[d]))
			}
		}
		layer = next
	}
	if len(layer) == 0 {
		return zeroHashes[depth]
	}
	return layer[0]
}

func u64chunk(x uint64) (out [32]byte) {
	binary.LittleEndian.PutUint64(out[:8], x)
	return
}

// HeaderRoot is hash_tree_root(BeaconBlockHeader).
func HeaderRoot(h *common.BeaconBlockHeader) [32]byte {
	return Merkleize([][32]byte{u64chunk(uint64(h.Slot)), u64chunk(uint64(h.ProposerIndex)), h.ParentRoot, h.StateRoot, h.BodyRoot}, 8)
}

// RootsVectorRoot is hash_tree_root(Vector[Root, n]) for n a power of two.
func RootsVectorRoot(rs []common.Root) [32]byte {
	chunks := make([][32]byte, len(rs))
	for i := range rs {
		chunks[i] = rs[i]
	}
	n := uint64(1)
	for n < uint64(len(rs)) {
		n <<= 1
	}
	if n != uint64(len(rs)) {
		panic(fmt.Sprintf("absstate.RootsVectorRoot: vector length %d is not a power of two", len(rs)))
	}
	return Merkleize(chunks, n)
}

// HistoricalBatchRoot is hash_tree_root(HistoricalBatch(block_roots, state_roots)); also returns the two
// summary roots (capella HistoricalSummary).
func HistoricalBatchRoot(blockRoots, stateRoots []common.Root) (batch, br, sr [32]byte) {
	br = RootsVectorRoot(blockRoots)
	sr = RootsVectorRoot(stateRoots)
	return hash2(br, sr), br, sr
}

// Uint64Root is hash_tree_root(uint64).
func Uint64Root(x uint64) [32]byte { return u64chunk(x) }

// SigningRoot is compute_signing_root(object_root, domain).
func SigningRoot(objRoot [32]byte, domain [32]byte) [32]byte { return hash2(objRoot, domain) }

// ForkDataRoot is hash_tree_root(ForkData(version, genesis_validators_root)).
func ForkDataRoot(version [4]byte, gvr [32]byte) [32]byte {
	var v [32]byte
	copy(v[:4], version[:])
	return hash2(v, gvr)
}

// Domain is compute_domain(domain_type, fork_version, genesis_validators_root).
func Domain(domType [4]byte, version [4]byte, gvr [32]byte) (out [32]byte) {
	fdr := ForkDataRoot(version, gvr)
	copy(out[:4], domType[:])
	copy(out[4:], fdr[:28])
	return
}

// XorHash is old XOR sha256(data) (the randao mix update).
func XorHash(old [32]byte, data []byte) (out [32]byte) {
	h := sha256.Sum256(data)
	for i := range out {
		out[i] = old[i] ^ h[i]
	}
	return
}

// AggregatePubkeys is eth_aggregate_pubkeys (done with the BLS library directly, not through zrnt).
func AggregatePubkeys(pubs []common.BLSPubkey) (common.BLSPubkey, error) {
	parsed := make([]*blsu.Pubkey, 0, len(pubs))
	for i := range pubs {
		var p blsu.Pubkey
		raw := [48]byte(pubs[i])
		if err := p.Deserialize(&raw); err != nil {
			return common.BLSPubkey{}, fmt.Errorf("pubkey %d: %v", i, err)
		}
		parsed = append(parsed, &p)
	}
	agg, err := blsu.AggregatePubkeys(parsed)
	if err != nil {
		return common.BLSPubkey{}, err
	}
	return common.BLSPubkey(agg.Serialize()), nil
}
