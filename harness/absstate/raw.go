package absstate

import (
	"fmt"

	"github.com/protolambda/zrnt/eth2/beacon"
	"github.com/protolambda/zrnt/eth2/beacon/altair"
	"github.com/protolambda/zrnt/eth2/beacon/bellatrix"
	"github.com/protolambda/zrnt/eth2/beacon/capella"
	"github.com/protolambda/zrnt/eth2/beacon/common"
	"github.com/protolambda/zrnt/eth2/beacon/deneb"
	"github.com/protolambda/zrnt/eth2/beacon/phase0"
	"github.com/protolambda/ztyp/tree"
)

// RawInfo carries what the oracle derivation needs from the flattened (struct) form of a state.
type RawInfo struct {
	// Root is hash_tree_root(state), computed over the struct form (not over the tree-backed view the
	// transition mutates).
	Root       common.Root
	BlockRoots []common.Root
	StateRoots []common.Root
}

// Unwrappers lets callers teach Unwrap about further wrapper types around the fork-specific state views
// (e.g. chain.SyncFixState); each returns (inner, true) when it recognises the value.
var Unwrappers []func(common.BeaconState) (common.BeaconState, bool)

// Unwrap strips upgradeable-state wrappers down to the fork-specific tree view.
func Unwrap(state common.BeaconState) common.BeaconState {
	for i := 0; i < 4; i++ {
		if w, ok := state.(*beacon.StandardUpgradeableBeaconState); ok {
			state = w.BeaconState
			continue
		}
		found := false
		for _, u := range Unwrappers {
			if inner, ok := u(state); ok {
				state, found = inner, true
				break
			}
		}
		if !found {
			break
		}
	}
	return state
}

func Raw(spec *common.Spec, state common.BeaconState) (*RawInfo, error) {
	h := tree.GetHashFn()
	switch st := Unwrap(state).(type) {
	case *phase0.BeaconStateView:
		r, err := st.Raw(spec)
		if err != nil {
			return nil, err
		}
		return &RawInfo{Root: r.HashTreeRoot(spec, h), BlockRoots: r.BlockRoots, StateRoots: r.StateRoots}, nil
	case *altair.BeaconStateView:
		r, err := st.Raw(spec)
		if err != nil {
			return nil, err
		}
		return &RawInfo{Root: r.HashTreeRoot(spec, h), BlockRoots: r.BlockRoots, StateRoots: r.StateRoots}, nil
	case *bellatrix.BeaconStateView:
		r, err := st.Raw(spec)
		if err != nil {
			return nil, err
		}
		return &RawInfo{Root: r.HashTreeRoot(spec, h), BlockRoots: r.BlockRoots, StateRoots: r.StateRoots}, nil
	case *capella.BeaconStateView:
		r, err := st.Raw(spec)
		if err != nil {
			return nil, err
		}
		return &RawInfo{Root: r.HashTreeRoot(spec, h), BlockRoots: r.BlockRoots, StateRoots: r.StateRoots}, nil
	case *deneb.BeaconStateView:
		r, err := st.Raw(spec)
		if err != nil {
			return nil, err
		}
		return &RawInfo{Root: r.HashTreeRoot(spec, h), BlockRoots: r.BlockRoots, StateRoots: r.StateRoots}, nil
	default:
		return nil, fmt.Errorf("absstate: unsupported state type %T", st)
	}
}
