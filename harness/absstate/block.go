package absstate

import (
	"crypto/sha256"
	"fmt"

	blsu "github.com/protolambda/bls12-381-util"
	"github.com/protolambda/zrnt/eth2/beacon/altair"
	"github.com/protolambda/zrnt/eth2/beacon/bellatrix"
	"github.com/protolambda/zrnt/eth2/beacon/capella"
	"github.com/protolambda/zrnt/eth2/beacon/common"
	"github.com/protolambda/zrnt/eth2/beacon/deneb"
	"github.com/protolambda/zrnt/eth2/beacon/phase0"
	"github.com/protolambda/ztyp/tree"
)

// SigDesc is the truthful description of how the harness produced a signature.
type SigDesc struct {
	Signers     []common.BLSPubkey // in signing order, duplicates possible
	KeySum      int                // sum of the signers' secret scalars when they are small integers, else -1
	Message     common.Root        // object root that was signed (before mixing in the domain)
	DomainType  common.BLSDomainType
	ForkVersion common.Version
	GVR         common.Root
}

// SigLookup resolves signature bytes to their description (false: not produced by the harness).
type SigLookup func(sig common.BLSSignature) (*SigDesc, bool)

// Sig is the abstract signature record of the reference specification.
type Sig struct {
	Signers []string `json:"signers"`
	KeySum  int      `json:"key_sum"`
	Msg     string   `json:"msg"`
	MsgU64  int      `json:"msg_u64"` // the integer whose hash_tree_root was signed (randao reveals), else -1
	Dom     string   `json:"dom"`
	Ver     string   `json:"ver"`
	Gvr     string   `json:"gvr"`
	Inf     bool     `json:"inf"` // the bytes are the G2 point at infinity
}

var infinitySig = func() (s common.BLSSignature) { s[0] = 0xc0; return }()

// AbstractSig describes signature bytes.
func AbstractSig(lookup SigLookup, sig common.BLSSignature) Sig {
	out := Sig{Signers: []string{}, KeySum: -1, Msg: "garbage", MsgU64: -1, Inf: sig == infinitySig}
	if lookup == nil {
		return out
	}
	d, ok := lookup(sig)
	if !ok {
		return out
	}
	for i := range d.Signers {
		out.Signers = append(out.Signers, ID(d.Signers[i][:]))
	}
	out.KeySum = d.KeySum
	out.Msg = ID(d.Message[:])
	out.Dom = ID(d.DomainType[:])
	out.Ver = ID(d.ForkVersion[:])
	out.Gvr = ID(d.GVR[:])
	// uint64 shape: bytes 8..31 zero and value < 2^31
	small := true
	for _, b := range d.Message[8:] {
		if b != 0 {
			small = false
		}
	}
	if small {
		v := uint64(0)
		for i := 7; i >= 0; i-- {
			v = v<<8 | uint64(d.Message[i])
		}
		if v < 1<<31 {
			out.MsgU64 = int(v)
		}
	}
	return out
}

type AbsHeader struct {
	Slot      int    `json:"slot"`
	Proposer  int    `json:"proposer"`
	Parent    string `json:"parent"`
	StateRoot string `json:"state_root"`
	BodyRoot  string `json:"body_root"`
	Root      string `json:"root"`
}

type ProposerSlashing struct {
	H1   AbsHeader `json:"h1"`
	Sig1 Sig       `json:"sig1"`
	H2   AbsHeader `json:"h2"`
	Sig2 Sig       `json:"sig2"`
}

type IndexedAtt struct {
	Indices  []int   `json:"indices"`
	Data     AttData `json:"data"`
	DataRoot string  `json:"data_root"`
	Sig      Sig     `json:"sig"`
}

type AttesterSlashing struct {
	A1 IndexedAtt `json:"a1"`
	A2 IndexedAtt `json:"a2"`
}

type Att struct {
	Data     AttData `json:"data"`
	DataRoot string  `json:"data_root"`
	Bits     []int   `json:"bits"`
	Sig      Sig     `json:"sig"`
}

type Deposit struct {
	Pk         string `json:"pk"`
	Wc         WC     `json:"wc"`
	Amount     int    `json:"amount"`
	Sig        Sig    `json:"sig"`
	MsgRoot    string `json:"msg_root"`
	ProofIndex int    `json:"proof_index"`
	ProofRoot  string `json:"proof_root"`
	// SigShape classifies the signature BYTES: "zero" / "ff" (all bytes 0x00 / 0xff), "infinity" (the G2 point at
	// infinity), "undecodable" (any other bytes that are not a G2 point), "decodable".  SigParses = decodable or
	// infinity.  The specification never looks at the signature of a top-up, whatever its shape.
	SigShape  string `json:"sig_shape"`
	SigParses bool   `json:"sig_parses"`
}

// SigShapeOf classifies signature bytes (see Deposit.SigShape).
func SigShapeOf(sig common.BLSSignature) (string, bool) {
	allEq := func(x byte) bool {
		for _, b := range sig {
			if b != x {
				return false
			}
		}
		return true
	}
	var sg blsu.Signature
	raw := [96]byte(sig)
	parses := sg.Deserialize(&raw) == nil
	switch {
	case allEq(0):
		return "zero", parses
	case allEq(0xff):
		return "ff", parses
	case sig == infinitySig:
		return "infinity", parses
	case !parses:
		return "undecodable", false
	}
	return "decodable", true
}

type Exit struct {
	Epoch     int    `json:"epoch"`
	Validator int    `json:"validator"`
	MsgRoot   string `json:"msg_root"`
	Sig       Sig    `json:"sig"`
}

type HashRest struct {
	Mid  string `json:"mid"`
	Addr string `json:"addr"`
}

type BLSChange struct {
	Validator int      `json:"validator"`
	FromPk    string   `json:"from_pk"`
	FromHash  HashRest `json:"from_hash"`
	ToAddr    string   `json:"to_addr"`
	MsgRoot   string   `json:"msg_root"`
	Sig       Sig      `json:"sig"`
}

type SyncAgg struct {
	Bits []int `json:"bits"`
	Sig  Sig   `json:"sig"`
}

type Withdrawal struct {
	Index     int    `json:"index"`
	Validator int    `json:"validator"`
	Addr      string `json:"addr"`
	Amount    int    `json:"amount"`
}

type Payload struct {
	IsDefault   bool           `json:"is_default"`
	Header      *PayloadHeader `json:"header"`
	Withdrawals []Withdrawal   `json:"withdrawals"`
	EngineOK    bool           `json:"engine_ok"`
	// list lengths bounded by the SSZ types of the payload
	NTransactions int `json:"n_transactions"`
	ExtraDataLen  int `json:"extra_data_len"`
}

// Block is the abstract block (see spec/BeaconBlock.tla).
type Block struct {
	Slot         int                `json:"slot"`
	Proposer     int                `json:"proposer"`
	Parent       string             `json:"parent"`
	StateRoot    string             `json:"state_root"`
	BodyRoot     string             `json:"body_root"`
	Root         string             `json:"root"`
	Sig          Sig                `json:"sig"`
	ForkBody     string             `json:"fork_body"`
	Randao       Sig                `json:"randao"`
	Eth1Vote     Eth1               `json:"eth1_vote"`
	PSlash       []ProposerSlashing `json:"pslash"`
	ASlash       []AttesterSlashing `json:"aslash"`
	Atts         []Att              `json:"atts"`
	Deposits     []Deposit          `json:"deposits"`
	Exits        []Exit             `json:"exits"`
	BLSChanges   []BLSChange        `json:"bls_changes"`
	Sync         *SyncAgg           `json:"sync,omitempty"`
	Payload      *Payload           `json:"payload,omitempty"`
	NCommitments int                `json:"n_commitments"`
	StateRootOK  bool               `json:"state_root_ok"`
}

// ---- roots of the small containers (own sha256 glue) --------------------------------------------

func bytesChunks(b []byte) [][32]byte {
	n := (len(b) + 31) / 32
	out := make([][32]byte, n)
	for i := 0; i < n; i++ {
		copy(out[i][:], b[i*32:min(len(b), (i+1)*32)])
	}
	return out
}

func min(a, b int) int {
	if a < b {
		return a
	}
	return b
}

func pubkeyRoot(pk common.BLSPubkey) [32]byte { return Merkleize(bytesChunks(pk[:]), 2) }
func sigRoot(s common.BLSSignature) [32]byte   { return Merkleize(bytesChunks(s[:]), 4) }

func CheckpointRoot(c common.Checkpoint) [32]byte { return hash2(u64chunk(uint64(c.Epoch)), c.Root) }

func AttDataRoot(d *phase0.AttestationData) [32]byte {
	return Merkleize([][32]byte{u64chunk(uint64(d.Slot)), u64chunk(uint64(d.Index)), d.BeaconBlockRoot,
		CheckpointRoot(d.Source), CheckpointRoot(d.Target)}, 8)
}

func DepositMessageRoot(d *common.DepositData) [32]byte {
	return Merkleize([][32]byte{pubkeyRoot(d.Pubkey), d.WithdrawalCredentials, u64chunk(uint64(d.Amount))}, 4)
}

func DepositDataRoot(d *common.DepositData) [32]byte {
	return Merkleize([][32]byte{pubkeyRoot(d.Pubkey), d.WithdrawalCredentials, u64chunk(uint64(d.Amount)), sigRoot(d.Signature)}, 4)
}

func ExitRoot(e *phase0.VoluntaryExit) [32]byte {
	return hash2(u64chunk(uint64(e.Epoch)), u64chunk(uint64(e.ValidatorIndex)))
}

func BLSChangeRoot(c *common.BLSToExecutionChange) [32]byte {
	var addr [32]byte
	copy(addr[:20], c.ToExecutionAddress[:])
	return Merkleize([][32]byte{u64chunk(uint64(c.ValidatorIndex)), pubkeyRoot(c.FromBLSPubKey), addr}, 4)
}

// DepositProofRoot folds the branch (is_valid_merkle_branch with depth DEPOSIT_CONTRACT_TREE_DEPTH + 1).
func DepositProofRoot(dep *common.Deposit, index uint64) [32]byte {
	node := DepositDataRoot(&dep.Data)
	for i := 0; i <= common.DEPOSIT_CONTRACT_TREE_DEPTH; i++ {
		if (index>>uint(i))&1 == 1 {
			node = hash2(dep.Proof[i], node)
		} else {
			node = hash2(node, dep.Proof[i])
		}
	}
	return node
}

// ---- abstraction ---------------------------------------------------------------------------------

// BlockCtx is what the abstraction needs besides the block itself.
type BlockCtx struct {
	Sigs SigLookup
	// DepositIndex is state.eth1_deposit_index of the state the block is processed on: the i-th deposit
	// of the block is proven for leaf index DepositIndex + i.
	DepositIndex uint64
	// EngineOK is the verdict the execution engine gives for this block's payload.
	EngineOK bool
	// Lenient: numbers that do not fit the 32-bit abstraction are clamped to Big instead of failing
	// (blocks with arbitrary bytes); Clamped reports whether that happened.
	Lenient bool
	Clamped bool
}

// Big stands for "a number too large for the abstraction" in lenient mode: numbers below it are kept exactly,
// anything from Big on is clamped to Big.  It is larger than every honest value and small enough that adding
// slot / epoch / balance sized numbers to it stays below 2^31.
const Big = 2000000000

func (p *proj) absHeader(h *common.BeaconBlockHeader) AbsHeader {
	r := HeaderRoot(h)
	return AbsHeader{Slot: p.num(uint64(h.Slot), "header.slot"), Proposer: p.num(uint64(h.ProposerIndex), "header.proposer"),
		Parent: ID(h.ParentRoot[:]), StateRoot: ID(h.StateRoot[:]), BodyRoot: ID(h.BodyRoot[:]), Root: ID(r[:])}
}

func (p *proj) indexed(c *BlockCtx, ia *phase0.IndexedAttestation) IndexedAtt {
	out := IndexedAtt{Indices: make([]int, 0, len(ia.AttestingIndices)), Data: p.AttData(&ia.Data), Sig: AbstractSig(c.Sigs, ia.Signature)}
	for _, i := range ia.AttestingIndices {
		out.Indices = append(out.Indices, p.num(uint64(i), "attesting index"))
	}
	r := AttDataRoot(&ia.Data)
	out.DataRoot = ID(r[:])
	return out
}

// AbstractBlock describes a concrete signed block.
func AbstractBlock(spec *common.Spec, env *common.BeaconBlockEnvelope, c *BlockCtx) (*Block, error) {
	p := &proj{lenient: c.Lenient}
	defer func() { c.Clamped = p.clamped }()
	hFn := tree.GetHashFn()
	bodyRoot := env.Body.HashTreeRoot(spec, hFn)
	hdr := env.BeaconBlockHeader
	hdr.BodyRoot = bodyRoot
	blockRoot := HeaderRoot(&hdr) // hash_tree_root(BeaconBlock) == hash_tree_root of its header form
	b := &Block{
		Slot: p.num(uint64(env.Slot), "block.slot"), Proposer: p.num(uint64(env.ProposerIndex), "block.proposer"),
		Parent: ID(env.ParentRoot[:]), StateRoot: ID(env.StateRoot[:]), BodyRoot: ID(bodyRoot[:]), Root: ID(blockRoot[:]),
		Sig:    AbstractSig(c.Sigs, env.Signature),
		PSlash: []ProposerSlashing{}, ASlash: []AttesterSlashing{}, Atts: []Att{}, Deposits: []Deposit{}, Exits: []Exit{}, BLSChanges: []BLSChange{},
	}
	var randao common.BLSSignature
	var eth1 common.Eth1Data
	var ps phase0.ProposerSlashings
	var as phase0.AttesterSlashings
	var atts phase0.Attestations
	var deps phase0.Deposits
	var exits phase0.VoluntaryExits
	var sync *altair.SyncAggregate
	var changes common.SignedBLSToExecutionChanges
	switch body := env.Body.(type) {
	case *phase0.BeaconBlockBody:
		b.ForkBody = "phase0"
		randao, eth1, ps, as, atts, deps, exits = body.RandaoReveal, body.Eth1Data, body.ProposerSlashings, body.AttesterSlashings, body.Attestations, body.Deposits, body.VoluntaryExits
	case *altair.BeaconBlockBody:
		b.ForkBody = "altair"
		randao, eth1, ps, as, atts, deps, exits = body.RandaoReveal, body.Eth1Data, body.ProposerSlashings, body.AttesterSlashings, body.Attestations, body.Deposits, body.VoluntaryExits
		sync = &body.SyncAggregate
	case *bellatrix.BeaconBlockBody:
		b.ForkBody = "bellatrix"
		randao, eth1, ps, as, atts, deps, exits = body.RandaoReveal, body.Eth1Data, body.ProposerSlashings, body.AttesterSlashings, body.Attestations, body.Deposits, body.VoluntaryExits
		sync = &body.SyncAggregate
		e := &body.ExecutionPayload
		def := bellatrix.ExecutionPayload{}
		txRoot := e.Transactions.HashTreeRoot(spec, hFn)
		b.Payload = &Payload{
			IsDefault: e.HashTreeRoot(spec, hFn) == def.HashTreeRoot(spec, hFn),
			Header: p.PayloadHeaderBellatrix(&bellatrix.ExecutionPayloadHeader{
				ParentHash: e.ParentHash, FeeRecipient: e.FeeRecipient, StateRoot: e.StateRoot, ReceiptsRoot: e.ReceiptsRoot,
				LogsBloom: e.LogsBloom, PrevRandao: e.PrevRandao, BlockNumber: e.BlockNumber, GasLimit: e.GasLimit, GasUsed: e.GasUsed,
				Timestamp: e.Timestamp, ExtraData: e.ExtraData, BaseFeePerGas: e.BaseFeePerGas, BlockHash: e.BlockHash, TransactionsRoot: txRoot}),
			Withdrawals: []Withdrawal{}, EngineOK: c.EngineOK, NTransactions: len(e.Transactions), ExtraDataLen: len(e.ExtraData)}
	case *capella.BeaconBlockBody:
		b.ForkBody = "capella"
		randao, eth1, ps, as, atts, deps, exits = body.RandaoReveal, body.Eth1Data, body.ProposerSlashings, body.AttesterSlashings, body.Attestations, body.Deposits, body.VoluntaryExits
		sync = &body.SyncAggregate
		changes = body.BLSToExecutionChanges
		e := &body.ExecutionPayload
		txRoot := e.Transactions.HashTreeRoot(spec, hFn)
		wdRoot := e.Withdrawals.HashTreeRoot(spec, hFn)
		b.Payload = &Payload{
			Header: p.PayloadHeaderCapella(&capella.ExecutionPayloadHeader{
				ParentHash: e.ParentHash, FeeRecipient: e.FeeRecipient, StateRoot: e.StateRoot, ReceiptsRoot: e.ReceiptsRoot,
				LogsBloom: e.LogsBloom, PrevRandao: e.PrevRandao, BlockNumber: e.BlockNumber, GasLimit: e.GasLimit, GasUsed: e.GasUsed,
				Timestamp: e.Timestamp, ExtraData: e.ExtraData, BaseFeePerGas: e.BaseFeePerGas, BlockHash: e.BlockHash, TransactionsRoot: txRoot,
				WithdrawalsRoot: wdRoot}),
			Withdrawals: p.withdrawals(e.Withdrawals), EngineOK: c.EngineOK, NTransactions: len(e.Transactions), ExtraDataLen: len(e.ExtraData)}
	case *deneb.BeaconBlockBody:
		b.ForkBody = "deneb"
		randao, eth1, ps, as, atts, deps, exits = body.RandaoReveal, body.Eth1Data, body.ProposerSlashings, body.AttesterSlashings, body.Attestations, body.Deposits, body.VoluntaryExits
		sync = &body.SyncAggregate
		changes = body.BLSToExecutionChanges
		e := &body.ExecutionPayload
		txRoot := e.Transactions.HashTreeRoot(spec, hFn)
		wdRoot := e.Withdrawals.HashTreeRoot(spec, hFn)
		b.Payload = &Payload{
			Header: p.PayloadHeaderDeneb(&deneb.ExecutionPayloadHeader{
				ParentHash: e.ParentHash, FeeRecipient: e.FeeRecipient, StateRoot: e.StateRoot, ReceiptsRoot: e.ReceiptsRoot,
				LogsBloom: e.LogsBloom, PrevRandao: e.PrevRandao, BlockNumber: e.BlockNumber, GasLimit: e.GasLimit, GasUsed: e.GasUsed,
				Timestamp: e.Timestamp, ExtraData: e.ExtraData, BaseFeePerGas: e.BaseFeePerGas, BlockHash: e.BlockHash, TransactionsRoot: txRoot,
				WithdrawalsRoot: wdRoot, BlobGasUsed: e.BlobGasUsed, ExcessBlobGas: e.ExcessBlobGas}),
			Withdrawals: p.withdrawals(e.Withdrawals), EngineOK: c.EngineOK, NTransactions: len(e.Transactions), ExtraDataLen: len(e.ExtraData)}
		b.NCommitments = len(body.BlobKZGCommitments)
	default:
		return nil, fmt.Errorf("absstate: unsupported block body %T", env.Body)
	}
	b.Randao = AbstractSig(c.Sigs, randao)
	b.Eth1Vote = p.eth1(eth1)
	for i := range ps {
		x := &ps[i]
		b.PSlash = append(b.PSlash, ProposerSlashing{
			H1: p.absHeader(&x.SignedHeader1.Message), Sig1: AbstractSig(c.Sigs, x.SignedHeader1.Signature),
			H2: p.absHeader(&x.SignedHeader2.Message), Sig2: AbstractSig(c.Sigs, x.SignedHeader2.Signature)})
	}
	for i := range as {
		b.ASlash = append(b.ASlash, AttesterSlashing{A1: p.indexed(c, &as[i].Attestation1), A2: p.indexed(c, &as[i].Attestation2)})
	}
	for i := range atts {
		a := &atts[i]
		r := AttDataRoot(&a.Data)
		b.Atts = append(b.Atts, Att{Data: p.AttData(&a.Data), DataRoot: ID(r[:]), Bits: Bits(a.AggregationBits), Sig: AbstractSig(c.Sigs, a.Signature)})
	}
	for i := range deps {
		d := &deps[i]
		mr := DepositMessageRoot(&d.Data)
		idx := c.DepositIndex + uint64(i)
		pr := DepositProofRoot(d, idx)
		shape, parses := SigShapeOf(d.Data.Signature)
		b.Deposits = append(b.Deposits, Deposit{Pk: ID(d.Data.Pubkey[:]), Wc: Credentials(d.Data.WithdrawalCredentials),
			Amount: p.num(uint64(d.Data.Amount), "deposit amount"), Sig: AbstractSig(c.Sigs, d.Data.Signature), MsgRoot: ID(mr[:]),
			ProofIndex: p.num(idx, "deposit index"), ProofRoot: ID(pr[:]), SigShape: shape, SigParses: parses})
	}
	for i := range exits {
		e := &exits[i]
		r := ExitRoot(&e.Message)
		b.Exits = append(b.Exits, Exit{Epoch: p.epoch(e.Message.Epoch, "exit epoch"), Validator: p.num(uint64(e.Message.ValidatorIndex), "exit validator"),
			MsgRoot: ID(r[:]), Sig: AbstractSig(c.Sigs, e.Signature)})
	}
	for i := range changes {
		ch := &changes[i]
		r := BLSChangeRoot(&ch.BLSToExecutionChange)
		h := sha256.Sum256(ch.BLSToExecutionChange.FromBLSPubKey[:])
		wc := Credentials(h)
		b.BLSChanges = append(b.BLSChanges, BLSChange{Validator: p.num(uint64(ch.BLSToExecutionChange.ValidatorIndex), "bls change validator"),
			FromPk: ID(ch.BLSToExecutionChange.FromBLSPubKey[:]), FromHash: HashRest{Mid: wc.Mid, Addr: wc.Addr},
			ToAddr: ID(ch.BLSToExecutionChange.ToExecutionAddress[:]), MsgRoot: ID(r[:]), Sig: AbstractSig(c.Sigs, ch.Signature)})
	}
	if sync != nil {
		n := int(spec.SYNC_COMMITTEE_SIZE)
		if len(sync.SyncCommitteeBits) != (n+7)/8 {
			n = 8 * len(sync.SyncCommitteeBits) // not a value of Bitvector[SYNC_COMMITTEE_SIZE]: the length shows
		}
		bits := make([]int, n)
		for i := 0; i < n && i/8 < len(sync.SyncCommitteeBits); i++ {
			if (sync.SyncCommitteeBits[i/8]>>uint(i%8))&1 == 1 {
				bits[i] = 1
			}
		}
		b.Sync = &SyncAgg{Bits: bits, Sig: AbstractSig(c.Sigs, sync.SyncCommitteeSignature)}
	}
	if p.err != nil {
		return nil, p.err
	}
	return b, nil
}

func (p *proj) withdrawals(ws common.Withdrawals) []Withdrawal {
	out := make([]Withdrawal, 0, len(ws))
	for i := range ws {
		w := &ws[i]
		out = append(out, Withdrawal{Index: p.num(uint64(w.Index), "withdrawal index"), Validator: p.num(uint64(w.ValidatorIndex), "withdrawal validator"),
			Addr: ID(w.Address[:]), Amount: p.num(uint64(w.Amount), "withdrawal amount")})
	}
	return out
}
