package absstate

import (
	blsu "github.com/protolambda/bls12-381-util"
	"github.com/protolambda/zrnt/eth2/beacon/common"
	"github.com/protolambda/zrnt/eth2/beacon/phase0"
)

// GenesisDeposit is an abstract deposit of a genesis deposit list (spec/BeaconGenesis.tla).
type GenesisDeposit struct {
	Deposit
	RootAfter string `json:"root_after"` // hash_tree_root(List[DepositData](leaves[:index+1])), own glue
	PkValid   bool   `json:"pk_valid"`   // the pubkey bytes decode to a curve point
}

// DepositListRoot is hash_tree_root(List[DepositData, 2**DEPOSIT_CONTRACT_TREE_DEPTH](datas)).
func DepositListRoot(leaves [][32]byte) [32]byte {
	return hash2(Merkleize(leaves, 1<<common.DEPOSIT_CONTRACT_TREE_DEPTH), u64chunk(uint64(len(leaves))))
}

// AbstractGenesisDeposits describes an ordered deposit list: each deposit with the proof folded for its own
// index and the incremental deposit-list root after it.
func AbstractGenesisDeposits(sigs SigLookup, deps []common.Deposit) ([]GenesisDeposit, error) {
	p := &proj{}
	out := make([]GenesisDeposit, 0, len(deps))
	leaves := make([][32]byte, 0, len(deps))
	for i := range deps {
		d := &deps[i]
		leaves = append(leaves, DepositDataRoot(&d.Data))
		after := DepositListRoot(leaves)
		mr := DepositMessageRoot(&d.Data)
		pr := DepositProofRoot(d, uint64(i))
		var pk blsu.Pubkey
		rawPk := [48]byte(d.Data.Pubkey)
		shape, parses := SigShapeOf(d.Data.Signature)
		out = append(out, GenesisDeposit{
			Deposit: Deposit{Pk: ID(d.Data.Pubkey[:]), Wc: Credentials(d.Data.WithdrawalCredentials),
				Amount: p.num(uint64(d.Data.Amount), "deposit amount"), Sig: AbstractSig(sigs, d.Data.Signature), MsgRoot: ID(mr[:]),
				ProofIndex: i, ProofRoot: ID(pr[:]), SigShape: shape, SigParses: parses},
			RootAfter: ID(after[:]),
			PkValid:   pk.Deserialize(&rawPk) == nil,
		})
	}
	return out, p.err
}

// ValidatorRoot is hash_tree_root(Validator).
func ValidatorRoot(v *phase0.Validator) [32]byte {
	var slashed [32]byte
	if v.Slashed {
		slashed[0] = 1
	}
	return Merkleize([][32]byte{pubkeyRoot(v.Pubkey), v.WithdrawalCredentials, u64chunk(uint64(v.EffectiveBalance)), slashed,
		u64chunk(uint64(v.ActivationEligibilityEpoch)), u64chunk(uint64(v.ActivationEpoch)), u64chunk(uint64(v.ExitEpoch)),
		u64chunk(uint64(v.WithdrawableEpoch))}, 8)
}

// ValidatorsRoot is hash_tree_root(List[Validator, limit](vals)); limit must be a power of two.
func ValidatorsRoot(vals []*phase0.Validator, limit uint64) [32]byte {
	leaves := make([][32]byte, len(vals))
	for i, v := range vals {
		leaves[i] = ValidatorRoot(v)
	}
	return hash2(Merkleize(leaves, limit), u64chunk(uint64(len(vals))))
}
