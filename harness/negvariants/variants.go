// Package negvariants derives single-fault variants of valid blocks for property C03 (DESIGN appendix D):
// the catalogue of harness/chain (29 variants) plus the ones below.  Whether a variant is really invalid is
// decided by the reference MODEL from the truthful abstraction of the variant; variants that stay valid on
// some state are controls (zrnt must then accept them with the specified post-state).
package negvariants

import (
	"errors"
	"fmt"
	"os"
	"runtime/debug"

	"github.com/protolambda/zrnt/eth2/beacon/altair"
	"github.com/protolambda/zrnt/eth2/beacon/common"
	"github.com/protolambda/zrnt/eth2/beacon/phase0"
	"github.com/protolambda/ztyp/tree"

	"verif/harness/chain"
)

var ErrNotApplicable = chain.ErrNotApplicable

type Variant struct {
	Name  string
	Class string // catalogue class (vacuity guard: every class on every fork where it exists)
	// MinFork: first fork on which the variant exists.
	MinFork chain.Fork
	Make    func(pre *chain.StateCtx, deposits *chain.DepositTree, honest *common.BeaconBlockEnvelope) (*common.BeaconBlockEnvelope, error)
}

type bodyEdit func(pre *chain.StateCtx, env *common.BeaconBlockEnvelope, ops *chain.BodyOps) error

func recoverTo(err *error) {
	if r := recover(); r != nil {
		if e, ok := r.(error); ok {
			*err = e
		} else {
			*err = errors.New("variant construction panicked")
		}
		if *err == nil {
			*err = errors.New("variant construction panicked")
		}
	}
}

// edited clones the honest block, applies edit to the clone's body, recomputes the body root, gives
// processable results (controls) their real state root and re-signs honestly.
func edited(edit bodyEdit) func(*chain.StateCtx, *chain.DepositTree, *common.BeaconBlockEnvelope) (*common.BeaconBlockEnvelope, error) {
	return func(pre *chain.StateCtx, _ *chain.DepositTree, honest *common.BeaconBlockEnvelope) (out *common.BeaconBlockEnvelope, err error) {
		defer func() {
			if r := recover(); r != nil {
				if os.Getenv("NEGV_DEBUG") != "" {
					fmt.Fprintln(os.Stderr, "negvariants: edit panicked:", r, string(debug.Stack()))
				}
				out, err = nil, ErrNotApplicable
			}
		}()
		env, err := chain.CloneEnvelope(pre.Spec, honest)
		if err != nil {
			return nil, err
		}
		if err := edit(pre, env, chain.OpsOf(env.Body)); err != nil {
			return nil, err
		}
		env.BodyRoot = env.Body.HashTreeRoot(pre.Spec, tree.GetHashFn())
		// best effort: the library may reject - or panic on - the edited block while the root is computed; the
		// variant is delivered all the same (with the honest root) and judged at the recorded call
		func() {
			defer func() { _ = recover() }()
			if root, err := chain.ComputeStateRoot(pre, env); err == nil {
				env.StateRoot = root
			}
		}()
		chain.Reseal(pre, env, chain.SealOpts{})
		return env, nil
	}
}

// header edits + sealing options
func resealed(edit func(pre *chain.StateCtx, env *common.BeaconBlockEnvelope) (chain.SealOpts, error)) func(*chain.StateCtx, *chain.DepositTree, *common.BeaconBlockEnvelope) (*common.BeaconBlockEnvelope, error) {
	return func(pre *chain.StateCtx, _ *chain.DepositTree, honest *common.BeaconBlockEnvelope) (out *common.BeaconBlockEnvelope, err error) {
		defer func() {
			if r := recover(); r != nil {
				out, err = nil, ErrNotApplicable
			}
		}()
		env, err := chain.CloneEnvelope(pre.Spec, honest)
		if err != nil {
			return nil, err
		}
		opts, err := edit(pre, env)
		if err != nil {
			return nil, err
		}
		chain.Seal(pre, env, opts)
		return env, nil
	}
}

func htr(v interface{ HashTreeRoot(tree.HashFn) common.Root }) common.Root {
	return v.HashTreeRoot(tree.GetHashFn())
}

// participants of an attestation as seen from pre (committee members with their bit set)
func participants(pre *chain.StateCtx, a *phase0.Attestation) ([]common.ValidatorIndex, []common.ValidatorIndex, error) {
	comm, err := pre.Committee(a.Data.Slot, a.Data.Index)
	if err != nil {
		return nil, nil, ErrNotApplicable
	}
	var in, out []common.ValidatorIndex
	for i, v := range comm {
		if uint64(i) < a.AggregationBits.BitLen() && a.AggregationBits.GetBit(uint64(i)) {
			in = append(in, v)
		} else {
			out = append(out, v)
		}
	}
	return in, out, nil
}

func attDomain(pre *chain.StateCtx, a *phase0.Attestation) chain.Domain {
	return pre.Domain(common.DOMAIN_BEACON_ATTESTER, a.Data.Target.Epoch)
}

// resign signs the attestation's (possibly edited) data with the given validators
func resign(pre *chain.StateCtx, a *phase0.Attestation, who []common.ValidatorIndex, dom chain.Domain) {
	a.Signature = chain.SignAttestationData(pre.Keys, &a.Data, pre.KeysOf(who), dom)
}

// editAtt edits the first attestation of the block; resigned by its participants unless the edit signs itself
func editAtt(selfSigned bool, fn func(pre *chain.StateCtx, a *phase0.Attestation, in, out []common.ValidatorIndex) error) bodyEdit {
	return func(pre *chain.StateCtx, env *common.BeaconBlockEnvelope, ops *chain.BodyOps) error {
		if len(*ops.Attestations) == 0 {
			return ErrNotApplicable
		}
		a := &(*ops.Attestations)[0]
		in, out, err := participants(pre, a)
		if err != nil {
			return err
		}
		if err := fn(pre, a, in, out); err != nil {
			return err
		}
		if !selfSigned {
			resign(pre, a, in, attDomain(pre, a))
		}
		return nil
	}
}

func bitPositions(b phase0.AttestationBits) []int {
	var set []int
	for i := uint64(0); i < b.BitLen(); i++ {
		if b.GetBit(i) {
			set = append(set, int(i))
		}
	}
	return set
}

func otherValidator(pre *chain.StateCtx, not common.ValidatorIndex) common.ValidatorIndex {
	for _, v := range pre.ActiveIndices() {
		if v != not {
			return v
		}
	}
	return not
}

var garbageSig = func() (s common.BLSSignature) {
	for i := range s {
		s[i] = byte(0x21 + i)
	}
	return
}()

// All returns the whole catalogue: chain's variants (class derived from the name) followed by the extensions.
func All() []Variant {
	var out []Variant
	classOf := func(name string) (string, chain.Fork) {
		switch {
		case hasPrefix(name, "proposer-sig"):
			return "proposer_signature", chain.Phase0
		case hasPrefix(name, "wrong-parent"), hasPrefix(name, "wrong-state-root"), hasPrefix(name, "wrong-proposer"):
			return "header", chain.Phase0
		case hasPrefix(name, "randao"):
			return "randao", chain.Phase0
		case hasPrefix(name, "attestation"):
			return "attestation", chain.Phase0
		case hasPrefix(name, "exit"):
			return "exit", chain.Phase0
		case hasPrefix(name, "deposit"):
			return "deposit", chain.Phase0
		case hasPrefix(name, "proposer-slashing"):
			return "proposer_slashing", chain.Phase0
		case hasPrefix(name, "attester-slashing"):
			return "attester_slashing", chain.Phase0
		case hasPrefix(name, "sync-aggregate"):
			return "sync_aggregate", chain.Altair
		case hasPrefix(name, "payload"):
			return "payload", chain.Bellatrix
		case hasPrefix(name, "wrong-withdrawals"):
			return "withdrawals", chain.Capella
		case hasPrefix(name, "bls-change"):
			return "bls_change", chain.Capella
		case hasPrefix(name, "too-many-blobs"):
			return "blobs", chain.Deneb
		}
		return "other", chain.Phase0
	}
	for _, v := range chain.Variants() {
		c, f := classOf(v.Name)
		out = append(out, Variant{Name: v.Name, Class: c, MinFork: f, Make: v.Make})
	}
	return append(append(append(out, extensions()...), shapeVariants()...), append(slashabilityVariants(), overLimitVariants()...)...)
}

func hasPrefix(s, p string) bool { return len(s) >= len(p) && s[:len(p)] == p }

func extensions() []Variant {
	P0 := chain.Phase0
	vs := []Variant{
		// ---- header ----------------------------------------------------------------------------
		{"header-slot-plus-one", "header", P0, resealed(func(pre *chain.StateCtx, env *common.BeaconBlockEnvelope) (chain.SealOpts, error) {
			env.Slot++
			return chain.SealOpts{}, nil
		})},
		{"header-slot-minus-one", "header", P0, resealed(func(pre *chain.StateCtx, env *common.BeaconBlockEnvelope) (chain.SealOpts, error) {
			if env.Slot < 2 {
				return chain.SealOpts{}, ErrNotApplicable
			}
			env.Slot--
			return chain.SealOpts{}, nil
		})},
		{"header-proposer-out-of-range", "header", P0, resealed(func(pre *chain.StateCtx, env *common.BeaconBlockEnvelope) (chain.SealOpts, error) {
			k := pre.KeyOf(env.ProposerIndex)
			env.ProposerIndex = common.ValidatorIndex(pre.ValidatorCount() + 3)
			return chain.SealOpts{Signer: &k}, nil
		})},
		{"proposer-sig-malformed-point", "proposer_signature", P0, resealed(func(pre *chain.StateCtx, env *common.BeaconBlockEnvelope) (chain.SealOpts, error) {
			s := garbageSig
			return chain.SealOpts{Signature: &s}, nil
		})},
		// ---- randao ----------------------------------------------------------------------------
		{"randao-other-key", "randao", P0, edited(func(pre *chain.StateCtx, env *common.BeaconBlockEnvelope, ops *chain.BodyOps) error {
			other := otherValidator(pre, env.ProposerIndex)
			*ops.RandaoReveal = pre.MakeRandaoReveal(other)
			return nil
		})},
		{"randao-wrong-domain-type", "randao", P0, edited(func(pre *chain.StateCtx, env *common.BeaconBlockEnvelope, ops *chain.BodyOps) error {
			var epochRoot common.Root
			e := uint64(pre.Epoch())
			for i := 0; i < 8; i++ {
				epochRoot[i] = byte(e >> (8 * uint(i)))
			}
			*ops.RandaoReveal = pre.Keys.Sign1(pre.KeyOf(env.ProposerIndex), epochRoot, pre.Domain(common.DOMAIN_BEACON_ATTESTER, pre.Epoch()))
			return nil
		})},
		// ---- attestations ----------------------------------------------------------------------
		{"attestation-target-epoch-mismatch", "attestation", P0, edited(editAtt(false, func(pre *chain.StateCtx, a *phase0.Attestation, in, out []common.ValidatorIndex) error {
			a.Data.Target.Epoch++
			return nil
		}))},
		// target.epoch in (previous_epoch, current_epoch), lower side: the attestation moved back by whole epochs to
		// two epochs ago (slot and target stay consistent), signed by its participants
		{"attestation-target-before-previous-epoch", "attestation", P0, edited(editAtt(false, func(pre *chain.StateCtx, a *phase0.Attestation, in, out []common.ValidatorIndex) error {
			cur := pre.Epoch()
			if cur < 2 || a.Data.Target.Epoch+2 <= cur {
				return ErrNotApplicable
			}
			back := a.Data.Target.Epoch - (cur - 2)
			a.Data.Slot -= common.Slot(back) * pre.Spec.SLOTS_PER_EPOCH
			a.Data.Target.Epoch = cur - 2
			return nil
		}))},
		{"attestation-wrong-source-root", "attestation", P0, edited(editAtt(false, func(pre *chain.StateCtx, a *phase0.Attestation, in, out []common.ValidatorIndex) error {
			a.Data.Source.Root[5] ^= 0x10
			return nil
		}))},
		{"attestation-committee-index-eq-count", "attestation", P0, edited(editAtt(false, func(pre *chain.StateCtx, a *phase0.Attestation, in, out []common.ValidatorIndex) error {
			n, err := pre.CommitteeCount(a.Data.Target.Epoch)
			if err != nil {
				return ErrNotApplicable
			}
			a.Data.Index = common.CommitteeIndex(n)
			return nil
		}))},
		{"attestation-bits-longer", "attestation", P0, edited(editAtt(true, func(pre *chain.StateCtx, a *phase0.Attestation, in, out []common.ValidatorIndex) error {
			a.AggregationBits = chain.NewAttestationBits(int(a.AggregationBits.BitLen())+1, bitPositions(a.AggregationBits))
			return nil
		}))},
		{"attestation-bits-shorter", "attestation", P0, edited(editAtt(true, func(pre *chain.StateCtx, a *phase0.Attestation, in, out []common.ValidatorIndex) error {
			n := int(a.AggregationBits.BitLen())
			if n < 2 {
				return ErrNotApplicable
			}
			var set []int
			for _, p := range bitPositions(a.AggregationBits) {
				if p < n-1 {
					set = append(set, p)
				}
			}
			if len(set) == 0 {
				return ErrNotApplicable
			}
			// keep the signature consistent with the remaining bits: only the length condition fails
			comm, err := pre.Committee(a.Data.Slot, a.Data.Index)
			if err != nil {
				return ErrNotApplicable
			}
			var who []common.ValidatorIndex
			for _, p := range set {
				who = append(who, comm[p])
			}
			a.AggregationBits = chain.NewAttestationBits(n-1, set)
			resign(pre, a, who, attDomain(pre, a))
			return nil
		}))},
		{"attestation-no-bits", "attestation", P0, edited(editAtt(true, func(pre *chain.StateCtx, a *phase0.Attestation, in, out []common.ValidatorIndex) error {
			a.AggregationBits = chain.NewAttestationBits(int(a.AggregationBits.BitLen()), nil)
			a.Signature = chain.InfinitySignature
			return nil
		}))},
		{"attestation-extra-signer", "attestation", P0, edited(editAtt(true, func(pre *chain.StateCtx, a *phase0.Attestation, in, out []common.ValidatorIndex) error {
			if len(out) == 0 {
				return ErrNotApplicable
			}
			resign(pre, a, append(append([]common.ValidatorIndex{}, in...), out[0]), attDomain(pre, a))
			return nil
		}))},
		{"attestation-other-data-signed", "attestation", P0, edited(editAtt(true, func(pre *chain.StateCtx, a *phase0.Attestation, in, out []common.ValidatorIndex) error {
			d := a.Data
			d.BeaconBlockRoot[3] ^= 0x04
			a.Signature = chain.SignAttestationData(pre.Keys, &d, pre.KeysOf(in), attDomain(pre, a))
			return nil
		}))},
		{"attestation-wrong-domain-type", "attestation", P0, edited(editAtt(true, func(pre *chain.StateCtx, a *phase0.Attestation, in, out []common.ValidatorIndex) error {
			resign(pre, a, in, pre.Domain(common.DOMAIN_RANDAO, a.Data.Target.Epoch))
			return nil
		}))},
		{"attestation-wrong-gvr", "attestation", P0, edited(editAtt(true, func(pre *chain.StateCtx, a *phase0.Attestation, in, out []common.ValidatorIndex) error {
			d := attDomain(pre, a)
			d.GVR[0] ^= 1
			resign(pre, a, in, d)
			return nil
		}))},
		{"attestation-duplicate-control", "attestation", P0, edited(func(pre *chain.StateCtx, env *common.BeaconBlockEnvelope, ops *chain.BodyOps) error {
			n := len(*ops.Attestations)
			if n == 0 || uint64(n) >= uint64(pre.Spec.MAX_ATTESTATIONS) {
				return ErrNotApplicable
			}
			*ops.Attestations = append(*ops.Attestations, (*ops.Attestations)[0])
			return nil
		})},
		{"attestations-over-limit", "limits", P0, edited(func(pre *chain.StateCtx, env *common.BeaconBlockEnvelope, ops *chain.BodyOps) error {
			if len(*ops.Attestations) == 0 {
				return ErrNotApplicable
			}
			for uint64(len(*ops.Attestations)) <= uint64(pre.Spec.MAX_ATTESTATIONS) {
				*ops.Attestations = append(*ops.Attestations, (*ops.Attestations)[0])
			}
			return nil
		})},
		// ---- attester slashings ------------------------------------------------------------------
		{"attester-slashing-unsorted-indices", "attester_slashing", P0, edited(func(pre *chain.StateCtx, env *common.BeaconBlockEnvelope, ops *chain.BodyOps) error {
			if len(*ops.AttesterSlashings) == 0 || len((*ops.AttesterSlashings)[0].Attestation1.AttestingIndices) < 2 {
				return ErrNotApplicable
			}
			ix := (*ops.AttesterSlashings)[0].Attestation1.AttestingIndices
			ix[0], ix[1] = ix[1], ix[0]
			return nil
		})},
		{"attester-slashing-duplicate-index", "attester_slashing", P0, edited(func(pre *chain.StateCtx, env *common.BeaconBlockEnvelope, ops *chain.BodyOps) error {
			if err := ensureAS(pre, env, ops); err != nil {
				return err
			}
			a := &(*ops.AttesterSlashings)[0].Attestation1
			a.AttestingIndices = append(a.AttestingIndices, a.AttestingIndices[len(a.AttestingIndices)-1])
			return nil
		})},
		{"attester-slashing-index-out-of-range", "attester_slashing", P0, edited(func(pre *chain.StateCtx, env *common.BeaconBlockEnvelope, ops *chain.BodyOps) error {
			if err := ensureAS(pre, env, ops); err != nil {
				return err
			}
			a := &(*ops.AttesterSlashings)[0].Attestation2
			a.AttestingIndices = append(a.AttestingIndices, common.ValidatorIndex(pre.ValidatorCount()+1))
			return nil
		})},
		{"attester-slashing-bad-signature-2", "attester_slashing", P0, edited(func(pre *chain.StateCtx, env *common.BeaconBlockEnvelope, ops *chain.BodyOps) error {
			if err := ensureAS(pre, env, ops); err != nil {
				return err
			}
			(*ops.AttesterSlashings)[0].Attestation2.Signature = garbageSig
			return nil
		})},
		{"attester-slashing-signed-other-fork", "attester_slashing", P0, edited(func(pre *chain.StateCtx, env *common.BeaconBlockEnvelope, ops *chain.BodyOps) error {
			if err := ensureAS(pre, env, ops); err != nil {
				return err
			}
			a := &(*ops.AttesterSlashings)[0].Attestation1
			d := pre.Domain(common.DOMAIN_BEACON_ATTESTER, a.Data.Target.Epoch)
			d.Version = chain.OtherForkVersion(pre)
			a.Signature = chain.SignAttestationData(pre.Keys, &a.Data, pre.KeysOf(a.AttestingIndices), d)
			return nil
		})},
		{"attester-slashing-duplicated", "attester_slashing", P0, edited(func(pre *chain.StateCtx, env *common.BeaconBlockEnvelope, ops *chain.BodyOps) error {
			n := len(*ops.AttesterSlashings)
			if n == 0 || uint64(n) >= uint64(pre.Spec.MAX_ATTESTER_SLASHINGS) {
				return ErrNotApplicable
			}
			*ops.AttesterSlashings = append(*ops.AttesterSlashings, (*ops.AttesterSlashings)[0])
			return nil
		})},
		// ---- proposer slashings ------------------------------------------------------------------
		{"proposer-slashing-different-slots", "proposer_slashing", P0, edited(func(pre *chain.StateCtx, env *common.BeaconBlockEnvelope, ops *chain.BodyOps) error {
			if err := ensurePS(pre, env, ops); err != nil {
				return err
			}
			h := &(*ops.ProposerSlashings)[0].SignedHeader2
			h.Message.Slot++
			h.Signature = pre.Keys.Sign1(pre.KeyOf(h.Message.ProposerIndex), htr(&h.Message), pre.Domain(common.DOMAIN_BEACON_PROPOSER, pre.Spec.SlotToEpoch(h.Message.Slot)))
			return nil
		})},
		{"proposer-slashing-different-proposers", "proposer_slashing", P0, edited(func(pre *chain.StateCtx, env *common.BeaconBlockEnvelope, ops *chain.BodyOps) error {
			if err := ensurePS(pre, env, ops); err != nil {
				return err
			}
			h := &(*ops.ProposerSlashings)[0].SignedHeader2
			h.Message.ProposerIndex = otherValidator(pre, h.Message.ProposerIndex)
			h.Signature = pre.Keys.Sign1(pre.KeyOf(h.Message.ProposerIndex), htr(&h.Message), pre.Domain(common.DOMAIN_BEACON_PROPOSER, pre.Spec.SlotToEpoch(h.Message.Slot)))
			return nil
		})},
		{"proposer-slashing-bad-signature-1", "proposer_slashing", P0, edited(func(pre *chain.StateCtx, env *common.BeaconBlockEnvelope, ops *chain.BodyOps) error {
			if err := ensurePS(pre, env, ops); err != nil {
				return err
			}
			h := &(*ops.ProposerSlashings)[0].SignedHeader1
			h.Signature = pre.Keys.Sign1(pre.KeyOf(otherValidator(pre, h.Message.ProposerIndex)), htr(&h.Message), pre.Domain(common.DOMAIN_BEACON_PROPOSER, pre.Spec.SlotToEpoch(h.Message.Slot)))
			return nil
		})},
		{"proposer-slashing-wrong-domain-type", "proposer_slashing", P0, edited(func(pre *chain.StateCtx, env *common.BeaconBlockEnvelope, ops *chain.BodyOps) error {
			if err := ensurePS(pre, env, ops); err != nil {
				return err
			}
			h := &(*ops.ProposerSlashings)[0].SignedHeader2
			h.Signature = pre.Keys.Sign1(pre.KeyOf(h.Message.ProposerIndex), htr(&h.Message), pre.Domain(common.DOMAIN_BEACON_ATTESTER, pre.Spec.SlotToEpoch(h.Message.Slot)))
			return nil
		})},
		{"proposer-slashing-duplicated", "proposer_slashing", P0, edited(func(pre *chain.StateCtx, env *common.BeaconBlockEnvelope, ops *chain.BodyOps) error {
			n := len(*ops.ProposerSlashings)
			if n == 0 || uint64(n) >= uint64(pre.Spec.MAX_PROPOSER_SLASHINGS) {
				return ErrNotApplicable
			}
			*ops.ProposerSlashings = append(*ops.ProposerSlashings, (*ops.ProposerSlashings)[0])
			return nil
		})},
		// ---- deposits ----------------------------------------------------------------------------
		{"deposit-extra", "deposit", P0, edited(func(pre *chain.StateCtx, env *common.BeaconBlockEnvelope, ops *chain.BodyOps) error {
			if len(*ops.Deposits) == 0 {
				return ErrNotApplicable
			}
			*ops.Deposits = append(*ops.Deposits, (*ops.Deposits)[len(*ops.Deposits)-1])
			return nil
		})},
		// deposit_count == eth1_deposit_index: no deposit is expected, a block that carries one is invalid
		{"deposit-one-when-none-expected", "deposit_none_expected", P0, edited(func(pre *chain.StateCtx, env *common.BeaconBlockEnvelope, ops *chain.BodyOps) error {
			ed, idx := pre.Eth1()
			if len(*ops.Deposits) != 0 || ed.DepositCount != idx {
				return ErrNotApplicable
			}
			*ops.Deposits = append(*ops.Deposits, common.Deposit{Data: chain.MakeDepositData(pre.Spec, pre.Keys, chain.DepositSpec{Key: 91})})
			return nil
		})},
		{"deposit-swapped-order", "deposit", P0, edited(func(pre *chain.StateCtx, env *common.BeaconBlockEnvelope, ops *chain.BodyOps) error {
			if len(*ops.Deposits) < 2 {
				return ErrNotApplicable
			}
			d := *ops.Deposits
			d[0], d[1] = d[1], d[0]
			return nil
		})},
		{"deposit-proof-top-level", "deposit", P0, edited(func(pre *chain.StateCtx, env *common.BeaconBlockEnvelope, ops *chain.BodyOps) error {
			if len(*ops.Deposits) == 0 {
				return ErrNotApplicable
			}
			(*ops.Deposits)[0].Proof[common.DEPOSIT_CONTRACT_TREE_DEPTH-1][7] ^= 0x80
			return nil
		})},
		{"deposit-proof-length-mixin", "deposit", P0, edited(func(pre *chain.StateCtx, env *common.BeaconBlockEnvelope, ops *chain.BodyOps) error {
			if len(*ops.Deposits) == 0 {
				return ErrNotApplicable
			}
			(*ops.Deposits)[0].Proof[common.DEPOSIT_CONTRACT_TREE_DEPTH][0] ^= 0x01
			return nil
		})},
		{"deposit-amount-edited", "deposit", P0, edited(func(pre *chain.StateCtx, env *common.BeaconBlockEnvelope, ops *chain.BodyOps) error {
			if len(*ops.Deposits) == 0 {
				return ErrNotApplicable
			}
			(*ops.Deposits)[0].Data.Amount++
			return nil
		})},
		// ---- exits -------------------------------------------------------------------------------
		{"exit-future-epoch", "exit", P0, edited(func(pre *chain.StateCtx, env *common.BeaconBlockEnvelope, ops *chain.BodyOps) error {
			if err := ensureExit(pre, env, ops); err != nil {
				return err
			}
			e := &(*ops.VoluntaryExits)[0]
			e.Message.Epoch = pre.Epoch() + 1
			e.Signature = pre.Keys.Sign1(pre.KeyOf(e.Message.ValidatorIndex), htr(&e.Message), pre.ExitDomain(e.Message.Epoch))
			return nil
		})},
		{"exit-wrong-key", "exit", P0, edited(func(pre *chain.StateCtx, env *common.BeaconBlockEnvelope, ops *chain.BodyOps) error {
			if err := ensureExit(pre, env, ops); err != nil {
				return err
			}
			e := &(*ops.VoluntaryExits)[0]
			e.Signature = pre.Keys.Sign1(pre.KeyOf(otherValidator(pre, e.Message.ValidatorIndex)), htr(&e.Message), pre.ExitDomain(e.Message.Epoch))
			return nil
		})},
		{"exit-validator-out-of-range", "exit", P0, edited(func(pre *chain.StateCtx, env *common.BeaconBlockEnvelope, ops *chain.BodyOps) error {
			if err := ensureExit(pre, env, ops); err != nil {
				return err
			}
			e := &(*ops.VoluntaryExits)[0]
			k := pre.KeyOf(e.Message.ValidatorIndex)
			e.Message.ValidatorIndex = common.ValidatorIndex(pre.ValidatorCount() + 2)
			e.Signature = pre.Keys.Sign1(k, htr(&e.Message), pre.ExitDomain(e.Message.Epoch))
			return nil
		})},
		{"exit-wrong-domain-type", "exit", P0, edited(func(pre *chain.StateCtx, env *common.BeaconBlockEnvelope, ops *chain.BodyOps) error {
			if err := ensureExit(pre, env, ops); err != nil {
				return err
			}
			e := &(*ops.VoluntaryExits)[0]
			d := pre.ExitDomain(e.Message.Epoch)
			d.Type = common.DOMAIN_DEPOSIT
			e.Signature = pre.Keys.Sign1(pre.KeyOf(e.Message.ValidatorIndex), htr(&e.Message), d)
			return nil
		})},
		{"exit-wrong-gvr", "exit", P0, edited(func(pre *chain.StateCtx, env *common.BeaconBlockEnvelope, ops *chain.BodyOps) error {
			if err := ensureExit(pre, env, ops); err != nil {
				return err
			}
			e := &(*ops.VoluntaryExits)[0]
			d := pre.ExitDomain(e.Message.Epoch)
			d.GVR[31] ^= 0x80
			e.Signature = pre.Keys.Sign1(pre.KeyOf(e.Message.ValidatorIndex), htr(&e.Message), d)
			return nil
		})},
		// ---- BLS-to-execution changes --------------------------------------------------------------
		{"bls-change-index-out-of-range", "bls_change", chain.Capella, edited(func(pre *chain.StateCtx, env *common.BeaconBlockEnvelope, ops *chain.BodyOps) error {
			if err := ensureBLS(pre, env, ops); err != nil {
				return err
			}
			c := &(*ops.BLSChanges)[0]
			k := chain.WithdrawalKey(pre.KeyOf(c.BLSToExecutionChange.ValidatorIndex))
			c.BLSToExecutionChange.ValidatorIndex = common.ValidatorIndex(pre.ValidatorCount() + 1)
			c.Signature = pre.Keys.Sign1(k, htr(&c.BLSToExecutionChange), pre.BLSChangeDomain())
			return nil
		})},
		{"bls-change-duplicated", "bls_change", chain.Capella, edited(func(pre *chain.StateCtx, env *common.BeaconBlockEnvelope, ops *chain.BodyOps) error {
			if ops.BLSChanges == nil || len(*ops.BLSChanges) == 0 || uint64(len(*ops.BLSChanges)) >= uint64(pre.Spec.MAX_BLS_TO_EXECUTION_CHANGES) {
				return ErrNotApplicable
			}
			*ops.BLSChanges = append(*ops.BLSChanges, (*ops.BLSChanges)[0])
			return nil
		})},
		{"bls-change-pubkey-hash-mismatch", "bls_change", chain.Capella, edited(func(pre *chain.StateCtx, env *common.BeaconBlockEnvelope, ops *chain.BodyOps) error {
			if err := ensureBLS(pre, env, ops); err != nil {
				return err
			}
			c := &(*ops.BLSChanges)[0]
			other := chain.WithdrawalKey(pre.KeyOf(otherValidator(pre, c.BLSToExecutionChange.ValidatorIndex)))
			c.BLSToExecutionChange.FromBLSPubKey = pre.Keys.Pubkey(other)
			c.Signature = pre.Keys.Sign1(other, htr(&c.BLSToExecutionChange), pre.BLSChangeDomain())
			return nil
		})},
		{"bls-change-fork-dependent-domain", "bls_change", chain.Capella, edited(func(pre *chain.StateCtx, env *common.BeaconBlockEnvelope, ops *chain.BodyOps) error {
			if err := ensureBLS(pre, env, ops); err != nil {
				return err
			}
			c := &(*ops.BLSChanges)[0]
			d := pre.BLSChangeDomain()
			d.Version = pre.ForkData().CurrentVersion
			c.Signature = pre.Keys.Sign1(chain.WithdrawalKey(pre.KeyOf(c.BLSToExecutionChange.ValidatorIndex)), htr(&c.BLSToExecutionChange), d)
			return nil
		})},
		// ---- sync aggregate ------------------------------------------------------------------------
		// not a value of Bitvector[SYNC_COMMITTEE_SIZE]: one more (zero) byte, signature and participants untouched
		{"sync-aggregate-bits-too-long", "sync_aggregate", chain.Altair, edited(func(pre *chain.StateCtx, env *common.BeaconBlockEnvelope, ops *chain.BodyOps) error {
			if ops.SyncAggregate == nil {
				return ErrNotApplicable
			}
			ops.SyncAggregate.SyncCommitteeBits = append(append(altair.SyncCommitteeBits(nil), ops.SyncAggregate.SyncCommitteeBits...), 0)
			return nil
		})},
		{"sync-aggregate-bits-too-short", "sync_aggregate", chain.Altair, edited(func(pre *chain.StateCtx, env *common.BeaconBlockEnvelope, ops *chain.BodyOps) error {
			if ops.SyncAggregate == nil || len(ops.SyncAggregate.SyncCommitteeBits) < 1 {
				return ErrNotApplicable
			}
			b := ops.SyncAggregate.SyncCommitteeBits
			if b[len(b)-1] != 0 {
				return ErrNotApplicable // the dropped byte carries no participant: the signature still matches the rest
			}
			ops.SyncAggregate.SyncCommitteeBits = append(altair.SyncCommitteeBits(nil), b[:len(b)-1]...)
			return nil
		})},
		{"sync-aggregate-bit-cleared", "sync_aggregate", chain.Altair, edited(func(pre *chain.StateCtx, env *common.BeaconBlockEnvelope, ops *chain.BodyOps) error {
			if ops.SyncAggregate == nil {
				return ErrNotApplicable
			}
			b := ops.SyncAggregate.SyncCommitteeBits
			for i := range b {
				if b[i] != 0 {
					b[i] &= b[i] - 1 // clear the lowest set bit, keep the signature
					return nil
				}
			}
			return ErrNotApplicable
		})},
		{"sync-aggregate-garbage-signature", "sync_aggregate", chain.Altair, edited(func(pre *chain.StateCtx, env *common.BeaconBlockEnvelope, ops *chain.BodyOps) error {
			if ops.SyncAggregate == nil {
				return ErrNotApplicable
			}
			ops.SyncAggregate.SyncCommitteeSignature = garbageSig
			return nil
		})},
		{"sync-aggregate-infinity-with-bits", "sync_aggregate", chain.Altair, edited(func(pre *chain.StateCtx, env *common.BeaconBlockEnvelope, ops *chain.BodyOps) error {
			if ops.SyncAggregate == nil {
				return ErrNotApplicable
			}
			any := false
			for _, x := range ops.SyncAggregate.SyncCommitteeBits {
				any = any || x != 0
			}
			if !any {
				return ErrNotApplicable
			}
			ops.SyncAggregate.SyncCommitteeSignature = chain.InfinitySignature
			return nil
		})},
		// ---- execution payload / withdrawals ---------------------------------------------------------
		{"withdrawals-dropped-last", "withdrawals", chain.Capella, edited(editWithdrawals(func(ws []common.Withdrawal) ([]common.Withdrawal, error) {
			if len(ws) == 0 {
				return nil, ErrNotApplicable
			}
			return ws[:len(ws)-1], nil
		}))},
		{"withdrawals-index-shifted", "withdrawals", chain.Capella, edited(editWithdrawals(func(ws []common.Withdrawal) ([]common.Withdrawal, error) {
			if len(ws) == 0 {
				return nil, ErrNotApplicable
			}
			ws[0].Index++
			return ws, nil
		}))},
		{"withdrawals-other-validator", "withdrawals", chain.Capella, edited(editWithdrawals(func(ws []common.Withdrawal) ([]common.Withdrawal, error) {
			if len(ws) == 0 {
				return nil, ErrNotApplicable
			}
			ws[len(ws)-1].ValidatorIndex++
			return ws, nil
		}))},
		{"withdrawals-other-address", "withdrawals", chain.Capella, edited(editWithdrawals(func(ws []common.Withdrawal) ([]common.Withdrawal, error) {
			if len(ws) == 0 {
				return nil, ErrNotApplicable
			}
			ws[0].Address[19] ^= 0x01
			return ws, nil
		}))},
		{"withdrawals-amount-plus-one", "withdrawals", chain.Capella, edited(editWithdrawals(func(ws []common.Withdrawal) ([]common.Withdrawal, error) {
			if len(ws) == 0 {
				return nil, ErrNotApplicable
			}
			ws[0].Amount++
			return ws, nil
		}))},
		{"withdrawals-extra", "withdrawals", chain.Capella, edited(editWithdrawals(func(ws []common.Withdrawal) ([]common.Withdrawal, error) {
			if len(ws) == 0 {
				return []common.Withdrawal{{Index: 0, ValidatorIndex: 0, Amount: 1}}, nil
			}
			w := ws[len(ws)-1]
			w.Index++
			return append(ws, w), nil
		}))},
	}
	return vs
}

// indexedShape builds attester-slashing variants in which ONLY the shape of attesting_indices is wrong: the
// aggregate signature is recomputed over exactly the (edited) index list, so that is_valid_indexed_attestation
// fails on "sorted and unique" (or "non-empty") alone.
func indexedShape(second bool, edit func(ix []common.ValidatorIndex) ([]common.ValidatorIndex, error)) bodyEdit {
	return func(pre *chain.StateCtx, env *common.BeaconBlockEnvelope, ops *chain.BodyOps) error {
		if err := ensureAS(pre, env, ops); err != nil {
			return err
		}
		a := &(*ops.AttesterSlashings)[0].Attestation1
		if second {
			a = &(*ops.AttesterSlashings)[0].Attestation2
		}
		ix, err := edit(append([]common.ValidatorIndex(nil), a.AttestingIndices...))
		if err != nil {
			return err
		}
		a.AttestingIndices = ix
		a.Signature = chain.SignAttestationData(pre.Keys, &a.Data, pre.KeysOf(ix), pre.Domain(common.DOMAIN_BEACON_ATTESTER, a.Data.Target.Epoch))
		return nil
	}
}

func dupAt(pos string) func(ix []common.ValidatorIndex) ([]common.ValidatorIndex, error) {
	return func(ix []common.ValidatorIndex) ([]common.ValidatorIndex, error) {
		if len(ix) == 0 || (pos == "middle" && len(ix) < 3) {
			return nil, ErrNotApplicable
		}
		i := 0
		switch pos {
		case "middle":
			i = len(ix) / 2
		case "last":
			i = len(ix) - 1
		}
		out := append([]common.ValidatorIndex{}, ix[:i+1]...)
		out = append(out, ix[i]) // [.. x x ..]: still non-decreasing, no longer unique
		return append(out, ix[i+1:]...), nil
	}
}

func shapeVariants() []Variant {
	var out []Variant
	for _, second := range []bool{false, true} {
		tag := "1"
		if second {
			tag = "2"
		}
		for _, pos := range []string{"first", "middle", "last"} {
			out = append(out, Variant{"attester-slashing-duplicate-" + pos + "-index-resigned-" + tag, "indexed_attestation_shape", chain.Phase0,
				edited(indexedShape(second, dupAt(pos)))})
		}
		out = append(out, Variant{"attester-slashing-unsorted-unique-resigned-" + tag, "indexed_attestation_shape", chain.Phase0,
			edited(indexedShape(second, func(ix []common.ValidatorIndex) ([]common.ValidatorIndex, error) {
				if len(ix) < 2 {
					return nil, ErrNotApplicable
				}
				ix[len(ix)-2], ix[len(ix)-1] = ix[len(ix)-1], ix[len(ix)-2]
				return ix, nil
			}))})
		out = append(out, Variant{"attester-slashing-empty-indices-" + tag, "indexed_attestation_shape", chain.Phase0,
			edited(indexedShape(second, func(ix []common.ValidatorIndex) ([]common.ValidatorIndex, error) {
				return []common.ValidatorIndex{}, nil // signed by nobody: the point at infinity
			}))})
	}
	return out
}

// slashabilityVariants ADD one correctly signed attester slashing (two healthy validators that no other
// operation of the block touches) whose two attestation data are in a chosen relation, so that ONLY
// is_slashable_attestation_data(data_1, data_2) decides: "1 surrounds 2" and double votes are slashable
// (controls), "2 surrounds 1", equal sources, disjoint spans and identical data are not.
func slashabilityVariants() []Variant {
	type span struct{ s1, t1, s2, t2 int } // epochs relative to base = max(current epoch, 3) - 3
	mk := func(name string, sp span, sameRoots bool) Variant {
		return Variant{name, "attestation_data_slashability", chain.Phase0, edited(func(pre *chain.StateCtx, env *common.BeaconBlockEnvelope, ops *chain.BodyOps) error {
			if len(*ops.AttesterSlashings) > 0 || len(*ops.ProposerSlashings) > 0 || len(*ops.VoluntaryExits) > 0 {
				return ErrNotApplicable
			}
			epoch := pre.Epoch()
			var who []common.ValidatorIndex
			act := pre.ActiveIndices()
			for i := len(act) - 1; i >= 0 && len(who) < 2; i-- {
				v := pre.Validator(act[i])
				if act[i] != env.ProposerIndex && !v.Slashed && v.ExitEpoch == chain.FarFuture {
					who = append([]common.ValidatorIndex{act[i]}, who...)
				}
			}
			if len(who) < 2 || len(act) < 8 {
				return ErrNotApplicable
			}
			base := common.Epoch(0)
			if epoch > 3 {
				base = epoch - 3
			}
			data := func(s, t int, tag byte) phase0.AttestationData {
				d := phase0.AttestationData{Slot: common.Slot(base+common.Epoch(t)) * pre.Spec.SLOTS_PER_EPOCH, Index: 0,
					Source: common.Checkpoint{Epoch: base + common.Epoch(s)}, Target: common.Checkpoint{Epoch: base + common.Epoch(t)}}
				d.BeaconBlockRoot[0], d.Source.Root[0], d.Target.Root[0] = 0xaa, 0xbb, tag
				return d
			}
			d1 := data(sp.s1, sp.t1, 0x01)
			tag2 := byte(0x02)
			if sameRoots {
				tag2 = 0x01
			}
			d2 := data(sp.s2, sp.t2, tag2)
			sign := func(d *phase0.AttestationData) phase0.IndexedAttestation {
				return phase0.IndexedAttestation{AttestingIndices: append(common.CommitteeIndices(nil), who...), Data: *d,
					Signature: chain.SignAttestationData(pre.Keys, d, pre.KeysOf(who), pre.Domain(common.DOMAIN_BEACON_ATTESTER, d.Target.Epoch))}
			}
			*ops.AttesterSlashings = append(*ops.AttesterSlashings, phase0.AttesterSlashing{Attestation1: sign(&d1), Attestation2: sign(&d2)})
			return nil
		})}
	}
	return []Variant{
		mk("aslash-data-1-surrounds-2-control", span{0, 3, 1, 2}, false),
		mk("aslash-data-2-surrounds-1", span{1, 2, 0, 3}, false),
		mk("aslash-data-equal-source-inner-target", span{0, 3, 0, 2}, false),
		mk("aslash-data-inner-source-equal-target-control", span{0, 3, 1, 3}, false), // same target epoch, different data: double vote
		mk("aslash-data-disjoint-spans", span{0, 1, 2, 3}, false),
		mk("aslash-data-adjacent-spans", span{0, 2, 2, 3}, false),
		mk("aslash-data-identical", span{1, 2, 1, 2}, true),
		mk("aslash-data-double-vote-control", span{1, 2, 1, 2}, false),
	}
}

// ensure*: variants about an operation kind do not depend on the honest block happening to carry one: when it
// carries no slashing / exit at all, a VALID operation of the kind is added first (about healthy validators
// that are not the proposer), and the variant then corrupts that one.
func quiet(ops *chain.BodyOps) bool {
	return len(*ops.ProposerSlashings) == 0 && len(*ops.AttesterSlashings) == 0 && len(*ops.VoluntaryExits) == 0 &&
		(ops.BLSChanges == nil || len(*ops.BLSChanges) == 0)
}

func healthyFromTop(pre *chain.StateCtx, env *common.BeaconBlockEnvelope, n int, ok func(common.ValidatorIndex) bool) []common.ValidatorIndex {
	act := pre.ActiveIndices()
	if len(act) < 8 {
		return nil
	}
	var who []common.ValidatorIndex
	for i := len(act) - 1; i >= 0 && len(who) < n; i-- {
		v := pre.Validator(act[i])
		if act[i] != env.ProposerIndex && !v.Slashed && v.ExitEpoch == chain.FarFuture && (ok == nil || ok(act[i])) {
			who = append([]common.ValidatorIndex{act[i]}, who...)
		}
	}
	if len(who) < n {
		return nil
	}
	return who
}

func ensurePS(pre *chain.StateCtx, env *common.BeaconBlockEnvelope, ops *chain.BodyOps) error {
	if len(*ops.ProposerSlashings) > 0 {
		return nil
	}
	who := healthyFromTop(pre, env, 1, nil)
	if !quiet(ops) || who == nil {
		return ErrNotApplicable
	}
	ps, err := pre.MakeProposerSlashing(chain.ProposerSlashingPlan{Proposer: who[0]})
	if err != nil {
		return ErrNotApplicable
	}
	*ops.ProposerSlashings = append(*ops.ProposerSlashings, *ps)
	return nil
}

func ensureAS(pre *chain.StateCtx, env *common.BeaconBlockEnvelope, ops *chain.BodyOps) error {
	if len(*ops.AttesterSlashings) > 0 {
		return nil
	}
	who := healthyFromTop(pre, env, 3, nil)
	if !quiet(ops) || who == nil {
		return ErrNotApplicable
	}
	as, err := pre.MakeAttesterSlashing(chain.AttesterSlashingPlan{Indices: who})
	if err != nil {
		return ErrNotApplicable
	}
	*ops.AttesterSlashings = append(*ops.AttesterSlashings, *as)
	return nil
}

func ensureExit(pre *chain.StateCtx, env *common.BeaconBlockEnvelope, ops *chain.BodyOps) error {
	if len(*ops.VoluntaryExits) > 0 {
		return nil
	}
	who := healthyFromTop(pre, env, 1, pre.CanExit)
	if !quiet(ops) || who == nil {
		return ErrNotApplicable
	}
	e, err := pre.MakeExit(chain.ExitPlan{Validator: who[0]})
	if err != nil {
		return ErrNotApplicable
	}
	*ops.VoluntaryExits = append(*ops.VoluntaryExits, *e)
	return nil
}

func ensureBLS(pre *chain.StateCtx, env *common.BeaconBlockEnvelope, ops *chain.BodyOps) error {
	if ops.BLSChanges == nil || pre.Fork() < chain.Capella {
		return ErrNotApplicable
	}
	if len(*ops.BLSChanges) > 0 {
		return nil
	}
	who := healthyFromTop(pre, env, 1, pre.HasBLSCredentials)
	if !quiet(ops) || who == nil {
		return ErrNotApplicable
	}
	c, err := pre.MakeBLSChange(chain.BLSChangePlan{Validator: who[0]})
	if err != nil {
		return ErrNotApplicable
	}
	*ops.BLSChanges = append(*ops.BLSChanges, *c)
	return nil
}

// overLimitVariants: one variant per list field of the block body, carrying MAX + 1 VALID, mutually independent
// operations (distinct validators), so that ONLY the list limit - the bound of the SSZ list type - is exceeded.
func overLimitVariants() []Variant {
	lim := func(name string, min chain.Fork, edit bodyEdit) Variant {
		return Variant{name, "limits", min, edited(edit)}
	}
	return []Variant{
		// the slashed "proposer" is not in the registry (both headers name index len(validators))
		{"proposer-slashing-index-out-of-range", "proposer_slashing", chain.Phase0, edited(func(pre *chain.StateCtx, env *common.BeaconBlockEnvelope, ops *chain.BodyOps) error {
			if err := ensurePS(pre, env, ops); err != nil {
				return err
			}
			ps := &(*ops.ProposerSlashings)[0]
			k := pre.KeyOf(ps.SignedHeader1.Message.ProposerIndex)
			n := common.ValidatorIndex(len(pre.Validators()))
			ps.SignedHeader1.Message.ProposerIndex, ps.SignedHeader2.Message.ProposerIndex = n, n
			dom := pre.Domain(common.DOMAIN_BEACON_PROPOSER, pre.Spec.SlotToEpoch(ps.SignedHeader1.Message.Slot))
			ps.SignedHeader1.Signature = pre.Keys.Sign1(k, htr(&ps.SignedHeader1.Message), dom)
			ps.SignedHeader2.Signature = pre.Keys.Sign1(k, htr(&ps.SignedHeader2.Message), dom)
			return nil
		})},
		lim("proposer-slashings-over-limit", chain.Phase0, func(pre *chain.StateCtx, env *common.BeaconBlockEnvelope, ops *chain.BodyOps) error {
			n := int(pre.Spec.MAX_PROPOSER_SLASHINGS) + 1
			who := healthyFromTop(pre, env, n, nil)
			if !quiet(ops) || who == nil {
				return ErrNotApplicable
			}
			for _, v := range who {
				ps, err := pre.MakeProposerSlashing(chain.ProposerSlashingPlan{Proposer: v})
				if err != nil {
					return ErrNotApplicable
				}
				*ops.ProposerSlashings = append(*ops.ProposerSlashings, *ps)
			}
			return nil
		}),
		lim("attester-slashings-over-limit", chain.Phase0, func(pre *chain.StateCtx, env *common.BeaconBlockEnvelope, ops *chain.BodyOps) error {
			n := int(pre.Spec.MAX_ATTESTER_SLASHINGS) + 1
			who := healthyFromTop(pre, env, n, nil)
			if !quiet(ops) || who == nil || len(pre.ActiveIndices()) < 2*n+4 {
				return ErrNotApplicable
			}
			for _, v := range who {
				as, err := pre.MakeAttesterSlashing(chain.AttesterSlashingPlan{Indices: []common.ValidatorIndex{v}})
				if err != nil {
					return ErrNotApplicable
				}
				*ops.AttesterSlashings = append(*ops.AttesterSlashings, *as)
			}
			return nil
		}),
		lim("voluntary-exits-over-limit", chain.Phase0, func(pre *chain.StateCtx, env *common.BeaconBlockEnvelope, ops *chain.BodyOps) error {
			n := int(pre.Spec.MAX_VOLUNTARY_EXITS) + 1
			who := healthyFromTop(pre, env, n, pre.CanExit)
			if !quiet(ops) || who == nil || len(pre.ActiveIndices()) < n+8 {
				return ErrNotApplicable
			}
			for _, v := range who {
				e, err := pre.MakeExit(chain.ExitPlan{Validator: v})
				if err != nil {
					return ErrNotApplicable
				}
				*ops.VoluntaryExits = append(*ops.VoluntaryExits, *e)
			}
			return nil
		}),
		lim("deposits-over-limit", chain.Phase0, func(pre *chain.StateCtx, env *common.BeaconBlockEnvelope, ops *chain.BodyOps) error {
			if uint64(len(*ops.Deposits)) != uint64(pre.Spec.MAX_DEPOSITS) {
				return ErrNotApplicable
			}
			*ops.Deposits = append(*ops.Deposits, (*ops.Deposits)[len(*ops.Deposits)-1])
			return nil
		}),
		lim("bls-changes-over-limit", chain.Capella, func(pre *chain.StateCtx, env *common.BeaconBlockEnvelope, ops *chain.BodyOps) error {
			if ops.BLSChanges == nil || pre.Fork() < chain.Capella {
				return ErrNotApplicable
			}
			n := int(pre.Spec.MAX_BLS_TO_EXECUTION_CHANGES) + 1
			who := healthyFromTop(pre, env, n, pre.HasBLSCredentials)
			if !quiet(ops) || who == nil {
				return ErrNotApplicable
			}
			for _, v := range who {
				c, err := pre.MakeBLSChange(chain.BLSChangePlan{Validator: v})
				if err != nil {
					return ErrNotApplicable
				}
				*ops.BLSChanges = append(*ops.BLSChanges, *c)
			}
			return nil
		}),
		lim("payload-transactions-over-limit", chain.Bellatrix, func(pre *chain.StateCtx, env *common.BeaconBlockEnvelope, ops *chain.BodyOps) error {
			p := chain.PayloadOf(env.Body)
			if p == nil || len(p.Transactions) == 0 {
				return ErrNotApplicable
			}
			for uint64(len(p.Transactions)) <= uint64(pre.Spec.MAX_TRANSACTIONS_PER_PAYLOAD) {
				p.Transactions = append(p.Transactions, append([]byte{0x02, byte(len(p.Transactions))}, p.Transactions[0][2:]...))
			}
			return chain.SetPayload(env.Body, p)
		}),
		lim("payload-extra-data-over-limit", chain.Bellatrix, func(pre *chain.StateCtx, env *common.BeaconBlockEnvelope, ops *chain.BodyOps) error {
			p := chain.PayloadOf(env.Body)
			if p == nil || len(p.Transactions) == 0 {
				return ErrNotApplicable
			}
			for uint64(len(p.ExtraData)) <= uint64(pre.Spec.MAX_EXTRA_DATA_BYTES) {
				p.ExtraData = append(p.ExtraData, byte('x'))
			}
			return chain.SetPayload(env.Body, p)
		}),
	}
}

func editWithdrawals(fn func(ws []common.Withdrawal) ([]common.Withdrawal, error)) bodyEdit {
	return func(pre *chain.StateCtx, env *common.BeaconBlockEnvelope, ops *chain.BodyOps) error {
		p := chain.PayloadOf(env.Body)
		if p == nil || pre.Fork() < chain.Capella {
			return ErrNotApplicable
		}
		ws, err := fn(append([]common.Withdrawal(nil), p.Withdrawals...))
		if err != nil {
			return err
		}
		p.Withdrawals = ws
		return chain.SetPayload(env.Body, p)
	}
}
