package beaconrec

import (
	"fmt"
	"strings"
)

// A panic that escapes while the harness produces or prepares a chain is either the harness' own defect or -
// when it was raised inside zrnt's frames (the producer runs zrnt's ProcessSlots / block processing on copies
// to advance pre-states and to compute state roots, the oracle derivation steps a shadow copy) - a failure of
// the implementation on a history the model considers valid.  ClassifyStack tells the two apart.

// ClassifyStack inspects a debug.Stack() dump taken in a deferred function while panicking.  It returns the
// frame the (innermost) panic was raised in - the first non-runtime frame below the last "panic(" frame - the
// zrnt entry it ran under, and whether that origin belongs to zrnt (frames of zrnt's libraries such as ztyp
// count when a zrnt frame is met before any harness frame further out).
func ClassifyStack(stack []byte) (origin, under string, zrnt bool) {
	var frames []string
	for _, l := range strings.Split(string(stack), "\n") {
		if l == "" || strings.HasPrefix(l, "\t") || strings.HasPrefix(l, "goroutine ") {
			continue
		}
		frames = append(frames, l)
	}
	last := -1
	for i, f := range frames {
		if strings.HasPrefix(f, "panic(") {
			last = i
		}
	}
	decided := false
	for _, f := range frames[last+1:] {
		if strings.HasPrefix(f, "runtime.") || strings.HasPrefix(f, "runtime/") {
			continue
		}
		if origin == "" {
			origin = f
		}
		if !decided {
			if strings.Contains(f, "verif/harness") {
				decided = true
			} else if strings.Contains(f, "github.com/protolambda/zrnt") {
				decided, zrnt = true, true
			}
		}
		if under == "" {
			for _, e := range []string{"ProcessEpoch", "ProcessSlots", "ProcessBlock", "StateTransition", "PostSlotTransition", "UpgradeMaybe"} {
				if strings.Contains(f, "."+e+"(") {
					under = e
					break
				}
			}
		}
	}
	if i := strings.Index(origin, "("); i > 0 {
		origin = origin[:i]
	}
	return origin, under, zrnt
}

// Crash logs a panic raised inside zrnt outside a recorded call.  The trace specification reports it as a
// MISMATCH of kind "Crash" (a violation for whichever of C01 / C02 / C03 is being checked).
func (r *Recorder) Crash(scenario string, panicVal interface{}, stack []byte) error {
	origin, under, _ := ClassifyStack(stack)
	st := string(stack)
	if len(st) > 6000 {
		st = st[:6000]
	}
	r.C.Add("zrnt_panics_outside_recorded_calls", 1)
	return r.emit(map[string]interface{}{"ev": "Crash", "scenario": scenario, "after_slot": r.LastSlot, "panic": fmt.Sprint(panicVal),
		"origin": origin, "under": under, "stack": st})
}
