package beaconrec

import (
	"context"
	"fmt"

	"github.com/protolambda/zrnt/eth2/beacon"
	"github.com/protolambda/zrnt/eth2/beacon/common"

	"verif/harness/absstate"
)

// SigLookup resolves signature bytes to the description of what the harness signed.
type SigLookup = absstate.SigLookup

type blockEvent struct {
	Ev          string                 `json:"ev"`
	Variant     string                 `json:"variant,omitempty"`
	Class       string                 `json:"class,omitempty"`
	Clamped     bool                   `json:"clamped,omitempty"`
	// Pre (NegOn): the event is judged on this state (an edited copy of the live state), not on the history's
	Pre *absstate.State `json:"pre,omitempty"`
	Blk         *absstate.Block        `json:"blk"`
	Oracle      map[string]interface{} `json:"oracle"`
	Accepted    bool                   `json:"accepted"`
	ExpectValid bool                   `json:"expect_valid"`
	Err         string                 `json:"err"`
	Panic       string                 `json:"panic,omitempty"`
	RootOK      bool                   `json:"root_ok"`
	// Neg events that zrnt rejected: the same block run once more WITHOUT result validation (no proposer
	// signature / state root check) on another copy.  When that succeeds, Unvalidated is the resulting state
	// and UnvalidatedRootOK tells whether the declared state root is its root.
	Unvalidated       *absstate.State `json:"unvalidated,omitempty"`
	UnvalidatedRootOK bool            `json:"unvalidated_root_ok"`
	Post        *absstate.State        `json:"post,omitempty"`
}

// StateTransition runs common.StateTransition(ctx, spec, epc, state, env, validate) on the live state and
// logs a Block event: the abstract block, the oracle for the slots and the block, zrnt's verdict and the
// projected post-state.
func (r *Recorder) StateTransition(ctx context.Context, spec *common.Spec, epc *common.EpochsContext, state common.UpgradeableBeaconState, env *common.BeaconBlockEnvelope, validate bool) error {
	return r.transition(ctx, spec, epc, state, env, validate, "Block", "", "")
}

// NegBlock runs common.StateTransition for a (usually invalid) variant of a block on a COPY of the given
// state and context and logs it as a Neg event: the history does not advance.  The copy gets its own
// pubkey cache (the variant may carry deposits the real chain never sees).  The returned error is zrnt's.
func (r *Recorder) NegBlock(ctx context.Context, spec *common.Spec, epc *common.EpochsContext, state common.BeaconState, env *common.BeaconBlockEnvelope, variant, class string) error {
	return r.negBlock(ctx, spec, epc, state, env, variant, class, false)
}

// NegBlockOn is NegBlock on a state of the caller's own making (e.g. a copy of the live state whose registry
// was edited to put a validator exactly at a boundary): the event carries the projection of that state
// ("pre") and is judged on it instead of on the history's current state.
func (r *Recorder) NegBlockOn(ctx context.Context, spec *common.Spec, epc *common.EpochsContext, state common.BeaconState, env *common.BeaconBlockEnvelope, variant, class string) error {
	return r.negBlock(ctx, spec, epc, state, env, variant, class, true)
}

func (r *Recorder) negBlock(ctx context.Context, spec *common.Spec, epc *common.EpochsContext, state common.BeaconState, env *common.BeaconBlockEnvelope, variant, class string, withPre bool) error {
	r.negPre = nil
	if withPre {
		abs, err := absstate.Project(spec, state)
		if err != nil {
			return err
		}
		r.negPre = abs
	}
	defer func() { r.negPre = nil }()
	inner, err := absstate.Unwrap(state).CopyState()
	if err != nil {
		return err
	}
	work := &beacon.StandardUpgradeableBeaconState{BeaconState: inner}
	epc2 := epc.Clone()
	vals, err := inner.Validators()
	if err != nil {
		return err
	}
	if epc2.ValidatorPubkeyCache, err = common.NewPubkeyCache(vals); err != nil {
		return err
	}
	probe, expect := r.ProbeSlots, r.ExpectValid
	r.ProbeSlots, r.ExpectValid = false, false
	defer func() { r.ProbeSlots, r.ExpectValid = probe, expect }()
	// a second, untouched copy for the unvalidated run
	inner2, err := absstate.Unwrap(state).CopyState()
	if err != nil {
		return err
	}
	epc3 := epc.Clone()
	if epc3.ValidatorPubkeyCache, err = common.NewPubkeyCache(vals); err != nil {
		return err
	}
	r.unvalidated = func() (*absstate.State, bool) {
		w := &beacon.StandardUpgradeableBeaconState{BeaconState: inner2}
		ok := false
		func() {
			defer func() { recover() }()
			ok = common.StateTransition(ctx, spec, epc3, w, env, false) == nil
		}()
		if !ok {
			return nil, false
		}
		abs, _, err := absstate.ProjectLenient(spec, w)
		if err != nil {
			return nil, false
		}
		raw, err := absstate.Raw(spec, w)
		if err != nil {
			return nil, false
		}
		return abs, raw.Root == env.StateRoot
	}
	defer func() { r.unvalidated = nil }()
	return r.transition(ctx, spec, epc2, work, env, true, "Neg", variant, class)
}

func (r *Recorder) transition(ctx context.Context, spec *common.Spec, epc *common.EpochsContext, state common.UpgradeableBeaconState, env *common.BeaconBlockEnvelope, validate bool, kind, variant, class string) error {
	cur, err := state.Slot()
	if err != nil {
		return err
	}
	sh, err := NewShadow(spec, state)
	if err != nil {
		return err
	}
	slots := []*SlotOracle{}
	bg := context.Background()
	for s := cur; s < env.Slot; s++ {
		so, err := sh.Step(bg, r.C)
		if err != nil {
			return fmt.Errorf("oracle derivation: %w", err)
		}
		slots = append(slots, so)
	}
	oracle := map[string]interface{}{"slots": slots}
	if r.ProbeSlots {
		if err := r.probe(ctx, spec, epc, state, env.Slot, slots); err != nil {
			return err
		}
	}
	// block oracle on the shadow state advanced to the block's slot
	start, comms, fresh, err := Committees(spec, sh.State.BeaconState)
	if err != nil {
		return err
	}
	oracle["comm_start"], oracle["comms"] = start, comms
	shSlot, err := sh.State.Slot()
	if err != nil {
		return err
	}
	proposer := -1
	if pi, err := fresh.GetBeaconProposer(shSlot); err == nil {
		proposer = int(pi)
	}
	oracle["proposer"] = proposer
	mixes, err := sh.State.RandaoMixes()
	if err != nil {
		return err
	}
	oldMix, err := mixes.GetRandomMix(spec.SlotToEpoch(shSlot))
	if err != nil {
		return err
	}
	reveal, err := RandaoReveal(env.Body)
	if err != nil {
		return err
	}
	newMix := absstate.XorHash(oldMix, reveal[:])
	oracle["mix"] = absstate.ID(newMix[:])
	depIndex, err := sh.State.Eth1DepositIndex()
	if err != nil {
		return err
	}
	preAbs, err := absstate.Project(spec, sh.State)
	if err != nil {
		return err
	}
	r.LastSlot = int(env.Slot)
	ev := &blockEvent{Ev: kind, Variant: variant, Class: class, Oracle: oracle, ExpectValid: r.ExpectValid, Pre: r.negPre}
	var ret error
	func() {
		defer func() {
			if p := recover(); p != nil {
				ev.Panic = fmt.Sprint(p)
				ev.Err = "panic: " + ev.Panic
				ret = fmt.Errorf("panic: %v", p)
			}
		}()
		if err := common.StateTransition(ctx, spec, epc, state, env, validate); err != nil {
			ev.Err = err.Error()
			ret = err
		}
	}()
	ev.Accepted = ret == nil
	// the sync committee the live context holds: what zrnt's block processing used (read only to classify
	// a mismatch as the known finding "stale_sync_committee_cache")
	live := []int{}
	if epc.CurrentSyncCommittee != nil {
		for _, i := range epc.CurrentSyncCommittee.Indices {
			live = append(live, int(i))
		}
	}
	oracle["live_sync"] = live
	engineOK := true
	if r.EngineOK != nil {
		engineOK = r.EngineOK()
	}
	bctx := &absstate.BlockCtx{Sigs: r.Sigs, DepositIndex: uint64(depIndex), EngineOK: engineOK, Lenient: kind == "Neg"}
	ev.Blk, err = absstate.AbstractBlock(spec, env, bctx)
	if err != nil {
		return err
	}
	ev.Clamped = bctx.Clamped
	if kind == "Neg" {
		if ev.Accepted {
			var cl bool
			ev.Post, cl, err = absstate.ProjectLenient(spec, state)
			if err != nil {
				return err
			}
			ev.Clamped = ev.Clamped || cl
		}
	} else {
		ev.Post, err = absstate.Project(spec, state)
		if err != nil {
			return err
		}
	}
	if ev.Post != nil {
		raw, err := absstate.Raw(spec, state)
		if err != nil {
			return err
		}
		ev.RootOK = raw.Root == env.StateRoot
	}
	ev.Blk.StateRootOK = ev.RootOK
	if kind == "Neg" && !ev.Accepted && r.unvalidated != nil {
		ev.Unvalidated, ev.UnvalidatedRootOK = r.unvalidated()
	}
	if kind == "Neg" {
		countNeg(r.C, ev, preAbs)
	} else {
		countBlock(spec, r.C, ev, preAbs, int(env.Slot-cur))
	}
	if err := r.emit(ev); err != nil {
		return err
	}
	return ret
}

// probe runs common.ProcessSlots(to) on a COPY of the live state (own context clone) and logs the result
// as a Probe event: the same comparison as a Slots event, but the history does not advance.  It gives C02
// a direct observation of every non-trivial slot/epoch transition that otherwise only happens inside
// StateTransition (which C01 judges).
func (r *Recorder) probe(ctx context.Context, spec *common.Spec, epc *common.EpochsContext, state common.BeaconState, to common.Slot, slots []*SlotOracle) error {
	nontrivial := len(slots) >= 2
	for _, so := range slots {
		if so.Ep != nil {
			nontrivial = true
		}
	}
	if !nontrivial {
		return nil
	}
	cp, err := absstate.Unwrap(state).CopyState()
	if err != nil {
		return err
	}
	work := &beacon.StandardUpgradeableBeaconState{BeaconState: cp}
	ev := &slotsEvent{Ev: "Probe", To: int(to), Oracle: map[string]interface{}{"slots": slots}}
	func() {
		defer func() {
			if p := recover(); p != nil {
				ev.Panic = fmt.Sprint(p)
			}
		}()
		if err := common.ProcessSlots(ctx, spec, epc.Clone(), work, to); err != nil {
			ev.Err = err.Error()
		}
	}()
	ev.Post, err = absstate.Project(spec, work)
	if err != nil {
		return err
	}
	r.C.Add("probe_events", 1)
	return r.emit(ev)
}

// SlotsNeg runs common.ProcessSlots(copy of state, to) for a target slot that is NOT after the state's slot and
// logs the outcome: process_slots asserts state.slot < slot, so the call must fail and leave the state as it was.
func (r *Recorder) SlotsNeg(ctx context.Context, spec *common.Spec, epc *common.EpochsContext, state common.BeaconState, to common.Slot) error {
	cp, err := absstate.Unwrap(state).CopyState()
	if err != nil {
		return err
	}
	work := &beacon.StandardUpgradeableBeaconState{BeaconState: cp}
	ev := map[string]interface{}{"ev": "SlotsNeg", "to": int(to), "err": "", "ok": false}
	func() {
		defer func() {
			if p := recover(); p != nil {
				ev["panic"] = fmt.Sprint(p)
			}
		}()
		if err := common.ProcessSlots(ctx, spec, epc.Clone(), work, to); err != nil {
			ev["err"] = err.Error()
		} else {
			ev["ok"] = true
		}
	}()
	post, _, err := absstate.ProjectLenient(spec, work)
	if err != nil {
		return err
	}
	ev["post"] = post
	cur, _ := state.Slot()
	if to == cur {
		r.C.Add("slots_neg_to_current_slot", 1)
	} else {
		r.C.Add("slots_neg_to_earlier_slot", 1)
	}
	return r.emit(ev)
}
