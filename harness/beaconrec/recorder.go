// Package beaconrec records ndjson traces of zrnt's public state-transition entry points
// (common.ProcessSlots, common.StateTransition) for validation against spec/BeaconTrace.tla.
//
// Every step is executed on the LIVE state (with its live EpochsContext) through the public entry points.
// The environment oracle that the reference specification needs (state/header roots per slot, committees,
// proposers, sync-committee members, historical roots, ...) is derived from a separate COPY of the state
// that is advanced one slot at a time with a context rebuilt from scratch, plus the harness' own sha256
// glue (absstate/glue.go); it never reads the live EpochsContext.
package beaconrec

import (
	"bufio"
	"context"
	"encoding/json"
	"fmt"
	"io"

	"github.com/protolambda/zrnt/eth2/beacon"
	"github.com/protolambda/zrnt/eth2/beacon/common"

	"verif/harness/absstate"
)

type SyncOracle struct {
	Indices []int  `json:"indices"`
	Agg     string `json:"agg"`
}

type HistOracle struct {
	Batch string `json:"batch"`
	Br    string `json:"br"`
	Sr    string `json:"sr"`
}

// EpochOracle is the oracle of one epoch boundary (see spec/BeaconEpoch.tla).
type EpochOracle struct {
	CommStart int         `json:"comm_start"`
	Comms     [][][]int   `json:"comms"`
	Hist      HistOracle  `json:"hist"`
	Sync      *SyncOracle `json:"sync,omitempty"`
	SyncUp    *SyncOracle `json:"sync_up,omitempty"`
}

// SlotOracle is the oracle of one process_slot (+ epoch processing at a boundary).
type SlotOracle struct {
	StateRoot string       `json:"state_root"`
	BlockRoot string       `json:"block_root"`
	Ep        *EpochOracle `json:"ep,omitempty"`
}

// Counters are coverage counters (how often each sub-transition did something observable).
type Counters map[string]int

func (c Counters) Add(k string, n int) { c[k] += n }

// Recorder writes the trace.  It implements chain.Runner: every ProcessSlots / StateTransition call that
// goes through it is executed on the given (live) state with the given (live) context and logged.
type Recorder struct {
	C   Counters
	w   *bufio.Writer
	enc *json.Encoder
	// Events counts the events written.
	Events int
	// Sigs resolves a signature to the description of what the harness signed (nil: every signature is
	// described as unknown).
	Sigs SigLookup
	// ExpectValid marks the following Block events as honest valid blocks (the harness' claim): zrnt must
	// accept them and a rejection by the MODEL is a harness/model defect, not a zrnt violation.
	ExpectValid bool
	// EngineOK reports, after a transition, whether the execution engine accepted the payload it was
	// asked about (nil: it always does).
	EngineOK func() bool
	// CompensateSyncCache tells whether the driver hands zrnt a state wrapper that reloads the context's
	// sync-committee caches at every epoch start (chain.SyncFixState, compensating the known finding
	// "stale_sync_committee_cache").  Only recorded in the Init event's meta and in the counters.
	CompensateSyncCache bool
	// ProbeSlots: before every StateTransition whose slot processing is non-trivial (epoch boundary or
	// several slots), also run common.ProcessSlots on a copy and log it as a Probe event.
	ProbeSlots bool

	// LastSlot is the slot of the last event written (for crash reports)
	LastSlot int

	unvalidated func() (*absstate.State, bool)
	negPre      *absstate.State
}

func New(out io.Writer) *Recorder {
	w := bufio.NewWriterSize(out, 1<<20)
	return &Recorder{w: w, enc: json.NewEncoder(w), C: Counters{}}
}

func (r *Recorder) Flush() error { return r.w.Flush() }

func (r *Recorder) emit(v interface{}) error {
	r.Events++
	return r.enc.Encode(v)
}

// Init starts a new history at the given state.
func (r *Recorder) Init(spec *common.Spec, state common.BeaconState, meta map[string]interface{}) error {
	return r.InitWithKeys(spec, state, meta, map[string]int{})
}

// InitWithKeys is Init with the table pubkey id -> secret scalar of the harness' (small-integer) keys,
// which the model uses to decide aggregate-signature validity (P.KEYS).
func (r *Recorder) InitWithKeys(spec *common.Spec, state common.BeaconState, meta map[string]interface{}, keys map[string]int) error {
	p, err := absstate.Preset(spec)
	if err != nil {
		return err
	}
	p["KEYS"] = keys
	abs, err := absstate.Project(spec, state)
	if err != nil {
		return err
	}
	r.C.Add("histories", 1)
	if meta == nil {
		meta = map[string]interface{}{}
	}
	meta["compensate_sync_cache"] = r.CompensateSyncCache
	if !r.CompensateSyncCache {
		r.C.Add("histories_without_sync_cache_compensation", 1)
	}
	return r.emit(map[string]interface{}{"ev": "Init", "P": p, "state": abs, "meta": meta})
}

// ---------------------------------------------------------------------------------------------------
// oracle derivation on a stepped copy

// Shadow is the copy of the live state used to derive oracle values.
type Shadow struct {
	Spec  *common.Spec
	State *beacon.StandardUpgradeableBeaconState
}

func NewShadow(spec *common.Spec, state common.BeaconState) (*Shadow, error) {
	cp, err := absstate.Unwrap(state).CopyState()
	if err != nil {
		return nil, err
	}
	return &Shadow{Spec: spec, State: &beacon.StandardUpgradeableBeaconState{BeaconState: cp}}, nil
}

// StateRoot is hash_tree_root(state) computed over the flattened struct form of the state.
func StateRoot(spec *common.Spec, state common.BeaconState) (common.Root, error) {
	raw, err := absstate.Raw(spec, state)
	if err != nil {
		return common.Root{}, err
	}
	return raw.Root, nil
}

func comms(sh *common.ShufflingEpoch) [][][]int {
	out := make([][][]int, 0, len(sh.Committees))
	for _, slotComms := range sh.Committees {
		sc := make([][]int, 0, len(slotComms))
		for _, c := range slotComms {
			m := make([]int, 0, len(c))
			for _, v := range c {
				m = append(m, int(v))
			}
			sc = append(sc, m)
		}
		out = append(out, sc)
	}
	return out
}

// Committees returns the committees of the previous and current epoch of the state, from a context
// built from scratch for that state.
func Committees(spec *common.Spec, state common.BeaconState) (start int, out [][][]int, fresh *common.EpochsContext, err error) {
	fresh, err = common.NewEpochsContext(spec, state)
	if err != nil {
		return 0, nil, nil, err
	}
	if fresh.PreviousEpoch.Epoch != fresh.CurrentEpoch.Epoch {
		out = append(out, comms(fresh.PreviousEpoch)...)
	}
	out = append(out, comms(fresh.CurrentEpoch)...)
	start = int(fresh.PreviousEpoch.Epoch) * int(spec.SLOTS_PER_EPOCH)
	return start, out, fresh, nil
}

func activeAt(vals []absstate.Validator, epoch int) []common.ValidatorIndex {
	var out []common.ValidatorIndex
	for i, v := range vals {
		if v.Act <= epoch && epoch < v.Exit {
			out = append(out, common.ValidatorIndex(i))
		}
	}
	return out
}

// syncOracle computes get_next_sync_committee_indices for base epoch `epoch` on the given state, and
// the aggregate of the members' pubkeys.
func syncOracle(spec *common.Spec, state common.BeaconState, abs *absstate.State, epoch int) (*SyncOracle, error) {
	indices, err := common.ComputeSyncCommitteeIndices(spec, state, common.Epoch(epoch), activeAt(abs.Validators, epoch))
	if err != nil {
		return nil, err
	}
	vals, err := state.Validators()
	if err != nil {
		return nil, err
	}
	pubs := make([]common.BLSPubkey, 0, len(indices))
	out := &SyncOracle{Indices: make([]int, 0, len(indices))}
	for _, i := range indices {
		v, err := vals.Validator(i)
		if err != nil {
			return nil, err
		}
		pk, err := v.Pubkey()
		if err != nil {
			return nil, err
		}
		pubs = append(pubs, pk)
		out.Indices = append(out.Indices, int(i))
	}
	agg, err := absstate.AggregatePubkeys(pubs)
	if err != nil {
		return nil, err
	}
	out.Agg = absstate.ID(agg[:])
	return out, nil
}

// Step advances the shadow by exactly one slot and returns that slot's oracle record.
func (s *Shadow) Step(ctx context.Context, c Counters) (*SlotOracle, error) {
	spec := s.Spec
	slot, err := s.State.Slot()
	if err != nil {
		return nil, err
	}
	sr, err := StateRoot(spec, s.State.BeaconState)
	if err != nil {
		return nil, err
	}
	hdr, err := s.State.LatestBlockHeader()
	if err != nil {
		return nil, err
	}
	h := *hdr
	if h.StateRoot == (common.Root{}) {
		h.StateRoot = sr
	}
	br := absstate.HeaderRoot(&h)
	so := &SlotOracle{StateRoot: absstate.ID(sr[:]), BlockRoot: absstate.ID(br[:])}
	boundary := (slot+1)%spec.SLOTS_PER_EPOCH == 0
	epoch := int(slot / spec.SLOTS_PER_EPOCH)
	var pre *absstate.State
	var fresh *common.EpochsContext
	if boundary {
		ep := &EpochOracle{}
		ep.CommStart, ep.Comms, fresh, err = Committees(spec, s.State.BeaconState)
		if err != nil {
			return nil, err
		}
		so.Ep = ep
		pre, err = absstate.Project(spec, s.State)
		if err != nil {
			return nil, err
		}
	} else {
		fresh, err = common.NewEpochsContext(spec, s.State.BeaconState)
		if err != nil {
			return nil, err
		}
	}
	if err := common.ProcessSlots(ctx, spec, fresh, s.State, slot+1); err != nil {
		_, err2 := common.ComputeNextSyncCommittee(spec, fresh, s.State)
		return nil, fmt.Errorf("shadow ProcessSlots(%d): %v (next sync committee: %v; next-epoch active %d)", slot+1, err, err2, len(fresh.NextEpoch.ActiveIndices))
	}
	if boundary {
		post, err := absstate.Project(spec, s.State)
		if err != nil {
			return nil, err
		}
		// historical accumulators: block_roots / state_roots are not touched by epoch processing
		raw, err := absstate.Raw(spec, s.State.BeaconState)
		if err != nil {
			return nil, err
		}
		b, x, y := absstate.HistoricalBatchRoot(raw.BlockRoots, raw.StateRoots)
		so.Ep.Hist = HistOracle{Batch: absstate.ID(b[:]), Br: absstate.ID(x[:]), Sr: absstate.ID(y[:])}
		if pre.Fork != "phase0" {
			// get_next_sync_committee at the end of process_epoch: base epoch = current epoch + 1
			so.Ep.Sync, err = syncOracle(spec, s.State.BeaconState, post, epoch+1)
			if err != nil {
				return nil, err
			}
		} else if uint64(spec.ALTAIR_FORK_EPOCH) == uint64(epoch+1) {
			// upgrade_to_altair at the first slot of epoch+1: base epoch = (epoch + 1) + 1
			so.Ep.SyncUp, err = syncOracle(spec, s.State.BeaconState, post, epoch+2)
			if err != nil {
				return nil, err
			}
		}
		if c != nil {
			countEpoch(spec, c, pre, post)
		}
	}
	return so, nil
}

// ---------------------------------------------------------------------------------------------------
// Slots event

type slotsEvent struct {
	Ev     string                 `json:"ev"`
	To     int                    `json:"to"`
	Oracle map[string]interface{} `json:"oracle"`
	Err    string                 `json:"err,omitempty"`
	Panic  string                 `json:"panic,omitempty"`
	Post   *absstate.State        `json:"post"`
}

// ProcessSlots runs common.ProcessSlots(ctx, spec, epc, state, to) on the live state and logs the event.
// The returned error is zrnt's.
func (r *Recorder) ProcessSlots(ctx context.Context, spec *common.Spec, epc *common.EpochsContext, state common.UpgradeableBeaconState, to common.Slot) error {
	cur, err := state.Slot()
	if err != nil {
		return err
	}
	sh, err := NewShadow(spec, state)
	if err != nil {
		return err
	}
	slots := []*SlotOracle{}
	for s := cur; s < to; s++ {
		so, err := sh.Step(context.Background(), r.C)
		if err != nil {
			return fmt.Errorf("oracle derivation: %w", err)
		}
		slots = append(slots, so)
	}
	r.LastSlot = int(to)
	ev := &slotsEvent{Ev: "Slots", To: int(to), Oracle: map[string]interface{}{"slots": slots}}
	var ret error
	func() {
		defer func() {
			if p := recover(); p != nil {
				ev.Panic = fmt.Sprint(p)
				ret = fmt.Errorf("panic: %v", p)
			}
		}()
		if err := common.ProcessSlots(ctx, spec, epc, state, to); err != nil {
			ev.Err = err.Error()
			ret = err
		}
	}()
	ev.Post, err = absstate.Project(spec, state)
	if err != nil {
		return err
	}
	r.C.Add("slots_events", 1)
	r.C.Add("slots_processed", int(to-cur))
	if to-cur > 1 {
		r.C.Add("slots_events_multi", 1)
	}
	if err := r.emit(ev); err != nil {
		return err
	}
	return ret
}

// InitUpgraded starts a history whose first state `state` was obtained by upgrading the phase0 genesis
// state `pre` in place at slot 0 (fork epochs equal to 0).  The Init event then also carries the
// pre-upgrade state and the oracle of the upgrade, and the trace specification checks
// state = UpgradeMaybe(genesis_pre) (judged like a Slots event: "in-place upgrade at its configured epoch").
func (r *Recorder) InitUpgraded(spec *common.Spec, pre, state common.BeaconState, meta map[string]interface{}, keys map[string]int) error {
	p, err := absstate.Preset(spec)
	if err != nil {
		return err
	}
	p["KEYS"] = keys
	abs, err := absstate.Project(spec, state)
	if err != nil {
		return err
	}
	preAbs, err := absstate.Project(spec, pre)
	if err != nil {
		return err
	}
	orc := &EpochOracle{Comms: [][][]int{}}
	if abs.Fork != "phase0" {
		// upgrade_to_altair at slot 0: get_next_sync_committee with base epoch 0 + 1
		orc.SyncUp, err = syncOracle(spec, absstate.Unwrap(state), abs, 1)
		if err != nil {
			return err
		}
	}
	r.C.Add("histories", 1)
	r.C.Add("genesis_upgrades", 1)
	if meta == nil {
		meta = map[string]interface{}{}
	}
	meta["compensate_sync_cache"] = r.CompensateSyncCache
	return r.emit(map[string]interface{}{"ev": "Init", "P": p, "state": abs, "meta": meta, "genesis_pre": preAbs, "genesis_oracle": orc})
}
