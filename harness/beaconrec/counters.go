package beaconrec

import (
	"fmt"

	"github.com/protolambda/zrnt/eth2/beacon/altair"
	"github.com/protolambda/zrnt/eth2/beacon/bellatrix"
	"github.com/protolambda/zrnt/eth2/beacon/capella"
	"github.com/protolambda/zrnt/eth2/beacon/common"
	"github.com/protolambda/zrnt/eth2/beacon/deneb"
	"github.com/protolambda/zrnt/eth2/beacon/phase0"

	"verif/harness/absstate"
)

// countEpoch derives coverage counters from the abstract states right before (slot = last slot of the
// epoch) and right after one epoch boundary.  They only feed vacuity guards and the evidence file.
func countEpoch(spec *common.Spec, c Counters, pre, post *absstate.State) {
	c.Add("epochs", 1)
	c.Add("epochs_"+pre.Fork, 1)
	epoch := pre.Slot / int(spec.SLOTS_PER_EPOCH)
	prevEpoch := epoch
	if epoch > 0 {
		prevEpoch = epoch - 1
	}
	if prevEpoch-pre.Fin.Epoch > int(spec.MIN_EPOCHS_TO_INACTIVITY_PENALTY) {
		c.Add("epochs_in_leak", 1)
		c.Add("epochs_in_leak_"+pre.Fork, 1)
	}
	if post.Fin.Epoch > pre.Fin.Epoch {
		c.Add("epochs_finalizing", 1)
	}
	if post.CurJust.Epoch > pre.CurJust.Epoch {
		c.Add("epochs_justifying", 1)
	}
	inLeak := prevEpoch-pre.Fin.Epoch > int(spec.MIN_EPOCHS_TO_INACTIVITY_PENALTY)
	if pre.Fork != post.Fork && inLeak {
		c.Add("leak_across_fork_boundary", 1)
	}
	if pre.Fork != post.Fork {
		c.Add("fork_upgrades", 1)
		c.Add("upgrade_to_"+post.Fork, 1)
		if pre.PrevAtts != nil && len(*pre.CurAtts) > 0 {
			c.Add("upgrade_altair_with_pending_attestations", 1)
		}
	}
	n := len(pre.Validators)
	ejected, activated, queued, effChanged, slashPenalised, balUp, balDown := 0, 0, 0, 0, 0, 0, 0
	exitEpochs := map[int]int{}
	for i := 0; i < n; i++ {
		a, b := pre.Validators[i], post.Validators[i]
		if a.Exit == absstate.Far && b.Exit != absstate.Far {
			ejected++
		}
		if b.Exit != absstate.Far {
			exitEpochs[b.Exit]++
		}
		if a.Act == absstate.Far && b.Act != absstate.Far {
			activated++
		}
		if a.Elig == absstate.Far && b.Elig != absstate.Far {
			queued++
		}
		if a.Eff != b.Eff {
			effChanged++
			if b.Eff > a.Eff {
				c.Add("effective_balance_up", 1)
			} else {
				c.Add("effective_balance_down", 1)
			}
		}
		if a.Slashed && epoch+int(spec.EPOCHS_PER_SLASHINGS_VECTOR)/2 == a.Wd {
			slashPenalised++
		}
		if post.Balances[i] > pre.Balances[i] {
			balUp++
		} else if post.Balances[i] < pre.Balances[i] {
			balDown++
		}
	}
	c.Add("ejections", ejected)
	if ejected > 0 {
		c.Add("epochs_with_ejection", 1)
		// exit queue spanning several epochs while an ejection happens
		pending := 0
		for e := range exitEpochs {
			if e > epoch {
				pending++
			}
		}
		if pending >= 2 {
			c.Add("ejection_with_multi_epoch_exit_queue", 1)
		}
	}
	c.Add("activations", activated)
	// queue-vs-churn classes: churn limit of this epoch, validators eligible for activation at this transition
	// (eligibility epoch <= the finalized epoch the registry step sees), ejections in this single transition
	active := 0
	for i := 0; i < n; i++ {
		if pre.Validators[i].Act <= epoch && epoch < pre.Validators[i].Exit {
			active++
		}
	}
	churn := active / int(spec.CHURN_LIMIT_QUOTIENT)
	if churn < int(spec.MIN_PER_EPOCH_CHURN_LIMIT) {
		churn = int(spec.MIN_PER_EPOCH_CHURN_LIMIT)
	}
	eligible := 0
	for i := 0; i < n; i++ {
		if pre.Validators[i].Act == absstate.Far && pre.Validators[i].Elig <= post.Fin.Epoch {
			eligible++
		}
	}
	capLimit := int(spec.MAX_PER_EPOCH_ACTIVATION_CHURN_LIMIT)
	if pre.Fork == "deneb" {
		if churn > capLimit && eligible > capLimit {
			c.Add("deneb_activation_cap_binding", 1) // EIP-7514: the cap, not the churn limit, decides
		}
	} else if eligible > churn {
		c.Add("activation_queue_exceeds_churn_pre_deneb", 1)
		c.Add("activation_queue_exceeds_churn_"+pre.Fork, 1)
	}
	if ejected > churn {
		c.Add("ejections_exceed_churn", 1)
		c.Add("ejections_exceed_churn_"+pre.Fork, 1)
	}
	c.Add("activation_queue_entries", queued)
	c.Add("effective_balance_changes", effChanged)
	c.Add("slashing_penalties", slashPenalised)
	if slashPenalised >= 2 {
		c.Add("correlated_slashing_penalties", 1)
	}
	// top-ups made during the epoch (marks left by countBlock) that lift the effective balance
	for i := 0; i < n; i++ {
		k := fmt.Sprintf("_topup_%d", i)
		if c[k] > 0 {
			if post.Validators[i].Eff > pre.Validators[i].Eff {
				c.Add("topup_crossed_hysteresis", 1)
			}
			delete(c, k)
		}
	}
	c.Add("balance_increases", balUp)
	c.Add("balance_decreases", balDown)
	// "skip when nothing to do" shortcuts whose guard is true although the work is not a no-op
	noPart := true
	if pre.PrevAtts != nil && len(*pre.PrevAtts) > 0 {
		noPart = false
	}
	if pre.PrevPart != nil {
		for _, f := range *pre.PrevPart {
			if f != 0 {
				noPart = false
				break
			}
		}
	}
	if noPart && balDown > 0 && epoch > 0 {
		c.Add("penalties_without_any_previous_epoch_attestation", 1)
	}
	if queued > 0 && activated == 0 && ejected == 0 {
		c.Add("eligibility_marked_without_activation_or_ejection", 1)
	}
	for i := 0; i < n; i++ {
		if pre.Validators[i].Eff != post.Validators[i].Eff && pre.Balances[i] == post.Balances[i] {
			c.Add("effective_balance_change_with_unchanged_balance", 1)
			break
		}
	}
	if len(post.HistoricalRoots) > len(pre.HistoricalRoots) {
		c.Add("historical_roots_appended", 1)
	}
	if pre.HistSummaries != nil && post.HistSummaries != nil && len(*post.HistSummaries) > len(*pre.HistSummaries) {
		c.Add("historical_summaries_appended", 1)
	}
	if len(pre.Eth1Votes) > 0 && len(post.Eth1Votes) == 0 {
		c.Add("eth1_votes_reset", 1)
	}
	if pre.SyncNext != nil && post.SyncCur != nil && pre.Fork == post.Fork &&
		(epoch+1)%int(spec.EPOCHS_PER_SYNC_COMMITTEE_PERIOD) == 0 {
		c.Add("sync_committee_rotations", 1)
	}
	if pre.PrevAtts != nil && (len(*pre.PrevAtts) > 0) {
		c.Add("epochs_with_prev_attestations", 1)
	}
	if pre.PrevPart != nil {
		for _, f := range *pre.PrevPart {
			if f != 0 {
				c.Add("epochs_with_prev_participation", 1)
				break
			}
		}
	}
	if pre.Inactivity != nil {
		up, down := 0, 0
		for i := range *pre.Inactivity {
			if (*post.Inactivity)[i] > (*pre.Inactivity)[i] {
				up++
			} else if (*post.Inactivity)[i] < (*pre.Inactivity)[i] {
				down++
			}
		}
		c.Add("inactivity_score_increases", up)
		c.Add("inactivity_score_decreases", down)
	}
}

// RandaoReveal extracts the randao reveal of any fork's block body.
func RandaoReveal(body common.SpecObj) (common.BLSSignature, error) {
	switch b := body.(type) {
	case *phase0.BeaconBlockBody:
		return b.RandaoReveal, nil
	case *altair.BeaconBlockBody:
		return b.RandaoReveal, nil
	case *bellatrix.BeaconBlockBody:
		return b.RandaoReveal, nil
	case *capella.BeaconBlockBody:
		return b.RandaoReveal, nil
	case *deneb.BeaconBlockBody:
		return b.RandaoReveal, nil
	}
	return common.BLSSignature{}, fmt.Errorf("unsupported block body %T", body)
}

// countBlock derives coverage counters of one Block event (pre = state advanced to the block's slot).
func countBlock(spec *common.Spec, c Counters, ev *blockEvent, pre *absstate.State, slotsBefore int) {
	b := ev.Blk
	c.Add("block_events", 1)
	if !ev.Accepted {
		c.Add("blocks_rejected", 1)
		return
	}
	c.Add("blocks_"+pre.Fork, 1)
	if slotsBefore > 1 {
		c.Add("blocks_after_skipped_slots", 1)
	}
	if slotsBefore >= 1 && pre.Slot%int(spec.SLOTS_PER_EPOCH) == 0 {
		c.Add("blocks_at_epoch_start_with_epoch_processing", 1)
	}
	kinds := 0
	for _, n := range []struct {
		k string
		n int
	}{{"pslash", len(b.PSlash)}, {"aslash", len(b.ASlash)}, {"atts", len(b.Atts)}, {"deposits", len(b.Deposits)},
		{"exits", len(b.Exits)}, {"bls_changes", len(b.BLSChanges)}} {
		c.Add("ops_"+n.k, n.n)
		if n.n > 0 {
			kinds++
			c.Add("ops_"+n.k+"_"+pre.Fork, n.n)
		}
	}
	if kinds >= 2 {
		c.Add("blocks_with_several_operation_kinds", 1)
	}
	post := ev.Post
	if len(post.Validators) > len(pre.Validators) {
		c.Add("deposits_new_validator", len(post.Validators)-len(pre.Validators))
		c.Add("new_validator_deposit_in_"+pre.Fork, 1) // every fork has its own AddValidator
		for i := len(pre.Validators); i < len(post.Validators) && i < len(post.Balances); i++ {
			if uint64(post.Balances[i]) > uint64(spec.MAX_EFFECTIVE_BALANCE) {
				c.Add("new_validator_deposit_above_max_effective_balance_"+pre.Fork, 1)
			} else if uint64(post.Balances[i]) < uint64(spec.MAX_EFFECTIVE_BALANCE) {
				c.Add("new_validator_deposit_below_max_effective_balance_"+pre.Fork, 1)
			}
		}
	}
	if len(b.Deposits) > len(post.Validators)-len(pre.Validators) {
		c.Add("deposits_topup_or_skipped", len(b.Deposits)-(len(post.Validators)-len(pre.Validators)))
	}
	if post.Eth1 != pre.Eth1 {
		c.Add("eth1_data_changes", 1)
	}
	epoch := pre.Slot / int(spec.SLOTS_PER_EPOCH)
	for i := range pre.Validators {
		if !pre.Validators[i].Slashed && post.Validators[i].Slashed {
			c.Add("validators_slashed", 1)
			if pre.Validators[i].Exit != absstate.Far {
				c.Add("slashed_while_exiting", 1)
			}
		}
		if pre.Validators[i].Exit == absstate.Far && post.Validators[i].Exit != absstate.Far {
			c.Add("exits_initiated_in_block", 1)
			if post.Validators[i].Exit > epoch+1+int(spec.MAX_SEED_LOOKAHEAD) {
				c.Add("exit_queued_behind_earlier_exits", 1)
			}
		}
	}
	// attester slashings whose intersection mixes slashable and non-slashable validators (the latter are skipped)
	for _, as := range b.ASlash {
		in2 := map[int]bool{}
		for _, i := range as.A2.Indices {
			in2[i] = true
		}
		yes, no := 0, 0
		for _, i := range as.A1.Indices {
			if in2[i] && i < len(pre.Validators) {
				v := pre.Validators[i]
				if !v.Slashed && v.Act <= epoch && epoch < v.Wd {
					yes++
				} else {
					no++
					if v.Slashed {
						c.Add("attester_slashing_includes_already_slashed", 1)
					} else if v.Act > epoch {
						c.Add("attester_slashing_includes_not_yet_active", 1)
					} else {
						c.Add("attester_slashing_includes_withdrawable", 1)
					}
				}
			}
		}
		if yes > 0 && no > 0 {
			c.Add("attester_slashing_with_unslashable_member", 1)
		}
		// the two index sets differ on both sides: only the intersection is slashed
		in1 := map[int]bool{}
		for _, i := range as.A1.Indices {
			in1[i] = true
		}
		only1, only2 := 0, 0
		for _, i := range as.A1.Indices {
			if !in2[i] {
				only1++
			}
		}
		for _, i := range as.A2.Indices {
			if !in1[i] {
				only2++
			}
		}
		if only1 > 0 && only2 > 0 && yes > 0 {
			c.Add("attester_slashing_partial_intersection_"+pre.Fork, 1)
		}
	}
	// signature-byte shape x {new pubkey, top-up}: the spec verifies the signature of new pubkeys only
	{
		known := map[string]bool{}
		for i := range pre.Validators {
			known[pre.Validators[i].Pk] = true
		}
		for _, d := range b.Deposits {
			shape := d.SigShape
			if shape == "decodable" {
				shape = "wrong"
				if len(d.Sig.Signers) == 1 && d.Sig.Signers[0] == d.Pk && d.Sig.Msg == d.MsgRoot && d.Sig.Dom == "03000000" {
					shape = "valid"
				}
			}
			if known[d.Pk] {
				c.Add("dep_block_topup_"+shape, 1)
			} else {
				c.Add("dep_block_new_"+shape, 1)
				if shape == "valid" {
					known[d.Pk] = true
				}
			}
		}
		for i := len(pre.Validators); i < len(post.Validators); i++ {
			for _, d := range b.Deposits {
				if d.Pk == post.Validators[i].Pk && d.SigShape != "decodable" {
					// cannot happen by the specification; counted so that it would be visible
					c.Add("dep_block_validator_created_from_undecodable_signature", 1)
				}
			}
		}
	}
	// deposits to existing validators (top-ups): of an exited validator / marks for the hysteresis class
	for _, d := range b.Deposits {
		for i := range pre.Validators {
			if pre.Validators[i].Pk == d.Pk {
				c.Add("deposit_topups", 1)
				if pre.Validators[i].Exit <= epoch {
					c.Add("topup_of_exited_validator", 1)
				}
				if pre.Validators[i].Eff < int(spec.MAX_EFFECTIVE_BALANCE) {
					c[fmt.Sprintf("_topup_%d", i)] = 1
				}
				break
			}
		}
	}
	for _, ch := range b.BLSChanges {
		c[fmt.Sprintf("_bls_%d", ch.Validator)] = pre.Slot
	}
	// eth1 voting edge: this block's vote reaches exactly half / half + 1 of the period
	{
		period := int(spec.EPOCHS_PER_ETH1_VOTING_PERIOD) * int(spec.SLOTS_PER_EPOCH)
		same := 0
		for _, v := range post.Eth1Votes {
			if v == b.Eth1Vote {
				same++
			}
		}
		if b.Eth1Vote != pre.Eth1 {
			if same*2 == period {
				c.Add("eth1_vote_exactly_half_not_adopted", 1)
			}
			if same*2 == period+2 && post.Eth1 == b.Eth1Vote {
				c.Add("eth1_vote_half_plus_one_adopted", 1)
			}
		}
	}
	// aggregates of one (slot, committee) that overlap with what was included before: exact duplicate, strict
	// superset, partial overlap (some attesters already flagged, some new) - and, within the latter, an already
	// flagged attester PRECEDING a new one in committee order
	for _, a := range b.Atts {
		m := 0
		for i, x := range a.Bits {
			if x == 1 && i < 30 {
				m |= 1 << uint(i)
			}
		}
		key := fmt.Sprintf("_att_%d_%d", a.Data.Slot, a.Data.Index)
		p := c[key]
		if p != 0 && m != 0 {
			switch {
			case m&p == m:
				c.Add("atts_all_attesters_already_included", 1) // exact duplicate or subset of what was included
				c.Add("atts_all_attesters_already_included_"+pre.Fork, 1)
			case m&p == p:
				c.Add("atts_strict_superset_of_included", 1)
				c.Add("atts_strict_superset_of_included_"+pre.Fork, 1)
			case m&p != 0 && m&^p != 0:
				c.Add("atts_partial_overlap", 1)
				lowOld, highNew := 0, 0
				for i := 0; i < 30; i++ {
					if (m&p)>>uint(i)&1 == 1 {
						lowOld = i
						break
					}
				}
				for i := 29; i >= 0; i-- {
					if (m&^p)>>uint(i)&1 == 1 {
						highNew = i
						break
					}
				}
				if lowOld < highNew {
					c.Add("atts_partial_overlap_flagged_before_new", 1)
					c.Add("atts_partial_overlap_flagged_before_new_"+pre.Fork, 1)
				}
			}
		}
		c[key] = p | m
	}
	// inclusion delay classes
	sq := 1
	for (sq+1)*(sq+1) <= int(spec.SLOTS_PER_EPOCH) {
		sq++
	}
	for _, a := range b.Atts {
		d := pre.Slot - a.Data.Slot
		switch {
		case d == 1:
			c.Add("atts_delay_1", 1)
		case d <= sq:
			c.Add("atts_delay_upto_sqrt", 1)
		case d <= int(spec.SLOTS_PER_EPOCH):
			c.Add("atts_delay_upto_epoch", 1)
		default:
			c.Add("atts_delay_beyond_epoch", 1)
		}
	}
	if b.Sync != nil {
		set := 0
		for _, x := range b.Sync.Bits {
			set += x
		}
		c.Add("sync_bits_set", set)
		c.Add("sync_bits_unset", len(b.Sync.Bits)-set)
		if set > 0 && set < len(b.Sync.Bits) {
			c.Add("sync_aggregates_partial", 1)
			if pre.SyncCur != nil {
				seen := map[string]bool{}
				for _, pk := range pre.SyncCur.Pks {
					if seen[pk] {
						c.Add("sync_partial_with_duplicate_members", 1)
						break
					}
					seen[pk] = true
				}
			}
		}
		if set == 0 {
			c.Add("sync_aggregates_empty", 1)
		}
	}
	if b.Payload != nil {
		if b.Payload.IsDefault {
			c.Add("payloads_default_pre_merge", 1)
		} else {
			c.Add("payloads_"+pre.Fork, 1)
			h := b.Payload.Header
			if h.BlobGasUsed != nil && h.ExcessBlobGas != nil && *h.BlobGasUsed != *h.ExcessBlobGas && *h.BlobGasUsed != "0" && *h.ExcessBlobGas != "0" {
				c.Add("deneb_payload_blob_gas_fields_differ", 1)
			}
			// every field the header copies is non-default and no two scalar fields coincide
			vals := []string{h.BlockNumber, h.GasLimit, h.GasUsed, fmt.Sprint(h.Timestamp), h.BaseFee}
			distinct := map[string]bool{}
			for _, v := range vals {
				distinct[v] = true
			}
			if len(distinct) == len(vals) && !distinct["0"] && h.ExtraData != "" && h.LogsBloom != absstate.ZeroID &&
				h.FeeRecipient != absstate.ZeroID && h.StateRoot != absstate.ZeroID && h.ReceiptsRoot != absstate.ZeroID {
				c.Add("payload_header_fields_distinct_nonzero_"+pre.Fork, 1)
			}
		}
		c.Add("withdrawals", len(b.Payload.Withdrawals))
		for _, w := range b.Payload.Withdrawals {
			full := w.Validator < len(pre.Balances) && w.Amount == pre.Balances[w.Validator]
			if full {
				c.Add("withdrawals_full", 1)
			} else {
				c.Add("withdrawals_partial", 1)
			}
			if at, ok := c[fmt.Sprintf("_bls_%d", w.Validator)]; ok && pre.Slot-at <= 2*int(spec.SLOTS_PER_EPOCH) {
				if full {
					c.Add("full_withdrawal_after_bls_change", 1)
				} else {
					c.Add("partial_withdrawal_after_bls_change", 1)
				}
				delete(c, fmt.Sprintf("_bls_%d", w.Validator))
			}
		}
		if len(b.Payload.Withdrawals) > 0 {
			c.Add("blocks_with_withdrawals", 1)
		}
		if pre.NextWdValidator != nil && int(spec.MAX_VALIDATORS_PER_WITHDRAWALS_SWEEP) > len(pre.Validators) {
			c.Add("sweep_bound_exceeds_registry_size", 1)
			if len(b.Payload.Withdrawals) < int(spec.MAX_WITHDRAWALS_PER_PAYLOAD) {
				c.Add("sweep_bound_exceeds_registry_size_list_not_full", 1)
				if int(spec.MAX_VALIDATORS_PER_WITHDRAWALS_SWEEP)%len(pre.Validators) != 0 {
					c.Add("sweep_bound_exceeds_registry_size_cursor_wraps_unevenly", 1)
				}
			} else {
				c.Add("sweep_bound_exceeds_registry_size_list_full", 1)
			}
		}
	}
	if b.NCommitments > 0 {
		c.Add("blocks_with_blob_commitments", 1)
	}
	if pre.PrevAtts != nil {
		for _, a := range b.Atts {
			if a.Data.Tgt.Epoch < pre.Slot/int(spec.SLOTS_PER_EPOCH) {
				c.Add("atts_previous_epoch", 1)
			}
		}
	}
	if pre.Fork == "deneb" {
		for _, a := range b.Atts {
			if pre.Slot > a.Data.Slot+int(spec.SLOTS_PER_EPOCH) {
				c.Add("atts_beyond_one_epoch_deneb", 1)
			}
		}
	}
}

// countNeg counts the outcome of one negative variant per catalogue class and fork.
func countNeg(c Counters, ev *blockEvent, pre *absstate.State) {
	c.Add("neg_events", 1)
	out := "rejected"
	if ev.Accepted {
		out = "accepted"
	}
	if ev.Panic != "" {
		out = "panic"
	}
	c.Add("neg_"+out, 1)
	c.Add("neg_class_"+ev.Class, 1)
	c.Add("neg_class_"+ev.Class+"_"+pre.Fork, 1)
	c.Add("neg_variant_"+ev.Variant+"_"+out, 1)
	c.Add("neg_vf_"+ev.Variant+"_"+pre.Fork, 1)
	if ev.Clamped {
		c.Add("neg_clamped", 1)
	}
}
