package chain

import (
	"fmt"
	"math"
	"sort"

	"github.com/protolambda/zrnt/eth2/beacon/altair"
	"github.com/protolambda/zrnt/eth2/beacon/common"
	"github.com/protolambda/zrnt/eth2/beacon/phase0"
	"github.com/protolambda/ztyp/tree"
)

func htr(v interface{ HashTreeRoot(tree.HashFn) common.Root }) common.Root {
	return v.HashTreeRoot(tree.GetHashFn())
}

// ---------------------------------------------------------------------------------
// Attestations

// AttPlan describes one aggregate attestation to build against an inclusion state.
type AttPlan struct {
	Slot  common.Slot           // attestation slot
	Index common.CommitteeIndex // committee index

	// Participant selection, first non-empty wins; nothing set = the whole committee.
	Validators []common.ValidatorIndex // by validator index (must be committee members)
	Positions  []int                   // by position in the committee
	Fraction   float64                 // the first round(Fraction*len) members (0 < Fraction <= 1)
	// Except removes these validators from whatever was selected above ("offline set").
	Except map[common.ValidatorIndex]bool

	WrongHead   bool // vote for a non-existent head root (still includable)
	WrongTarget bool // vote for a non-existent target root (still includable)

	// Overrides for invalid variants (nil = honest value).
	Source *common.Checkpoint
	Target *common.Checkpoint
	Head   *common.Root
	// SignDomain overrides the signature domain; Signers overrides who signs (the bits
	// still reflect the selected participants).
	SignDomain *Domain
	Signers    []KeyID
}

// AttestationData computes honest attestation data for (slot, index) as seen from s,
// which must be at a slot >= the attestation slot, in the attestation's epoch or the
// next one: head = block root at slot, target = block root at the epoch start, source =
// the justified checkpoint s holds for that target epoch (current_justified if the
// target epoch is s's current epoch, previous_justified otherwise) - exactly what makes
// the attestation includable in a block built on s. Roots that s no longer has are
// replaced by UnknownRoot placeholders.
func (s *StateCtx) AttestationData(slot common.Slot, index common.CommitteeIndex) phase0.AttestationData {
	epoch := s.Spec.SlotToEpoch(slot)
	startSlot := must(s.Spec.EpochStartSlot(epoch))
	head, ok := s.BlockRootAt(slot)
	if !ok {
		head = UnknownRoot("head", uint64(slot))
	}
	target, ok := s.BlockRootAt(startSlot)
	if !ok {
		target = UnknownRoot("target", uint64(epoch))
	}
	prevJ, curJ, _ := s.Justified()
	source := prevJ
	if epoch == s.Epoch() {
		source = curJ
	}
	return phase0.AttestationData{
		Slot:            slot,
		Index:           index,
		BeaconBlockRoot: head,
		Source:          source,
		Target:          common.Checkpoint{Epoch: epoch, Root: target},
	}
}

// NewAttestationBits makes a bitlist of n bits with the given positions set.
func NewAttestationBits(n int, set []int) phase0.AttestationBits {
	bits := make(phase0.AttestationBits, n/8+1)
	bits[n/8] = 1 << (uint(n) % 8) // delimiter
	for _, p := range set {
		bits[p/8] |= 1 << (uint(p) % 8)
	}
	return bits
}

// selectPositions resolves the participant selection of an AttPlan against a committee.
func (p *AttPlan) selectPositions(committee []common.ValidatorIndex) ([]int, error) {
	var pos []int
	switch {
	case len(p.Validators) > 0:
		for _, v := range p.Validators {
			found := false
			for i, m := range committee {
				if m == v {
					pos = append(pos, i)
					found = true
					break
				}
			}
			if !found {
				return nil, fmt.Errorf("validator %d is not in committee (%d,%d) %v", v, p.Slot, p.Index, committee)
			}
		}
	case len(p.Positions) > 0:
		for _, i := range p.Positions {
			if i < 0 || i >= len(committee) {
				return nil, fmt.Errorf("position %d out of committee size %d", i, len(committee))
			}
		}
		pos = append(pos, p.Positions...)
	case p.Fraction > 0:
		k := int(math.Round(p.Fraction * float64(len(committee))))
		if k > len(committee) {
			k = len(committee)
		}
		for i := 0; i < k; i++ {
			pos = append(pos, i)
		}
	default:
		for i := range committee {
			pos = append(pos, i)
		}
	}
	if len(p.Except) > 0 {
		kept := pos[:0:0]
		for _, i := range pos {
			if !p.Except[committee[i]] {
				kept = append(kept, i)
			}
		}
		pos = kept
	}
	sort.Ints(pos)
	return pos, nil
}

// MakeAttestation builds and signs the aggregate attestation described by p, valid for
// inclusion in a block built on s (s = pre-state advanced to the block's slot).
// It returns (nil, nil) if the selection leaves no participant.
func (s *StateCtx) MakeAttestation(p AttPlan) (att *phase0.Attestation, err error) {
	defer recoverTo(&err)
	committee, err := s.Committee(p.Slot, p.Index)
	if err != nil {
		return nil, err
	}
	pos, err := p.selectPositions(committee)
	if err != nil {
		return nil, err
	}
	if len(pos) == 0 && p.Signers == nil {
		return nil, nil
	}
	data := s.AttestationData(p.Slot, p.Index)
	if p.WrongTarget {
		data.Target.Root = UnknownRoot("wrong-target", uint64(p.Slot))
	}
	if p.WrongHead || p.WrongTarget {
		data.BeaconBlockRoot = UnknownRoot("wrong-head", uint64(p.Slot))
	}
	if p.Source != nil {
		data.Source = *p.Source
	}
	if p.Target != nil {
		data.Target = *p.Target
	}
	if p.Head != nil {
		data.BeaconBlockRoot = *p.Head
	}
	signers := p.Signers
	if signers == nil {
		for _, i := range pos {
			signers = append(signers, s.KeyOf(committee[i]))
		}
	}
	dom := s.Domain(common.DOMAIN_BEACON_ATTESTER, data.Target.Epoch)
	if p.SignDomain != nil {
		dom = *p.SignDomain
	}
	return &phase0.Attestation{
		AggregationBits: NewAttestationBits(len(committee), pos),
		Data:            data,
		Signature:       SignAttestationData(s.Keys, &data, signers, dom),
	}, nil
}

// SignAttestationData signs attestation data with the given keys under an explicit domain.
func SignAttestationData(ks *Keys, data *phase0.AttestationData, signers []KeyID, dom Domain) common.BLSSignature {
	return ks.Sign(signers, htr(data), dom)
}

// AttestSlot returns one AttPlan per committee of slot, each with the given fraction of
// its members (correct head/target), minus the validators in except.
func (s *StateCtx) AttestSlot(slot common.Slot, fraction float64, except map[common.ValidatorIndex]bool) ([]AttPlan, error) {
	n, err := s.CommitteeCount(s.Spec.SlotToEpoch(slot))
	if err != nil {
		return nil, err
	}
	out := make([]AttPlan, 0, n)
	for i := uint64(0); i < n; i++ {
		out = append(out, AttPlan{Slot: slot, Index: common.CommitteeIndex(i), Fraction: fraction, Except: except})
	}
	return out, nil
}

// InclusionWindow returns the first and last slot at which an attestation of slot
// attSlot may be included in a block of the given fork:
// phase0..capella: [attSlot+MIN_ATTESTATION_INCLUSION_DELAY, attSlot+SLOTS_PER_EPOCH];
// deneb (EIP-7045): until the end of the epoch after the attestation's epoch.
func InclusionWindow(spec *common.Spec, fork Fork, attSlot common.Slot) (first, last common.Slot) {
	first = attSlot + spec.MIN_ATTESTATION_INCLUSION_DELAY
	if fork >= Deneb {
		last = must(spec.EpochStartSlot(spec.SlotToEpoch(attSlot)+2)) - 1
	} else {
		last = attSlot + spec.SLOTS_PER_EPOCH
	}
	return
}

// ---------------------------------------------------------------------------------
// Slashings

// ProposerSlashingPlan: two conflicting signed headers of one proposer.
type ProposerSlashingPlan struct {
	Proposer common.ValidatorIndex
	// HeaderSlot of both headers; 0 = the block's slot. Any slot works: the signature
	// domain follows get_domain(state, PROPOSER, epoch(HeaderSlot)).
	HeaderSlot common.Slot
	// Overrides for invalid variants.
	SameHeaders bool    // identical headers (not slashable)
	Signer1     *KeyID  // key for header 1 (default: the proposer's)
	Signer2     *KeyID  // key for header 2
	Domain      *Domain // signature domain override (both headers)
}

// MakeProposerSlashing builds the operation against s.
func (s *StateCtx) MakeProposerSlashing(p ProposerSlashingPlan) (ps *phase0.ProposerSlashing, err error) {
	defer recoverTo(&err)
	slot := p.HeaderSlot
	if slot == 0 {
		slot = s.Slot()
	}
	h1 := common.BeaconBlockHeader{Slot: slot, ProposerIndex: p.Proposer,
		ParentRoot: UnknownRoot("ps-parent", uint64(slot)), StateRoot: UnknownRoot("ps-state", 1), BodyRoot: UnknownRoot("ps-body", 1)}
	h2 := h1
	if !p.SameHeaders {
		h2.BodyRoot = UnknownRoot("ps-body", 2)
	}
	dom := s.Domain(common.DOMAIN_BEACON_PROPOSER, s.Spec.SlotToEpoch(slot))
	if p.Domain != nil {
		dom = *p.Domain
	}
	k := s.KeyOf(p.Proposer)
	k1, k2 := k, k
	if p.Signer1 != nil {
		k1 = *p.Signer1
	}
	if p.Signer2 != nil {
		k2 = *p.Signer2
	}
	return &phase0.ProposerSlashing{
		SignedHeader1: common.SignedBeaconBlockHeader{Message: h1, Signature: s.Keys.Sign1(k1, htr(&h1), dom)},
		SignedHeader2: common.SignedBeaconBlockHeader{Message: h2, Signature: s.Keys.Sign1(k2, htr(&h2), dom)},
	}, nil
}

// AttesterSlashingPlan: two slashable indexed attestations.
type AttesterSlashingPlan struct {
	// Indices of the validators that signed both attestations (any order, deduplicated
	// and sorted by the builder unless KeepOrder).
	Indices []common.ValidatorIndex
	// Surround: attestation 1 surrounds attestation 2 (source1 < source2 < target2 < target1);
	// otherwise a double vote (same target epoch, different roots).
	Surround bool
	// TargetEpoch of the (outer) attestation; 0 = the state's current epoch (for
	// Surround at least 3 is needed, the builder raises it).
	TargetEpoch common.Epoch
	// Only2: validators that signed only attestation 2 (to test partial intersections).
	Only2 []common.ValidatorIndex
	// Only1: validators that signed only attestation 1.
	Only1 []common.ValidatorIndex

	// Overrides for invalid variants.
	KeepOrder bool // do not sort/deduplicate Indices
	SameData  bool // both attestations identical (not slashable)
	Signers1  []KeyID
	Signers2  []KeyID
	Domain    *Domain
}

// MakeAttesterSlashing builds the operation against s. The attestation data is
// synthetic (placeholder roots): slashability does not depend on the chain.
func (s *StateCtx) MakeAttesterSlashing(p AttesterSlashingPlan) (as *phase0.AttesterSlashing, err error) {
	defer recoverTo(&err)
	ind1 := append(append([]common.ValidatorIndex(nil), p.Indices...), p.Only1...)
	ind2 := append(append([]common.ValidatorIndex(nil), p.Indices...), p.Only2...)
	if !p.KeepOrder {
		ind1 = sortedUnique(ind1)
		ind2 = sortedUnique(ind2)
	}
	te := p.TargetEpoch
	if te == 0 {
		te = s.Epoch()
	}
	var d1, d2 phase0.AttestationData
	if p.Surround {
		if te < 3 {
			te = 3
		}
		d1 = phase0.AttestationData{Slot: must(s.Spec.EpochStartSlot(te)), BeaconBlockRoot: UnknownRoot("as-head", 1),
			Source: common.Checkpoint{Epoch: te - 3, Root: UnknownRoot("as-src", 1)},
			Target: common.Checkpoint{Epoch: te, Root: UnknownRoot("as-tgt", 1)}}
		d2 = phase0.AttestationData{Slot: must(s.Spec.EpochStartSlot(te - 1)), BeaconBlockRoot: UnknownRoot("as-head", 2),
			Source: common.Checkpoint{Epoch: te - 2, Root: UnknownRoot("as-src", 2)},
			Target: common.Checkpoint{Epoch: te - 1, Root: UnknownRoot("as-tgt", 2)}}
	} else {
		src := common.Epoch(0)
		if te > 0 {
			src = te - 1
		}
		d1 = phase0.AttestationData{Slot: must(s.Spec.EpochStartSlot(te)), BeaconBlockRoot: UnknownRoot("as-head", 1),
			Source: common.Checkpoint{Epoch: src, Root: UnknownRoot("as-src", 0)},
			Target: common.Checkpoint{Epoch: te, Root: UnknownRoot("as-tgt", 1)}}
		d2 = d1
		d2.BeaconBlockRoot = UnknownRoot("as-head", 2)
		d2.Target.Root = UnknownRoot("as-tgt", 2)
	}
	if p.SameData {
		d2 = d1
	}
	dom1 := s.Domain(common.DOMAIN_BEACON_ATTESTER, d1.Target.Epoch)
	dom2 := s.Domain(common.DOMAIN_BEACON_ATTESTER, d2.Target.Epoch)
	if p.Domain != nil {
		dom1, dom2 = *p.Domain, *p.Domain
	}
	s1, s2 := p.Signers1, p.Signers2
	if s1 == nil {
		s1 = s.KeysOf(ind1)
	}
	if s2 == nil {
		s2 = s.KeysOf(ind2)
	}
	return &phase0.AttesterSlashing{
		Attestation1: phase0.IndexedAttestation{AttestingIndices: ind1, Data: d1, Signature: SignAttestationData(s.Keys, &d1, s1, dom1)},
		Attestation2: phase0.IndexedAttestation{AttestingIndices: ind2, Data: d2, Signature: SignAttestationData(s.Keys, &d2, s2, dom2)},
	}, nil
}

func sortedUnique(in []common.ValidatorIndex) []common.ValidatorIndex {
	sort.Slice(in, func(i, j int) bool { return in[i] < in[j] })
	out := in[:0]
	for i, v := range in {
		if i == 0 || v != in[i-1] {
			out = append(out, v)
		}
	}
	return out
}

// IsSlashable is is_slashable_validator(v, epoch).
func IsSlashable(v *common.FlatValidator, epoch common.Epoch) bool {
	return !v.Slashed && v.ActivationEpoch <= epoch && epoch < v.WithdrawableEpoch
}

// ---------------------------------------------------------------------------------
// Voluntary exits

// ExitPlan: a signed voluntary exit.
type ExitPlan struct {
	Validator common.ValidatorIndex
	// Epoch in the exit message; nil = the state's current epoch.
	Epoch *common.Epoch
	// Overrides for invalid variants.
	Signer *KeyID
	Domain *Domain
}

// ExitDomain returns the domain an exit with the given message epoch must be signed with
// in a block built on s: get_domain(state, VOLUNTARY_EXIT, epoch) before deneb, and the
// capella fork version regardless of epoch from deneb on (EIP-7044).
func (s *StateCtx) ExitDomain(epoch common.Epoch) Domain {
	if s.Fork() >= Deneb {
		return Domain{Type: common.DOMAIN_VOLUNTARY_EXIT, Version: s.Spec.CAPELLA_FORK_VERSION, GVR: s.GVR()}
	}
	return s.Domain(common.DOMAIN_VOLUNTARY_EXIT, epoch)
}

// MakeExit builds the signed exit against s.
func (s *StateCtx) MakeExit(p ExitPlan) (e *phase0.SignedVoluntaryExit, err error) {
	defer recoverTo(&err)
	epoch := s.Epoch()
	if p.Epoch != nil {
		epoch = *p.Epoch
	}
	msg := phase0.VoluntaryExit{Epoch: epoch, ValidatorIndex: p.Validator}
	dom := s.ExitDomain(epoch)
	if p.Domain != nil {
		dom = *p.Domain
	}
	var k KeyID
	if p.Signer != nil {
		k = *p.Signer
	} else {
		k = s.KeyOf(p.Validator)
	}
	return &phase0.SignedVoluntaryExit{Message: msg, Signature: s.Keys.Sign1(k, htr(&msg), dom)}, nil
}

// CanExit tells whether a voluntary exit of validator i (message epoch = current) is
// valid in a block built on s: active, not exiting, old enough (SHARD_COMMITTEE_PERIOD).
func (s *StateCtx) CanExit(i common.ValidatorIndex) bool {
	if uint64(i) >= s.ValidatorCount() {
		return false
	}
	v := s.Validator(i)
	e := s.Epoch()
	return v.IsActive(e) && v.ExitEpoch == FarFuture && e >= v.ActivationEpoch+s.Spec.SHARD_COMMITTEE_PERIOD
}

// ---------------------------------------------------------------------------------
// BLS to execution changes (capella+)

// BLSChangePlan: a signed BLS-to-execution change.
type BLSChangePlan struct {
	Validator common.ValidatorIndex
	// To is the new execution address; nil = Eth1Address(key of the validator).
	To *common.Eth1Address
	// Overrides for invalid variants.
	FromKey *KeyID // key whose pubkey goes into from_bls_pubkey AND signs (default: WithdrawalKey(validator key))
	Signer  *KeyID // signing key only
	Domain  *Domain
}

// BLSChangeDomain is compute_domain(DOMAIN_BLS_TO_EXECUTION_CHANGE, GENESIS_FORK_VERSION, gvr):
// fork-independent by specification.
func (s *StateCtx) BLSChangeDomain() Domain {
	return Domain{Type: common.DOMAIN_BLS_TO_EXECUTION_CHANGE, Version: s.Spec.GENESIS_FORK_VERSION, GVR: s.GVR()}
}

// MakeBLSChange builds the signed change against s.
func (s *StateCtx) MakeBLSChange(p BLSChangePlan) (c *common.SignedBLSToExecutionChange, err error) {
	defer recoverTo(&err)
	vk := s.KeyOf(p.Validator)
	from := WithdrawalKey(vk)
	if p.FromKey != nil {
		from = *p.FromKey
	}
	to := Eth1Address(vk)
	if p.To != nil {
		to = *p.To
	}
	msg := common.BLSToExecutionChange{ValidatorIndex: p.Validator, FromBLSPubKey: s.Keys.Pubkey(from), ToExecutionAddress: to}
	signer := from
	if p.Signer != nil {
		signer = *p.Signer
	}
	dom := s.BLSChangeDomain()
	if p.Domain != nil {
		dom = *p.Domain
	}
	return &common.SignedBLSToExecutionChange{BLSToExecutionChange: msg, Signature: s.Keys.Sign1(signer, htr(&msg), dom)}, nil
}

// HasBLSCredentials tells whether validator i still has 0x00 credentials.
func (s *StateCtx) HasBLSCredentials(i common.ValidatorIndex) bool {
	return s.Credentials(i)[0] == common.BLS_WITHDRAWAL_PREFIX
}

// ---------------------------------------------------------------------------------
// Sync aggregate (altair+)

// SyncPlan selects the sync committee participants of a block. The zero value means
// full participation.
type SyncPlan struct {
	// None: nobody participates (infinity signature).
	None bool
	// Positions: exactly these committee positions participate (overrides Fraction).
	Positions []int
	// Fraction of positions (the first round(Fraction*size)); 0 = all.
	Fraction float64
	// Except removes the positions held by these validators.
	Except map[common.ValidatorIndex]bool

	// Overrides for invalid variants.
	Root    *common.Root // signed block root (default: block root at slot-1)
	Domain  *Domain
	Signers []KeyID // who really signs (bits unchanged)
}

// NewSyncBits makes a sync committee bitvector with the given positions set.
func NewSyncBits(spec *common.Spec, set []int) altair.SyncCommitteeBits {
	bits := make(altair.SyncCommitteeBits, (uint64(spec.SYNC_COMMITTEE_SIZE)+7)/8)
	for _, p := range set {
		bits[p/8] |= 1 << (uint(p) % 8)
	}
	return bits
}

// MakeSyncAggregate builds the sync aggregate for a block built on s (s at the block's
// slot): participants sign the block root of slot-1 under DOMAIN_SYNC_COMMITTEE at
// epoch(slot-1).
func (s *StateCtx) MakeSyncAggregate(p SyncPlan) (agg *altair.SyncAggregate, err error) {
	defer recoverTo(&err)
	members := s.SyncCommittee() // from the state, not from zrnt's cache
	if members == nil {
		return nil, fmt.Errorf("no sync committee in the state (fork %s)", s.Fork())
	}
	var pos []int
	switch {
	case p.None:
	case len(p.Positions) > 0:
		pos = append(pos, p.Positions...)
	default:
		k := len(members)
		if p.Fraction > 0 {
			k = int(math.Round(p.Fraction * float64(len(members))))
			if k > len(members) {
				k = len(members)
			}
		}
		for i := 0; i < k; i++ {
			pos = append(pos, i)
		}
	}
	if len(p.Except) > 0 {
		kept := pos[:0:0]
		for _, i := range pos {
			if !p.Except[members[i]] {
				kept = append(kept, i)
			}
		}
		pos = kept
	}
	sort.Ints(pos)
	slot := s.Slot()
	prev := slot.Previous()
	root, ok := s.BlockRootAt(prev)
	if !ok {
		return nil, fmt.Errorf("no block root for slot %d", prev)
	}
	if p.Root != nil {
		root = *p.Root
	}
	dom := s.Domain(common.DOMAIN_SYNC_COMMITTEE, s.Spec.SlotToEpoch(prev))
	if p.Domain != nil {
		dom = *p.Domain
	}
	signers := p.Signers
	if signers == nil {
		for _, i := range pos {
			signers = append(signers, s.KeyOf(members[i]))
		}
	}
	return &altair.SyncAggregate{
		SyncCommitteeBits:      NewSyncBits(s.Spec, pos),
		SyncCommitteeSignature: s.Keys.Sign(signers, root, dom),
	}, nil
}

// ---------------------------------------------------------------------------------
// Randao

// MakeRandaoReveal signs the epoch of s with the key of validator `proposer`.
func (s *StateCtx) MakeRandaoReveal(proposer common.ValidatorIndex) common.BLSSignature {
	e := s.Epoch()
	return s.Keys.Sign1(s.KeyOf(proposer), htr(e), s.Domain(common.DOMAIN_RANDAO, e))
}
