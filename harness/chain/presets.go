// Package chain builds real, valid, signed beacon chains on top of zrnt under tiny
// ("scaled") presets. See README.md for an overview.
package chain

import (
	"fmt"

	"github.com/protolambda/zrnt/eth2/beacon/common"
	"github.com/protolambda/zrnt/eth2/configs"
	"github.com/protolambda/ztyp/view"
)

// FarFuture is the "never" fork epoch.
const FarFuture = common.FAR_FUTURE_EPOCH

// ForkSchedule lists the activation epochs of the four post-phase0 forks.
// Any monotone (non-decreasing) schedule is accepted, including equal epochs
// (several upgrades in the same slot), epoch 0 (fork active at genesis: the genesis
// state is upgraded right after it was built, see NewGenesis) and FarFuture (never).
// Once a fork is FarFuture all later forks must be FarFuture too.
type ForkSchedule struct {
	Altair    common.Epoch
	Bellatrix common.Epoch
	Capella   common.Epoch
	Deneb     common.Epoch
}

// Phase0Only is the schedule in which no fork ever activates.
var Phase0Only = ForkSchedule{FarFuture, FarFuture, FarFuture, FarFuture}

// Forks is shorthand for ForkSchedule{a, b, c, d}.
func Forks(altair, bellatrix, capella, deneb common.Epoch) ForkSchedule {
	return ForkSchedule{altair, bellatrix, capella, deneb}
}

// AllAt returns the schedule with every fork at the same epoch.
func AllAt(e common.Epoch) ForkSchedule { return ForkSchedule{e, e, e, e} }

// Validate checks monotonicity.
func (f ForkSchedule) Validate() error {
	if f.Altair > f.Bellatrix || f.Bellatrix > f.Capella || f.Capella > f.Deneb {
		return fmt.Errorf("fork schedule not monotone: %v", f)
	}
	return nil
}

func (f ForkSchedule) String() string {
	s := func(e common.Epoch) string {
		if e == FarFuture {
			return "never"
		}
		return fmt.Sprintf("%d", uint64(e))
	}
	return fmt.Sprintf("altair=%s,bellatrix=%s,capella=%s,deneb=%s", s(f.Altair), s(f.Bellatrix), s(f.Capella), s(f.Deneb))
}

// Fork identifies one of the five forks the harness produces blocks for.
type Fork int

const (
	Phase0 Fork = iota
	Altair
	Bellatrix
	Capella
	Deneb
)

var forkNames = [...]string{"phase0", "altair", "bellatrix", "capella", "deneb"}

func (f Fork) String() string {
	if f < 0 || int(f) >= len(forkNames) {
		return fmt.Sprintf("fork(%d)", int(f))
	}
	return forkNames[f]
}

// AllForks lists the five forks in order.
var AllForks = []Fork{Phase0, Altair, Bellatrix, Capella, Deneb}

// ForkAtEpoch returns the fork that is active at the given epoch according to the
// fork epochs in spec (the harness' own reading of the schedule; it deliberately does
// not call spec.ForkVersion, see README "zrnt oddities").
func ForkAtEpoch(spec *common.Spec, epoch common.Epoch) Fork {
	switch {
	case epoch >= spec.DENEB_FORK_EPOCH:
		return Deneb
	case epoch >= spec.CAPELLA_FORK_EPOCH:
		return Capella
	case epoch >= spec.BELLATRIX_FORK_EPOCH:
		return Bellatrix
	case epoch >= spec.ALTAIR_FORK_EPOCH:
		return Altair
	default:
		return Phase0
	}
}

// ForkVersionOf returns the configured version of a fork.
func ForkVersionOf(spec *common.Spec, f Fork) common.Version {
	switch f {
	case Altair:
		return spec.ALTAIR_FORK_VERSION
	case Bellatrix:
		return spec.BELLATRIX_FORK_VERSION
	case Capella:
		return spec.CAPELLA_FORK_VERSION
	case Deneb:
		return spec.DENEB_FORK_VERSION
	default:
		return spec.GENESIS_FORK_VERSION
	}
}

// ForkEpochOf returns the activation epoch of a fork (0 for phase0).
func ForkEpochOf(spec *common.Spec, f Fork) common.Epoch {
	switch f {
	case Altair:
		return spec.ALTAIR_FORK_EPOCH
	case Bellatrix:
		return spec.BELLATRIX_FORK_EPOCH
	case Capella:
		return spec.CAPELLA_FORK_EPOCH
	case Deneb:
		return spec.DENEB_FORK_EPOCH
	default:
		return 0
	}
}

// Preset names accepted by NewSpec.
const (
	PresetS1      = "S1"      // base scaled preset, 16 (or 32) validators
	PresetS2      = "S2"      // ejection-prone: EJECTION_BALANCE 31000, harsher penalties
	PresetS3      = "S3"      // churn-bound: CHURN_LIMIT_QUOTIENT 4, meant for 32 validators
	PresetS4      = "S4"      // 2 slots/epoch, 8 validators, cheapest
	PresetMinimal = "minimal" // the standard consensus-specs "minimal" preset (Gwei-sized values!)
)

// ScaledPresets lists the scaled preset names.
var ScaledPresets = []string{PresetS1, PresetS2, PresetS3, PresetS4}

// DefaultValidatorCount is the validator count each preset is designed for.
func DefaultValidatorCount(preset string) int {
	switch preset {
	case PresetS3:
		return 32
	case PresetS4:
		return 8
	case PresetMinimal:
		return 64
	default:
		return 16
	}
}

// IsScaled tells whether all amounts of the preset stay below 2^31.
func IsScaled(preset string) bool { return preset != PresetMinimal }

// NewSpec builds a fresh *common.Spec for the named preset and fork schedule.
// The returned spec has NO execution engine; NewGenesis installs a ScriptedEngine
// (or set spec.ExecutionEngine yourself). It panics on an unknown preset name or a
// non-monotone schedule (programming errors).
//
// Every value of the scaled presets is listed and explained in scaledS1 below; S2, S3
// and S4 are stated as differences from S1.
func NewSpec(preset string, forks ForkSchedule) *common.Spec {
	if err := forks.Validate(); err != nil {
		panic(err)
	}
	var spec *common.Spec
	switch preset {
	case PresetS1:
		spec = scaledS1()
	case PresetS2:
		spec = scaledS1()
		spec.CONFIG_NAME = "verif-S2"
		// Ejection-prone: a validator drops below the ejection balance after one or two
		// missed epochs / one sync-committee period of absence, while the exit queue
		// (churn 2) is still busy.
		spec.EJECTION_BALANCE = 31000
		// larger penalties: leak bites twice as hard in every fork (still distinct per fork)
		spec.INACTIVITY_PENALTY_QUOTIENT = 32
		spec.INACTIVITY_PENALTY_QUOTIENT_ALTAIR = 24
		spec.INACTIVITY_PENALTY_QUOTIENT_BELLATRIX = 16
	case PresetS3:
		spec = scaledS1()
		spec.CONFIG_NAME = "verif-S3"
		// Churn-bound: with 32 validators churn = max(2, 32/4) = 8 before the deneb cap
		// (MAX_PER_EPOCH_ACTIVATION_CHURN_LIMIT 3) and 2 <-> 8 depending on the active count,
		// so "queued beyond churn" and the EIP-7514 cap are both reachable.
		spec.CHURN_LIMIT_QUOTIENT = 4
		spec.MIN_GENESIS_ACTIVE_VALIDATOR_COUNT = 16
	case PresetS4:
		spec = scaledS1()
		spec.CONFIG_NAME = "verif-S4"
		// Cheapest: 2 slots per epoch, 8 validators => 4 validators per slot, 2 committees of 2.
		spec.SLOTS_PER_EPOCH = 2
		// keep SLOTS_PER_HISTORICAL_ROOT (8) >= 2 epochs + window; a historical batch is 4 epochs
		spec.MIN_GENESIS_ACTIVE_VALIDATOR_COUNT = 4
	case PresetMinimal:
		c := *configs.Minimal
		spec = &c
		spec.MIN_GENESIS_ACTIVE_VALIDATOR_COUNT = 16
		spec.MIN_GENESIS_TIME = 0
	default:
		panic(fmt.Sprintf("chain.NewSpec: unknown preset %q", preset))
	}
	spec.ALTAIR_FORK_EPOCH = forks.Altair
	spec.BELLATRIX_FORK_EPOCH = forks.Bellatrix
	spec.CAPELLA_FORK_EPOCH = forks.Capella
	spec.DENEB_FORK_EPOCH = forks.Deneb
	spec.ELECTRA_FORK_EPOCH = FarFuture
	spec.FULU_FORK_EPOCH = FarFuture
	spec.EIP7441_FORK_EPOCH = FarFuture
	spec.EIP7732_FORK_EPOCH = FarFuture
	spec.ExecutionEngine = nil
	return spec
}

// ScheduleOf reads the fork schedule back from a spec.
func ScheduleOf(spec *common.Spec) ForkSchedule {
	return ForkSchedule{spec.ALTAIR_FORK_EPOCH, spec.BELLATRIX_FORK_EPOCH, spec.CAPELLA_FORK_EPOCH, spec.DENEB_FORK_EPOCH}
}

// scaledS1 is the base scaled preset of DESIGN appendix A.
//
// Design rules: (i) every intermediate product of the consensus-spec formulas stays far
// below 2^31 (see README "magnitudes"); (ii) every per-fork constant has a distinct value;
// (iii) every limit is small; (iv) periods are short, so every periodic event happens
// several times in a 12..16 epoch chain.
func scaledS1() *common.Spec {
	return &common.Spec{
		Phase0Preset: common.Phase0Preset{
			// 16 validators / 4 slots = 4 per slot = 2 committees of TARGET size 2.
			MAX_COMMITTEES_PER_SLOT: 2,
			TARGET_COMMITTEE_SIZE:   2,
			// Bitlist limit of aggregation bits. Committees never exceed 8 members here,
			// 32 keeps "bits length + 1" variants inside the SSZ limit.
			MAX_VALIDATORS_PER_COMMITTEE: 32,
			// 3 rounds is enough to get non-trivial permutations and keeps TLC's transcription cheap.
			SHUFFLE_ROUND_COUNT: 3,

			// Effective balance hysteresis: down 1/4, up 5/4 of an increment (= mainnet ratios).
			HYSTERESIS_QUOTIENT:            4,
			HYSTERESIS_DOWNWARD_MULTIPLIER: 1,
			HYSTERESIS_UPWARD_MULTIPLIER:   5,

			// "Gwei" are scaled by 10^-6: one increment = 1000, max effective = 32 increments.
			MIN_DEPOSIT_AMOUNT:          1000,
			MAX_EFFECTIVE_BALANCE:       32000,
			EFFECTIVE_BALANCE_INCREMENT: 1000,

			MIN_ATTESTATION_INCLUSION_DELAY: 1,
			SLOTS_PER_EPOCH:                 4,
			MIN_SEED_LOOKAHEAD:              1,
			MAX_SEED_LOOKAHEAD:              2, // activation/exit delay = 1 + 2 = 3 epochs
			EPOCHS_PER_ETH1_VOTING_PERIOD:   2, // 8 slots (S4: 4 slots) per voting period
			// 8 slots: block/state root vectors wrap every 2 epochs; historical batch every 2 epochs.
			// Must be >= 2*SLOTS_PER_EPOCH for the deneb inclusion window (EIP-7045) to be servable.
			SLOTS_PER_HISTORICAL_ROOT:        8,
			MIN_EPOCHS_TO_INACTIVITY_PENALTY: 2, // leak starts when finality_delay > 2

			EPOCHS_PER_HISTORICAL_VECTOR: 8, // randao mixes; must exceed MIN_SEED_LOOKAHEAD+1
			EPOCHS_PER_SLASHINGS_VECTOR:  4, // slashed validator: withdrawable after 4 epochs, penalty at +2
			HISTORICAL_ROOTS_LIMIT:       64,
			VALIDATOR_REGISTRY_LIMIT:     64,

			// base_reward (phase0) = eff * 64 / isqrt(total) / 4  ~ 716 for 16x32000.
			BASE_REWARD_FACTOR:            64,
			WHISTLEBLOWER_REWARD_QUOTIENT: 8, // 32000/8 = 4000 to the whistleblower (= proposer)
			PROPOSER_REWARD_QUOTIENT:      4,
			// Per-fork values are pairwise distinct (phase0 / altair / bellatrix+):
			INACTIVITY_PENALTY_QUOTIENT:      64,
			MIN_SLASHING_PENALTY_QUOTIENT:    8,
			PROPORTIONAL_SLASHING_MULTIPLIER: 1,

			MAX_PROPOSER_SLASHINGS: 2,
			MAX_ATTESTER_SLASHINGS: 2,
			MAX_ATTESTATIONS:       4,
			MAX_DEPOSITS:           2,
			MAX_VOLUNTARY_EXITS:    2,
		},
		AltairPreset: common.AltairPreset{
			INACTIVITY_PENALTY_QUOTIENT_ALTAIR:      48,
			MIN_SLASHING_PENALTY_QUOTIENT_ALTAIR:    6,
			PROPORTIONAL_SLASHING_MULTIPLIER_ALTAIR: 2,
			// Must be a multiple of SYNC_COMMITTEE_SUBNET_COUNT (4, a Go constant in zrnt) for the
			// subnet helpers; 8 = one byte of bits. With 8..32 validators duplicates are common.
			SYNC_COMMITTEE_SIZE:              8,
			EPOCHS_PER_SYNC_COMMITTEE_PERIOD: 2,
			MIN_SYNC_COMMITTEE_PARTICIPANTS:  1,
		},
		BellatrixPreset: common.BellatrixPreset{
			INACTIVITY_PENALTY_QUOTIENT_BELLATRIX:      32,
			MIN_SLASHING_PENALTY_QUOTIENT_BELLATRIX:    4,
			PROPORTIONAL_SLASHING_MULTIPLIER_BELLATRIX: 3,
			MAX_BYTES_PER_TRANSACTION:                  64,
			MAX_TRANSACTIONS_PER_PAYLOAD:               4,
			// zrnt hard-codes both as Go constants (common.BYTES_PER_LOGS_BLOOM = 256,
			// common.MAX_EXTRA_DATA_BYTES = 32): the preset fields are ignored, keep them equal.
			BYTES_PER_LOGS_BLOOM: 256,
			MAX_EXTRA_DATA_BYTES: 32,
		},
		CapellaPreset: common.CapellaPreset{
			MAX_BLS_TO_EXECUTION_CHANGES: 2,
			MAX_WITHDRAWALS_PER_PAYLOAD:  2,
			// 5 does not divide 8/16/32: the sweep start walks over every residue.
			MAX_VALIDATORS_PER_WITHDRAWALS_SWEEP: 5,
		},
		DenebPreset: common.DenebPreset{
			FIELD_ELEMENTS_PER_BLOB:              4096, // unused by the transition
			MAX_BLOB_COMMITMENTS_PER_BLOCK:       4,    // SSZ list limit
			KZG_COMMITMENT_INCLUSION_PROOF_DEPTH: 9,    // unused by the transition
		},
		ElectraPreset: configs.Minimal.ElectraPreset, // never active
		Config: common.Config{
			PRESET_BASE: "verif-scaled",
			CONFIG_NAME: "verif-S1",

			TERMINAL_TOTAL_DIFFICULTY:            view.Uint256View{},
			TERMINAL_BLOCK_HASH:                  common.Root{},
			TERMINAL_BLOCK_HASH_ACTIVATION_EPOCH: FarFuture,

			MIN_GENESIS_ACTIVE_VALIDATOR_COUNT: 8,
			MIN_GENESIS_TIME:                   0,
			GENESIS_DELAY:                      7,

			// Five pairwise distinct versions (first byte = fork number, last byte marks the net).
			GENESIS_FORK_VERSION:   common.Version{0x00, 0x00, 0x00, 0x5a},
			ALTAIR_FORK_VERSION:    common.Version{0x01, 0x00, 0x00, 0x5a},
			BELLATRIX_FORK_VERSION: common.Version{0x02, 0x00, 0x00, 0x5a},
			CAPELLA_FORK_VERSION:   common.Version{0x03, 0x00, 0x00, 0x5a},
			DENEB_FORK_VERSION:     common.Version{0x04, 0x00, 0x00, 0x5a},
			ELECTRA_FORK_VERSION:   common.Version{0x05, 0x00, 0x00, 0x5a},
			FULU_FORK_VERSION:      common.Version{0x06, 0x00, 0x00, 0x5a},
			EIP7441_FORK_VERSION:   common.Version{0x08, 0x00, 0x00, 0x5a},
			EIP7732_FORK_VERSION:   common.Version{0x09, 0x00, 0x00, 0x5a},

			SECONDS_PER_SLOT:                    6,
			SECONDS_PER_ETH1_BLOCK:              14,
			MIN_VALIDATOR_WITHDRAWABILITY_DELAY: 2,
			SHARD_COMMITTEE_PERIOD:              2, // exits allowed from epoch activation+2
			ETH1_FOLLOW_DISTANCE:                4,

			INACTIVITY_SCORE_BIAS:          4,
			INACTIVITY_SCORE_RECOVERY_RATE: 3,
			EJECTION_BALANCE:               16000,
			MIN_PER_EPOCH_CHURN_LIMIT:      2,
			CHURN_LIMIT_QUOTIENT:           8, // 16 or 32 validators: churn = max(2, n/8) = 2..4
			// deneb (EIP-7514) activation cap; 3 is between min churn 2 and S3's 8.
			MAX_PER_EPOCH_ACTIVATION_CHURN_LIMIT: 3,

			PROPOSER_SCORE_BOOST:                40,
			REORG_HEAD_WEIGHT_THRESHOLD:         20,
			REORG_PARENT_WEIGHT_THRESHOLD:       160,
			REORG_MAX_EPOCHS_SINCE_FINALIZATION: 2,

			DEPOSIT_CHAIN_ID:         5,
			DEPOSIT_NETWORK_ID:       5,
			DEPOSIT_CONTRACT_ADDRESS: common.Eth1Address{0x12, 0x34},

			// Networking values: copied from minimal where gossip validation reads them.
			MAX_PAYLOAD_SIZE:                   10485760,
			MAX_REQUEST_BLOCKS:                 1024,
			EPOCHS_PER_SUBNET_SUBSCRIPTION:     256,
			MIN_EPOCHS_FOR_BLOCK_REQUESTS:      272,
			TTFB_TIMEOUT:                       5,
			RESP_TIMEOUT:                       10,
			ATTESTATION_PROPAGATION_SLOT_RANGE: 32,
			MAXIMUM_GOSSIP_CLOCK_DISPARITY:     500,
			MESSAGE_DOMAIN_INVALID_SNAPPY:      common.NetworkMessageDomain{0, 0, 0, 0},
			MESSAGE_DOMAIN_VALID_SNAPPY:        common.NetworkMessageDomain{1, 0, 0, 0},
			SUBNETS_PER_NODE:                   2,
			ATTESTATION_SUBNET_COUNT:           64,
			ATTESTATION_SUBNET_EXTRA_BITS:      0,
			ATTESTATION_SUBNET_PREFIX_BITS:     6,

			MAX_REQUEST_BLOCKS_DENEB:              128,
			MIN_EPOCHS_FOR_BLOB_SIDECARS_REQUESTS: 4096,
			BLOB_SIDECAR_SUBNET_COUNT:             2,
			// The only deneb config value read by the transition: payload commitments <= 2
			// (distinct from the SSZ limit MAX_BLOB_COMMITMENTS_PER_BLOCK = 4, so 3 and 4
			// commitments decode but must be rejected).
			MAX_BLOBS_PER_BLOCK:       2,
			MAX_REQUEST_BLOB_SIDECARS: 256,

			// electra / fulu: never active, minimal's values
			MIN_PER_EPOCH_CHURN_LIMIT_ELECTRA:         configs.Minimal.MIN_PER_EPOCH_CHURN_LIMIT_ELECTRA,
			MAX_PER_EPOCH_ACTIVATION_EXIT_CHURN_LIMIT: configs.Minimal.MAX_PER_EPOCH_ACTIVATION_EXIT_CHURN_LIMIT,
			BLOB_SIDECAR_SUBNET_COUNT_ELECTRA:         configs.Minimal.BLOB_SIDECAR_SUBNET_COUNT_ELECTRA,
			MAX_BLOBS_PER_BLOCK_ELECTRA:               configs.Minimal.MAX_BLOBS_PER_BLOCK_ELECTRA,
			MAX_REQUEST_BLOB_SIDECARS_ELECTRA:         configs.Minimal.MAX_REQUEST_BLOB_SIDECARS_ELECTRA,
		},
	}
}
