package chain

import (
	"testing"

	"github.com/protolambda/zrnt/eth2/beacon/capella"
	"github.com/protolambda/zrnt/eth2/beacon/common"
)

// scheduleFor returns the schedule that makes f active from genesis and nothing later.
func scheduleFor(f Fork) ForkSchedule {
	switch f {
	case Altair:
		return Forks(0, FarFuture, FarFuture, FarFuture)
	case Bellatrix:
		return Forks(0, 0, FarFuture, FarFuture)
	case Capella:
		return Forks(0, 0, 0, FarFuture)
	case Deneb:
		return AllAt(0)
	}
	return Phase0Only
}

// forEachFork runs fn once per fork, in parallel; it returns when all are done.
func forEachFork(t *testing.T, fn func(t *testing.T, f Fork)) {
	t.Run("forks", func(t *testing.T) {
		for _, f := range AllForks {
			f := f
			t.Run(f.String(), func(t *testing.T) {
				t.Parallel()
				fn(t, f)
			})
		}
	})
}

func mustApply(t *testing.T, c *Chain, plan BlockPlan) *common.BeaconBlockEnvelope {
	t.Helper()
	env, err := c.ProduceAndApply(plan)
	if err != nil {
		t.Fatalf("slot %d: %v", plan.Slot, err)
	}
	return env
}

func TestAttestationKinds(t *testing.T) {
	forEachFork(t, func(t *testing.T, f Fork) {
		c := newChain(t, PresetS1, scheduleFor(f), nil)
		mustApply(t, c, BlockPlan{Slot: 1})
		mustApply(t, c, BlockPlan{Slot: 2})
		// slot 3: four different attestations
		env := mustApply(t, c, BlockPlan{Slot: 3, Attestations: []AttPlan{
			{Slot: 1, Index: 0},                      // whole committee, delay 2
			{Slot: 1, Index: 1, Positions: []int{1}}, // one member
			{Slot: 2, Index: 0, WrongHead: true},
			{Slot: 2, Index: 1, WrongTarget: true, Fraction: 0.5},
		}})
		if n := CountOps(env.Body).Attestations; n != 4 {
			t.Fatalf("%d attestations in block", n)
		}
		// duplicates are valid
		mustApply(t, c, BlockPlan{Slot: 4, Attestations: []AttPlan{{Slot: 3, Index: 0}, {Slot: 3, Index: 0}}})
		// latest possible inclusion of a slot-4 attestation
		_, last := InclusionWindow(c.Spec, f, 4)
		env = mustApply(t, c, BlockPlan{Slot: last, Attestations: []AttPlan{{Slot: 4, Index: 0}, {Slot: 4, Index: 1}}})
		if n := CountOps(env.Body).Attestations; n != 2 {
			t.Fatalf("%d attestations in block", n)
		}
		if f >= Deneb && last != 11 || f < Deneb && last != 8 {
			t.Fatalf("window end %d", last)
		}
	})
}

func TestSlashings(t *testing.T) {
	forEachFork(t, func(t *testing.T, f Fork) {
		c := newChain(t, PresetS1, scheduleFor(f), nil)
		if err := c.RunHonest(5); err != nil {
			t.Fatal(err)
		}
		pre, _ := c.PreState(6)
		prop, _ := pre.Proposer(6)
		var vict []common.ValidatorIndex
		for i := common.ValidatorIndex(0); len(vict) < 6; i++ {
			if i != prop {
				vict = append(vict, i)
			}
		}
		mustApply(t, c, BlockPlan{Slot: 6,
			ProposerSlashings: []ProposerSlashingPlan{{Proposer: vict[0]}, {Proposer: vict[1], HeaderSlot: 2}},
			AttesterSlashings: []AttesterSlashingPlan{
				{Indices: []common.ValidatorIndex{vict[3], vict[2]}},                          // double vote
				{Indices: []common.ValidatorIndex{vict[4]}, Surround: true, Only2: vict[5:6]}, // surround, partial intersection
			}})
		for i, v := range vict {
			got := c.Validator(v).Slashed
			want := i < 5
			if got != want {
				t.Errorf("validator %d slashed=%v want %v", v, got, want)
			}
		}
		// the chain goes on
		if err := c.RunHonest(10); err != nil {
			t.Fatal(err)
		}
	})
}

func TestExits(t *testing.T) {
	forEachFork(t, func(t *testing.T, f Fork) {
		c := newChain(t, PresetS1, scheduleFor(f), nil)
		first := common.Slot(c.Spec.SHARD_COMMITTEE_PERIOD) * c.Spec.SLOTS_PER_EPOCH
		if err := c.RunHonest(first - 1); err != nil {
			t.Fatal(err)
		}
		if c.CanExit(3) {
			t.Fatal("exit possible before SHARD_COMMITTEE_PERIOD")
		}
		e0 := common.Epoch(0)
		mustApply(t, c, BlockPlan{Slot: first, Exits: []ExitPlan{{Validator: 3}, {Validator: 4, Epoch: &e0}}})
		mustApply(t, c, BlockPlan{Slot: first + 1, Exits: []ExitPlan{{Validator: 5}}})
		churn := c.Spec.GetChurnLimit(uint64(len(c.ActiveIndices())))
		e3, e4, e5 := c.Validator(3).ExitEpoch, c.Validator(4).ExitEpoch, c.Validator(5).ExitEpoch
		if e3 == FarFuture || e3 != e4 {
			t.Fatalf("exit epochs %d %d", e3, e4)
		}
		if churn == 2 && e5 != e3+1 {
			t.Fatalf("third exit not queued behind churn: %d vs %d", e5, e3)
		}
	})
}

func TestDepositsFromGenesisBacklog(t *testing.T) {
	forEachFork(t, func(t *testing.T, f Fork) {
		c := newChain(t, PresetS1, scheduleFor(f), func(o *GenesisOpts) {
			o.PendingDeposits = []DepositSpec{
				{Key: 16},                                  // new validator
				{Key: 17, BadSignature: true},              // ignored
				{Key: 3, Amount: 2000},                     // top-up
				{Key: 4, Amount: 1000, BadSignature: true}, // top-up, signature irrelevant
				{Key: 18, Amount: 5000, Eth1Creds: true},   // new, partial balance, 0x01 creds
			}
		})
		if c.ValidatorCount() != 16 {
			t.Fatal("pending deposits must not be in the genesis registry")
		}
		b3, b4 := c.Balance(3), c.Balance(4)
		for s := common.Slot(1); s <= 3; s++ {
			env := mustApply(t, c, BlockPlan{Slot: s})
			want := 2
			if s == 3 {
				want = 1
			}
			if n := CountOps(env.Body).Deposits; n != want {
				t.Fatalf("slot %d: %d deposits", s, n)
			}
		}
		if n := c.ValidatorCount(); n != 18 {
			t.Fatalf("%d validators", n)
		}
		if k := c.KeyOf(16); k != 16 {
			t.Fatalf("validator 16 has key %d", k)
		}
		if k := c.KeyOf(17); k != 18 {
			t.Fatalf("validator 17 has key %d (bad deposit of key 17 must be skipped)", k)
		}
		if c.Balance(17) != 5000 || c.Credentials(17)[0] != 1 {
			t.Fatalf("validator 17: balance %d creds %x", c.Balance(17), c.Credentials(17))
		}
		// rewards/penalties of 3 slots do not apply before the epoch ends
		if c.Balance(3) < b3+2000 || c.Balance(4) < b4+1000 {
			t.Fatalf("top-ups missing: %d->%d, %d->%d", b3, c.Balance(3), b4, c.Balance(4))
		}
		if err := c.RunHonest(8 * common.Slot(c.Spec.SLOTS_PER_EPOCH)); err != nil {
			t.Fatal(err)
		}
		if v := c.Validator(16); !v.IsActive(c.Epoch()) {
			t.Fatalf("validator 16 not activated by epoch %d: %+v", c.Epoch(), v)
		}
		if v := c.Validator(17); v.ActivationEligibilityEpoch != FarFuture {
			t.Fatalf("partial validator became eligible: %+v", v)
		}
	})
}

func TestDepositsThroughEth1Voting(t *testing.T) {
	forEachFork(t, func(t *testing.T, f Fork) {
		c := newChain(t, PresetS1, scheduleFor(f), nil)
		if err := c.RunHonest(2); err != nil {
			t.Fatal(err)
		}
		c.AddDeposit(DepositSpec{Key: c.NextFreeKey()})
		c.AddDeposit(DepositSpec{Key: 1, Amount: 1000})
		c.AddDeposit(DepositSpec{Key: c.NextFreeKey()})
		n, err := c.DriveEth1Vote()
		if err != nil {
			t.Fatal(err)
		}
		ed, idx := c.Eth1()
		if ed.DepositCount != 19 {
			t.Fatalf("eth1 data count %d after %d blocks", ed.DepositCount, n)
		}
		// the adopting block already had to carry the first deposits
		if idx != 18 {
			t.Fatalf("deposit index %d", idx)
		}
		mustApply(t, c, BlockPlan{Slot: c.Slot() + 1})
		if _, idx := c.Eth1(); idx != 19 || c.ValidatorCount() != 18 {
			t.Fatalf("deposit index %d validators %d", idx, c.ValidatorCount())
		}
	})
}

func TestSyncAggregates(t *testing.T) {
	forEachFork(t, func(t *testing.T, f Fork) {
		if f < Altair {
			t.Skip("no sync committees")
		}
		c := newChain(t, PresetS1, scheduleFor(f), nil)
		mustApply(t, c, BlockPlan{Slot: 1, Sync: SyncPlan{None: true}})
		mustApply(t, c, BlockPlan{Slot: 2, Sync: SyncPlan{Fraction: 0.5}})
		mustApply(t, c, BlockPlan{Slot: 3, Sync: SyncPlan{Positions: []int{7, 0, 3}}})
		env := mustApply(t, c, BlockPlan{Slot: 5, Sync: SyncPlan{Except: map[common.ValidatorIndex]bool{c.SyncCommittee()[0]: true}}})
		if n := CountOps(env.Body).SyncBits; n >= 8 || n == 0 {
			t.Fatalf("%d sync bits", n)
		}
		// across a sync committee period boundary
		if err := c.RunHonest(common.Slot(3*c.Spec.EPOCHS_PER_SYNC_COMMITTEE_PERIOD) * c.Spec.SLOTS_PER_EPOCH); err != nil {
			t.Fatal(err)
		}
	})
}

func TestMergeTransition(t *testing.T) {
	c := newChain(t, PresetS1, Forks(0, 1, 3, FarFuture), nil)
	if err := c.RunHonest(3); err != nil {
		t.Fatal(err)
	}
	// two pre-merge bellatrix blocks
	mustApply(t, c, BlockPlan{Slot: 4, Payload: PayloadPlan{PreMerge: true}})
	mustApply(t, c, BlockPlan{Slot: 5, Payload: PayloadPlan{PreMerge: true}})
	if c.MergeComplete() || c.Engine.NumCalls() != 0 {
		t.Fatalf("merge complete=%v engine calls=%d", c.MergeComplete(), c.Engine.NumCalls())
	}
	env := mustApply(t, c, BlockPlan{Slot: 6})
	if !c.MergeComplete() {
		t.Fatal("merge not complete after first payload")
	}
	calls := c.Engine.Calls()
	if len(calls) != 2 || calls[0].Method != EngIsValidBlockHash || calls[1].Method != EngNotifyNewPayload || calls[1].BlockHash != PayloadOf(env.Body).BlockHash {
		t.Fatalf("engine calls: %+v", calls)
	}
	// a pre-merge payload is no longer acceptable
	if _, err := c.ProduceAndApply(BlockPlan{Slot: 7, Payload: PayloadPlan{PreMerge: true}}); err == nil {
		t.Fatal("default payload accepted after the merge")
	}
	if err := c.RunHonest(16); err != nil {
		t.Fatal(err)
	}
	// never merged in bellatrix: capella's first payload builds on the zero hash
	c2 := newChain(t, PresetS1, Forks(0, 0, 1, 2), nil)
	for s := common.Slot(1); s <= 3; s++ {
		mustApply(t, c2, BlockPlan{Slot: s, Payload: PayloadPlan{PreMerge: true}})
	}
	if err := c2.RunHonest(10); err != nil {
		t.Fatal(err)
	}
}

func TestBLSChangesAndWithdrawals(t *testing.T) {
	for _, f := range []Fork{Capella, Deneb} {
		f := f
		t.Run(f.String(), func(t *testing.T) {
			c := newChain(t, PresetS1, scheduleFor(f), func(o *GenesisOpts) {
				o.Eth1Creds = []int{0, 1}
				o.Balances = []common.Gwei{33000, 32000, 40000}
			})
			// validator 0 has excess balance and 0x01 credentials: partial withdrawal in block 1
			env := mustApply(t, c, BlockPlan{Slot: 1, BLSChanges: []BLSChangePlan{{Validator: 2}, {Validator: 5}}})
			w := PayloadOf(env.Body).Withdrawals
			if len(w) != 1 || w[0].ValidatorIndex != 0 || w[0].Amount != 1000 || w[0].Address != Eth1Address(0) {
				t.Fatalf("withdrawals %+v", w)
			}
			if b := c.Balance(0); b < 32000 || b > 32200 { // 32000 + sync/proposer rewards of the block
				t.Fatalf("balance %d", c.Balance(0))
			}
			if c.HasBLSCredentials(2) || c.HasBLSCredentials(5) || !c.HasBLSCredentials(6) {
				t.Fatal("credentials not switched")
			}
			// validator 2 (40000, now 0x01) gets swept in the next blocks
			total := 0
			for s := common.Slot(2); s <= 8; s++ {
				env := mustApply(t, c, BlockPlan{Slot: s})
				ws := PayloadOf(env.Body).Withdrawals
				total += len(ws)
				// cross-check with zrnt's own computation on the pre-state
			}
			if c.Balance(2) > 32000+3000 {
				t.Fatalf("validator 2 not swept: %d (withdrawals seen %d)", c.Balance(2), total)
			}
			// exit validator 1 (0x01 creds) -> full withdrawal once withdrawable
			if err := c.RunHonest(2*common.Slot(c.Spec.SLOTS_PER_EPOCH) - 1); err != nil {
				t.Fatal(err)
			}
			mustApply(t, c, BlockPlan{Slot: c.Slot() + 1, Exits: []ExitPlan{{Validator: 1}}})
			wd := c.Validator(1).WithdrawableEpoch
			if err := c.RunHonest(common.Slot(wd+2) * c.Spec.SLOTS_PER_EPOCH); err != nil {
				t.Fatal(err)
			}
			if c.Balance(1) > 1000 { // sync committee rewards may trickle in after the full withdrawal
				t.Fatalf("validator 1 not fully withdrawn: %d", c.Balance(1))
			}
		})
	}
}

func TestExpectedWithdrawalsAgreeWithZrnt(t *testing.T) {
	c := newChain(t, PresetS1, Forks(0, 0, 0, 2), func(o *GenesisOpts) {
		o.Eth1Creds = []int{0, 1, 2, 3, 4, 5, 6, 7, 8, 9, 10, 11}
		o.Balances = []common.Gwei{33000, 32001, 40000, 32000, 32500, 45000}
	})
	for s := common.Slot(1); s <= 14; s++ {
		pre, err := c.PreState(s)
		if err != nil {
			t.Fatal(err)
		}
		mine := pre.ExpectedWithdrawals()
		theirs, err := capella.GetExpectedWithdrawals(pre.State.BeaconState.(capella.BeaconStateWithWithdrawals), c.Spec)
		if err != nil {
			t.Fatal(err)
		}
		if len(mine) != len(theirs) {
			t.Fatalf("slot %d: harness %v zrnt %v", s, mine, theirs)
		}
		for i := range mine {
			if mine[i] != theirs[i] {
				t.Fatalf("slot %d: harness %v zrnt %v", s, mine, theirs)
			}
		}
		mustApply(t, c, BlockPlan{Slot: s})
	}
}

func TestBlobs(t *testing.T) {
	c := newChain(t, PresetS1, AllAt(0), nil)
	for n := 0; n <= int(c.Spec.MAX_BLOBS_PER_BLOCK); n++ {
		c.Engine.Reset()
		env := mustApply(t, c, BlockPlan{Slot: c.Slot() + 1, Blobs: n})
		if CountOps(env.Body).Blobs != n {
			t.Fatal("blob count")
		}
		calls := c.Engine.Calls()
		if len(calls) != 3 || calls[1].Method != EngIsValidVersionedHashes || len(calls[1].VersionedHashes) != n {
			t.Fatalf("calls %+v", calls)
		}
		for i, h := range calls[1].VersionedHashes {
			if h != VersionedHash(MakeCommitment(env.Slot, i)) {
				t.Fatalf("versioned hash %d", i)
			}
		}
		if calls[0].ParentBeaconBlockRoot != env.ParentRoot {
			t.Fatal("parent beacon block root")
		}
	}
	if _, err := c.ProduceAndApply(BlockPlan{Slot: c.Slot() + 1, Blobs: int(c.Spec.MAX_BLOBS_PER_BLOCK) + 1}); err == nil {
		t.Fatal("too many blobs accepted")
	}
}

func TestScriptedEngineVerdicts(t *testing.T) {
	c := newChain(t, PresetS1, AllAt(0), nil)
	mustApply(t, c, BlockPlan{Slot: 1})
	for seq := 0; seq < 3; seq++ {
		for _, v := range []EngineVerdict{EngineInvalid, EngineError} {
			c.Engine.Reset()
			c.Engine.Plan = nil
			c.Engine.SetVerdict(seq, v)
			env, err := c.Produce(BlockPlan{Slot: 2})
			if err != nil {
				t.Fatal(err)
			}
			if c.Engine.NumCalls() != 0 {
				t.Fatal("Produce left a trace in the engine")
			}
			if err := c.Apply(env); err == nil {
				t.Fatalf("block accepted although engine call %d said %v", seq, v)
			}
			if c.Slot() != 1 || c.Scratch == nil {
				t.Fatal("failed apply must leave the chain unchanged")
			}
		}
	}
	c.Engine.Plan = nil
	mustApply(t, c, BlockPlan{Slot: 2})
}

func TestCopyIsIndependent(t *testing.T) {
	c := newChain(t, PresetS1, oneForkPerEpoch, func(o *GenesisOpts) {
		o.PendingDeposits = []DepositSpec{{Key: 16}, {Key: 17}}
	})
	a := c.Copy()
	root := c.StateRoot()
	// the copy takes another path: different deposits appear at index 16
	mustApply(t, a, BlockPlan{Slot: 1})
	if c.StateRoot() != root || c.Slot() != 0 || len(c.Blocks) != 0 {
		t.Fatal("copy affected the original")
	}
	b := c.Copy()
	b.AddDeposit(DepositSpec{Key: 40})
	if c.Deposits.Count() != 18 || b.Deposits.Count() != 19 {
		t.Fatal("deposit trees not independent")
	}
	mustApply(t, c, BlockPlan{Slot: 2})
	if err := a.RunHonest(8); err != nil {
		t.Fatal(err)
	}
	if err := c.RunHonest(8); err != nil {
		t.Fatal(err)
	}
}
