package chain

import (
	"crypto/sha256"
	"encoding/binary"
	"fmt"

	"github.com/protolambda/zrnt/eth2/beacon/bellatrix"
	"github.com/protolambda/zrnt/eth2/beacon/capella"
	"github.com/protolambda/zrnt/eth2/beacon/common"
	"github.com/protolambda/zrnt/eth2/beacon/deneb"
	"github.com/protolambda/ztyp/view"
)

// Payload is the fork-independent form of an execution payload; ToBellatrix/ToCapella/
// ToDeneb convert it into zrnt's types (dropping the fields the fork does not have).
type Payload struct {
	ParentHash    common.Root
	FeeRecipient  common.Eth1Address
	StateRoot     common.Root
	ReceiptsRoot  common.Root
	LogsBloom     common.LogsBloom
	PrevRandao    common.Root
	BlockNumber   uint64
	GasLimit      uint64
	GasUsed       uint64
	Timestamp     common.Timestamp
	ExtraData     []byte
	BaseFeePerGas uint64
	BlockHash     common.Root
	Transactions  [][]byte
	Withdrawals   []common.Withdrawal // capella+
	BlobGasUsed   uint64              // deneb+
	ExcessBlobGas uint64              // deneb+
}

// PayloadPlan tunes the execution payload of a produced block.
type PayloadPlan struct {
	// PreMerge (bellatrix only): put the default (all-zero) payload into the block, i.e.
	// execution stays disabled. Only valid while the merge has not happened. From
	// capella on the payload is processed unconditionally and this flag is ignored.
	PreMerge bool
	// Transactions: number of dummy transactions (default 1, at most
	// MAX_TRANSACTIONS_PER_PAYLOAD), each `0x02 ‖ slot ‖ i` (9 bytes).
	Transactions *int
	// Salt varies the block hash.
	Salt uint64
	// Mutate, if set, edits the payload after it was built (and before SealPayload
	// recomputes nothing: call p.Seal() yourself if the block hash should follow).
	Mutate func(p *Payload)
}

// LatestExecutionHeader returns (block_hash, block_number, isDefault) of
// state.latest_execution_payload_header; ok=false before bellatrix.
func (s *StateCtx) LatestExecutionHeader() (hash common.Root, number uint64, isDefault bool, ok bool) {
	switch st := s.State.BeaconState.(type) {
	case *bellatrix.BeaconStateView:
		h := must(must(st.LatestExecutionPayloadHeader()).Raw())
		done := must(st.IsTransitionCompleted())
		return h.BlockHash, uint64(h.BlockNumber), !done, true
	case *capella.BeaconStateView:
		hv := must(st.LatestExecutionPayloadHeader())
		h := must(hv.Raw())
		def := htr(hv) == htr(capella.ExecutionPayloadHeaderType.Default(nil))
		return h.BlockHash, uint64(h.BlockNumber), def, true
	case *deneb.BeaconStateView:
		hv := must(st.LatestExecutionPayloadHeader())
		h := must(hv.Raw())
		def := htr(hv) == htr(deneb.ExecutionPayloadHeaderType.Default(nil))
		return h.BlockHash, uint64(h.BlockNumber), def, true
	}
	return common.Root{}, 0, true, false
}

// MergeComplete is is_merge_transition_complete(state) (false before bellatrix).
func (s *StateCtx) MergeComplete() bool {
	_, _, def, ok := s.LatestExecutionHeader()
	return ok && !def
}

// ExpectedTimestamp is compute_timestamp_at_slot(state, state.slot).
func (s *StateCtx) ExpectedTimestamp() common.Timestamp {
	return s.GenesisTime() + common.Timestamp(s.Slot())*s.Spec.SECONDS_PER_SLOT
}

// ExpectedWithdrawals is the harness' own transcription of capella's
// get_expected_withdrawals (it does not call zrnt's): full withdrawals for withdrawable
// validators with 0x01 credentials and a balance, partial ones for the excess over
// MAX_EFFECTIVE_BALANCE, bounded by MAX_VALIDATORS_PER_WITHDRAWALS_SWEEP and
// MAX_WITHDRAWALS_PER_PAYLOAD. Returns nil before capella.
func (s *StateCtx) ExpectedWithdrawals() []common.Withdrawal {
	st, ok := s.State.BeaconState.(capella.BeaconStateWithWithdrawals)
	if !ok {
		return nil
	}
	epoch := s.Epoch()
	wIndex := must(st.NextWithdrawalIndex())
	vIndex := must(st.NextWithdrawalValidatorIndex())
	vals := s.Validators()
	bals := s.Balances()
	n := uint64(len(vals))
	bound := n
	if m := uint64(s.Spec.MAX_VALIDATORS_PER_WITHDRAWALS_SWEEP); m < bound {
		bound = m
	}
	out := []common.Withdrawal{}
	for i := uint64(0); i < bound; i++ {
		v := &vals[vIndex]
		bal := bals[vIndex]
		creds := s.Credentials(vIndex)
		eth1 := creds[0] == common.ETH1_ADDRESS_WITHDRAWAL_PREFIX
		var addr common.Eth1Address
		copy(addr[:], creds[12:])
		if eth1 && v.WithdrawableEpoch <= epoch && bal > 0 {
			out = append(out, common.Withdrawal{Index: wIndex, ValidatorIndex: vIndex, Address: addr, Amount: bal})
			wIndex++
		} else if eth1 && v.EffectiveBalance == s.Spec.MAX_EFFECTIVE_BALANCE && bal > s.Spec.MAX_EFFECTIVE_BALANCE {
			out = append(out, common.Withdrawal{Index: wIndex, ValidatorIndex: vIndex, Address: addr, Amount: bal - s.Spec.MAX_EFFECTIVE_BALANCE})
			wIndex++
		}
		if uint64(len(out)) == uint64(s.Spec.MAX_WITHDRAWALS_PER_PAYLOAD) {
			break
		}
		vIndex = common.ValidatorIndex((uint64(vIndex) + 1) % n)
	}
	return out
}

// BuildPayload builds the execution payload for a block on s (s at the block's slot,
// before the block): parent_hash = latest header's block hash, prev_randao = current
// randao mix, timestamp = compute_timestamp_at_slot, block_number = parent + 1, expected
// withdrawals (capella+), a few dummy transactions and a fresh block hash (Seal).
func (s *StateCtx) BuildPayload(p PayloadPlan) (out *Payload, err error) {
	defer recoverTo(&err)
	parentHash, parentNumber, _, ok := s.LatestExecutionHeader()
	if !ok {
		return nil, fmt.Errorf("no execution payload before bellatrix (state fork %s)", s.Fork())
	}
	slot := s.Slot()
	ntx := 1
	if p.Transactions != nil {
		ntx = *p.Transactions
	}
	if m := int(s.Spec.MAX_TRANSACTIONS_PER_PAYLOAD); ntx > m {
		ntx = m
	}
	// Every field that process_execution_payload copies into latest_execution_payload_header gets a distinct,
	// non-zero value that varies from slot to slot (so a header built from the wrong field, or a stale one, shows).
	sl := uint64(slot)
	out = &Payload{
		ParentHash:    parentHash,
		FeeRecipient:  common.Eth1Address{0xfe, 0xe0, byte(sl), byte(sl >> 8), 19: byte(0x10 + sl%7)},
		StateRoot:     UnknownRoot("exec-state", sl),
		ReceiptsRoot:  UnknownRoot("exec-receipts", sl),
		PrevRandao:    s.RandaoMix(s.Epoch()),
		BlockNumber:   parentNumber + 1,
		GasLimit:      30000 + sl%11,
		GasUsed:       uint64(21*ntx) + sl%5,
		Timestamp:     s.ExpectedTimestamp(),
		ExtraData:     []byte{'v', 'e', 'r', 'i', 'f', byte('a' + sl%26)},
		BaseFeePerGas: 7 + sl%13,
		Withdrawals:   s.ExpectedWithdrawals(),
		// deneb only (dropped by ToBellatrix / ToCapella): never equal to each other
		BlobGasUsed:   1000 + 3*sl,
		ExcessBlobGas: 500 + 5*sl + 1,
	}
	bloom := UnknownRoot("exec-bloom", sl)
	copy(out.LogsBloom[:32], bloom[:])
	copy(out.LogsBloom[len(out.LogsBloom)-32:], bloom[:])
	for i := 0; i < ntx; i++ {
		tx := make([]byte, 9)
		tx[0] = 0x02
		binary.LittleEndian.PutUint32(tx[1:], uint32(slot))
		binary.LittleEndian.PutUint32(tx[5:], uint32(i))
		out.Transactions = append(out.Transactions, tx)
	}
	out.Seal(p.Salt)
	if p.Mutate != nil {
		p.Mutate(out)
	}
	return out, nil
}

// Seal recomputes BlockHash as sha256 over the other fields and a salt.
func (p *Payload) Seal(salt uint64) {
	h := sha256.New()
	h.Write([]byte("exec-block"))
	h.Write(p.ParentHash[:])
	h.Write(p.PrevRandao[:])
	var b [8]byte
	for _, v := range []uint64{p.BlockNumber, uint64(p.Timestamp), p.GasUsed, uint64(len(p.Transactions)), uint64(len(p.Withdrawals)), p.BlobGasUsed, salt} {
		binary.LittleEndian.PutUint64(b[:], v)
		h.Write(b[:])
	}
	for _, tx := range p.Transactions {
		h.Write(tx)
	}
	for _, w := range p.Withdrawals {
		binary.LittleEndian.PutUint64(b[:], uint64(w.Index))
		h.Write(b[:])
		binary.LittleEndian.PutUint64(b[:], uint64(w.ValidatorIndex))
		h.Write(b[:])
		h.Write(w.Address[:])
		binary.LittleEndian.PutUint64(b[:], uint64(w.Amount))
		h.Write(b[:])
	}
	copy(p.BlockHash[:], h.Sum(nil))
}

func u256(v uint64) view.Uint256View { return view.Uint256View{v, 0, 0, 0} }

func (p *Payload) txs() common.PayloadTransactions {
	out := make(common.PayloadTransactions, len(p.Transactions))
	for i, tx := range p.Transactions {
		out[i] = append(common.Transaction(nil), tx...)
	}
	return out
}

func (p *Payload) wds() common.Withdrawals {
	return append(common.Withdrawals{}, p.Withdrawals...)
}

// ToBellatrix converts to zrnt's bellatrix payload.
func (p *Payload) ToBellatrix() bellatrix.ExecutionPayload {
	return bellatrix.ExecutionPayload{
		ParentHash: p.ParentHash, FeeRecipient: p.FeeRecipient, StateRoot: p.StateRoot, ReceiptsRoot: p.ReceiptsRoot,
		LogsBloom: p.LogsBloom, PrevRandao: p.PrevRandao, BlockNumber: view.Uint64View(p.BlockNumber), GasLimit: view.Uint64View(p.GasLimit),
		GasUsed: view.Uint64View(p.GasUsed), Timestamp: p.Timestamp, ExtraData: append(common.ExtraData(nil), p.ExtraData...),
		BaseFeePerGas: u256(p.BaseFeePerGas), BlockHash: p.BlockHash, Transactions: p.txs(),
	}
}

// ToCapella converts to zrnt's capella payload.
func (p *Payload) ToCapella() capella.ExecutionPayload {
	return capella.ExecutionPayload{
		ParentHash: p.ParentHash, FeeRecipient: p.FeeRecipient, StateRoot: p.StateRoot, ReceiptsRoot: p.ReceiptsRoot,
		LogsBloom: p.LogsBloom, PrevRandao: p.PrevRandao, BlockNumber: view.Uint64View(p.BlockNumber), GasLimit: view.Uint64View(p.GasLimit),
		GasUsed: view.Uint64View(p.GasUsed), Timestamp: p.Timestamp, ExtraData: append(common.ExtraData(nil), p.ExtraData...),
		BaseFeePerGas: u256(p.BaseFeePerGas), BlockHash: p.BlockHash, Transactions: p.txs(), Withdrawals: p.wds(),
	}
}

// ToDeneb converts to zrnt's deneb payload.
func (p *Payload) ToDeneb() deneb.ExecutionPayload {
	return deneb.ExecutionPayload{
		ParentHash: p.ParentHash, FeeRecipient: p.FeeRecipient, StateRoot: p.StateRoot, ReceiptsRoot: p.ReceiptsRoot,
		LogsBloom: p.LogsBloom, PrevRandao: p.PrevRandao, BlockNumber: view.Uint64View(p.BlockNumber), GasLimit: view.Uint64View(p.GasLimit),
		GasUsed: view.Uint64View(p.GasUsed), Timestamp: p.Timestamp, ExtraData: append(common.ExtraData(nil), p.ExtraData...),
		BaseFeePerGas: u256(p.BaseFeePerGas), BlockHash: p.BlockHash, Transactions: p.txs(), Withdrawals: p.wds(),
		BlobGasUsed: view.Uint64View(p.BlobGasUsed), ExcessBlobGas: view.Uint64View(p.ExcessBlobGas),
	}
}

// PayloadOf extracts the fork-independent payload from a block body (nil before bellatrix).
func PayloadOf(body common.SpecObj) *Payload {
	conv := func(txs common.PayloadTransactions) [][]byte {
		out := make([][]byte, len(txs))
		for i, t := range txs {
			out[i] = append([]byte(nil), t...)
		}
		return out
	}
	big := func(v view.Uint256View) uint64 { return v[0] } // harness payloads keep base fee < 2^64
	switch b := body.(type) {
	case *bellatrix.BeaconBlockBody:
		e := &b.ExecutionPayload
		return &Payload{ParentHash: e.ParentHash, FeeRecipient: e.FeeRecipient, StateRoot: e.StateRoot, ReceiptsRoot: e.ReceiptsRoot,
			LogsBloom: e.LogsBloom, PrevRandao: e.PrevRandao, BlockNumber: uint64(e.BlockNumber), GasLimit: uint64(e.GasLimit), GasUsed: uint64(e.GasUsed),
			Timestamp: e.Timestamp, ExtraData: append([]byte(nil), e.ExtraData...), BaseFeePerGas: big(e.BaseFeePerGas), BlockHash: e.BlockHash,
			Transactions: conv(e.Transactions)}
	case *capella.BeaconBlockBody:
		e := &b.ExecutionPayload
		return &Payload{ParentHash: e.ParentHash, FeeRecipient: e.FeeRecipient, StateRoot: e.StateRoot, ReceiptsRoot: e.ReceiptsRoot,
			LogsBloom: e.LogsBloom, PrevRandao: e.PrevRandao, BlockNumber: uint64(e.BlockNumber), GasLimit: uint64(e.GasLimit), GasUsed: uint64(e.GasUsed),
			Timestamp: e.Timestamp, ExtraData: append([]byte(nil), e.ExtraData...), BaseFeePerGas: big(e.BaseFeePerGas), BlockHash: e.BlockHash,
			Transactions: conv(e.Transactions), Withdrawals: append([]common.Withdrawal(nil), e.Withdrawals...)}
	case *deneb.BeaconBlockBody:
		e := &b.ExecutionPayload
		return &Payload{ParentHash: e.ParentHash, FeeRecipient: e.FeeRecipient, StateRoot: e.StateRoot, ReceiptsRoot: e.ReceiptsRoot,
			LogsBloom: e.LogsBloom, PrevRandao: e.PrevRandao, BlockNumber: uint64(e.BlockNumber), GasLimit: uint64(e.GasLimit), GasUsed: uint64(e.GasUsed),
			Timestamp: e.Timestamp, ExtraData: append([]byte(nil), e.ExtraData...), BaseFeePerGas: big(e.BaseFeePerGas), BlockHash: e.BlockHash,
			Transactions: conv(e.Transactions), Withdrawals: append([]common.Withdrawal(nil), e.Withdrawals...),
			BlobGasUsed: uint64(e.BlobGasUsed), ExcessBlobGas: uint64(e.ExcessBlobGas)}
	}
	return nil
}

// SetPayload writes a payload into a bellatrix/capella/deneb block body.
func SetPayload(body common.SpecObj, p *Payload) error {
	switch b := body.(type) {
	case *bellatrix.BeaconBlockBody:
		b.ExecutionPayload = p.ToBellatrix()
	case *capella.BeaconBlockBody:
		b.ExecutionPayload = p.ToCapella()
	case *deneb.BeaconBlockBody:
		b.ExecutionPayload = p.ToDeneb()
	default:
		return fmt.Errorf("body %T has no execution payload", body)
	}
	return nil
}

// MakeCommitment returns an opaque 48-byte "KZG commitment" (0xc0-prefixed so that it
// even looks like a compressed point at first sight; zrnt never decodes it).
func MakeCommitment(slot common.Slot, i int) (c common.KZGCommitment) {
	h := sha256.Sum256([]byte(fmt.Sprintf("blob:%d:%d", slot, i)))
	copy(c[:32], h[:])
	h2 := sha256.Sum256(h[:])
	copy(c[32:], h2[:16])
	return c
}

// VersionedHash is kzg_commitment_to_versioned_hash: 0x01 ‖ sha256(commitment)[1:].
func VersionedHash(c common.KZGCommitment) (out common.Root) {
	out = sha256.Sum256(c[:])
	out[0] = common.VERSIONED_HASH_VERSION_KZG
	return out
}
