package chain

import (
	"context"
	"math/rand"
	"testing"

	"github.com/protolambda/zrnt/eth2/beacon/altair"
	"github.com/protolambda/zrnt/eth2/beacon/common"
	"github.com/protolambda/zrnt/eth2/util/merkle"
	"github.com/protolambda/ztyp/tree"
)

func TestDepositTreeAgainstZrnt(t *testing.T) {
	spec := NewSpec(PresetS1, Phase0Only)
	ks := NewKeys()
	tr := NewDepositTree()
	for i := 0; i < 11; i++ {
		tr.Append(MakeDepositData(spec, ks, DepositSpec{Key: KeyID(i), Amount: common.Gwei(1000 * (i + 1))}))
	}
	for count := uint64(1); count <= tr.Count(); count++ {
		root := tr.Root(count)
		for i := uint64(0); i < count; i++ {
			d := tr.Deposit(i, count)
			if !merkle.VerifyMerkleBranch(d.Data.HashTreeRoot(tree.GetHashFn()), d.Proof[:], common.DEPOSIT_CONTRACT_TREE_DEPTH+1, i, root) {
				t.Fatalf("zrnt rejects proof %d/%d", i, count)
			}
			if !VerifyDepositProof(&d, i, root) {
				t.Fatalf("own verifier rejects proof %d/%d", i, count)
			}
			if i+1 < count && VerifyDepositProof(&d, i+1, root) {
				t.Fatalf("proof %d/%d verifies at the wrong index", i, count)
			}
		}
	}
	cl := tr.Clone()
	cl.Append(MakeDepositData(spec, ks, DepositSpec{Key: 50}))
	tr.Append(MakeDepositData(spec, ks, DepositSpec{Key: 51}))
	if cl.Root(12) == tr.Root(12) || cl.Root(11) != tr.Root(11) {
		t.Fatal("clone not independent")
	}
}

func TestSignatureRegistry(t *testing.T) {
	c := newChain(t, PresetS1, Forks(0, 0, 0, 1), nil)
	if err := c.RunHonest(5); err != nil {
		t.Fatal(err)
	}
	env := c.Blocks[len(c.Blocks)-1]
	info, ok := c.Keys.Lookup(env.Signature)
	if !ok {
		t.Fatal("block signature not in registry")
	}
	if len(info.Signers) != 1 || info.Signers[0] != c.KeyOf(env.ProposerIndex) || info.Message != env.BlockRoot ||
		info.DomainType != common.DOMAIN_BEACON_PROPOSER || info.ForkVersion != c.Spec.DENEB_FORK_VERSION || info.GVR != c.GVR() {
		t.Fatalf("bad registry entry %+v", info)
	}
	ops := OpsOf(env.Body)
	for _, a := range *ops.Attestations {
		i, ok := c.Keys.Lookup(a.Signature)
		if !ok || i.DomainType != common.DOMAIN_BEACON_ATTESTER || i.Message != a.Data.HashTreeRoot(tree.GetHashFn()) {
			t.Fatalf("attestation signature: %+v", i)
		}
		// slot 4 is in epoch 1 = deneb; its attestations are signed under the deneb version
		if i.ForkVersion != c.Spec.DENEB_FORK_VERSION {
			t.Fatalf("attestation fork version %s", i.ForkVersion)
		}
	}
	si, ok := c.Keys.Lookup(ops.SyncAggregate.SyncCommitteeSignature)
	if !ok || len(si.Signers) != int(c.Spec.SYNC_COMMITTEE_SIZE) || si.DomainType != common.DOMAIN_SYNC_COMMITTEE || si.Message != env.ParentRoot {
		t.Fatalf("sync signature: %+v", si)
	}
	if _, ok := c.Keys.Lookup(common.BLSSignature{1}); ok {
		t.Fatal("unknown signature found")
	}
	// first deneb block (slot 4) signs over the parent at slot 3 with the CAPELLA version
	first := c.Blocks[3]
	si, _ = c.Keys.Lookup(OpsOf(first.Body).SyncAggregate.SyncCommitteeSignature)
	if si.ForkVersion != c.Spec.CAPELLA_FORK_VERSION {
		t.Fatalf("sync aggregate across the fork signed with %s", si.ForkVersion)
	}
}

type countingObserver struct {
	bs, as, bb, ab int
	preSlot        common.Slot
	t              *testing.T
}

func (o *countingObserver) BeforeSlots(c *Chain, to common.Slot) { o.bs++; o.preSlot = c.Slot() }
func (o *countingObserver) AfterSlots(c *Chain, to common.Slot, err error) {
	o.as++
	if err == nil && c.Slot() != to {
		o.t.Errorf("after slots: at %d want %d", c.Slot(), to)
	}
}
func (o *countingObserver) BeforeBlock(c *Chain, env *common.BeaconBlockEnvelope) {
	o.bb++
	o.preSlot = c.Slot()
}
func (o *countingObserver) AfterBlock(c *Chain, env *common.BeaconBlockEnvelope, err error) {
	o.ab++
	if err == nil && c.Slot() != env.Slot {
		o.t.Errorf("after block: at %d want %d", c.Slot(), env.Slot)
	}
	if err != nil && (c.Slot() != o.preSlot || c.Scratch == nil) {
		o.t.Errorf("failed block changed the chain")
	}
}

type countingRunner struct {
	ZrntRunner
	slots, blocks int
	polls         *int
}

type countingCtx struct {
	context.Context
	n *int
}

func (c countingCtx) Err() error { *c.n++; return nil }

func (r *countingRunner) ProcessSlots(ctx context.Context, spec *common.Spec, epc *common.EpochsContext, state common.UpgradeableBeaconState, slot common.Slot) error {
	r.slots++
	return r.ZrntRunner.ProcessSlots(countingCtx{ctx, r.polls}, spec, epc, state, slot)
}
func (r *countingRunner) StateTransition(ctx context.Context, spec *common.Spec, epc *common.EpochsContext, state common.UpgradeableBeaconState, env *common.BeaconBlockEnvelope, validate bool) error {
	r.blocks++
	return r.ZrntRunner.StateTransition(countingCtx{ctx, r.polls}, spec, epc, state, env, validate)
}

func TestObserverAndRunner(t *testing.T) {
	c := newChain(t, PresetS1, oneForkPerEpoch, nil)
	obs := &countingObserver{t: t}
	polls := 0
	run := &countingRunner{polls: &polls}
	c.Observer, c.Runner = obs, run
	mustApply(t, c, BlockPlan{Slot: 1})
	if err := c.Slots(3); err != nil {
		t.Fatal(err)
	}
	mustApply(t, c, BlockPlan{Slot: 5})
	bad, _ := c.Produce(BlockPlan{Slot: 6})
	bad.StateRoot = common.Root{1}
	Seal(must(c.PreState(6)), bad, SealOpts{})
	if err := c.Apply(bad); err == nil {
		t.Fatal("bad block accepted")
	}
	if obs.bs != 1 || obs.as != 1 || obs.bb != 3 || obs.ab != 3 || run.slots != 1 || run.blocks != 3 || polls == 0 {
		t.Fatalf("observer %+v runner slots=%d blocks=%d polls=%d", obs, run.slots, run.blocks, polls)
	}
	cp := c.Copy()
	if cp.Observer == nil || cp.Runner == nil {
		t.Fatal("copy lost hooks")
	}
}

func TestScenarioDeterminism(t *testing.T) {
	run := func() []common.Root {
		spec := NewSpec(PresetS4, Forks(1, 2, 3, 4))
		c, err := NewGenesis(spec, GenesisOpts{Validators: 8})
		if err != nil {
			t.Fatal(err)
		}
		steps := RandomScenario(rand.New(rand.NewSource(7)), spec, ScenarioOpts{Epochs: 12, Validators: 8})
		if _, err := c.RunScenario(steps); err != nil {
			t.Fatal(err)
		}
		var roots []common.Root
		for _, b := range c.Blocks {
			roots = append(roots, b.BlockRoot)
		}
		return append(roots, c.StateRoot())
	}
	a, b := run(), run()
	if len(a) != len(b) {
		t.Fatal("different lengths")
	}
	for i := range a {
		if a[i] != b[i] {
			t.Fatalf("run differs at %d", i)
		}
	}
}

// Every number in every state of the scaled presets must fit TLC's 32-bit integers.
func TestMagnitudesStaySmall(t *testing.T) {
	const limit = 1 << 31
	for _, preset := range ScaledPresets {
		spec := NewSpec(preset, Forks(1, 3, 5, 7))
		n := DefaultValidatorCount(preset)
		c, err := NewGenesis(spec, GenesisOpts{Validators: n})
		if err != nil {
			t.Fatal(err)
		}
		steps := RandomScenario(rand.New(rand.NewSource(3)), spec, ScenarioOpts{Epochs: 20, Validators: n})
		res, err := c.RunScenario(steps)
		if err != nil {
			t.Fatal(err)
		}
		var maxBal, maxScore, maxSlash uint64
		for _, r := range res {
			if r.Post == nil {
				continue
			}
			for _, b := range r.Post.Balances() {
				if uint64(b) > maxBal {
					maxBal = uint64(b)
				}
			}
			if st, ok := r.Post.State.BeaconState.(interface {
				InactivityScores() (*altair.InactivityScoresView, error)
			}); ok {
				sc := must(st.InactivityScores())
				l := must(sc.Length())
				for i := uint64(0); i < l; i++ {
					v := must(sc.GetScore(common.ValidatorIndex(i)))
					if uint64(v) > maxScore {
						maxScore = uint64(v)
					}
				}
			}
			sl := must(r.Post.State.Slashings())
			if tot := uint64(must(sl.Total())); tot > maxSlash {
				maxSlash = tot
			}
			if uint64(r.Post.ExpectedTimestamp()) >= limit {
				t.Fatal("timestamp too large")
			}
		}
		t.Logf("%s: max balance %d, max inactivity score %d, max slashings sum %d", preset, maxBal, maxScore, maxSlash)
		// products the reference model forms: eff*score, eff/inc*slashings*3, base_reward*weight*increments
		if maxBal >= limit/64 || uint64(spec.MAX_EFFECTIVE_BALANCE)*(maxScore+1) >= limit || 32*maxSlash*3 >= limit {
			t.Fatalf("%s: magnitudes too large", preset)
		}
	}
}

// On the repaired zrnt (no compensation, the default) the epochs context follows the
// state's sync committee over many periods; blocks are signed by the state's committee.
// The same must hold with the compensation switched on.
func TestSyncCommitteeFollowsState(t *testing.T) {
	for _, comp := range []bool{false, true} {
		testSyncCommitteeFollowsState(t, comp)
	}
}

func testSyncCommitteeFollowsState(t *testing.T, compensate bool) {
	c := newChain(t, PresetS1, Forks(1, 2, FarFuture, FarFuture), nil)
	if c.CompensateSyncCache {
		t.Fatal("CompensateSyncCache must default to false")
	}
	c.CompensateSyncCache = compensate
	changes := 0
	var last []common.ValidatorIndex
	for s := common.Slot(1); s <= 40; s++ {
		if s%7 == 3 {
			if err := c.Slots(s); err != nil { // explicit Slots steps too
				t.Fatal(err)
			}
		} else if s%5 != 0 {
			mustApply(t, c, BlockPlan{Slot: s})
		}
		if c.Fork() == Phase0 {
			continue
		}
		st, cached := c.SyncCommittee(), c.SyncCommitteeCached()
		for i := range st {
			if st[i] != cached[i] {
				t.Fatalf("slot %d: state committee %v, epochs context %v", s, st, cached)
			}
		}
		if last != nil && !sameIndices(last, st) {
			changes++
		}
		last = st
	}
	if changes < 3 {
		t.Fatalf("sync committee changed only %d times in 10 epochs", changes)
	}
}

func sameIndices(a, b []common.ValidatorIndex) bool {
	if len(a) != len(b) {
		return false
	}
	for i := range a {
		if a[i] != b[i] {
			return false
		}
	}
	return true
}
