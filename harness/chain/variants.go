package chain

import (
	"errors"
	"fmt"

	"github.com/protolambda/zrnt/eth2/beacon/common"
	"github.com/protolambda/zrnt/eth2/beacon/phase0"
	"github.com/protolambda/ztyp/tree"
)

// ErrNotApplicable is returned by Variant.Make when the variant cannot be derived from
// the given block/state (e.g. "deposit with bad proof" from a block without deposits).
var ErrNotApplicable = errors.New("variant not applicable to this block")

// Variant derives an INVALID block from a valid one such that exactly one condition of
// the consensus specification fails. The proposer signature of the result is re-made
// valid unless the variant is about the signature; the state root is left as in the
// honest block (it is unobservable: processing fails earlier), except for
// "wrong-state-root".
type Variant struct {
	Name string
	// Condition names the violated condition.
	Condition string
	// Make builds the variant. pre is the state at the block's slot before the block
	// (Chain.PreState(env.Slot)); honest is not modified.
	Make func(pre *StateCtx, deposits *DepositTree, honest *common.BeaconBlockEnvelope) (*common.BeaconBlockEnvelope, error)
	// StillValid, if set, reports forks on which the mutated block is in fact VALID
	// (controls, e.g. an "old" attestation under deneb's EIP-7045 window).
	StillValid func(f Fork) bool
}

type bodyEdit func(pre *StateCtx, deposits *DepositTree, env *common.BeaconBlockEnvelope, ops *BodyOps) error

// edited clones the honest block, applies edit to the clone's body and reseals honestly.
func edited(edit bodyEdit) func(*StateCtx, *DepositTree, *common.BeaconBlockEnvelope) (*common.BeaconBlockEnvelope, error) {
	return func(pre *StateCtx, deposits *DepositTree, honest *common.BeaconBlockEnvelope) (out *common.BeaconBlockEnvelope, err error) {
		defer recoverTo(&err)
		env, err := CloneEnvelope(pre.Spec, honest)
		if err != nil {
			return nil, err
		}
		if err := edit(pre, deposits, env, OpsOf(env.Body)); err != nil {
			return nil, err
		}
		env.BodyRoot = env.Body.HashTreeRoot(pre.Spec, tree.GetHashFn())
		// Controls (StillValid) are processable: give them their real state root. For
		// invalid variants the dry run fails and the honest state root stays.
		if root, err := ComputeStateRoot(pre, env); err == nil {
			env.StateRoot = root
		}
		Reseal(pre, env, SealOpts{})
		return env, nil
	}
}

// resealed clones the honest block and seals the clone with other options / header edits.
func resealed(edit func(pre *StateCtx, env *common.BeaconBlockEnvelope) (SealOpts, error)) func(*StateCtx, *DepositTree, *common.BeaconBlockEnvelope) (*common.BeaconBlockEnvelope, error) {
	return func(pre *StateCtx, _ *DepositTree, honest *common.BeaconBlockEnvelope) (out *common.BeaconBlockEnvelope, err error) {
		defer recoverTo(&err)
		env, err := CloneEnvelope(pre.Spec, honest)
		if err != nil {
			return nil, err
		}
		opts, err := edit(pre, env)
		if err != nil {
			return nil, err
		}
		Seal(pre, env, opts)
		return env, nil
	}
}

// OtherForkVersion returns a configured fork version different from the state's
// current one: the previous fork's version if there is one, else the next fork's.
func OtherForkVersion(pre *StateCtx) common.Version {
	f := pre.Fork()
	if f > Phase0 {
		return ForkVersionOf(pre.Spec, f-1)
	}
	return ForkVersionOf(pre.Spec, f+1)
}

// appendAtt appends an attestation, replacing the last one if the list is full.
func appendAtt(spec *common.Spec, ops *BodyOps, a *phase0.Attestation) {
	if uint64(len(*ops.Attestations)) >= uint64(spec.MAX_ATTESTATIONS) {
		(*ops.Attestations)[len(*ops.Attestations)-1] = *a
		return
	}
	*ops.Attestations = append(*ops.Attestations, *a)
}

func editPayload(fn func(pre *StateCtx, p *Payload) error) bodyEdit {
	return func(pre *StateCtx, _ *DepositTree, env *common.BeaconBlockEnvelope, _ *BodyOps) error {
		p := PayloadOf(env.Body)
		if p == nil {
			return ErrNotApplicable
		}
		if pre.Fork() == Bellatrix && !pre.MergeComplete() && p.BlockHash == (common.Root{}) {
			return ErrNotApplicable // execution not enabled: payload is not looked at
		}
		if err := fn(pre, p); err != nil {
			return err
		}
		return SetPayload(env.Body, p)
	}
}

// Variants returns the catalogue of single-fault variants implemented by the harness
// (a representative subset of DESIGN appendix D; consumers derive more with the same
// building blocks: CloneEnvelope, OpsOf, PayloadOf/SetPayload, Make*, Reseal, Seal).
func Variants() []Variant {
	return []Variant{
		{Name: "proposer-sig-wrong-key", Condition: "block signature by the proposer's key",
			Make: resealed(func(pre *StateCtx, env *common.BeaconBlockEnvelope) (SealOpts, error) {
				k := pre.KeyOf(env.ProposerIndex) + 1
				return SealOpts{Signer: &k}, nil
			})},
		{Name: "proposer-sig-wrong-domain-type", Condition: "block signature under DOMAIN_BEACON_PROPOSER",
			Make: resealed(func(pre *StateCtx, env *common.BeaconBlockEnvelope) (SealOpts, error) {
				dt := common.DOMAIN_BEACON_ATTESTER
				return SealOpts{DomainType: &dt}, nil
			})},
		{Name: "proposer-sig-wrong-fork-version", Condition: "block signature under the state's current fork version",
			Make: resealed(func(pre *StateCtx, env *common.BeaconBlockEnvelope) (SealOpts, error) {
				v := OtherForkVersion(pre)
				return SealOpts{ForkVersion: &v}, nil
			})},
		{Name: "proposer-sig-wrong-gvr", Condition: "block signature under the state's genesis validators root",
			Make: resealed(func(pre *StateCtx, env *common.BeaconBlockEnvelope) (SealOpts, error) {
				g := UnknownRoot("gvr", 0)
				return SealOpts{GVR: &g}, nil
			})},
		{Name: "proposer-sig-other-message", Condition: "block signature over the block root",
			Make: resealed(func(pre *StateCtx, env *common.BeaconBlockEnvelope) (SealOpts, error) {
				m := UnknownRoot("msg", uint64(env.Slot))
				return SealOpts{Message: &m}, nil
			})},
		{Name: "wrong-parent-root", Condition: "block.parent_root == hash_tree_root(state.latest_block_header)",
			Make: resealed(func(pre *StateCtx, env *common.BeaconBlockEnvelope) (SealOpts, error) {
				env.ParentRoot = UnknownRoot("parent", uint64(env.Slot))
				return SealOpts{}, nil
			})},
		{Name: "wrong-state-root", Condition: "block.state_root == hash_tree_root(post state)",
			Make: resealed(func(pre *StateCtx, env *common.BeaconBlockEnvelope) (SealOpts, error) {
				env.StateRoot = UnknownRoot("state", uint64(env.Slot))
				return SealOpts{}, nil
			})},
		{Name: "wrong-proposer-index", Condition: "block.proposer_index == get_beacon_proposer_index(state)",
			Make: resealed(func(pre *StateCtx, env *common.BeaconBlockEnvelope) (SealOpts, error) {
				act := pre.ActiveIndices()
				for _, v := range act {
					if v != env.ProposerIndex && !pre.Validator(v).Slashed {
						env.ProposerIndex = v
						return SealOpts{}, nil // signed by the (wrong) proposer's own key
					}
				}
				return SealOpts{}, ErrNotApplicable
			})},
		{Name: "randao-wrong-epoch", Condition: "randao reveal signs the current epoch",
			Make: edited(func(pre *StateCtx, _ *DepositTree, env *common.BeaconBlockEnvelope, ops *BodyOps) error {
				e := pre.Epoch() + 1
				*ops.RandaoReveal = pre.Keys.Sign1(pre.KeyOf(env.ProposerIndex), htr(e), pre.Domain(common.DOMAIN_RANDAO, pre.Epoch()))
				return nil
			})},
		{Name: "attestation-too-new", Condition: "data.slot + MIN_ATTESTATION_INCLUSION_DELAY <= state.slot",
			Make: edited(func(pre *StateCtx, _ *DepositTree, env *common.BeaconBlockEnvelope, ops *BodyOps) error {
				a, err := pre.MakeAttestation(AttPlan{Slot: env.Slot, Index: 0})
				if err != nil || a == nil {
					return ErrNotApplicable
				}
				appendAtt(pre.Spec, ops, a)
				return nil
			})},
		{Name: "attestation-too-old", Condition: "state.slot <= data.slot + SLOTS_PER_EPOCH (removed in deneb)",
			StillValid: func(f Fork) bool { return f >= Deneb },
			Make: edited(func(pre *StateCtx, _ *DepositTree, env *common.BeaconBlockEnvelope, ops *BodyOps) error {
				spe := pre.Spec.SLOTS_PER_EPOCH
				if env.Slot < spe+1 {
					return ErrNotApplicable
				}
				slot := env.Slot - spe - 1
				if pre.Spec.SlotToEpoch(slot)+1 != pre.Epoch() {
					return ErrNotApplicable // would fail the target-epoch check instead
				}
				a, err := pre.MakeAttestation(AttPlan{Slot: slot, Index: 0})
				if err != nil || a == nil {
					return ErrNotApplicable
				}
				appendAtt(pre.Spec, ops, a)
				return nil
			})},
		{Name: "attestation-wrong-source", Condition: "data.source == justified checkpoint for the target epoch",
			Make: edited(func(pre *StateCtx, _ *DepositTree, env *common.BeaconBlockEnvelope, ops *BodyOps) error {
				src := common.Checkpoint{Epoch: pre.Epoch() + 1, Root: UnknownRoot("src", 0)}
				a, err := pre.MakeAttestation(AttPlan{Slot: env.Slot - 1, Index: 0, Source: &src})
				if err != nil || a == nil {
					return ErrNotApplicable
				}
				appendAtt(pre.Spec, ops, a)
				return nil
			})},
		{Name: "attestation-missing-signer", Condition: "aggregate signature by exactly the participants",
			Make: edited(func(pre *StateCtx, _ *DepositTree, env *common.BeaconBlockEnvelope, ops *BodyOps) error {
				committee, err := pre.Committee(env.Slot-1, 0)
				if err != nil || len(committee) < 2 {
					return ErrNotApplicable
				}
				a, err := pre.MakeAttestation(AttPlan{Slot: env.Slot - 1, Index: 0, Signers: pre.KeysOf(committee[1:])})
				if err != nil || a == nil {
					return ErrNotApplicable
				}
				appendAtt(pre.Spec, ops, a)
				return nil
			})},
		{Name: "attestation-wrong-fork-version", Condition: "attestation signature under get_domain(state, ATTESTER, target.epoch)",
			Make: edited(func(pre *StateCtx, _ *DepositTree, env *common.BeaconBlockEnvelope, ops *BodyOps) error {
				d := pre.Domain(common.DOMAIN_BEACON_ATTESTER, pre.Spec.SlotToEpoch(env.Slot-1))
				f := pre.ForkData()
				switch {
				case d.Version != f.CurrentVersion:
					d.Version = f.CurrentVersion // attestation of the epoch before the fork, signed with the new version
				case f.PreviousVersion != f.CurrentVersion:
					d.Version = f.PreviousVersion
				default:
					d.Version = OtherForkVersion(pre)
				}
				a, err := pre.MakeAttestation(AttPlan{Slot: env.Slot - 1, Index: 0, SignDomain: &d})
				if err != nil || a == nil {
					return ErrNotApplicable
				}
				appendAtt(pre.Spec, ops, a)
				return nil
			})},
		{Name: "exit-duplicate", Condition: "validator.exit_epoch == FAR_FUTURE_EPOCH (second copy of an exit)",
			Make: edited(func(pre *StateCtx, _ *DepositTree, env *common.BeaconBlockEnvelope, ops *BodyOps) error {
				if uint64(len(*ops.VoluntaryExits)) >= uint64(pre.Spec.MAX_VOLUNTARY_EXITS) {
					if len(*ops.VoluntaryExits) < 2 {
						return ErrNotApplicable
					}
					(*ops.VoluntaryExits)[1] = (*ops.VoluntaryExits)[0]
					return nil
				}
				if len(*ops.VoluntaryExits) > 0 {
					*ops.VoluntaryExits = append(*ops.VoluntaryExits, (*ops.VoluntaryExits)[0])
					return nil
				}
				if uint64(pre.Spec.MAX_VOLUNTARY_EXITS) < 2 {
					return ErrNotApplicable
				}
				for _, v := range pre.ActiveIndices() {
					if v != env.ProposerIndex && pre.CanExit(v) && !exitTouched(ops, v) {
						e, err := pre.MakeExit(ExitPlan{Validator: v})
						if err != nil {
							return err
						}
						*ops.VoluntaryExits = append(*ops.VoluntaryExits, *e, *e)
						return nil
					}
				}
				return ErrNotApplicable
			})},
		{Name: "exit-too-young", Condition: "current_epoch >= activation_epoch + SHARD_COMMITTEE_PERIOD",
			Make: edited(func(pre *StateCtx, _ *DepositTree, env *common.BeaconBlockEnvelope, ops *BodyOps) error {
				if uint64(len(*ops.VoluntaryExits)) >= uint64(pre.Spec.MAX_VOLUNTARY_EXITS) {
					return ErrNotApplicable
				}
				e := pre.Epoch()
				for _, v := range pre.ActiveIndices() {
					val := pre.Validator(v)
					if val.ExitEpoch == FarFuture && e < val.ActivationEpoch+pre.Spec.SHARD_COMMITTEE_PERIOD && !exitTouched(ops, v) {
						x, err := pre.MakeExit(ExitPlan{Validator: v})
						if err != nil {
							return err
						}
						*ops.VoluntaryExits = append(*ops.VoluntaryExits, *x)
						return nil
					}
				}
				return ErrNotApplicable
			})},
		{Name: "exit-wrong-domain", Condition: "exit signature domain (deneb: capella-pinned, EIP-7044)",
			Make: edited(func(pre *StateCtx, _ *DepositTree, env *common.BeaconBlockEnvelope, ops *BodyOps) error {
				if uint64(len(*ops.VoluntaryExits)) >= uint64(pre.Spec.MAX_VOLUNTARY_EXITS) {
					return ErrNotApplicable
				}
				for _, v := range pre.ActiveIndices() {
					if v != env.ProposerIndex && pre.CanExit(v) && !exitTouched(ops, v) {
						// the domain a pre-deneb client would use in deneb, and vice versa
						d := pre.Domain(common.DOMAIN_VOLUNTARY_EXIT, pre.Epoch())
						if d == pre.ExitDomain(pre.Epoch()) {
							d.Version = OtherForkVersion(pre)
						}
						x, err := pre.MakeExit(ExitPlan{Validator: v, Domain: &d})
						if err != nil {
							return err
						}
						*ops.VoluntaryExits = append(*ops.VoluntaryExits, *x)
						return nil
					}
				}
				return ErrNotApplicable
			})},
		{Name: "deposit-bad-proof", Condition: "is_valid_merkle_branch(deposit)",
			Make: edited(func(pre *StateCtx, _ *DepositTree, env *common.BeaconBlockEnvelope, ops *BodyOps) error {
				if len(*ops.Deposits) == 0 {
					return ErrNotApplicable
				}
				(*ops.Deposits)[len(*ops.Deposits)-1].Proof[1][7] ^= 0x10
				return nil
			})},
		{Name: "deposit-missing", Condition: "len(body.deposits) == min(MAX_DEPOSITS, deposit_count - deposit_index)",
			Make: edited(func(pre *StateCtx, _ *DepositTree, env *common.BeaconBlockEnvelope, ops *BodyOps) error {
				if len(*ops.Deposits) == 0 {
					return ErrNotApplicable
				}
				*ops.Deposits = (*ops.Deposits)[:len(*ops.Deposits)-1]
				return nil
			})},
		{Name: "proposer-slashing-same-header", Condition: "header_1 != header_2",
			Make: edited(func(pre *StateCtx, _ *DepositTree, env *common.BeaconBlockEnvelope, ops *BodyOps) error {
				if uint64(len(*ops.ProposerSlashings)) >= uint64(pre.Spec.MAX_PROPOSER_SLASHINGS) {
					return ErrNotApplicable
				}
				for _, v := range pre.ActiveIndices() {
					val := pre.Validator(v)
					if v != env.ProposerIndex && IsSlashable(&val, pre.Epoch()) {
						ps, err := pre.MakeProposerSlashing(ProposerSlashingPlan{Proposer: v, SameHeaders: true})
						if err != nil {
							return err
						}
						*ops.ProposerSlashings = append(*ops.ProposerSlashings, *ps)
						return nil
					}
				}
				return ErrNotApplicable
			})},
		{Name: "attester-slashing-not-slashable", Condition: "is_slashable_attestation_data(a1, a2)",
			Make: edited(func(pre *StateCtx, _ *DepositTree, env *common.BeaconBlockEnvelope, ops *BodyOps) error {
				if uint64(len(*ops.AttesterSlashings)) >= uint64(pre.Spec.MAX_ATTESTER_SLASHINGS) {
					return ErrNotApplicable
				}
				for _, v := range pre.ActiveIndices() {
					val := pre.Validator(v)
					if v != env.ProposerIndex && IsSlashable(&val, pre.Epoch()) {
						as, err := pre.MakeAttesterSlashing(AttesterSlashingPlan{Indices: []common.ValidatorIndex{v}, SameData: true})
						if err != nil {
							return err
						}
						*ops.AttesterSlashings = append(*ops.AttesterSlashings, *as)
						return nil
					}
				}
				return ErrNotApplicable
			})},
		{Name: "sync-aggregate-wrong-root", Condition: "sync committee signature over the previous slot's block root",
			Make: edited(func(pre *StateCtx, _ *DepositTree, env *common.BeaconBlockEnvelope, ops *BodyOps) error {
				if ops.SyncAggregate == nil {
					return ErrNotApplicable
				}
				r := UnknownRoot("sync", uint64(env.Slot))
				agg, err := pre.MakeSyncAggregate(SyncPlan{Root: &r})
				if err != nil {
					return err
				}
				*ops.SyncAggregate = *agg
				return nil
			})},
		{Name: "sync-aggregate-extra-bit", Condition: "sync committee signature by exactly the participants",
			Make: edited(func(pre *StateCtx, _ *DepositTree, env *common.BeaconBlockEnvelope, ops *BodyOps) error {
				if ops.SyncAggregate == nil {
					return ErrNotApplicable
				}
				members := pre.SyncCommittee()
				agg, err := pre.MakeSyncAggregate(SyncPlan{Signers: pre.KeysOf(members[1:])})
				if err != nil {
					return err
				}
				*ops.SyncAggregate = *agg
				return nil
			})},
		{Name: "payload-wrong-timestamp", Condition: "payload.timestamp == compute_timestamp_at_slot(state, state.slot)",
			Make: edited(editPayload(func(pre *StateCtx, p *Payload) error { p.Timestamp++; return nil }))},
		{Name: "payload-wrong-parent-hash", Condition: "payload.parent_hash == state.latest_execution_payload_header.block_hash",
			Make: edited(editPayload(func(pre *StateCtx, p *Payload) error {
				if pre.Fork() == Bellatrix && !pre.MergeComplete() {
					return ErrNotApplicable // parent hash is unconstrained in the merge transition block
				}
				p.ParentHash = UnknownRoot("exec-parent", p.BlockNumber)
				return nil
			}))},
		{Name: "payload-wrong-prev-randao", Condition: "payload.prev_randao == get_randao_mix(state, current_epoch)",
			Make: edited(editPayload(func(pre *StateCtx, p *Payload) error { p.PrevRandao[0] ^= 1; return nil }))},
		{Name: "wrong-withdrawals", Condition: "payload.withdrawals == get_expected_withdrawals(state)",
			Make: edited(editPayload(func(pre *StateCtx, p *Payload) error {
				if pre.Fork() < Capella {
					return ErrNotApplicable
				}
				if len(p.Withdrawals) > 0 {
					p.Withdrawals[0].Amount++
				} else {
					p.Withdrawals = append(p.Withdrawals, common.Withdrawal{Index: 0, ValidatorIndex: 0, Address: Eth1Address(0), Amount: 1})
				}
				return nil
			}))},
		{Name: "bls-change-wrong-key", Condition: "BLS change signed by the withdrawal key whose hash is in the credentials",
			Make: edited(func(pre *StateCtx, _ *DepositTree, env *common.BeaconBlockEnvelope, ops *BodyOps) error {
				if ops.BLSChanges == nil || uint64(len(*ops.BLSChanges)) >= uint64(pre.Spec.MAX_BLS_TO_EXECUTION_CHANGES) {
					return ErrNotApplicable
				}
				n := pre.ValidatorCount()
				for i := uint64(0); i < n; i++ {
					v := common.ValidatorIndex(i)
					if pre.HasBLSCredentials(v) && !blsTouched(ops, v) {
						k := pre.KeyOf(v) // the validator key instead of the withdrawal key
						ch, err := pre.MakeBLSChange(BLSChangePlan{Validator: v, Signer: &k})
						if err != nil {
							return err
						}
						*ops.BLSChanges = append(*ops.BLSChanges, *ch)
						return nil
					}
				}
				return ErrNotApplicable
			})},
		{Name: "too-many-blobs", Condition: "len(body.blob_kzg_commitments) <= MAX_BLOBS_PER_BLOCK",
			Make: edited(func(pre *StateCtx, _ *DepositTree, env *common.BeaconBlockEnvelope, ops *BodyOps) error {
				if ops.BlobCommitments == nil || pre.Spec.MAX_BLOBS_PER_BLOCK >= pre.Spec.MAX_BLOB_COMMITMENTS_PER_BLOCK {
					return ErrNotApplicable
				}
				for i := len(*ops.BlobCommitments); uint64(i) <= uint64(pre.Spec.MAX_BLOBS_PER_BLOCK); i++ {
					*ops.BlobCommitments = append(*ops.BlobCommitments, MakeCommitment(env.Slot, i))
				}
				return nil
			})},
	}
}

func exitTouched(ops *BodyOps, v common.ValidatorIndex) bool {
	for _, e := range *ops.VoluntaryExits {
		if e.Message.ValidatorIndex == v {
			return true
		}
	}
	for _, ps := range *ops.ProposerSlashings {
		if ps.SignedHeader1.Message.ProposerIndex == v {
			return true
		}
	}
	for _, as := range *ops.AttesterSlashings {
		for _, i := range as.Attestation1.AttestingIndices {
			if i == v {
				return true
			}
		}
	}
	return false
}

func blsTouched(ops *BodyOps, v common.ValidatorIndex) bool {
	for _, c := range *ops.BLSChanges {
		if c.BLSToExecutionChange.ValidatorIndex == v {
			return true
		}
	}
	return false
}

// VariantByName looks a variant up.
func VariantByName(name string) (Variant, error) {
	for _, v := range Variants() {
		if v.Name == name {
			return v, nil
		}
	}
	return Variant{}, fmt.Errorf("no variant %q", name)
}

// MakeVariant derives the named variant of an honest block that was produced on c's
// current head (c is not modified).
func (c *Chain) MakeVariant(name string, honest *common.BeaconBlockEnvelope) (*common.BeaconBlockEnvelope, error) {
	v, err := VariantByName(name)
	if err != nil {
		return nil, err
	}
	pre, err := c.PreState(honest.Slot)
	if err != nil {
		return nil, err
	}
	return v.Make(pre, c.Deposits, honest)
}
